(* C17 — facts about rendering: token lines are determined by the newline sequences of the
   separators and tokens before them; a layout change shifts them accordingly. *)
From GL Require Import Common.Bytes Dbg.Lines Dbg.LinesFacts Dbg.Layout.

Lemma nlc_tok_then : forall t p rest,
  tok_ok t -> nlc p (t ++ rest) = nl_count t + nl_count rest.
Proof.
  intros t p rest (Hne & Hh & Hl). unfold nl_count.
  rewrite nlc_app. rewrite (nl_state_last t p Hne Hl).
  rewrite (nlc_fresh t p Hh). reflexivity.
Qed.

(* the count of a rendered text is the sum over its separators and tokens *)
Lemma nl_count_render_app : forall toks lay tail,
  Forall tok_ok toks -> length lay = length toks ->
  nl_count (render toks lay ++ tail) = sum_nl lay + sum_nl toks + nl_count tail.
Proof.
  induction toks as [|t ts IH]; intros lay tail Hok Hlen.
  - destruct lay; simpl in *; [lia|discriminate].
  - destruct lay as [|s ss]; [discriminate|]. simpl in Hlen.
    inversion Hok as [|? ? Ht Hts]; subst.
    cbn [render sum_nl]. rewrite <- !app_assoc.
    unfold nl_count at 1. rewrite nlc_app.
    rewrite (nlc_tok_then t _ _ Ht).
    rewrite IH by (auto; lia). unfold nl_count. lia.
Qed.

Lemma nl_count_render : forall toks lay,
  Forall tok_ok toks -> length lay = length toks ->
  nl_count (render toks lay) = sum_nl lay + sum_nl toks.
Proof.
  intros. rewrite <- (app_nil_r (render toks lay)).
  rewrite nl_count_render_app by assumption. unfold nl_count. simpl. lia.
Qed.

Lemma Forall_firstn {A} (P : A -> Prop) (l : list A) n : Forall P l -> Forall P (firstn n l).
Proof.
  revert n. induction l as [|x l IH]; intros [|n] H; simpl; auto.
  inversion H; subst. constructor; auto.
Qed.

(* the text before token i is the rendering of the tokens before it plus its separator *)
Lemma firstn_tok_offset : forall toks lay i,
  length lay = length toks -> (i < length toks)%nat ->
  firstn (Z.to_nat (tok_offset toks lay i)) (render toks lay) =
  render (firstn i toks) (firstn i lay) ++ nth i lay [].
Proof.
  induction toks as [|t ts IH]; intros lay i Hlen Hi; [simpl in Hi; lia|].
  destruct lay as [|s ss]; [discriminate|]. simpl in Hlen, Hi.
  destruct i as [|j].
  - cbn [tok_offset render firstn nth]. unfold len. rewrite Nat2Z.id.
    rewrite <- (Nat.add_0_r (length s)). rewrite firstn_app_2. simpl. rewrite app_nil_r. reflexivity.
  - cbn [tok_offset render firstn nth]. unfold len.
    replace (Z.to_nat (Z.of_nat (length s) + Z.of_nat (length t) + tok_offset ts ss j))
      with (length s + (length t + Z.to_nat (tok_offset ts ss j)))%nat.
    2:{ assert (0 <= tok_offset ts ss j).
        { clear. revert ss j. induction ts as [|t ts IH]; intros [|s ss] [|j]; simpl; unfold len; try lia.
          specialize (IH ss j). lia. }
        lia. }
    rewrite firstn_app_2, firstn_app_2. rewrite IH by lia.
    rewrite <- !app_assoc. reflexivity.
Qed.

Lemma tok_offset_nonneg : forall ts ss j, 0 <= tok_offset ts ss j.
Proof.
  induction ts as [|t ts IH]; intros [|s ss] [|j]; simpl; unfold len; try lia.
  specialize (IH ss j). lia.
Qed.

Lemma firstn_tok_end : forall toks lay i,
  length lay = length toks -> (i < length toks)%nat ->
  firstn (Z.to_nat (tok_offset toks lay i + len (nth i toks []))) (render toks lay) =
  render (firstn (S i) toks) (firstn (S i) lay).
Proof.
  induction toks as [|t ts IH]; intros lay i Hlen Hi; [simpl in Hi; lia|].
  destruct lay as [|s ss]; [discriminate|]. simpl in Hlen, Hi.
  destruct i as [|j].
  - cbn [tok_offset render firstn nth]. unfold len.
    replace (Z.to_nat (Z.of_nat (length s) + Z.of_nat (length t))) with (length s + (length t + 0))%nat by lia.
    rewrite firstn_app_2, firstn_app_2. simpl. reflexivity.
  - cbn [tok_offset render nth]. unfold len.
    pose proof (tok_offset_nonneg ts ss j).
    replace (Z.to_nat (Z.of_nat (length s) + Z.of_nat (length t) + tok_offset ts ss j + Z.of_nat (length (nth j ts []))))
      with (length s + (length t + Z.to_nat (tok_offset ts ss j + len (nth j ts []))))%nat by (unfold len; lia).
    rewrite firstn_app_2, firstn_app_2. rewrite IH by lia.
    change (firstn (S (S j)) (t :: ts)) with (t :: firstn (S j) ts).
    change (firstn (S (S j)) (s :: ss)) with (s :: firstn (S j) ss).
    reflexivity.
Qed.

Lemma sum_nl_firstn_S : forall (l : list bytes) i,
  (i < length l)%nat -> sum_nl (firstn (S i) l) = sum_nl (firstn i l) + nl_count (nth i l []).
Proof.
  induction l as [|x l IH]; intros i Hi; [simpl in Hi; lia|].
  destruct i as [|j]; simpl in *.
  - lia.
  - specialize (IH j). simpl in IH. rewrite IH by lia. lia.
Qed.

(* ---- headline: the line of a token in closed form ---- *)
Theorem line_of_offset_render_lemma : forall toks lay i,
  Forall tok_ok toks -> length lay = length toks -> (i < length toks)%nat ->
  tok_line toks lay i = tok_line_closed toks lay i.
Proof.
  intros toks lay i Hok Hlen Hi. unfold tok_line, tok_line_closed, line_of_offset.
  rewrite firstn_tok_offset by assumption.
  rewrite nl_count_render_app.
  - rewrite sum_nl_firstn_S by lia. lia.
  - apply Forall_firstn; assumption.
  - rewrite !firstn_length. lia.
Qed.

Lemma tok_end_line_closed : forall toks lay i,
  Forall tok_ok toks -> length lay = length toks -> (i < length toks)%nat ->
  tok_end_line toks lay i = tok_line toks lay i + nl_count (nth i toks []).
Proof.
  intros toks lay i Hok Hlen Hi.
  rewrite line_of_offset_render_lemma by assumption.
  unfold tok_end_line, tok_line_closed, line_of_offset.
  rewrite firstn_tok_end by assumption.
  rewrite nl_count_render.
  - rewrite (sum_nl_firstn_S toks) by exact Hi. unfold token. lia.
  - apply Forall_firstn; assumption.
  - rewrite !firstn_length. lia.
Qed.

(* ---- layout shift ---- *)
Lemma sum_nl_same_except : forall lay lay' i k j,
  same_except lay lay' i -> (i < length lay)%nat ->
  nl_count (nth i lay' []) = nl_count (nth i lay []) + k ->
  sum_nl (firstn (S j) lay') = sum_nl (firstn (S j) lay) + (if (i <=? j)%nat then k else 0).
Proof.
  induction lay as [|s ss IH]; intros lay' i k j (Hlen & Hsame) Hi Hk; [simpl in Hi; lia|].
  destruct lay' as [|s' ss']; [discriminate|].
  destruct i as [|i'].
  - (* the changed separator is the first one; all others agree *)
    assert (Ess : ss' = ss).
    { apply nth_ext with (d := []) (d' := []); [simpl in Hlen; lia|].
      intros n Hn. symmetry. exact (Hsame (S n) ltac:(lia)). }
    subst ss'. simpl in Hk. cbn [firstn sum_nl]. simpl. lia.
  - assert (Es : s' = s) by (symmetry; exact (Hsame O ltac:(lia))). subst s'.
    destruct j as [|j'].
    + simpl. lia.
    + change (firstn (S (S j')) (s :: ss')) with (s :: firstn (S j') ss').
      change (firstn (S (S j')) (s :: ss)) with (s :: firstn (S j') ss).
      cbn [sum_nl].
      rewrite (IH ss' i' k j').
      * change (S i' <=? S j')%nat with (i' <=? j')%nat. lia.
      * split; [simpl in Hlen; lia|]. intros n Hn. exact (Hsame (S n) ltac:(lia)).
      * simpl in Hi. lia.
      * exact Hk.
Qed.

(* replacing the separator before token i by one with k more newline sequences moves tokens
   i, i+1, ... down by exactly k lines and leaves the others where they were *)
Theorem layout_shift_lemma : forall toks lay lay' i k j,
  Forall tok_ok toks -> length lay = length toks ->
  same_except lay lay' i -> (i < length toks)%nat ->
  nl_count (nth i lay' []) = nl_count (nth i lay []) + k ->
  (j < length toks)%nat ->
  tok_line toks lay' j = tok_line toks lay j + (if (i <=? j)%nat then k else 0).
Proof.
  intros toks lay lay' i k j Hok Hlen Hse Hi Hk Hj.
  destruct Hse as (Hl & Hs).
  rewrite !line_of_offset_render_lemma by (auto; lia).
  unfold tok_line_closed.
  rewrite (sum_nl_same_except lay lay' i k j) by (try split; auto; lia). lia.
Qed.

(* the same for the end of a token *)
Lemma layout_shift_end : forall toks lay lay' i k j,
  Forall tok_ok toks -> length lay = length toks ->
  same_except lay lay' i -> (i < length toks)%nat ->
  nl_count (nth i lay' []) = nl_count (nth i lay []) + k ->
  (j < length toks)%nat ->
  tok_end_line toks lay' j = tok_end_line toks lay j + (if (i <=? j)%nat then k else 0).
Proof.
  intros toks lay lay' i k j Hok Hlen Hse Hi Hk Hj.
  pose proof Hse as (Hl & _).
  rewrite !tok_end_line_closed by (auto; lia).
  rewrite (layout_shift_lemma toks lay lay' i k j) by assumption. lia.
Qed.

(* concrete insertion: writing extra separator text x in front of the separator of token i;
   the junction must not glue a CR to an LF (x does not end, or the old separator does not
   begin, with a newline byte) *)
Fixpoint insert_sep (lay : layout) (i : nat) (x : bytes) : layout :=
  match lay, i with
  | [], _ => []
  | s :: ss, O => (x ++ s) :: ss
  | s :: ss, S j => s :: insert_sep ss j x
  end.

Lemma insert_sep_same_except : forall lay i x, same_except lay (insert_sep lay i x) i.
Proof.
  induction lay as [|s ss IH]; intros i x.
  - split; [reflexivity|]. intros; simpl. destruct j; reflexivity.
  - destruct i as [|i']; simpl.
    + split; [reflexivity|]. intros [|j] Hj; [lia|reflexivity].
    + destruct (IH i' x) as (Hl & Hs). split; [simpl; lia|].
      intros [|j] Hj; [reflexivity|]. simpl. apply Hs. lia.
Qed.

Lemma insert_sep_nth : forall lay i x, (i < length lay)%nat ->
  nth i (insert_sep lay i x) [] = x ++ nth i lay [].
Proof.
  induction lay as [|s ss IH]; intros i x Hi; [simpl in Hi; lia|].
  destruct i; simpl; [reflexivity|]. apply IH. simpl in Hi. lia.
Qed.

Theorem layout_shift_insert_lemma : forall toks lay i x j,
  Forall tok_ok toks -> length lay = length toks -> (i < length toks)%nat ->
  (x = [] \/ is_nl (last x 0) = false \/ is_nl (hd 0 (nth i lay [])) = false) ->
  (j < length toks)%nat ->
  tok_line toks (insert_sep lay i x) j =
  tok_line toks lay j + (if (i <=? j)%nat then nl_count x else 0).
Proof.
  intros toks lay i x j Hok Hlen Hi Hj Hjl.
  apply layout_shift_lemma; auto.
  - apply insert_sep_same_except.
  - rewrite insert_sep_nth by (unfold layout, token, bytes in *; lia). unfold nl_count. rewrite nlc_app.
    destruct Hj as [E|[E|E]].
    + subst x. simpl. lia.
    + destruct x as [|c x']; [simpl; lia|].
      rewrite (nl_state_last (c :: x') 0) by (auto; congruence). lia.
    + pose proof (nlc_fresh _ (nl_state 0 x) E) as F. unfold layout, token, bytes in *. lia.
Qed.

(* ---- statements ---- *)
Theorem admissible_range_shift_lemma : forall toks lay lay' i k (s : stmt),
  Forall tok_ok toks -> length lay = length toks ->
  same_except lay lay' i -> (i < length toks)%nat ->
  nl_count (nth i lay' []) = nl_count (nth i lay []) + k ->
  0 <= fst s -> fst s <= snd s -> snd s < len toks ->
  admissible toks lay' s =
  (fst (admissible toks lay s) + (if (Z.of_nat i <=? fst s) then k else 0),
   snd (admissible toks lay s) + (if (Z.of_nat i <=? snd s) then k else 0)).
Proof.
  intros toks lay lay' i k [a b] Hok Hlen Hse Hi Hk Ha Hab Hb. simpl in *.
  unfold admissible, len in *. cbn [fst snd].
  rewrite (layout_shift_lemma toks lay lay' i k (Z.to_nat a)) by (auto; lia).
  rewrite (layout_shift_end toks lay lay' i k (Z.to_nat b)) by (auto; lia).
  f_equal; f_equal.
  - destruct (Nat.leb_spec i (Z.to_nat a)), (Z.leb_spec (Z.of_nat i) a); try reflexivity; lia.
  - destruct (Nat.leb_spec i (Z.to_nat b)), (Z.leb_spec (Z.of_nat i) b); try reflexivity; lia.
Qed.

Theorem single_line_statement_exact_lemma : forall toks lay (s : stmt) l,
  fst (admissible toks lay s) = snd (admissible toks lay s) ->
  in_range (admissible toks lay s) l -> l = fst (admissible toks lay s).
Proof. intros toks lay s l E [H1 H2]. lia. Qed.

(* a reporter that always names the line of one fixed token of the program reports a number
   that moves exactly with that token *)
Theorem reported_line_function_of_tokens_lemma : forall toks lay lay' i k (report : layout -> Z) j,
  Forall tok_ok toks -> length lay = length toks ->
  same_except lay lay' i -> (i < length toks)%nat ->
  nl_count (nth i lay' []) = nl_count (nth i lay []) + k ->
  (j < length toks)%nat ->
  (forall l, length l = length toks -> report l = tok_line toks l j) ->
  report lay' = report lay + (if (i <=? j)%nat then k else 0).
Proof.
  intros toks lay lay' i k report j Hok Hlen Hse Hi Hk Hj Hr.
  rewrite !Hr by (destruct Hse; lia). apply layout_shift_lemma; assumption.
Qed.

(* ---- innermost statement ---- *)
Lemma innermost_best : forall ss t best r,
  innermost ss t best = Some r ->
  (best = Some r \/ (In r ss /\ contains r t = true)).
Proof.
  induction ss as [|s ss IH]; intros t best r H; simpl in H; [left; exact H|].
  destruct (contains s t) eqn:C.
  - destruct best as [b|].
    + destruct (fst b <? fst s) eqn:L.
      * apply IH in H. destruct H as [H|[H1 H2]]; [right; inversion H; subst; simpl; auto|right; simpl; auto].
      * apply IH in H. destruct H as [H|[H1 H2]]; [left; exact H|right; simpl; auto].
    + apply IH in H. destruct H as [H|[H1 H2]]; [right; inversion H; subst; simpl; auto|right; simpl; auto].
  - apply IH in H. destruct H as [H|[H1 H2]]; [left; exact H|right; simpl; auto].
Qed.

Theorem innermost_contains : forall ss t r,
  innermost ss t None = Some r -> In r ss /\ fst r <= t <= snd r.
Proof.
  intros ss t r H. apply innermost_best in H. destruct H as [H|[H1 H2]]; [discriminate|].
  split; [exact H1|]. unfold contains in H2. lia.
Qed.

Lemma innermost_max : forall ss t best r,
  innermost ss t best = Some r ->
  (forall b, best = Some b -> fst b <= fst r) /\
  (forall s, In s ss -> contains s t = true -> fst s <= fst r).
Proof.
  induction ss as [|s ss IH]; intros t best r H; simpl in H.
  - split; [intros b Hb; rewrite Hb in H; inversion H; lia|intros s []].
  - destruct (contains s t) eqn:C.
    + destruct best as [b|].
      * destruct (fst b <? fst s) eqn:L; apply IH in H; destruct H as [Hb Hs]; split.
        -- intros b' Eb; inversion Eb; subst. specialize (Hb s eq_refl). lia.
        -- intros s' [E|I] Cs; [subst; apply (Hb s' eq_refl)|apply Hs; auto].
        -- intros b' Eb; inversion Eb; subst. apply (Hb b' eq_refl).
        -- intros s' [E|I] Cs; [subst; specialize (Hb b eq_refl); lia|apply Hs; auto].
      * apply IH in H; destruct H as [Hb Hs]; split; [intros b' Eb; discriminate|].
        intros s' [E|I] Cs; [subst; apply (Hb s' eq_refl)|apply Hs; auto].
    + apply IH in H; destruct H as [Hb Hs]; split; [exact Hb|].
      intros s' [E|I] Cs; [subst; congruence|apply Hs; auto].
Qed.

(* among laminar entries the one found is contained in every other entry that contains t *)
Theorem innermost_minimal : forall ss t r s,
  innermost ss t None = Some r -> In s ss -> contains s t = true ->
  (forall a b, In a ss -> In b ss -> contains a t = true -> contains b t = true ->
               fst a <= fst b -> snd b <= snd a) ->   (* laminar at t *)
  fst s <= fst r /\ snd r <= snd s.
Proof.
  intros ss t r s H Hs Cs Hlam.
  destruct (innermost_max ss t None r H) as [_ Hmax].
  destruct (innermost_best ss t None r H) as [E|[Hr Cr]]; [discriminate|].
  specialize (Hmax s Hs Cs). split; [exact Hmax|].
  apply (Hlam s r); auto.
Qed.

(* ---- monotonicity: later tokens are on later (or the same) lines ---- *)
Lemma nl_count_nonneg : forall b, 0 <= nl_count b.
Proof. intros. apply nlc_nonneg. Qed.

Lemma sum_nl_nonneg : forall l, 0 <= sum_nl l.
Proof. induction l as [|x l IH]; simpl; [lia|]. pose proof (nl_count_nonneg x). lia. Qed.

Lemma sum_nl_firstn_mono : forall (l : list bytes) i j, (i <= j)%nat -> sum_nl (firstn i l) <= sum_nl (firstn j l).
Proof.
  induction l as [|x l IH]; intros i j H.
  - rewrite !firstn_nil. lia.
  - destruct i as [|i]; destruct j as [|j]; try lia.
    + simpl firstn at 1. simpl sum_nl at 1. apply sum_nl_nonneg.
    + cbn [firstn sum_nl]. specialize (IH i j ltac:(lia)). lia.
Qed.

Lemma tok_line_mono : forall toks lay i j,
  Forall tok_ok toks -> length lay = length toks -> (i <= j)%nat -> (j < length toks)%nat ->
  tok_line toks lay i <= tok_line toks lay j.
Proof.
  intros toks lay i j Hok Hlen Hij Hj.
  rewrite !line_of_offset_render_lemma by (auto; lia). unfold tok_line_closed.
  pose proof (sum_nl_firstn_mono lay (S i) (S j) ltac:(lia)).
  pose proof (sum_nl_firstn_mono toks i j Hij). unfold token, layout in *. lia.
Qed.

(* a reporter that names, in every layout, the line of one fixed token j of a statement stays
   inside the admissible range of that statement in every layout *)
Theorem anchored_reporter_admissible_lemma : forall toks (s : stmt) j (report : layout -> Z),
  Forall tok_ok toks ->
  0 <= fst s -> fst s <= j <= snd s -> snd s < len toks ->
  (forall lay, length lay = length toks -> report lay = tok_line toks lay (Z.to_nat j)) ->
  forall lay, length lay = length toks -> in_range (admissible toks lay s) (report lay).
Proof.
  intros toks [a b] j report Hok Ha Hj Hb Hr lay Hlen. simpl in *. unfold len in Hb.
  rewrite Hr by assumption. unfold in_range, admissible. cbn [fst snd]. split.
  - apply tok_line_mono; auto; lia.
  - rewrite tok_end_line_closed by (auto; lia).
    pose proof (tok_line_mono toks lay (Z.to_nat j) (Z.to_nat b) Hok Hlen ltac:(lia) ltac:(lia)).
    pose proof (nl_count_nonneg (nth (Z.to_nat b) toks [])). lia.
Qed.

Lemma compiler_lines_admissible_partial_lemma : forall toks stmts site s j (report : layout -> Z),
  Forall tok_ok toks ->
  innermost stmts site None = Some s ->
  0 <= fst s -> fst s <= j <= snd s -> snd s < len toks ->
  (forall lay, length lay = length toks -> report lay = tok_line toks lay (Z.to_nat j)) ->
  exists s, innermost stmts site None = Some s /\
            forall lay, length lay = length toks -> in_range (admissible toks lay s) (report lay).
Proof.
  intros toks stmts site s j report Hok Hi Ha Hj Hb Hr. exists s. split; [exact Hi|].
  exact (anchored_reporter_admissible_lemma toks s j report Hok Ha Hj Hb Hr).
Qed.

Lemma innermost_is_innermost_lemma : forall ss t r,
  innermost ss t None = Some r ->
  (In r ss /\ fst r <= t <= snd r) /\
  ((forall a b, In a ss -> In b ss -> contains a t = true -> contains b t = true ->
                fst a <= fst b -> snd b <= snd a) ->
   forall s, In s ss -> contains s t = true -> fst s <= fst r /\ snd r <= snd s).
Proof.
  intros ss t r H. split; [exact (innermost_contains ss t r H)|].
  intros Hlam s Hs Cs. exact (innermost_minimal ss t r s H Hs Cs Hlam).
Qed.
