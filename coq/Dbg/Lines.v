(* C17 — reference line counting (model file: definitions only, proofs in LinesFacts.v).

   Reference rule (Lua 5.1 llex.c `inclinenumber`, identical to parse/lexer.go
   `Scanner.Next`/`Newline`): reading left to right, a byte '\n' or '\r' starts a newline
   sequence; if the byte that follows is the *other* newline byte it belongs to the same
   sequence.  So each of LF, CR, CRLF, LFCR counts once, "\n\n" and "\r\r" count twice,
   "\n\r\n" counts twice.  The line of a byte offset is 1 + the number of newline sequences
   that start before it. *)
From GL Require Import Common.Bytes.

Definition is_nl (c : Z) : bool := (c =? 10) || (c =? 13).

(* `prev` is the newline byte that opened a sequence still able to absorb its partner
   (0 = none).  One structural step per byte, as the scanner's Next/Newline pair. *)
Definition nl_step (prev c : Z) : Z * Z :=          (* (new prev, increment) *)
  if is_nl c then
    if is_nl prev && negb (c =? prev) then (0, 0)     (* second half of CRLF / LFCR *)
    else (c, 1)
  else (0, 0).

Fixpoint nlc (prev : Z) (bs : bytes) : Z :=
  match bs with
  | [] => 0
  | c :: r => let '(p, k) := nl_step prev c in k + nlc p r
  end.

(* the absorber state after reading bs *)
Fixpoint nl_state (prev : Z) (bs : bytes) : Z :=
  match bs with
  | [] => prev
  | c :: r => nl_state (fst (nl_step prev c)) r
  end.

Definition nl_count (bs : bytes) : Z := nlc 0 bs.

Definition line_of_offset (bs : bytes) (off : Z) : Z :=
  1 + nl_count (firstn (Z.to_nat off) bs).

(* ---- one-pass evaluation used by the case checker (proved equal in LinesFacts) ---- *)

(* consume n bytes: returns (state, count so far, rest) *)
Fixpoint adv (n : nat) (prev cnt : Z) (bs : bytes) : Z * Z * bytes :=
  match n, bs with
  | O, _ => (prev, cnt, bs)
  | S m, [] => (prev, cnt, [])
  | S m, c :: r => let '(p, k) := nl_step prev c in adv m p (cnt + k) r
  end.

(* spans = (offset, length) of the tokens in increasing order without overlap.
   Result: for each token (line at its first byte, line just after its last byte). *)
Fixpoint scan_spans (pos prev cnt : Z) (bs : bytes) (spans : list (Z * Z)) : list (Z * Z) :=
  match spans with
  | [] => []
  | (off, ln) :: rest =>
      let '(p1, c1, b1) := adv (Z.to_nat (off - pos)) prev cnt bs in
      let '(p2, c2, b2) := adv (Z.to_nat ln) p1 c1 b1 in
      (1 + c1, 1 + c2) :: scan_spans (off + ln) p2 c2 b2 rest
  end.

Definition span_lines (bs : bytes) (spans : list (Z * Z)) : list (Z * Z) :=
  scan_spans 0 0 0 bs spans.

(* spans are usable: in order, inside the text, non-empty, and no token starts or ends with a
   newline byte (true of every Lua token; long strings start with '[' and end with ']').
   bs is the text from offset pos on. *)
Fixpoint spans_ok (pos : Z) (bs : bytes) (spans : list (Z * Z)) : bool :=
  match spans with
  | [] => true
  | (off, ln) :: rest =>
      let b1 := skipn (Z.to_nat (off - pos)) bs in
      (pos <=? off) && (0 <? ln) &&
      match b1, nth_error b1 (Z.to_nat (ln - 1)) with
      | a :: _, Some b => negb (is_nl a) && negb (is_nl b)
      | _, _ => false
      end && spans_ok (off + ln) (skipn (Z.to_nat ln) b1) rest
  end.

(* ---- transport of source texts in case files: 7 bytes per primitive 63-bit integer, most
   significant byte first (a plain byte list costs ~100 us per byte to load, this 20x less) ---- *)
From Coq Require Import Uint63.

Definition byte_at (x : int) (k : Z) : Z :=      (* k = 0 .. 6 *)
  Uint63.to_Z (Uint63.land (Uint63.lsr x (Uint63.of_Z (8 * (6 - k)))) 255%uint63).

Definition unpack1 (x : int) : bytes := map (byte_at x) [0; 1; 2; 3; 4; 5; 6].

(* n = length of the text in bytes; the last integer is padded with zero bytes *)
Definition unpack (n : Z) (l : list int) : bytes :=
  firstn (Z.to_nat n) (flat_map unpack1 l).

Definition ints_to_Z (l : list int) : list Z := map Uint63.to_Z l.

(* a span packed as offset * 65536 + length *)
Definition unspan (x : int) : Z * Z :=
  let z := Uint63.to_Z x in (z / 65536, z mod 65536).
