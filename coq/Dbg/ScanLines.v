(* C17 — the scanner's token lines are the reference lines of the token offsets, hence move with
   the tokens and with nothing else (facts file).

   `Front/Lexer.v` (property C08) is the transcription of parse/lexer.go Scanner
   (Next / Newline / Peek / skipWhiteSpace / skipComments / countSep / scanMultilineStringBody /
   scanString / scanEscape / Scan / the Lex loop) with Pos.Line as state; C08 proves that every
   token it delivers is stamped with Front.Lines.line_of_offset of its first byte and ties the
   transcription to the real scanner.  Here: Front.Lines' counter is this area's counter
   (Dbg.Lines.nl_count), so the stamp is `tok_line` of the layout model, and the layout theorems
   (LayoutFacts) apply to what the scanner reports: comments, blank lines and re-indentation -
   whatever their text, as long as the scanner skips them - move the line of a token by exactly
   the number of newline sequences they add in front of it. *)
From GL Require Import Common.Bytes Dbg.Lines Dbg.LinesFacts Dbg.Layout Dbg.LayoutFacts.
From GL Require Front.Lines Front.Lexer Front.LinesFacts.
From Coq Require Import Lia ZifyBool.
Open Scope Z_scope.

(* ---- the two reference counters agree ---- *)

Definition enc (pend : option Z) : Z := match pend with Some c => c | None => 0 end.

Definition pend_nl (pend : option Z) : Prop :=
  match pend with Some c => Dbg.Lines.is_nl c = true | None => True end.

Lemma is_nl_same c : Front.Lines.is_nl c = Dbg.Lines.is_nl c.
Proof. reflexivity. Qed.

Lemma fold_nl_step bs : forall n pend, pend_nl pend ->
  fst (fold_left Front.Lines.nl_step bs (n, pend)) = n + nlc (enc pend) bs.
Proof.
  induction bs as [|b r IH]; intros n pend Hp.
  - simpl. lia.
  - cbn [fold_left nlc].
    unfold Front.Lines.nl_step at 2. unfold Dbg.Lines.nl_step.
    rewrite is_nl_same.
    destruct (Dbg.Lines.is_nl b) eqn:Eb.
    + destruct pend as [c|]; cbn [enc].
      * cbn [pend_nl] in Hp. rewrite Hp. cbn [andb].
        destruct (b =? c) eqn:Ebc; cbn [negb].
        -- rewrite IH by (cbn [pend_nl]; exact Eb). cbn [enc]. lia.
        -- rewrite IH by exact I. cbn [enc]. lia.
      * assert (E0 : Dbg.Lines.is_nl 0 = false) by reflexivity. rewrite E0. cbn [andb].
        rewrite IH by (cbn [pend_nl]; exact Eb). cbn [enc]. lia.
    + rewrite IH by exact I. cbn [enc]. lia.
Qed.

Lemma count_nl_eq bs : Front.Lines.count_nl bs = Dbg.Lines.nl_count bs.
Proof.
  unfold Front.Lines.count_nl, Front.Lines.nl_scan, Dbg.Lines.nl_count.
  rewrite (fold_nl_step bs 0 None I). cbn [enc]. lia.
Qed.

Lemma line_of_offset_eq bs o : Front.Lines.line_of_offset bs o = Dbg.Lines.line_of_offset bs o.
Proof. unfold Front.Lines.line_of_offset, Dbg.Lines.line_of_offset. rewrite count_nl_eq. reflexivity. Qed.

(* ---- what the scanner stamps ---- *)

(* every token the (transcribed) scanner delivers carries the reference line of its offset *)
Lemma scanner_lines_reference_lemma bs toks :
  is_bytes bs = true -> Lexer.lex bs = Lexer.LexOk toks ->
  Forall (fun t => Lexer.tk_line t = Dbg.Lines.line_of_offset bs (Lexer.tk_off t)) toks.
Proof.
  intros Hb Hl.
  pose proof (Front.LinesFacts.lexer_lines_correct_lemma bs toks Hb (or_introl Hl)) as H.
  eapply Forall_impl; [|exact H]. intros t [E _]. cbv beta. rewrite E. apply line_of_offset_eq.
Qed.

(* the scanner read the rendered text into exactly the tokens it was rendered from: token j
   starts where token j was written *)
Definition scans_to (toks : list token) (lay : layout) (ts : list Lexer.token) : Prop :=
  Lexer.lex (render toks lay) = Lexer.LexOk ts /\
  List.length ts = List.length toks /\
  forall j, (j < List.length toks)%nat ->
    Lexer.tk_off (nth j ts (Lexer.mkTok 0 [] 0 0)) = tok_offset toks lay j.

Definition tline (ts : list Lexer.token) (j : nat) : Z :=
  Lexer.tk_line (nth j ts (Lexer.mkTok 0 [] 0 0)).

Lemma scanner_line_is_tok_line_lemma toks lay ts j :
  is_bytes (render toks lay) = true -> scans_to toks lay ts -> (j < List.length toks)%nat ->
  tline ts j = tok_line toks lay j.
Proof.
  intros Hb (Hl & Hn & Ho) Hj.
  pose proof (scanner_lines_reference_lemma _ _ Hb Hl) as H.
  rewrite Forall_forall in H.
  unfold tline, tok_line. rewrite <- (Ho j Hj). apply H. apply nth_In. lia.
Qed.

(* adding comments / blank lines / indentation in front of token i: k more newline sequences in
   that separator move the scanner's line of the tokens i, i+1, ... by exactly k, no other *)
Lemma scanner_layout_shift_lemma toks lay lay' i k ts ts' j :
  Forall tok_ok toks -> List.length lay = List.length toks ->
  same_except lay lay' i -> (i < List.length toks)%nat ->
  nl_count (nth i lay' []) = nl_count (nth i lay []) + k ->
  is_bytes (render toks lay) = true -> is_bytes (render toks lay') = true ->
  scans_to toks lay ts -> scans_to toks lay' ts' ->
  (j < List.length toks)%nat ->
  tline ts' j = tline ts j + (if (i <=? j)%nat then k else 0).
Proof.
  intros Hok Hlen Hse Hi Hk Hb Hb' Hs Hs' Hj.
  rewrite (scanner_line_is_tok_line_lemma toks lay ts j Hb Hs Hj).
  rewrite (scanner_line_is_tok_line_lemma toks lay' ts' j Hb' Hs' Hj).
  apply layout_shift_lemma; assumption.
Qed.
