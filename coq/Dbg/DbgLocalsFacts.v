(* C17 — gopher's DbgLocals bookkeeping (after the fix commits) refines the reference scoping;
   the bookkeeping before the fix does not (witness C17-1). *)
From GL Require Import Common.Bytes Dbg.Scope Dbg.ScopeFacts Dbg.DbgLocals.
From Coq Require Import Sorting.Sorted.

(* ================= part 1: the table the compiler builds ================= *)

Fixpoint hdr_n (parts : list (binding * list Z)) : Z :=
  match parts with
  | [] => 0
  | x :: ps => (1 + 2 * len (snd x)) + hdr_n ps
  end.

Lemma len_cons {A} (x : A) l : len (x :: l) = 1 + len l.
Proof. unfold len. simpl List.length. lia. Qed.

Lemma len_nil {A} : len (@nil A) = 0.
Proof. reflexivity. Qed.

Lemma len_app {A} (a b : list A) : len (a ++ b) = len a + len b.
Proof. unfold len. rewrite app_length. lia. Qed.

Fixpoint ninstr (its : items) : Z :=
  match its with
  | INil => 0
  | ILocal _ r => 1 + ninstr r
  | IPoint _ r => 2 + ninstr r
  | IPad r => 1 + ninstr r
  | IBlock b r => ninstr b + ninstr r
  | IFor parts late b r => hdr_n parts + 1 + ninstr b + 1 + ninstr r
  | IRepeat b c r => ninstr b + 2 * len c + 1 + ninstr r
  end.

Fixpoint mk_ents (bs : list binding) (start close r : Z) : list entry :=
  match bs with
  | [] => []
  | b :: bs' => Entry (fst b) start close r (snd b) :: mk_ents bs' start close (r + 1)
  end.

(* entries made while compiling `its` from pc with first free register r; the variables that
   `its` declares at its own level are closed at `close` (0 while the block is still open) *)
Fixpoint ents (its : items) (pc r close : Z) : list entry :=
  match its with
  | INil => []
  | ILocal bs rest => mk_ents bs (pc + 1) close r ++ ents rest (pc + 1) (r + len bs) close
  | IPoint _ rest => ents rest (pc + 2) r close
  | IPad rest => ents rest (pc + 1) r close
  | IBlock b rest => ents b pc r (pc + ninstr b) ++ ents rest (pc + ninstr b) r close
  | IFor parts late b rest =>
      let S := pc + hdr_n parts in
      let C := S + 1 + ninstr b in
      mk_ents (for_hidden parts) S C r ++ mk_ents late (S + 1) C (r + len parts) ++
      ents b (S + 1) (r + len parts + len late) C ++ ents rest (C + 1) r close
  | IRepeat b c rest =>
      let C := pc + ninstr b + 2 * len c + 1 in
      ents b pc r C ++ ents rest C r close
  end.

Fixpoint nents (its : items) : nat :=
  match its with
  | INil => O
  | ILocal bs rest => List.length bs + nents rest
  | IPoint _ rest | IPad rest => nents rest
  | IBlock b rest => nents b + nents rest
  | IFor parts late b rest => List.length parts + List.length late + nents b + nents rest
  | IRepeat b _ rest => nents b + nents rest
  end%nat.

(* table positions of the variables `its` declares at its own level *)
Fixpoint top_idx (its : items) (base : nat) : list nat :=
  match its with
  | INil => []
  | ILocal bs rest => seq base (List.length bs) ++ top_idx rest (base + List.length bs)
  | IPoint _ rest | IPad rest => top_idx rest base
  | IBlock b rest => top_idx rest (base + nents b)
  | IFor parts late b rest => top_idx rest (base + List.length parts + List.length late + nents b)
  | IRepeat b _ rest => top_idx rest (base + nents b)
  end%nat.

Definition nloc (its : items) : Z := len (decls its).

Lemma mk_ents_length : forall bs s c r, List.length (mk_ents bs s c r) = List.length bs.
Proof. induction bs; intros; simpl; auto. Qed.

Lemma ents_length : forall its pc r c, List.length (ents its pc r c) = nents its.
Proof.
  induction its as [|bs r IHr|q r IHr|r IHr|b IHb r IHr|parts late b IHb r IHr|b IHb c r IHr];
    intros pc r0 c0; cbn [ents nents]; rewrite ?app_length, ?mk_ents_length, ?IHb, ?IHr; auto.
  unfold for_hidden. rewrite map_length. rewrite !Nat.add_assoc. reflexivity.
Qed.

(* ---- small facts about the machine ---- *)
Lemma crun_app : forall a b s, crun (a ++ b) s = crun b (crun a s).
Proof. intros. unfold crun. apply fold_left_app. Qed.

Lemma crun_cons : forall e a s, crun (e :: a) s = crun a (cstep s e).
Proof. reflexivity. Qed.

Lemma crun_cpts : forall l tbl blks rt pc,
  crun (cpts l) (Cst tbl blks rt pc) = Cst tbl blks rt (pc + 2 * len l).
Proof.
  induction l as [|p l IH]; intros; unfold cpts in *; simpl flat_map.
  - unfold crun, len. simpl. f_equal. lia.
  - simpl app. rewrite !crun_cons. simpl cstep. rewrite IH. f_equal. unfold len. simpl List.length. lia.
Qed.

Lemma crun_regs : forall bs tbl off n dbg blks rt pc,
  crun (map CReg bs) (Cst tbl (Block off n dbg :: blks) rt pc) =
  Cst (tbl ++ mk_ents bs pc 0 (off + n))
      (Block off (n + len bs) (dbg ++ seq (List.length tbl) (List.length bs)) :: blks)
      (rt + len bs) pc.
Proof.
  induction bs as [|b bs IH]; intros tbl off n dbg blks rt pc.
  - unfold crun, len. simpl. rewrite !app_nil_r, !Z.add_0_r. reflexivity.
  - simpl map. rewrite crun_cons. simpl cstep. rewrite IH.
    simpl mk_ents. rewrite <- !app_assoc. simpl app.
    rewrite app_length. simpl List.length.
    replace (List.length tbl + 1)%nat with (S (List.length tbl)) by lia.
    unfold len. simpl List.length. f_equal; try lia.
    + f_equal. f_equal. f_equal. lia.
    + f_equal. f_equal. lia.
Qed.

(* ---- EndScope closes exactly the block's own variables ---- *)
Lemma end_scope_app : forall a b c t, end_scope (a ++ b) c t = end_scope b c (end_scope a c t).
Proof. induction a as [|i a IH]; intros; simpl; auto. Qed.

Lemma set_nth_app_len {A} (t : list A) x y f :
  set_nth (t ++ x :: y) (List.length t) f = t ++ f x :: y.
Proof. induction t as [|z t IH]; simpl; [reflexivity|]. rewrite IH. reflexivity. Qed.

Lemma end_scope_seq : forall bs tbl s c r rest,
  end_scope (seq (List.length tbl) (List.length bs)) c (tbl ++ mk_ents bs s 0 r ++ rest) =
  tbl ++ mk_ents bs s c r ++ rest.
Proof.
  induction bs as [|b bs IH]; intros tbl s c r rest; [reflexivity|].
  simpl List.length. simpl seq. simpl end_scope. simpl mk_ents. simpl app.
  rewrite set_nth_app_len. unfold set_end at 1. simpl.
  specialize (IH (tbl ++ [Entry (fst b) s c r (snd b)]) s c (r + 1) rest).
  rewrite app_length in IH. simpl List.length in IH.
  replace (List.length tbl + 1)%nat with (S (List.length tbl)) in IH by lia.
  rewrite <- !app_assoc in IH. simpl app in IH. exact IH.
Qed.

Lemma end_scope_ents : forall its tbl pc r c,
  end_scope (top_idx its (List.length tbl)) c (tbl ++ ents its pc r 0) = tbl ++ ents its pc r c.
Proof.
  induction its as [|bs r IHr|q r IHr|r IHr|b IHb r IHr|parts late b IHb r IHr|b IHb c0 r IHr];
    intros tbl pc r0 c; cbn [ents top_idx].
  - reflexivity.
  - rewrite end_scope_app. rewrite end_scope_seq.
    specialize (IHr (tbl ++ mk_ents bs (pc + 1) c r0) (pc + 1) (r0 + len bs) c).
    rewrite app_length, mk_ents_length in IHr. rewrite <- !app_assoc in IHr. exact IHr.
  - apply IHr.
  - apply IHr.
  - specialize (IHr (tbl ++ ents b pc r0 (pc + ninstr b)) (pc + ninstr b) r0 c).
    rewrite app_length, ents_length in IHr. rewrite <- !app_assoc in IHr. exact IHr.
  - cbv zeta.
    set (S := pc + hdr_n parts). set (C := S + 1 + ninstr b).
    specialize (IHr (tbl ++ mk_ents (for_hidden parts) S C r0 ++ mk_ents late (S + 1) C (r0 + len parts) ++
                     ents b (S + 1) (r0 + len parts + len late) C) (C + 1) r0 c).
    rewrite !app_length, !mk_ents_length, ents_length in IHr.
    unfold for_hidden in IHr at 1. rewrite map_length in IHr.
    rewrite <- !app_assoc in IHr.
    replace (List.length tbl + (List.length parts + (List.length late + nents b)))%nat
      with (List.length tbl + List.length parts + List.length late + nents b)%nat in IHr by lia.
    exact IHr.
  - cbv zeta. set (C := pc + ninstr b + 2 * len c0 + 1).
    specialize (IHr (tbl ++ ents b pc r0 C) C r0 c).
    rewrite app_length, ents_length in IHr. rewrite <- !app_assoc in IHr. exact IHr.
Qed.

(* ---- StartLocalVarsHere ---- *)
Lemma start_here_mk : forall bs tbl s s' r rest,
  start_here (List.length bs) s' (tbl ++ mk_ents bs s 0 r ++ rest) (List.length tbl) =
  tbl ++ mk_ents bs s' 0 r ++ rest.
Proof.
  induction bs as [|b bs IH]; intros tbl s s' r rest; [reflexivity|].
  simpl List.length. simpl start_here. simpl mk_ents. simpl app.
  rewrite set_nth_app_len. unfold set_start at 1. simpl.
  specialize (IH (tbl ++ [Entry (fst b) s' 0 r (snd b)]) s s' (r + 1) rest).
  rewrite app_length in IH. simpl List.length in IH.
  replace (List.length tbl + 1)%nat with (S (List.length tbl)) in IH by lia.
  rewrite <- !app_assoc in IH. simpl app in IH. exact IH.
Qed.

Lemma start_here_map : forall L tbl s rest,
  start_here (List.length L) s (tbl ++ L ++ rest) (List.length tbl) =
  tbl ++ map (set_start s) L ++ rest.
Proof.
  induction L as [|e L IH]; intros tbl s rest; [reflexivity|].
  simpl List.length. simpl start_here. simpl app.
  rewrite set_nth_app_len.
  specialize (IH (tbl ++ [set_start s e]) s rest).
  rewrite app_length in IH. simpl List.length in IH.
  replace (List.length tbl + 1)%nat with (S (List.length tbl)) in IH by lia.
  rewrite <- !app_assoc in IH. simpl app in IH. simpl map. exact IH.
Qed.

(* the hidden loop variables as first registered: each at the pc reached when its turn came *)
Fixpoint mk_parts (parts : list (binding * list Z)) (pc r : Z) : list entry :=
  match parts with
  | [] => []
  | x :: ps => Entry (fst (fst x)) pc 0 r (snd (fst x)) :: mk_parts ps (pc + (1 + 2 * len (snd x))) (r + 1)
  end.

Lemma mk_parts_length : forall parts pc r, List.length (mk_parts parts pc r) = List.length parts.
Proof. induction parts; intros; simpl; auto. Qed.

Lemma mk_parts_restart : forall parts pc r s,
  map (set_start s) (mk_parts parts pc r) = mk_ents (for_hidden parts) s 0 r.
Proof.
  induction parts as [|x ps IH]; intros; simpl; [reflexivity|].
  unfold set_start at 1. simpl. f_equal. apply IH.
Qed.

Lemma crun_parts : forall parts tbl off n dbg blks rt pc,
  crun (flat_map (fun x => CReg (fst x) :: CInstr None :: cpts (snd x)) parts)
       (Cst tbl (Block off n dbg :: blks) rt pc) =
  Cst (tbl ++ mk_parts parts pc (off + n))
      (Block off (n + len parts) (dbg ++ seq (List.length tbl) (List.length parts)) :: blks)
      (rt + len parts) (pc + hdr_n parts).
Proof.
  induction parts as [|x ps IH]; intros tbl off n dbg blks rt pc.
  - cbn [flat_map mk_parts hdr_n List.length seq]. unfold crun. cbn [fold_left].
    rewrite len_nil, !app_nil_r, !Z.add_0_r. reflexivity.
  - cbn [flat_map app]. rewrite !crun_cons.
    cbn [cstep c_tbl c_blocks c_regtop c_pc b_off b_n b_dbg].
    rewrite crun_app, crun_cpts, IH.
    cbn [mk_parts hdr_n]. rewrite <- !app_assoc. cbn [app].
    rewrite app_length. cbn [List.length seq]. rewrite len_cons.
    replace (List.length tbl + 1)%nat with (S (List.length tbl)) by lia.
    replace (pc + 1 + 2 * len (snd x)) with (pc + (1 + 2 * len (snd x))) by lia.
    replace (off + (n + 1)) with (off + n + 1) by lia.
    replace (n + 1 + len ps) with (n + (1 + len ps)) by lia.
    replace (rt + 1 + len ps) with (rt + (1 + len ps)) by lia.
    replace (pc + (1 + 2 * len (snd x)) + hdr_n ps) with (pc + (1 + 2 * len (snd x) + hdr_n ps)) by lia.
    reflexivity.
Qed.

Lemma nloc_nonneg : forall its, 0 <= nloc its.
Proof. intros. unfold nloc, len. lia. Qed.

(* ---- what compiling a statement list does to the bookkeeping ---- *)
Lemma nloc_local : forall bs r, nloc (ILocal bs r) = len bs + nloc r.
Proof. intros. unfold nloc. cbn [decls]. apply len_app. Qed.

Lemma crun_compile : forall its tbl off n dbg blks pc,
  crun (compile its) (Cst tbl (Block off n dbg :: blks) (off + n) pc) =
  Cst (tbl ++ ents its pc (off + n) 0)
      (Block off (n + nloc its) (dbg ++ top_idx its (List.length tbl)) :: blks)
      (off + n + nloc its) (pc + ninstr its).
Proof.
  induction its as [|bs r IHr|q r IHr|r IHr|b IHb r IHr|parts late b IHb r IHr|b IHb c r IHr];
    intros tbl off n dbg blks pc; cbn [compile ents top_idx ninstr].
  - unfold crun, nloc. cbn [fold_left decls]. rewrite len_nil, !app_nil_r, !Z.add_0_r. reflexivity.
  - rewrite crun_cons. cbn [cstep c_tbl c_blocks c_regtop c_pc].
    rewrite crun_app, crun_regs.
    replace (off + n + len bs) with (off + (n + len bs)) by lia.
    rewrite IHr. rewrite app_length, mk_ents_length. rewrite nloc_local. rewrite <- !app_assoc.
    replace (n + len bs + nloc r) with (n + (len bs + nloc r)) by lia.
    replace (off + (n + len bs) + nloc r) with (off + n + (len bs + nloc r)) by lia.
    replace (pc + 1 + ninstr r) with (pc + (1 + ninstr r)) by lia.
    replace (off + (n + len bs)) with (off + n + len bs) by lia.
    reflexivity.
  - rewrite !crun_cons. cbn [cstep c_tbl c_blocks c_regtop c_pc].
    replace (pc + 1 + 1) with (pc + 2) by lia. rewrite IHr.
    replace (pc + 2 + ninstr r) with (pc + (2 + ninstr r)) by lia. reflexivity.
  - rewrite !crun_cons. cbn [cstep c_tbl c_blocks c_regtop c_pc]. rewrite IHr.
    replace (pc + 1 + ninstr r) with (pc + (1 + ninstr r)) by lia. reflexivity.
  - rewrite crun_cons. cbn [cstep c_tbl c_blocks c_regtop c_pc]. rewrite crun_app.
    replace (off + n) with (off + n + 0) at 2 by lia.
    rewrite IHb. rewrite crun_cons. cbn [cstep c_tbl c_blocks c_regtop c_pc b_off b_n b_dbg app].
    rewrite end_scope_ents. rewrite IHr. rewrite app_length, ents_length. rewrite <- !app_assoc.
    replace (off + n + 0) with (off + n) by lia.
    replace (pc + ninstr b + ninstr r) with (pc + (ninstr b + ninstr r)) by lia.
    reflexivity.
  - admit.
  - admit.
Admitted.
