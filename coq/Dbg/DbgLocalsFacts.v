(* C17 — gopher's DbgLocals bookkeeping (after the fix commits) refines the reference scoping;
   the bookkeeping before the fix does not (witness C17-1). *)
From GL Require Import Common.Bytes Dbg.Scope Dbg.ScopeFacts Dbg.DbgLocals.
From Coq Require Import Sorting.Sorted.

(* ================= part 1: the table the compiler builds ================= *)

Fixpoint hdr_n (parts : list (binding * list Z)) : Z :=
  match parts with
  | [] => 0
  | x :: ps => (1 + 2 * len (snd x)) + hdr_n ps
  end.

Lemma len_cons {A} (x : A) l : len (x :: l) = 1 + len l.
Proof. unfold len. simpl List.length. lia. Qed.

Lemma len_nil {A} : len (@nil A) = 0.
Proof. reflexivity. Qed.

Lemma len_app {A} (a b : list A) : len (a ++ b) = len a + len b.
Proof. unfold len. rewrite app_length. lia. Qed.

Fixpoint ninstr (its : items) : Z :=
  match its with
  | INil => 0
  | ILocal _ r => 1 + ninstr r
  | IPoint _ r => 2 + ninstr r
  | IPad r => 1 + ninstr r
  | IBlock b r => ninstr b + ninstr r
  | IFor parts late it b r => hdr_n parts + 1 + ninstr b + len it + 1 + ninstr r
  | IRepeat b c r => ninstr b + 2 * len c + 1 + ninstr r
  end.

Fixpoint mk_ents (bs : list binding) (start close r : Z) : list entry :=
  match bs with
  | [] => []
  | b :: bs' => Entry (fst b) start close r (snd b) :: mk_ents bs' start close (r + 1)
  end.

(* entries made while compiling `its` from pc with first free register r; the variables that
   `its` declares at its own level are closed at `close` (0 while the block is still open) *)
Fixpoint ents (its : items) (pc r close : Z) : list entry :=
  match its with
  | INil => []
  | ILocal bs rest => mk_ents bs (pc + 1) close r ++ ents rest (pc + 1) (r + len bs) close
  | IPoint _ rest => ents rest (pc + 2) r close
  | IPad rest => ents rest (pc + 1) r close
  | IBlock b rest => ents b pc r (pc + ninstr b) ++ ents rest (pc + ninstr b) r close
  | IFor parts late it b rest =>
      let S := pc + hdr_n parts in
      let C := S + 1 + ninstr b in
      let C2 := C + len it + 1 in
      mk_ents (for_hidden parts) S C2 r ++ mk_ents late (S + 1) C (r + len parts) ++
      ents b (S + 1) (r + len parts + len late) C ++ ents rest C2 r close
  | IRepeat b c rest =>
      let C := pc + ninstr b + 2 * len c + 1 in
      ents b pc r C ++ ents rest C r close
  end.

Fixpoint nents (its : items) : nat :=
  match its with
  | INil => O
  | ILocal bs rest => List.length bs + nents rest
  | IPoint _ rest | IPad rest => nents rest
  | IBlock b rest => nents b + nents rest
  | IFor parts late _ b rest => List.length parts + List.length late + nents b + nents rest
  | IRepeat b _ rest => nents b + nents rest
  end%nat.

(* table positions of the variables `its` declares at its own level *)
Fixpoint top_idx (its : items) (base : nat) : list nat :=
  match its with
  | INil => []
  | ILocal bs rest => seq base (List.length bs) ++ top_idx rest (base + List.length bs)
  | IPoint _ rest | IPad rest => top_idx rest base
  | IBlock b rest => top_idx rest (base + nents b)
  | IFor parts late _ b rest => top_idx rest (base + List.length parts + List.length late + nents b)
  | IRepeat b _ rest => top_idx rest (base + nents b)
  end%nat.

Definition nloc (its : items) : Z := len (decls its).

Lemma mk_ents_length : forall bs s c r, List.length (mk_ents bs s c r) = List.length bs.
Proof. induction bs; intros; simpl; auto. Qed.

Lemma ents_length : forall its pc r c, List.length (ents its pc r c) = nents its.
Proof.
  induction its as [|bs r IHr|q r IHr|r IHr|b IHb r IHr|parts late it b IHb r IHr|b IHb c r IHr];
    intros pc r0 c0; cbn [ents nents]; rewrite ?app_length, ?mk_ents_length, ?IHb, ?IHr; auto.
  unfold for_hidden. rewrite map_length. rewrite !Nat.add_assoc. reflexivity.
Qed.

(* ---- small facts about the machine ---- *)
Lemma crun_app : forall a b s, crun (a ++ b) s = crun b (crun a s).
Proof. intros. unfold crun. apply fold_left_app. Qed.

Lemma crun_cons : forall e a s, crun (e :: a) s = crun a (cstep s e).
Proof. reflexivity. Qed.

Lemma crun_cpts : forall l tbl blks rt pc kp,
  crun (cpts l) (Cst tbl blks rt pc kp) = Cst tbl blks rt (pc + 2 * len l) kp.
Proof.
  induction l as [|p l IH]; intros; unfold cpts in *; simpl flat_map.
  - unfold crun, len. simpl. f_equal. lia.
  - simpl app. rewrite !crun_cons. simpl cstep. rewrite IH. f_equal. unfold len. simpl List.length. lia.
Qed.

Lemma crun_regs : forall bs tbl off n dbg blks rt pc kp,
  crun (map CReg bs) (Cst tbl (Block off n dbg :: blks) rt pc kp) =
  Cst (tbl ++ mk_ents bs pc 0 (off + n))
      (Block off (n + len bs) (dbg ++ seq (List.length tbl) (List.length bs)) :: blks)
      (rt + len bs) pc kp.
Proof.
  induction bs as [|b bs IH]; intros tbl off n dbg blks rt pc kp.
  - unfold crun, len. simpl. rewrite !app_nil_r, !Z.add_0_r. reflexivity.
  - simpl map. rewrite crun_cons. simpl cstep. rewrite IH.
    simpl mk_ents. rewrite <- !app_assoc. simpl app.
    rewrite app_length. simpl List.length.
    replace (List.length tbl + 1)%nat with (S (List.length tbl)) by lia.
    unfold len. simpl List.length. f_equal; try lia.
    + f_equal. f_equal. f_equal. lia.
    + f_equal. f_equal. lia.
Qed.

(* ---- EndScope closes exactly the block's own variables ---- *)
Lemma end_scope_app : forall a b c t, end_scope (a ++ b) c t = end_scope b c (end_scope a c t).
Proof. induction a as [|i a IH]; intros; simpl; auto. Qed.

Lemma set_nth_app_len {A} (t : list A) x y f :
  set_nth (t ++ x :: y) (List.length t) f = t ++ f x :: y.
Proof. induction t as [|z t IH]; simpl; [reflexivity|]. rewrite IH. reflexivity. Qed.

Lemma end_scope_seq_gen : forall bs tbl s c0 c r rest,
  end_scope (seq (List.length tbl) (List.length bs)) c (tbl ++ mk_ents bs s c0 r ++ rest) =
  tbl ++ mk_ents bs s c r ++ rest.
Proof.
  induction bs as [|b bs IH]; intros tbl s c0 c r rest; [reflexivity|].
  simpl List.length. simpl seq. simpl end_scope. simpl mk_ents. simpl app.
  rewrite set_nth_app_len. unfold set_end at 1. simpl.
  specialize (IH (tbl ++ [Entry (fst b) s c r (snd b)]) s c0 c (r + 1) rest).
  rewrite app_length in IH. simpl List.length in IH.
  replace (List.length tbl + 1)%nat with (S (List.length tbl)) in IH by lia.
  rewrite <- !app_assoc in IH. simpl app in IH. exact IH.
Qed.

Lemma end_scope_seq : forall bs tbl s c r rest,
  end_scope (seq (List.length tbl) (List.length bs)) c (tbl ++ mk_ents bs s 0 r ++ rest) =
  tbl ++ mk_ents bs s c r ++ rest.
Proof. intros. apply end_scope_seq_gen. Qed.

Lemma end_scope_ents : forall its tbl pc r c,
  end_scope (top_idx its (List.length tbl)) c (tbl ++ ents its pc r 0) = tbl ++ ents its pc r c.
Proof.
  induction its as [|bs r IHr|q r IHr|r IHr|b IHb r IHr|parts late it b IHb r IHr|b IHb c0 r IHr];
    intros tbl pc r0 c; cbn [ents top_idx].
  - reflexivity.
  - rewrite end_scope_app. rewrite end_scope_seq.
    specialize (IHr (tbl ++ mk_ents bs (pc + 1) c r0) (pc + 1) (r0 + len bs) c).
    rewrite app_length, mk_ents_length in IHr. rewrite <- !app_assoc in IHr. exact IHr.
  - apply IHr.
  - apply IHr.
  - specialize (IHr (tbl ++ ents b pc r0 (pc + ninstr b)) (pc + ninstr b) r0 c).
    rewrite app_length, ents_length in IHr. rewrite <- !app_assoc in IHr. exact IHr.
  - cbv zeta.
    set (S := pc + hdr_n parts). set (C := S + 1 + ninstr b). set (C2 := C + len it + 1).
    specialize (IHr (tbl ++ mk_ents (for_hidden parts) S C2 r0 ++ mk_ents late (S + 1) C (r0 + len parts) ++
                     ents b (S + 1) (r0 + len parts + len late) C) C2 r0 c).
    rewrite !app_length, !mk_ents_length, ents_length in IHr.
    unfold for_hidden in IHr at 1. rewrite map_length in IHr.
    rewrite <- !app_assoc in IHr.
    replace (List.length tbl + (List.length parts + (List.length late + nents b)))%nat
      with (List.length tbl + List.length parts + List.length late + nents b)%nat in IHr by lia.
    exact IHr.
  - cbv zeta. set (C := pc + ninstr b + 2 * len c0 + 1).
    specialize (IHr (tbl ++ ents b pc r0 C) C r0 c).
    rewrite app_length, ents_length in IHr. rewrite <- !app_assoc in IHr. exact IHr.
Qed.

(* ---- StartLocalVarsHere ---- *)
Lemma start_here_mk : forall bs tbl s s' r rest,
  start_here (List.length bs) s' (tbl ++ mk_ents bs s 0 r ++ rest) (List.length tbl) =
  tbl ++ mk_ents bs s' 0 r ++ rest.
Proof.
  induction bs as [|b bs IH]; intros tbl s s' r rest; [reflexivity|].
  simpl List.length. simpl start_here. simpl mk_ents. simpl app.
  rewrite set_nth_app_len. unfold set_start at 1. simpl.
  specialize (IH (tbl ++ [Entry (fst b) s' 0 r (snd b)]) s s' (r + 1) rest).
  rewrite app_length in IH. simpl List.length in IH.
  replace (List.length tbl + 1)%nat with (S (List.length tbl)) in IH by lia.
  rewrite <- !app_assoc in IH. simpl app in IH. exact IH.
Qed.

Lemma start_here_map : forall L tbl s rest,
  start_here (List.length L) s (tbl ++ L ++ rest) (List.length tbl) =
  tbl ++ map (set_start s) L ++ rest.
Proof.
  induction L as [|e L IH]; intros tbl s rest; [reflexivity|].
  simpl List.length. simpl start_here. simpl app.
  rewrite set_nth_app_len.
  specialize (IH (tbl ++ [set_start s e]) s rest).
  rewrite app_length in IH. simpl List.length in IH.
  replace (List.length tbl + 1)%nat with (S (List.length tbl)) in IH by lia.
  rewrite <- !app_assoc in IH. simpl app in IH. simpl map. exact IH.
Qed.

(* the hidden loop variables as first registered: each at the pc reached when its turn came *)
Fixpoint mk_parts (parts : list (binding * list Z)) (pc r : Z) : list entry :=
  match parts with
  | [] => []
  | x :: ps => Entry (fst (fst x)) pc 0 r (snd (fst x)) :: mk_parts ps (pc + (1 + 2 * len (snd x))) (r + 1)
  end.

Lemma mk_parts_length : forall parts pc r, List.length (mk_parts parts pc r) = List.length parts.
Proof. induction parts; intros; simpl; auto. Qed.

Lemma mk_parts_restart : forall parts pc r s,
  map (set_start s) (mk_parts parts pc r) = mk_ents (for_hidden parts) s 0 r.
Proof.
  induction parts as [|x ps IH]; intros; simpl; [reflexivity|].
  unfold set_start at 1. simpl. f_equal. apply IH.
Qed.

Lemma crun_parts : forall parts tbl off n dbg blks rt pc kp,
  crun (flat_map (fun x => CReg (fst x) :: CInstr None :: cpts (snd x)) parts)
       (Cst tbl (Block off n dbg :: blks) rt pc kp) =
  Cst (tbl ++ mk_parts parts pc (off + n))
      (Block off (n + len parts) (dbg ++ seq (List.length tbl) (List.length parts)) :: blks)
      (rt + len parts) (pc + hdr_n parts) kp.
Proof.
  induction parts as [|x ps IH]; intros tbl off n dbg blks rt pc kp.
  - cbn [flat_map mk_parts hdr_n List.length seq]. unfold crun. cbn [fold_left].
    rewrite len_nil, !app_nil_r, !Z.add_0_r. reflexivity.
  - cbn [flat_map app]. rewrite !crun_cons.
    cbn [cstep leave c_tbl c_blocks c_regtop c_pc c_keep b_off b_n b_dbg].
    rewrite crun_app, crun_cpts, IH.
    cbn [mk_parts hdr_n]. rewrite <- !app_assoc. cbn [app].
    rewrite app_length. cbn [List.length seq]. rewrite len_cons.
    replace (List.length tbl + 1)%nat with (S (List.length tbl)) by lia.
    replace (pc + 1 + 2 * len (snd x)) with (pc + (1 + 2 * len (snd x))) by lia.
    replace (off + (n + 1)) with (off + n + 1) by lia.
    replace (n + 1 + len ps) with (n + (1 + len ps)) by lia.
    replace (rt + 1 + len ps) with (rt + (1 + len ps)) by lia.
    replace (pc + (1 + 2 * len (snd x)) + hdr_n ps) with (pc + (1 + 2 * len (snd x) + hdr_n ps)) by lia.
    reflexivity.
Qed.

Lemma nloc_nonneg : forall its, 0 <= nloc its.
Proof. intros. unfold nloc, len. lia. Qed.

(* ---- what compiling a statement list does to the bookkeeping ---- *)
Lemma leave_for : forall b hid late tbl S S1 C r1 r2 pcb rb n1 k2 k3,
  n1 = List.length hid -> k2 = (List.length tbl + List.length hid)%nat ->
  k3 = (List.length tbl + List.length hid + List.length late)%nat ->
  end_scope (seq (List.length tbl) n1 ++ seq k2 (List.length late) ++ top_idx b k3) C
            (tbl ++ mk_ents hid S 0 r1 ++ mk_ents late S1 0 r2 ++ ents b pcb rb 0) =
  tbl ++ mk_ents hid S C r1 ++ mk_ents late S1 C r2 ++ ents b pcb rb C.
Proof.
  intros b hid late tbl S S1 C r1 r2 pcb rb n1 k2 k3 E1 E2 E3. subst.
  rewrite !end_scope_app. rewrite end_scope_seq.
  replace (List.length tbl + List.length hid)%nat with (List.length (tbl ++ mk_ents hid S C r1))
    by (rewrite app_length, mk_ents_length; lia).
  rewrite (app_assoc tbl). rewrite end_scope_seq.
  replace (List.length (tbl ++ mk_ents hid S C r1) + List.length late)%nat
    with (List.length ((tbl ++ mk_ents hid S C r1) ++ mk_ents late S1 C r2))
    by (rewrite !app_length, !mk_ents_length; lia).
  rewrite (app_assoc (tbl ++ mk_ents hid S C r1)). rewrite end_scope_ents.
  rewrite <- !app_assoc. reflexivity.
Qed.

Lemma nloc_local : forall bs r, nloc (ILocal bs r) = len bs + nloc r.
Proof. intros. unfold nloc. cbn [decls]. apply len_app. Qed.

Lemma firstn_seq_app : forall a n (l : list nat), firstn n (seq a n ++ l) = seq a n.
Proof.
  intros. rewrite <- (seq_length n a) at 1. rewrite <- (Nat.add_0_r (List.length (seq a n))).
  rewrite firstn_app_2. simpl. apply app_nil_r.
Qed.

Lemma crun_iter : forall it tbl blks rt pc kp,
  crun (map (fun p => CInstr (Some p)) it) (Cst tbl blks rt pc kp) = Cst tbl blks rt (pc + len it) kp.
Proof.
  induction it as [|p l IH]; intros.
  - unfold crun. cbn [map fold_left]. rewrite len_nil, Z.add_0_r. reflexivity.
  - cbn [map]. rewrite crun_cons. cbn [cstep c_tbl c_blocks c_regtop c_pc c_keep]. rewrite IH, len_cons.
    replace (pc + 1 + len l) with (pc + (1 + len l)) by lia. reflexivity.
Qed.

Lemma crun_compile : forall its tbl off n dbg blks pc,
  crun (compile its) (Cst tbl (Block off n dbg :: blks) (off + n) pc []) =
  Cst (tbl ++ ents its pc (off + n) 0)
      (Block off (n + nloc its) (dbg ++ top_idx its (List.length tbl)) :: blks)
      (off + n + nloc its) (pc + ninstr its) [].
Proof.
  induction its as [|bs r IHr|q r IHr|r IHr|b IHb r IHr|parts late it b IHb r IHr|b IHb c r IHr];
    intros tbl off n dbg blks pc; cbn [compile ents top_idx ninstr].
  - unfold crun, nloc. cbn [fold_left decls]. rewrite len_nil, !app_nil_r, !Z.add_0_r. reflexivity.
  - rewrite crun_cons. cbn [cstep leave c_tbl c_blocks c_regtop c_pc c_keep b_off b_n b_dbg].
    rewrite crun_app, crun_regs.
    replace (off + n + len bs) with (off + (n + len bs)) by lia.
    rewrite IHr. rewrite app_length, mk_ents_length. rewrite nloc_local. rewrite <- !app_assoc.
    replace (n + len bs + nloc r) with (n + (len bs + nloc r)) by lia.
    replace (off + (n + len bs) + nloc r) with (off + n + (len bs + nloc r)) by lia.
    replace (pc + 1 + ninstr r) with (pc + (1 + ninstr r)) by lia.
    replace (off + (n + len bs)) with (off + n + len bs) by lia.
    reflexivity.
  - rewrite !crun_cons. cbn [cstep leave c_tbl c_blocks c_regtop c_pc c_keep b_off b_n b_dbg].
    replace (pc + 1 + 1) with (pc + 2) by lia. rewrite IHr.
    replace (pc + 2 + ninstr r) with (pc + (2 + ninstr r)) by lia. reflexivity.
  - rewrite !crun_cons. cbn [cstep leave c_tbl c_blocks c_regtop c_pc c_keep b_off b_n b_dbg]. rewrite IHr.
    replace (pc + 1 + ninstr r) with (pc + (1 + ninstr r)) by lia. reflexivity.
  - rewrite crun_cons. cbn [cstep leave c_tbl c_blocks c_regtop c_pc c_keep b_off b_n b_dbg]. rewrite crun_app.
    replace (off + n) with (off + n + 0) at 2 by lia.
    rewrite IHb. rewrite crun_cons. cbn [cstep leave c_tbl c_blocks c_regtop c_pc c_keep b_off b_n b_dbg app].
    rewrite end_scope_ents. rewrite IHr. rewrite app_length, ents_length. rewrite <- !app_assoc.
    replace (off + n + 0) with (off + n) by lia.
    replace (pc + ninstr b + ninstr r) with (pc + (ninstr b + ninstr r)) by lia.
    reflexivity.
  - rewrite crun_cons. cbn [cstep leave c_tbl c_blocks c_regtop c_pc c_keep b_off b_n b_dbg]. rewrite crun_app.
    rewrite crun_parts.
    rewrite !crun_cons. cbn [cstep leave c_tbl c_blocks c_regtop c_pc c_keep b_off b_n b_dbg].
    rewrite crun_app.
    (* StartLocalVarsHere resets the start of the hidden variables *)
    rewrite app_length, mk_parts_length.
    replace (List.length tbl + List.length parts - List.length parts)%nat with (List.length tbl) by lia.
    rewrite <- (app_nil_r (mk_parts parts pc (off + n + 0))).
    rewrite <- (mk_parts_length parts pc (off + n + 0)) at 2.
    rewrite start_here_map, mk_parts_restart, app_nil_r.
    rewrite crun_regs. rewrite crun_app.
    replace (off + n + (0 + len parts + len late)) with (off + n + 0 + (0 + len parts + len late)) by lia.
    replace (off + n + len parts + len late) with (off + n + (0 + len parts + len late)) by lia.
    rewrite IHb.
    rewrite crun_cons. cbn [cstep leave c_tbl c_blocks c_regtop c_pc c_keep b_off b_n b_dbg].
    rewrite <- !app_assoc. rewrite !app_nil_l.
    rewrite leave_for.
    2:{ unfold for_hidden. rewrite map_length. reflexivity. }
    2:{ rewrite app_length, mk_ents_length. reflexivity. }
    2:{ rewrite !app_length, !mk_ents_length. lia. }
    rewrite firstn_seq_app.
    rewrite crun_app, crun_iter. rewrite !crun_cons.
    cbn [cstep leave c_tbl c_blocks c_regtop c_pc c_keep b_off b_n b_dbg].
    (* the hidden variables end after the loop instruction *)
    replace (List.length parts) with (List.length (for_hidden parts)) at 1
      by (unfold for_hidden; rewrite map_length; reflexivity).
    rewrite end_scope_seq_gen.
    rewrite IHr.
    rewrite !app_length, !mk_ents_length, ents_length.
    replace (List.length (for_hidden parts)) with (List.length parts) by (unfold for_hidden; rewrite map_length; reflexivity).
    rewrite <- !app_assoc.
    replace (off + n + 0) with (off + n) by lia.
    replace (off + n + (0 + len parts)) with (off + n + len parts) by lia.
    replace (pc + hdr_n parts + 1 + ninstr b + len it + 1 + ninstr r) with (pc + (hdr_n parts + 1 + ninstr b + len it + 1 + ninstr r)) by lia.
    replace (List.length tbl + (List.length parts + (List.length late + nents b)))%nat
      with (List.length tbl + List.length parts + List.length late + nents b)%nat by lia.
    reflexivity.
  - rewrite crun_cons. cbn [cstep leave c_tbl c_blocks c_regtop c_pc c_keep b_off b_n b_dbg]. rewrite crun_app.
    replace (off + n) with (off + n + 0) at 2 by lia.
    rewrite IHb. rewrite crun_app, crun_cpts.
    rewrite !crun_cons. cbn [cstep leave c_tbl c_blocks c_regtop c_pc c_keep b_off b_n b_dbg].
    rewrite !app_nil_l. rewrite end_scope_ents.
    rewrite IHr. rewrite app_length, ents_length. rewrite <- !app_assoc.
    replace (off + n + 0) with (off + n) by lia.
    replace (pc + ninstr b + 2 * len c + 1 + ninstr r) with (pc + (ninstr b + 2 * len c + 1 + ninstr r)) by lia.
    reflexivity.
Qed.

(* the DbgLocals table of a whole function, in closed form *)
Definition fn_close (f : fn) : Z := ninstr (f_body f) + 1.
Definition fn_table (f : fn) : list entry :=
  mk_ents (fn_env0 f) 0 (fn_close f) 0 ++ ents (f_body f) 0 (len (fn_env0 f)) (fn_close f).

Lemma dbg_table_eq : forall f, dbg_table f = fn_table f.
Proof.
  intros f. unfold dbg_table, compile_fn, cst0, fn_table, fn_close.
  rewrite crun_app, crun_regs. rewrite crun_app.
  replace (0 + len (fn_env0 f)) with (0 + (0 + len (fn_env0 f))) at 2 by lia.
  rewrite crun_compile.
  rewrite !crun_cons. cbn [cstep leave c_tbl c_blocks c_regtop c_pc c_keep b_off b_n b_dbg crun fold_left].
  rewrite !app_nil_l. rewrite mk_ents_length.
  rewrite end_scope_app.
  rewrite <- (app_nil_l (mk_ents (fn_env0 f) 0 0 (0 + 0) ++ _)).
  change (seq 0 (List.length (fn_env0 f))) with (seq (List.length (@nil entry)) (List.length (fn_env0 f))).
  rewrite end_scope_seq. rewrite app_nil_l.
  rewrite <- (mk_ents_length (fn_env0 f) 0 (0 + ninstr (f_body f) + 1) (0 + 0)).
  rewrite end_scope_ents.
  replace (0 + 0) with 0 by lia. replace (0 + (0 + len (fn_env0 f))) with (len (fn_env0 f)) by lia.
  replace (0 + ninstr (f_body f) + 1) with (ninstr (f_body f) + 1) by lia.
  reflexivity.
Qed.

(* ================= part 2: what LocalName finds in that table ================= *)

Definition active (q : Z) (e : entry) : bool := (e_start e <=? q) && (q <? e_end e).
Definition act (q : Z) (l : list entry) : list entry := filter (active q) l.
Definition bind_of (e : entry) : binding := (e_name e, e_val e).

Fixpoint zseq (a : Z) (n : nat) : list Z :=
  match n with O => [] | S m => a :: zseq (a + 1) m end.

Lemma zseq_app : forall n m a, zseq a (n + m) = zseq a n ++ zseq (a + Z.of_nat n) m.
Proof.
  induction n as [|n IH]; intros m a.
  - simpl. rewrite Z.add_0_r. reflexivity.
  - cbn [zseq Nat.add app]. rewrite IH. f_equal. f_equal. f_equal. lia.
Qed.

Fixpoint instrs (evs : list cev) : Z :=
  match evs with
  | [] => 0
  | CInstr _ :: r => 1 + instrs r
  | _ :: r => instrs r
  end.

Lemma instrs_app : forall a b, instrs (a ++ b) = instrs a + instrs b.
Proof. induction a as [|e a IH]; intros b; [reflexivity|]. destruct e; cbn [app instrs]; rewrite IH; lia. Qed.

Lemma instrs_regs : forall bs, instrs (map CReg bs) = 0.
Proof. induction bs; simpl; auto. Qed.

Lemma instrs_cpts : forall l, instrs (cpts l) = 2 * len l.
Proof.
  induction l as [|p l IH]; [reflexivity|].
  unfold cpts in *. cbn [flat_map app instrs]. rewrite IH, len_cons. lia.
Qed.

Lemma instrs_parts : forall parts,
  instrs (flat_map (fun x => CReg (fst x) :: CInstr None :: cpts (snd x)) parts) = hdr_n parts.
Proof.
  induction parts as [|x ps IH]; [reflexivity|].
  cbn [flat_map app instrs hdr_n]. rewrite instrs_app, instrs_cpts, IH. lia.
Qed.

Lemma hdr_n_nonneg : forall parts, 0 <= hdr_n parts.
Proof. induction parts as [|x ps IH]; cbn [hdr_n]; unfold len in *; lia. Qed.

Lemma ninstr_nonneg : forall its, 0 <= ninstr its.
Proof.
  induction its; cbn [ninstr]; try lia.
  - pose proof (hdr_n_nonneg parts). unfold len. lia.
  - unfold len. lia.
Qed.

Lemma instrs_iter : forall it, instrs (map (fun p => CInstr (Some p)) it) = len it.
Proof. induction it as [|p l IH]; [reflexivity|]. cbn [map instrs]. rewrite IH, len_cons. reflexivity. Qed.

Lemma instrs_compile : forall its, instrs (compile its) = ninstr its.
Proof.
  induction its as [|bs r IHr|q r IHr|r IHr|b IHb r IHr|parts late it b IHb r IHr|b IHb c r IHr];
    cbn [compile ninstr instrs]; rewrite ?instrs_app; cbn [instrs];
    rewrite ?instrs_app, ?instrs_regs, ?instrs_cpts, ?instrs_parts; cbn [instrs];
    rewrite ?instrs_app, ?instrs_regs; cbn [instrs]; rewrite ?instrs_app, ?instrs_iter; cbn [instrs];
    rewrite ?instrs_app, ?instrs_iter; cbn [instrs]; try lia.
Qed.

Lemma point_pc_app : forall a b pc p,
  point_pc (a ++ b) pc p =
  match point_pc a pc p with Some q => Some q | None => point_pc b (pc + instrs a) p end.
Proof.
  induction a as [|e a IH]; intros b pc p.
  - simpl. rewrite Z.add_0_r. reflexivity.
  - destruct e as [[q|]| | | | | |]; cbn [app point_pc instrs]; try (rewrite IH; reflexivity).
    + destruct (q =? p); [reflexivity|]. rewrite IH. replace (pc + 1 + instrs a) with (pc + (1 + instrs a)) by lia. reflexivity.
    + rewrite IH. replace (pc + 1 + instrs a) with (pc + (1 + instrs a)) by lia. reflexivity.
Qed.

Lemma point_pc_regs : forall bs pc p, point_pc (map CReg bs) pc p = None.
Proof. induction bs; intros; simpl; auto. Qed.

Lemma point_pc_cpts : forall l pc p,
  match point_pc (cpts l) pc p with
  | Some q => zmem p l = true /\ pc <= q < pc + 2 * len l
  | None => zmem p l = false
  end.
Proof.
  induction l as [|x l IH]; intros pc p; [reflexivity|].
  unfold cpts in *. cbn [flat_map app point_pc]. unfold zmem in *. cbn [existsb].
  rewrite (Z.eqb_sym p x). rewrite len_cons.
  destruct (x =? p).
  - split; [reflexivity|]. unfold len. lia.
  - specialize (IH (pc + 1 + 1) p). cbn [orb].
    destruct (point_pc (flat_map (fun p0 : Z => [CInstr None; CInstr (Some p0)]) l) (pc + 1 + 1) p).
    + destruct IH as [H1 H2]. split; [exact H1|lia].
    + exact IH.
Qed.

Lemma point_pc_iter : forall l pc p,
  match point_pc (map (fun p0 => CInstr (Some p0)) l) pc p with
  | Some q => zmem p l = true /\ pc <= q < pc + len l
  | None => zmem p l = false
  end.
Proof.
  induction l as [|x l IH]; intros pc p; [reflexivity|].
  cbn [map point_pc]. unfold zmem in *. cbn [existsb].
  rewrite (Z.eqb_sym p x). rewrite len_cons.
  destruct (x =? p).
  - split; [reflexivity|]. unfold len. lia.
  - specialize (IH (pc + 1) p). cbn [orb].
    destruct (point_pc (map (fun p0 : Z => CInstr (Some p0)) l) (pc + 1) p).
    + destruct IH as [H1 H2]. split; [exact H1|lia].
    + exact IH.
Qed.

Lemma zmem_app : forall p a b, zmem p (a ++ b) = zmem p a || zmem p b.
Proof. intros. unfold zmem. apply existsb_app. Qed.

Lemma point_pc_parts : forall parts pc p,
  match point_pc (flat_map (fun x => CReg (fst x) :: CInstr None :: cpts (snd x)) parts) pc p with
  | Some q => zmem p (for_points parts) = true /\ pc <= q < pc + hdr_n parts
  | None => zmem p (for_points parts) = false
  end.
Proof.
  induction parts as [|x ps IH]; intros pc p; [reflexivity|].
  unfold for_points in *. cbn [flat_map app point_pc hdr_n]. rewrite zmem_app.
  rewrite point_pc_app. rewrite instrs_cpts.
  pose proof (point_pc_cpts (snd x) (pc + 1) p) as Hc.
  pose proof (hdr_n_nonneg ps).
  destruct (point_pc (cpts (snd x)) (pc + 1) p).
  - destruct Hc as [H1 H2]. rewrite H1. split; [reflexivity|lia].
  - rewrite Hc. cbn [orb].
    specialize (IH (pc + 1 + 2 * len (snd x)) p).
    destruct (point_pc _ (pc + 1 + 2 * len (snd x)) p).
    + destruct IH as [H1 H2]. split; [exact H1|]. unfold len in *. lia.
    + exact IH.
Qed.

(* ---- where the entries of a statement list start and end ---- *)
Lemma mk_ents_Forall : forall (P : entry -> Prop) bs s c r,
  (forall n r' v, P (Entry n s c r' v)) -> Forall P (mk_ents bs s c r).
Proof. induction bs; intros; simpl; constructor; auto. Qed.

Lemma Forall_app_intro {A} (P : A -> Prop) a b : Forall P a -> Forall P b -> Forall P (a ++ b).
Proof. intros. apply Forall_app. split; assumption. Qed.

Lemma ents_starts : forall its pc r c,
  Forall (fun e => pc <= e_start e) (ents its pc r c).
Proof.
  induction its as [|bs r IHr|q r IHr|r IHr|b IHb r IHr|parts late it b IHb r IHr|b IHb c0 r IHr];
    intros pc r0 c; cbn [ents]; cbv zeta.
  - constructor.
  - apply Forall_app_intro; [apply mk_ents_Forall; intros; cbn [e_start e_end]; lia|].
    eapply Forall_impl; [|apply IHr]. cbn beta. intros; lia.
  - eapply Forall_impl; [|apply IHr]. cbn beta. intros; lia.
  - eapply Forall_impl; [|apply IHr]. cbn beta. intros; lia.
  - pose proof (ninstr_nonneg b).
    apply Forall_app_intro; [apply IHb|]. eapply Forall_impl; [|apply IHr]. cbn beta. intros; lia.
  - pose proof (ninstr_nonneg b). pose proof (hdr_n_nonneg parts). assert (Hit : 0 <= len it) by (unfold len; lia).
    repeat apply Forall_app_intro.
    + apply mk_ents_Forall; intros; cbn [e_start e_end]; lia.
    + apply mk_ents_Forall; intros; cbn [e_start e_end]; lia.
    + eapply Forall_impl; [|apply IHb]. cbn beta. intros; lia.
    + eapply Forall_impl; [|apply IHr]. cbn beta. intros; lia.
  - pose proof (ninstr_nonneg b). assert (0 <= len c0) by (unfold len; lia).
    apply Forall_app_intro; [apply IHb|]. eapply Forall_impl; [|apply IHr]. cbn beta. intros; lia.
Qed.

Lemma ents_ends : forall its pc r c,
  pc + ninstr its <= c -> Forall (fun e => e_end e <= c) (ents its pc r c).
Proof.
  induction its as [|bs r IHr|q r IHr|r IHr|b IHb r IHr|parts late it b IHb r IHr|b IHb c0 r IHr];
    intros pc r0 c Hc; cbn [ents ninstr] in *; cbv zeta.
  - constructor.
  - apply Forall_app_intro; [apply mk_ents_Forall; intros; cbn [e_start e_end]; lia|]. apply IHr. lia.
  - apply IHr. lia.
  - apply IHr. lia.
  - pose proof (ninstr_nonneg r).
    apply Forall_app_intro; [|apply IHr; lia].
    eapply Forall_impl; [|apply (IHb pc r0 (pc + ninstr b)); lia]. cbn beta. intros; lia.
  - pose proof (ninstr_nonneg r). assert (Hit : 0 <= len it) by (unfold len; lia).
    repeat apply Forall_app_intro.
    + apply mk_ents_Forall; intros; cbn [e_start e_end]; lia.
    + apply mk_ents_Forall; intros; cbn [e_start e_end]; lia.
    + eapply Forall_impl; [|apply IHb; lia]. cbn beta. intros; lia.
    + apply IHr. lia.
  - pose proof (ninstr_nonneg r). assert (0 <= len c0) by (unfold len; lia).
    apply Forall_app_intro; [|apply IHr; lia].
    eapply Forall_impl; [|apply (IHb pc r0 (pc + ninstr b + 2 * len c0 + 1)); lia]. cbn beta. intros; lia.
Qed.

Lemma act_app : forall q a b, act q (a ++ b) = act q a ++ act q b.
Proof. intros. apply filter_app. Qed.

Lemma act_none_start : forall q l, Forall (fun e => q < e_start e) l -> act q l = [].
Proof.
  induction l as [|e l IH]; intros H; [reflexivity|]. inversion H; subst.
  unfold act in *. simpl. unfold active at 1.
  replace (e_start e <=? q) with false by (symmetry; apply Z.leb_gt; lia). simpl. auto.
Qed.

Lemma act_none_end : forall q l, Forall (fun e => e_end e <= q) l -> act q l = [].
Proof.
  induction l as [|e l IH]; intros H; [reflexivity|]. inversion H; subst.
  unfold act in *. simpl. unfold active at 1.
  replace (q <? e_end e) with false by (symmetry; apply Z.ltb_ge; lia). rewrite andb_false_r. auto.
Qed.

Lemma act_mk_all : forall q bs s c r, s <= q < c -> act q (mk_ents bs s c r) = mk_ents bs s c r.
Proof.
  induction bs as [|b bs IH]; intros s c r H; [reflexivity|].
  unfold act in *. simpl. unfold active at 1. simpl.
  replace (s <=? q) with true by (symmetry; apply Z.leb_le; lia).
  replace (q <? c) with true by (symmetry; apply Z.ltb_lt; lia). simpl. f_equal. apply IH. exact H.
Qed.

Lemma bind_of_mk : forall bs s c r, map bind_of (mk_ents bs s c r) = bs.
Proof. induction bs as [|[n v] bs IH]; intros; simpl; [reflexivity|]. unfold bind_of at 1. simpl. f_equal. apply IH. Qed.

Lemma reg_of_mk : forall bs s c r, map e_reg (mk_ents bs s c r) = zseq r (List.length bs).
Proof. induction bs as [|b bs IH]; intros; simpl; [reflexivity|]. f_equal. apply IH. Qed.

(* after the last instruction of a statement list, and before its block is closed, exactly
   the variables it declares at its own level are active, in consecutive registers *)
Lemma act_end : forall its pc r c q,
  pc + ninstr its <= q < c ->
  map bind_of (act q (ents its pc r c)) = decls its /\
  map e_reg (act q (ents its pc r c)) = zseq r (List.length (decls its)).
Proof.
  induction its as [|bs r IHr|q0 r IHr|r IHr|b IHb r IHr|parts late it b IHb r IHr|b IHb c0 r IHr];
    intros pc r0 c q Hq; cbn [ents ninstr decls] in *; cbv zeta.
  - split; reflexivity.
  - pose proof (ninstr_nonneg r).
    rewrite act_app, act_mk_all by lia. rewrite !map_app, bind_of_mk, reg_of_mk.
    destruct (IHr (pc + 1) (r0 + len bs) c q ltac:(lia)) as [E1 E2].
    rewrite E1, E2. split; [reflexivity|]. rewrite app_length, zseq_app. reflexivity.
  - apply IHr. lia.
  - apply IHr. lia.
  - pose proof (ninstr_nonneg r). rewrite act_app.
    rewrite (act_none_end q (ents b pc r0 (pc + ninstr b))).
    2:{ eapply Forall_impl; [|apply ents_ends; lia]. cbn beta. intros; lia. }
    apply IHr. lia.
  - pose proof (ninstr_nonneg r). pose proof (ninstr_nonneg b). pose proof (hdr_n_nonneg parts). assert (Hit : 0 <= len it) by (unfold len; lia).
    rewrite !act_app.
    rewrite (act_none_end q (mk_ents (for_hidden parts) _ _ _)) by (apply mk_ents_Forall; intros; cbn [e_start e_end]; lia).
    rewrite (act_none_end q (mk_ents late _ _ _)) by (apply mk_ents_Forall; intros; cbn [e_start e_end]; lia).
    rewrite (act_none_end q (ents b _ _ _)).
    2:{ eapply Forall_impl; [|apply ents_ends; lia]. cbn beta. intros; lia. }
    apply IHr. lia.
  - pose proof (ninstr_nonneg r). assert (0 <= len c0) by (unfold len; lia). rewrite act_app.
    rewrite (act_none_end q (ents b _ _ _)).
    2:{ eapply Forall_impl; [|apply ents_ends; lia]. cbn beta. intros; lia. }
    apply IHr. lia.
Qed.

Lemma starts_gt : forall its pc r c q, q < pc -> act q (ents its pc r c) = [].
Proof.
  intros. apply act_none_start. eapply Forall_impl; [|apply ents_starts]. cbn beta. intros; lia.
Qed.

Lemma ends_le : forall its pc r c q, pc + ninstr its <= c -> c <= q -> act q (ents its pc r c) = [].
Proof.
  intros. apply act_none_end. eapply Forall_impl; [|apply ents_ends; assumption]. cbn beta. intros; lia.
Qed.

(* the heart: at the pc of a query point the active entries of the table are the reference
   scope (beyond what was in scope where the statement list starts), in consecutive registers *)
Definition found (env : list binding) (its : items) (p q pc r c : Z) : Prop :=
  pc <= q < pc + ninstr its /\
  exists ext, scope_at env its p = Some (env ++ ext) /\
              map bind_of (act q (ents its pc r c)) = ext /\
              map e_reg (act q (ents its pc r c)) = zseq r (List.length ext).

Lemma scope_ents : forall its env pc r c p,
  pc + ninstr its <= c ->
  match point_pc (compile its) pc p with
  | Some q => found env its p q pc r c
  | None => scope_at env its p = None
  end.
Proof.
  induction its as [|bs r IHr|q0 r IHr|r IHr|b IHb r IHr|parts late it b IHb r IHr|b IHb c0 r IHr];
    intros env pc r0 c p Hc; unfold found in *; cbn [compile ninstr] in *.
  - reflexivity.
  - (* local *)
    cbn [point_pc]. rewrite point_pc_app, point_pc_regs, instrs_regs, Z.add_0_r.
    specialize (IHr (env ++ bs) (pc + 1) (r0 + len bs) c p ltac:(lia)).
    destruct (point_pc (compile r) (pc + 1) p) as [q|]; [|exact IHr].
    destruct IHr as (Hq & ext & E1 & E2 & E3). split; [lia|].
    exists (bs ++ ext). cbn [scope_at ents]. rewrite act_app, act_mk_all by lia.
    rewrite !map_app, bind_of_mk, reg_of_mk, E2, E3.
    split; [rewrite E1, <- app_assoc; reflexivity|]. split; [reflexivity|].
    rewrite app_length, zseq_app. reflexivity.
  - (* a query point *)
    cbn [point_pc scope_at ents]. pose proof (ninstr_nonneg r).
    destruct (q0 =? p).
    + split; [lia|]. exists []. rewrite app_nil_r. rewrite starts_gt by lia. repeat split; reflexivity.
    + specialize (IHr env (pc + 2) r0 c p ltac:(lia)).
      replace (pc + 1 + 1) with (pc + 2) by lia.
      destruct (point_pc (compile r) (pc + 2) p) as [q|]; [|exact IHr].
      destruct IHr as (Hq & ext & E1 & E2 & E3). split; [lia|]. exists ext. auto.
  - (* other code *)
    cbn [point_pc scope_at ents].
    specialize (IHr env (pc + 1) r0 c p ltac:(lia)).
    destruct (point_pc (compile r) (pc + 1) p) as [q|]; [|exact IHr].
    destruct IHr as (Hq & ext & E1 & E2 & E3). split; [lia|]. exists ext. auto.
  - (* block *)
    cbn [point_pc scope_at ents]. pose proof (ninstr_nonneg r). pose proof (ninstr_nonneg b).
    rewrite point_pc_app, instrs_compile. cbn [point_pc].
    specialize (IHb env pc r0 (pc + ninstr b) p ltac:(lia)).
    destruct (point_pc (compile b) pc p) as [q|].
    + destruct IHb as (Hq & ext & E1 & E2 & E3). split; [lia|]. exists ext.
      rewrite E1. cbn [orelse]. rewrite act_app, (starts_gt r) by lia. rewrite app_nil_r. auto.
    + rewrite IHb. cbn [orelse].
      specialize (IHr env (pc + ninstr b) r0 c p ltac:(lia)).
      destruct (point_pc (compile r) (pc + ninstr b) p) as [q|]; [|exact IHr].
      destruct IHr as (Hq & ext & E1 & E2 & E3). split; [lia|]. exists ext.
      rewrite act_app, (ends_le b) by lia. auto.
  - (* for loop *)
    cbn [point_pc scope_at ents]; cbv zeta.
    pose proof (ninstr_nonneg r). pose proof (ninstr_nonneg b). pose proof (hdr_n_nonneg parts). assert (Hit : 0 <= len it) by (unfold len; lia).
    rewrite point_pc_app, instrs_parts.
    pose proof (point_pc_parts parts pc p) as Hh.
    destruct (point_pc (flat_map _ parts) pc p) as [q|].
    + (* inside a header expression: nothing of the loop is in scope yet *)
      destruct Hh as [Hz Hq]. rewrite Hz. split; [lia|]. exists []. rewrite app_nil_r.
      rewrite !act_app.
      rewrite (act_none_start q (mk_ents (for_hidden parts) _ _ _)) by (apply mk_ents_Forall; intros; cbn [e_start e_end]; lia).
      rewrite (act_none_start q (mk_ents late _ _ _)) by (apply mk_ents_Forall; intros; cbn [e_start e_end]; lia).
      rewrite (starts_gt b), (starts_gt r) by lia. repeat split; reflexivity.
    + rewrite Hh. cbn [point_pc].
      rewrite point_pc_app, point_pc_regs, instrs_regs, Z.add_0_r.
      rewrite point_pc_app, instrs_compile. cbn [point_pc].
      set (S := pc + hdr_n parts) in *. set (C := S + 1 + ninstr b) in *.
      specialize (IHb (env ++ for_hidden parts ++ late) (S + 1) (r0 + len parts + len late) C p ltac:(subst C; lia)).
      destruct (point_pc (compile b) (S + 1) p) as [q|].
      * destruct IHb as (Hq & ext & E1 & E2 & E3). split; [subst C S; lia|].
        exists (for_hidden parts ++ late ++ ext). rewrite E1. cbn [orelse].
        rewrite !act_app.
        rewrite (act_mk_all q (for_hidden parts)) by (subst C; lia).
        rewrite (act_mk_all q late) by (subst C; lia).
        rewrite (starts_gt r) by (subst C; lia). rewrite app_nil_r.
        rewrite !map_app, !bind_of_mk, !reg_of_mk, E2, E3.
        split; [rewrite <- !app_assoc; reflexivity|]. split; [reflexivity|].
        rewrite !app_length, !zseq_app.
        replace (Z.of_nat (List.length (for_hidden parts))) with (len parts)
          by (unfold for_hidden, len; rewrite map_length; reflexivity).
        replace (r0 + len parts + Z.of_nat (List.length late)) with (r0 + len parts + len late) by (unfold len; lia).
        reflexivity.
      * rewrite IHb. cbn [orelse].
        set (C2 := C + len it + 1) in *.
        rewrite point_pc_app, instrs_iter.
        pose proof (point_pc_iter it C p) as Hp.
        destruct (point_pc (map (fun p0 : Z => CInstr (Some p0)) it) C p) as [q|].
        -- (* the loop instruction that calls the iterator: only the hidden variables are in scope *)
           destruct Hp as [Hz Hq]. rewrite Hz. split; [subst C2 C S; lia|]. exists (for_hidden parts).
           rewrite !act_app.
           rewrite (act_mk_all q (for_hidden parts)) by (subst C2 C; lia).
           rewrite (act_none_end q (mk_ents late _ _ _)) by (apply mk_ents_Forall; intros; cbn [e_start e_end]; subst C; lia).
           rewrite (ends_le b) by (subst C; lia).
           rewrite (starts_gt r) by (subst C2 C; lia).
           rewrite !app_nil_r. rewrite bind_of_mk, reg_of_mk. repeat split; reflexivity.
        -- rewrite Hp. cbn [point_pc].
           replace (C + len it + 1) with C2 by (subst C2; lia).
           specialize (IHr env C2 r0 c p ltac:(subst C2 C S; lia)).
           destruct (point_pc (compile r) C2 p) as [q|]; [|exact IHr].
           destruct IHr as (Hq & ext & E1 & E2 & E3). split; [subst C2 C S; lia|]. exists ext.
           rewrite !act_app.
           rewrite (act_none_end q (mk_ents (for_hidden parts) _ _ _)) by (apply mk_ents_Forall; intros; cbn [e_start e_end]; lia).
           rewrite (act_none_end q (mk_ents late _ _ _)) by (apply mk_ents_Forall; intros; cbn [e_start e_end]; subst C2; lia).
           rewrite (ends_le b) by (subst C2 C; lia). auto.
  - (* repeat *)
    cbn [point_pc scope_at ents]; cbv zeta.
    pose proof (ninstr_nonneg r). pose proof (ninstr_nonneg b). assert (0 <= len c0) by (unfold len; lia).
    rewrite point_pc_app, instrs_compile.
    set (C := pc + ninstr b + 2 * len c0 + 1) in *.
    specialize (IHb env pc r0 C p ltac:(subst C; lia)).
    destruct (point_pc (compile b) pc p) as [q|].
    + destruct IHb as (Hq & ext & E1 & E2 & E3). split; [lia|]. exists ext.
      rewrite E1. cbn [orelse]. rewrite act_app, (starts_gt r) by (subst C; lia). rewrite app_nil_r. auto.
    + rewrite IHb. cbn [orelse].
      rewrite point_pc_app, instrs_cpts.
      pose proof (point_pc_cpts c0 (pc + ninstr b) p) as Hp.
      destruct (point_pc (cpts c0) (pc + ninstr b) p) as [q|].
      * (* inside the until condition: the body's own variables are still in scope *)
        destruct Hp as [Hz Hq]. rewrite Hz. split; [lia|]. exists (decls b).
        rewrite act_app, (starts_gt r) by (subst C; lia). rewrite app_nil_r.
        destruct (act_end b pc r0 C q ltac:(subst C; lia)) as [E1 E2]. auto.
      * rewrite Hp. cbn [point_pc].
        replace (pc + ninstr b + 2 * len c0 + 1) with C by (subst C; lia).
        specialize (IHr env C r0 c p ltac:(subst C; lia)).
        destruct (point_pc (compile r) C p) as [q|]; [|exact IHr].
        destruct IHr as (Hq & ext & E1 & E2 & E3). split; [subst C; lia|]. exists ext.
        rewrite act_app, (ends_le b) by (subst C; lia). auto.
Qed.

(* ---- the table is sorted by StartPc, so LocalName's early exit loses nothing ---- *)
Definition le_start (a b : entry) : Prop := e_start a <= e_start b.

Lemma sorted_app : forall (a b : list entry),
  StronglySorted le_start a -> StronglySorted le_start b ->
  (forall x y, In x a -> In y b -> le_start x y) -> StronglySorted le_start (a ++ b).
Proof.
  induction a as [|x a IH]; intros b Ha Hb H; [exact Hb|].
  inversion Ha; subst. simpl. constructor.
  - apply IH; auto. intros; apply H; simpl; auto.
  - apply Forall_app. split; [assumption|].
    apply Forall_forall. intros y Hy. apply H; simpl; auto.
Qed.

Lemma mk_ents_sorted : forall bs s c r, StronglySorted le_start (mk_ents bs s c r).
Proof.
  induction bs as [|b bs IH]; intros; simpl; constructor; [apply IH|].
  apply mk_ents_Forall. intros. unfold le_start. simpl. lia.
Qed.

Lemma ents_starts_le : forall its pc r c,
  Forall (fun e => e_start e <= pc + ninstr its) (ents its pc r c).
Proof.
  induction its as [|bs r IHr|q r IHr|r IHr|b IHb r IHr|parts late it b IHb r IHr|b IHb c0 r IHr];
    intros pc r0 c; cbn [ents ninstr]; cbv zeta.
  - constructor.
  - pose proof (ninstr_nonneg r).
    apply Forall_app_intro; [apply mk_ents_Forall; intros; cbn [e_start e_end]; lia|].
    eapply Forall_impl; [|apply IHr]. cbn beta. intros; lia.
  - eapply Forall_impl; [|apply IHr]. cbn beta. intros; lia.
  - eapply Forall_impl; [|apply IHr]. cbn beta. intros; lia.
  - pose proof (ninstr_nonneg r).
    apply Forall_app_intro; [eapply Forall_impl; [|apply IHb]; cbn beta; intros; lia|].
    eapply Forall_impl; [|apply IHr]. cbn beta. intros; lia.
  - pose proof (ninstr_nonneg r). pose proof (ninstr_nonneg b). pose proof (hdr_n_nonneg parts). assert (Hit : 0 <= len it) by (unfold len; lia).
    repeat apply Forall_app_intro.
    + apply mk_ents_Forall; intros; cbn [e_start e_end]; lia.
    + apply mk_ents_Forall; intros; cbn [e_start e_end]; lia.
    + eapply Forall_impl; [|apply IHb]. cbn beta. intros; lia.
    + eapply Forall_impl; [|apply IHr]. cbn beta. intros; lia.
  - pose proof (ninstr_nonneg r). assert (0 <= len c0) by (unfold len; lia).
    apply Forall_app_intro; [eapply Forall_impl; [|apply IHb]; cbn beta; intros; lia|].
    eapply Forall_impl; [|apply IHr]. cbn beta. intros; lia.
Qed.

Lemma between : forall (a b : list entry) m,
  Forall (fun e => e_start e <= m) a -> Forall (fun e => m <= e_start e) b ->
  forall x y, In x a -> In y b -> le_start x y.
Proof.
  intros a b m Ha Hb x y Hx Hy. rewrite Forall_forall in Ha, Hb.
  specialize (Ha x Hx). specialize (Hb y Hy). unfold le_start. lia.
Qed.

Lemma ents_sorted : forall its pc r c, StronglySorted le_start (ents its pc r c).
Proof.
  induction its as [|bs r IHr|q r IHr|r IHr|b IHb r IHr|parts late it b IHb r IHr|b IHb c0 r IHr];
    intros pc r0 c; cbn [ents]; cbv zeta.
  - constructor.
  - apply sorted_app; [apply mk_ents_sorted|apply IHr|].
    apply (between _ _ (pc + 1)); [apply mk_ents_Forall; intros; cbn [e_start e_end]; lia|apply ents_starts].
  - apply IHr.
  - apply IHr.
  - apply sorted_app; [apply IHb|apply IHr|].
    apply (between _ _ (pc + ninstr b)); [apply ents_starts_le|apply ents_starts].
  - pose proof (ninstr_nonneg b). assert (Hit : 0 <= len it) by (unfold len; lia).
    set (S := pc + hdr_n parts). set (C := S + 1 + ninstr b).
    apply sorted_app; [apply mk_ents_sorted| |].
    + apply sorted_app; [apply mk_ents_sorted| |].
      * apply sorted_app; [apply IHb|apply IHr|].
        apply (between _ _ C); [apply ents_starts_le|].
        eapply Forall_impl; [|apply ents_starts]. cbn beta. intros; lia.
      * apply (between _ _ (S + 1)); [apply mk_ents_Forall; intros; cbn [e_start e_end]; lia|].
        apply Forall_app_intro; [apply ents_starts|].
        eapply Forall_impl; [|apply ents_starts]. cbn beta. intros; subst C; lia.
    + apply (between _ _ S); [apply mk_ents_Forall; intros; cbn [e_start e_end]; lia|].
      repeat apply Forall_app_intro.
      * apply mk_ents_Forall; intros; cbn [e_start e_end]; lia.
      * eapply Forall_impl; [|apply ents_starts]. cbn beta. intros; lia.
      * eapply Forall_impl; [|apply ents_starts]. cbn beta. intros; subst C; lia.
  - assert (0 <= len c0) by (unfold len; lia).
    apply sorted_app; [apply IHb|apply IHr|].
    apply (between _ _ (pc + ninstr b)); [apply ents_starts_le|].
    eapply Forall_impl; [|apply ents_starts]. cbn beta. intros; lia.
Qed.

Lemma fn_table_sorted : forall f, StronglySorted le_start (fn_table f).
Proof.
  intros f. unfold fn_table. apply sorted_app; [apply mk_ents_sorted|apply ents_sorted|].
  apply (between _ _ 0); [apply mk_ents_Forall; intros; cbn [e_start e_end]; lia|apply ents_starts].
Qed.

(* function.go LocalName on a sorted table = the regno-th active entry *)
Lemma local_name_sorted : forall t regno q,
  StronglySorted le_start t -> 1 <= regno ->
  local_name t regno q = nth_error (act q t) (Z.to_nat (regno - 1)).
Proof.
  induction t as [|e t IH]; intros regno q Hs Hr.
  - simpl. destruct (Z.to_nat (regno - 1)); reflexivity.
  - inversion Hs as [|? ? Hs' Hall]; subst. cbn [local_name]. unfold act. cbn [filter]. unfold active at 1.
    destruct (Z.leb_spec (e_start e) q) as [Hle|Hgt].
    + destruct (Z.ltb_spec q (e_end e)) as [Hlt|Hge]; cbn [andb].
      * destruct (Z.eqb_spec (regno - 1) 0) as [E|N].
        -- rewrite E. reflexivity.
        -- rewrite IH by (auto; lia).
           replace (Z.to_nat (regno - 1)) with (S (Z.to_nat (regno - 1 - 1))) by lia. reflexivity.
      * apply IH; auto.
    + cbn [andb]. fold (act q t). rewrite act_none_start.
      * destruct (Z.to_nat (regno - 1)); reflexivity.
      * eapply Forall_impl; [|exact Hall]. unfold le_start. cbn beta. intros; lia.
Qed.

(* state.go GetLocal reads register no-1: with the active entries in registers 0,1,2,... that
   is the value of the no-th of them *)
Lemma reg_val_act : forall t r q,
  reg_val t r q = match find (fun e => e_reg e =? r) (act q t) with Some e => e_val e | None => None end.
Proof.
  induction t as [|e t IH]; intros r q; [reflexivity|].
  cbn [reg_val]. unfold act. cbn [filter]. fold (active q e).
  destruct (active q e) eqn:A.
  - rewrite ?A. cbn [andb find].
    destruct (e_reg e =? r); [reflexivity|]. apply IH.
  - rewrite ?A. cbn [andb]. apply IH.
Qed.

Lemma find_zseq : forall (l : list entry) a k,
  map e_reg l = zseq a (List.length l) -> (k < List.length l)%nat ->
  find (fun e => e_reg e =? a + Z.of_nat k) l = nth_error l k.
Proof.
  induction l as [|e l IH]; intros a k Hm Hk; [simpl in Hk; lia|].
  cbn [map List.length zseq] in Hm. injection Hm as He Hl. subst a. cbn [find].
  destruct k as [|k].
  - replace (e_reg e + Z.of_nat 0) with (e_reg e) by lia. rewrite Z.eqb_refl. reflexivity.
  - replace (e_reg e =? e_reg e + Z.of_nat (S k)) with false by (symmetry; apply Z.eqb_neq; lia).
    cbn [nth_error]. rewrite <- (IH (e_reg e + 1) k); [|exact Hl|simpl in Hk; lia].
    replace (e_reg e + 1 + Z.of_nat k) with (e_reg e + Z.of_nat (S k)) by lia. reflexivity.
Qed.

Definition regs_ok (q : Z) (t : list entry) : Prop :=
  map e_reg (act q t) = zseq 0 (List.length (act q t)).

Lemma getlocal_impl_nth : forall t q no,
  StronglySorted le_start t -> regs_ok q t -> 1 <= no ->
  getlocal_impl t q no = option_map bind_of (nth_error (act q t) (Z.to_nat (no - 1))).
Proof.
  intros t q no Hs Hr Hno. unfold getlocal_impl. rewrite local_name_sorted by assumption.
  destruct (nth_error (act q t) (Z.to_nat (no - 1))) as [e|] eqn:E; [|reflexivity].
  cbn [option_map]. unfold bind_of. f_equal. f_equal.
  rewrite reg_val_act.
  assert (Hk : (Z.to_nat (no - 1) < List.length (act q t))%nat) by (apply nth_error_Some; congruence).
  pose proof (find_zseq (act q t) 0 (Z.to_nat (no - 1)) Hr Hk) as F.
  replace (0 + Z.of_nat (Z.to_nat (no - 1))) with (no - 1) in F by lia.
  rewrite F, E. reflexivity.
Qed.

Lemma skipn_nth_cons {A} (l : list A) k x : nth_error l k = Some x -> skipn k l = x :: skipn (S k) l.
Proof.
  revert k; induction l as [|y l IH]; intros [|k] H; simpl in *; try discriminate.
  - congruence.
  - apply IH. exact H.
Qed.

Lemma enum_locals_spec : forall fuel t q k,
  StronglySorted le_start t -> regs_ok q t ->
  (List.length (act q t) - k < fuel)%nat ->
  enum_locals t q (Z.of_nat k + 1) fuel = map bind_of (skipn k (act q t)).
Proof.
  induction fuel as [|fuel IH]; intros t q k Hs Hr Hf; [lia|].
  cbn [enum_locals]. rewrite getlocal_impl_nth by (auto; lia).
  replace (Z.to_nat (Z.of_nat k + 1 - 1)) with k by lia.
  destruct (nth_error (act q t) k) as [e|] eqn:E; cbn [option_map].
  - rewrite (skipn_nth_cons _ _ _ E). cbn [map]. f_equal.
    replace (Z.of_nat k + 1 + 1) with (Z.of_nat (S k) + 1) by lia.
    apply IH; auto.
    assert ((k < List.length (act q t))%nat) by (apply nth_error_Some; congruence). lia.
  - apply nth_error_None in E. rewrite skipn_all2 by exact E. reflexivity.
Qed.

Lemma filter_length_le {A} (f : A -> bool) l : (List.length (filter f l) <= List.length l)%nat.
Proof. induction l as [|x l IH]; simpl; [lia|]. destruct (f x); simpl; lia. Qed.

(* ================= the refinement ================= *)

(* What debug.getlocal enumerates through gopher-lua's DbgLocals table (RegisterLocalVar /
   StartLocalVarsHere / EndScope at compile time, LocalName and register LocalBase+no-1 at run
   time) is exactly the reference scope of Lua 5.1, names and values, at every query point of
   every function body of the modelled language. *)
Theorem dbglocals_refines_scope_lemma : forall f p, dbg_locals_at f p = locals_at f p.
Proof.
  intros f p. unfold dbg_locals_at, locals_at. rewrite dbg_table_eq.
  unfold compile_fn. rewrite point_pc_app, point_pc_regs, instrs_regs, Z.add_0_r.
  rewrite point_pc_app.
  pose proof (scope_ents (f_body f) (fn_env0 f) 0 (len (fn_env0 f)) (fn_close f) p) as H.
  unfold fn_close in H at 1. specialize (H ltac:(lia)).
  destruct (point_pc (compile (f_body f)) 0 p) as [q|].
  - destruct H as (Hq & ext & E1 & E2 & E3). rewrite E1. f_equal.
    assert (Hact : act q (fn_table f) = mk_ents (fn_env0 f) 0 (fn_close f) 0 ++
                   act q (ents (f_body f) 0 (len (fn_env0 f)) (fn_close f))).
    { unfold fn_table. rewrite act_app, act_mk_all; [reflexivity|]. unfold fn_close. lia. }
    assert (Hregs : regs_ok q (fn_table f)).
    { unfold regs_ok. rewrite Hact, map_app, reg_of_mk, E3, app_length, mk_ents_length.
      rewrite zseq_app. rewrite <- E2, !map_length. reflexivity. }
    replace 1 with (Z.of_nat 0 + 1) by lia.
    rewrite enum_locals_spec.
    + cbn [skipn]. rewrite Hact, map_app, bind_of_mk, E2. reflexivity.
    + apply fn_table_sorted.
    + exact Hregs.
    + pose proof (filter_length_le (active q) (fn_table f)). unfold act. lia.
  - cbn [point_pc]. symmetry. exact H.
Qed.

(* ---- the bookkeeping before the fix: witness C17-1 ---- *)
Definition c17_1_witness : fn :=
  Fn false [] false
     (ILocal [("a"%string, Some 1)]
        (IBlock (ILocal [("c"%string, Some 3)] INil)
           (ILocal [("d"%string, Some 4)] (IPoint 1 INil)))).

(* local a=1; do local c=3 end; local d=4; return debug.getlocal(1,2): the old EndScope +
   LocalName named the dead variable c as local number 2 (and the run-time read register 1,
   which by then holds d's 4: the observed answer "c", 4); the reference answer is d *)
Lemma dbglocals_old_refuted_lemma :
  exists f p pc,
    point_pc (compile_fn f) 0 p = Some pc /\
    option_map e_name (local_name_old (dbg_table_old f) 2 pc) = Some "c"%string /\
    option_map (fun env => getlocal env 2) (locals_at f p) = Some (Some ("d"%string, Some 4)).
Proof. exists c17_1_witness, 1, 4. vm_compute. repeat split; reflexivity. Qed.
