(* Case evaluator for the C17 correspondence shards.
   One case = one generated program, rendered and run under several layouts. *)
From GL Require Import Common.Bytes Dbg.Lines Dbg.Layout Dbg.Scope Dbg.DbgLocals.
From Coq Require Import Uint63.

(* ---- static facts of the program (known to the generator by construction) ---- *)

Inductive lmode := LExact | LRange | LNone | LZero.

(* one observed line number:
   spec: LRange — the number must lie in the admissible range of the innermost statement (or
                  block header) containing token ld_spec, the same token of that range in every
                  layout;
         LExact — it must be the line of token ld_spec in every layout;
         LZero  — linedefined / lastlinedefined of a main chunk: 0 (it is defined on no line);
         LNone  — there is no line to report (a level that falls on a frame lost to a tail
                  call): currentline/linedefined are -1, an error message gets no position;
   impl: gopher reports the line of token ld_impl (first token of the AST node that performs
         the operation; see notes/C17.md for the rule). *)
Record ldesc := LDesc { ld_mode : lmode; ld_spec : Z; ld_impl : Z }.

(* one enumeration of locals: function index, point *)
Record sdesc := SDesc { sd_fn : Z; sd_point : Z }.

(* debug.setlocal(level, idx, v) at a point, then enumerated again *)
Record setdesc := SetDesc { st_fn : Z; st_point : Z; st_idx : Z; st_val : Z }.

(* upvalues of a function: expected names and values by construction (not derived in Coq) *)
Record udesc := UDesc { ud_exp : list binding }.
Record usetdesc := USetDesc { us_exp : list binding; us_idx : Z; us_val : Z }.

(* ---- what one run under one layout showed ---- *)
Record layobs := LayObs {
  lo_len : Z;                               (* length of the rendered source text *)
  lo_src : list int;                        (* the text, 7 bytes per integer (Lines.unpack) *)
  lo_pspans : list int;                     (* offset * 65536 + length of every token *)
  lo_plex : list int;                       (* line the real scanner gave every token *)
  lo_lines : list Z;                        (* per ldesc: observed line (-1: none reported) *)
  lo_locals : list (list binding);          (* per sdesc: enumerated (name, value) *)
  lo_sets : list (option name * list binding);   (* per setdesc: returned name, enumeration after *)
  lo_upvals : list (list binding);          (* per udesc *)
  lo_usets : list (option name * list binding) }.  (* per usetdesc *)

Record case := Case {
  c_stmts : list stmt;
  c_ldescs : list ldesc;
  c_fns : list fn;
  c_sdescs : list sdesc;
  c_setdescs : list setdesc;
  c_udescs : list udesc;
  c_usetdescs : list usetdesc;
  c_lays : list layobs }.

Definition lo_bytes (lo : layobs) : bytes := unpack (lo_len lo) (lo_src lo).
Definition lo_spans (lo : layobs) : list (Z * Z) := map unspan (lo_pspans lo).
Definition lo_lex (lo : layobs) : list Z := ints_to_Z (lo_plex lo).

(* ---- helpers ---- *)
Definition znth {A} (l : list A) (i : Z) (d : A) : A :=
  if i <? 0 then d else nth (Z.to_nat i) l d.

Definition optz_eqb := opt_eqb Z.eqb.
Definition binding_eqb (a b : binding) : bool :=
  String.eqb (fst a) (fst b) && optz_eqb (snd a) (snd b).
(* expected value unknown (None) matches anything *)
Definition binding_matches (exp obs : binding) : bool :=
  String.eqb (fst exp) (fst obs) &&
  match snd exp with Some z => optz_eqb (Some z) (snd obs) | None => true end.
Definition bindings_match (exp obs : list binding) : bool := list_eqb binding_matches exp obs.
Definition optname_eqb := opt_eqb String.eqb.

Fixpoint all2 {A B} (f : A -> B -> bool) (a : list A) (b : list B) : bool :=
  match a, b with
  | [], [] => true
  | x :: a', y :: b' => f x y && all2 f a' b'
  | _, _ => false
  end.

(* per layout: (start line, end line) of every token, by the reference rule *)
Definition lay_lines (lo : layobs) : list (Z * Z) := span_lines (lo_bytes lo) (lo_spans lo).

Definition tokline (ls : list (Z * Z)) (t : Z) : Z := fst (znth ls t (-5, -5)).
Definition tokend (ls : list (Z * Z)) (t : Z) : Z := snd (znth ls t (-5, -5)).

(* ---- lines ---- *)

(* the reference newline rule agrees with the real scanner on every token *)
Definition lex_agrees (lo : layobs) (ls : list (Z * Z)) : bool :=
  spans_ok 0 (lo_bytes lo) (lo_spans lo) && list_eqb Z.eqb (map fst ls) (lo_lex lo).

(* observed numbers of descriptor k in every layout, with that layout's token lines *)
Definition obs_k (lays : list (layobs * list (Z * Z))) (k : nat) : list (Z * list (Z * Z)) :=
  map (fun x => (nth k (lo_lines (fst x)) (-1), snd x)) lays.

(* token j explains all layouts: the number lies on token j everywhere *)
Definition tok_explains (os : list (Z * list (Z * Z))) (j : Z) : bool :=
  forallb (fun o => (tokline (snd o) j <=? fst o) && (fst o <=? tokend (snd o) j)) os.

Fixpoint zrange (a : Z) (n : nat) : list Z :=
  match n with O => [] | S m => a :: zrange (a + 1) m end.

Definition line_spec (stmts : list stmt) (d : ldesc) (os : list (Z * list (Z * Z))) : bool :=
  match ld_mode d with
  | LNone => forallb (fun o => fst o =? -1) os
  | LZero => forallb (fun o => fst o =? 0) os
  | LExact => forallb (fun o => fst o =? tokline (snd o) (ld_spec d)) os
  | LRange =>
      match innermost stmts (ld_spec d) None with
      | Some (a, b) =>
          (* inside the admissible range in every layout ... *)
          forallb (fun o => (tokline (snd o) a <=? fst o) && (fst o <=? tokend (snd o) b)) os &&
          (* ... and a function of token positions: one token of the range carries it everywhere *)
          existsb (tok_explains os) (zrange a (Z.to_nat (b - a + 1)))
      | None => false
      end
  end.

Definition line_impl (d : ldesc) (os : list (Z * list (Z * Z))) : bool :=
  match ld_mode d with
  | LNone => forallb (fun o => fst o =? -1) os
  | LZero => forallb (fun o => fst o =? 0) os
  | _ => forallb (fun o => fst o =? tokline (snd o) (ld_impl d)) os
  end.

Fixpoint forall_idx {A} (f : nat -> A -> bool) (k : nat) (l : list A) : bool :=
  match l with [] => true | x :: r => f k x && forall_idx f (S k) r end.

(* ---- locals ---- *)
Definition fn0 : fn := Fn false [] false INil.
Definition fn_of (c : case) (i : Z) : fn := znth (c_fns c) i fn0.

Definition locals_spec (c : case) (d : sdesc) (obs : list binding) : bool :=
  match locals_at (fn_of c (sd_fn d)) (sd_point d) with
  | Some env => bindings_match env obs
  | None => false
  end.
Definition locals_impl (c : case) (d : sdesc) (obs : list binding) : bool :=
  match dbg_locals_at (fn_of c (sd_fn d)) (sd_point d) with
  | Some env => bindings_match env obs
  | None => false
  end.

Definition set_spec (c : case) (d : setdesc) (obs : option name * list binding) : bool :=
  match locals_at (fn_of c (st_fn d)) (st_point d) with
  | Some env =>
      let '(n, env') := setlocal env (st_idx d) (Some (st_val d)) in
      optname_eqb n (fst obs) && bindings_match env' (snd obs)
  | None => false
  end.
Definition set_impl (c : case) (d : setdesc) (obs : option name * list binding) : bool :=
  match dbg_locals_at (fn_of c (st_fn d)) (st_point d) with
  | Some env =>
      let '(n, env') := setlocal env (st_idx d) (Some (st_val d)) in
      optname_eqb n (fst obs) && bindings_match env' (snd obs)
  | None => false
  end.

(* ---- upvalues (expected list supplied by the generator) ---- *)
Definition upval_ok (d : udesc) (obs : list binding) : bool := bindings_match (ud_exp d) obs.
Definition uset_ok (d : usetdesc) (obs : option name * list binding) : bool :=
  let '(n, env') := setlocal (us_exp d) (us_idx d) (Some (us_val d)) in
  optname_eqb n (fst obs) && bindings_match env' (snd obs).

(* ---- the two checkers ---- *)
Definition with_lines (c : case) : list (layobs * list (Z * Z)) :=
  map (fun lo => (lo, lay_lines lo)) (c_lays c).

Definition shapes_ok (c : case) (lo : layobs) : bool :=
  (List.length (lo_lines lo) =? List.length (c_ldescs c))%nat &&
  (List.length (lo_plex lo) =? List.length (lo_pspans lo))%nat.

Definition scope_part (f : case -> sdesc -> list binding -> bool)
                      (g : case -> setdesc -> option name * list binding -> bool)
                      (c : case) : bool :=
  forallb (fun lo =>
    all2 (f c) (c_sdescs c) (lo_locals lo) &&
    all2 (g c) (c_setdescs c) (lo_sets lo) &&
    all2 upval_ok (c_udescs c) (lo_upvals lo) &&
    all2 uset_ok (c_usetdescs c) (lo_usets lo)) (c_lays c).

Definition check_spec (c : case) : bool :=
  let ll := with_lines c in
  negb (Nat.eqb (List.length (c_lays c)) 0) &&
  forallb (shapes_ok c) (c_lays c) &&
  forall_idx (fun k d => line_spec (c_stmts c) d (obs_k ll k)) 0 (c_ldescs c) &&
  scope_part locals_spec set_spec c.

Definition check_impl (c : case) : bool :=
  let ll := with_lines c in
  forallb (shapes_ok c) (c_lays c) &&
  forallb (fun x => lex_agrees (fst x) (snd x)) ll &&
  forall_idx (fun k d => line_impl d (obs_k ll k)) 0 (c_ldescs c) &&
  scope_part locals_impl set_impl c.
