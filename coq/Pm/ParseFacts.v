(* C14 — proofs about the pattern scanner/parser (GoParse): totality (bad_pattern_total). *)
From GL Require Import Common.Bytes Common.BytesFacts Pm.Class Pm.GoParse.
From Coq Require Import Lia ZifyBool.

Section ScannerFacts.
Variable src : bytes.

Definition sc_inv (s : scst) : Prop :=
  (sc_started s = false -> sc_pos s = 0) /\
  (sc_pos s = EOS \/ (0 <= sc_pos s < len src) \/ (sc_pos s = 0 /\ sc_started s = false)).

(* number of bytes Next can still deliver *)
Definition remaining (s : scst) : Z :=
  if sc_pos s =? EOS then 0
  else if sc_started s then len src - 1 - sc_pos s else len src.

Lemma remaining_nonneg s : sc_inv s -> 0 <= remaining s.
Proof.
  unfold sc_inv, remaining, EOS. pose proof (len_nonneg src).
  destruct s as [p st]; cbn [sc_pos sc_started]. intros [Hs Hi]; destruct (p =? -1) eqn:C; [lia|]; destruct Hi as [H1|[H1|[H1 H2]]]; destruct st; try lia; discriminate.
Qed.

Ltac break_if_goal :=
  repeat match goal with |- context [if ?c then _ else _] => destruct c eqn:? end.
Ltac break_if_hyps :=
  repeat match goal with H : context [if ?c then _ else _] |- _ => destruct c eqn:? end.
Ltac break_if_in E :=
  repeat match type of E with context [if ?c then _ else _] => destruct c eqn:? end.

Lemma next_spec s ch s' :
  sc_next src s = (ch, s') -> sc_inv s ->
  sc_inv s' /\ remaining s' <= remaining s /\
  (0 < remaining s -> remaining s' = remaining s - 1) /\
  (remaining s = 0 -> ch = EOS).
Proof.
  unfold sc_next, sc_nextpos, sc_inv, remaining, EOS. pose proof (len_nonneg src) as Hl.
  destruct s as [p st]; cbn [sc_pos sc_started].
  intros E Hinv. destruct st; cbn [negb] in E; cbn [sc_pos sc_started] in E;
    break_if_in E; inversion E; subst; clear E; cbn [sc_pos sc_started];
    break_if_goal; repeat split; try lia.
Qed.

Lemma peek_spec s ch s' :
  sc_peek src s = (ch, s') -> sc_inv s ->
  sc_inv s' /\ remaining s' = remaining s /\ (remaining s = 0 -> ch = EOS).
Proof.
  unfold sc_peek, sc_next, sc_nextpos, sc_inv, remaining, EOS. pose proof (len_nonneg src) as Hl.
  destruct s as [p st]; cbn [sc_pos sc_started].
  intros E Hinv. destruct st; cbn [negb] in E; cbn [sc_pos sc_started] in E;
    break_if_in E; inversion E; subst; clear E; cbn [sc_pos sc_started];
    break_if_goal; break_if_hyps; repeat split; try lia.
Qed.

Definition pres_ok {A} (s : scst) (dec : Z) (r : pres A) : Prop :=
  match r with
  | PFuel => False
  | PErr => True
  | POk _ s' => sc_inv s' /\ remaining s' <= remaining s - dec
  end.

Ltac step :=
  match goal with
  | Hi : sc_inv ?s |- context [sc_peek src ?s] =>
      let ch := fresh "ch" in let s1 := fresh "s" in let E := fresh "E" in
      destruct (sc_peek src s) as [ch s1] eqn:E;
      destruct (peek_spec s ch s1 E Hi) as (? & ? & ?)
  | Hi : sc_inv ?s |- context [sc_next src ?s] =>
      let ch := fresh "ch" in let s1 := fresh "s" in let E := fresh "E" in
      destruct (sc_next src s) as [ch s1] eqn:E;
      destruct (next_spec s ch s1 E Hi) as (? & ? & ? & ?)
  end; unfold EOS in *.

Ltac brk := match goal with |- context [if ?c then _ else _] => destruct c eqn:? end.

Lemma parse_class_inset_ok s : sc_inv s -> pres_ok s 1 (parse_class_inset src s).
Proof.
  intros Hi. pose proof (remaining_nonneg s Hi). unfold parse_class_inset, EOS in *.
  step. brk.
  - step. cbn. split; [assumption|lia].
  - brk; cbn; [exact I|]. split; [assumption|]. lia.
Qed.

Lemma parse_set_loop_ok isnot :
  forall f s acc, sc_inv s -> remaining s < Z.of_nat f ->
    pres_ok s 0 (parse_set_loop src f s isnot acc).
Proof.
  induction f as [|f IH]; intros s acc Hi Hf.
  - pose proof (remaining_nonneg s Hi). lia.
  - pose proof (remaining_nonneg s Hi) as Hnn. cbn [parse_set_loop]. unfold EOS in *.
    step. brk; [exact I|].
    assert (Hpos : 0 < remaining s) by lia.
    brk.
    + step. cbn. split; [assumption|lia].
    + pose proof (parse_class_inset_ok s0 H) as Hc.
      destruct (parse_class_inset src s0) as [c s2| |]; cbn in Hc; [|exact I|contradiction].
      destruct Hc as [Hi2 Hr2].
      assert (Hgo : forall s' acc', sc_inv s' -> remaining s' <= remaining s2 ->
                     pres_ok s 0 (parse_set_loop src f s' isnot acc')).
      { intros s' acc' Hi' Hr'. specialize (IH s' acc' Hi' ltac:(lia)).
        destruct (parse_set_loop src f s' isnot acc'); cbn in *; try assumption.
        destruct IH; split; [assumption|lia]. }
      destruct c; try (apply Hgo; [assumption|lia]).
      step. brk; [|apply Hgo; [assumption|lia]].
      step. step. brk.
      * step. apply Hgo; [assumption|lia].
      * apply Hgo; [assumption|lia].
Qed.

Lemma parse_class_set_ok s : sc_inv s -> pres_ok s 0 (parse_class_set src s).
Proof.
  intros Hi. pose proof (remaining_nonneg s Hi) as Hnn. unfold parse_class_set.
  assert (Hlen : forall s', sc_inv s' -> remaining s' < Z.of_nat (length src + 1)).
  { intros s' Hi'. unfold remaining, sc_inv, EOS, len in *. destruct s' as [p st]; cbn [sc_pos sc_started] in *.
    break_if_goal; lia. }
  step. brk.
  - step. pose proof (parse_set_loop_ok true (length src + 1) s1 [] H2 (Hlen _ H2)) as Hp.
    destruct (parse_set_loop src (length src + 1) s1 true []); cbn in *; try assumption.
    destruct Hp; split; [assumption|lia].
  - pose proof (parse_set_loop_ok false (length src + 1) s0 [] H (Hlen _ H)) as Hp.
    destruct (parse_set_loop src (length src + 1) s0 false []); cbn in *; try assumption.
    destruct Hp; split; [assumption|lia].
Qed.

Lemma parse_class_top_ok s : sc_inv s -> pres_ok s 1 (parse_class_top src s).
Proof.
  intros Hi. pose proof (remaining_nonneg s Hi). unfold parse_class_top, EOS in *.
  step. brk.
  - step. cbn. split; [assumption|lia].
  - brk; [cbn; split; [assumption|lia]|].
    brk.
    + pose proof (parse_class_set_ok s0 H0) as Hp.
      destruct (parse_class_set src s0); cbn in *; try assumption.
      destruct Hp; split; [assumption|lia].
    + brk; cbn; [exact I|]. split; [assumption|lia].
Qed.

Lemma parse_loop_ok :
  forall f s toplevel acc tail nc, sc_inv s -> remaining s < Z.of_nat f ->
    pres_ok s 0 (parse_loop src f s toplevel acc tail nc).
Proof.
  induction f as [|f IH]; intros s toplevel acc tail nc Hi Hf.
  - pose proof (remaining_nonneg s Hi). lia.
  - pose proof (remaining_nonneg s Hi) as Hnn. cbn [parse_loop]. unfold EOS in *.
    assert (Hgo : forall s' tl acc' tail' nc', sc_inv s' -> remaining s' <= remaining s - 1 ->
                   pres_ok s 0 (parse_loop src f s' tl acc' tail' nc')).
    { intros s' tl acc' tail' nc' Hi' Hr'. specialize (IH s' tl acc' tail' nc' Hi' ltac:(lia)).
      destruct (parse_loop src f s' tl acc' tail' nc'); cbn in *; try assumption.
      destruct IH; split; [assumption|lia]. }
    assert (Hcls : forall s', sc_inv s' -> remaining s' <= remaining s ->
              pres_ok s 0 (match parse_class_top src s' with
                           | POk c s4 => parse_loop src f s4 toplevel (acc ++ [PSingle c]) tail nc
                           | PErr => PErr
                           | PFuel => PFuel
                           end)).
    { intros s' Hi' Hr'. pose proof (parse_class_top_ok s' Hi') as Hp.
      destruct (parse_class_top src s') as [c s4| |]; cbn in Hp; [|exact I|contradiction].
      destruct Hp. apply Hgo; [assumption|lia]. }
    step.
    brk.
    { (* % *)
      assert (0 < remaining s) by lia.
      step. step. brk; [exact I|]. brk.
      - step. apply Hgo; [assumption|lia].
      - brk.
        + step. step. step. apply Hgo; [assumption|lia].
        + apply Hcls; [assumption|lia]. }
    brk.
    { apply Hcls; [assumption|lia]. }
    brk.
    { destruct toplevel; cbn; [exact I|]. split; [assumption|lia]. }
    brk.
    { (* ( *)
      assert (0 < remaining s) by lia.
      step. brk; [exact I|]. step. brk.
      - step. apply Hgo; [assumption|lia].
      - match goal with |- context [parse_loop src f ?sx false [] false ?n1] =>
          match goal with Hx : sc_inv sx |- _ =>
            pose proof (IH sx false [] false n1 Hx ltac:(lia)) as Hin;
            destruct (parse_loop src f sx false [] false n1) as [[[sub t] nc2] s4| |]; cbn in Hin; [|exact I|contradiction]
          end end.
        destruct Hin as [Hi4 Hr4].
        step. brk; [exact I|]. step. apply Hgo; [assumption|lia]. }
    brk.
    { assert (0 < remaining s) by lia. step. apply Hgo; [assumption|lia]. }
    brk.
    { assert (0 < remaining s) by lia. step. brk; apply Hgo; try assumption; lia. }
    brk.
    { step. cbn. split; [assumption|lia]. }
    assert (0 < remaining s) by lia. step. apply Hgo; [assumption|lia].
Qed.

Lemma sc_init_inv : sc_inv sc_init.
Proof. unfold sc_inv, sc_init; cbn. split; [reflexivity|]. right. right. split; reflexivity. Qed.
End ScannerFacts.

(* bad_pattern_total: parsePattern terminates on every byte string with Ok or a pm.Error *)
Lemma bad_pattern_total_lemma : forall p : bytes, goParse p <> ParseFuel.
Proof.
  intros p. unfold goParse.
  pose proof (sc_init_inv p) as Hi0.
  destruct (sc_peek p sc_init) as [ch s1] eqn:E1.
  destruct (peek_spec p _ _ _ E1 Hi0) as (Hi1 & Hr1 & _).
  assert (Hrem0 : remaining p sc_init <= len p).
  { unfold remaining, sc_init, EOS; cbn. lia. }
  assert (Hfin : forall s2, sc_inv p s2 -> remaining p s2 <= len p ->
            match parse_loop p (parse_fuel p) s2 true [] false 0 with
            | POk (l, tail, _) _ => True | PErr => True | PFuel => False end).
  { intros s2 Hi2 Hr2. pose proof (parse_loop_ok p (parse_fuel p) s2 true [] false 0 Hi2) as H.
    assert (remaining p s2 < Z.of_nat (parse_fuel p)) by (unfold parse_fuel, len in *; lia).
    specialize (H H0). destruct (parse_loop p (parse_fuel p) s2 true [] false 0) as [[[l t] n] s'| |]; cbn in H; auto. }
  destruct (ch =? 94).
  - destruct (sc_next p s1) as [c2 s2] eqn:E2. cbn [snd].
    destruct (next_spec p _ _ _ E2 Hi1) as (Hi2 & Hr2 & _).
    specialize (Hfin s2 Hi2 ltac:(lia)).
    destruct (parse_loop p (parse_fuel p) s2 true [] false 0) as [[[l t] n] s'| |]; try discriminate; contradiction.
  - specialize (Hfin s1 Hi1 ltac:(lia)).
    destruct (parse_loop p (parse_fuel p) s1 true [] false 0) as [[[l t] n] s'| |]; try discriminate; contradiction.
Qed.
