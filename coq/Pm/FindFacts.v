(* C14 — proofs about pm.Find's scan loop (Find.find_loop), for an arbitrary VM `run`. *)
From GL Require Import Common.Bytes Common.BytesFacts Pm.Class Pm.GoParse Pm.GoCompile Pm.GoVM Pm.Find.
From Coq Require Import Lia.

Section ScanFacts.
Variable run : Z -> vres.
Variable srclen : Z.

Definition fails (sp : Z) : Prop := exists nsp ms, run sp = VRet false nsp ms.
Definition total_on (lo : Z) : Prop :=
  forall sp, lo <= sp <= srclen -> exists ok nsp ms, run sp = VRet ok nsp ms.

(* what an unanchored scan with budget k (k < 0: unlimited) must return from position `from`:
   each hit is at the least position >= from where the VM succeeds; the scan resumes at the end
   of a non-empty match and one byte after the start of an empty one *)
Inductive scan_rel : Z -> Z -> list (list Z) -> Prop :=
| scan_done : forall from k,
    (forall sp, from <= sp <= srclen -> fails sp) -> scan_rel from k []
| scan_hit : forall from k sp nsp ms rest,
    from <= sp <= srclen ->
    (forall sp', from <= sp' < sp -> fails sp') ->
    run sp = VRet true nsp ms ->
    (k = 1 -> rest = []) ->
    (k <> 1 -> scan_rel (Z.max (sp + 1) nsp) (k - 1) rest) ->
    scan_rel from k (ms :: rest).

Lemma find_loop_unanchored :
  forall n sp acc limit,
    0 <= len acc ->
    limit <> len acc ->
    (limit < 0 \/ len acc < limit) ->
    total_on sp ->
    (Z.to_nat (srclen + 1 - sp) + 1 <= n)%nat ->
    exists l, find_loop run srclen false limit n sp acc = FOk (acc ++ l)
              /\ scan_rel sp (limit - len acc) l.
Proof.
  induction n as [|n IH]; intros sp acc limit Hacc Hne Hlim Htot Hn; [lia|].
  cbn [find_loop].
  destruct (sp <=? srclen) eqn:Hle.
  2:{ exists []. rewrite app_nil_r. split; [reflexivity|].
      apply scan_done. intros sp' Hsp'. apply Z.leb_gt in Hle. lia. }
  apply Z.leb_le in Hle.
  destruct (Htot sp ltac:(lia)) as (ok & nsp & ms & Hrun). rewrite Hrun.
  destruct ok.
  - (* a hit at sp *)
    rewrite len_app. change (len [ms]) with 1.
    destruct (len acc + 1 =? limit) eqn:Hlimq; cbn [orb].
    + apply Z.eqb_eq in Hlimq. exists [ms]. split; [reflexivity|].
      eapply scan_hit with (sp := sp) (nsp := nsp); eauto; try lia; intros; lia.
    + apply Z.eqb_neq in Hlimq.
      set (sp2 := if sp + 1 <? nsp then nsp else sp + 1).
      assert (Hsp2 : sp2 = Z.max (sp + 1) nsp).
      { unfold sp2. destruct (sp + 1 <? nsp) eqn:E; [apply Z.ltb_lt in E | apply Z.ltb_ge in E]; lia. }
      clearbody sp2. subst sp2.
      destruct (IH (Z.max (sp + 1) nsp) (acc ++ [ms]) limit) as (l & Hl & Hrel).
      * rewrite len_app. change (len [ms]) with 1. lia.
      * rewrite len_app. change (len [ms]) with 1. lia.
      * rewrite len_app. change (len [ms]) with 1. lia.
      * intros sp' Hsp'. apply Htot. lia.
      * lia.
      * exists (ms :: l). split.
        { rewrite Hl. rewrite <- app_assoc. reflexivity. }
        eapply scan_hit with (sp := sp) (nsp := nsp); eauto; try lia; try (intros; lia).
        { intros. rewrite len_app in Hrel. change (len [ms]) with 1 in Hrel.
          replace (limit - len acc - 1) with (limit - (len acc + 1)) by lia. exact Hrel. }
  - (* no match at sp *)
    destruct (len acc =? limit) eqn:Hlimq; [apply Z.eqb_eq in Hlimq; lia|]. cbn [orb].
    destruct (IH (sp + 1) acc limit) as (l & Hl & Hrel); try assumption; try lia.
    + intros sp' Hsp'. apply Htot. lia.
    + exists l. split; [exact Hl|].
      inversion Hrel; subst.
      * apply scan_done. intros sp' Hsp'.
        destruct (Z.eq_dec sp' sp) as [->|]; [exists nsp, ms; exact Hrun | apply H; lia].
      * eapply scan_hit with (sp := sp0) (nsp := nsp0); eauto; try lia.
        intros sp' Hsp'.
        destruct (Z.eq_dec sp' sp) as [->|]; [exists nsp, ms; exact Hrun | apply H0; lia].
Qed.

(* anchored pattern (MustHead): one attempt at the start position *)
Lemma find_loop_anchored :
  forall n sp limit,
    sp <= srclen -> total_on sp -> (1 <= n)%nat ->
    (exists nsp ms, run sp = VRet true nsp ms /\ find_loop run srclen true limit n sp [] = FOk [ms])
    \/ (fails sp /\ find_loop run srclen true limit n sp [] = FOk []).
Proof.
  intros n sp limit Hle Htot Hn. destruct n as [|n]; [lia|].
  cbn [find_loop]. apply Z.leb_le in Hle. rewrite Hle. apply Z.leb_le in Hle.
  destruct (Htot sp ltac:(lia)) as (ok & nsp & ms & Hrun). rewrite Hrun.
  destruct ok.
  - left. exists nsp, ms. split; [reflexivity|]. rewrite Bool.orb_true_r. reflexivity.
  - right. split; [exists nsp, ms; exact Hrun|]. rewrite Bool.orb_true_r. reflexivity.
Qed.

(* find_leftmost: limit 1 (string.find / string.match): the result is the match at the least
   start >= init, or nothing when every start fails *)
Lemma find_leftmost_lemma :
  forall n init,
    total_on init -> (Z.to_nat (srclen + 1 - init) + 1 <= n)%nat ->
    (exists sp nsp ms,
        init <= sp <= srclen /\ run sp = VRet true nsp ms /\
        (forall sp', init <= sp' < sp -> fails sp') /\
        find_loop run srclen false 1 n init [] = FOk [ms])
    \/ ((forall sp, init <= sp <= srclen -> fails sp) /\
        find_loop run srclen false 1 n init [] = FOk []).
Proof.
  intros n init Htot Hn.
  destruct (find_loop_unanchored n init [] 1) as (l & Hl & Hrel); try assumption;
    try (change (len (@nil (list Z))) with 0; lia).
  change (len (@nil (list Z))) with 0 in Hrel. cbn [app] in Hl.
  inversion Hrel; subst.
  - right. split; assumption.
  - left. exists sp, nsp, ms. rewrite (H2 eq_refl) in Hl. repeat split; try assumption; lia.
Qed.

(* find_advance: unlimited scan (gmatch, gsub without limit) *)
Lemma find_advance_lemma :
  forall n init limit,
    limit < 0 -> total_on init -> (Z.to_nat (srclen + 1 - init) + 1 <= n)%nat ->
    exists l, find_loop run srclen false limit n init [] = FOk l /\ scan_rel init limit l.
Proof.
  intros n init limit Hlim Htot Hn.
  destruct (find_loop_unanchored n init [] limit) as (l & Hl & Hrel); try assumption;
    try (change (len (@nil (list Z))) with 0; lia).
  change (len (@nil (list Z))) with 0 in Hrel. rewrite Z.sub_0_r in Hrel.
  exists l. split; assumption.
Qed.
End ScanFacts.
