(* C14 — IMPLEMENTATION MODEL: transcription of compilePattern of /repo/pm/pm.go.
   The iptr {insts, capture} is threaded as a pair.  No proofs in this file. *)
From GL Require Import Common.Bytes Pm.Class Pm.GoParse.

Inductive inst :=
| IChar (c : cls)            (* opChar *)
| IMatch                     (* opMatch *)
| ITailMatch                 (* opTailMatch *)
| IJmp (t : Z)               (* opJmp *)
| ISplit (a b : Z)           (* opSplit *)
| ISave (n : Z)              (* opSave *)
| IPSave (n : Z)             (* opPSave *)
| IBrace (b e : Z)           (* opBrace *)
| INumber (n : Z).           (* opNumber *)

Definition cstate := (list inst * Z)%type.     (* ptr.insts, ptr.capture *)

Definition compile_repeat (ty : Z) (c : cls) (st : cstate) : cstate :=
  let '(insts, cap) := st in
  let idx := len insts in
  if ty =? 42 then (insts ++ [ISplit (idx + 1) (idx + 3); IChar c; IJmp idx], cap)        (* * *)
  else if ty =? 43 then (insts ++ [IChar c; ISplit idx (idx + 2)], cap)                   (* + *)
  else if ty =? 45 then (insts ++ [ISplit (idx + 3) (idx + 1); IChar c; IJmp idx], cap)   (* - *)
  else if ty =? 63 then (insts ++ [ISplit (idx + 1) (idx + 2); IChar c], cap)             (* ? *)
  else st.

Fixpoint compile_pat (p : pat) (st : cstate) : cstate :=
  match p with
  | PSingle c => (fst st ++ [IChar c], snd st)
  | PRepeat ty c => compile_repeat ty c st
  | PPosCap => (fst st ++ [IPSave (snd st)], snd st + 2)
  | PCap l =>
      let c0 := snd st in
      let c1 := snd st + 1 in
      let st1 := (fst st ++ [ISave c0], snd st + 2) in
      let st2 := (fix seq (l : list pat) (st : cstate) : cstate :=
                    match l with [] => st | x :: r => seq r (compile_pat x st) end) l st1 in
      (fst st2 ++ [ISave c1], snd st2)
  | PNumber n => (fst st ++ [INumber n], snd st)
  | PBrace b e => (fst st ++ [IBrace b e], snd st)
  end.

Fixpoint compile_seq (l : list pat) (st : cstate) : cstate :=
  match l with [] => st | x :: r => compile_seq r (compile_pat x st) end.

(* compilePattern(pat) at top level *)
Definition goCompile (p : seqpat) : list inst :=
  let st := compile_seq (patterns p) ([ISave 0], 2) in
  let insts := fst st in
  let insts := if must_tail p then insts ++ [ISave 1; ITailMatch] else insts in
  insts ++ [ISave 1; IMatch].
