(* C14 — a printer for pattern trees with an executable side condition `items_ok_b` that implies
   the relation `prints` used by the refinement theorem, and a bounded round-trip check of the
   parser (goParse (print p) = p) over a finite family of trees. *)
From GL Require Import Common.Bytes Common.BytesFacts Pm.Class Pm.PmTypes Pm.RefMatch
     Pm.GoParse Pm.GoCompile Pm.GoVM Pm.Flat Pm.ClassFacts Pm.CompileFacts Pm.VMFacts Pm.RefFacts
     Pm.SetFacts Pm.PmRefine.
From Coq Require Import Lia ZifyBool.

Definition byte_okb (b : Z) : bool := (0 <? b) && (b <? 256).

Definition cls_sitem (c : cls) : option sitem :=
  match c with
  | CChar c => Some (SChar c)
  | CSingle x => Some (SClass x)
  | CRange (CChar a) (CChar b) => Some (SRange a b)
  | _ => None
  end.

Fixpoint cls_sitems (l : list cls) : option (list sitem) :=
  match l with
  | [] => Some []
  | c :: r => match cls_sitem c, cls_sitems r with
              | Some i, Some ir => Some (i :: ir)
              | _, _ => None
              end
  end.

Definition sitem_okb (i : sitem) : bool :=
  match i with
  | SChar c => byte_okb c && negb (c =? 37) && negb (c =? 93)
  | SRange a b => byte_okb a && negb (a =? 37) && negb (a =? 93) && byte_okb b && negb (b =? 93) && negb (b =? 37)
  | SClass x => byte_okb x
  end.

Fixpoint no_dash_b (l : list sitem) : bool :=
  match l with
  | SChar _ :: ((i :: _) as r) => negb (sitem_first i =? 45) && no_dash_b r
  | _ :: r => no_dash_b r
  | [] => true
  end.

Definition set_okb (neg : bool) (l : list sitem) : bool :=
  match l with
  | [] => false
  | i :: _ => forallb sitem_okb l && no_dash_b l && (neg || negb (sitem_first i =? 94))
  end.

Lemma set_okb_ok neg l : set_okb neg l = true -> set_ok neg l.
Proof.
  unfold set_okb, set_ok. destruct l as [|i r]; [discriminate|]. intros H.
  apply andb_true_iff in H as [H H3]. apply andb_true_iff in H as [H1 H2].
  split; [congruence|]. split; [|split].
  - rewrite forallb_forall in H1. apply Forall_forall. intros x Hx. specialize (H1 x Hx).
    destruct x; cbn [sitem_okb sitem_ok] in *; unfold byte_okb, byte_ok in *; lia.
  - clear H1 H3. revert H2. generalize (i :: r). induction l as [|x t IH]; intros H; [exact I|].
    destruct x as [c|a b|x]; cbn [no_dash_b no_dash_after_char] in *.
    + destruct t as [|y t']; [exact I|]. apply andb_true_iff in H as [Ha Hb]. split; [lia|apply IH; exact Hb].
    + apply IH; exact H.
    + apply IH; exact H.
  - intros ->. cbn [orb] in H3. lia.
Qed.

(* text of a class and the executable condition under which lstrlib reads it back *)
Definition print_cls (c : cls) : option bytes :=
  match c with
  | CDot => Some [46]
  | CChar ch => Some [ch]
  | CSingle x => Some [37; x]
  | CSet neg l => match cls_sitems l with Some il => Some (set_text neg il) | None => None end
  | CRange _ _ => None
  end.

Definition cls_okb (c : cls) : bool :=
  match c with
  | CDot => true
  | CChar ch => byte_okb ch && negb (ch =? 37) && negb (ch =? 40) && negb (ch =? 41) && negb (ch =? 46) && negb (ch =? 91)
  | CSingle x => byte_okb x && negb (x =? 98) && negb (x =? 102) && negb (c_isdigit x)
  | CSet neg l => match cls_sitems l with Some il => set_okb neg il | None => false end
  | CRange _ _ => false
  end.

Lemma cls_sitems_map : forall l il, cls_sitems l = Some il -> map sitem_cls il = l.
Proof.
  induction l as [|c r IH]; intros il H; cbn [cls_sitems] in H.
  - inversion H. reflexivity.
  - destruct (cls_sitem c) as [i|] eqn:Ei; [|discriminate].
    destruct (cls_sitems r) as [ir|] eqn:Er; [|discriminate]. inversion H; subst. cbn [map].
    rewrite (IH ir eq_refl). f_equal.
    destruct c as [| | | |b0 e0]; try discriminate; cbn in Ei.
    + inversion Ei. reflexivity.
    + inversion Ei. reflexivity.
    + destruct b0; try discriminate. destruct e0; try discriminate. inversion Ei. reflexivity.
Qed.

Lemma cls_okb_repr c : cls_okb c = true -> exists txt, print_cls c = Some txt /\ class_repr c txt.
Proof.
  destruct c as [|ch|x|neg l|b e]; cbn [cls_okb print_cls]; intros H.
  - eexists. split; [reflexivity|apply repr_dot].
  - eexists. split; [reflexivity|]. unfold byte_okb in H. apply repr_char; lia.
  - eexists. split; [reflexivity|]. unfold byte_okb in H.
    destruct (c_isdigit x) eqn:Ed; [cbn in H; lia|]. apply repr_single; try lia; exact Ed.
  - destruct (cls_sitems l) as [il|] eqn:El; [|discriminate].
    eexists. split; [reflexivity|]. rewrite <- (cls_sitems_map l il El).
    apply set_class_repr. apply set_okb_ok. exact H.
  - discriminate.
Qed.

(* text of a flat item list followed by `rest` *)
Fixpoint print_items (items : list fitem) (rest : bytes) : option bytes :=
  match items with
  | [] => Some rest
  | it :: r =>
      match print_items r rest with
      | None => None
      | Some rt =>
          match it with
          | FSingle c => match print_cls c with Some t => Some (t ++ rt) | None => None end
          | FRepeat ty c => match print_cls c with Some t => Some (t ++ ty :: rt) | None => None end
          | FPosCap => Some (40 :: 41 :: rt)
          | FOpen => Some (40 :: rt)
          | FClose => Some (41 :: rt)
          | FNumber n => Some (37 :: (48 + n) :: rt)
          | FBrace b e => Some (37 :: 98 :: b :: e :: rt)
          end
      end
  end.

Fixpoint items_okb (items : list fitem) (rest : bytes) : bool :=
  match items with
  | [] => true
  | it :: r =>
      items_okb r rest &&
      match print_items r rest with
      | None => false
      | Some rt =>
          match it with
          | FSingle c =>
              cls_okb c && negb (quant (pget rt 0)) &&
              match print_cls c with
              | Some t => negb (pget t 0 =? 36) || negb (pget (t ++ rt) 1 =? 0)
              | None => false
              end
          | FRepeat ty c => cls_okb c && quant ty
          | FPosCap => true
          | FOpen => negb (pget rt 0 =? 41)
          | FClose => true
          | FNumber n => (1 <=? n) && (n <=? 9)
          | FBrace b e => (0 <? b) && (0 <? e)
          end
      end
  end.

Lemma items_okb_prints tt : forall items,
  items_okb items tt = true ->
  exists text, print_items items tt = Some text /\ prints tt items text.
Proof.
  induction items as [|it r IH]; cbn [items_okb print_items]; intros H.
  - exists tt. split; [reflexivity|constructor].
  - apply andb_true_iff in H as [Hr H]. destruct (IH Hr) as (rt & Hrt & Hpr). rewrite Hrt in *.
    destruct it as [c|ty c| | | |n|b e].
    + apply andb_true_iff in H as [H H3]. apply andb_true_iff in H as [H1 H2].
      destruct (cls_okb_repr c H1) as (t & Ht & Hrep). rewrite Ht in *.
      exists (t ++ rt). split; [reflexivity|]. constructor; try assumption.
      * destruct (quant (pget rt 0)); [discriminate|reflexivity].
      * intros H36. rewrite H36 in H3. cbn in H3. destruct (pget (t ++ rt) 1 =? 0) eqn:E; [discriminate|lia].
    + apply andb_true_iff in H as [H1 H2].
      destruct (cls_okb_repr c H1) as (t & Ht & Hrep). rewrite Ht.
      exists (t ++ ty :: rt). split; [reflexivity|]. constructor; assumption.
    + eexists. split; [reflexivity|]. constructor; assumption.
    + eexists. split; [reflexivity|]. constructor; [assumption|]. lia.
    + eexists. split; [reflexivity|]. constructor; assumption.
    + eexists. split; [reflexivity|]. constructor; [lia|assumption].
    + eexists. split; [reflexivity|]. constructor; [lia|lia|assumption].
Qed.

(* the whole pattern text of a parsed pattern *)
Definition print_seq (p : seqpat) : option bytes :=
  match print_items (flatten_seq (patterns p)) (tail_text (must_tail p)) with
  | Some t => Some (head_text (must_head p) ++ t)
  | None => None
  end.
Definition seq_okb (p : seqpat) : bool :=
  items_okb (flatten_seq (patterns p)) (tail_text (must_tail p)) &&
  (ncaps_seq (patterns p) <=? MAXCAPTURES).

(* ---------- the refinement theorem with an executable side condition ---------- *)
Lemma vm_refines_ref_checked (p : seqpat) (pb src : bytes) (sp0 : Z) (fuel : nat) :
  seq_okb p = true -> print_seq p = Some pb ->
  is_bytes src = true -> 0 <= sp0 <= len src ->
  1 + Z.of_nat fuel <= maxRecursionLevel ->
  goVM src (goCompile p) fuel 0 sp0 <> VFuel ->
  vm_ref_rel src sp0 (ncaps_seq (patterns p))
             (goVM src (goCompile p) fuel 0 sp0)
             (ref_match pb src sp0 (len (head_text (must_head p)))).
Proof.
  unfold seq_okb, print_seq. intros Hok Hpr Hsrc Hsp Hrl Hnf.
  apply andb_true_iff in Hok as [Hi Hc].
  destruct (items_okb_prints _ _ Hi) as (text & Ht & Hprints). rewrite Ht in Hpr. inversion Hpr; subst pb.
  apply vm_refines_ref_lemma; try assumption. lia.
Qed.

(* ---------- decidable equality of pattern trees ---------- *)
Fixpoint cls_eqb (a b : cls) : bool :=
  match a, b with
  | CDot, CDot => true
  | CChar x, CChar y => x =? y
  | CSingle x, CSingle y => x =? y
  | CSet n1 l1, CSet n2 l2 =>
      Bool.eqb n1 n2 &&
      (fix go (l1 l2 : list cls) : bool :=
         match l1, l2 with
         | [], [] => true
         | x :: r1, y :: r2 => cls_eqb x y && go r1 r2
         | _, _ => false
         end) l1 l2
  | CRange b1 e1, CRange b2 e2 => cls_eqb b1 b2 && cls_eqb e1 e2
  | _, _ => false
  end.

Section ClsInd.
Variable Q : cls -> Prop.
Hypothesis HD : Q CDot.
Hypothesis HC : forall c, Q (CChar c).
Hypothesis HS : forall c, Q (CSingle c).
Hypothesis HSet : forall n l, Forall Q l -> Q (CSet n l).
Hypothesis HR : forall b e, Q b -> Q e -> Q (CRange b e).
Fixpoint cls_ind' (c : cls) : Q c :=
  match c with
  | CDot => HD
  | CChar x => HC x
  | CSingle x => HS x
  | CSet n l => HSet n l ((fix go (l : list cls) : Forall Q l :=
                             match l with [] => Forall_nil Q | x :: r => Forall_cons x (cls_ind' x) (go r) end) l)
  | CRange b e => HR b e (cls_ind' b) (cls_ind' e)
  end.
End ClsInd.

Lemma cls_eqb_eq : forall a b, cls_eqb a b = true -> a = b.
Proof.
  induction a using cls_ind'; intros b0 H0; destruct b0; cbn [cls_eqb] in H0; try discriminate.
  - reflexivity.
  - f_equal. lia.
  - f_equal. lia.
  - apply andb_true_iff in H0 as [Hn Hl]. apply Bool.eqb_prop in Hn. subst. f_equal.
    revert l0 Hl. induction H as [|x r Hx Hr IH]; intros l0 Hl; destruct l0; try discriminate; [reflexivity|].
    apply andb_true_iff in Hl as [H1 H2]. f_equal; [apply Hx; exact H1|apply IH; exact H2].
  - apply andb_true_iff in H0 as [H1 H2]. f_equal; [apply IHa1|apply IHa2]; assumption.
Qed.

Fixpoint pat_eqb (a b : pat) : bool :=
  match a, b with
  | PSingle c1, PSingle c2 => cls_eqb c1 c2
  | PRepeat t1 c1, PRepeat t2 c2 => (t1 =? t2) && cls_eqb c1 c2
  | PPosCap, PPosCap => true
  | PCap l1, PCap l2 =>
      (fix go (l1 l2 : list pat) : bool :=
         match l1, l2 with
         | [], [] => true
         | x :: r1, y :: r2 => pat_eqb x y && go r1 r2
         | _, _ => false
         end) l1 l2
  | PNumber n1, PNumber n2 => n1 =? n2
  | PBrace b1 e1, PBrace b2 e2 => (b1 =? b2) && (e1 =? e2)
  | _, _ => false
  end.

Lemma pat_eqb_eq : forall a b, pat_eqb a b = true -> a = b.
Proof.
  induction a using pat_ind'; intros b0 H0; destruct b0; cbn [pat_eqb] in H0; try discriminate.
  - f_equal. apply cls_eqb_eq. exact H0.
  - apply andb_true_iff in H0 as [H1 H2]. f_equal; [lia|apply cls_eqb_eq; exact H2].
  - reflexivity.
  - f_equal. revert l0 H0. induction H as [|x r Hx Hr IH]; intros l0 Hl; destruct l0; try discriminate; [reflexivity|].
    apply andb_true_iff in Hl as [H1 H2]. f_equal; [apply Hx; exact H1|apply IH; exact H2].
  - f_equal. lia.
  - apply andb_true_iff in H0 as [H1 H2]. f_equal; lia.
Qed.

Fixpoint pats_eqb (l1 l2 : list pat) : bool :=
  match l1, l2 with
  | [], [] => true
  | x :: r1, y :: r2 => pat_eqb x y && pats_eqb r1 r2
  | _, _ => false
  end.
Lemma pats_eqb_eq : forall l1 l2, pats_eqb l1 l2 = true -> l1 = l2.
Proof.
  induction l1 as [|x r IH]; intros l2 H; destruct l2; try discriminate; [reflexivity|].
  cbn in H. apply andb_true_iff in H as [H1 H2]. f_equal; [apply pat_eqb_eq; exact H1|apply IH; exact H2].
Qed.

Definition parse_is (r : parse_result) (p : seqpat) : bool :=
  match r with
  | ParseOk q => Bool.eqb (must_head q) (must_head p) && Bool.eqb (must_tail q) (must_tail p) &&
                 pats_eqb (patterns q) (patterns p)
  | _ => false
  end.
Lemma parse_is_eq r p : parse_is r p = true -> r = ParseOk p.
Proof.
  destruct r as [q| |]; cbn [parse_is]; try discriminate. intros H.
  apply andb_true_iff in H as [H H3]. apply andb_true_iff in H as [H1 H2].
  apply Bool.eqb_prop in H1, H2. apply pats_eqb_eq in H3. destruct q, p; cbn in *. subst. reflexivity.
Qed.

(* ---------- bounded round trip of the parser ---------- *)
Definition rt_classes : list cls :=
  [CDot; CChar 97; CChar 36; CChar 45; CChar 93; CSingle 97; CSingle 37; CSingle 46;
   CSet false [CChar 97];
   CSet true [CRange (CChar 97) (CChar 99); CSingle 100; CChar 45];
   CSet false [CSingle 93; CChar 94; CRange (CChar 48) (CChar 57)]].

Definition rt_items : list pat :=
  map PSingle rt_classes ++
  flat_map (fun ty => map (PRepeat ty) [CDot; CChar 97; CSingle 100; CSet true [CChar 97; CChar 98]]) [42; 43; 45; 63] ++
  [PPosCap; PCap [PSingle (CChar 97)]; PCap [PRepeat 42 CDot; PPosCap];
   PCap [PCap [PSingle (CChar 98)]; PSingle (CChar 36)]; PNumber 1; PBrace 40 41].

Definition rt_small : list pat :=
  [PSingle CDot; PSingle (CChar 97); PSingle (CChar 45); PRepeat 42 (CChar 97); PRepeat 45 CDot;
   PRepeat 63 (CSingle 100); PPosCap; PCap [PSingle (CChar 97)]; PNumber 1;
   PSingle (CSet true [CRange (CChar 97) (CChar 99); CChar 45])].

Definition rt_lists : list (list pat) :=
  [[]] ++ map (fun a => [a]) rt_items ++
  flat_map (fun a => map (fun b => [a; b]) rt_items) rt_items ++
  flat_map (fun a => flat_map (fun b => map (fun c => [a; b; c]) rt_small) rt_small) rt_small.

Definition rt_family : list seqpat :=
  flat_map (fun l => [mkSeq false false l; mkSeq true false l; mkSeq false true l; mkSeq true true l]) rt_lists.

Definition rt_check (p : seqpat) : bool :=
  if seq_okb p then
    match print_seq p with
    | Some pb => parse_is (goParse pb) p
    | None => false
    end
  else true.

Lemma rt_all : forallb rt_check rt_family = true.
Proof. vm_compute. reflexivity. Qed.

Lemma goparse_roundtrip_small_lemma :
  forall p, In p rt_family -> seq_okb p = true ->
  exists pb, print_seq p = Some pb /\ goParse pb = ParseOk p.
Proof.
  intros p Hin Hok. pose proof rt_all as H. rewrite forallb_forall in H. specialize (H p Hin).
  unfold rt_check in H. rewrite Hok in H. destruct (print_seq p) as [pb|]; [|discriminate].
  exists pb. split; [reflexivity|]. apply parse_is_eq. exact H.
Qed.

(* how many trees of the family are printable (non-vacuity of the round trip) *)
Definition rt_printable : Z := len (filter seq_okb rt_family).
