(* C14 — the "invalid capture index" clause end to end: where lstrlib raises an error during a
   match attempt (the only error a printable pattern tree can raise there: a back-reference to a
   capture that is not closed), gopher-lua's VM raises pm.Error at the same attempt, so string.find
   and string.match return exactly what str_find_aux returns, errors included.  Composition of
   BadRef.goVM_bad with RefFacts.ref_flat and the scan-loop argument of FindRefine. *)
From GL Require Import Common.Bytes Common.BytesFacts Pm.Class Pm.PmTypes Pm.RefMatch
     Pm.GoParse Pm.GoCompile Pm.GoVM Pm.Find Pm.Gsub Pm.Flat Pm.ClassFacts Pm.CompileFacts Pm.VMFacts
     Pm.RefFacts Pm.SetFacts Pm.PmRefine Pm.PrintFacts Pm.FindRefine Pm.BadRef.
From Coq Require Import Lia ZifyBool.

Lemma prints_nums_pos tt items text : prints tt items text -> nums_pos items.
Proof.
  intros H. induction H; intros k Hk; cbn [In] in Hk;
    try (destruct Hk as [Hk|Hk]; [discriminate|apply IHprints; exact Hk]).
  - destruct Hk.
  - destruct Hk as [Hk|Hk]; [inversion Hk; subst; lia|apply IHprints; exact Hk].
Qed.

(* vm_ref_rel with the error case made exact *)
Definition vm_ref_rel_strict (src : bytes) (sp0 : Z) (ncap : Z) (v : vres) (r : rres) : Prop :=
  match r with
  | RErr => v = VErr
  | _ => vm_ref_rel src sp0 ncap v r
  end.

Lemma vm_refines_ref_strict_lemma (p : seqpat) (text src : bytes) (sp0 : Z) (fuel : nat) :
  prints (tail_text (must_tail p)) (flatten_seq (patterns p)) text ->
  backrefs_ok p = true ->
  is_bytes src = true ->
  ncaps_seq (patterns p) <= MAXCAPTURES ->
  0 <= sp0 <= len src ->
  1 + Z.of_nat fuel <= maxRecursionLevel ->
  goVM src (goCompile p) fuel 0 sp0 <> VFuel ->
  let pat := head_text (must_head p) ++ text in
  vm_ref_rel_strict src sp0 (ncaps_seq (patterns p))
             (goVM src (goCompile p) fuel 0 sp0)
             (ref_match pat src sp0 (len (head_text (must_head p)))).
Proof.
  intros Hpr Hbr Hsrc Hcap Hsp Hrl Hnf pat.
  pose proof (vm_refines_ref_lemma p text src sp0 fuel Hpr Hsrc Hcap Hsp Hrl Hnf) as Hrel.
  cbv zeta in Hrel. fold pat in Hrel.
  destruct (ref_match pat src sp0 (len (head_text (must_head p)))) eqn:Er; cbn [vm_ref_rel_strict]; try exact Hrel.
  (* the reference raised an error: the flat semantics says FBad, hence the VM raises pm.Error *)
  apply goVM_bad; try assumption.
  - eapply prints_nums_pos; exact Hpr.
  - unfold ref_match in Er.
    assert (Hfuel : (length (flatten_seq (patterns p)) + 1 <= match_fuel pat)%nat).
    { unfold match_fuel, pat. rewrite len_app. pose proof (prints_len _ _ _ Hpr).
      pose proof (len_nonneg (head_text (must_head p))). lia. }
    rewrite (ref_flat pat src (must_tail p) Hsrc _ _ Hpr (match_fuel pat) (len (head_text (must_head p))) sp0 [] []) in Er.
    + destruct (fm src (must_tail p) (flatten_seq (patterns p)) sp0 [] []); cbn [conv] in Er; try discriminate. reflexivity.
    + apply suffix_is_app.
    + exact Hfuel.
    + reflexivity.
    + constructor.
    + exact Hsp.
    + change (len (@nil (Z * Z))) with 0. rewrite ncap_items_flatten_seq. lia.
Qed.

Lemma vm_refines_ref_strict_checked (p : seqpat) (pb src : bytes) (sp0 : Z) :
  seq_okb p = true -> print_seq p = Some pb -> backrefs_ok p = true ->
  is_bytes src = true -> 0 <= sp0 <= len src ->
  1 + Z.of_nat (vm_fuel src (goCompile p)) <= maxRecursionLevel ->
  vm_ref_rel_strict src sp0 (ncaps_seq (patterns p))
             (goVM src (goCompile p) (vm_fuel src (goCompile p)) 0 sp0)
             (ref_match pb src sp0 (len (head_text (must_head p)))).
Proof.
  unfold seq_okb, print_seq. intros Hok Hpr Hbr Hsrc Hsp Hrl.
  apply andb_true_iff in Hok as [Hi Hc].
  destruct (items_okb_prints _ _ Hi) as (text & Ht & Hprints). rewrite Ht in Hpr. inversion Hpr; subst pb.
  apply vm_refines_ref_strict_lemma; try assumption; [lia|].
  apply goVM_terminates; assumption.
Qed.

(* closed captures can always be pushed *)
Lemma push_captures_ok src cs whole s e :
  (forall j c, zth cs j = Some c -> snd c <> CAP_UNF) ->
  exists l, push_captures src cs whole s e = Ok l.
Proof.
  intros Hcl. unfold push_captures.
  destruct ((len cs =? 0) && whole) eqn:E.
  - apply andb_true_iff in E as [E _].
    assert (cs = []) by (destruct cs; [reflexivity|rewrite len_cons in E; pose proof (len_nonneg cs); lia]).
    subst cs. eexists. reflexivity.
  - eexists. apply ref_caps. exact Hcl.
Qed.

(* the scan loop: if str_find_aux ends in an error, pm.Find ends in pm.Error *)
Lemma scan_err (p : seqpat) (pb s : bytes) (isfind : bool) :
  seq_okb p = true -> print_seq p = Some pb -> goParse pb = ParseOk p -> backrefs_ok p = true ->
  is_bytes s = true -> 1 + Z.of_nat (vm_fuel s (goCompile p)) <= maxRecursionLevel ->
  forall n sp, 0 <= sp <= len s -> (Z.to_nat (len s - sp) + 2 <= n)%nat ->
    find_scan n pb s isfind (pget pb 0 =? 94) (if pget pb 0 =? 94 then 1 else 0) sp = Err ->
    find_loop (fun sp => goVM s (goCompile p) (vm_fuel s (goCompile p)) 0 sp)
              (len s) (must_head p) 1 n sp [] = FErr.
Proof.
  intros Hok Hpr Hparse Hbr Hs Hrl.
  pose proof (goParse_head pb p Hparse) as Hhead.
  assert (Hp0 : (if pget pb 0 =? 94 then 1 else 0) = len (head_text (must_head p))).
  { rewrite Hhead. destruct (pget pb 0 =? 94); reflexivity. }
  rewrite Hhead.
  induction n as [|k IH]; intros sp Hsp Hn He; [lia|].
  cbn [find_scan find_loop] in *.
  destruct (sp <=? len s) eqn:Ele; [|lia].
  pose proof (vm_refines_ref_strict_checked p pb s sp Hok Hpr Hbr Hs Hsp Hrl) as Hrel.
  rewrite <- Hp0 in Hrel.
  destruct (ref_match pb s sp (if pget pb 0 =? 94 then 1 else 0)) as [|e cs| | |] eqn:Er;
    cbn [vm_ref_rel_strict vm_ref_rel] in Hrel; try discriminate.
  - (* no match here: both go on *)
    destruct Hrel as (sp' & m' & Hv). rewrite Hv. change (len (@nil (list Z)) =? 1) with false. cbn [orb].
    destruct (pget pb 0 =? 94) eqn:Ea.
    + rewrite Bool.andb_false_r in He. discriminate.
    + cbn [negb] in He. rewrite Bool.andb_true_r in He. destruct (sp <? len s) eqn:Elt; [|discriminate].
      apply IH; try lia. exact He.
  - (* a match: closed captures, no error possible *)
    destruct Hrel as (m' & Hv & Hag & H1 & Hlen & Hlc & Hcl & Hee).
    destruct isfind.
    + destruct (push_captures_ok s cs false 0 0 Hcl) as [l Hl]. rewrite Hl in He. discriminate.
    + destruct (push_captures_ok s cs true sp e Hcl) as [l Hl]. rewrite Hl in He. discriminate.
  - (* the error: same attempt *)
    rewrite Hrel. reflexivity.
Qed.

Lemma find_refines_ref_total_lemma (p : seqpat) (pb s : bytes) (init : Z) :
  seq_okb p = true -> print_seq p = Some pb -> goParse pb = ParseOk p -> backrefs_ok p = true ->
  is_bytes s = true -> 1 + Z.of_nat (vm_fuel s (goCompile p)) <= maxRecursionLevel ->
  0 < len pb ->
  strFind s pb (Some init) = ref_find s pb init.
Proof.
  intros Hok Hpr Hparse Hbr Hs Hrl Hlp.
  destruct (ref_find s pb init) eqn:Er;
    try (rewrite <- Er; apply (find_refines_ref_lemma p pb s init); try assumption; rewrite Er; discriminate).
  unfold strFind, ref_find, ref_find_aux in *. cbv zeta in *.
  pose proof (len_nonneg s) as Hl.
  pose proof (init_norm (len s) init Hl) as Hin. cbv zeta in Hin. rewrite Hin. clear Hin.
  set (i := if posrelat init (len s) - 1 <? 0 then 0
            else if posrelat init (len s) - 1 >? len s then len s else posrelat init (len s) - 1) in *.
  assert (Hi : 0 <= i <= len s).
  { unfold i. destruct (posrelat init (len s) - 1 <? 0) eqn:E1; [lia|].
    destruct (posrelat init (len s) - 1 >? len s) eqn:E2; lia. }
  destruct (len pb =? 0) eqn:E0; [lia|].
  unfold goFind. rewrite Hparse, Hbr. cbn [negb]. unfold find_fuel.
  rewrite (scan_err p pb s true Hok Hpr Hparse Hbr Hs Hrl (Z.to_nat (len s - i) + 2) i Hi (le_n _) Er). reflexivity.
Qed.

Lemma match_refines_ref_total_lemma (p : seqpat) (pb s : bytes) (init : Z) :
  seq_okb p = true -> print_seq p = Some pb -> goParse pb = ParseOk p -> backrefs_ok p = true ->
  is_bytes s = true -> 1 + Z.of_nat (vm_fuel s (goCompile p)) <= maxRecursionLevel ->
  strMatch s pb (Some init) = ref_smatch s pb init.
Proof.
  intros Hok Hpr Hparse Hbr Hs Hrl.
  destruct (ref_smatch s pb init) eqn:Er;
    try (rewrite <- Er; apply (match_refines_ref_lemma p pb s init); try assumption; rewrite Er; discriminate).
  unfold strMatch, ref_smatch, ref_find_aux in *. cbv zeta in *.
  pose proof (len_nonneg s) as Hl.
  pose proof (match_init_norm (len s) init Hl) as Hin. cbv zeta in Hin. rewrite Hin. clear Hin.
  set (i := if posrelat init (len s) - 1 <? 0 then 0
            else if posrelat init (len s) - 1 >? len s then len s else posrelat init (len s) - 1) in *.
  assert (Hi : 0 <= i <= len s).
  { unfold i. destruct (posrelat init (len s) - 1 <? 0) eqn:E1; [lia|].
    destruct (posrelat init (len s) - 1 >? len s) eqn:E2; lia. }
  unfold goFind. rewrite Hparse, Hbr. cbn [negb]. unfold find_fuel.
  rewrite (scan_err p pb s false Hok Hpr Hparse Hbr Hs Hrl (Z.to_nat (len s - i) + 2) i Hi (le_n _) Er). reflexivity.
Qed.
