(* C14 — IMPLEMENTATION MODEL: transcription of the result-assembly code of /repo/stringlib.go
   (strFind's pattern branch, strMatch, strGmatch + strGmatchIter driven as the generic `for`
   does, strGsub, strGsubStr/Table/Func, capturedString/checkCaptureIndex, strGsubDoReplace)
   and of flagScanner (/repo/utils.go) as strGsubStr uses it (flag '%', empty start/end).
   No proofs in this file. *)
From GL Require Import Common.Bytes Pm.Class Pm.PmTypes Pm.GoParse Pm.GoCompile Pm.GoVM Pm.Find.

(* luaIndex2StringIndex(str, i, true) *)
Definition luaIndex2StringIndexStart (l i : Z) : Z :=
  let i := if negb (i =? 0) then i - 1 else i in
  let i := if i <? 0 then l + i + 1 else i in
  Z.max 0 i.

(* for i := 2; i < md.CaptureLength(); i += 2 { position -> number, else substring } *)
Fixpoint caps_from (n : nat) (src : bytes) (md : list Z) (i : Z) : list lval :=
  match n with
  | O => []
  | S k =>
      if i <? len md then
        (if isPosCapture md i then VNum (capture md i)
         else VStr (slice src (capture md i) (capture md (i + 1)))) :: caps_from k src md (i + 2)
      else []
  end.
Definition caps_list (src : bytes) (md : list Z) : list lval := caps_from (length md) src md 2.

Definition of_fres {A} (r : fres) (k : list (list Z) -> res A) : res A :=
  match r with FOk ms => k ms | FErr => Err | FPanic => Panic | FFuel => Fuel end.

(* strFind, non-plain branch; oinit = optional third argument *)
Definition strFind (s p : bytes) (oinit : option Z) : res (list lval) :=
  let init := luaIndex2StringIndexStart (len s) (match oinit with Some i => i | None => 1 end) in
  let init := if init >? len s then len s else init in
  if len p =? 0 then Ok [VNum (init + 1); VNum init]
  else of_fres (goFind p s init 1) (fun mds =>
    match mds with
    | [] => Ok [VNil]
    | md :: _ => Ok (VNum (capture md 0 + 1) :: VNum (capture md 1) :: caps_list s md)
    end).

Definition strMatch (s p : bytes) (oinit : option Z) : res (list lval) :=
  let offset := match oinit with Some i => i | None => 1 end in
  let l := len s in
  let offset := if offset <? 0 then l + offset + 1 else offset in
  let offset := offset - 1 in
  let offset := if offset <? 0 then 0 else if offset >? l then l else offset in
  of_fres (goFind p s offset 1) (fun mds =>
    match mds with
    | [] => Ok [VNil]
    | md :: _ =>
        if len md / 2 =? 1 then Ok [VStr (slice s (capture md 0) (capture md 1))]
        else Ok (caps_list s md)
    end).

(* strGmatch + the values strGmatchIter yields, call after call *)
Definition strGmatch (s p : bytes) : res (list (list lval)) :=
  (* a leading '^' is escaped: in gmatch it is an ordinary character *)
  let p := if (0 <? len p) && (bget p 0 =? 94) then 37 :: p else p in
  of_fres (goFind p s 0 (-1)) (fun mds =>
    Ok (map (fun md => if len md =? 2 then [VStr (slice s (capture md 0) (capture md 1))]
                       else caps_list s md) mds)).

(* capturedString after checkCaptureIndex *)
Definition capturedString (s : bytes) (m : list Z) (idx : Z) : res bytes :=
  if negb (idx <=? 2) && (idx >=? len m) then Err          (* invalid capture index *)
  else
    let idx := if (idx >=? len m) && (idx =? 2) then 0 else idx in
    if isPosCapture m idx then Ok (dec_of_Z (capture m idx))
    else Ok (slice s (capture m idx) (capture m (idx + 1))).

(* one pass of `for c, eos := sc.Next(); !eos; ...` of strGsubStr over the replacement string *)
Fixpoint repl_scan (n : nat) (s : bytes) (m : list Z) (rp : bytes) (pos : Z) (hasflag : bool)
         (buf : bytes) : res bytes :=
  match n with
  | O => Fuel
  | S k =>
      let L := len rp in
      if pos =? L then Ok buf
      else
        let c := bget rp pos in
        let body (hasflag : bool) :=                            (* ChangeFlag = false *)
          if hasflag then
            if inr 48 c 57 then
              match capturedString s m (2 * (c - 48)) with
              | Ok cs => repl_scan k s m rp (pos + 1) false (buf ++ cs)
              | x => x
              end
            else repl_scan k s m rp (pos + 1) false (buf ++ [37; c])
          else repl_scan k s m rp (pos + 1) false (buf ++ [c]) in
        if c =? 37 then
          if (pos <? L - 1) && (bget rp (pos + 1) =? 37) then
            repl_scan k s m rp (pos + 2) false (buf ++ [37])    (* "%%": return fs.Next() *)
          else if negb (pos =? L - 1) then
            repl_scan k s m rp (pos + 1) true buf               (* ChangeFlag: body skipped *)
          else body hasflag
        else body hasflag
  end.

Definition replaceInfo := (Z * Z * bytes)%type.

(* strGsubDoReplace *)
Fixpoint doReplace (info : list replaceInfo) (offset : Z) (buf : bytes) : bytes :=
  match info with
  | [] => buf
  | (i0, i1, str) :: r =>
      let oldlen := len buf in
      let b1 := slice buf 0 (offset + i0) in
      let index2 := offset + i1 in
      let b2 := if index2 <=? len buf then slice buf index2 (len buf) else [] in
      let buf' := b1 ++ str ++ b2 in
      doReplace r (offset + (len buf' - oldlen)) buf'
  end.
Definition strGsubDoReplace (s : bytes) (info : list replaceInfo) : bytes := doReplace info 0 s.

Fixpoint gsubStrInfos (s rp : bytes) (mds : list (list Z)) : res (list replaceInfo) :=
  match mds with
  | [] => Ok []
  | m :: r =>
      match repl_scan (length rp + 1) s m rp 0 false [] with
      | Ok str =>
          match gsubStrInfos s rp r with
          | Ok l => Ok ((capture m 0, capture m 1, str) :: l)
          | x => x
          end
      | Err => Err | Panic => Panic | Fuel => Fuel | Unsup => Unsup
      end
  end.

Fixpoint gsubTableInfos (s : bytes) (t : list (lval * rval)) (mds : list (list Z))
  : res (list replaceInfo) :=
  match mds with
  | [] => Ok []
  | m :: r =>
      let idx := if len m >? 2 then 2 else 0 in
      let key := if isPosCapture m idx then VNum (capture m idx)
                 else VStr (slice s (capture m idx) (capture m (idx + 1))) in
      match tab_get t key with
      | RBad => Err                                 (* gsubReplValue: invalid replacement value *)
      | v =>
          match gsubTableInfos s t r with
          | Ok l => Ok (match v with RSome b => (capture m 0, capture m 1, b) :: l | _ => l end)
          | x => x
          end
      end
  end.

Fixpoint gsubFuncInfos (s : bytes) (rets : list rval) (mds : list (list Z)) (ncall : nat)
  : res (list replaceInfo * list (list lval)) :=
  match mds with
  | [] => Ok ([], [])
  | m :: r =>
      let args := if len m >? 2 then caps_list s m
                  else [VStr (slice s (capture m 0) (capture m 1))] in
      match nth ncall rets RNone with
      | RBad => Err
      | v =>
          match gsubFuncInfos s rets r (ncall + 1) with
          | Ok (infos, calls) =>
              Ok (match v with RSome b => (capture m 0, capture m 1, b) :: infos | _ => infos end,
                  args :: calls)
          | x => x
          end
      end
  end.

(* strGsub; olimit = optional 4th argument.  A number given as replacement is passed here
   already converted (lv.String()) as RStr. *)
Definition strGsub (s p : bytes) (r : repl) (olimit : option Z) : res gsub_out :=
  let limit := match olimit with Some m => m | None => len s + 1 end in
  if limit <=? 0 then Ok (s, 0, [])
  else of_fres (goFind p s 0 limit) (fun mds =>
    match mds with
    | [] => Ok (s, 0, [])
    | _ =>
        match r with
        | RStr rp =>
            match gsubStrInfos s rp mds with
            | Ok infos => Ok (strGsubDoReplace s infos, len mds, [])
            | Err => Err | Panic => Panic | Fuel => Fuel | Unsup => Unsup
            end
        | RTab t =>
            match gsubTableInfos s t mds with
            | Ok infos => Ok (strGsubDoReplace s infos, len mds, [])
            | Err => Err | Panic => Panic | Fuel => Fuel | Unsup => Unsup
            end
        | RFn rets =>
            match gsubFuncInfos s rets mds 0 with
            | Ok (infos, calls) => Ok (strGsubDoReplace s infos, len mds, calls)
            | Err => Err | Panic => Panic | Fuel => Fuel | Unsup => Unsup
            end
        end
    end).
