(* C14 — IMPLEMENTATION MODEL: transcription of the scanner and parser of /repo/pm/pm.go
   (scanner.Next/NextPos/Peek/Save/Restore, parseClass, parseClassSet, parsePattern), branch by
   branch, with the scanner's quirks kept (Pos/started, Peek's restore rules).  panics with a
   *pm.Error become PErr.  Loops are recursion on fuel; PFuel never occurs for
   fuel > length of the pattern (GoFacts.bad_pattern_total).  No proofs in this file. *)
From GL Require Import Common.Bytes Pm.Class.

Definition EOS : Z := -1.

(* src[i] of Go; -99 would be an index panic, which the scanner invariant excludes *)
Definition bget (src : bytes) (i : Z) : Z :=
  match zth src i with Some c => c | None => -99 end.

Record scst := mkSc { sc_pos : Z; sc_started : bool }.
Definition sc_init : scst := mkSc 0 false.

Section Scanner.
Variable src : bytes.

Definition sc_nextpos (s : scst) : Z :=
  if (sc_pos s =? EOS) || (sc_pos s >=? len src - 1) then EOS
  else if negb (sc_started s) then 0
  else sc_pos s + 1.

Definition sc_next (s : scst) : Z * scst :=
  let s1 :=
    if negb (sc_started s) then mkSc (if len src =? 0 then EOS else sc_pos s) true
    else mkSc (sc_nextpos s) true in
  (if sc_pos s1 =? EOS then EOS else bget src (sc_pos s1), s1).

Definition sc_peek (s : scst) : Z * scst :=
  let cureof := sc_pos s =? EOS in
  let '(ch, s1) := sc_next s in
  if cureof then (ch, s1)
  else if sc_pos s1 =? EOS then (ch, mkSc (len src - 1) (sc_started s1))
  else
    let p := sc_pos s1 - 1 in
    if p <? 0 then (ch, mkSc 0 false) else (ch, mkSc p (sc_started s1)).

Inductive pres (A : Type) := POk (a : A) (s : scst) | PErr | PFuel.
Arguments POk {A} a s.
Arguments PErr {A}.
Arguments PFuel {A}.

(* parseClass(sc, false): inside a set *)
Definition parse_class_inset (s : scst) : pres cls :=
  let '(ch, s1) := sc_next s in
  if ch =? 37 then let '(c2, s2) := sc_next s1 in POk (CSingle c2) s2
  else if ch =? EOS then PErr
  else POk (CChar ch) s1.                      (* '.', '[' and default *)

(* the for-loop of parseClassSet (after the fix that follows lstrlib's range rule) *)
Fixpoint parse_set_loop (fuel : nat) (s : scst) (isnot : bool) (acc : list cls) : pres cls :=
  match fuel with
  | O => PFuel
  | S f =>
      let '(ch, s1) := sc_peek s in
      if ch =? EOS then PErr
      else if (ch =? 93) && negb (len acc =? 0) then
        let '(_, s2) := sc_next s1 in POk (CSet isnot acc) s2
      else
        match parse_class_inset s1 with
        | POk c s2 =>
            match c with
            | CChar b =>
                let '(d, s3) := sc_peek s2 in
                if d =? 45 then
                  (* sc.Save(); sc.Next() *)
                  let '(_, s4) := sc_next s3 in
                  let '(e, s5) := sc_peek s4 in
                  if negb (e =? 93) && negb (e =? EOS) then
                    let '(_, s6) := sc_next s5 in
                    parse_set_loop f s6 isnot (acc ++ [CRange (CChar b) (CChar e)])
                  else parse_set_loop f s3 isnot (acc ++ [c])       (* sc.Restore() *)
                else parse_set_loop f s3 isnot (acc ++ [c])
            | _ => parse_set_loop f s2 isnot (acc ++ [c])
            end
        | PErr => PErr
        | PFuel => PFuel
        end
  end.

Definition parse_class_set (s : scst) : pres cls :=
  let '(ch, s1) := sc_peek s in
  if ch =? 94 then let '(_, s2) := sc_next s1 in parse_set_loop (length src + 1) s2 true []
  else parse_set_loop (length src + 1) s1 false [].

(* parseClass(sc, true) *)
Definition parse_class_top (s : scst) : pres cls :=
  let '(ch, s1) := sc_next s in
  if ch =? 37 then let '(c2, s2) := sc_next s1 in POk (CSingle c2) s2
  else if ch =? 46 then POk CDot s1
  else if ch =? 91 then parse_class_set s1
  else if ch =? EOS then PErr
  else POk (CChar ch) s1.

(* pattern tree; capPattern holds the sub-sequence's Patterns (MustHead/MustTail are only ever
   set on the top-level seqPattern) *)
Inductive pat :=
| PSingle (c : cls)
| PRepeat (ty : Z) (c : cls)
| PPosCap
| PCap (l : list pat)
| PNumber (n : Z)
| PBrace (b e : Z).

Definition snoc_repeat (acc : list pat) (ch : Z) : list pat :=
  match rev acc with
  | PSingle c :: r => rev r ++ [PRepeat ch c]
  | _ => acc ++ [PSingle (CChar ch)]
  end.

Definition maxCaptures : Z := 32.

(* the for-loop of parsePattern; nc = scanner.captures (captures opened so far);
   result = (Patterns, MustTail, captures) *)
Fixpoint parse_loop (fuel : nat) (s : scst) (toplevel : bool) (acc : list pat) (tail : bool) (nc : Z)
  : pres (list pat * bool * Z) :=
  match fuel with
  | O => PFuel
  | S f =>
      let '(ch, s1) := sc_peek s in
      if ch =? 37 then                                          (* '%' *)
        let saved := s1 in
        let '(_, s2) := sc_next s1 in
        let '(c2, s3) := sc_peek s2 in
        if c2 =? 48 then PErr                                   (* invalid capture index *)
        else if inr 49 c2 57 then
          let '(d, s4) := sc_next s3 in
          parse_loop f s4 toplevel (acc ++ [PNumber (d - 48)]) tail nc
        else if c2 =? 98 then
          let '(_, s4) := sc_next s3 in
          let '(b, s5) := sc_next s4 in
          let '(e, s6) := sc_next s5 in
          parse_loop f s6 toplevel (acc ++ [PBrace b e]) tail nc
        else
          match parse_class_top saved with
          | POk c s4 => parse_loop f s4 toplevel (acc ++ [PSingle c]) tail nc
          | PErr => PErr
          | PFuel => PFuel
          end
      else if (ch =? 46) || (ch =? 91) || (ch =? 93) then       (* '.', '[', ']' *)
        match parse_class_top s1 with
        | POk c s4 => parse_loop f s4 toplevel (acc ++ [PSingle c]) tail nc
        | PErr => PErr
        | PFuel => PFuel
        end
      else if ch =? 41 then                                     (* ')' *)
        if toplevel then PErr else POk (acc, tail, nc) s1
      else if ch =? 40 then                                     (* '(' *)
        let '(_, s2) := sc_next s1 in
        let nc1 := nc + 1 in
        if nc1 >? maxCaptures then PErr                         (* too many captures *)
        else
        let '(c2, s3) := sc_peek s2 in
        if c2 =? 41 then
          let '(_, s4) := sc_next s3 in
          parse_loop f s4 toplevel (acc ++ [PPosCap]) tail nc1
        else
          match parse_loop f s3 false [] false nc1 with
          | POk (sub, _, nc2) s4 =>
              let '(c3, s5) := sc_peek s4 in
              if negb (c3 =? 41) then PErr                      (* unfinished capture *)
              else
                let '(_, s6) := sc_next s5 in
                parse_loop f s6 toplevel (acc ++ [PCap sub]) tail nc2
          | PErr => PErr
          | PFuel => PFuel
          end
      else if (ch =? 42) || (ch =? 43) || (ch =? 45) || (ch =? 63) then   (* * + - ? *)
        let '(_, s2) := sc_next s1 in
        parse_loop f s2 toplevel (snoc_repeat acc ch) tail nc
      else if ch =? 36 then                                     (* '$' *)
        let istail := toplevel && ((sc_nextpos s1 =? len src - 1) || (sc_nextpos s1 =? EOS)) in
        let '(_, s2) := sc_next s1 in
        if istail then parse_loop f s2 toplevel acc true nc
        else parse_loop f s2 toplevel (acc ++ [PSingle (CChar ch)]) tail nc
      else if ch =? EOS then
        let '(_, s2) := sc_next s1 in POk (acc, tail, nc) s2
      else
        let '(_, s2) := sc_next s1 in
        parse_loop f s2 toplevel (acc ++ [PSingle (CChar ch)]) tail nc
  end.
End Scanner.

Arguments POk {A} a s.
Arguments PErr {A}.
Arguments PFuel {A}.

Record seqpat := mkSeq { must_head : bool; must_tail : bool; patterns : list pat }.

Inductive parse_result := ParseOk (p : seqpat) | ParseErr | ParseFuel.

Definition parse_fuel (src : bytes) : nat := length src + 2.

(* parsePattern(newScanner(p), true) *)
Definition goParse (src : bytes) : parse_result :=
  let '(ch, s1) := sc_peek src sc_init in
  let '(head, s2) := if ch =? 94 then (true, snd (sc_next src s1)) else (false, s1) in
  match parse_loop src (parse_fuel src) s2 true [] false 0 with
  | POk (l, tail, _) _ => ParseOk (mkSeq head tail l)
  | PErr => ParseErr
  | PFuel => ParseFuel
  end.
