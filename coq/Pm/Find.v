(* C14 — IMPLEMENTATION MODEL: transcription of pm.Find (/repo/pm/pm.go): parse, compile and
   the scan loop.  The loop is written over an abstract `run` (one recursiveVM call from pc 0)
   so that its theorems (find_leftmost, find_advance) do not depend on the VM.
   No proofs in this file. *)
From GL Require Import Common.Bytes Pm.Class Pm.GoParse Pm.GoCompile Pm.GoVM.

Inductive fres := FOk (ms : list (list Z)) | FErr | FPanic | FFuel.

Section Scan.
Variable run : Z -> vres.          (* recursiveVM(src, insts, 0, sp, 0) *)
Variable srclen : Z.
Variable head : bool.              (* pat.MustHead *)
Variable limit : Z.

(* for sp := offset; sp <= len(src); { ... } *)
Fixpoint find_loop (n : nat) (sp : Z) (matches : list (list Z)) : fres :=
  match n with
  | O => FFuel
  | S k =>
      if sp <=? srclen then
        match run sp with
        | VRet ok nsp ms =>
            let sp1 := sp + 1 in
            let sp2 := if ok then (if sp1 <? nsp then nsp else sp1) else sp1 in
            let matches' := if ok then matches ++ [ms] else matches in
            if (len matches' =? limit) || head then FOk matches'
            else find_loop k sp2 matches'
        | VErr => FErr
        | VPanic => FPanic
        | VFuel => FFuel
        end
      else FOk matches
  end.
End Scan.

Definition find_fuel (src : bytes) (offset : Z) : nat := Z.to_nat (len src - offset) + 2.

(* checkBackRefs: state = (captures seen so far, numbers of the captures still open);
   None = panic(pm.Error "invalid capture index"): a %N between the parentheses of capture N *)
Fixpoint br_pat (p : pat) (st : Z * list Z) : option (Z * list Z) :=
  match p with
  | PPosCap => Some (fst st + 1, snd st)
  | PCap l =>
      let n := fst st + 1 in
      match (fix seq (l : list pat) (st : Z * list Z) : option (Z * list Z) :=
               match l with
               | [] => Some st
               | x :: r => match br_pat x st with Some st' => seq r st' | None => None end
               end) l (n, snd st ++ [n]) with
      | Some (n', _) => Some (n', snd st)
      | None => None
      end
  | PNumber k => if existsb (Z.eqb k) (snd st) then None else Some st
  | _ => Some st
  end.

Fixpoint br_seq (l : list pat) (st : Z * list Z) : option (Z * list Z) :=
  match l with
  | [] => Some st
  | x :: r => match br_pat x st with Some st' => br_seq r st' | None => None end
  end.

Definition backrefs_ok (sp : seqpat) : bool :=
  match br_seq (patterns sp) (0, []) with Some _ => true | None => false end.

Definition goFind (p src : bytes) (offset limit : Z) : fres :=
  match goParse p with
  | ParseErr => FErr
  | ParseFuel => FFuel
  | ParseOk sp =>
      if negb (backrefs_ok sp) then FErr else
      let insts := goCompile sp in
      find_loop (fun s => goVM src insts (vm_fuel src insts) 0 s) (len src) (must_head sp) limit
                (find_fuel src offset) offset []
  end.
