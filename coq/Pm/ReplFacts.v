(* C14 — the replacement-string scanner of strGsubStr (flagScanner with flag '%') expands
   %0-%9 and %% exactly as lstrlib's add_s (repl_scanner_spec). *)
From GL Require Import Common.Bytes Common.BytesFacts Pm.Class Pm.PmTypes Pm.RefMatch
     Pm.GoParse Pm.GoCompile Pm.GoVM Pm.Find Pm.Gsub Pm.Flat Pm.VMFacts Pm.RefFacts Pm.FindRefine.
From Coq Require Import Lia ZifyBool.

Inductive rtok := RLit (c : Z) | RCap (d : Z) | RPct.

Definition rtok_text (t : rtok) : bytes :=
  match t with RLit c => [c] | RCap d => [37; 48 + d] | RPct => [37; 37] end.
Definition rtok_ok (t : rtok) : Prop :=
  match t with RLit c => c <> 37 | RCap d => 0 <= d <= 9 | RPct => True end.
Fixpoint rtoks_text (l : list rtok) : bytes :=
  match l with [] => [] | t :: r => rtok_text t ++ rtoks_text r end.

(* what one capture reference expands to, on both sides *)
Lemma captured_agree (src : bytes) (st e : Z) (m : list Z) (cs : caps) (d : Z) :
  agree st m cs -> mget m 1 = 2 * e -> len m = 2 + 2 * len cs ->
  (forall j c, zth cs j = Some c -> snd c <> CAP_UNF) ->
  0 <= d <= 9 ->
  capturedString src m (2 * d) =
  (if d =? 0 then Ok (slice src st e)
   else match onecapture src cs (d - 1) st e with
        | Ok v => Ok (lval_to_bytes v)
        | Err => Err | Panic => Panic | Fuel => Fuel | Unsup => Unsup
        end).
Proof.
  intros Hag H1 Hlen Hcl Hd. pose proof Hag as (A0 & _ & Hslots). pose proof (len_nonneg cs) as Hcs.
  unfold capturedString, onecapture.
  destruct (d =? 0) eqn:Ed0.
  - assert (d = 0) by lia. subst d. cbn [Z.mul Z.leb Z.compare negb andb].
    destruct (0 >=? len m) eqn:E; [lia|]. cbn [andb].
    unfold isPosCapture, capture. rewrite A0, odd_2x. change (0 + 1) with 1. rewrite H1, !half_2x. reflexivity.
  - destruct (d - 1 >=? len cs) eqn:Eg.
    + (* no such capture *)
      destruct (d - 1 =? 0) eqn:E1.
      * assert (d = 1) by lia. subst d. assert (len cs = 0) by lia.
        change (2 * 1) with 2. cbn [Z.leb Z.compare negb andb].
        destruct (2 >=? len m) eqn:E2; [|lia]. cbn [andb Z.eqb Pos.eqb].
        unfold isPosCapture, capture. rewrite A0, odd_2x. change (0 + 1) with 1. rewrite H1, !half_2x. reflexivity.
      * destruct (2 * d <=? 2) eqn:E2; [lia|]. cbn [negb andb].
        destruct (2 * d >=? len m) eqn:E3; [reflexivity|lia].
    + destruct (zth_in_range cs (d - 1) ltac:(lia)) as [[i l] Hz]. rewrite Hz.
      pose proof (Hcl _ _ Hz) as Hu. cbn [snd] in Hu. pose proof (Hslots _ _ Hz) as Hs. unfold slot_ok in Hs.
      replace (2 * (d - 1) + 2) with (2 * d) in Hs by lia. replace (2 * (d - 1) + 3) with (2 * d + 1) in Hs by lia.
      destruct (l =? CAP_UNF) eqn:Eu; [lia|].
      destruct ((2 * d >=? len m)) eqn:E3; [lia|]. rewrite Bool.andb_false_r. cbn [andb].
      unfold isPosCapture, capture.
      destruct (l =? CAP_POS) eqn:Ep.
      * destruct Hs as (S2 & _ & _). rewrite S2, odd_2x1, half_2x1. reflexivity.
      * destruct Hs as (S2 & S3 & _). rewrite S2, S3, odd_2x, !half_2x. reflexivity.
Qed.

Lemma bget_app2 (a b : bytes) i : len a <= i -> bget (a ++ b) i = bget b (i - len a).
Proof. intros H. unfold bget. rewrite zth_app2 by assumption. reflexivity. Qed.

Lemma repl_scanner_spec_lemma (src : bytes) (st e : Z) (m : list Z) (cs : caps) :
  agree st m cs -> mget m 1 = 2 * e -> len m = 2 + 2 * len cs ->
  (forall j c, zth cs j = Some c -> snd c <> CAP_UNF) ->
  forall toks pre buf n1 n2,
    Forall rtok_ok toks ->
    len (rtoks_text toks) < Z.of_nat n1 -> len (rtoks_text toks) < Z.of_nat n2 ->
    repl_scan n1 src m (pre ++ rtoks_text toks) (len pre) false buf =
    match add_s n2 src (pre ++ rtoks_text toks) cs (len pre) st e with
    | Ok x => Ok (buf ++ x)
    | Err => Err | Panic => Panic | Fuel => Fuel | Unsup => Unsup
    end.
Proof.
  intros Hag H1 Hlen Hcl.
  induction toks as [|t r IH]; intros pre buf n1 n2 Hok Hn1 Hn2.
  - cbn [rtoks_text] in *. rewrite app_nil_r. destruct n1 as [|k1]; [cbn in Hn1; lia|]. destruct n2 as [|k2]; [cbn in Hn2; lia|].
    cbn [repl_scan add_s]. destruct (len pre =? len pre) eqn:E; [|lia]. destruct (len pre >=? len pre) eqn:E2; [|lia].
    rewrite app_nil_r. reflexivity.
  - apply Forall_cons_iff in Hok as [Ht Hr]. cbn [rtoks_text] in *. rewrite len_app in Hn1, Hn2.
    pose proof (len_nonneg (rtoks_text r)) as Hlr. pose proof (len_nonneg pre) as Hlp.
    set (rp := pre ++ rtok_text t ++ rtoks_text r) in *.
    assert (HL : len rp = len pre + len (rtok_text t) + len (rtoks_text r)) by (unfold rp; rewrite !len_app; lia).
    assert (Hnext : forall k : nat, rp = (pre ++ rtok_text t) ++ rtoks_text r) by (intros; unfold rp; rewrite app_assoc; reflexivity).
    destruct t as [c|d|]; cbn [rtok_text rtok_ok] in *.
    + (* literal *)
      change (len [c]) with 1 in *.
      destruct n1 as [|k1]; [lia|]. destruct n2 as [|k2]; [lia|]. cbn [repl_scan add_s].
      destruct (len pre =? len rp) eqn:E; [lia|]. destruct (len pre >=? len rp) eqn:E2; [lia|].
      assert (Hc : bget rp (len pre) = c) by (unfold rp; rewrite bget_app2 by lia; rewrite Z.sub_diag; reflexivity).
      assert (Hc' : pget rp (len pre) = c) by (rewrite pget_bget_in by lia; exact Hc).
      rewrite Hc, Hc'. destruct (c =? 37) eqn:E37; [lia|]. cbn [negb].
      rewrite (Hnext O). replace (len pre + 1) with (len (pre ++ [c])) by (rewrite len_app; reflexivity).
      rewrite (IH (pre ++ [c]) (buf ++ [c]) k1 k2 Hr ltac:(lia) ltac:(lia)).
      destruct (add_s k2 src ((pre ++ [c]) ++ rtoks_text r) cs (len (pre ++ [c])) st e); try reflexivity.
      rewrite <- app_assoc. reflexivity.
    + (* %d *)
      change (len [37; 48 + d]) with 2 in *.
      destruct n1 as [|k1]; [lia|]. destruct k1 as [|k1]; [lia|]. destruct n2 as [|k2]; [lia|].
      assert (Hc0 : bget rp (len pre) = 37) by (unfold rp; rewrite bget_app2 by lia; rewrite Z.sub_diag; reflexivity).
      assert (Hc1 : bget rp (len pre + 1) = 48 + d).
      { unfold rp. rewrite bget_app2 by lia. replace (len pre + 1 - len pre) with 1 by lia. reflexivity. }
      assert (Hp0 : pget rp (len pre) = 37) by (rewrite pget_bget_in by lia; exact Hc0).
      assert (Hp1 : pget rp (len pre + 1) = 48 + d) by (rewrite pget_bget_in by lia; exact Hc1).
      cbn [repl_scan add_s].
      destruct (len pre =? len rp) eqn:E; [lia|]. destruct (len pre >=? len rp) eqn:E2; [lia|].
      rewrite Hc0, Hp0. cbn [Z.eqb Pos.eqb negb]. rewrite Hc1, Hp1.
      destruct (48 + d =? 37) eqn:E37; [lia|]. rewrite Bool.andb_false_r.
      destruct (len pre =? len rp - 1) eqn:E3; [lia|]. cbn [negb].
      destruct (len pre + 1 =? len rp) eqn:E4; [lia|].
      destruct (48 + d =? 37) eqn:E5; [lia|].
      assert (Hdig : inr 48 (48 + d) 57 = true) by (unfold inr; lia).
      assert (Hdig' : c_isdigit (48 + d) = true) by (unfold c_isdigit, inr; lia).
      rewrite Hdig, Hdig'. cbn [negb]. replace (48 + d - 48) with d by lia.
      rewrite (captured_agree src st e m cs d Hag H1 Hlen Hcl Ht).
      replace (48 + d =? 48) with (d =? 0) by lia. replace (48 + d - 49) with (d - 1) by lia.
      assert (Hgo : forall piece,
                repl_scan k1 src m rp (len pre + 1 + 1) false (buf ++ piece) =
                match add_s k2 src rp cs (len pre + 2) st e with
                | Ok r0 => Ok (buf ++ piece ++ r0)
                | Err => Err | Panic => Panic | Fuel => Fuel | Unsup => Unsup
                end).
      { intros piece. rewrite (Hnext O).
        replace (len pre + 1 + 1) with (len (pre ++ [37; 48 + d])) by (rewrite len_app; change (len [37; 48 + d]) with 2; lia).
        replace (len pre + 2) with (len (pre ++ [37; 48 + d])) by (rewrite len_app; change (len [37; 48 + d]) with 2; lia).
        rewrite (IH (pre ++ [37; 48 + d]) (buf ++ piece) k1 k2 Hr ltac:(lia) ltac:(lia)).
        destruct (add_s k2 src ((pre ++ [37; 48 + d]) ++ rtoks_text r) cs (len (pre ++ [37; 48 + d])) st e); try reflexivity.
        rewrite <- app_assoc. reflexivity. }
      destruct (d =? 0) eqn:Ed0.
      * rewrite Hgo. destruct (add_s k2 src rp cs (len pre + 2) st e); reflexivity.
      * destruct (onecapture src cs (d - 1) st e) as [v| | | |]; try reflexivity. rewrite Hgo.
        destruct (add_s k2 src rp cs (len pre + 2) st e); reflexivity.
    + (* %% *)
      change (len [37; 37]) with 2 in *.
      destruct n1 as [|k1]; [lia|]. destruct n2 as [|k2]; [lia|].
      assert (Hc0 : bget rp (len pre) = 37) by (unfold rp; rewrite bget_app2 by lia; rewrite Z.sub_diag; reflexivity).
      assert (Hc1 : bget rp (len pre + 1) = 37).
      { unfold rp. rewrite bget_app2 by lia. replace (len pre + 1 - len pre) with 1 by lia. reflexivity. }
      assert (Hp0 : pget rp (len pre) = 37) by (rewrite pget_bget_in by lia; exact Hc0).
      assert (Hp1 : pget rp (len pre + 1) = 37) by (rewrite pget_bget_in by lia; exact Hc1).
      cbn [repl_scan add_s].
      destruct (len pre =? len rp) eqn:E; [lia|]. destruct (len pre >=? len rp) eqn:E2; [lia|].
      rewrite Hc0, Hp0. cbn [Z.eqb Pos.eqb negb]. rewrite Hc1, Hp1. cbn [Z.eqb Pos.eqb].
      destruct (len pre <? len rp - 1) eqn:E3; [|lia]. cbn [andb].
      change (c_isdigit 37) with false. cbn [negb].
      rewrite (Hnext O).
      replace (len pre + 2) with (len (pre ++ [37; 37])) by (rewrite len_app; change (len [37; 37]) with 2; lia).
      rewrite (IH (pre ++ [37; 37]) (buf ++ [37]) k1 k2 Hr ltac:(lia) ltac:(lia)).
      destruct (add_s k2 src ((pre ++ [37; 37]) ++ rtoks_text r) cs (len (pre ++ [37; 37])) st e); try reflexivity.
      rewrite <- app_assoc. reflexivity.
Qed.
