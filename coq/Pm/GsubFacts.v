(* C14 — proofs about strGsubDoReplace: the offset bookkeeping yields the left-to-right
   concatenation  s[0..b1) ++ r1 ++ s[e1..b2) ++ r2 ++ ... ++ s[ek..len s). *)
From GL Require Import Common.Bytes Common.BytesFacts Pm.Class Pm.PmTypes Pm.GoParse Pm.GoCompile Pm.GoVM Pm.Find Pm.Gsub.
From Coq Require Import Lia.

Fixpoint assemble (s : bytes) (from : Z) (infos : list replaceInfo) : bytes :=
  match infos with
  | [] => slice s from (len s)
  | (b, e, r) :: rest => slice s from b ++ r ++ assemble s e rest
  end.

(* increasing, non-overlapping extents inside the subject, starting at or after `from` *)
Fixpoint extents_ok (s : bytes) (from : Z) (infos : list replaceInfo) : Prop :=
  match infos with
  | [] => from <= len s
  | (b, e, _) :: rest => from <= b /\ b <= e /\ extents_ok s e rest
  end.

Lemma extents_le s : forall infos from, extents_ok s from infos -> from <= len s.
Proof.
  induction infos as [|[[b e] r] rest IH]; intros from H; simpl in H; [exact H|].
  destruct H as (H1 & H2 & H3). apply IH in H3. lia.
Qed.

Lemma slice_app_prefix {A} (pre t : list A) k :
  0 <= k -> slice (pre ++ t) 0 (len pre + k) = pre ++ slice t 0 k.
Proof.
  intros Hk. unfold slice, len. cbn [Z.to_nat skipn].
  rewrite !Z.sub_0_r.
  replace (Z.to_nat (Z.of_nat (length pre) + k)) with (length pre + Z.to_nat k)%nat by lia.
  apply firstn_app_2.
Qed.

Lemma slice_app_suffix {A} (pre t : list A) k m :
  0 <= k -> slice (pre ++ t) (len pre + k) (len pre + m) = slice t k m.
Proof.
  intros Hk. unfold slice, len.
  replace (Z.of_nat (length pre) + m - (Z.of_nat (length pre) + k)) with (m - k) by lia.
  f_equal.
  replace (Z.to_nat (Z.of_nat (length pre) + k)) with (length pre + Z.to_nat k)%nat by lia.
  rewrite skipn_app. rewrite skipn_all2 by lia. cbn [app].
  f_equal. lia.
Qed.

Lemma skipn_skipn' {A} (l : list A) : forall x y, skipn x (skipn y l) = skipn (y + x) l.
Proof.
  intros x y; revert l; induction y as [|y IH]; intros l; [reflexivity|].
  destruct l as [|a l]; [now rewrite !skipn_nil|]. cbn [plus skipn]. apply IH.
Qed.

Lemma slice_of_suffix {A} (s : list A) a k m :
  0 <= a -> 0 <= k -> slice (slice s a (len s)) k m = slice s (a + k) (a + m).
Proof.
  intros Ha Hk. unfold slice at 2. 
  rewrite firstn_all2 by (unfold len; rewrite skipn_length; lia).
  unfold slice. rewrite skipn_skipn'.
  replace (a + m - (a + k)) with (m - k) by lia.
  f_equal. f_equal. lia.
Qed.

Lemma doReplace_assemble (s : bytes) :
  forall infos pre from,
    0 <= from -> extents_ok s from infos ->
    doReplace infos (len pre - from) (pre ++ slice s from (len s)) = pre ++ assemble s from infos.
Proof.
  induction infos as [|[[b e] r] rest IH]; intros pre from Hfrom Hok.
  - reflexivity.
  - cbn [extents_ok] in Hok. destruct Hok as (Hb & He & Hrest).
    pose proof (extents_le s rest e Hrest) as Hes.
    cbn [doReplace assemble]. cbv zeta.
    assert (HlenT : len (slice s from (len s)) = len s - from) by (apply slice_len; lia).
    rewrite !(len_app pre (slice s from (len s))), HlenT.
    replace (len pre - from + b) with (len pre + (b - from)) by lia.
    replace (len pre - from + e) with (len pre + (e - from)) by lia.
    rewrite slice_app_prefix by lia.
    destruct (len pre + (e - from) <=? len pre + (len s - from)) eqn:Hc;
      [|apply Z.leb_gt in Hc; lia].
    rewrite slice_app_suffix by lia.
    rewrite !slice_of_suffix by lia.
    replace (from + 0) with from by lia.
    replace (from + (b - from)) with b by lia.
    replace (from + (e - from)) with e by lia.
    replace (from + (len s - from)) with (len s) by lia.
    set (pre' := pre ++ slice s from b ++ r).
    replace ((pre ++ slice s from b) ++ r ++ slice s e (len s)) with (pre' ++ slice s e (len s))
      by (unfold pre'; rewrite <- !app_assoc; reflexivity).
    replace (len pre - from + (len (pre' ++ slice s e (len s)) - (len pre + (len s - from))))
      with (len pre' - e).
    2:{ rewrite len_app. rewrite (slice_len s e (len s)) by lia. lia. }
    rewrite IH by (try lia; assumption).
    unfold pre'. rewrite <- !app_assoc. reflexivity.
Qed.

Lemma gsub_assembly_lemma :
  forall s infos, extents_ok s 0 infos -> strGsubDoReplace s infos = assemble s 0 infos.
Proof.
  intros s infos Hok. unfold strGsubDoReplace.
  pose proof (doReplace_assemble s infos [] 0 ltac:(lia) Hok) as H.
  cbn [app] in H. change (len (@nil Z)) with 0 in H. rewrite slice_full in H. exact H.
Qed.
