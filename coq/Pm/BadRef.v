(* C14 — the malformed-pattern clause for back-references, VM side: a back-reference %N that is
   reached before capture N has been opened (a forward reference, or a capture that does not
   exist) makes recursiveVM raise pm.Error "invalid capture index" -- never a match, never a Go
   panic -- exactly where the flat semantics (and through RefFacts.ref_flat lstrlib) reports the
   invalid capture index.  The simulation of VMFacts.sim is redone with a sharper invariant:
   the lazily grown capture array never extends beyond the slots of the captures that precede
   the first such reference (`lim`), even after failed branches, because no branch gets past it.
   References to a capture that is still open are excluded statically (pm.go's checkBackRefs,
   Find.backrefs_ok). *)
From GL Require Import Common.Bytes Common.BytesFacts Pm.Class Pm.PmTypes Pm.RefMatch
     Pm.GoParse Pm.GoCompile Pm.GoVM Pm.Find Pm.Flat Pm.CompileFacts Pm.VMFacts.
From Coq Require Import Lia ZifyBool.

(* words of the capture array that can be in use before the first reference to a capture not yet
   opened is executed; k = captures opened before `items` *)
Fixpoint lim (items : list fitem) (k : Z) : Z :=
  match items with
  | [] => 2 + 2 * k
  | FPosCap :: r => lim r (k + 1)
  | FOpen :: r => lim r (k + 1)
  | FNumber n :: r => if n - 1 >=? k then 2 + 2 * k else lim r k
  | _ :: r => lim r k
  end.

(* static conditions: parentheses balanced, no %N while capture N (index N-1) is open *)
Fixpoint st_ok (items : list fitem) (k : Z) (stk : list Z) : bool :=
  match items with
  | [] => true
  | FPosCap :: r => st_ok r (k + 1) stk
  | FOpen :: r => st_ok r (k + 1) (k :: stk)
  | FClose :: r => match stk with _ :: s => st_ok r k s | [] => false end
  | FNumber n :: r => negb (existsb (Z.eqb (n - 1)) stk) && st_ok r k stk
  | _ :: r => st_ok r k stk
  end.

Definition nums_pos (items : list fitem) : Prop := forall n, In (FNumber n) items -> 1 <= n.

Lemma lim_ge items : forall k, 2 + 2 * k <= lim items k.
Proof.
  induction items as [|x r IH]; intros k; cbn [lim]; [lia|].
  destruct x; try apply IH; try (specialize (IH (k + 1)); lia).
  destruct (n - 1 >=? k); [lia|apply IH].
Qed.

Lemma lim_le items : forall k, 0 <= k -> lim items k <= 2 + 2 * k + 2 * ncap_items items.
Proof.
  induction items as [|x r IH]; intros k Hk; cbn [lim ncap_items]; [lia|].
  pose proof (ncap_items_nonneg r).
  destruct x; try (specialize (IH k Hk); lia); try (specialize (IH (k + 1) ltac:(lia)); lia).
  destruct (n - 1 >=? k); [lia|specialize (IH k Hk); lia].
Qed.

Section SimBad.
Variable src : bytes.
Variable prog : list inst.
Variable tail : bool.
Variable B : Z.
Variable start : Z.

Local Notation epi := (VMFacts.epi tail).
Local Notation code_at := (VMFacts.code_at prog).
Local Notation agree := (VMFacts.agree start).
Local Notation bounded := (VMFacts.bounded src).
Local Notation agree_frame := (VMFacts.agree_frame start).
Local Notation agree_unclose := (VMFacts.agree_unclose start).
Local Notation bounded_mono := (VMFacts.bounded_mono src).
Local Notation bounded_zth := (VMFacts.bounded_zth src).
Local Notation vm_split := (VMFacts.vm_split src prog).
Local Notation vm_char := (VMFacts.vm_char src prog).
Local Notation vm_jmp := (VMFacts.vm_jmp src prog).
Local Notation cmatch_lt := (VMFacts.cmatch_lt src).

(* as VMFacts.rel, with the error case made exact and the length of a failing branch's array bounded *)
Definition rel' (L : Z) (v : vres) (s : fr) (cs : caps) : Prop :=
  match s with
  | FBad => v = VErr
  | FFail => exists sp' m', v = VRet false sp' m' /\ agree m' cs /\ len m' <= L
  | FMatch e cs' => exists m', v = VRet true e m' /\ agree m' cs' /\ mget m' 1 = 2 * e /\ 1 < len m' <= B
  end.

Lemma rel_weaken' L v s cs l : rel' L v s (cs ++ l) -> rel' L v s cs.
Proof.
  destruct s; cbn [rel']; auto. intros (sp' & m' & H1 & H2 & H3). exists sp', m'.
  split; [exact H1|]. split; [eapply agree_prefix; exact H2|exact H3].
Qed.

Lemma rel_err_bad' L s cs1 : rel' L VErr s cs1 -> s = FBad.
Proof.
  intros Hr. destruct s; cbn [rel'] in Hr; [| |reflexivity].
  - destruct Hr as (? & ? & H & _). congruence.
  - destruct Hr as (? & H & _). congruence.
Qed.

Lemma rel_panic_false L s cs1 : rel' L VPanic s cs1 -> False.
Proof.
  intros Hr. destruct s; cbn [rel'] in Hr.
  - destruct Hr as (? & ? & H & _). congruence.
  - destruct Hr as (? & H & _). congruence.
  - congruence.
Qed.

Ltac vmstep H := cbn [vm_run]; rewrite H.
Ltac nocall := match goal with |- context [?a + 1 >? maxRecursionLevel] =>
                 destruct (a + 1 >? maxRecursionLevel) eqn:?; [lia|] end.

Lemma unf_in_pos cs stk x : unf_in cs stk -> snd x <> CAP_UNF -> unf_in (cs ++ [x]) stk.
Proof.
  intros H Hx j i Hj. pose proof (zth_some_range _ _ _ Hj) as R. rewrite len_app in R.
  change (len [x]) with 1 in R. pose proof (len_nonneg cs).
  destruct (Z.eq_dec j (len cs)) as [->|Hne].
  - rewrite zth_snoc_last in Hj. inversion Hj; subst x. cbn [snd] in Hx. congruence.
  - rewrite zth_app1 in Hj by lia. eapply H; exact Hj.
Qed.

Lemma unf_in_open cs stk sp : unf_in cs stk -> unf_in (cs ++ [(sp, CAP_UNF)]) (len cs :: stk).
Proof.
  intros H j i Hj. pose proof (zth_some_range _ _ _ Hj) as R. rewrite len_app in R.
  change (len [(sp, CAP_UNF)]) with 1 in R. pose proof (len_nonneg cs).
  destruct (Z.eq_dec j (len cs)) as [->|Hne]; [left; reflexivity|].
  right. rewrite zth_app1 in Hj by lia. eapply H; exact Hj.
Qed.

Lemma unf_in_close cs stk j n : n <> CAP_UNF -> unf_in cs (j :: stk) -> unf_in (set_len cs j n) stk.
Proof.
  intros Hn H j' i Hj'. destruct (Z.eq_dec j' j) as [->|Hne].
  - pose proof (zth_some_range _ _ _ Hj') as R. rewrite len_set_len in R.
    destruct (zth_in_range cs j R) as [[i0 l0] Hc].
    rewrite (zth_set_len cs j n j) in Hj'. rewrite Hc, Z.eqb_refl in Hj'. inversion Hj'. congruence.
  - rewrite (zth_set_len cs j n j') in Hj'.
    destruct (j' =? j) eqn:E; [lia|].
    destruct (H _ _ Hj') as [He|Hin]; [congruence|exact Hin].
Qed.

Lemma sim_bad : forall fuel items pc sp rl m cs stk,
  code_at pc (emit items pc (2 + 2 * len cs) (gslots stk) ++ epi) ->
  2 + 2 * len cs + 2 * ncap_items items <= B ->
  agree m cs -> len m <= lim items (len cs) -> bounded cs sp -> stk_ok cs stk -> 0 <= sp <= len src ->
  rl + Z.of_nat fuel <= maxRecursionLevel ->
  unf_in cs stk -> st_ok items (len cs) stk = true -> nums_pos items ->
  vm_run src prog fuel pc sp rl m <> VFuel ->
  rel' (lim items (len cs)) (vm_run src prog fuel pc sp rl m) (fm src tail items sp cs stk) cs.
Proof.
  induction fuel as [fuel IH] using lt_wf_ind.
  induction items as [|it rest IHi];
  intros pc sp rl m cs stk Hcode HB Hag Hlm Hbd Hstk Hsp Hrl Hunf Hst Hnp;
  pose proof (len_nonneg cs) as Hcs;
  match type of Hlm with _ <= lim ?its _ =>
    pose proof (lim_le its (len cs) Hcs) as HlimB; pose proof (lim_ge its (len cs)) as HlimG end;
  (destruct fuel as [|f]; [cbn [vm_run]; congruence|]).
  - (* end of the item list: the epilogue *)
    cbn [emit app fm ncap_items lim st_ok] in *. unfold epi in Hcode. destruct tail.
    + apply code_at_cons in Hcode as [H0 Hcode]. apply code_at_cons in Hcode as [H1 _].
      vmstep H0. unfold setCapture. nocall.
      destruct f as [|f1]; [cbn [vm_run]; congruence|]. vmstep H1. intros _.
      set (m1 := upd (extend m (1 + 1)) 1 (2 * sp)).
      assert (Hl1 : len m1 = Z.max (len m) 2) by (unfold m1; rewrite len_upd, len_extend; reflexivity).
      destruct (sp >=? len src) eqn:Ee.
      * cbn [rel']. exists m1. split; [reflexivity|]. split.
        { apply (agree_frame m); [exact Hag| |lia].
          intros k Hk Hk1. unfold m1. rewrite mget_upd_other by lia. apply mget_extend. }
        split; [unfold m1; rewrite mget_upd_same; [reflexivity|rewrite len_extend; lia]|]. lia.
      * cbn [rel']. eexists _, _. split; [reflexivity|]. split.
        { apply (agree_frame m); [exact Hag| |rewrite len_upd; lia].
          intros k Hk Hk1. rewrite mget_upd_other by lia. unfold m1. rewrite mget_upd_other by lia. apply mget_extend. }
        rewrite len_upd. lia.
    + apply code_at_cons in Hcode as [H0 Hcode]. apply code_at_cons in Hcode as [H1 _].
      vmstep H0. unfold setCapture. nocall.
      destruct f as [|f1]; [cbn [vm_run]; congruence|]. vmstep H1. intros _.
      set (m1 := upd (extend m (1 + 1)) 1 (2 * sp)).
      assert (Hl1 : len m1 = Z.max (len m) 2) by (unfold m1; rewrite len_upd, len_extend; reflexivity).
      cbn [rel']. exists m1. split; [reflexivity|]. split.
      { apply (agree_frame m); [exact Hag| |lia].
        intros k Hk Hk1. unfold m1. rewrite mget_upd_other by lia. apply mget_extend. }
      split; [unfold m1; rewrite mget_upd_same; [reflexivity|rewrite len_extend; lia]|]. lia.
  - pose proof (ncap_items_nonneg rest) as Hncr.
    assert (Hnp' : nums_pos rest) by (intros n0 Hn0; apply Hnp; right; exact Hn0).
    destruct it as [c|ty c| | | |n|b e].
    + (* FSingle *)
      cbn [emit app fm ncap_items lim st_ok] in *. apply code_at_cons in Hcode as [H0 Hcode].
      vmstep H0. rewrite cmatch_vm. destruct (cmatch src c sp) eqn:Ec; cbn [negb].
      * pose proof (cmatch_lt _ _ Ec). intros Hnf.
        apply (IH f ltac:(lia) rest (pc + 1) (sp + 1) rl m cs stk); try assumption; try lia.
        apply (bounded_mono cs sp); [lia|assumption].
      * intros _. cbn [rel']. exists sp, m. auto.
    + (* FRepeat *)
      assert (Hcode0 := Hcode).
      set (k := fun sp' => fm src tail rest sp' cs stk).
      (* the continuation after the loop, at any fuel below the current one *)
      assert (Hk : forall f' pc' sp' rl' m', (f' < S f)%nat ->
                 code_at pc' (emit rest pc' (2 + 2 * len cs) (gslots stk) ++ epi) ->
                 agree m' cs -> len m' <= lim rest (len cs) -> sp <= sp' <= len src ->
                 rl' + Z.of_nat f' <= maxRecursionLevel ->
                 vm_run src prog f' pc' sp' rl' m' <> VFuel ->
                 rel' (lim rest (len cs)) (vm_run src prog f' pc' sp' rl' m') (k sp') cs).
      { intros f' pc' sp' rl' m' Hf' Hc' Ha' Hl' Hsp' Hrl' Hnf'.
        apply (IH f' Hf' rest pc' sp' rl' m' cs stk); try assumption; try lia.
        apply (bounded_mono cs sp); [lia|assumption]. }
      (* the same loop item one byte later *)
      assert (Hloop : forall f' rl' m', (f' < S f)%nat ->
                 agree m' cs -> len m' <= lim rest (len cs) -> sp + 1 <= len src ->
                 rl' + Z.of_nat f' <= maxRecursionLevel ->
                 vm_run src prog f' pc (sp + 1) rl' m' <> VFuel ->
                 rel' (lim rest (len cs)) (vm_run src prog f' pc (sp + 1) rl' m') (fm src tail (FRepeat ty c :: rest) (sp + 1) cs stk) cs).
      { intros f' rl' m' Hf' Ha' Hl' Hsp' Hrl' Hnf'.
        apply (IH f' Hf' (FRepeat ty c :: rest) pc (sp + 1) rl' m' cs stk); try assumption; try lia.
        apply (bounded_mono cs sp); [lia|assumption]. }
      cbn [emit ncap_items] in Hcode, HB. cbn [fm] in *. fold k in Hloop |- *.
      unfold emit_repeat in Hcode.
      destruct (ty =? 42) eqn:E42.
      { (* '*' : Split(pc+1, pc+3); Char; Jmp pc *)
        rewrite <- app_assoc in Hcode. cbn [app] in Hcode. change (len [ISplit (pc + 1) (pc + 3); IChar c; IJmp pc]) with 3 in Hcode.
        apply code_at_cons in Hcode as [H0 Hcode]. apply code_at_cons in Hcode as [H1 Hcode].
        apply code_at_cons in Hcode as [H2 Hcode]. replace (pc + 1 + 1 + 1) with (pc + 3) in Hcode by lia.
        rewrite star_g_unfold.
        rewrite (vm_split f pc sp rl m _ _ H0). nocall.
        destruct f as [|f1]; [rewrite vm_0; congruence|].
        rewrite (vm_char f1 (pc + 1) sp (rl + 1) m c H1).
        destruct (cmatch src c sp) eqn:Ec.
        - pose proof (cmatch_lt _ _ Ec) as Hlt.
          destruct f1 as [|f2]; [rewrite vm_0; congruence|].
          rewrite (vm_jmp f2 (pc + 1 + 1) (sp + 1) (rl + 1) m pc H2).
          pose proof (Hloop f2 (rl + 1) m ltac:(lia) Hag Hlm ltac:(lia) ltac:(lia)) as Hr1.
          destruct (vm_run src prog f2 pc (sp + 1) (rl + 1) m) as [ok nsp m'| | |] eqn:Ev; try congruence.
          + specialize (Hr1 ltac:(discriminate)).
            destruct (star_g src k c (subj_left src (sp + 1)) (sp + 1)) as [|e cs'|] eqn:Esg; cbn [rel'] in Hr1.
            * destruct Hr1 as (sp' & m'' & Hv & Ha' & Hl'). inversion Hv; subst ok nsp m''.
              intros Hnf. apply (Hk (S (S f2)) (pc + 3) sp rl m'); try assumption; try lia.
            * destruct Hr1 as (m'' & Hv & Ha' & H1' & Hl'). inversion Hv; subst ok nsp m''.
              intros _. cbn [rel']. exists m'. auto.
            * discriminate Hr1.
          + intros _. specialize (Hr1 ltac:(discriminate)). rewrite (rel_err_bad' _ _ _ Hr1). reflexivity.
          + intros _. specialize (Hr1 ltac:(discriminate)). destruct (rel_panic_false _ _ _ Hr1).
        - intros Hnf. apply (Hk (S f1) (pc + 3) sp rl m); try assumption; try lia. }
      destruct (ty =? 43) eqn:E43.
      { (* '+' : Char; Split(pc, pc+2) *)
        rewrite <- app_assoc in Hcode. cbn [app] in Hcode. change (len [IChar c; ISplit pc (pc + 2)]) with 2 in Hcode.
        apply code_at_cons in Hcode as [H0 Hcode]. apply code_at_cons in Hcode as [H1 Hcode].
        replace (pc + 1 + 1) with (pc + 2) in Hcode by lia.
        rewrite (vm_char f pc sp rl m c H0).
        destruct (cmatch src c sp) eqn:Ec; [|intros _; cbn [rel']; exists sp, m; auto].
        pose proof (cmatch_lt _ _ Ec) as Hlt.
        destruct f as [|f1]; [rewrite vm_0; congruence|].
        rewrite (vm_split f1 (pc + 1) (sp + 1) rl m _ _ H1). nocall.
        rewrite star_g_unfold.
        pose proof (Hloop f1 (rl + 1) m ltac:(lia) Hag Hlm ltac:(lia) ltac:(lia)) as Hr1.
        destruct (vm_run src prog f1 pc (sp + 1) (rl + 1) m) as [ok nsp m'| | |] eqn:Ev; try congruence.
        - specialize (Hr1 ltac:(discriminate)).
          destruct (cmatch src c (sp + 1)) eqn:Ec1.
          + destruct (star_g src k c (subj_left src (sp + 1 + 1)) (sp + 1 + 1)) as [|e cs'|] eqn:Esg; cbn [rel'] in Hr1.
            * destruct Hr1 as (sp' & m'' & Hv & Ha' & Hl'). inversion Hv; subst ok nsp m''.
              intros Hnf. apply (Hk f1 (pc + 2) (sp + 1) rl m'); try assumption; try lia.
            * destruct Hr1 as (m'' & Hv & Ha' & H1' & Hl'). inversion Hv; subst ok nsp m''.
              intros _. cbn [rel']. exists m'. auto.
            * discriminate Hr1.
          + cbn [rel'] in Hr1. destruct Hr1 as (sp' & m'' & Hv & Ha' & Hl'). inversion Hv; subst ok nsp m''.
            intros Hnf. apply (Hk f1 (pc + 2) (sp + 1) rl m'); try assumption; try lia.
        - intros _. specialize (Hr1 ltac:(discriminate)). pose proof (rel_err_bad' _ _ _ Hr1) as Hb.
          destruct (cmatch src c (sp + 1)); [rewrite Hb; reflexivity|discriminate].
        - intros _. specialize (Hr1 ltac:(discriminate)). destruct (rel_panic_false _ _ _ Hr1). }
      destruct (ty =? 45) eqn:E45.
      { (* '-' : Split(pc+3, pc+1); Char; Jmp pc *)
        rewrite <- app_assoc in Hcode. cbn [app] in Hcode. change (len [ISplit (pc + 3) (pc + 1); IChar c; IJmp pc]) with 3 in Hcode.
        apply code_at_cons in Hcode as [H0 Hcode]. apply code_at_cons in Hcode as [H1 Hcode].
        apply code_at_cons in Hcode as [H2 Hcode]. replace (pc + 1 + 1 + 1) with (pc + 3) in Hcode by lia.
        rewrite star_l_unfold.
        rewrite (vm_split f pc sp rl m _ _ H0). nocall.
        pose proof (Hk f (pc + 3) sp (rl + 1) m ltac:(lia) Hcode Hag Hlm ltac:(lia) ltac:(lia)) as Hr0.
        destruct (vm_run src prog f (pc + 3) sp (rl + 1) m) as [ok nsp m'| | |] eqn:Ev; try congruence.
        - specialize (Hr0 ltac:(discriminate)).
          destruct (k sp) as [|e cs'|] eqn:Eks; cbn [rel'] in Hr0.
          + destruct Hr0 as (sp' & m'' & Hv & Ha' & Hl'). inversion Hv; subst ok nsp m''.
            destruct f as [|f1]; [rewrite vm_0; congruence|].
            rewrite (vm_char f1 (pc + 1) sp rl m' c H1).
            destruct (cmatch src c sp) eqn:Ec; [|intros _; cbn [rel']; exists sp, m'; auto].
            pose proof (cmatch_lt _ _ Ec) as Hlt.
            destruct f1 as [|f2]; [rewrite vm_0; congruence|].
            rewrite (vm_jmp f2 (pc + 1 + 1) (sp + 1) rl m' pc H2).
            intros Hnf. apply (Hloop f2 rl m'); try assumption; try lia.
          + destruct Hr0 as (m'' & Hv & Ha' & H1' & Hl'). inversion Hv; subst ok nsp m''.
            intros _. cbn [rel']. exists m'. auto.
          + discriminate Hr0.
        - intros _. specialize (Hr0 ltac:(discriminate)). rewrite (rel_err_bad' _ _ _ Hr0). reflexivity.
        - intros _. specialize (Hr0 ltac:(discriminate)). destruct (rel_panic_false _ _ _ Hr0). }
      destruct (ty =? 63) eqn:E63.
      { (* '?' : Split(pc+1, pc+2); Char *)
        change (fm src tail rest (sp + 1) cs stk) with (k (sp + 1)).
        change (fm src tail rest sp cs stk) with (k sp).
        rewrite <- app_assoc in Hcode. cbn [app] in Hcode. change (len [ISplit (pc + 1) (pc + 2); IChar c]) with 2 in Hcode.
        apply code_at_cons in Hcode as [H0 Hcode]. apply code_at_cons in Hcode as [H1 Hcode].
        replace (pc + 1 + 1) with (pc + 2) in Hcode by lia.
        rewrite (vm_split f pc sp rl m _ _ H0). nocall.
        destruct f as [|f1]; [rewrite vm_0; congruence|].
        rewrite (vm_char f1 (pc + 1) sp (rl + 1) m c H1).
        destruct (cmatch src c sp) eqn:Ec.
        - pose proof (cmatch_lt _ _ Ec) as Hlt.
          replace (pc + 1 + 1) with (pc + 2) by lia.
          pose proof (Hk f1 (pc + 2) (sp + 1) (rl + 1) m ltac:(lia) Hcode Hag Hlm ltac:(lia) ltac:(lia)) as Hr0.
          destruct (vm_run src prog f1 (pc + 2) (sp + 1) (rl + 1) m) as [ok nsp m'| | |] eqn:Ev; try congruence.
          + specialize (Hr0 ltac:(discriminate)).
            destruct (k (sp + 1)) as [|e cs'|] eqn:Eks; cbn [rel'] in Hr0.
            * destruct Hr0 as (sp' & m'' & Hv & Ha' & Hl'). inversion Hv; subst ok nsp m''.
              intros Hnf. apply (Hk (S f1) (pc + 2) sp rl m'); try assumption; try lia.
            * destruct Hr0 as (m'' & Hv & Ha' & H1' & Hl'). inversion Hv; subst ok nsp m''.
              intros _. cbn [rel']. exists m'. auto.
            * discriminate Hr0.
          + intros _. specialize (Hr0 ltac:(discriminate)). rewrite (rel_err_bad' _ _ _ Hr0). reflexivity.
          + intros _. specialize (Hr0 ltac:(discriminate)). destruct (rel_panic_false _ _ _ Hr0).
        - intros Hnf. apply (Hk (S f1) (pc + 2) sp rl m); try assumption; try lia. }
      (* any other type byte: compilePattern emits nothing *)
      change (fm src tail rest sp cs stk) with (k sp).
      cbn [app] in Hcode. change (len (@nil inst)) with 0 in Hcode. replace (pc + 0) with pc in Hcode by lia.
      intros Hnf. apply (IHi pc sp rl m cs stk); assumption.
    + (* FPosCap *)
      cbn [emit app fm ncap_items lim st_ok] in *. apply code_at_cons in Hcode as [H0 Hcode].
      vmstep H0. intros Hnf.
      apply (rel_weaken' _ _ _ cs [(sp, CAP_POS)]).
      assert (Hlen : len (cs ++ [(sp, CAP_POS)]) = len cs + 1) by (rewrite len_app; reflexivity).
      pose proof (lim_ge rest (len cs + 1)) as HG1.
      rewrite <- Hlen in Hlm, Hst, HG1 |- *.
      apply (IH f ltac:(lia) rest (pc + 1) sp rl _ (cs ++ [(sp, CAP_POS)]) stk); try assumption; try lia.
      * rewrite Hlen. replace (2 + 2 * (len cs + 1)) with (2 + 2 * len cs + 2) by lia. exact Hcode.
      * apply agree_poscap. exact Hag.
      * unfold addPosCapture. rewrite !len_upd, len_extend. lia.
      * apply bounded_snoc; [exact Hbd|]. unfold cap_ok. split; [lia|]. split; [auto|]. unfold CAP_POS, CAP_UNF; lia.
      * apply stk_ok_pos. exact Hstk.
      * apply unf_in_pos; [exact Hunf|]. cbn [snd]. unfold CAP_POS, CAP_UNF. lia.
    + (* FOpen *)
      cbn [emit app fm ncap_items lim st_ok] in *. apply code_at_cons in Hcode as [H0 Hcode].
      vmstep H0. destruct (setCapture m (2 + 2 * len cs) sp) as [old m1] eqn:Es. nocall.
      assert (Hm1 : m1 = snd (setCapture m (2 + 2 * len cs) sp)) by (rewrite Es; reflexivity).
      assert (Hlen : len (cs ++ [(sp, CAP_UNF)]) = len cs + 1) by (rewrite len_app; reflexivity).
      pose proof (lim_ge rest (len cs + 1)) as HG1.
      assert (Hl1 : len m1 <= lim rest (len cs + 1)).
      { rewrite Hm1. unfold setCapture. cbn [snd]. rewrite len_upd, len_extend. lia. }
      assert (Hr : vm_run src prog f (pc + 1) sp (rl + 1) m1 <> VFuel ->
                   rel' (lim rest (len cs + 1)) (vm_run src prog f (pc + 1) sp (rl + 1) m1)
                        (fm src tail rest sp (cs ++ [(sp, CAP_UNF)]) (len cs :: stk)) (cs ++ [(sp, CAP_UNF)])).
      { intros Hnf. rewrite <- Hlen in Hl1, Hst |- *.
        apply (IH f ltac:(lia) rest (pc + 1) sp (rl + 1) m1 (cs ++ [(sp, CAP_UNF)]) (len cs :: stk)); try assumption; try lia.
        - rewrite Hlen. replace (2 + 2 * (len cs + 1)) with (2 + 2 * len cs + 2) by lia.
          cbn [gslots map]. replace (2 * len cs + 2) with (2 + 2 * len cs) by lia. exact Hcode.
        - rewrite Hm1. apply agree_open. exact Hag.
        - apply bounded_snoc; [exact Hbd|]. unfold cap_ok. split; [lia|]. split; [auto|]. lia.
        - apply stk_ok_open. exact Hstk.
        - apply unf_in_open. exact Hunf. }
      destruct (vm_run src prog f (pc + 1) sp (rl + 1) m1) as [ok nsp m'| | |] eqn:Ev; try congruence; intros _;
        specialize (Hr ltac:(discriminate)).
      * destruct (fm src tail rest sp (cs ++ [(sp, CAP_UNF)]) (len cs :: stk)) as [|e cs'|] eqn:Ef; cbn [rel'] in *.
        -- destruct Hr as (sp' & m'' & Hv & Ha' & Hl'). inversion Hv; subst ok nsp m''.
           exists sp, (upd m' (2 + 2 * len cs) old). split; [reflexivity|]. split.
           ++ eapply agree_drop_last. exact Ha'.
           ++ rewrite len_upd. exact Hl'.
        -- destruct Hr as (m'' & Hv & Ha' & H1' & Hl'). inversion Hv; subst ok nsp m''.
           exists m'. auto.
        -- discriminate Hr.
      * rewrite (rel_err_bad' _ _ _ Hr). reflexivity.
      * destruct (rel_panic_false _ _ _ Hr).
    + (* FClose *)
      destruct stk as [|j stk']; [cbn [st_ok] in Hst; discriminate|].
      destruct Hstk as [Hnd Hs]. destruct (Hs j (or_introl eq_refl)) as [i Hj].
      pose proof (bounded_zth _ _ _ _ Hbd Hj) as (C1 & C2 & C3). specialize (C3 eq_refl).
      pose proof (zth_some_range _ _ _ Hj) as Rj.
      cbn [gslots map emit app fm ncap_items lim st_ok] in *. rewrite Hj.
      apply code_at_cons in Hcode as [H0 Hcode].
      vmstep H0. destruct (setCapture m (2 * j + 2 + 1) sp) as [old m1] eqn:Es. nocall.
      assert (Hm1 : m1 = snd (setCapture m (2 * j + 3) sp)).
      { replace (2 * j + 3) with (2 * j + 2 + 1) by lia. rewrite Es; reflexivity. }
      assert (Hl1 : len m1 <= lim rest (len cs)).
      { rewrite Hm1. unfold setCapture. cbn [snd]. rewrite len_upd, len_extend. lia. }
      set (cs1 := set_len cs j (sp - i)).
      assert (Hlc1 : len cs1 = len cs) by (unfold cs1; apply len_set_len).
      assert (Hr' : vm_run src prog f (pc + 1) sp (rl + 1) m1 <> VFuel ->
                    rel' (lim rest (len cs)) (vm_run src prog f (pc + 1) sp (rl + 1) m1) (fm src tail rest sp cs1 stk') cs1).
      { intros Hnf. rewrite <- Hlc1 in Hl1, Hst |- *.
        apply (IH f ltac:(lia) rest (pc + 1) sp (rl + 1) m1 cs1 stk'); try assumption; try lia.
        - rewrite Hlc1. exact Hcode.
        - rewrite Hm1. apply agree_close; assumption.
        - apply bounded_set_len; [assumption|assumption|lia].
        - apply (stk_ok_close cs stk' j). split; assumption.
        - apply unf_in_close; [unfold CAP_UNF; lia|exact Hunf]. }
      destruct (vm_run src prog f (pc + 1) sp (rl + 1) m1) as [ok nsp m'| | |] eqn:Ev; try congruence; intros _.
      * specialize (Hr' ltac:(discriminate)).
        destruct (fm src tail rest sp cs1 stk') as [|e cs'|] eqn:Ef; cbn [rel'] in *.
        -- destruct Hr' as (sp' & m'' & Hv & Ha' & Hl'). inversion Hv; subst ok nsp m''.
           exists sp, (upd m' (2 * j + 2 + 1) old). split; [reflexivity|]. split.
           ++ replace (2 * j + 2 + 1) with (2 * j + 3) by lia.
              eapply (agree_unclose m' cs j i (sp - i)); [exact Ha'|exact Hj| |]; unfold CAP_POS, CAP_UNF; lia.
           ++ rewrite len_upd. exact Hl'.
        -- destruct Hr' as (m'' & Hv & Ha' & H1' & Hl'). inversion Hv; subst ok nsp m''.
           exists m'. auto.
        -- discriminate Hr'.
      * specialize (Hr' ltac:(discriminate)). rewrite (rel_err_bad' _ _ _ Hr'). reflexivity.
      * specialize (Hr' ltac:(discriminate)). destruct (rel_panic_false _ _ _ Hr').
    + (* FNumber *)
      assert (Hn1 : 1 <= n) by (apply Hnp; left; reflexivity).
      cbn [emit app fm ncap_items lim st_ok] in *. apply code_at_cons in Hcode as [H0 Hcode].
      apply andb_true_iff in Hst as [Hopen Hst].
      unfold backref. destruct (n <? 1) eqn:En; [lia|].
      destruct (n - 1 >=? len cs) eqn:Ebad.
      { (* a reference to a capture that has not been opened yet: "invalid capture index" *)
        assert (Hz : zth cs (n - 1) = None).
        { destruct (zth cs (n - 1)) eqn:Hz; [|reflexivity]. apply zth_some_range in Hz. lia. }
        rewrite Hz. vmstep H0.
        destruct (n * 2 >=? len m - 1) eqn:E1; [|lia]. intros _. reflexivity. }
      destruct (zth cs (n - 1)) as [[i l]|] eqn:Hz.
      2:{ destruct (zth_in_range cs (n - 1) ltac:(lia)) as [x Hx]. congruence. }
      destruct (l =? CAP_UNF) eqn:Eu.
      { (* excluded statically (checkBackRefs): capture n is still open *)
        assert (l = CAP_UNF) by lia. subst l. specialize (Hunf _ _ Hz).
        assert (existsb (Z.eqb (n - 1)) stk = true).
        { apply existsb_exists. exists (n - 1). split; [exact Hunf|apply Z.eqb_refl]. }
        rewrite H in Hopen. discriminate. }
      pose proof (bounded_zth _ _ _ _ Hbd Hz) as (C1 & C2 & C3).
      pose proof Hag as (A0 & A1 & A2). specialize (A2 _ _ Hz). unfold slot_ok in A2.
      replace (2 * (n - 1) + 2) with (n * 2) in A2 by lia.
      replace (2 * (n - 1) + 3) with (n * 2 + 1) in A2 by lia.
      vmstep H0. rewrite Eu in A2.
      destruct (l =? CAP_POS) eqn:Ep.
      * destruct A2 as (S2 & S3 & Sl).
        destruct (n * 2 >=? len m - 1) eqn:E1; [lia|].
        unfold isPosCapture. rewrite S2, odd_2x1. intros _. cbn [rel']. exists sp, m. auto.
      * destruct A2 as (S2 & S3 & Sl).
        destruct (n * 2 >=? len m - 1) eqn:E1; [lia|].
        unfold isPosCapture, capture. rewrite S2, S3, odd_2x, !half_2x.
        assert (Hl : 0 <= l /\ i + l <= len src) by (unfold CAP_POS, CAP_UNF in *; lia).
        destruct ((i >? i + l) || (i + l >? len src)) eqn:E2; [lia|].
        assert (Hlc : len (slice src i (i + l)) = l) by (rewrite slice_len; lia).
        rewrite number_loop_spec by lia. rewrite Hlc. replace (0 + sp) with sp by lia.
        destruct ((sp + l <=? len src) && beqb (slice src i (i + l)) (slice src sp (sp + l))) eqn:E3.
        -- intros Hnf. apply andb_true_iff in E3 as [E3 _].
           apply (IH f ltac:(lia) rest (pc + 1) (sp + l) rl m cs stk); try assumption; try lia.
           apply (bounded_mono cs sp); [lia|assumption].
        -- intros _. cbn [rel']. exists sp, m. auto.
    + (* FBrace *)
      cbn [emit app fm ncap_items lim st_ok] in *. apply code_at_cons in Hcode as [H0 Hcode].
      vmstep H0. destruct ((sp >=? len src) || negb (bget src sp =? b)) eqn:Ec.
      * intros _. cbn [rel']. exists sp, m. auto.
      * destruct (brace_loop src (Z.to_nat (len src - sp)) (sp + 1) 1 b e) as [sp'|] eqn:Eb.
        -- apply brace_loop_bound in Eb. intros Hnf.
           apply (IH f ltac:(lia) rest (pc + 1) sp' rl m cs stk); try assumption; try lia.
           apply (bounded_mono cs sp); [lia|assumption].
        -- intros _. cbn [rel']. exists (len src), m. auto.
Qed.
End SimBad.

(* ---------- checkBackRefs (Find.backrefs_ok) on the tree = st_ok on the flattened tree ---------- *)
Definition mem_equiv (opens stk : list Z) : Prop := forall x, In x opens <-> In (x - 1) stk.

Lemma br_pat_cap l st :
  br_pat (PCap l) st =
  match br_seq l (fst st + 1, snd st ++ [fst st + 1]) with
  | Some (n', _) => Some (n', snd st)
  | None => None
  end.
Proof. reflexivity. Qed.

Definition Qbr (p : pat) : Prop :=
  forall k opens stk rest st', mem_equiv opens stk -> br_pat p (k, opens) = Some st' ->
    st' = (k + ncaps p, opens) /\ st_ok (flatten p ++ rest) k stk = st_ok rest (k + ncaps p) stk.

Lemma br_seq_st l : Forall Qbr l ->
  forall k opens stk rest st', mem_equiv opens stk -> br_seq l (k, opens) = Some st' ->
    st' = (k + ncaps_seq l, opens) /\
    st_ok (flatten_seq l ++ rest) k stk = st_ok rest (k + ncaps_seq l) stk.
Proof.
  induction l as [|x r IH]; intros HF k opens stk rest st' Heq Hbr; cbn [br_seq flatten_seq ncaps_seq app] in *.
  - inversion Hbr; subst. rewrite Z.add_0_r. split; reflexivity.
  - inversion HF as [|? ? Hx Hr]; subst.
    destruct (br_pat x (k, opens)) as [st1|] eqn:E1; [|discriminate].
    destruct (Hx k opens stk (flatten_seq r ++ rest) st1 Heq E1) as [-> Hs1].
    destruct (IH Hr (k + ncaps x) opens stk rest st' Heq Hbr) as [-> Hs2].
    rewrite <- app_assoc, Hs1, Hs2. rewrite Z.add_assoc. split; reflexivity.
Qed.

Lemma br_pat_st : forall p, Qbr p.
Proof.
  induction p using pat_ind'; intros k opens stk rest st' Heq Hbr;
    try (cbn [br_pat flatten ncaps app st_ok] in *; inversion Hbr; subst; rewrite ?Z.add_0_r; split; reflexivity).
  - (* PCap *)
    rewrite br_pat_cap in Hbr. cbn [fst snd] in Hbr. rewrite flatten_cap, ncaps_cap.
    destruct (br_seq l (k + 1, opens ++ [k + 1])) as [[n' o']|] eqn:Es; [|discriminate].
    inversion Hbr; subst st'.
    assert (Heq' : mem_equiv (opens ++ [k + 1]) (k :: stk)).
    { intros x. rewrite in_app_iff. cbn [In]. rewrite (Heq x). split.
      - intros [Hi|[Hx|[]]]; [right; exact Hi|left; lia].
      - intros [Hx|Hi]; [right; left; lia|left; exact Hi]. }
    destruct (br_seq_st l H (k + 1) (opens ++ [k + 1]) (k :: stk) (FClose :: rest) _ Heq' Es) as [Hst' Hs].
    inversion Hst'; subst n' o'.
    cbn [app st_ok]. rewrite <- app_assoc. cbn [app]. rewrite Hs. cbn [st_ok].
    replace (k + 1 + ncaps_seq l) with (k + (1 + ncaps_seq l)) by lia. split; reflexivity.
  - (* PNumber *)
    cbn [br_pat flatten ncaps app st_ok fst snd] in *.
    destruct (existsb (Z.eqb n) opens) eqn:Ee; [discriminate|]. inversion Hbr; subst st'.
    rewrite Z.add_0_r. split; [reflexivity|].
    destruct (existsb (Z.eqb (n - 1)) stk) eqn:E2; [|reflexivity].
    apply existsb_exists in E2 as (y & Hy & Ey). assert (y = n - 1) by lia. subst y.
    apply (Heq n) in Hy.
    assert (existsb (Z.eqb n) opens = true) by (apply existsb_exists; exists n; split; [exact Hy|apply Z.eqb_refl]).
    congruence.
Qed.

Lemma backrefs_ok_st (p : seqpat) :
  backrefs_ok p = true -> st_ok (flatten_seq (patterns p)) 0 [] = true.
Proof.
  unfold backrefs_ok. destruct (br_seq (patterns p) (0, [])) as [st'|] eqn:E; [intros _|discriminate].
  assert (HF : Forall Qbr (patterns p)) by (apply Forall_forall; intros x _; apply br_pat_st).
  assert (Heq : mem_equiv [] []) by (intros x; split; intros []).
  destruct (br_seq_st (patterns p) HF 0 [] [] [] st' Heq E) as [_ Hs].
  rewrite app_nil_r in Hs. rewrite Hs. reflexivity.
Qed.

(* ---------- the theorem at the level of one recursiveVM run ---------- *)
Lemma goVM_bad (p : seqpat) (src : bytes) (sp0 : Z) (fuel : nat) :
  backrefs_ok p = true -> nums_pos (flatten_seq (patterns p)) ->
  0 <= sp0 <= len src ->
  1 + Z.of_nat fuel <= maxRecursionLevel ->
  goVM src (goCompile p) fuel 0 sp0 <> VFuel ->
  fm src (must_tail p) (flatten_seq (patterns p)) sp0 [] [] = FBad ->
  goVM src (goCompile p) fuel 0 sp0 = VErr.
Proof.
  intros Hbr Hnp Hsp Hrl. unfold goVM.
  set (items := flatten_seq (patterns p)) in *. set (tail := must_tail p).
  set (N := ncaps_seq (patterns p)). set (prog := goCompile p).
  assert (Hprog : prog = ISave 0 :: (emit items 1 2 [] ++ epi tail)) by apply goCompile_emit.
  assert (Hcode : code_at prog 1 (emit items 1 (2 + 2 * len (@nil (Z * Z))) (gslots []) ++ epi tail)).
  { intros i ins Hi. pose proof (zth_some_range _ _ _ Hi). rewrite Hprog.
    rewrite zth_cons by lia. replace (1 + i - 1) with i by lia. exact Hi. }
  assert (HN : ncap_items items = N) by apply ncap_items_flatten_seq.
  assert (HNn : 0 <= N) by (rewrite <- HN; apply ncap_items_nonneg).
  destruct fuel as [|f]; [cbn [vm_run]; congruence|].
  assert (H0 : zth prog 0 = Some (ISave 0)) by (rewrite Hprog; reflexivity).
  cbn [vm_run]. rewrite H0.
  assert (Hsc : setCapture [] 0 sp0 = (0, [2 * sp0])) by reflexivity. rewrite Hsc.
  destruct (1 + 1 >? maxRecursionLevel) eqn:E1; [unfold maxRecursionLevel in E1; lia|].
  change (0 + 1) with 1.
  assert (Hag0 : agree sp0 [2 * sp0] []).
  { split; [reflexivity|]. split; [reflexivity|]. intros j c Hj. rewrite zth_nil in Hj. discriminate. }
  pose proof (sim_bad src prog tail (2 + 2 * N) sp0 f items 1 sp0 (1 + 1) [2 * sp0] [] [] Hcode) as Hsim.
  change (len (@nil (Z * Z))) with 0 in Hsim.
  specialize (Hsim ltac:(lia) Hag0). change (len [2 * sp0]) with 1 in Hsim.
  pose proof (lim_ge items 0).
  specialize (Hsim ltac:(lia) (Forall_nil _)).
  assert (Hstk0 : stk_ok [] []) by (split; [constructor|intros j []]).
  assert (Hunf0 : unf_in [] []) by (intros j i Hj; rewrite zth_nil in Hj; discriminate).
  specialize (Hsim Hstk0 Hsp ltac:(lia) Hunf0 (backrefs_ok_st p Hbr) Hnp).
  intros Hnf Hfm.
  destruct (vm_run src prog f 1 sp0 (1 + 1) [2 * sp0]) as [ok nsp m'| | |] eqn:Ev; try congruence;
    specialize (Hsim ltac:(discriminate)); rewrite Hfm in Hsim; cbn [rel'] in Hsim; congruence.
Qed.
