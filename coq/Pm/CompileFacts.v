(* C14 — proofs about compilePattern (GoCompile.goCompile): program shape. *)
From GL Require Import Common.Bytes Common.BytesFacts Pm.Class Pm.GoParse Pm.GoCompile.
From Coq Require Import Lia.

(* induction principle for the nested type pat *)
Section PatInd.
Variable Q : pat -> Prop.
Hypothesis HS : forall c, Q (PSingle c).
Hypothesis HR : forall ty c, Q (PRepeat ty c).
Hypothesis HP : Q PPosCap.
Hypothesis HC : forall l, Forall Q l -> Q (PCap l).
Hypothesis HN : forall n, Q (PNumber n).
Hypothesis HB : forall b e, Q (PBrace b e).
Fixpoint pat_ind' (p : pat) : Q p :=
  match p with
  | PSingle c => HS c
  | PRepeat ty c => HR ty c
  | PPosCap => HP
  | PCap l => HC l ((fix go (l : list pat) : Forall Q l :=
                       match l with
                       | [] => Forall_nil Q
                       | x :: r => Forall_cons x (pat_ind' x) (go r)
                       end) l)
  | PNumber n => HN n
  | PBrace b e => HB b e
  end.
End PatInd.

(* every jump target of an instruction lies in [0, n] *)
Definition tgt_ok (n : Z) (i : inst) : Prop :=
  match i with
  | ISplit a b => 0 <= a <= n /\ 0 <= b <= n
  | IJmp t => 0 <= t <= n
  | _ => True
  end.

Definition st_ok (st : cstate) : Prop := Forall (tgt_ok (len (fst st))) (fst st).

Lemma tgt_ok_mono n m i : n <= m -> tgt_ok n i -> tgt_ok m i.
Proof. destruct i; simpl; intros; try exact I; lia. Qed.

Lemma Forall_tgt_mono n m l : n <= m -> Forall (tgt_ok n) l -> Forall (tgt_ok m) l.
Proof. intros H F. eapply Forall_impl; [|exact F]. intros a. apply tgt_ok_mono; exact H. Qed.

Lemma st_ok_app insts cap new cap' :
  st_ok (insts, cap) -> Forall (tgt_ok (len (insts ++ new))) new -> st_ok (insts ++ new, cap').
Proof.
  unfold st_ok; cbn [fst]. intros H Hn. apply Forall_app. split; [|exact Hn].
  eapply Forall_tgt_mono; [|exact H]. rewrite len_app. pose proof (len_nonneg new). lia.
Qed.

(* the part of the state that compile_pat leaves alone: it only appends *)
Definition extends (st st' : cstate) : Prop := exists new, fst st' = fst st ++ new.

Lemma extends_refl st : extends st st.
Proof. exists []. now rewrite app_nil_r. Qed.
Lemma extends_trans a b c : extends a b -> extends b c -> extends a c.
Proof. intros [x Hx] [y Hy]. exists (x ++ y). rewrite Hy, Hx, app_assoc. reflexivity. Qed.

Lemma len_cons {A} (x : A) l : len (x :: l) = 1 + len l.
Proof. unfold len. cbn [length]. lia. Qed.
Lemma len_nil {A} : len (@nil A) = 0.
Proof. reflexivity. Qed.

Lemma compile_repeat_ok ty c st : st_ok st -> st_ok (compile_repeat ty c st) /\ extends st (compile_repeat ty c st).
Proof.
  destruct st as [insts cap]. intros H. unfold compile_repeat.
  pose proof (len_nonneg insts) as Hl.
  destruct (ty =? 42); [|destruct (ty =? 43); [|destruct (ty =? 45); [|destruct (ty =? 63)]]].
  1-4: split; [apply (st_ok_app insts cap); [exact H|] | eexists; reflexivity];
       rewrite len_app, !len_cons, len_nil; repeat constructor; simpl; lia.
  split; [exact H | apply extends_refl].
Qed.

Lemma compile_pat_ok : forall p st, st_ok st -> st_ok (compile_pat p st) /\ extends st (compile_pat p st).
Proof.
  induction p using pat_ind'; intros st Hst; destruct st as [insts cap]; cbn [compile_pat fst snd].
  - split; [apply (st_ok_app insts cap); [exact Hst|repeat constructor] | eexists; reflexivity].
  - apply compile_repeat_ok; exact Hst.
  - split; [apply (st_ok_app insts cap); [exact Hst|repeat constructor] | eexists; reflexivity].
  - (* PCap *)
    set (seqf := fix seq (l : list pat) (st : cstate) {struct l} : cstate :=
                   match l with [] => st | x :: r => seq r (compile_pat x st) end).
    assert (Hseq : forall l, Forall (fun p => forall st, st_ok st -> st_ok (compile_pat p st) /\ extends st (compile_pat p st)) l ->
                   forall st, st_ok st -> st_ok (seqf l st) /\ extends st (seqf l st)).
    { induction l0 as [|x r IHr]; intros HF st0 Hst0.
      - split; [exact Hst0 | apply extends_refl].
      - inversion HF; subst. cbn [seqf]. destruct (H2 st0 Hst0) as [Hx Ex].
        destruct (IHr H3 _ Hx) as [Hr Er]. split; [exact Hr | eapply extends_trans; eauto]. }
    assert (H1 : st_ok (insts ++ [ISave cap], cap + 2)) by (apply (st_ok_app insts cap); [exact Hst|repeat constructor]).
    destruct (Hseq l H _ H1) as [H2 E2].
    destruct (seqf l (insts ++ [ISave cap], cap + 2)) as [i2 c2] eqn:Es.
    cbn [fst snd]. split.
    + apply (st_ok_app i2 c2); [exact H2|repeat constructor].
    + destruct E2 as [new Hn]. cbn [fst] in Hn. exists ([ISave cap] ++ new ++ [ISave (cap + 1)]).
      cbn [fst]. rewrite Hn. rewrite <- !app_assoc. reflexivity.
  - split; [apply (st_ok_app insts cap); [exact Hst|repeat constructor] | eexists; reflexivity].
  - split; [apply (st_ok_app insts cap); [exact Hst|repeat constructor] | eexists; reflexivity].
Qed.

Lemma compile_seq_ok : forall l st, st_ok st -> st_ok (compile_seq l st) /\ extends st (compile_seq l st).
Proof.
  induction l as [|x r IH]; intros st Hst; cbn [compile_seq].
  - split; [exact Hst | apply extends_refl].
  - destruct (compile_pat_ok x st Hst) as [Hx Ex]. destruct (IH _ Hx) as [Hr Er].
    split; [exact Hr | eapply extends_trans; eauto].
Qed.

(* the statement of compile_shape *)
Definition inst_in_range (n : Z) (pc : Z) (i : inst) : Prop :=
  match i with
  | ISplit a b => 0 <= a < n /\ 0 <= b < n
  | IJmp t => 0 <= t < n
  | IMatch | ITailMatch => True
  | _ => pc + 1 < n                      (* falls through to the next instruction *)
  end.

Lemma compile_shape_lemma :
  forall p : seqpat,
    let prog := goCompile p in
    zth prog 0 = Some (ISave 0) /\
    zth prog (len prog - 1) = Some IMatch /\
    forall pc i, zth prog pc = Some i -> inst_in_range (len prog) pc i.
Proof.
  intros p prog.
  assert (H0 : st_ok ([ISave 0], 2)) by (repeat constructor).
  destruct (compile_seq_ok (patterns p) _ H0) as [Hok [new Hext]].
  unfold prog, goCompile.
  set (st := compile_seq (patterns p) ([ISave 0], 2)) in *.
  cbn [fst] in Hext.
  set (body := if must_tail p then fst st ++ [ISave 1; ITailMatch] else fst st).
  assert (Hb : exists mid, body = ISave 0 :: mid /\ Forall (tgt_ok (len body)) body).
  { unfold body. destruct (must_tail p).
    - exists (new ++ [ISave 1; ITailMatch]). split; [rewrite Hext; reflexivity|].
      apply (st_ok_app (fst st) (snd st) [ISave 1; ITailMatch] 0).
      + destruct st; exact Hok.
      + repeat constructor.
    - exists new. split; [rewrite Hext; reflexivity | exact Hok]. }
  destruct Hb as (mid & Hbody & HF).
  pose proof (len_nonneg body) as Hlb.
  assert (Hlen : len (body ++ [ISave 1; IMatch]) = len body + 2) by (rewrite len_app; reflexivity).
  split; [rewrite Hbody; reflexivity|]. split.
  - rewrite Hlen. unfold zth. destruct (len body + 2 - 1 <? 0) eqn:E; [apply Z.ltb_lt in E; lia|].
    rewrite nth_error_app2 by (unfold len in *; lia).
    replace (Z.to_nat (len body + 2 - 1) - length body)%nat with 1%nat by (unfold len in *; lia).
    reflexivity.
  - intros pc i Hz. rewrite Hlen. unfold zth in Hz.
    destruct (pc <? 0) eqn:E; [discriminate|]. apply Z.ltb_ge in E.
    destruct (Z_lt_le_dec pc (len body)) as [Hlt|Hge].
    + rewrite nth_error_app1 in Hz by (unfold len in *; lia).
      apply nth_error_In in Hz. rewrite Forall_forall in HF. specialize (HF i Hz).
      destruct i; simpl in *; try lia; exact I.
    + rewrite nth_error_app2 in Hz by (unfold len in *; lia).
      destruct (Z.to_nat pc - length body)%nat as [|[|k]] eqn:Ek; cbn in Hz.
      * inversion Hz; subst. simpl. unfold len in *. lia.
      * inversion Hz; subst. exact I.
      * destruct k; discriminate.
Qed.

(* capture slot numbering: a capture opened when `capture` = c uses slots c (open) and c+1
   (close); position captures use c; the counter advances by 2 per capture *)
Fixpoint ncaps (p : pat) : Z :=
  match p with
  | PPosCap => 1
  | PCap l => 1 + (fix go (l : list pat) : Z := match l with [] => 0 | x :: r => ncaps x + go r end) l
  | _ => 0
  end.
Fixpoint ncaps_seq (l : list pat) : Z := match l with [] => 0 | x :: r => ncaps x + ncaps_seq r end.

Lemma compile_pat_caps : forall p st, snd (compile_pat p st) = snd st + 2 * ncaps p.
Proof.
  induction p using pat_ind'; intros st; destruct st as [insts cap]; cbn [compile_pat fst snd ncaps]; try lia.
  - unfold compile_repeat.
    destruct (ty =? 42); [|destruct (ty =? 43); [|destruct (ty =? 45); [|destruct (ty =? 63)]]]; cbn [snd]; lia.
  - set (seqf := fix seq (l : list pat) (st : cstate) {struct l} : cstate :=
                   match l with [] => st | x :: r => seq r (compile_pat x st) end).
    set (go := fix go (l : list pat) : Z := match l with [] => 0 | x :: r => ncaps x + go r end).
    assert (Hseq : forall l, Forall (fun p => forall st, snd (compile_pat p st) = snd st + 2 * ncaps p) l ->
                   forall st, snd (seqf l st) = snd st + 2 * go l).
    { induction l0 as [|x r IHr]; intros HF st0; cbn [seqf go]; [lia|].
      inversion HF; subst. rewrite IHr by assumption. rewrite H2. lia. }
    rewrite (Hseq l H). cbn [snd]. lia.
Qed.

Lemma compile_seq_caps : forall l st, snd (compile_seq l st) = snd st + 2 * ncaps_seq l.
Proof.
  induction l as [|x r IH]; intros st; cbn [compile_seq ncaps_seq]; [lia|].
  rewrite IH, compile_pat_caps. lia.
Qed.
