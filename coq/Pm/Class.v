(* C14 — character classes: the C-locale <ctype.h> predicates used by lstrlib.c's
   match_class (specification side) and gopher-lua's singleClass.Matches (pm/pm.go,
   implementation side).  No proofs in this file. *)
From GL Require Import Common.Bytes.

(* byte read with C semantics for a NUL-terminated pattern: reading at or beyond the end gives 0 *)
Definition pget (p : bytes) (i : Z) : Z :=
  match zth p i with Some c => c | None => 0 end.

Definition inr (lo x hi : Z) : bool := (lo <=? x) && (x <=? hi).

(* ---- ISO C, "C" locale ---- *)
Definition c_isupper (c : Z) := inr 65 c 90.
Definition c_islower (c : Z) := inr 97 c 122.
Definition c_isalpha (c : Z) := c_isupper c || c_islower c.
Definition c_isdigit (c : Z) := inr 48 c 57.
Definition c_isalnum (c : Z) := c_isalpha c || c_isdigit c.
Definition c_iscntrl (c : Z) := inr 0 c 31 || (c =? 127).
Definition c_isspace (c : Z) := inr 9 c 13 || (c =? 32).
Definition c_ispunct (c : Z) := inr 33 c 47 || inr 58 c 64 || inr 91 c 96 || inr 123 c 126.
Definition c_isxdigit (c : Z) := c_isdigit c || inr 97 c 102 || inr 65 c 70.
Definition c_tolower (c : Z) := if c_isupper c then c + 32 else c.

(* lstrlib.c match_class (c = subject byte, cl = class letter) *)
Definition ref_match_class (c cl : Z) : bool :=
  let t := c_tolower cl in
  let fin (res : bool) := if c_islower cl then res else negb res in
  if t =? 97 then fin (c_isalpha c)          (* a *)
  else if t =? 99 then fin (c_iscntrl c)     (* c *)
  else if t =? 100 then fin (c_isdigit c)    (* d *)
  else if t =? 108 then fin (c_islower c)    (* l *)
  else if t =? 112 then fin (c_ispunct c)    (* p *)
  else if t =? 115 then fin (c_isspace c)    (* s *)
  else if t =? 117 then fin (c_isupper c)    (* u *)
  else if t =? 119 then fin (c_isalnum c)    (* w *)
  else if t =? 120 then fin (c_isxdigit c)   (* x *)
  else if t =? 122 then fin (c =? 0)         (* z *)
  else cl =? c.

(* pm.go: singleClass.Matches, branch by branch *)
Definition go_single_matches (cls ch : Z) : bool :=
  let fin (ret : bool) := if inr 65 cls 90 then negb ret else ret in
  if (cls =? 97) || (cls =? 65) then
    fin (inr 65 ch 90 || inr 97 ch 122)
  else if (cls =? 99) || (cls =? 67) then
    fin (inr 0 ch 31 || (ch =? 127))
  else if (cls =? 100) || (cls =? 68) then
    fin (inr 48 ch 57)
  else if (cls =? 108) || (cls =? 76) then
    fin (inr 97 ch 122)
  else if (cls =? 112) || (cls =? 80) then
    fin (inr 33 ch 47 || inr 58 ch 64 || inr 91 ch 96 || inr 123 ch 126)
  else if (cls =? 115) || (cls =? 83) then
    fin ((ch =? 32) || (ch =? 12) || (ch =? 10) || (ch =? 13) || (ch =? 9) || (ch =? 11))
  else if (cls =? 117) || (cls =? 85) then
    fin (inr 65 ch 90)
  else if (cls =? 119) || (cls =? 87) then
    fin (inr 48 ch 57 || inr 65 ch 90 || inr 97 ch 122)
  else if (cls =? 120) || (cls =? 88) then
    fin (inr 48 ch 57 || inr 97 ch 102 || inr 65 ch 70)
  else if (cls =? 122) || (cls =? 90) then
    fin (ch =? 0)
  else ch =? cls.

(* the class tree of pm.go *)
Inductive cls :=
| CDot
| CChar (ch : Z)
| CSingle (c : Z)
| CSet (isnot : bool) (l : list cls)
| CRange (b e : cls).

Fixpoint cls_matches (c : cls) (ch : Z) : bool :=
  match c with
  | CDot => true
  | CChar x => x =? ch
  | CSingle k => go_single_matches k ch
  | CSet isnot l =>
      (fix any (l : list cls) : bool :=
         match l with
         | [] => isnot
         | x :: r => if cls_matches x ch then negb isnot else any r
         end) l
  | CRange (CChar b) (CChar e) => (b <=? ch) && (ch <=? e)
  | CRange _ _ => false
  end.
