(* C14 — proofs about single character classes: the Go table agrees with <ctype.h>/match_class
   on all 256 x 256 (class byte, subject byte) pairs. *)
From GL Require Import Common.Bytes Pm.Class.
From Coq Require Import Lia.

Definition byte_range : list Z := map Z.of_nat (seq 0 256).

Lemma in_byte_range : forall z, 0 <= z < 256 -> In z byte_range.
Proof.
  intros z Hz. unfold byte_range.
  replace z with (Z.of_nat (Z.to_nat z)) by lia.
  apply in_map. apply in_seq. lia.
Qed.

Definition class_grid_ok : bool :=
  forallb (fun cl => forallb (fun ch => Bool.eqb (go_single_matches cl ch) (ref_match_class ch cl)) byte_range) byte_range.

Lemma class_grid_ok_true : class_grid_ok = true.
Proof. vm_compute. reflexivity. Qed.

Lemma class_agree_lemma :
  forall cl ch, 0 <= cl < 256 -> 0 <= ch < 256 ->
    go_single_matches cl ch = ref_match_class ch cl.
Proof.
  intros cl ch Hcl Hch.
  pose proof class_grid_ok_true as H. unfold class_grid_ok in H.
  rewrite forallb_forall in H. specialize (H cl (in_byte_range cl Hcl)).
  rewrite forallb_forall in H. specialize (H ch (in_byte_range ch Hch)).
  apply Bool.eqb_prop in H. exact H.
Qed.

(* `.` matches every byte on both sides; a plain character matches itself only *)
Lemma dot_char_agree_lemma :
  forall ch x, cls_matches CDot ch = true /\ cls_matches (CChar x) ch = (x =? ch).
Proof. intros; split; reflexivity. Qed.
