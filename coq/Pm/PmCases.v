(* C14 — case type and the two checkers of the correspondence shards.
   check_impl: exact equality between the transcription (GoParse/GoCompile/GoVM/Find/Gsub) and
   what the real code returned.  check_spec: the property — the observed results equal those of
   the Lua 5.1 reference matcher (RefMatch); for a pattern that is not well-formed 5.1 syntax
   (ref_wf) the observed behaviour must be a Lua error or "no match"; a Go panic never passes. *)
From GL Require Import Common.Bytes Pm.Class Pm.PmTypes Pm.RefMatch
     Pm.GoParse Pm.GoCompile Pm.GoVM Pm.Find Pm.Gsub.
From GL Require Str.StrModel.

Inductive obsv (A : Type) := OOk (a : A) | OErr | OPanic.
Arguments OOk {A} a.
Arguments OErr {A}.
Arguments OPanic {A}.

Definition prog_row := (Z * Z * Z * list Z)%type.

Inductive case :=
| CFind (s p : bytes) (oinit : option Z) (o : obsv (list lval))
| CMatch (s p : bytes) (oinit : option Z) (o : obsv (list lval))
  (* string.find(s, p, init, true, nil...) : plain search, with nextra further arguments after the
     flag (the flag must be honoured whatever the argument count) *)
| CFindPlain (s p : bytes) (oinit : option Z) (nextra : Z) (o : obsv (list lval))
  (* inputs too large to spell out: kind 0 = string.find(("a"):rep(n), "a*");
     kind 1 = string.find("abc", ("("):rep(n));
     kind 2 = string.gsub("a", "a", ("%%"):rep(n)) and kind 3 = string.gsub("ab", "b", ("%0%%"):rep(n)),
     observed as [length of the result; count; number of '%' bytes in the result] *)
| CBig (kind n : Z) (o : obsv (list lval))
| CGmatch (s p : bytes) (o : obsv (list (list lval)))
| CGsub (s p : bytes) (r : repl) (olimit : option Z) (o : obsv gsub_out)
  (* pm.Find through its exported API: per match, (Capture(i), IsPosCapture(i)) for all i *)
| CPmFind (p s : bytes) (offset limit : Z) (o : obsv (list (list (Z * bool))))
  (* hook VerifCompile: MustHead and one row per instruction *)
| CProg (p : bytes) (o : obsv (bool * list prog_row)).

(* ---------- equalities ---------- *)
Definition vals_eqb := list_eqb lval_eqb.
Definition tuples_eqb := list_eqb vals_eqb.
Definition gsub_eqb (a b : gsub_out) : bool :=
  let '(x1, n1, c1) := a in let '(x2, n2, c2) := b in
  beqb x1 x2 && (n1 =? n2) && tuples_eqb c1 c2.
Definition zb_eqb (a b : Z * bool) := (fst a =? fst b) && Bool.eqb (snd a) (snd b).
Definition md_eqb := list_eqb (list_eqb zb_eqb).
Definition row_eqb (a b : prog_row) : bool :=
  let '(o1, a1, b1, m1) := a in let '(o2, a2, b2, m2) := b in
  (o1 =? o2) && (a1 =? a2) && (b1 =? b2) && beqb m1 m2.
Definition prog_eqb (a b : bool * list prog_row) : bool :=
  Bool.eqb (fst a) (fst b) && list_eqb row_eqb (snd a) (snd b).

Definition agree {A} (eq : A -> A -> bool) (r : res A) (o : obsv A) : bool :=
  match r, o with
  | Ok a, OOk b => eq a b
  | Err, OErr => true
  | Panic, OPanic => true
  | _, _ => false
  end.

(* ---------- implementation side ---------- *)
Definition md_view (md : list Z) : list (Z * bool) := map (fun w => (w / 2, Z.odd w)) md.

Definition byte_range : list Z := map Z.of_nat (seq 0 256).
Definition members (c : cls) : list Z := filter (cls_matches c) byte_range.

Definition inst_row (i : inst) : prog_row :=
  match i with
  | IChar c => (0, -1, -1, members c)
  | IMatch => (1, -1, -1, [])
  | ITailMatch => (2, -1, -1, [])
  | IJmp t => (3, t, -1, [])
  | ISplit a b => (4, a, b, [])
  | ISave n => (5, n, -1, [])
  | IPSave n => (6, n, -1, [])
  | IBrace b e => (7, b, e, [])
  | INumber n => (8, n, -1, [])
  end.

Definition impl_prog (p : bytes) : res (bool * list prog_row) :=
  match goParse p with
  | ParseOk sp => Ok (must_head sp, map inst_row (goCompile sp))
  | ParseErr => Err
  | ParseFuel => Fuel
  end.

Definition check_impl (c : case) : bool :=
  match c with
  | CFind s p oi o => agree vals_eqb (strFind s p oi) o
  | CMatch s p oi o => agree vals_eqb (strMatch s p oi) o
  | CFindPlain s p oi _ o =>
      agree vals_eqb (Ok (match Str.StrModel.strFindPlain s p oi with
                          | Some (a, b) => [VNum a; VNum b] | None => [VNil] end)) o
  | CBig kind n o =>
      (* closed forms of the transcription on these inputs: the greedy loop of "a*" nests one
         recursiveVM level per byte (Save 0, n Splits, Save 1 on top of the first call), so the
         recursion cap is hit iff n + 3 > maxRecursionLevel; a run of '(' is an unfinished
         capture (n <= 32) or too many captures *)
      if kind =? 0 then
        agree vals_eqb (if n + 3 >? maxRecursionLevel then Err else Ok [VNum 1; VNum n]) o
      else if kind =? 1 then agree vals_eqb Err o
      else if kind =? 2 then agree vals_eqb (Ok [VNum n; VNum 1; VNum n]) o         (* n times '%' *)
      else agree vals_eqb (Ok [VNum (1 + 2 * n); VNum 1; VNum n]) o                 (* "a" ++ n times "b%" *)
  | CGmatch s p o => agree tuples_eqb (strGmatch s p) o
  | CGsub s p r ol o => agree gsub_eqb (strGsub s p r ol) o
  | CPmFind p s off lim o => agree md_eqb (of_fres (goFind p s off lim) (fun ms => Ok (map md_view ms))) o
  | CProg p o => agree prog_eqb (impl_prog p) o
  end.

(* ---------- specification side ---------- *)

(* static well-formedness of a pattern as Lua 5.1 syntax: every path of lstrlib's matcher through
   the whole pattern raises no error (closed captures, valid back-references, terminated sets,
   no trailing '%', %b with two characters, at most 32 captures) *)
Fixpoint close_last (st : list bool) : option (list bool) :=   (* st: true = closed; newest last *)
  match st with
  | [] => None
  | b :: r => match close_last r with
              | Some r' => Some (b :: r')
              | None => if b then None else Some (true :: r)
              end
  end.

Fixpoint wf_scan (fuel : nat) (pat : bytes) (p : Z) (st : list bool) : bool :=
  match fuel with
  | O => false
  | S f =>
      let c := pget pat p in
      if c =? 0 then forallb (fun b => b) st && (len st <=? MAXCAPTURES)
      else if c =? 40 then
        if pget pat (p + 1) =? 41 then wf_scan f pat (p + 2) (st ++ [true])
        else wf_scan f pat (p + 1) (st ++ [false])
      else if c =? 41 then
        match close_last st with Some st' => wf_scan f pat (p + 1) st' | None => false end
      else if c =? 37 then
        let d := pget pat (p + 1) in
        if d =? 0 then false
        else if d =? 98 then
          if (pget pat (p + 2) =? 0) || (pget pat (p + 3) =? 0) then false else wf_scan f pat (p + 4) st
        else if d =? 102 then false
        else if c_isdigit d then
          match (if d =? 48 then None else zth st (d - 49)) with
          | Some true => wf_scan f pat (p + 2) st
          | _ => false
          end
        else wf_scan f pat (p + 2) st
      else if c =? 91 then
        match classEnd pat p with Some ep => wf_scan f pat ep st | None => false end
      else wf_scan f pat (p + 1) st
  end.

Definition ref_wf (pat : bytes) (anchored : bool) : bool :=
  wf_scan (length pat + 2) pat (if anchored && (pget pat 0 =? 94) then 1 else 0) [].

Definition spec_ok {A} (eq : A -> A -> bool) (wf : bool) (r : res A) (nomatch : A) (o : obsv A) : bool :=
  match o with
  | OPanic => false
  | OErr => match r with Err => true | Ok _ => negb wf | Unsup => true | _ => false end
  | OOk b =>
      match r with
      | Ok a => eq a b || (negb wf && eq nomatch b)
      | Err => eq nomatch b
      | Unsup => true
      | _ => false
      end
  end.

(* all matches pm.Find must report: the scan of gsub/gmatch with a positive limit or -1 *)
Fixpoint ref_findall (n : nat) (pat src : bytes) (anchor : bool) (p0 s cnt limit : Z)
  : res (list (Z * Z * caps)) :=
  match n with
  | O => Fuel
  | S k =>
      if s >? len src then Ok []
      else
        match ref_match pat src s p0 with
        | RMatch e cs =>
            if (cnt + 1 =? limit) || anchor then Ok [(s, e, cs)]
            else match ref_findall k pat src anchor p0 (if e >? s then e else s + 1) (cnt + 1) limit with
                 | Ok r => Ok ((s, e, cs) :: r)
                 | x => x
                 end
        | RFail => if anchor then Ok [] else ref_findall k pat src anchor p0 (s + 1) cnt limit
        | RErr => Err | RUnsup => Unsup | RFuel => Fuel
        end
  end.

Definition ref_md_view (m : Z * Z * caps) : list (Z * bool) :=
  let '(s, e, cs) := m in
  (s, false) :: (e, false) ::
  flat_map (fun c : Z * Z => let '(i, l) := c in
              if l =? CAP_POS then [(i + 1, true); (i + 1, true)]
              else [(i, false); (i + l, false)]) cs.

Definition unfinished (m : Z * Z * caps) : bool :=
  existsb (fun c : Z * Z => snd c =? CAP_UNF) (snd m).

Definition ref_pmfind (p s : bytes) (off lim : Z) : res (list (list (Z * bool))) :=
  let anchor := pget p 0 =? 94 in
  match ref_findall (Z.to_nat (len s) + 2) p s anchor (if anchor then 1 else 0) off 0 lim with
  | Ok ms => if existsb unfinished ms then Err else Ok (map ref_md_view ms)
  | Err => Err | Panic => Panic | Fuel => Fuel | Unsup => Unsup
  end.

(* shape of a dumped program: jump targets inside, last instruction opMatch, Save slots >= 0 *)
Definition row_in_range (n : Z) (r : prog_row) : bool :=
  let '(op, a, b, _) := r in
  if op =? 3 then inr 0 a (n - 1)
  else if op =? 4 then inr 0 a (n - 1) && inr 0 b (n - 1)
  else if (op =? 5) || (op =? 6) then 0 <=? a
  else inr 0 op 8.

Definition prog_shape_ok (rows : list prog_row) : bool :=
  forallb (row_in_range (len rows)) rows &&
  match rev rows with (1, _, _, _) :: _ => true | _ => false end.

Definition check_spec (c : case) : bool :=
  match c with
  | CFind s p oi o =>
      spec_ok vals_eqb (ref_wf p true) (ref_find s p (match oi with Some i => i | None => 1 end)) [VNil] o
  | CMatch s p oi o =>
      spec_ok vals_eqb (ref_wf p true) (ref_smatch s p (match oi with Some i => i | None => 1 end)) [VNil] o
  | CFindPlain s p oi _ o =>
      agree vals_eqb (Ok (match Str.StrModel.find_plain_spec s p oi with
                          | Some (a, b) => [VNum a; VNum b] | None => [VNil] end)) o
  | CBig kind n o =>
      if kind =? 0 then agree vals_eqb (Ok [VNum 1; VNum n]) o      (* lstrlib: max_expand is a loop *)
      else if kind =? 1 then match o with OErr => true | OOk v => vals_eqb [VNil] v | OPanic => false end
      else if kind =? 2 then agree vals_eqb (Ok [VNum n; VNum 1; VNum n]) o         (* add_s: %% -> % *)
      else agree vals_eqb (Ok [VNum (1 + 2 * n); VNum 1; VNum n]) o
  | CGmatch s p o => spec_ok tuples_eqb (ref_wf p false) (ref_gmatch s p) [] o
  | CGsub s p r ol o => spec_ok gsub_eqb (ref_wf p true) (ref_gsub s p r ol) (s, 0, []) o
  | CPmFind p s off lim o => spec_ok md_eqb (ref_wf p true) (ref_pmfind p s off lim) [] o
  | CProg p o =>
      match o with
      | OOk (_, rows) => prog_shape_ok rows
      | OErr => true
      | OPanic => false
      end
  end.
