(* C14 — the reference side of the refinement: lstrlib's matcher (RefMatch.do_match) run on the
   TEXT of a pattern computes the flat semantics Flat.fm of the item list that the text prints. *)
From GL Require Import Common.Bytes Common.BytesFacts Pm.Class Pm.PmTypes Pm.RefMatch
     Pm.GoParse Pm.GoCompile Pm.GoVM Pm.Flat Pm.ClassFacts Pm.VMFacts.
From Coq Require Import Lia ZifyBool.

Definition conv (r : fr) : rres :=
  match r with FFail => RFail | FMatch e cs => RMatch e cs | FBad => RErr end.

(* ---------- indices of the unfinished captures ---------- *)
Fixpoint unf_idx (cs : caps) (i : Z) : list Z :=
  match cs with
  | [] => []
  | (_, l) :: r => (if l =? CAP_UNF then [i] else []) ++ unf_idx r (i + 1)
  end.

Definition stk_repr (cs : caps) (stk : list Z) : Prop := stk = rev (unf_idx cs 0).

Lemma last_unf_spec : forall cs i acc,
  last_unf cs i acc = match rev (unf_idx cs i) with j :: _ => Some j | [] => acc end.
Proof.
  induction cs as [|[a l] r IH]; intros i acc; cbn [last_unf unf_idx]; [reflexivity|].
  rewrite IH. rewrite rev_app_distr.
  destruct (rev (unf_idx r (i + 1))) as [|j t]; cbn [app]; [|reflexivity].
  destruct (l =? CAP_UNF); reflexivity.
Qed.

Lemma unf_idx_app : forall a b i, unf_idx (a ++ b) i = unf_idx a i ++ unf_idx b (i + len a).
Proof.
  induction a as [|[x l] r IH]; intros b i; cbn [app unf_idx].
  - rewrite len_nil. f_equal. lia.
  - rewrite IH. rewrite len_cons. rewrite <- app_assoc. f_equal. f_equal. f_equal. lia.
Qed.

Lemma unf_idx_ge : forall cs i x, In x (unf_idx cs i) -> i <= x.
Proof.
  induction cs as [|[a l] r IH]; intros i x H; cbn [unf_idx] in H; [contradiction|].
  apply in_app_or in H as [H|H].
  - destruct (l =? CAP_UNF); [destruct H as [<-|[]]; lia|contradiction].
  - apply IH in H. lia.
Qed.

Lemma remove_notin (x : Z) l : ~ In x l -> remove Z.eq_dec x l = l.
Proof.
  induction l as [|y t IH]; intros H; cbn [remove]; [reflexivity|].
  destruct (Z.eq_dec x y) as [->|]; [exfalso; apply H; left; reflexivity|].
  f_equal. apply IH. intros Hin. apply H. right. exact Hin.
Qed.

Lemma unf_idx_set_len : forall cs j n i,
  0 <= j -> n <> CAP_UNF ->
  unf_idx (set_len cs j n) i = remove Z.eq_dec (i + j) (unf_idx cs i).
Proof.
  induction cs as [|[a l] r IH]; intros j n i Hj Hn; cbn [set_len unf_idx]; [reflexivity|].
  destruct (j =? 0) eqn:E.
  - assert (j = 0) by lia. subst. cbn [unf_idx]. destruct (n =? CAP_UNF) eqn:En; [lia|]. cbn [app].
    rewrite Z.add_0_r. rewrite remove_app.
    rewrite (remove_notin i (unf_idx r (i + 1))) by (intros Hin; apply unf_idx_ge in Hin; lia).
    destruct (l =? CAP_UNF); cbn [remove app]; [|reflexivity].
    destruct (Z.eq_dec i i); [reflexivity|congruence].
  - cbn [unf_idx]. rewrite IH by lia. rewrite remove_app. replace (i + 1 + (j - 1)) with (i + j) by lia.
    f_equal. destruct (l =? CAP_UNF); cbn [remove]; [|reflexivity].
    destruct (Z.eq_dec (i + j) i); [lia|reflexivity].
Qed.

Lemma unf_idx_nodup : forall cs i, NoDup (unf_idx cs i).
Proof.
  induction cs as [|[a l] r IH]; intros i; cbn [unf_idx]; [constructor|].
  destruct (l =? CAP_UNF); cbn [app]; [|apply IH].
  constructor; [|apply IH]. intros Hin. apply unf_idx_ge in Hin. lia.
Qed.

Lemma stk_repr_open cs stk s : stk_repr cs stk -> stk_repr (cs ++ [(s, CAP_UNF)]) (len cs :: stk).
Proof.
  unfold stk_repr. intros ->. rewrite unf_idx_app. cbn [unf_idx]. change (CAP_UNF =? CAP_UNF) with true.
  cbn [app]. rewrite rev_app_distr. cbn [rev app]. f_equal.
Qed.

Lemma stk_repr_pos cs stk s : stk_repr cs stk -> stk_repr (cs ++ [(s, CAP_POS)]) stk.
Proof.
  unfold stk_repr. intros ->. rewrite unf_idx_app. cbn [unf_idx]. change (CAP_POS =? CAP_UNF) with false.
  cbn [app]. rewrite app_nil_r. reflexivity.
Qed.

Lemma stk_repr_close cs stk j n :
  stk_repr cs (j :: stk) -> n <> CAP_UNF -> stk_repr (set_len cs j n) stk.
Proof.
  unfold stk_repr. intros H Hn.
  assert (Hu : unf_idx cs 0 = rev stk ++ [j]).
  { rewrite <- (rev_involutive (unf_idx cs 0)). rewrite <- H. reflexivity. }
  assert (Hj : 0 <= j) by (apply (unf_idx_ge cs 0 j); rewrite Hu; apply in_or_app; right; left; reflexivity).
  rewrite unf_idx_set_len by assumption. rewrite Hu. cbn [Z.add].
  pose proof (unf_idx_nodup cs 0) as Hnd. rewrite Hu in Hnd.
  rewrite remove_app. cbn [remove]. destruct (Z.eq_dec j j); [|congruence].
  rewrite app_nil_r. rewrite remove_notin.
  - rewrite rev_involutive. reflexivity.
  - intros Hin. apply NoDup_remove_2 in Hnd. apply Hnd. rewrite app_nil_r. exact Hin.
Qed.

Lemma stk_repr_head cs j stk : stk_repr cs (j :: stk) -> last_unf cs 0 None = Some j.
Proof. unfold stk_repr. intros H. rewrite last_unf_spec, <- H. reflexivity. Qed.
Lemma stk_repr_nil cs : stk_repr cs [] -> last_unf cs 0 None = None.
Proof. unfold stk_repr. intros H. rewrite last_unf_spec, <- H. reflexivity. Qed.

(* ---------- the two expansion loops ---------- *)
Section Loops.
Variable pat src : bytes.
Variable rec : Z -> Z -> caps -> rres.
Variable k : Z -> fr.
Variable c : cls.
Variable p ep : Z.
Variable cs : caps.
Hypothesis Hsm : forall s, 0 <= s -> singlematch pat src s p ep = cmatch src c s.

Lemma max_try_step : forall i s,
  max_try rec (S i) s ep cs =
  match max_try rec i (s + 1) ep cs with RFail => rec s (ep + 1) cs | r => r end.
Proof.
  induction i as [|i IH]; intros s.
  - cbn [max_try]. change (Z.of_nat 1) with 1. change (Z.of_nat 0) with 0.
    rewrite !Z.add_0_r. destruct (rec (s + 1) (ep + 1) cs); try reflexivity.
    destruct (rec s (ep + 1) cs); reflexivity.
  - change (max_try rec (S (S i)) s ep cs) with
      (match rec (s + Z.of_nat (S (S i))) (ep + 1) cs with
       | RFail => max_try rec (S i) s ep cs | r => r end).
    change (max_try rec (S i) (s + 1) ep cs) with
      (match rec (s + 1 + Z.of_nat (S i)) (ep + 1) cs with
       | RFail => max_try rec i (s + 1) ep cs | r => r end).
    rewrite IH.
    replace (s + 1 + Z.of_nat (S i)) with (s + Z.of_nat (S (S i))) by lia.
    destruct (rec (s + Z.of_nat (S (S i))) (ep + 1) cs); reflexivity.
Qed.

Lemma max_try_0 s : max_try rec 0 s ep cs = rec s (ep + 1) cs.
Proof. cbn [max_try]. change (Z.of_nat 0) with 0. rewrite Z.add_0_r. destruct (rec s (ep + 1) cs); reflexivity. Qed.

Lemma max_expand_star : forall n s,
  0 <= s <= len src ->
  (forall s', s <= s' <= len src -> rec s' (ep + 1) cs = conv (k s')) ->
  max_try rec (max_count pat src n s p ep) s ep cs = conv (star_g src k c n s).
Proof.
  induction n as [|n IH]; intros s Hs Hrec; cbn [max_count star_g].
  - rewrite max_try_0. apply Hrec. lia.
  - rewrite Hsm by lia. destruct (cmatch src c s) eqn:Ec.
    + pose proof (cmatch_lt src _ _ Ec). rewrite max_try_step. rewrite IH; [|lia|intros; apply Hrec; lia].
      rewrite (Hrec s) by lia. destruct (star_g src k c n (s + 1)); reflexivity.
    + rewrite max_try_0. apply Hrec. lia.
Qed.

Lemma min_expand_star : forall n s,
  0 <= s <= len src -> len src - s <= Z.of_nat n ->
  (forall s', s <= s' <= len src -> rec s' (ep + 1) cs = conv (k s')) ->
  min_expand pat src rec (S n) s p ep cs = conv (star_l src k c n s).
Proof.
  induction n as [|n IH]; intros s Hs Hn Hrec.
  - cbn [min_expand star_l]. rewrite (Hrec s) by lia. rewrite Hsm by lia.
    destruct (k s); try reflexivity. cbn [conv].
    destruct (cmatch src c s) eqn:Ec; [apply cmatch_lt in Ec; lia|reflexivity].
  - cbn [min_expand star_l]. fold (min_expand pat src rec (S n)). rewrite (Hrec s) by lia. rewrite Hsm by lia.
    destruct (k s); try reflexivity. cbn [conv].
    destruct (cmatch src c s) eqn:Ec; [|reflexivity].
    pose proof (cmatch_lt src _ _ Ec). apply IH; [lia|lia|intros; apply Hrec; lia].
Qed.
End Loops.

(* ---------- pattern text ---------- *)
(* the text txt stands in pat at offset p *)
Definition occurs (pat : bytes) (p : Z) (txt : bytes) : Prop :=
  0 <= p /\ forall i, 0 <= i < len txt -> pget pat (p + i) = pget txt i.

(* pat from offset p on is exactly txt (a NUL-terminated C string: 0 beyond the end) *)
Definition suffix_is (pat : bytes) (p : Z) (txt : bytes) : Prop :=
  0 <= p /\ forall i, 0 <= i -> pget pat (p + i) = pget txt i.

Lemma pget_beyond (t : bytes) i : len t <= i -> pget t i = 0.
Proof.
  intros H. unfold pget, zth. destruct (i <? 0); [reflexivity|].
  destruct (nth_error t (Z.to_nat i)) eqn:N; [|reflexivity].
  assert (Z.to_nat i < length t)%nat by (apply nth_error_Some; congruence). unfold len in H. lia.
Qed.

Lemma pget_app1 (a b : bytes) i : i < len a -> pget (a ++ b) i = pget a i.
Proof. intros H. unfold pget. rewrite zth_app1 by assumption. reflexivity. Qed.
Lemma pget_app2 (a b : bytes) i : len a <= i -> pget (a ++ b) i = pget b (i - len a).
Proof. intros H. unfold pget. rewrite zth_app2 by assumption. reflexivity. Qed.

Lemma suffix_split pat p a b :
  suffix_is pat p (a ++ b) -> occurs pat p a /\ suffix_is pat (p + len a) b.
Proof.
  intros [Hp H]. pose proof (len_nonneg a). split; split; try lia.
  - intros i Hi. rewrite H by lia. apply pget_app1. lia.
  - intros i Hi. replace (p + len a + i) with (p + (len a + i)) by lia. rewrite H by lia.
    rewrite pget_app2 by lia. f_equal. lia.
Qed.

Definition head_ok (txt : bytes) : Prop :=
  let h := pget txt 0 in
  h <> 40 /\ h <> 41 /\
  (h = 37 -> let d := pget txt 1 in 1 < len txt /\ d <> 98 /\ d <> 102 /\ c_isdigit d = false).

(* txt is how the class c is written, and lstrlib reads it back as c *)
Definition class_repr (c : cls) (txt : bytes) : Prop :=
  0 < len txt /\ Forall (fun b => 0 < b < 256) txt /\ head_ok txt /\
  forall pat p, occurs pat p txt ->
    classEnd pat p = Some (p + len txt) /\
    forall src s, is_bytes src = true -> 0 <= s ->
      singlematch pat src s p (p + len txt) = cmatch src c s.

Lemma pget_bget_in (src : bytes) s : 0 <= s < len src -> pget src s = bget src s.
Proof.
  intros H. destruct (zth_in_range src s H) as [x Hx]. unfold pget, bget. rewrite Hx. reflexivity.
Qed.

Lemma is_bytes_get (src : bytes) s : is_bytes src = true -> 0 <= s < len src -> 0 <= bget src s < 256.
Proof.
  intros Hb H. destruct (zth_in_range src s H) as [x Hx]. unfold bget. rewrite Hx.
  unfold is_bytes in Hb. rewrite forallb_forall in Hb.
  specialize (Hb x (zth_In _ _ _ Hx)). unfold is_byte in Hb. lia.
Qed.

Lemma repr_dot : class_repr CDot [46].
Proof.
  split; [reflexivity|]. split; [repeat constructor; lia|]. split.
  { unfold head_ok. cbn. repeat split; try lia. }
  intros pat p [Hp Ho]. pose proof (Ho 0 ltac:(cbn; lia)) as H0. rewrite Z.add_0_r in H0. cbn in H0.
  split.
  - unfold classEnd, Pa. rewrite H0. cbn. reflexivity.
  - intros src s Hb Hs. unfold singlematch, cmatch, Pa. rewrite H0. cbn [cls_matches].
    destruct (s <? len src); reflexivity.
Qed.

Lemma repr_char ch :
  0 < ch < 256 -> ch <> 37 -> ch <> 40 -> ch <> 41 -> ch <> 46 -> ch <> 91 ->
  class_repr (CChar ch) [ch].
Proof.
  intros Hr H37 H40 H41 H46 H91.
  split; [reflexivity|]. split; [repeat constructor; lia|]. split.
  { unfold head_ok. cbn. repeat split; try lia. }
  intros pat p [Hp Ho]. pose proof (Ho 0 ltac:(cbn; lia)) as H0. rewrite Z.add_0_r in H0. cbn in H0.
  split.
  - unfold classEnd, Pa. rewrite H0.
    destruct (ch =? 37) eqn:E1; [lia|]. destruct (ch =? 91) eqn:E2; [lia|]. reflexivity.
  - intros src s Hb Hs. unfold singlematch, cmatch, Pa, Su. rewrite H0. cbn [cls_matches].
    destruct (s <? len src) eqn:El; [|reflexivity].
    destruct (ch =? 46) eqn:E1; [lia|]. destruct (ch =? 37) eqn:E2; [lia|]. destruct (ch =? 91) eqn:E3; [lia|].
    rewrite pget_bget_in by lia. reflexivity.
Qed.

Lemma repr_single x :
  0 < x < 256 -> x <> 98 -> x <> 102 -> c_isdigit x = false ->
  class_repr (CSingle x) [37; x].
Proof.
  intros Hr H98 H102 Hd.
  split; [reflexivity|]. split; [repeat constructor; lia|]. split.
  { unfold head_ok. cbn. repeat split; try lia; try assumption. }
  intros pat p [Hp Ho]. pose proof (Ho 0 ltac:(cbn; lia)) as H0. rewrite Z.add_0_r in H0. cbn in H0.
  pose proof (Ho 1 ltac:(cbn; lia)) as H1. change (pget [37; x] 1) with x in H1.
  split.
  - unfold classEnd, Pa. rewrite H0, H1. cbn [Z.eqb Pos.eqb].
    destruct (x =? 0) eqn:E; [lia|]. change (len [37; x]) with 2. f_equal. lia.
  - intros src s Hb Hs. unfold singlematch, cmatch, Pa, Su. rewrite H0, H1. cbn [cls_matches].
    destruct (s <? len src) eqn:El; [|reflexivity]. cbn [Z.eqb Pos.eqb andb].
    rewrite pget_bget_in by lia.
    symmetry. apply class_agree_lemma; [lia|]. apply is_bytes_get; [assumption|lia].
Qed.

(* ---------- %b: lstrlib's matchbalance loop = pm.go's opBrace loop ---------- *)
Lemma balance_brace (src : bytes) b e : forall n s cont,
  0 <= s + 1 -> 1 <= cont -> (b = e -> cont = 1) ->
  balance_loop src n s b e cont = brace_loop src n (s + 1) cont b e.
Proof.
  induction n as [|n IH]; intros s cont Hs Hc Hbe; cbn [balance_loop brace_loop]; [reflexivity|].
  destruct (s + 1 <? len src) eqn:El; [|reflexivity].
  unfold Su. rewrite pget_bget_in by lia.
  destruct (bget src (s + 1) =? e) eqn:Ee.
  - destruct (cont - 1 =? 0) eqn:E0; [reflexivity|].
    destruct (bget src (s + 1) =? b) eqn:Eb.
    + assert (b = e) by lia. specialize (Hbe H). lia.
    + apply IH; lia.
  - destruct (cont =? 0) eqn:E0; [lia|].
    destruct (bget src (s + 1) =? b) eqn:Eb; apply IH; try lia.
Qed.

Lemma brace_loop_S (src : bytes) b e n sp cnt :
  brace_loop src (S n) sp cnt b e =
  if sp <? len src then
    if (if bget src sp =? e then cnt - 1 else cnt) =? 0 then Some (sp + 1)
    else brace_loop src n (sp + 1)
           (if bget src sp =? b then (if bget src sp =? e then cnt - 1 else cnt) + 1
            else (if bget src sp =? e then cnt - 1 else cnt)) b e
  else None.
Proof. reflexivity. Qed.

Lemma brace_loop_more (src : bytes) b e : forall n sp cnt,
  len src - sp <= Z.of_nat n -> brace_loop src (S n) sp cnt b e = brace_loop src n sp cnt b e.
Proof.
  induction n as [|n IH]; intros sp cnt Hn.
  - cbn [brace_loop]. destruct (sp <? len src) eqn:E; [lia|reflexivity].
  - rewrite (brace_loop_S src b e (S n) sp cnt). rewrite (brace_loop_S src b e n sp cnt).
    destruct (sp <? len src); [|reflexivity].
    destruct ((if bget src sp =? e then cnt - 1 else cnt) =? 0); [reflexivity|].
    apply IH. lia.
Qed.

Lemma unf_idx_zth : forall cs i x, In x (unf_idx cs i) -> exists a, zth cs (x - i) = Some (a, CAP_UNF).
Proof.
  induction cs as [|[a l] r IH]; intros i x H; cbn [unf_idx] in H; [contradiction|].
  apply in_app_or in H as [H|H].
  - destruct (l =? CAP_UNF) eqn:E; [|contradiction]. destruct H as [<-|[]].
    rewrite Z.sub_diag. exists a. assert (l = CAP_UNF) by lia. subst. reflexivity.
  - pose proof (unf_idx_ge _ _ _ H). destruct (IH _ _ H) as [a' Ha']. exists a'.
    rewrite zth_cons by lia. replace (x - i - 1) with (x - (i + 1)) by lia. exact Ha'.
Qed.

Lemma stk_repr_zth cs j stk : stk_repr cs (j :: stk) -> exists a, zth cs j = Some (a, CAP_UNF).
Proof.
  unfold stk_repr. intros H.
  assert (Hin : In j (unf_idx cs 0)).
  { apply in_rev. rewrite <- H. left. reflexivity. }
  destruct (unf_idx_zth _ _ _ Hin) as [a Ha]. rewrite Z.sub_0_r in Ha. eauto.
Qed.

(* ---------- items and their text ---------- *)
Definition quant (b : Z) : bool := (b =? 42) || (b =? 43) || (b =? 45) || (b =? 63).

Inductive prints (tailtxt : bytes) : list fitem -> bytes -> Prop :=
| pr_nil : prints tailtxt [] tailtxt
| pr_single c txt r rt :
    class_repr c txt -> prints tailtxt r rt -> quant (pget rt 0) = false ->
    (pget txt 0 = 36 -> pget (txt ++ rt) 1 <> 0) ->
    prints tailtxt (FSingle c :: r) (txt ++ rt)
| pr_repeat ty c txt r rt :
    quant ty = true -> class_repr c txt -> prints tailtxt r rt ->
    prints tailtxt (FRepeat ty c :: r) (txt ++ ty :: rt)
| pr_poscap r rt : prints tailtxt r rt -> prints tailtxt (FPosCap :: r) (40 :: 41 :: rt)
| pr_open r rt : prints tailtxt r rt -> pget rt 0 <> 41 -> prints tailtxt (FOpen :: r) (40 :: rt)
| pr_close r rt : prints tailtxt r rt -> prints tailtxt (FClose :: r) (41 :: rt)
| pr_number n r rt : 1 <= n <= 9 -> prints tailtxt r rt -> prints tailtxt (FNumber n :: r) (37 :: (48 + n) :: rt)
| pr_brace b e r rt : 0 < b -> 0 < e -> prints tailtxt r rt ->
    prints tailtxt (FBrace b e :: r) (37 :: 98 :: b :: e :: rt).

Definition tail_text (tail : bool) : bytes := if tail then [36] else [].

Lemma suffix_cons pat p x t : suffix_is pat p (x :: t) -> pget pat p = x /\ suffix_is pat (p + 1) t.
Proof.
  intros [Hp H]. split.
  - specialize (H 0 ltac:(lia)). rewrite Z.add_0_r in H. exact H.
  - split; [lia|]. intros i Hi. replace (p + 1 + i) with (p + (i + 1)) by lia. rewrite H by lia.
    unfold pget. rewrite zth_cons by lia. replace (i + 1 - 1) with i by lia. reflexivity.
Qed.

Lemma suffix_nil pat p : suffix_is pat p [] -> pget pat p = 0.
Proof. intros [Hp H]. specialize (H 0 ltac:(lia)). rewrite Z.add_0_r in H. exact H. Qed.

Lemma suffix_get pat p t i : suffix_is pat p t -> 0 <= i -> pget pat (p + i) = pget t i.
Proof. intros [Hp H] Hi. apply H. exact Hi. Qed.

Section RefSide.
Variable pat src : bytes.
Variable tail : bool.
Hypothesis Hsrc : is_bytes src = true.

Lemma pget_txt_pos txt i : Forall (fun b => 0 < b < 256) txt -> 0 <= i < len txt -> 0 < pget txt i < 256.
Proof.
  intros F Hi. destruct (zth_in_range txt i Hi) as [x Hx]. unfold pget. rewrite Hx.
  rewrite Forall_forall in F. apply F. eapply zth_In; eauto.
Qed.

(* a class at p followed by anything that is not its quantifier goes through lstrlib's default case *)
Lemma body_default rec c txt p s cs rest :
  class_repr c txt -> suffix_is pat p (txt ++ rest) ->
  (pget txt 0 = 36 -> pget (txt ++ rest) 1 <> 0) ->
  match_body pat src rec s p cs = match_default pat src rec s p cs.
Proof.
  intros (Hlen & Hpos & Hhead & _) Hsuf Hd.
  pose proof (suffix_get _ _ _ 0 Hsuf ltac:(lia)) as H0. rewrite Z.add_0_r in H0.
  rewrite pget_app1 in H0 by lia.
  pose proof (pget_txt_pos txt 0 Hpos ltac:(lia)) as Hh.
  destruct Hhead as (H40 & H41 & H37).
  unfold match_body, Pa. rewrite H0.
  destruct (pget txt 0 =? 0) eqn:E0; [lia|]. destruct (pget txt 0 =? 40) eqn:E40; [lia|].
  destruct (pget txt 0 =? 41) eqn:E41; [lia|].
  destruct (pget txt 0 =? 37) eqn:E37.
  - assert (Hh37 : pget txt 0 = 37) by lia. destruct (H37 Hh37) as (Hl1 & D98 & D102 & Ddig).
    pose proof (suffix_get _ _ _ 1 Hsuf ltac:(lia)) as H1. rewrite pget_app1 in H1 by lia. rewrite H1.
    destruct (pget txt 1 =? 98) eqn:E98; [lia|]. destruct (pget txt 1 =? 102) eqn:E102; [lia|].
    rewrite Ddig. reflexivity.
  - destruct (pget txt 0 =? 36) eqn:E36; [|reflexivity]. cbn [andb].
    pose proof (suffix_get _ _ _ 1 Hsuf ltac:(lia)) as H1. rewrite H1.
    destruct (pget (txt ++ rest) 1 =? 0) eqn:Ez; [|reflexivity]. exfalso. apply Hd; lia.
Qed.

Lemma ref_flat : forall items text,
  prints (tail_text tail) items text ->
  forall fuel p s cs stk,
    suffix_is pat p text -> (length items + 1 <= fuel)%nat ->
    stk_repr cs stk -> bounded src cs s -> 0 <= s <= len src ->
    len cs + ncap_items items <= MAXCAPTURES ->
    do_match pat src fuel s p cs = conv (fm src tail items s cs stk).
Proof.
  intros items text Hpr. induction Hpr; intros fuel p s cs stk Hsuf Hfuel Hstk Hbd Hs Hcap;
    (destruct fuel as [|f]; [cbn [length] in Hfuel; lia|]); cbn [do_match length] in *.
  - (* end of the pattern *)
    cbn [fm]. unfold match_body, Pa, tail_text in *. destruct tail.
    + apply suffix_cons in Hsuf as [H0 Hsuf]. apply suffix_nil in Hsuf. rewrite H0, Hsuf. cbn.
      destruct (s =? len src) eqn:E1; destruct (s >=? len src) eqn:E2; try reflexivity; lia.
    + apply suffix_nil in Hsuf. rewrite Hsuf. reflexivity.
  - (* FSingle *)
    rewrite (body_default _ c txt p s cs rt H Hsuf H1).
    apply suffix_split in Hsuf as [Hocc Hsuf].
    destruct H as (Hlen & Hpos & Hhead & Hcls). destruct (Hcls pat p Hocc) as [Hend Hsm].
    unfold match_default. rewrite Hend. rewrite (Hsm src s Hsrc ltac:(lia)).
    pose proof (suffix_get _ _ _ 0 Hsuf ltac:(lia)) as He. rewrite Z.add_0_r in He. unfold Pa. rewrite He.
    unfold quant in H0.
    destruct (pget rt 0 =? 63) eqn:E63; [lia|]. destruct (pget rt 0 =? 42) eqn:E42; [lia|].
    destruct (pget rt 0 =? 43) eqn:E43; [lia|]. destruct (pget rt 0 =? 45) eqn:E45; [lia|].
    cbn [fm ncap_items] in *. destruct (cmatch src c s) eqn:Ec; [|reflexivity].
    pose proof (cmatch_lt src _ _ Ec).
    apply IHHpr; try assumption; try lia. apply (bounded_mono src cs s); [lia|assumption].
  - (* FRepeat *)
    assert (Hd : pget txt 0 = 36 -> pget (txt ++ ty :: rt) 1 <> 0).
    { intros _. destruct H0 as (Hlen & Hpos & _). destruct (Z_lt_le_dec 1 (len txt)).
      - rewrite pget_app1 by lia. pose proof (pget_txt_pos txt 1 Hpos ltac:(lia)). lia.
      - rewrite pget_app2 by lia. replace (1 - len txt) with 0 by lia. cbn. unfold quant in H. lia. }
    rewrite (body_default _ c txt p s cs (ty :: rt) H0 Hsuf Hd).
    apply suffix_split in Hsuf as [Hocc Hsuf]. apply suffix_cons in Hsuf as [Hty Hsuf].
    destruct H0 as (Hlen & Hpos & Hhead & Hcls). destruct (Hcls pat p Hocc) as [Hend Hsm].
    unfold match_default. rewrite Hend. unfold Pa. rewrite Hty.
    set (ep := p + len txt) in *.
    set (k := fun s' => fm src tail r s' cs stk).
    assert (Hrec : forall s', s <= s' <= len src -> do_match pat src f s' (ep + 1) cs = conv (k s')).
    { intros s' Hs'. apply IHHpr; try assumption; try lia. apply (bounded_mono src cs s); [lia|assumption]. }
    assert (Hsm' : forall s', 0 <= s' -> singlematch pat src s' p ep = cmatch src c s').
    { intros s' Hs'. apply Hsm; assumption. }
    cbn [fm ncap_items] in *. fold k. unfold quant in H.
    destruct (ty =? 63) eqn:E63.
    { destruct (ty =? 42) eqn:E42; [lia|]. destruct (ty =? 43) eqn:E43; [lia|].
      destruct (ty =? 45) eqn:E45; [lia|].
      rewrite Hsm' by lia. destruct (cmatch src c s) eqn:Ec.
      - pose proof (cmatch_lt src _ _ Ec). rewrite !Hrec by lia.
        change (fm src tail r (s + 1) cs stk) with (k (s + 1)). change (fm src tail r s cs stk) with (k s).
        destruct (k (s + 1)); reflexivity.
      - rewrite Hrec by lia. reflexivity. }
    destruct (ty =? 42) eqn:E42.
    { unfold max_expand. fold (subj_left src s).
      apply (max_expand_star pat src (do_match pat src f) k c p ep cs Hsm'); [lia|exact Hrec]. }
    destruct (ty =? 43) eqn:E43.
    { rewrite Hsm' by lia. destruct (cmatch src c s) eqn:Ec; [|reflexivity].
      pose proof (cmatch_lt src _ _ Ec).
      unfold max_expand. fold (subj_left src (s + 1)).
      apply (max_expand_star pat src (do_match pat src f) k c p ep cs Hsm'); [lia|].
      intros s' Hs'. apply Hrec. lia. }
    destruct (ty =? 45) eqn:E45; [|lia].
    replace (Z.to_nat (len src - s) + 1)%nat with (S (subj_left src s)) by (unfold subj_left; lia).
    apply (min_expand_star pat src (do_match pat src f) k c p ep cs Hsm'); [lia|unfold subj_left; lia|exact Hrec].
  - (* FPosCap *)
    apply suffix_cons in Hsuf as [H0 Hsuf]. apply suffix_cons in Hsuf as [H1 Hsuf].
    unfold match_body, Pa. rewrite H0, H1. cbn [Z.eqb Pos.eqb].
    unfold start_capture. cbn [fm ncap_items] in *. pose proof (ncap_items_nonneg r).
    destruct (len cs >=? MAXCAPTURES) eqn:Em; [lia|].
    replace (p + 2) with (p + 1 + 1) by lia.
    apply IHHpr; try assumption; try lia.
    + apply stk_repr_pos. exact Hstk.
    + apply bounded_snoc; [exact Hbd|]. unfold cap_ok. split; [lia|]. split; [auto|]. unfold CAP_POS, CAP_UNF; lia.
    + rewrite len_app. change (len [(s, CAP_POS)]) with 1. lia.
  - (* FOpen *)
    apply suffix_cons in Hsuf as [H0 Hsuf].
    pose proof (suffix_get _ _ _ 0 Hsuf ltac:(lia)) as H1. rewrite Z.add_0_r in H1.
    unfold match_body, Pa. rewrite H0, H1. cbn [Z.eqb Pos.eqb].
    destruct (pget rt 0 =? 41) eqn:E41; [lia|].
    unfold start_capture. cbn [fm ncap_items] in *. pose proof (ncap_items_nonneg r).
    destruct (len cs >=? MAXCAPTURES) eqn:Em; [lia|].
    apply IHHpr; try assumption; try lia.
    + apply stk_repr_open. exact Hstk.
    + apply bounded_snoc; [exact Hbd|]. unfold cap_ok. split; [lia|]. split; [auto|]. lia.
    + rewrite len_app. change (len [(s, CAP_UNF)]) with 1. lia.
  - (* FClose *)
    apply suffix_cons in Hsuf as [H0 Hsuf].
    unfold match_body, Pa. rewrite H0. cbn [Z.eqb Pos.eqb].
    unfold end_capture. cbn [fm ncap_items] in *.
    destruct stk as [|j stk'].
    + rewrite (stk_repr_nil _ Hstk). reflexivity.
    + rewrite (stk_repr_head _ _ _ Hstk). destruct (stk_repr_zth _ _ _ Hstk) as [i Hj]. rewrite Hj.
      pose proof (bounded_zth src _ _ _ _ Hbd Hj) as (C1 & C2 & C3). specialize (C3 eq_refl).
      apply IHHpr; try assumption; try lia.
      * apply (stk_repr_close cs stk' j); [exact Hstk|unfold CAP_UNF; lia].
      * apply bounded_set_len; [assumption|assumption|lia].
      * rewrite len_set_len. exact Hcap.
  - (* FNumber *)
    apply suffix_cons in Hsuf as [H0 Hsuf]. apply suffix_cons in Hsuf as [H1 Hsuf].
    unfold match_body, Pa. rewrite H0, H1. cbn [Z.eqb Pos.eqb].
    destruct (48 + n =? 98) eqn:E98; [lia|]. destruct (48 + n =? 102) eqn:E102; [lia|].
    assert (Hdig : c_isdigit (48 + n) = true) by (unfold c_isdigit, inr; lia). rewrite Hdig.
    unfold match_capture. cbn [fm ncap_items] in *. unfold backref.
    replace (48 + n - 49) with (n - 1) by lia.
    destruct (n <? 1) eqn:En; [lia|].
    destruct (n - 1 <? 0) eqn:En0; [lia|]. cbn [orb].
    destruct (n - 1 >=? len cs) eqn:Eg.
    { assert (Hz : zth cs (n - 1) = None).
      { unfold zth. destruct (n - 1 <? 0); [reflexivity|]. apply nth_error_None. unfold len in *. lia. }
      rewrite Hz. reflexivity. }
    destruct (zth cs (n - 1)) as [[i l]|] eqn:Hz; [|reflexivity].
    destruct (l =? CAP_UNF) eqn:Eu; [reflexivity|].
    pose proof (bounded_zth src _ _ _ _ Hbd Hz) as (C1 & C2 & C3).
    destruct (l =? CAP_POS) eqn:Ep.
    { assert (l = CAP_POS) by lia. subst l. cbn. reflexivity. }
    assert (Hl : 0 <= l /\ i + l <= len src) by (unfold CAP_POS, CAP_UNF in *; lia).
    destruct (0 <=? l) eqn:E0; [|lia]. cbn [andb].
    replace (len src - s >=? l) with (s + l <=? len src) by lia.
    destruct ((s + l <=? len src) && beqb (slice src i (i + l)) (slice src s (s + l))) eqn:E3; [|reflexivity].
    apply andb_true_iff in E3 as [E3 _].
    replace (p + 2) with (p + 1 + 1) by lia.
    apply IHHpr; try assumption; try lia. apply (bounded_mono src cs s); [lia|assumption].
  - (* FBrace *)
    apply suffix_cons in Hsuf as [H0' Hsuf]. apply suffix_cons in Hsuf as [H1' Hsuf].
    apply suffix_cons in Hsuf as [H2' Hsuf]. apply suffix_cons in Hsuf as [H3' Hsuf].
    unfold match_body, Pa. rewrite H0', H1'. cbn [Z.eqb Pos.eqb].
    replace (p + 2) with (p + 1 + 1) by lia. replace (p + 3) with (p + 1 + 1 + 1) by lia.
    unfold Pa. rewrite H2', H3'.
    destruct ((b =? 0) || (e =? 0)) eqn:Ez; [lia|].
    unfold matchbalance, Pa, Su. rewrite H2', H3'. cbn [fm ncap_items] in *.
    destruct (s <? len src) eqn:El.
    + rewrite pget_bget_in by lia. cbn [andb].
      destruct (s >=? len src) eqn:Eg; [lia|]. cbn [orb].
      destruct (bget src s =? b) eqn:Eb; cbn [negb]; [|reflexivity].
      rewrite balance_brace by lia.
      replace (Z.to_nat (len src - s) + 1)%nat with (S (Z.to_nat (len src - s))) by lia.
      rewrite brace_loop_more by lia.
      destruct (brace_loop src (Z.to_nat (len src - s)) (s + 1) 1 b e) as [s'|] eqn:Ebl; [|reflexivity].
      apply brace_loop_bound in Ebl.
      replace (p + 4) with (p + 1 + 1 + 1 + 1) by lia.
      apply IHHpr; try assumption; try lia. apply (bounded_mono src cs s); [lia|assumption].
    + cbn [andb]. destruct (s >=? len src) eqn:Eg; [|lia]. reflexivity.
Qed.
End RefSide.
