(* C14 — IMPLEMENTATION MODEL: transcription of MatchData and recursiveVM of /repo/pm/pm.go.
   MatchData.captures is a list Z holding the uint32 words (pos<<1 | posflag); 32-bit
   wrap-around is not modelled (subjects shorter than 2^31).  The capture slice is mutated in
   place in Go and survives a failing branch, so a failing result carries it too.
   No proofs in this file. *)
From GL Require Import Common.Bytes Pm.Class Pm.GoParse Pm.GoCompile.

Definition maxRecursionLevel : Z := 1000000.

Inductive vres :=
| VRet (ok : bool) (sp : Z) (m : list Z)
| VErr            (* panic(pm.Error): invalid capture index / pattern too complex *)
| VPanic          (* Go run-time panic: index or slice bounds *)
| VFuel.

Definition extend (m : list Z) (n : Z) : list Z :=      (* for n >= len(m) { append 0 } *)
  m ++ repeat 0 (Z.to_nat (n - len m)).

Fixpoint upd (m : list Z) (i v : Z) : list Z :=
  match m with
  | [] => []
  | x :: r => if i =? 0 then v :: r else x :: upd r (i - 1) v
  end.

Definition mget (m : list Z) (i : Z) : Z := match zth m i with Some v => v | None => 0 end.

(* setCapture: returns (old value, new slice) *)
Definition setCapture (m : list Z) (s pos : Z) : Z * list Z :=
  let m1 := extend m (s + 1) in
  (mget m1 s, upd m1 s (2 * pos)).

Definition addPosCapture (m : list Z) (s pos : Z) : list Z :=
  let m1 := extend m (s + 2) in
  upd (upd m1 s (2 * pos + 1)) (s + 1) (2 * pos + 1).

Definition isPosCapture (m : list Z) (i : Z) : bool := Z.odd (mget m i).
Definition capture (m : list Z) (i : Z) : Z := mget m i / 2.

Section VM.
Variable src : bytes.
Variable insts : list inst.

(* the for-loop of opBrace: Some sp' = position after the closing char *)
Fixpoint brace_loop (n : nat) (sp count b e : Z) : option Z :=
  match n with
  | O => None
  | S k =>
      if sp <? len src then
        let count := if bget src sp =? e then count - 1 else count in
        if count =? 0 then Some (sp + 1)
        else
          let count := if bget src sp =? b then count + 1 else count in
          brace_loop k (sp + 1) count b e
      else None
  end.

(* the comparison loop of opNumber *)
Fixpoint number_loop (cap : bytes) (i sp : Z) : bool :=
  match cap with
  | [] => true
  | c :: r => if (i + sp >=? len src) || negb (c =? bget src (i + sp)) then false
              else number_loop r (i + 1) sp
  end.

(* vm_run = recursiveVM from the label `redo`; a Go-level recursive call first does
   recLevel++ and the maxRecursionLevel test (vm_call below, inlined at the two call sites) *)
Fixpoint vm_run (fuel : nat) (pc sp rl : Z) (m : list Z) : vres :=
  match fuel with
  | O => VFuel
  | S f =>
      let call (pc sp : Z) (m : list Z) : vres :=
        if rl + 1 >? maxRecursionLevel then VErr else vm_run f pc sp (rl + 1) m in
      match zth insts pc with
      | None => VPanic
      | Some i =>
          match i with
          | IChar c =>
              if (sp >=? len src) || negb (cls_matches c (bget src sp)) then VRet false sp m
              else vm_run f (pc + 1) (sp + 1) rl m
          | IMatch => VRet true sp m
          | ITailMatch => VRet (sp >=? len src) sp m
          | IJmp t => vm_run f t sp rl m
          | ISplit a b =>
              match call a sp m with
              | VRet true nsp m' => VRet true nsp m'
              | VRet false _ m' => vm_run f b sp rl m'
              | r => r
              end
          | ISave n =>
              let '(old, m1) := setCapture m n sp in
              match call (pc + 1) sp m1 with
              | VRet true nsp m' => VRet true nsp m'
              | VRet false _ m' => VRet false sp (upd m' n old)
              | r => r
              end
          | IPSave n => vm_run f (pc + 1) sp rl (addPosCapture m n (sp + 1))
          | IBrace b e =>
              if (sp >=? len src) || negb (bget src sp =? b) then VRet false sp m
              else match brace_loop (Z.to_nat (len src - sp)) (sp + 1) 1 b e with
                   | Some sp' => vm_run f (pc + 1) sp' rl m
                   | None => VRet false (len src) m
                   end
          | INumber n =>
              let idx := n * 2 in
              if idx >=? len m - 1 then VErr
              else if isPosCapture m idx then VRet false sp m
              else
                let lo := capture m idx in
                let hi := capture m (idx + 1) in
                if (lo >? hi) || (hi >? len src) then VPanic         (* src[lo:hi] *)
                else
                  let cap := slice src lo hi in
                  if number_loop cap 0 sp then vm_run f (pc + 1) (sp + len cap) rl m
                  else VRet false sp m
          end
      end
  end.

(* recursiveVM(src, insts, pc, sp, 0) as Find calls it: fresh MatchData, recLevel 0 -> 1 *)
Definition goVM (fuel : nat) (pc sp : Z) : vres := vm_run fuel pc sp 1 [].
End VM.

(* enough for every terminating run: each redo step either consumes fuel for one instruction;
   loops consume a subject byte per round (GoFacts) *)
Definition vm_fuel (src : bytes) (insts : list inst) : nat :=
  (length insts + 2) * (length src + 2) * 4 + 16.
