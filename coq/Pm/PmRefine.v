(* C14 — the refinement theorem: gopher-lua's compiled program run by its recursive VM agrees
   with lstrlib's matcher run on the text of the pattern. Composition of VMFacts.goVM_flat
   (VM = flat semantics) and RefFacts.ref_flat (lstrlib on the text = flat semantics). *)
From GL Require Import Common.Bytes Common.BytesFacts Pm.Class Pm.PmTypes Pm.RefMatch
     Pm.GoParse Pm.GoCompile Pm.GoVM Pm.Flat Pm.ClassFacts Pm.CompileFacts Pm.VMFacts Pm.RefFacts.
From Coq Require Import Lia.

Lemma prints_len tt : forall items text, prints tt items text -> Z.of_nat (length items) <= len text.
Proof.
  intros items text H. induction H; cbn [length]; rewrite ?len_app, ?len_cons in *;
    try (pose proof (len_nonneg tt)); try lia.
  - destruct H as (Hl & _). lia.
  - destruct H0 as (Hl & _). lia.
Qed.

(* the pattern text of a parsed pattern: optional '^', the items, optional '$' *)
Definition head_text (head : bool) : bytes := if head then [94] else [].

Lemma suffix_is_app pre text : suffix_is (pre ++ text) (len pre) text.
Proof.
  pose proof (len_nonneg pre). split; [lia|]. intros i Hi.
  rewrite pget_app2 by lia. f_equal. lia.
Qed.

Definition vm_ref_rel (src : bytes) (sp0 : Z) (ncap : Z) (v : vres) (r : rres) : Prop :=
  match r with
  | RFail => exists sp' m', v = VRet false sp' m'
  | RMatch e cs =>
      exists m', v = VRet true e m' /\ agree sp0 m' cs /\ mget m' 1 = 2 * e /\
                 len m' = 2 + 2 * ncap /\ len cs = ncap /\
                 (forall j c, zth cs j = Some c -> snd c <> CAP_UNF) /\ sp0 <= e <= len src
  | RErr => True
  | RUnsup => False
  | RFuel => False
  end.

Lemma vm_refines_ref_lemma (p : seqpat) (text src : bytes) (sp0 : Z) (fuel : nat) :
  prints (tail_text (must_tail p)) (flatten_seq (patterns p)) text ->
  is_bytes src = true ->
  ncaps_seq (patterns p) <= MAXCAPTURES ->
  0 <= sp0 <= len src ->
  1 + Z.of_nat fuel <= maxRecursionLevel ->
  goVM src (goCompile p) fuel 0 sp0 <> VFuel ->
  let pat := head_text (must_head p) ++ text in
  vm_ref_rel src sp0 (ncaps_seq (patterns p))
             (goVM src (goCompile p) fuel 0 sp0)
             (ref_match pat src sp0 (len (head_text (must_head p)))).
Proof.
  intros Hpr Hsrc Hcap Hsp Hrl Hnf pat.
  pose proof (goVM_flat p src sp0 fuel Hsp Hrl Hnf) as Hvm.
  unfold ref_match.
  assert (Hfuel : (length (flatten_seq (patterns p)) + 1 <= match_fuel pat)%nat).
  { unfold match_fuel, pat. rewrite len_app. pose proof (prints_len _ _ _ Hpr).
    pose proof (len_nonneg (head_text (must_head p))). lia. }
  rewrite (ref_flat pat src (must_tail p) Hsrc _ _ Hpr (match_fuel pat) (len (head_text (must_head p))) sp0 [] []).
  - destruct (fm src (must_tail p) (flatten_seq (patterns p)) sp0 [] []) as [|e cs|]; cbn [conv vm_ref_rel].
    + exact Hvm.
    + destruct Hvm as (m' & Hv & Ha & H1 & Hl & Hlc & Hcl & He). exists m'.
      split; [exact Hv|]. split; [exact Ha|]. split; [exact H1|]. split; [exact Hl|]. split; [exact Hlc|]. split; [exact Hcl|exact He].
    + exact I.
  - apply suffix_is_app.
  - exact Hfuel.
  - reflexivity.
  - constructor.
  - exact Hsp.
  - change (len (@nil (Z * Z))) with 0. rewrite ncap_items_flatten_seq. lia.
Qed.
