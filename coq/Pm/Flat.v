(* C14 — the bridge between the two models used by the refinement proof (no proofs here):
   the pattern tree of pm.go flattened to a list of items, a structurally recursive backtracking
   semantics `fm` of such a list written in the style of lstrlib (captures as (init,len) pairs),
   and `emit`, compilePattern restated on the flat list with absolute addresses. *)
From GL Require Import Common.Bytes Pm.Class Pm.PmTypes Pm.RefMatch Pm.GoParse Pm.GoCompile Pm.GoVM.

Inductive fitem :=
| FSingle (c : cls)
| FRepeat (ty : Z) (c : cls)
| FPosCap
| FOpen
| FClose
| FNumber (n : Z)
| FBrace (b e : Z).

Fixpoint flatten (p : pat) : list fitem :=
  match p with
  | PSingle c => [FSingle c]
  | PRepeat ty c => [FRepeat ty c]
  | PPosCap => [FPosCap]
  | PCap l => FOpen :: (fix go (l : list pat) : list fitem :=
                          match l with [] => [] | x :: r => flatten x ++ go r end) l ++ [FClose]
  | PNumber n => [FNumber n]
  | PBrace b e => [FBrace b e]
  end.

Fixpoint flatten_seq (l : list pat) : list fitem :=
  match l with [] => [] | x :: r => flatten x ++ flatten_seq r end.

(* compilePattern on the flat list: pos = address of the next instruction, cap = ptr.capture,
   stk = slots of the captures still open (innermost first) *)
Definition emit_repeat (ty : Z) (c : cls) (pos : Z) : list inst :=
  if ty =? 42 then [ISplit (pos + 1) (pos + 3); IChar c; IJmp pos]
  else if ty =? 43 then [IChar c; ISplit pos (pos + 2)]
  else if ty =? 45 then [ISplit (pos + 3) (pos + 1); IChar c; IJmp pos]
  else if ty =? 63 then [ISplit (pos + 1) (pos + 2); IChar c]
  else [].

Fixpoint emit (items : list fitem) (pos cap : Z) (stk : list Z) : list inst :=
  match items with
  | [] => []
  | FSingle c :: r => IChar c :: emit r (pos + 1) cap stk
  | FRepeat ty c :: r => emit_repeat ty c pos ++ emit r (pos + len (emit_repeat ty c pos)) cap stk
  | FPosCap :: r => IPSave cap :: emit r (pos + 1) (cap + 2) stk
  | FOpen :: r => ISave cap :: emit r (pos + 1) (cap + 2) (cap :: stk)
  | FClose :: r => match stk with
                   | c0 :: stk' => ISave (c0 + 1) :: emit r (pos + 1) cap stk'
                   | [] => []
                   end
  | FNumber n :: r => INumber n :: emit r (pos + 1) cap stk
  | FBrace b e :: r => IBrace b e :: emit r (pos + 1) cap stk
  end.

(* ---- backtracking semantics of a flat item list ---- *)
Inductive fr := FFail | FMatch (e : Z) (cs : caps) | FBad.   (* FBad: invalid back-reference / unbalanced *)

Section FM.
Variable src : bytes.
Variable tail : bool.                  (* pattern ends with the `$` anchor *)

Definition cmatch (c : cls) (sp : Z) : bool :=
  (sp <? len src) && cls_matches c (bget src sp).

Section Loops.
Variable k : Z -> fr.                  (* the rest of the pattern, captures fixed *)
Variable c : cls.

Fixpoint star_g (n : nat) (sp : Z) : fr :=           (* greedy: as many as possible first *)
  match n with
  | O => k sp
  | S n' => if cmatch c sp
            then match star_g n' (sp + 1) with FFail => k sp | r => r end
            else k sp
  end.

Fixpoint star_l (n : nat) (sp : Z) : fr :=           (* lazy: as few as possible first *)
  match k sp with
  | FFail => match n with
             | O => FFail
             | S n' => if cmatch c sp then star_l n' (sp + 1) else FFail
             end
  | r => r
  end.
End Loops.

Definition subj_left (sp : Z) : nat := Z.to_nat (len src - sp).

(* back-reference n (1..9) against closed capture n-1 *)
Definition backref (n sp : Z) (cs : caps) : res (option Z) :=
  match (if (n <? 1) then None else zth cs (n - 1)) with
  | None => Err
  | Some (i, l) =>
      if l =? CAP_UNF then Err
      else if l =? CAP_POS then Ok None
      else if (sp + l <=? len src) && beqb (slice src i (i + l)) (slice src sp (sp + l))
           then Ok (Some (sp + l)) else Ok None
  end.

(* stk: indices of the captures still open, innermost first *)
Fixpoint fm (items : list fitem) (sp : Z) (cs : caps) (stk : list Z) : fr :=
  match items with
  | [] => if tail then (if sp >=? len src then FMatch sp cs else FFail) else FMatch sp cs
  | FSingle c :: r => if cmatch c sp then fm r (sp + 1) cs stk else FFail
  | FRepeat ty c :: r =>
      let k := fun sp' => fm r sp' cs stk in
      if ty =? 42 then star_g k c (subj_left sp) sp
      else if ty =? 43 then (if cmatch c sp then star_g k c (subj_left (sp + 1)) (sp + 1) else FFail)
      else if ty =? 45 then star_l k c (subj_left sp) sp
      else if ty =? 63 then
        (if cmatch c sp then match k (sp + 1) with FFail => k sp | x => x end else k sp)
      else k sp
  | FPosCap :: r => fm r sp (cs ++ [(sp, CAP_POS)]) stk
  | FOpen :: r => fm r sp (cs ++ [(sp, CAP_UNF)]) (len cs :: stk)
  | FClose :: r =>
      match stk with
      | j :: stk' =>
          match zth cs j with
          | Some (i, _) => fm r sp (set_len cs j (sp - i)) stk'
          | None => FBad
          end
      | [] => FBad
      end
  | FNumber n :: r =>
      match backref n sp cs with
      | Ok (Some sp') => fm r sp' cs stk
      | Ok None => FFail
      | _ => FBad
      end
  | FBrace b e :: r =>
      if (sp >=? len src) || negb (bget src sp =? b) then FFail
      else match brace_loop src (Z.to_nat (len src - sp)) (sp + 1) 1 b e with
           | Some sp' => fm r sp' cs stk
           | None => FFail
           end
  end.
End FM.
