(* C14 — Lua-level values and replacement arguments shared by the reference model
   (RefMatch.v) and the transcription of stringlib.go (Gsub.v). No proofs. *)
From GL Require Import Common.Bytes.

Inductive lval := VNil | VNum (z : Z) | VStr (b : bytes).

Definition lval_eqb (a b : lval) : bool :=
  match a, b with
  | VNil, VNil => true
  | VNum x, VNum y => x =? y
  | VStr x, VStr y => beqb x y
  | _, _ => false
  end.

(* a value produced by a replacement table or function: nil/false (keep the match), a string
   or number (already in string form), or anything else (table, true, function, userdata:
   "invalid replacement value") *)
Inductive rval := RNone | RSome (b : bytes) | RBad.

(* third argument of string.gsub.
   RStr: a string (or a number already converted to its string form);
   RTab: association list key -> value (absent keys are nil);
   RFn : the k-th call (0-based) returns the k-th element (beyond the list: nil). *)
Inductive repl :=
| RStr (r : bytes)
| RTab (t : list (lval * rval))
| RFn (rets : list rval).

Fixpoint tab_get (t : list (lval * rval)) (k : lval) : rval :=
  match t with
  | [] => RNone
  | (k', v) :: r => if lval_eqb k' k then v else tab_get r k
  end.

(* decimal rendering of a non-negative integer (what both lua_Number->string with "%.14g"
   and Go's fmt.Sprint give for the small integers that occur as positions) *)
Fixpoint dec_digits (fuel : nat) (n : Z) (acc : bytes) : bytes :=
  match fuel with
  | O => acc
  | S f => let acc' := (48 + n mod 10) :: acc in
           if n <? 10 then acc' else dec_digits f (n / 10) acc'
  end.
Definition dec_of_Z (n : Z) : bytes :=
  if n <? 0 then 45 :: dec_digits 40 (- n) [] else dec_digits 40 n [].

Definition lval_to_bytes (v : lval) : bytes :=
  match v with VNil => [] | VNum n => dec_of_Z n | VStr b => b end.

(* outcome of a library call.  Err = a Lua error raised by the library (bad pattern,
   invalid capture index, ...); Panic = a Go run-time panic (never produced by the reference);
   Fuel = the fuelled model ran out of fuel (excluded by hypotheses / never on supported
   inputs); Unsup = outside the modelled domain (%f). *)
Inductive res (A : Type) := Ok (a : A) | Err | Panic | Fuel | Unsup.
Arguments Ok {A} a.
Arguments Err {A}.
Arguments Panic {A}.
Arguments Fuel {A}.
Arguments Unsup {A}.

(* observable result of gsub: result string, count, and the argument lists the
   replacement function was called with (empty for string/table replacements) *)
Definition gsub_out := (bytes * Z * list (list lval))%type.
