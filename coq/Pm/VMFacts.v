(* C14 — the VM side of the refinement: running the compiled program of a flat item list from
   an item boundary (GoVM.vm_run) computes the backtracking semantics Flat.fm, captures
   included (slot layout 2k+2 / 2k+3, save/restore on failure). *)
From GL Require Import Common.Bytes Common.BytesFacts Pm.Class Pm.PmTypes Pm.RefMatch
     Pm.GoParse Pm.GoCompile Pm.GoVM Pm.Flat.
From Coq Require Import Lia ZifyBool.

Lemma len_cons {A} (x : A) l : len (x :: l) = 1 + len l.
Proof. unfold len. cbn [length]. lia. Qed.
Lemma len_nil {A} : len (@nil A) = 0.
Proof. reflexivity. Qed.

(* ---------- list helpers: zth / upd / extend / mget ---------- *)
Lemma zth_cons {A} (x : A) l i : 0 < i -> zth (x :: l) i = zth l (i - 1).
Proof.
  intros H. unfold zth. destruct (i <? 0) eqn:E; [lia|]. destruct (i - 1 <? 0) eqn:E2; [lia|].
  replace (Z.to_nat i) with (S (Z.to_nat (i - 1))) by lia. reflexivity.
Qed.
Lemma zth_0 {A} (x : A) l : zth (x :: l) 0 = Some x.
Proof. reflexivity. Qed.
Lemma zth_nil {A} i : zth (@nil A) i = None.
Proof. unfold zth. destruct (i <? 0); [reflexivity|]. destruct (Z.to_nat i); reflexivity. Qed.

Lemma zth_some_range {A} (l : list A) i x : zth l i = Some x -> 0 <= i < len l.
Proof.
  unfold zth, len. destruct (i <? 0) eqn:E; [discriminate|]. intros H.
  assert (Z.to_nat i < length l)%nat by (apply nth_error_Some; congruence). lia.
Qed.
Lemma zth_in_range {A} (l : list A) i : 0 <= i < len l -> exists x, zth l i = Some x.
Proof.
  unfold zth, len. intros H. destruct (i <? 0) eqn:E; [lia|].
  destruct (nth_error l (Z.to_nat i)) eqn:N; [eauto|]. apply nth_error_None in N. lia.
Qed.
Lemma zth_app1 {A} (a b : list A) i : i < len a -> zth (a ++ b) i = zth a i.
Proof.
  unfold zth, len. intros H. destruct (i <? 0) eqn:E; [reflexivity|].
  apply nth_error_app1. lia.
Qed.
Lemma zth_app2 {A} (a b : list A) i : len a <= i -> zth (a ++ b) i = zth b (i - len a).
Proof.
  unfold zth, len. intros H. destruct (i <? 0) eqn:E; [lia|].
  destruct (i - Z.of_nat (length a) <? 0) eqn:E2; [lia|].
  rewrite nth_error_app2 by lia. f_equal. lia.
Qed.

Lemma len_upd m : forall i v, len (upd m i v) = len m.
Proof. induction m as [|x r IH]; intros i v; cbn [upd]; [reflexivity|]. destruct (i =? 0); rewrite !len_cons; [reflexivity|rewrite IH; reflexivity]. Qed.

Lemma zth_upd_same m : forall i v, 0 <= i < len m -> zth (upd m i v) i = Some v.
Proof.
  induction m as [|x r IH]; intros i v H; [unfold len in H; cbn in H; lia|]. rewrite len_cons in H.
  cbn [upd]. destruct (i =? 0) eqn:E.
  - assert (i = 0) by lia. subst. reflexivity.
  - rewrite zth_cons by lia. apply IH. lia.
Qed.
Lemma zth_upd_other m : forall i j v, i <> j -> zth (upd m i v) j = zth m j.
Proof.
  induction m as [|x r IH]; intros i j v H; cbn [upd]; [reflexivity|].
  destruct (i =? 0) eqn:E.
  - assert (i = 0) by lia. subst. destruct (Z_lt_le_dec j 0).
    + unfold zth. destruct (j <? 0) eqn:F; [reflexivity|lia].
    + rewrite !zth_cons by lia. reflexivity.
  - destruct (Z.eq_dec j 0) as [->|Hj]; [reflexivity|].
    destruct (Z_lt_le_dec j 0).
    + unfold zth. destruct (j <? 0) eqn:F; [reflexivity|lia].
    + rewrite !zth_cons by lia. apply IH. lia.
Qed.

Lemma mget_upd_same m i v : 0 <= i < len m -> mget (upd m i v) i = v.
Proof. intros H. unfold mget. rewrite zth_upd_same by assumption. reflexivity. Qed.
Lemma mget_upd_other m i j v : i <> j -> mget (upd m i v) j = mget m j.
Proof. intros H. unfold mget. rewrite zth_upd_other by assumption. reflexivity. Qed.

Lemma len_repeat {A} (x : A) n : len (repeat x n) = Z.of_nat n.
Proof. unfold len. rewrite repeat_length. reflexivity. Qed.

Lemma len_extend m n : len (extend m n) = Z.max (len m) n.
Proof. unfold extend. rewrite len_app, len_repeat. pose proof (len_nonneg m). lia. Qed.

Lemma mget_extend m n j : mget (extend m n) j = mget m j.
Proof.
  unfold mget, extend. destruct (Z_lt_le_dec j (len m)).
  - rewrite zth_app1 by assumption. reflexivity.
  - rewrite zth_app2 by assumption.
    assert (zth m j = None).
    { unfold zth. destruct (j <? 0); [reflexivity|]. apply nth_error_None. unfold len in *. lia. }
    rewrite H. unfold zth. destruct (j - len m <? 0); [reflexivity|].
    destruct (nth_error (repeat 0 (Z.to_nat (n - len m))) (Z.to_nat (j - len m))) eqn:N; [|reflexivity].
    apply nth_error_In in N. apply repeat_spec in N. subst. reflexivity.
Qed.

Fixpoint ncap_items (items : list fitem) : Z :=
  match items with
  | [] => 0
  | FPosCap :: r => 1 + ncap_items r
  | FOpen :: r => 1 + ncap_items r
  | _ :: r => ncap_items r
  end.

Lemma ncap_items_nonneg items : 0 <= ncap_items items.
Proof. induction items as [|x r IH]; cbn [ncap_items]; [lia|]. destruct x; lia. Qed.

Section Sim.
Variable src : bytes.
Variable prog : list inst.
Variable tail : bool.
Variable B : Z.                 (* capture words of a complete match: 2 + 2 * number of captures *)
Variable start : Z.             (* where this match attempt started (slot 0) *)

Definition epi : list inst :=
  if tail then [ISave 1; ITailMatch; ISave 1; IMatch] else [ISave 1; IMatch].

Definition code_at (pc : Z) (code : list inst) : Prop :=
  forall i ins, zth code i = Some ins -> zth prog (pc + i) = Some ins.

Lemma code_at_cons pc a l : code_at pc (a :: l) -> zth prog pc = Some a /\ code_at (pc + 1) l.
Proof.
  intros H. split.
  - specialize (H 0 a (zth_0 a l)). now rewrite Z.add_0_r in H.
  - intros i ins Hi. pose proof (zth_some_range _ _ _ Hi) as R.
    specialize (H (i + 1) ins). rewrite zth_cons in H by lia.
    replace (i + 1 - 1) with i in H by lia. replace (pc + 1 + i) with (pc + (i + 1)) by lia. auto.
Qed.

Lemma code_at_app pc a b : code_at pc (a ++ b) -> code_at pc a /\ code_at (pc + len a) b.
Proof.
  intros H. split.
  - intros i ins Hi. apply H. pose proof (zth_some_range _ _ _ Hi). rewrite zth_app1 by lia. exact Hi.
  - intros i ins Hi. pose proof (zth_some_range _ _ _ Hi). pose proof (len_nonneg a).
    replace (pc + len a + i) with (pc + (len a + i)) by lia. apply H.
    rewrite zth_app2 by lia. replace (len a + i - len a) with i by lia. exact Hi.
Qed.

(* ---- the representation relation between MatchData.captures and lstrlib's capture array ---- *)
Definition slot_ok (m : list Z) (j : Z) (c : Z * Z) : Prop :=
  let '(i, l) := c in
  if l =? CAP_POS then mget m (2 * j + 2) = 2 * (i + 1) + 1 /\ mget m (2 * j + 3) = 2 * (i + 1) + 1 /\ 2 * j + 3 < len m
  else if l =? CAP_UNF then mget m (2 * j + 2) = 2 * i /\ 2 * j + 2 < len m
  else mget m (2 * j + 2) = 2 * i /\ mget m (2 * j + 3) = 2 * (i + l) /\ 2 * j + 3 < len m.

Definition agree (m : list Z) (cs : caps) : Prop :=
  mget m 0 = 2 * start /\ 0 < len m /\ forall j c, zth cs j = Some c -> slot_ok m j c.

Definition cap_ok (sp : Z) (c : Z * Z) : Prop :=
  let '(i, l) := c in
  0 <= i <= len src /\ (l = CAP_UNF \/ l = CAP_POS \/ (0 <= l /\ i + l <= len src)) /\ (l = CAP_UNF -> i <= sp).

Definition bounded (cs : caps) (sp : Z) : Prop := Forall (cap_ok sp) cs.

Definition stk_ok (cs : caps) (stk : list Z) : Prop :=
  NoDup stk /\ forall j, In j stk -> exists i, zth cs j = Some (i, CAP_UNF).

Lemma bounded_mono cs sp sp' : sp <= sp' -> bounded cs sp -> bounded cs sp'.
Proof.
  intros H F. eapply Forall_impl; [|exact F]. intros [i l]. unfold cap_ok. intros (A & C & D).
  split; [assumption|]. split; [assumption|]. intros E. specialize (D E). lia.
Qed.

Definition rel (v : vres) (s : fr) (cs : caps) : Prop :=
  match s with
  | FBad => True
  | FFail => exists sp' m', v = VRet false sp' m' /\ agree m' cs /\ len m' <= B
  | FMatch e cs' => exists m', v = VRet true e m' /\ agree m' cs' /\ mget m' 1 = 2 * e /\ 1 < len m' <= B
  end.

(* loop unfoldings on the specification side *)
Lemma subj_left_S sp : sp < len src -> subj_left src sp = S (subj_left src (sp + 1)).
Proof. unfold subj_left. intros. lia. Qed.

Lemma cmatch_lt c sp : cmatch src c sp = true -> sp < len src.
Proof. unfold cmatch. intros H. apply andb_true_iff in H as [H _]. lia. Qed.

Lemma star_g_unfold k c sp :
  star_g src k c (subj_left src sp) sp =
  if cmatch src c sp then match star_g src k c (subj_left src (sp + 1)) (sp + 1) with FFail => k sp | r => r end
  else k sp.
Proof.
  destruct (cmatch src c sp) eqn:E.
  - rewrite (subj_left_S sp (cmatch_lt _ _ E)). cbn [star_g]. rewrite E. reflexivity.
  - destruct (subj_left src sp); cbn [star_g]; [reflexivity|]. rewrite E. reflexivity.
Qed.

Lemma star_l_unfold k c sp :
  star_l src k c (subj_left src sp) sp =
  match k sp with
  | FFail => if cmatch src c sp then star_l src k c (subj_left src (sp + 1)) (sp + 1) else FFail
  | r => r
  end.
Proof.
  destruct (cmatch src c sp) eqn:E.
  - rewrite (subj_left_S sp (cmatch_lt _ _ E)). cbn [star_l]. rewrite E. reflexivity.
  - destruct (subj_left src sp); cbn [star_l]; destruct (k sp); try reflexivity. rewrite E. reflexivity.
Qed.

Lemma cmatch_vm c sp :
  ((sp >=? len src) || negb (cls_matches c (bget src sp))) = negb (cmatch src c sp).
Proof. unfold cmatch. destruct (cls_matches c (bget src sp)); cbn; lia. Qed.

(* ---- preservation of the representation relation ---- *)
Lemma slot_ok_frame m m' j c :
  mget m' (2 * j + 2) = mget m (2 * j + 2) -> mget m' (2 * j + 3) = mget m (2 * j + 3) ->
  len m <= len m' -> slot_ok m j c -> slot_ok m' j c.
Proof.
  intros H2 H3 Hl. destruct c as [i l]. unfold slot_ok.
  destruct (l =? CAP_POS); [|destruct (l =? CAP_UNF)]; rewrite ?H2, ?H3; intuition lia.
Qed.

Lemma agree_frame m m' cs :
  agree m cs -> (forall k, 0 <= k < 2 + 2 * len cs -> k <> 1 -> mget m' k = mget m k) -> len m <= len m' ->
  agree m' cs.
Proof.
  intros (A0 & A1 & A2) Hk Hl. pose proof (len_nonneg cs).
  split; [rewrite Hk by lia; exact A0|]. split; [lia|].
  intros j c Hj. pose proof (zth_some_range _ _ _ Hj).
  apply (slot_ok_frame m); try apply Hk; try lia. apply A2; exact Hj.
Qed.

Lemma zth_snoc_last {A} (l : list A) x : zth (l ++ [x]) (len l) = Some x.
Proof. rewrite zth_app2 by lia. rewrite Z.sub_diag. reflexivity. Qed.

Lemma zth_snoc_inv {A} (l : list A) x j c :
  zth (l ++ [x]) j = Some c -> (j < len l /\ zth l j = Some c) \/ (j = len l /\ c = x).
Proof.
  intros H. pose proof (zth_some_range _ _ _ H) as R. rewrite len_app in R. change (len [x]) with 1 in R.
  destruct (Z_lt_le_dec j (len l)).
  - left. rewrite zth_app1 in H by assumption. auto.
  - right. assert (j = len l) by lia. subst. rewrite zth_snoc_last in H. inversion H. auto.
Qed.

Lemma agree_open m cs sp :
  agree m cs ->
  agree (snd (setCapture m (2 + 2 * len cs) sp)) (cs ++ [(sp, CAP_UNF)]).
Proof.
  intros Ha. pose proof (len_nonneg cs) as Hc. pose proof Ha as (A0 & A1 & A2).
  unfold setCapture. cbn [snd].
  set (cap := 2 + 2 * len cs). set (m1 := extend m (cap + 1)).
  assert (Hl1 : len m1 = Z.max (len m) (cap + 1)) by apply len_extend.
  assert (Hfr : agree (upd m1 cap (2 * sp)) cs).
  { apply (agree_frame m); [exact Ha| |rewrite len_upd; lia].
    intros k Hk Hk1. rewrite mget_upd_other by (unfold cap; lia). apply mget_extend. }
  destruct Hfr as (F0 & F1 & F2). split; [exact F0|]. split; [exact F1|].
  intros j c Hj. apply zth_snoc_inv in Hj as [[Hlt Hj]|[-> ->]]; [apply F2; exact Hj|].
  unfold slot_ok. change (CAP_UNF =? CAP_POS) with false. change (CAP_UNF =? CAP_UNF) with true. cbv iota.
  replace (2 * len cs + 2) with cap by (unfold cap; lia). rewrite mget_upd_same by lia. rewrite len_upd. split; lia.
Qed.

Lemma agree_drop_last m cs x v :
  agree m (cs ++ [x]) -> agree (upd m (2 + 2 * len cs) v) cs.
Proof.
  intros (A0 & A1 & A2). pose proof (len_nonneg cs).
  split; [rewrite mget_upd_other by lia; exact A0|]. split; [rewrite len_upd; exact A1|].
  intros j c Hj. pose proof (zth_some_range _ _ _ Hj).
  apply (slot_ok_frame m); try (rewrite mget_upd_other by lia; reflexivity); [rewrite len_upd; lia|].
  apply A2. rewrite zth_app1 by lia. exact Hj.
Qed.

Lemma agree_poscap m cs sp :
  agree m cs ->
  agree (addPosCapture m (2 + 2 * len cs) (sp + 1)) (cs ++ [(sp, CAP_POS)]).
Proof.
  intros Ha. pose proof (len_nonneg cs) as Hc. pose proof Ha as (A0 & A1 & A2).
  unfold addPosCapture.
  set (cap := 2 + 2 * len cs). set (m1 := extend m (cap + 2)).
  assert (Hl1 : len m1 = Z.max (len m) (cap + 2)) by apply len_extend.
  set (v := 2 * (sp + 1) + 1).
  assert (Hfr : agree (upd (upd m1 cap v) (cap + 1) v) cs).
  { apply (agree_frame m); [exact Ha| |rewrite !len_upd; lia].
    intros k Hk Hk1. rewrite !mget_upd_other by (unfold cap; lia). apply mget_extend. }
  destruct Hfr as (F0 & F1 & F2). split; [exact F0|]. split; [exact F1|].
  intros j c Hj. apply zth_snoc_inv in Hj as [[Hlt Hj]|[-> ->]]; [apply F2; exact Hj|].
  unfold slot_ok. change (CAP_POS =? CAP_POS) with true. cbv iota. fold cap.
  replace (2 * len cs + 3) with (cap + 1) by (unfold cap; lia).
  replace (2 * len cs + 2) with cap by (unfold cap; lia).
  rewrite mget_upd_other by lia. rewrite mget_upd_same by (rewrite ?len_upd; lia).
  rewrite mget_upd_same by (rewrite ?len_upd; lia). rewrite !len_upd. fold v. repeat split; lia.
Qed.

Lemma zth_set_len cs : forall j n j',
  zth (set_len cs j n) j' =
  if j' =? j then match zth cs j with Some (i, _) => Some (i, n) | None => None end else zth cs j'.
Proof.
  induction cs as [|[i x] r IH]; intros j n j'; cbn [set_len].
  - rewrite !zth_nil. destruct (j' =? j); reflexivity.
  - destruct (j =? 0) eqn:E.
    + assert (j = 0) by lia. subst. destruct (j' =? 0) eqn:E2.
      * assert (j' = 0) by lia. subst. reflexivity.
      * destruct (Z_lt_le_dec j' 0).
        -- unfold zth. destruct (j' <? 0) eqn:F; [reflexivity|lia].
        -- rewrite !zth_cons by lia. reflexivity.
    + destruct (Z_lt_le_dec j' 0).
      { unfold zth at 1 3. destruct (j' <? 0) eqn:F; [|lia]. destruct (j' =? j) eqn:E3; [|reflexivity].
        assert (j' = j) by lia. subst. unfold zth. rewrite F. reflexivity. }
      destruct (Z.eq_dec j' 0) as [->|Hne].
      * rewrite !zth_0. destruct (0 =? j) eqn:E3; [lia|reflexivity].
      * rewrite zth_cons by lia. rewrite IH. rewrite (zth_cons _ _ j') by lia.
        destruct (Z_lt_le_dec j 0).
        -- destruct (j' - 1 =? j - 1) eqn:E3; destruct (j' =? j) eqn:E4; try lia; reflexivity.
        -- rewrite (zth_cons _ _ j) by lia.
           destruct (j' - 1 =? j - 1) eqn:E3; destruct (j' =? j) eqn:E4; try lia; reflexivity.
Qed.

Lemma len_set_len cs : forall j n, len (set_len cs j n) = len cs.
Proof.
  induction cs as [|[i x] r IH]; intros j n; cbn [set_len]; [reflexivity|].
  destruct (j =? 0); rewrite !len_cons; [reflexivity|]. rewrite IH. reflexivity.
Qed.

Lemma agree_close m cs j i sp :
  agree m cs -> zth cs j = Some (i, CAP_UNF) -> i <= sp ->
  agree (snd (setCapture m (2 * j + 3) sp)) (set_len cs j (sp - i)).
Proof.
  intros Ha Hj Hle. pose proof Ha as (A0 & A1 & A2). pose proof (zth_some_range _ _ _ Hj) as Rj.
  unfold setCapture. cbn [snd]. set (m1 := extend m (2 * j + 3 + 1)).
  assert (Hl1 : len m1 = Z.max (len m) (2 * j + 4)) by (unfold m1; rewrite len_extend; lia).
  split; [rewrite mget_upd_other by lia; unfold m1; rewrite mget_extend; exact A0|].
  split; [rewrite len_upd; lia|].
  intros j' c Hj'. rewrite zth_set_len in Hj'. destruct (j' =? j) eqn:E.
  - assert (j' = j) by lia. subst j'. rewrite Hj in Hj'. inversion Hj'; subst c.
    specialize (A2 _ _ Hj). unfold slot_ok in *.
    change (CAP_UNF =? CAP_POS) with false in A2. change (CAP_UNF =? CAP_UNF) with true in A2. cbv iota in A2.
    destruct (sp - i =? CAP_POS) eqn:E1; [unfold CAP_POS in E1; lia|].
    destruct (sp - i =? CAP_UNF) eqn:E2; [unfold CAP_UNF in E2; lia|].
    rewrite mget_upd_other by lia. rewrite mget_upd_same by lia. rewrite len_upd.
    unfold m1. rewrite mget_extend. fold m1. repeat split; lia.
  - pose proof (zth_some_range _ _ _ Hj') as R.
    apply (slot_ok_frame m); try (rewrite mget_upd_other by lia; unfold m1; apply mget_extend);
      [rewrite len_upd; lia|]. apply A2; exact Hj'.
Qed.

Lemma agree_unclose m cs j i n v :
  agree m (set_len cs j n) -> zth cs j = Some (i, CAP_UNF) -> n <> CAP_POS -> n <> CAP_UNF ->
  agree (upd m (2 * j + 3) v) cs.
Proof.
  intros (A0 & A1 & A2) Hj Hn1 Hn2. pose proof (zth_some_range _ _ _ Hj) as Rj.
  split; [rewrite mget_upd_other by lia; exact A0|]. split; [rewrite len_upd; exact A1|].
  intros j' c Hj'. destruct (Z.eq_dec j' j) as [->|Hne].
  - rewrite Hj in Hj'. inversion Hj'; subst c.
    specialize (A2 j (i, n)). rewrite zth_set_len, Z.eqb_refl, Hj in A2. specialize (A2 eq_refl).
    unfold slot_ok in *.
    destruct (n =? CAP_POS) eqn:E1; [lia|]. destruct (n =? CAP_UNF) eqn:E2; [lia|].
    change (CAP_UNF =? CAP_POS) with false. change (CAP_UNF =? CAP_UNF) with true. cbv iota.
    rewrite mget_upd_other by lia. rewrite len_upd. split; lia.
  - pose proof (zth_some_range _ _ _ Hj') as R.
    apply (slot_ok_frame m); try (rewrite mget_upd_other by lia; reflexivity); [rewrite len_upd; lia|].
    apply A2. rewrite zth_set_len. destruct (j' =? j) eqn:E; [lia|]. exact Hj'.
Qed.

Lemma brace_loop_bound : forall n sp cnt b e sp',
  brace_loop src n sp cnt b e = Some sp' -> sp < sp' <= len src.
Proof.
  induction n as [|n IH]; intros sp cnt b e sp' H; cbn [brace_loop] in H; [discriminate|].
  destruct (sp <? len src) eqn:E; [|discriminate].
  destruct ((if bget src sp =? e then cnt - 1 else cnt) =? 0).
  - inversion H; subst. lia.
  - apply IH in H. lia.
Qed.

Lemma slice_cons_bget k n :
  0 <= k < len src -> 0 <= n -> slice src k (k + 1 + n) = bget src k :: slice src (k + 1) (k + 1 + n).
Proof.
  intros Hk Hn. unfold slice, bget, zth, len in *.
  destruct (k <? 0) eqn:E; [lia|].
  replace (Z.to_nat (k + 1 + n - k)) with (S (Z.to_nat n)) by lia.
  replace (Z.to_nat (k + 1 + n - (k + 1))) with (Z.to_nat n) by lia.
  replace (Z.to_nat (k + 1)) with (S (Z.to_nat k)) by lia.
  assert (Hlt : (Z.to_nat k < length src)%nat) by lia.
  revert Hlt. generalize (Z.to_nat k) as a. clear. intros a; revert src.
  induction a as [|a IH]; intros src Hlt; destruct src as [|x r]; cbn [length] in Hlt; try lia.
  - reflexivity.
  - cbn [skipn nth_error]. apply IH. lia.
Qed.

Lemma number_loop_spec : forall cap i sp,
  0 <= i + sp <= len src ->
  number_loop src cap i sp =
  (i + sp + len cap <=? len src) && beqb cap (slice src (i + sp) (i + sp + len cap)).
Proof.
  induction cap as [|c r IH]; intros i sp Hi; cbn [number_loop].
  - rewrite len_nil. rewrite slice_empty by lia. cbn [beqb].
    destruct (i + sp + 0 <=? len src) eqn:E; [reflexivity|lia].
  - rewrite len_cons. pose proof (len_nonneg r) as Hr.
    destruct (i + sp >=? len src) eqn:E; cbn [orb].
    + destruct (i + sp + (1 + len r) <=? len src) eqn:E2; [lia|reflexivity].
    + replace (i + sp + (1 + len r)) with (i + sp + 1 + len r) by lia.
      rewrite slice_cons_bget by lia. cbn [beqb].
      destruct (c =? bget src (i + sp)) eqn:E3; cbn [negb andb].
      * rewrite IH by lia. replace (i + 1 + sp) with (i + sp + 1) by lia.
        destruct (i + sp + 1 + len r <=? len src); reflexivity.
      * rewrite Bool.andb_false_r. reflexivity.
Qed.

Lemma agree_prefix m cs l : agree m (cs ++ l) -> agree m cs.
Proof.
  intros (A0 & A1 & A2). split; [exact A0|]. split; [exact A1|].
  intros j c Hj. apply A2. pose proof (zth_some_range _ _ _ Hj). rewrite zth_app1 by lia. exact Hj.
Qed.

Lemma rel_weaken v s cs l : rel v s (cs ++ l) -> rel v s cs.
Proof.
  destruct s; cbn [rel]; auto. intros (sp' & m' & H1 & H2 & H3). exists sp', m'.
  split; [exact H1|]. split; [eapply agree_prefix; exact H2|exact H3].
Qed.

Lemma rel_err_bad v s cs1 : (v = VErr \/ v = VPanic) -> rel v s cs1 -> s = FBad.
Proof.
  intros Hv Hr. destruct s; cbn [rel] in Hr; [|  |reflexivity].
  - destruct Hr as (? & ? & H & _). destruct Hv; congruence.
  - destruct Hr as (? & H & _). destruct Hv; congruence.
Qed.

Lemma odd_2x x : Z.odd (2 * x) = false.
Proof. rewrite Z.odd_mul. reflexivity. Qed.
Lemma odd_2x1 x : Z.odd (2 * x + 1) = true.
Proof. rewrite Z.add_comm, Z.odd_add_mul_2. reflexivity. Qed.
Lemma half_2x x : 2 * x / 2 = x.
Proof. rewrite Z.mul_comm. apply Z.div_mul. lia. Qed.

Lemma zth_In {A} (l : list A) j c : zth l j = Some c -> In c l.
Proof. unfold zth. destruct (j <? 0); [discriminate|]. apply nth_error_In. Qed.

Lemma bounded_zth cs sp j c : bounded cs sp -> zth cs j = Some c -> cap_ok sp c.
Proof. intros F H. unfold bounded in F. rewrite Forall_forall in F. apply F. eapply zth_In; eauto. Qed.

Lemma bounded_snoc cs sp x : bounded cs sp -> cap_ok sp x -> bounded (cs ++ [x]) sp.
Proof. intros F H. apply Forall_app. split; [exact F|]. constructor; [exact H|constructor]. Qed.

Lemma In_zth {A} (l : list A) c : In c l -> exists j, zth l j = Some c.
Proof.
  intros H. apply In_nth_error in H as [n Hn]. exists (Z.of_nat n). unfold zth.
  destruct (Z.of_nat n <? 0) eqn:E; [lia|]. rewrite Nat2Z.id. exact Hn.
Qed.

Lemma bounded_set_len cs sp j i :
  bounded cs sp -> zth cs j = Some (i, CAP_UNF) -> sp <= len src -> bounded (set_len cs j (sp - i)) sp.
Proof.
  intros F Hj Hsp. pose proof (bounded_zth _ _ _ _ F Hj) as (C1 & C2 & C3). specialize (C3 eq_refl).
  unfold bounded. rewrite Forall_forall. intros c Hc. apply In_zth in Hc as [j' Hj'].
  rewrite zth_set_len in Hj'. destruct (j' =? j).
  - rewrite Hj in Hj'. inversion Hj'; subst c. unfold cap_ok. split; [exact C1|]. split.
    + right. right. lia.
    + unfold CAP_UNF. lia.
  - eapply bounded_zth; eauto.
Qed.

Lemma stk_ok_open cs stk sp : stk_ok cs stk -> stk_ok (cs ++ [(sp, CAP_UNF)]) (len cs :: stk).
Proof.
  intros [Hnd Hs]. split.
  - constructor; [|exact Hnd]. intros Hin. apply Hs in Hin as [i Hi].
    apply zth_some_range in Hi. lia.
  - intros j [<-|Hin].
    + exists sp. apply zth_snoc_last.
    + destruct (Hs j Hin) as [i Hi]. exists i. pose proof (zth_some_range _ _ _ Hi).
      rewrite zth_app1 by lia. exact Hi.
Qed.

Lemma stk_ok_pos cs stk x : stk_ok cs stk -> stk_ok (cs ++ [x]) stk.
Proof.
  intros [Hnd Hs]. split; [exact Hnd|]. intros j Hin. destruct (Hs j Hin) as [i Hi]. exists i.
  pose proof (zth_some_range _ _ _ Hi). rewrite zth_app1 by lia. exact Hi.
Qed.

Lemma stk_ok_close cs stk j n : stk_ok cs (j :: stk) -> stk_ok (set_len cs j n) stk.
Proof.
  intros [Hnd Hs]. inversion Hnd; subst. split; [assumption|].
  intros j' Hin. destruct (Hs j' (or_intror Hin)) as [i Hi]. exists i.
  rewrite zth_set_len. destruct (j' =? j) eqn:E; [|exact Hi].
  assert (j' = j) by lia. subst. contradiction.
Qed.

Definition gslots (stk : list Z) : list Z := map (fun j => 2 * j + 2) stk.

Ltac vmstep H := cbn [vm_run]; rewrite H.
Ltac nocall := match goal with |- context [?a + 1 >? maxRecursionLevel] =>
                 destruct (a + 1 >? maxRecursionLevel) eqn:?; [lia|] end.

Lemma vm_split f pc sp rl m a b :
  zth prog pc = Some (ISplit a b) ->
  vm_run src prog (S f) pc sp rl m =
  match (if rl + 1 >? maxRecursionLevel then VErr else vm_run src prog f a sp (rl + 1) m) with
  | VRet true nsp m' => VRet true nsp m'
  | VRet false _ m' => vm_run src prog f b sp rl m'
  | r => r
  end.
Proof. intros H. cbn [vm_run]. rewrite H. reflexivity. Qed.

Lemma vm_char f pc sp rl m c :
  zth prog pc = Some (IChar c) ->
  vm_run src prog (S f) pc sp rl m =
  if cmatch src c sp then vm_run src prog f (pc + 1) (sp + 1) rl m else VRet false sp m.
Proof. intros H. cbn [vm_run]. rewrite H, cmatch_vm. destruct (cmatch src c sp); reflexivity. Qed.

Lemma vm_jmp f pc sp rl m t :
  zth prog pc = Some (IJmp t) -> vm_run src prog (S f) pc sp rl m = vm_run src prog f t sp rl m.
Proof. intros H. cbn [vm_run]. rewrite H. reflexivity. Qed.

Lemma vm_0 pc sp rl m : vm_run src prog 0 pc sp rl m = VFuel.
Proof. reflexivity. Qed.

Lemma sim : forall fuel items pc sp rl m cs stk,
  code_at pc (emit items pc (2 + 2 * len cs) (gslots stk) ++ epi) ->
  2 + 2 * len cs + 2 * ncap_items items <= B ->
  agree m cs -> len m <= B -> bounded cs sp -> stk_ok cs stk -> 0 <= sp <= len src ->
  rl + Z.of_nat fuel <= maxRecursionLevel ->
  vm_run src prog fuel pc sp rl m <> VFuel ->
  rel (vm_run src prog fuel pc sp rl m) (fm src tail items sp cs stk) cs.
Proof.
  induction fuel as [fuel IH] using lt_wf_ind.
  induction items as [|it rest IHi];
  intros pc sp rl m cs stk Hcode HB Hag Hlm Hbd Hstk Hsp Hrl;
  pose proof (len_nonneg cs) as Hcs;
  (destruct fuel as [|f]; [cbn [vm_run]; congruence|]).
  - (* end of the item list: the epilogue *)
    cbn [emit app fm ncap_items] in *. unfold epi in Hcode. destruct tail.
    + apply code_at_cons in Hcode as [H0 Hcode]. apply code_at_cons in Hcode as [H1 _].
      vmstep H0. unfold setCapture. nocall.
      destruct f as [|f1]; [cbn [vm_run]; congruence|]. vmstep H1. intros _.
      set (m1 := upd (extend m (1 + 1)) 1 (2 * sp)).
      assert (Hl1 : len m1 = Z.max (len m) 2) by (unfold m1; rewrite len_upd, len_extend; reflexivity).
      destruct (sp >=? len src) eqn:Ee.
      * cbn [rel]. exists m1. split; [reflexivity|]. split.
        { apply (agree_frame m); [exact Hag| |lia].
          intros k Hk Hk1. unfold m1. rewrite mget_upd_other by lia. apply mget_extend. }
        split; [unfold m1; rewrite mget_upd_same; [reflexivity|rewrite len_extend; lia]|]. lia.
      * cbn [rel]. eexists _, _. split; [reflexivity|]. split.
        { apply (agree_frame m); [exact Hag| |rewrite len_upd; lia].
          intros k Hk Hk1. rewrite mget_upd_other by lia. unfold m1. rewrite mget_upd_other by lia. apply mget_extend. }
        rewrite len_upd. lia.
    + apply code_at_cons in Hcode as [H0 Hcode]. apply code_at_cons in Hcode as [H1 _].
      vmstep H0. unfold setCapture. nocall.
      destruct f as [|f1]; [cbn [vm_run]; congruence|]. vmstep H1. intros _.
      set (m1 := upd (extend m (1 + 1)) 1 (2 * sp)).
      assert (Hl1 : len m1 = Z.max (len m) 2) by (unfold m1; rewrite len_upd, len_extend; reflexivity).
      cbn [rel]. exists m1. split; [reflexivity|]. split.
      { apply (agree_frame m); [exact Hag| |lia].
        intros k Hk Hk1. unfold m1. rewrite mget_upd_other by lia. apply mget_extend. }
      split; [unfold m1; rewrite mget_upd_same; [reflexivity|rewrite len_extend; lia]|]. lia.
  - pose proof (ncap_items_nonneg rest) as Hncr. destruct it as [c|ty c| | | |n|b e].
    + (* FSingle *)
      cbn [emit app fm ncap_items] in *. apply code_at_cons in Hcode as [H0 Hcode].
      vmstep H0. rewrite cmatch_vm. destruct (cmatch src c sp) eqn:Ec; cbn [negb].
      * pose proof (cmatch_lt _ _ Ec). intros Hnf.
        apply (IH f ltac:(lia) rest (pc + 1) (sp + 1) rl m cs stk); try assumption; try lia.
        apply (bounded_mono cs sp); [lia|assumption].
      * intros _. cbn [rel]. exists sp, m. auto.
    + (* FRepeat *)
      assert (Hcode0 := Hcode).
      set (k := fun sp' => fm src tail rest sp' cs stk).
      (* the continuation after the loop, at any fuel below the current one *)
      assert (Hk : forall f' pc' sp' rl' m', (f' < S f)%nat ->
                 code_at pc' (emit rest pc' (2 + 2 * len cs) (gslots stk) ++ epi) ->
                 agree m' cs -> len m' <= B -> sp <= sp' <= len src ->
                 rl' + Z.of_nat f' <= maxRecursionLevel ->
                 vm_run src prog f' pc' sp' rl' m' <> VFuel ->
                 rel (vm_run src prog f' pc' sp' rl' m') (k sp') cs).
      { intros f' pc' sp' rl' m' Hf' Hc' Ha' Hl' Hsp' Hrl' Hnf'.
        apply (IH f' Hf' rest pc' sp' rl' m' cs stk); try assumption; try lia.
        apply (bounded_mono cs sp); [lia|assumption]. }
      (* the same loop item one byte later *)
      assert (Hloop : forall f' rl' m', (f' < S f)%nat ->
                 agree m' cs -> len m' <= B -> sp + 1 <= len src ->
                 rl' + Z.of_nat f' <= maxRecursionLevel ->
                 vm_run src prog f' pc (sp + 1) rl' m' <> VFuel ->
                 rel (vm_run src prog f' pc (sp + 1) rl' m') (fm src tail (FRepeat ty c :: rest) (sp + 1) cs stk) cs).
      { intros f' rl' m' Hf' Ha' Hl' Hsp' Hrl' Hnf'.
        apply (IH f' Hf' (FRepeat ty c :: rest) pc (sp + 1) rl' m' cs stk); try assumption; try lia.
        apply (bounded_mono cs sp); [lia|assumption]. }
      cbn [emit ncap_items] in Hcode, HB. cbn [fm] in *. fold k in Hloop |- *.
      unfold emit_repeat in Hcode.
      destruct (ty =? 42) eqn:E42.
      { (* '*' : Split(pc+1, pc+3); Char; Jmp pc *)
        rewrite <- app_assoc in Hcode. cbn [app] in Hcode. change (len [ISplit (pc + 1) (pc + 3); IChar c; IJmp pc]) with 3 in Hcode.
        apply code_at_cons in Hcode as [H0 Hcode]. apply code_at_cons in Hcode as [H1 Hcode].
        apply code_at_cons in Hcode as [H2 Hcode]. replace (pc + 1 + 1 + 1) with (pc + 3) in Hcode by lia.
        rewrite star_g_unfold.
        rewrite (vm_split f pc sp rl m _ _ H0). nocall.
        destruct f as [|f1]; [rewrite vm_0; congruence|].
        rewrite (vm_char f1 (pc + 1) sp (rl + 1) m c H1).
        destruct (cmatch src c sp) eqn:Ec.
        - pose proof (cmatch_lt _ _ Ec) as Hlt.
          destruct f1 as [|f2]; [rewrite vm_0; congruence|].
          rewrite (vm_jmp f2 (pc + 1 + 1) (sp + 1) (rl + 1) m pc H2).
          pose proof (Hloop f2 (rl + 1) m ltac:(lia) Hag Hlm ltac:(lia) ltac:(lia)) as Hr1.
          destruct (vm_run src prog f2 pc (sp + 1) (rl + 1) m) as [ok nsp m'| | |] eqn:Ev; try congruence.
          + specialize (Hr1 ltac:(discriminate)).
            destruct (star_g src k c (subj_left src (sp + 1)) (sp + 1)) as [|e cs'|] eqn:Esg; cbn [rel] in Hr1.
            * destruct Hr1 as (sp' & m'' & Hv & Ha' & Hl'). inversion Hv; subst ok nsp m''.
              intros Hnf. apply (Hk (S (S f2)) (pc + 3) sp rl m'); try assumption; try lia.
            * destruct Hr1 as (m'' & Hv & Ha' & H1' & Hl'). inversion Hv; subst ok nsp m''.
              intros _. cbn [rel]. exists m'. auto.
            * intros _. exact I.
          + intros _. specialize (Hr1 ltac:(discriminate)). rewrite (rel_err_bad _ _ _ (or_introl eq_refl) Hr1). exact I.
          + intros _. specialize (Hr1 ltac:(discriminate)). rewrite (rel_err_bad _ _ _ (or_intror eq_refl) Hr1). exact I.
        - intros Hnf. apply (Hk (S f1) (pc + 3) sp rl m); try assumption; try lia. }
      destruct (ty =? 43) eqn:E43.
      { (* '+' : Char; Split(pc, pc+2) *)
        rewrite <- app_assoc in Hcode. cbn [app] in Hcode. change (len [IChar c; ISplit pc (pc + 2)]) with 2 in Hcode.
        apply code_at_cons in Hcode as [H0 Hcode]. apply code_at_cons in Hcode as [H1 Hcode].
        replace (pc + 1 + 1) with (pc + 2) in Hcode by lia.
        rewrite (vm_char f pc sp rl m c H0).
        destruct (cmatch src c sp) eqn:Ec; [|intros _; cbn [rel]; exists sp, m; auto].
        pose proof (cmatch_lt _ _ Ec) as Hlt.
        destruct f as [|f1]; [rewrite vm_0; congruence|].
        rewrite (vm_split f1 (pc + 1) (sp + 1) rl m _ _ H1). nocall.
        rewrite star_g_unfold.
        pose proof (Hloop f1 (rl + 1) m ltac:(lia) Hag Hlm ltac:(lia) ltac:(lia)) as Hr1.
        destruct (vm_run src prog f1 pc (sp + 1) (rl + 1) m) as [ok nsp m'| | |] eqn:Ev; try congruence.
        - specialize (Hr1 ltac:(discriminate)).
          destruct (cmatch src c (sp + 1)) eqn:Ec1.
          + destruct (star_g src k c (subj_left src (sp + 1 + 1)) (sp + 1 + 1)) as [|e cs'|] eqn:Esg; cbn [rel] in Hr1.
            * destruct Hr1 as (sp' & m'' & Hv & Ha' & Hl'). inversion Hv; subst ok nsp m''.
              intros Hnf. apply (Hk f1 (pc + 2) (sp + 1) rl m'); try assumption; try lia.
            * destruct Hr1 as (m'' & Hv & Ha' & H1' & Hl'). inversion Hv; subst ok nsp m''.
              intros _. cbn [rel]. exists m'. auto.
            * intros _. exact I.
          + cbn [rel] in Hr1. destruct Hr1 as (sp' & m'' & Hv & Ha' & Hl'). inversion Hv; subst ok nsp m''.
            intros Hnf. apply (Hk f1 (pc + 2) (sp + 1) rl m'); try assumption; try lia.
        - intros _. specialize (Hr1 ltac:(discriminate)). pose proof (rel_err_bad _ _ _ (or_introl eq_refl) Hr1) as Hb.
          destruct (cmatch src c (sp + 1)); [rewrite Hb; exact I|discriminate].
        - intros _. specialize (Hr1 ltac:(discriminate)). pose proof (rel_err_bad _ _ _ (or_intror eq_refl) Hr1) as Hb.
          destruct (cmatch src c (sp + 1)); [rewrite Hb; exact I|discriminate]. }
      destruct (ty =? 45) eqn:E45.
      { (* '-' : Split(pc+3, pc+1); Char; Jmp pc *)
        rewrite <- app_assoc in Hcode. cbn [app] in Hcode. change (len [ISplit (pc + 3) (pc + 1); IChar c; IJmp pc]) with 3 in Hcode.
        apply code_at_cons in Hcode as [H0 Hcode]. apply code_at_cons in Hcode as [H1 Hcode].
        apply code_at_cons in Hcode as [H2 Hcode]. replace (pc + 1 + 1 + 1) with (pc + 3) in Hcode by lia.
        rewrite star_l_unfold.
        rewrite (vm_split f pc sp rl m _ _ H0). nocall.
        pose proof (Hk f (pc + 3) sp (rl + 1) m ltac:(lia) Hcode Hag Hlm ltac:(lia) ltac:(lia)) as Hr0.
        destruct (vm_run src prog f (pc + 3) sp (rl + 1) m) as [ok nsp m'| | |] eqn:Ev; try congruence.
        - specialize (Hr0 ltac:(discriminate)).
          destruct (k sp) as [|e cs'|] eqn:Eks; cbn [rel] in Hr0.
          + destruct Hr0 as (sp' & m'' & Hv & Ha' & Hl'). inversion Hv; subst ok nsp m''.
            destruct f as [|f1]; [rewrite vm_0; congruence|].
            rewrite (vm_char f1 (pc + 1) sp rl m' c H1).
            destruct (cmatch src c sp) eqn:Ec; [|intros _; cbn [rel]; exists sp, m'; auto].
            pose proof (cmatch_lt _ _ Ec) as Hlt.
            destruct f1 as [|f2]; [rewrite vm_0; congruence|].
            rewrite (vm_jmp f2 (pc + 1 + 1) (sp + 1) rl m' pc H2).
            intros Hnf. apply (Hloop f2 rl m'); try assumption; try lia.
          + destruct Hr0 as (m'' & Hv & Ha' & H1' & Hl'). inversion Hv; subst ok nsp m''.
            intros _. cbn [rel]. exists m'. auto.
          + intros _. exact I.
        - intros _. specialize (Hr0 ltac:(discriminate)). rewrite (rel_err_bad _ _ _ (or_introl eq_refl) Hr0). exact I.
        - intros _. specialize (Hr0 ltac:(discriminate)). rewrite (rel_err_bad _ _ _ (or_intror eq_refl) Hr0). exact I. }
      destruct (ty =? 63) eqn:E63.
      { (* '?' : Split(pc+1, pc+2); Char *)
        change (fm src tail rest (sp + 1) cs stk) with (k (sp + 1)).
        change (fm src tail rest sp cs stk) with (k sp).
        rewrite <- app_assoc in Hcode. cbn [app] in Hcode. change (len [ISplit (pc + 1) (pc + 2); IChar c]) with 2 in Hcode.
        apply code_at_cons in Hcode as [H0 Hcode]. apply code_at_cons in Hcode as [H1 Hcode].
        replace (pc + 1 + 1) with (pc + 2) in Hcode by lia.
        rewrite (vm_split f pc sp rl m _ _ H0). nocall.
        destruct f as [|f1]; [rewrite vm_0; congruence|].
        rewrite (vm_char f1 (pc + 1) sp (rl + 1) m c H1).
        destruct (cmatch src c sp) eqn:Ec.
        - pose proof (cmatch_lt _ _ Ec) as Hlt.
          replace (pc + 1 + 1) with (pc + 2) by lia.
          pose proof (Hk f1 (pc + 2) (sp + 1) (rl + 1) m ltac:(lia) Hcode Hag Hlm ltac:(lia) ltac:(lia)) as Hr0.
          destruct (vm_run src prog f1 (pc + 2) (sp + 1) (rl + 1) m) as [ok nsp m'| | |] eqn:Ev; try congruence.
          + specialize (Hr0 ltac:(discriminate)).
            destruct (k (sp + 1)) as [|e cs'|] eqn:Eks; cbn [rel] in Hr0.
            * destruct Hr0 as (sp' & m'' & Hv & Ha' & Hl'). inversion Hv; subst ok nsp m''.
              intros Hnf. apply (Hk (S f1) (pc + 2) sp rl m'); try assumption; try lia.
            * destruct Hr0 as (m'' & Hv & Ha' & H1' & Hl'). inversion Hv; subst ok nsp m''.
              intros _. cbn [rel]. exists m'. auto.
            * intros _. exact I.
          + intros _. specialize (Hr0 ltac:(discriminate)). rewrite (rel_err_bad _ _ _ (or_introl eq_refl) Hr0). exact I.
          + intros _. specialize (Hr0 ltac:(discriminate)). rewrite (rel_err_bad _ _ _ (or_intror eq_refl) Hr0). exact I.
        - intros Hnf. apply (Hk (S f1) (pc + 2) sp rl m); try assumption; try lia. }
      (* any other type byte: compilePattern emits nothing *)
      change (fm src tail rest sp cs stk) with (k sp).
      cbn [app] in Hcode. change (len (@nil inst)) with 0 in Hcode. replace (pc + 0) with pc in Hcode by lia.
      intros Hnf. apply (IHi pc sp rl m cs stk); assumption.
    + (* FPosCap *)
      cbn [emit app fm ncap_items] in *. apply code_at_cons in Hcode as [H0 Hcode].
      vmstep H0. intros Hnf.
      apply (rel_weaken _ _ cs [(sp, CAP_POS)]).
      assert (Hlen : len (cs ++ [(sp, CAP_POS)]) = len cs + 1) by (rewrite len_app; reflexivity).
      apply (IH f ltac:(lia) rest (pc + 1) sp rl _ (cs ++ [(sp, CAP_POS)]) stk); try assumption; try lia.
      * rewrite Hlen. replace (2 + 2 * (len cs + 1)) with (2 + 2 * len cs + 2) by lia. exact Hcode.
      * apply agree_poscap. exact Hag.
      * unfold addPosCapture. rewrite !len_upd, len_extend. lia.
      * apply bounded_snoc; [exact Hbd|]. unfold cap_ok. split; [lia|]. split; [auto|]. unfold CAP_POS, CAP_UNF; lia.
      * apply stk_ok_pos. exact Hstk.
    + (* FOpen *)
      cbn [emit app fm ncap_items] in *. apply code_at_cons in Hcode as [H0 Hcode].
      vmstep H0. destruct (setCapture m (2 + 2 * len cs) sp) as [old m1] eqn:Es. nocall.
      assert (Hm1 : m1 = snd (setCapture m (2 + 2 * len cs) sp)) by (rewrite Es; reflexivity).
      assert (Hlen : len (cs ++ [(sp, CAP_UNF)]) = len cs + 1) by (rewrite len_app; reflexivity).
      assert (Hl1 : len m1 <= B).
      { rewrite Hm1. unfold setCapture. cbn [snd]. rewrite len_upd, len_extend. lia. }
      pose proof (IH f ltac:(lia) rest (pc + 1) sp (rl + 1) m1 (cs ++ [(sp, CAP_UNF)]) (len cs :: stk)) as Hr.
      destruct (vm_run src prog f (pc + 1) sp (rl + 1) m1) as [ok nsp m'| | |] eqn:Ev; try congruence.
      * intros _. assert (Hr' : rel (VRet ok nsp m') (fm src tail rest sp (cs ++ [(sp, CAP_UNF)]) (len cs :: stk)) (cs ++ [(sp, CAP_UNF)])).
        { apply Hr; try assumption; try lia; try congruence.
          - rewrite Hlen. replace (2 + 2 * (len cs + 1)) with (2 + 2 * len cs + 2) by lia.
            cbn [gslots map]. replace (2 * len cs + 2) with (2 + 2 * len cs) by lia. exact Hcode.
          - rewrite Hm1. apply agree_open. exact Hag.
          - apply bounded_snoc; [exact Hbd|]. unfold cap_ok. split; [lia|]. split; [auto|]. lia.
          - apply stk_ok_open. exact Hstk. }
        destruct (fm src tail rest sp (cs ++ [(sp, CAP_UNF)]) (len cs :: stk)) as [|e cs'|] eqn:Ef; cbn [rel] in *.
        -- destruct Hr' as (sp' & m'' & Hv & Ha' & Hl'). inversion Hv; subst ok nsp m''.
           exists sp, (upd m' (2 + 2 * len cs) old). split; [reflexivity|]. split.
           ++ eapply agree_drop_last. exact Ha'.
           ++ rewrite len_upd. exact Hl'.
        -- destruct Hr' as (m'' & Hv & Ha' & H1' & Hl'). inversion Hv; subst ok nsp m''.
           exists m'. auto.
        -- destruct ok; exact I.
      * intros _. assert (Hr' : rel VErr (fm src tail rest sp (cs ++ [(sp, CAP_UNF)]) (len cs :: stk)) (cs ++ [(sp, CAP_UNF)])).
        { apply Hr; try assumption; try lia; try congruence.
          - rewrite Hlen. replace (2 + 2 * (len cs + 1)) with (2 + 2 * len cs + 2) by lia.
            cbn [gslots map]. replace (2 * len cs + 2) with (2 + 2 * len cs) by lia. exact Hcode.
          - rewrite Hm1. apply agree_open. exact Hag.
          - apply bounded_snoc; [exact Hbd|]. unfold cap_ok. split; [lia|]. split; [auto|]. lia.
          - apply stk_ok_open. exact Hstk. }
        rewrite (rel_err_bad _ _ _ (or_introl eq_refl) Hr'). exact I.
      * intros _. assert (Hr' : rel VPanic (fm src tail rest sp (cs ++ [(sp, CAP_UNF)]) (len cs :: stk)) (cs ++ [(sp, CAP_UNF)])).
        { apply Hr; try assumption; try lia; try congruence.
          - rewrite Hlen. replace (2 + 2 * (len cs + 1)) with (2 + 2 * len cs + 2) by lia.
            cbn [gslots map]. replace (2 * len cs + 2) with (2 + 2 * len cs) by lia. exact Hcode.
          - rewrite Hm1. apply agree_open. exact Hag.
          - apply bounded_snoc; [exact Hbd|]. unfold cap_ok. split; [lia|]. split; [auto|]. lia.
          - apply stk_ok_open. exact Hstk. }
        rewrite (rel_err_bad _ _ _ (or_intror eq_refl) Hr'). exact I.
    + (* FClose *)
      destruct stk as [|j stk']; [cbn [fm rel]; intros; exact I|].
      destruct Hstk as [Hnd Hs]. destruct (Hs j (or_introl eq_refl)) as [i Hj].
      pose proof (bounded_zth _ _ _ _ Hbd Hj) as (C1 & C2 & C3). specialize (C3 eq_refl).
      pose proof (zth_some_range _ _ _ Hj) as Rj.
      cbn [gslots map emit app fm ncap_items] in *. rewrite Hj.
      apply code_at_cons in Hcode as [H0 Hcode].
      vmstep H0. destruct (setCapture m (2 * j + 2 + 1) sp) as [old m1] eqn:Es. nocall.
      assert (Hm1 : m1 = snd (setCapture m (2 * j + 3) sp)).
      { replace (2 * j + 3) with (2 * j + 2 + 1) by lia. rewrite Es; reflexivity. }
      assert (Hl1 : len m1 <= B).
      { rewrite Hm1. unfold setCapture. cbn [snd]. rewrite len_upd, len_extend. lia. }
      set (cs1 := set_len cs j (sp - i)).
      assert (Hr' : vm_run src prog f (pc + 1) sp (rl + 1) m1 <> VFuel ->
                    rel (vm_run src prog f (pc + 1) sp (rl + 1) m1) (fm src tail rest sp cs1 stk') cs1).
      { intros Hnf. apply (IH f ltac:(lia) rest (pc + 1) sp (rl + 1) m1 cs1 stk'); try assumption; try lia.
        - unfold cs1. rewrite len_set_len. exact Hcode.
        - unfold cs1. rewrite len_set_len. exact HB.
        - rewrite Hm1. apply agree_close; assumption.
        - apply bounded_set_len; [assumption|assumption|lia].
        - apply (stk_ok_close cs stk' j). split; assumption. }
      destruct (vm_run src prog f (pc + 1) sp (rl + 1) m1) as [ok nsp m'| | |] eqn:Ev; try congruence; intros _.
      * specialize (Hr' ltac:(discriminate)).
        destruct (fm src tail rest sp cs1 stk') as [|e cs'|] eqn:Ef; cbn [rel] in *.
        -- destruct Hr' as (sp' & m'' & Hv & Ha' & Hl'). inversion Hv; subst ok nsp m''.
           exists sp, (upd m' (2 * j + 2 + 1) old). split; [reflexivity|]. split.
           ++ replace (2 * j + 2 + 1) with (2 * j + 3) by lia.
              eapply (agree_unclose m' cs j i (sp - i)); [exact Ha'|exact Hj| |]; unfold CAP_POS, CAP_UNF; lia.
           ++ rewrite len_upd. exact Hl'.
        -- destruct Hr' as (m'' & Hv & Ha' & H1' & Hl'). inversion Hv; subst ok nsp m''.
           exists m'. auto.
        -- destruct ok; exact I.
      * specialize (Hr' ltac:(discriminate)). rewrite (rel_err_bad _ _ _ (or_introl eq_refl) Hr'). exact I.
      * specialize (Hr' ltac:(discriminate)). rewrite (rel_err_bad _ _ _ (or_intror eq_refl) Hr'). exact I.
    + (* FNumber *)
      cbn [emit app fm ncap_items] in *. apply code_at_cons in Hcode as [H0 Hcode].
      unfold backref. destruct (n <? 1) eqn:En; [intros; exact I|].
      destruct (zth cs (n - 1)) as [[i l]|] eqn:Hz; [|intros; exact I].
      destruct (l =? CAP_UNF) eqn:Eu; [intros; exact I|].
      pose proof (bounded_zth _ _ _ _ Hbd Hz) as (C1 & C2 & C3).
      pose proof Hag as (A0 & A1 & A2). specialize (A2 _ _ Hz). unfold slot_ok in A2.
      replace (2 * (n - 1) + 2) with (n * 2) in A2 by lia.
      replace (2 * (n - 1) + 3) with (n * 2 + 1) in A2 by lia.
      vmstep H0. rewrite Eu in A2.
      destruct (l =? CAP_POS) eqn:Ep.
      * destruct A2 as (S2 & S3 & Sl).
        destruct (n * 2 >=? len m - 1) eqn:E1; [lia|].
        unfold isPosCapture. rewrite S2, odd_2x1. intros _. cbn [rel]. exists sp, m. auto.
      * destruct A2 as (S2 & S3 & Sl).
        destruct (n * 2 >=? len m - 1) eqn:E1; [lia|].
        unfold isPosCapture, capture. rewrite S2, S3, odd_2x, !half_2x.
        assert (Hl : 0 <= l /\ i + l <= len src) by (unfold CAP_POS, CAP_UNF in *; lia).
        destruct ((i >? i + l) || (i + l >? len src)) eqn:E2; [lia|].
        assert (Hlc : len (slice src i (i + l)) = l) by (rewrite slice_len; lia).
        rewrite number_loop_spec by lia. rewrite Hlc. replace (0 + sp) with sp by lia.
        destruct ((sp + l <=? len src) && beqb (slice src i (i + l)) (slice src sp (sp + l))) eqn:E3.
        -- intros Hnf. apply andb_true_iff in E3 as [E3 _].
           apply (IH f ltac:(lia) rest (pc + 1) (sp + l) rl m cs stk); try assumption; try lia.
           apply (bounded_mono cs sp); [lia|assumption].
        -- intros _. cbn [rel]. exists sp, m. auto.
    + (* FBrace *)
      cbn [emit app fm ncap_items] in *. apply code_at_cons in Hcode as [H0 Hcode].
      vmstep H0. destruct ((sp >=? len src) || negb (bget src sp =? b)) eqn:Ec.
      * intros _. cbn [rel]. exists sp, m. auto.
      * destruct (brace_loop src (Z.to_nat (len src - sp)) (sp + 1) 1 b e) as [sp'|] eqn:Eb.
        -- apply brace_loop_bound in Eb. intros Hnf.
           apply (IH f ltac:(lia) rest (pc + 1) sp' rl m cs stk); try assumption; try lia.
           apply (bounded_mono cs sp); [lia|assumption].
        -- intros _. cbn [rel]. exists (len src), m. auto.
Qed.

(* ---------- termination: an explicit fuel bound ---------- *)
Fixpoint icount (items : list fitem) : Z :=
  match items with
  | [] => 0
  | FRepeat ty _ :: r =>
      (if (ty =? 42) || (ty =? 45) then 3 else if (ty =? 43) || (ty =? 63) then 2 else 0) + icount r
  | _ :: r => 1 + icount r
  end.

Lemma icount_nonneg items : 0 <= icount items.
Proof.
  induction items as [|x r IH]; cbn [icount]; [lia|]. destruct x; try lia.
  destruct ((ty =? 42) || (ty =? 45)); [lia|]. destruct ((ty =? 43) || (ty =? 63)); lia.
Qed.

(* depth of the deepest run from an item boundary: one level per instruction still ahead, three
   per subject byte still ahead (a loop round is at most three instructions and eats a byte) *)
Definition depth_bound (items : list fitem) (sp : Z) : Z := icount items + 3 + 3 * (len src - sp).

Lemma epi_no_fuel fuel pc sp rl m :
  code_at pc epi -> 2 <= Z.of_nat fuel -> rl + Z.of_nat fuel <= maxRecursionLevel ->
  vm_run src prog fuel pc sp rl m <> VFuel.
Proof.
  intros Hcode Hf Hrl. destruct fuel as [|f]; [lia|]. unfold epi in Hcode. destruct tail.
  - apply code_at_cons in Hcode as [H0 Hcode]. apply code_at_cons in Hcode as [H1 _].
    vmstep H0. unfold setCapture. nocall.
    destruct f as [|f1]; [lia|]. vmstep H1. destruct (sp >=? len src); discriminate.
  - apply code_at_cons in Hcode as [H0 Hcode]. apply code_at_cons in Hcode as [H1 _].
    vmstep H0. unfold setCapture. nocall.
    destruct f as [|f1]; [lia|]. vmstep H1. discriminate.
Qed.

Lemma vm_no_fuel : forall fuel items pc sp rl m cap gstk,
  code_at pc (emit items pc cap gstk ++ epi) ->
  0 <= sp <= len src -> depth_bound items sp <= Z.of_nat fuel ->
  rl + Z.of_nat fuel <= maxRecursionLevel ->
  vm_run src prog fuel pc sp rl m <> VFuel.
Proof.
  induction fuel as [fuel IH] using lt_wf_ind.
  induction items as [|it rest IHi]; intros pc sp rl m cap gstk Hcode Hsp HD Hrl;
    unfold depth_bound in *;
    [pose proof (icount_nonneg []) as Hic0 | pose proof (icount_nonneg (it :: rest)) as Hic0; pose proof (icount_nonneg rest) as Hic];
    (destruct fuel as [|f]; [lia|]).
  - cbn [emit app icount] in *. unfold epi in Hcode. destruct tail.
    + apply code_at_cons in Hcode as [H0 Hcode]. apply code_at_cons in Hcode as [H1 _].
      vmstep H0. unfold setCapture. nocall.
      destruct f as [|f1]; [lia|]. vmstep H1. destruct (sp >=? len src); discriminate.
    + apply code_at_cons in Hcode as [H0 Hcode]. apply code_at_cons in Hcode as [H1 _].
      vmstep H0. unfold setCapture. nocall.
      destruct f as [|f1]; [lia|]. vmstep H1. discriminate.
  - assert (Hgo : forall f' pc' sp' rl' m' cap' gstk', (f' < S f)%nat ->
               code_at pc' (emit rest pc' cap' gstk' ++ epi) -> sp <= sp' <= len src ->
               icount rest + 3 + 3 * (len src - sp') <= Z.of_nat f' ->
               rl' + Z.of_nat f' <= maxRecursionLevel ->
               vm_run src prog f' pc' sp' rl' m' <> VFuel).
    { intros f' pc' sp' rl' m' cap' gstk' Hf' Hc' Hs' Hd' Hr'.
      apply (IH f' Hf' rest pc' sp' rl' m' cap' gstk'); try assumption; unfold depth_bound; lia. }
    destruct it as [c|ty c| | | |n|b e]; cbn [icount] in HD.
    + cbn [emit app] in Hcode. apply code_at_cons in Hcode as [H0 Hcode].
      rewrite (vm_char f pc sp rl m c H0). destruct (cmatch src c sp) eqn:Ec; [|discriminate].
      pose proof (cmatch_lt _ _ Ec). apply (Hgo f (pc + 1) (sp + 1) rl m cap gstk); try assumption; lia.
    + (* FRepeat *)
      assert (Hloop : forall f' rl' m', (f' < S f)%nat -> sp + 1 <= len src ->
                 icount (FRepeat ty c :: rest) + 3 + 3 * (len src - (sp + 1)) <= Z.of_nat f' ->
                 rl' + Z.of_nat f' <= maxRecursionLevel ->
                 vm_run src prog f' pc (sp + 1) rl' m' <> VFuel).
      { intros f' rl' m' Hf' Hs' Hd' Hr'.
        apply (IH f' Hf' (FRepeat ty c :: rest) pc (sp + 1) rl' m' cap gstk); try assumption; unfold depth_bound; lia. }
      cbn [icount] in Hloop. cbn [emit] in Hcode. unfold emit_repeat in Hcode.
      destruct (ty =? 42) eqn:E42.
      { cbn [orb] in *. rewrite <- app_assoc in Hcode. cbn [app] in Hcode.
        change (len [ISplit (pc + 1) (pc + 3); IChar c; IJmp pc]) with 3 in Hcode.
        apply code_at_cons in Hcode as [H0 Hcode]. apply code_at_cons in Hcode as [H1 Hcode].
        apply code_at_cons in Hcode as [H2 Hcode]. replace (pc + 1 + 1 + 1) with (pc + 3) in Hcode by lia.
        rewrite (vm_split f pc sp rl m _ _ H0). nocall.
        destruct f as [|f1]; [lia|]. rewrite (vm_char f1 (pc + 1) sp (rl + 1) m c H1).
        destruct (cmatch src c sp) eqn:Ec.
        - pose proof (cmatch_lt _ _ Ec). destruct f1 as [|f2]; [lia|].
          rewrite (vm_jmp f2 (pc + 1 + 1) (sp + 1) (rl + 1) m pc H2).
          pose proof (Hloop f2 (rl + 1) m ltac:(lia) ltac:(lia) ltac:(lia) ltac:(lia)) as Hn.
          destruct (vm_run src prog f2 pc (sp + 1) (rl + 1) m) as [[|] nsp m'| | |]; try discriminate; try congruence.
          apply (Hgo (S (S f2)) (pc + 3) sp rl m' cap gstk); try assumption; lia.
        - apply (Hgo (S f1) (pc + 3) sp rl m cap gstk); try assumption; lia. }
      destruct (ty =? 43) eqn:E43.
      { cbn [orb] in *. destruct (ty =? 45) eqn:E45; [lia|]. cbn [orb] in *.
        rewrite <- app_assoc in Hcode. cbn [app] in Hcode. change (len [IChar c; ISplit pc (pc + 2)]) with 2 in Hcode.
        apply code_at_cons in Hcode as [H0 Hcode]. apply code_at_cons in Hcode as [H1 Hcode].
        replace (pc + 1 + 1) with (pc + 2) in Hcode by lia.
        rewrite (vm_char f pc sp rl m c H0). destruct (cmatch src c sp) eqn:Ec; [|discriminate].
        pose proof (cmatch_lt _ _ Ec). destruct f as [|f1]; [lia|].
        rewrite (vm_split f1 (pc + 1) (sp + 1) rl m _ _ H1). nocall.
        pose proof (Hloop f1 (rl + 1) m ltac:(lia) ltac:(lia) ltac:(lia) ltac:(lia)) as Hn.
        destruct (vm_run src prog f1 pc (sp + 1) (rl + 1) m) as [[|] nsp m'| | |]; try discriminate; try congruence.
        apply (Hgo f1 (pc + 2) (sp + 1) rl m' cap gstk); try assumption; lia. }
      destruct (ty =? 45) eqn:E45.
      { cbn [orb] in *. rewrite <- app_assoc in Hcode. cbn [app] in Hcode.
        change (len [ISplit (pc + 3) (pc + 1); IChar c; IJmp pc]) with 3 in Hcode.
        apply code_at_cons in Hcode as [H0 Hcode]. apply code_at_cons in Hcode as [H1 Hcode].
        apply code_at_cons in Hcode as [H2 Hcode]. replace (pc + 1 + 1 + 1) with (pc + 3) in Hcode by lia.
        rewrite (vm_split f pc sp rl m _ _ H0). nocall.
        pose proof (Hgo f (pc + 3) sp (rl + 1) m cap gstk ltac:(lia) Hcode ltac:(lia) ltac:(lia) ltac:(lia)) as Hn.
        destruct (vm_run src prog f (pc + 3) sp (rl + 1) m) as [[|] nsp m'| | |]; try discriminate; try congruence.
        destruct f as [|f1]; [lia|]. rewrite (vm_char f1 (pc + 1) sp rl m' c H1).
        destruct (cmatch src c sp) eqn:Ec; [|discriminate]. pose proof (cmatch_lt _ _ Ec).
        destruct f1 as [|f2]; [lia|]. rewrite (vm_jmp f2 (pc + 1 + 1) (sp + 1) rl m' pc H2).
        apply Hloop; lia. }
      destruct (ty =? 63) eqn:E63.
      { cbn [orb] in *. rewrite <- app_assoc in Hcode. cbn [app] in Hcode.
        change (len [ISplit (pc + 1) (pc + 2); IChar c]) with 2 in Hcode.
        apply code_at_cons in Hcode as [H0 Hcode]. apply code_at_cons in Hcode as [H1 Hcode].
        replace (pc + 1 + 1) with (pc + 2) in Hcode by lia.
        rewrite (vm_split f pc sp rl m _ _ H0). nocall.
        destruct f as [|f1]; [lia|]. rewrite (vm_char f1 (pc + 1) sp (rl + 1) m c H1).
        destruct (cmatch src c sp) eqn:Ec.
        - pose proof (cmatch_lt _ _ Ec). replace (pc + 1 + 1) with (pc + 2) by lia.
          pose proof (Hgo f1 (pc + 2) (sp + 1) (rl + 1) m cap gstk ltac:(lia) Hcode ltac:(lia) ltac:(lia) ltac:(lia)) as Hn.
          destruct (vm_run src prog f1 (pc + 2) (sp + 1) (rl + 1) m) as [[|] nsp m'| | |]; try discriminate; try congruence.
          apply (Hgo (S f1) (pc + 2) sp rl m' cap gstk); try assumption; lia.
        - apply (Hgo (S f1) (pc + 2) sp rl m cap gstk); try assumption; lia. }
      cbn [orb] in *. cbn [app] in Hcode. change (len (@nil inst)) with 0 in Hcode. replace (pc + 0) with pc in Hcode by lia.
      apply (IHi pc sp rl m cap gstk); try assumption; try lia.
    + cbn [emit app] in Hcode. apply code_at_cons in Hcode as [H0 Hcode]. vmstep H0.
      apply (Hgo f (pc + 1) sp rl _ (cap + 2) gstk); try assumption; lia.
    + cbn [emit app] in Hcode. apply code_at_cons in Hcode as [H0 Hcode]. vmstep H0.
      destruct (setCapture m cap sp) as [old m1]. nocall.
      pose proof (Hgo f (pc + 1) sp (rl + 1) m1 (cap + 2) (cap :: gstk) ltac:(lia) Hcode ltac:(lia) ltac:(lia) ltac:(lia)) as Hn.
      destruct (vm_run src prog f (pc + 1) sp (rl + 1) m1) as [[|] nsp m'| | |]; try discriminate; congruence.
    + destruct gstk as [|c0 gstk'].
      * cbn [emit app] in Hcode. (* unbalanced close: compilePattern emitted nothing more; the epilogue follows *)
        apply epi_no_fuel; try assumption; lia.
      * cbn [emit app] in Hcode. apply code_at_cons in Hcode as [H0 Hcode]. vmstep H0.
        destruct (setCapture m (c0 + 1) sp) as [old m1]. nocall.
        pose proof (Hgo f (pc + 1) sp (rl + 1) m1 cap gstk' ltac:(lia) Hcode ltac:(lia) ltac:(lia) ltac:(lia)) as Hn.
        destruct (vm_run src prog f (pc + 1) sp (rl + 1) m1) as [[|] nsp m'| | |]; try discriminate; congruence.
    + cbn [emit app] in Hcode. apply code_at_cons in Hcode as [H0 Hcode]. vmstep H0.
      destruct (n * 2 >=? len m - 1); [discriminate|]. destruct (isPosCapture m (n * 2)); [discriminate|].
      destruct ((capture m (n * 2) >? capture m (n * 2 + 1)) || (capture m (n * 2 + 1) >? len src)); [discriminate|].
      destruct (number_loop src (slice src (capture m (n * 2)) (capture m (n * 2 + 1))) 0 sp) eqn:En; [|discriminate].
      rewrite number_loop_spec in En by lia. apply andb_true_iff in En as [En _].
      pose proof (len_nonneg (slice src (capture m (n * 2)) (capture m (n * 2 + 1)))).
      apply (Hgo f (pc + 1) _ rl m cap gstk); try assumption; lia.
    + cbn [emit app] in Hcode. apply code_at_cons in Hcode as [H0 Hcode]. vmstep H0.
      destruct ((sp >=? len src) || negb (bget src sp =? b)); [discriminate|].
      destruct (brace_loop src (Z.to_nat (len src - sp)) (sp + 1) 1 b e) as [sp'|] eqn:Eb; [|discriminate].
      apply brace_loop_bound in Eb. apply (Hgo f (pc + 1) sp' rl m cap gstk); try assumption; lia.
Qed.
End Sim.

(* ---------- compilePattern = emit on the flattened tree ---------- *)
From GL Require Import Pm.CompileFacts.

Lemma flatten_cap l : flatten (PCap l) = FOpen :: flatten_seq l ++ [FClose].
Proof. reflexivity. Qed.
Lemma ncaps_cap l : ncaps (PCap l) = 1 + ncaps_seq l.
Proof. reflexivity. Qed.
Lemma compile_pat_cap l st :
  compile_pat (PCap l) st =
  let st2 := compile_seq l (fst st ++ [ISave (snd st)], snd st + 2) in
  (fst st2 ++ [ISave (snd st + 1)], snd st2).
Proof. reflexivity. Qed.

Definition emit_split_prop (fl : list fitem) (nc : Z) : Prop :=
  forall rest pos cap stk,
    emit (fl ++ rest) pos cap stk =
    emit fl pos cap stk ++ emit rest (pos + len (emit fl pos cap stk)) (cap + 2 * nc) stk.

Lemma emit_split_nil : emit_split_prop [] 0.
Proof. intros rest pos cap stk. cbn [app emit]. rewrite len_nil. f_equal; lia. Qed.

Lemma emit_split_app a b na nb :
  emit_split_prop a na -> emit_split_prop b nb -> emit_split_prop (a ++ b) (na + nb).
Proof.
  intros Ha Hb rest pos cap stk. rewrite <- app_assoc. rewrite Ha. rewrite Hb.
  rewrite (Ha b). rewrite <- app_assoc. f_equal. rewrite len_app.
  f_equal. f_equal; lia.
Qed.

Lemma emit_split_one it nc :
  (forall rest pos cap stk, emit (it :: rest) pos cap stk =
      emit [it] pos cap stk ++ emit rest (pos + len (emit [it] pos cap stk)) (cap + 2 * nc) stk) ->
  emit_split_prop [it] nc.
Proof. intros H rest pos cap stk. apply H. Qed.

Lemma emit_split_flatten : forall p, emit_split_prop (flatten p) (ncaps p).
Proof.
  induction p using pat_ind'.
  - intros rest pos cap stk. cbn [flatten app emit ncaps]. rewrite len_cons, len_nil. cbn [app]. do 2 f_equal; lia.
  - intros rest pos cap stk. cbn [flatten app emit ncaps]. rewrite app_nil_r. do 2 f_equal; lia.
  - intros rest pos cap stk. cbn [flatten app emit ncaps]. rewrite len_cons, len_nil. cbn [app]. do 2 f_equal; lia.
  - (* PCap *)
    assert (Hl : emit_split_prop (flatten_seq l) (ncaps_seq l)).
    { induction l as [|x r IHr]; cbn [flatten_seq ncaps_seq]; [apply emit_split_nil|].
      inversion H; subst. apply emit_split_app; auto. }
    intros rest pos cap stk. rewrite flatten_cap, ncaps_cap. cbn [app emit].
    rewrite <- app_assoc. rewrite (Hl ([FClose] ++ rest)). rewrite (Hl [FClose]).
    cbn [app emit]. rewrite <- app_assoc. cbn [app]. f_equal. f_equal.
    rewrite len_cons, len_app, len_cons, len_nil. f_equal. f_equal; lia.
  - intros rest pos cap stk. cbn [flatten app emit ncaps]. rewrite len_cons, len_nil. cbn [app]. do 2 f_equal; lia.
  - intros rest pos cap stk. cbn [flatten app emit ncaps]. rewrite len_cons, len_nil. cbn [app]. do 2 f_equal; lia.
Qed.

Lemma emit_split_flatten_seq : forall l, emit_split_prop (flatten_seq l) (ncaps_seq l).
Proof.
  induction l as [|x r IHr]; cbn [flatten_seq ncaps_seq]; [apply emit_split_nil|].
  apply emit_split_app; [apply emit_split_flatten|exact IHr].
Qed.

Definition compile_emit_prop (p : pat) : Prop :=
  forall insts cap stk,
    compile_pat p (insts, cap) = (insts ++ emit (flatten p) (len insts) cap stk, cap + 2 * ncaps p).

Lemma compile_seq_emit_gen l :
  Forall compile_emit_prop l ->
  forall insts cap stk,
    compile_seq l (insts, cap) = (insts ++ emit (flatten_seq l) (len insts) cap stk, cap + 2 * ncaps_seq l).
Proof.
  induction l as [|x r IHr]; intros HF insts cap stk; cbn [compile_seq flatten_seq ncaps_seq emit].
  - rewrite app_nil_r. f_equal. lia.
  - inversion HF; subst. rewrite (H1 insts cap stk). rewrite (IHr H2 _ _ stk).
    rewrite (emit_split_flatten x). rewrite <- app_assoc, len_app. f_equal. lia.
Qed.

Lemma compile_pat_emit : forall p, compile_emit_prop p.
Proof.
  induction p using pat_ind'; intros insts cap stk.
  - cbn [compile_pat flatten emit ncaps fst snd]. f_equal. lia.
  - cbn [compile_pat flatten emit ncaps]. unfold compile_repeat, emit_repeat.
    destruct (ty =? 42); [|destruct (ty =? 43); [|destruct (ty =? 45); [|destruct (ty =? 63)]]];
      cbn [app]; rewrite ?app_nil_r; f_equal; lia.
  - cbn [compile_pat flatten emit ncaps fst snd]. f_equal.
  - rewrite compile_pat_cap, flatten_cap, ncaps_cap. cbn [fst snd emit].
    rewrite (compile_seq_emit_gen l H _ _ (cap :: stk)). cbn [fst snd].
    rewrite (emit_split_flatten_seq l [FClose]). cbn [emit].
    rewrite len_app, len_cons, len_nil. rewrite <- !app_assoc. cbn [app].
    replace (len insts + (1 + 0)) with (len insts + 1) by lia. f_equal. lia.
  - cbn [compile_pat flatten emit ncaps fst snd]. f_equal. lia.
  - cbn [compile_pat flatten emit ncaps fst snd]. f_equal. lia.
Qed.

Lemma compile_seq_emit l insts cap stk :
  compile_seq l (insts, cap) = (insts ++ emit (flatten_seq l) (len insts) cap stk, cap + 2 * ncaps_seq l).
Proof.
  apply compile_seq_emit_gen. rewrite Forall_forall. intros p _. apply compile_pat_emit.
Qed.

Lemma ncap_items_app a b : ncap_items (a ++ b) = ncap_items a + ncap_items b.
Proof. induction a as [|x r IH]; cbn [app ncap_items]; [lia|]. destruct x; lia. Qed.

Lemma ncap_items_flatten : forall p, ncap_items (flatten p) = ncaps p.
Proof.
  induction p using pat_ind'; try reflexivity.
  rewrite flatten_cap, ncaps_cap. cbn [ncap_items]. rewrite ncap_items_app. cbn [ncap_items].
  assert (ncap_items (flatten_seq l) = ncaps_seq l).
  { induction l as [|x r IHr]; cbn [flatten_seq ncaps_seq]; [reflexivity|].
    inversion H; subst. rewrite ncap_items_app. rewrite H2, (IHr H3). reflexivity. }
  lia.
Qed.

Lemma ncap_items_flatten_seq l : ncap_items (flatten_seq l) = ncaps_seq l.
Proof.
  induction l as [|x r IH]; cbn [flatten_seq ncaps_seq]; [reflexivity|].
  rewrite ncap_items_app, ncap_items_flatten, IH. reflexivity.
Qed.

(* ---------- facts about the flat semantics alone: a successful match closes every capture ---------- *)
Fixpoint depth_after (items : list fitem) (d : nat) : option nat :=
  match items with
  | [] => Some d
  | FOpen :: r => depth_after r (S d)
  | FClose :: r => match d with O => None | S d' => depth_after r d' end
  | _ :: r => depth_after r d
  end.

Section FmFacts.
Variable src : bytes.
Variable tail : bool.

Definition unf_in (cs : caps) (stk : list Z) : Prop :=
  forall j i, zth cs j = Some (i, CAP_UNF) -> In j stk.

Lemma star_g_inv k c : forall n sp e cs',
  sp <= len src -> star_g src k c n sp = FMatch e cs' ->
  exists sp', sp <= sp' <= len src /\ k sp' = FMatch e cs'.
Proof.
  induction n as [|n IH]; intros sp e cs' Hsp H; cbn [star_g] in H.
  - exists sp. split; [lia|exact H].
  - destruct (cmatch src c sp) eqn:Ec.
    + pose proof (cmatch_lt src _ _ Ec).
      destruct (star_g src k c n (sp + 1)) eqn:Es; try discriminate.
      * exists sp. split; [lia|exact H].
      * inversion H; subst. destruct (IH (sp + 1) e cs' ltac:(lia) Es) as (sp' & Hb & Hk).
        exists sp'. split; [lia|exact Hk].
    + exists sp. split; [lia|exact H].
Qed.

Lemma star_l_inv k c : forall n sp e cs',
  sp <= len src -> star_l src k c n sp = FMatch e cs' ->
  exists sp', sp <= sp' <= len src /\ k sp' = FMatch e cs'.
Proof.
  induction n as [|n IH]; intros sp e cs' Hsp H; cbn [star_l] in H.
  - destruct (k sp) eqn:Ek; try discriminate. inversion H; subst. exists sp. split; [lia|exact Ek].
  - destruct (k sp) eqn:Ek; try discriminate.
    + destruct (cmatch src c sp) eqn:Ec; [|discriminate]. pose proof (cmatch_lt src _ _ Ec).
      destruct (IH (sp + 1) e cs' ltac:(lia) H) as (sp' & Hb & Hk). exists sp'. split; [lia|exact Hk].
    + inversion H; subst. exists sp. split; [lia|exact Ek].
Qed.

Lemma fm_closed : forall items sp cs stk e cs',
  bounded src cs sp -> stk_ok cs stk -> unf_in cs stk ->
  depth_after items (length stk) = Some O -> 0 <= sp <= len src ->
  fm src tail items sp cs stk = FMatch e cs' ->
  (forall j c, zth cs' j = Some c -> snd c <> CAP_UNF) /\
  len cs' = len cs + ncap_items items /\ sp <= e <= len src.
Proof.
  induction items as [|it rest IH]; intros sp cs stk e cs' Hbd Hstk Hunf Hd Hsp Hfm.
  - cbn [fm depth_after ncap_items] in *. inversion Hd as [Hl]. destruct stk; [|discriminate].
    assert (Hr : e = sp /\ cs' = cs).
    { destruct tail; [destruct (sp >=? len src); [|discriminate]|]; inversion Hfm; auto. }
    destruct Hr as [-> ->]. split; [|lia].
    intros j [i l] Hj Hl'. cbn [snd] in Hl'. subst l. exact (Hunf j i Hj).
  - destruct it as [c|ty c| | | |n|b e0]; cbn [fm depth_after ncap_items] in *.
    + destruct (cmatch src c sp) eqn:Ec; [|discriminate]. pose proof (cmatch_lt src _ _ Ec).
      destruct (IH (sp + 1) cs stk e cs' (bounded_mono src cs sp (sp + 1) ltac:(lia) Hbd) Hstk Hunf Hd ltac:(lia) Hfm) as (A & B0 & C).
      split; [exact A|]. split; lia.
    + set (k := fun sp' => fm src tail rest sp' cs stk) in *.
      assert (Hk : forall sp', sp <= sp' <= len src -> k sp' = FMatch e cs' ->
                (forall j c, zth cs' j = Some c -> snd c <> CAP_UNF) /\
                len cs' = len cs + ncap_items rest /\ sp <= e <= len src).
      { intros sp' Hsp' Hk'. destruct (IH sp' cs stk e cs' (bounded_mono src cs sp sp' ltac:(lia) Hbd) Hstk Hunf Hd ltac:(lia) Hk') as (A & B0 & C).
        split; [exact A|]. split; lia. }
      destruct (ty =? 42).
      { destruct (star_g_inv k c _ sp e cs' ltac:(lia) Hfm) as (sp' & Hb & Hk'). apply (Hk sp'); [lia|exact Hk']. }
      destruct (ty =? 43).
      { destruct (cmatch src c sp) eqn:Ec; [|discriminate]. pose proof (cmatch_lt src _ _ Ec).
        destruct (star_g_inv k c _ (sp + 1) e cs' ltac:(lia) Hfm) as (sp' & Hb & Hk'). apply (Hk sp'); [lia|exact Hk']. }
      destruct (ty =? 45).
      { destruct (star_l_inv k c _ sp e cs' ltac:(lia) Hfm) as (sp' & Hb & Hk'). apply (Hk sp'); [lia|exact Hk']. }
      destruct (ty =? 63).
      { destruct (cmatch src c sp) eqn:Ec.
        - pose proof (cmatch_lt src _ _ Ec).
          change (fm src tail rest (sp + 1) cs stk) with (k (sp + 1)) in Hfm.
          change (fm src tail rest sp cs stk) with (k sp) in Hfm.
          destruct (k (sp + 1)) eqn:Ek1; try discriminate.
          + apply (Hk sp); [lia|exact Hfm].
          + inversion Hfm; subst. apply (Hk (sp + 1)); [lia|exact Ek1].
        - apply (Hk sp); [lia|exact Hfm]. }
      apply (Hk sp); [lia|exact Hfm].
    + (* FPosCap *)
      destruct (IH sp (cs ++ [(sp, CAP_POS)]) stk e cs') as (A & B0 & C); try assumption.
      * apply bounded_snoc; [exact Hbd|]. unfold cap_ok. split; [lia|]. split; [auto|]. unfold CAP_POS, CAP_UNF; lia.
      * apply stk_ok_pos. exact Hstk.
      * intros j i Hj. apply zth_snoc_inv in Hj as [[_ Hj]|[_ Hj]]; [exact (Hunf j i Hj)|]. inversion Hj.
      * split; [exact A|]. rewrite len_app in B0. change (len [(sp, CAP_POS)]) with 1 in B0. split; lia.
    + (* FOpen *)
      destruct (IH sp (cs ++ [(sp, CAP_UNF)]) (len cs :: stk) e cs') as (A & B0 & C); try assumption.
      * apply bounded_snoc; [exact Hbd|]. unfold cap_ok. split; [lia|]. split; [auto|]. lia.
      * apply stk_ok_open. exact Hstk.
      * intros j i Hj. apply zth_snoc_inv in Hj as [[_ Hj]|[-> _]]; [right; exact (Hunf j i Hj)|left; reflexivity].
      * split; [exact A|]. rewrite len_app in B0. change (len [(sp, CAP_UNF)]) with 1 in B0. split; lia.
    + (* FClose *)
      destruct stk as [|j stk']; [discriminate|]. cbn [length] in Hd.
      destruct Hstk as [Hnd Hs]. destruct (Hs j (or_introl eq_refl)) as [i Hj]. rewrite Hj in Hfm.
      pose proof (bounded_zth src _ _ _ _ Hbd Hj) as (C1 & C2 & C3). specialize (C3 eq_refl).
      destruct (IH sp (set_len cs j (sp - i)) stk' e cs') as (A & B0 & C); try assumption.
      * apply bounded_set_len; [assumption|assumption|lia].
      * apply (stk_ok_close cs stk' j). split; assumption.
      * intros j' i' Hj'. rewrite zth_set_len in Hj'. destruct (j' =? j) eqn:E.
        -- rewrite Hj in Hj'. inversion Hj'. unfold CAP_UNF in *. lia.
        -- destruct (Hunf j' i' Hj') as [<-|Hin]; [lia|exact Hin].
      * split; [exact A|]. rewrite len_set_len in B0. split; lia.
    + (* FNumber *)
      unfold backref in Hfm. destruct (n <? 1); [discriminate|].
      destruct (zth cs (n - 1)) as [[i l]|] eqn:Hz; [|discriminate].
      destruct (l =? CAP_UNF) eqn:Eu; [discriminate|]. destruct (l =? CAP_POS) eqn:Ep; [discriminate|].
      pose proof (bounded_zth src _ _ _ _ Hbd Hz) as (C1 & C2 & C3).
      destruct ((sp + l <=? len src) && beqb (slice src i (i + l)) (slice src sp (sp + l))) eqn:E3; [|discriminate].
      apply andb_true_iff in E3 as [E3 _].
      assert (0 <= l) by (unfold CAP_POS, CAP_UNF in *; lia).
      destruct (IH (sp + l) cs stk e cs' (bounded_mono src cs sp (sp + l) ltac:(lia) Hbd) Hstk Hunf Hd ltac:(lia) Hfm) as (A & B0 & C).
      split; [exact A|]. split; lia.
    + (* FBrace *)
      destruct ((sp >=? len src) || negb (bget src sp =? b)); [discriminate|].
      destruct (brace_loop src (Z.to_nat (len src - sp)) (sp + 1) 1 b e0) as [sp'|] eqn:Eb; [|discriminate].
      apply brace_loop_bound in Eb.
      destruct (IH sp' cs stk e cs' (bounded_mono src cs sp sp' ltac:(lia) Hbd) Hstk Hunf Hd ltac:(lia) Hfm) as (A & B0 & C).
      split; [exact A|]. split; lia.
Qed.
End FmFacts.

Definition depth_neutral (fl : list fitem) : Prop :=
  forall rest d, depth_after (fl ++ rest) d = depth_after rest d.

Lemma depth_neutral_app a b : depth_neutral a -> depth_neutral b -> depth_neutral (a ++ b).
Proof. intros Ha Hb rest d. rewrite <- app_assoc. rewrite Ha. apply Hb. Qed.

Lemma depth_flatten : forall p, depth_neutral (flatten p).
Proof.
  induction p using pat_ind'; try (intros rest d; reflexivity).
  assert (Hl : depth_neutral (flatten_seq l)).
  { induction l as [|x r IHr]; cbn [flatten_seq]; [intros rest d; reflexivity|].
    inversion H; subst. apply depth_neutral_app; auto. }
  intros rest d. rewrite flatten_cap. cbn [app depth_after]. rewrite <- app_assoc. rewrite Hl. reflexivity.
Qed.

Lemma depth_flatten_seq : forall l, depth_neutral (flatten_seq l).
Proof.
  induction l as [|x r IH]; cbn [flatten_seq]; [intros rest d; reflexivity|].
  apply depth_neutral_app; [apply depth_flatten|exact IH].
Qed.

(* the program compilePattern builds *)
Lemma goCompile_emit (p : seqpat) :
  goCompile p = ISave 0 :: (emit (flatten_seq (patterns p)) 1 2 [] ++ epi (must_tail p)).
Proof.
  unfold goCompile. rewrite (compile_seq_emit (patterns p) [ISave 0] 2 []). cbn [fst].
  change (len [ISave 0]) with 1. unfold epi. destruct (must_tail p); cbn [app]; rewrite <- ?app_assoc; reflexivity.
Qed.

(* VM side of the refinement: one recursiveVM call from pc 0 computes the flat semantics *)
Lemma goVM_flat (p : seqpat) (src : bytes) (sp0 : Z) (fuel : nat) :
  0 <= sp0 <= len src ->
  1 + Z.of_nat fuel <= maxRecursionLevel ->
  goVM src (goCompile p) fuel 0 sp0 <> VFuel ->
  match fm src (must_tail p) (flatten_seq (patterns p)) sp0 [] [] with
  | FFail => exists sp' m', goVM src (goCompile p) fuel 0 sp0 = VRet false sp' m'
  | FMatch e cs =>
      exists m', goVM src (goCompile p) fuel 0 sp0 = VRet true e m' /\
                 agree sp0 m' cs /\ mget m' 1 = 2 * e /\
                 len m' = 2 + 2 * ncaps_seq (patterns p) /\
                 len cs = ncaps_seq (patterns p) /\
                 (forall j c, zth cs j = Some c -> snd c <> CAP_UNF) /\ sp0 <= e <= len src
  | FBad => True
  end.
Proof.
  intros Hsp Hrl. unfold goVM.
  set (items := flatten_seq (patterns p)). set (tail := must_tail p).
  set (N := ncaps_seq (patterns p)). set (prog := goCompile p).
  assert (Hprog : prog = ISave 0 :: (emit items 1 2 [] ++ epi tail)) by apply goCompile_emit.
  assert (Hcode : code_at prog 1 (emit items 1 (2 + 2 * len (@nil (Z * Z))) (gslots []) ++ epi tail)).
  { intros i ins Hi. pose proof (zth_some_range _ _ _ Hi). rewrite Hprog.
    rewrite zth_cons by lia. replace (1 + i - 1) with i by lia. exact Hi. }
  assert (HN : ncap_items items = N) by apply ncap_items_flatten_seq.
  assert (HNn : 0 <= N) by (rewrite <- HN; apply ncap_items_nonneg).
  destruct fuel as [|f]; [cbn [vm_run]; congruence|].
  assert (H0 : zth prog 0 = Some (ISave 0)) by (rewrite Hprog; reflexivity).
  cbn [vm_run]. rewrite H0.
  assert (Hsc : setCapture [] 0 sp0 = (0, [2 * sp0])) by reflexivity. rewrite Hsc.
  destruct (1 + 1 >? maxRecursionLevel) eqn:E1; [unfold maxRecursionLevel in E1; lia|].
  change (0 + 1) with 1.
  assert (Hag0 : agree sp0 [2 * sp0] []).
  { split; [reflexivity|]. split; [reflexivity|]. intros j c Hj. rewrite zth_nil in Hj. discriminate. }
  pose proof (sim src prog tail (2 + 2 * N) sp0 f items 1 sp0 (1 + 1) [2 * sp0] [] [] Hcode) as Hsim.
  change (len (@nil (Z * Z))) with 0 in Hsim.
  specialize (Hsim ltac:(lia) Hag0). change (len [2 * sp0]) with 1 in Hsim.
  specialize (Hsim ltac:(lia) (Forall_nil _)).
  assert (Hstk0 : stk_ok [] []) by (split; [constructor|intros j []]).
  specialize (Hsim Hstk0 Hsp ltac:(lia)).
  pose proof (fm_closed src tail items sp0 [] [] ) as Hcl.
  destruct (vm_run src prog f 1 sp0 (1 + 1) [2 * sp0]) as [ok nsp m'| | |] eqn:Ev; try congruence; intros _.
  - specialize (Hsim ltac:(discriminate)).
    destruct (fm src tail items sp0 [] []) as [|e cs|] eqn:Ef; cbn [rel] in Hsim.
    + destruct Hsim as (sp' & m'' & Hv & _). inversion Hv; subst. eexists _, _. reflexivity.
    + destruct Hsim as (m'' & Hv & Ha & H1 & Hl). inversion Hv; subst ok nsp m''.
      destruct (Hcl e cs (Forall_nil _) Hstk0) as (Hclosed & Hlen & He).
      { intros j i Hj. rewrite zth_nil in Hj. discriminate. }
      { unfold items. pose proof (depth_flatten_seq (patterns p) [] O) as Hd. rewrite app_nil_r in Hd. exact Hd. }
      { exact Hsp. }
      { reflexivity. }
      change (len (@nil (Z * Z))) with 0 in Hlen. rewrite HN in Hlen.
      exists m'. split; [reflexivity|]. split; [exact Ha|]. split; [exact H1|].
      split; [|split; [lia|split; [exact Hclosed|exact He]]].
      destruct (Z.eq_dec N 0) as [HN0|HN0]; [lia|].
      destruct (zth_in_range cs (N - 1) ltac:(lia)) as [[i l] Hj].
      pose proof (Hclosed _ _ Hj) as Hnu. cbn [snd] in Hnu.
      destruct Ha as (_ & _ & A2). specialize (A2 _ _ Hj). unfold slot_ok in A2.
      destruct (l =? CAP_POS); [lia|]. destruct (l =? CAP_UNF) eqn:Eu; [lia|]. lia.
    + destruct ok; exact I.
  - specialize (Hsim ltac:(discriminate)). rewrite (rel_err_bad _ _ _ _ _ (or_introl eq_refl) Hsim). exact I.
  - specialize (Hsim ltac:(discriminate)). rewrite (rel_err_bad _ _ _ _ _ (or_intror eq_refl) Hsim). exact I.
Qed.

(* ---------- vm_fuel is enough ---------- *)
Lemma icount_app a b : icount (a ++ b) = icount a + icount b.
Proof. induction a as [|x r IH]; cbn [app icount]; [lia|]. destruct x; lia. Qed.

Lemma emit_len_flatten : forall p pos cap stk, len (emit (flatten p) pos cap stk) = icount (flatten p).
Proof.
  induction p using pat_ind'; intros pos cap stk; try reflexivity.
  - cbn [flatten emit icount]. rewrite app_nil_r. unfold emit_repeat.
    destruct (ty =? 42) eqn:E1; [reflexivity|]. destruct (ty =? 43) eqn:E2; cbn [orb].
    { destruct (ty =? 45) eqn:E3; [lia|reflexivity]. }
    destruct (ty =? 45) eqn:E3; [reflexivity|]. destruct (ty =? 63); reflexivity.
  - assert (Hl : forall pos cap stk, len (emit (flatten_seq l) pos cap stk) = icount (flatten_seq l)).
    { induction l as [|x r IHr]; intros pos0 cap0 stk0; cbn [flatten_seq]; [reflexivity|].
      inversion H; subst. rewrite (emit_split_flatten x). rewrite len_app, icount_app. rewrite H2, (IHr H3). reflexivity. }
    rewrite flatten_cap. cbn [emit icount]. rewrite (emit_split_flatten_seq l [FClose]). cbn [emit].
    rewrite len_cons, len_app, Hl, icount_app. cbn [icount]. rewrite len_cons, len_nil. lia.
Qed.

Lemma emit_len_flatten_seq : forall l pos cap stk, len (emit (flatten_seq l) pos cap stk) = icount (flatten_seq l).
Proof.
  induction l as [|x r IH]; intros pos cap stk; cbn [flatten_seq]; [reflexivity|].
  rewrite (emit_split_flatten x). rewrite len_app, icount_app, emit_len_flatten, IH. reflexivity.
Qed.

Lemma goVM_terminates (p : seqpat) (src : bytes) (sp0 : Z) :
  0 <= sp0 <= len src ->
  1 + Z.of_nat (vm_fuel src (goCompile p)) <= maxRecursionLevel ->
  goVM src (goCompile p) (vm_fuel src (goCompile p)) 0 sp0 <> VFuel.
Proof.
  intros Hsp Hrl. unfold goVM.
  set (items := flatten_seq (patterns p)). set (tail := must_tail p). set (prog := goCompile p) in *.
  assert (Hprog : prog = ISave 0 :: (emit items 1 2 [] ++ epi tail)) by apply goCompile_emit.
  assert (Hcode : code_at prog 1 (emit items 1 2 [] ++ epi tail)).
  { intros i ins Hi. pose proof (zth_some_range _ _ _ Hi). rewrite Hprog.
    rewrite zth_cons by lia. replace (1 + i - 1) with i by lia. exact Hi. }
  assert (Hlen : len prog = 1 + icount items + len (epi tail)).
  { rewrite Hprog, len_cons, len_app. unfold items. rewrite emit_len_flatten_seq. lia. }
  assert (Hepi : 2 <= len (epi tail)) by (unfold epi; destruct tail; cbn; lia).
  assert (Hfuel : icount items + 3 + 3 * (len src - sp0) + 1 <= Z.of_nat (vm_fuel src prog)).
  { unfold vm_fuel. rewrite Nat2Z.inj_add, !Nat2Z.inj_mul, !Nat2Z.inj_add.
    change (Z.of_nat (length prog)) with (len prog). change (Z.of_nat (length src)) with (len src).
    pose proof (icount_nonneg items). pose proof (len_nonneg src).
    assert (0 <= len prog * len src) by (apply Z.mul_nonneg_nonneg; lia).
    cbn [Z.of_nat Pos.of_succ_nat Pos.succ].
    generalize dependent (len prog). generalize dependent (len src). generalize dependent (icount items).
    generalize dependent (len (epi tail)). clear. intros E HE I HI Bz Hsp HBz A HA Hprod.
    replace ((A + 2) * (Bz + 2) * 4 + 16) with (4 * (A * Bz) + 8 * A + 8 * Bz + 32) by ring. lia. }
  pose proof (icount_nonneg items) as Hicn.
  destruct (vm_fuel src prog) as [|f] eqn:Ef; [lia|].
  assert (H0 : zth prog 0 = Some (ISave 0)) by (rewrite Hprog; reflexivity).
  cbn [vm_run]. rewrite H0.
  assert (Hsc : setCapture [] 0 sp0 = (0, [2 * sp0])) by reflexivity. rewrite Hsc.
  destruct (1 + 1 >? maxRecursionLevel) eqn:E1; [unfold maxRecursionLevel in E1; lia|].
  change (0 + 1) with 1.
  pose proof (vm_no_fuel src prog tail f items 1 sp0 (1 + 1) [2 * sp0] 2 [] Hcode Hsp) as Hn.
  unfold depth_bound in Hn. specialize (Hn ltac:(lia) ltac:(lia)).
  destruct (vm_run src prog f 1 sp0 (1 + 1) [2 * sp0]) as [[|] nsp m'| | |]; try discriminate; congruence.
Qed.
