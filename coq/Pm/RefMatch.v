(* C14 — SPECIFICATION: the Lua 5.1 pattern matcher (lstrlib.c of Lua 5.1.4:
   match, max_expand, min_expand, start_capture, end_capture, match_capture, matchbalance,
   singlematch, matchbracketclass, classEnd, str_find_aux, gmatch, str_gsub/add_value/add_s)
   as total fuelled Gallina functions over pattern BYTES and subject bytes.
   Positions are 0-based offsets (C pointers minus the base).  No proofs in this file.

   Conventions: the pattern is a C string (pget reads 0 at/after the end; patterns with an
   embedded NUL are outside the domain, Lua 5.1 manual 5.4.1).  `%f` (undocumented in 5.1)
   gives RUnsup.  Errors raised with luaL_error abort the whole call: RErr propagates. *)
From GL Require Import Common.Bytes Pm.Class Pm.PmTypes.

Definition caps := list (Z * Z).          (* (init, len) ; len = -1 unfinished, -2 position *)
Definition CAP_UNF : Z := -1.
Definition CAP_POS : Z := -2.
Definition MAXCAPTURES : Z := 32.

Inductive rres := RFail | RMatch (e : Z) (cs : caps) | RErr | RUnsup | RFuel.

Fixpoint last_unf (cs : caps) (i : Z) (acc : option Z) : option Z :=
  match cs with
  | [] => acc
  | (_, l) :: r => last_unf r (i + 1) (if l =? CAP_UNF then Some i else acc)
  end.

Fixpoint set_len (cs : caps) (l n : Z) : caps :=
  match cs with
  | [] => []
  | (i, x) :: r => if l =? 0 then (i, n) :: r else (i, x) :: set_len r (l - 1) n
  end.

Section Ref.
Variable pat : bytes.
Variable src : bytes.
Let slen := len src.

Definition Pa (i : Z) : Z := pget pat i.
Definition Su (i : Z) : Z := pget src i.

(* classEnd: index just after the single-char class starting at p; None = luaL_error *)
Fixpoint set_end (fuel : nat) (p : Z) : option Z :=   (* the do-while of case '[' *)
  match fuel with
  | O => None
  | S f =>
      if Pa p =? 0 then None                                   (* missing ']' *)
      else
        let p1 := p + 1 in
        let p2 := if (Pa p =? 37) && negb (Pa p1 =? 0) then p1 + 1 else p1 in
        if Pa p2 =? 93 then Some (p2 + 1) else set_end f p2
  end.

Definition classEnd (p : Z) : option Z :=
  let c := Pa p in
  let p1 := p + 1 in
  if c =? 37 then (if Pa p1 =? 0 then None else Some (p1 + 1))   (* ends with '%' *)
  else if c =? 91 then
    set_end (Z.to_nat (len pat) + 1) (if Pa p1 =? 94 then p1 + 1 else p1)
  else Some p1.

(* matchbracketclass c p ec, p = index of '[', ec = index of the closing ']' *)
Fixpoint mbc_loop (fuel : nat) (c p ec : Z) (sig : bool) : bool :=
  match fuel with
  | O => negb sig
  | S f =>
      let p := p + 1 in                                         (* while (++p < ec) *)
      if p <? ec then
        if Pa p =? 37 then
          let p := p + 1 in
          if ref_match_class c (Pa p) then sig else mbc_loop f c p ec sig
        else if (Pa (p + 1) =? 45) && (p + 2 <? ec) then
          let p := p + 2 in
          if (Pa (p - 2) <=? c) && (c <=? Pa p) then sig else mbc_loop f c p ec sig
        else if Pa p =? c then sig else mbc_loop f c p ec sig
      else negb sig
  end.

Definition matchbracketclass (c p ec : Z) : bool :=
  let '(sig, p) := if Pa (p + 1) =? 94 then (false, p + 1) else (true, p) in
  mbc_loop (Z.to_nat (ec - p) + 1) c p ec sig.

(* singlematch(c, p, ep) preceded by the test s < src_end *)
Definition singlematch (s p ep : Z) : bool :=
  if s <? slen then
    let c := Su s in
    let pc := Pa p in
    if pc =? 46 then true
    else if pc =? 37 then ref_match_class c (Pa (p + 1))
    else if pc =? 91 then matchbracketclass c p (ep - 1)
    else pc =? c
  else false.

(* matchbalance: Some s' (after the closing char) | None (no match). p = index of the 2 chars *)
Fixpoint balance_loop (n : nat) (s b e cont : Z) : option Z :=
  match n with
  | O => None
  | S k =>
      let s := s + 1 in                                         (* while (++s < src_end) *)
      if s <? slen then
        if Su s =? e then (if cont - 1 =? 0 then Some (s + 1) else balance_loop k s b e (cont - 1))
        else if Su s =? b then balance_loop k s b e (cont + 1)
        else balance_loop k s b e cont
      else None
  end.

Definition matchbalance (s p : Z) : option Z :=
  if (s <? slen) && (Su s =? Pa p) then balance_loop (Z.to_nat (slen - s) + 1) s (Pa p) (Pa (p + 1)) 1
  else None.
  (* C reads *s even at src_end (the NUL terminator); a pattern byte is never 0, so the
     comparison fails there as it does here *)

Section Body.
Variable rec : Z -> Z -> caps -> rres.     (* match(ms, s, p) at the next recursion level *)

Fixpoint max_count (n : nat) (s p ep : Z) : nat :=
  match n with
  | O => O
  | S k => if singlematch s p ep then S (max_count k (s + 1) p ep) else O
  end.

Fixpoint max_try (i : nat) (s ep : Z) (cs : caps) : rres :=
  match rec (s + Z.of_nat i) (ep + 1) cs with
  | RFail => match i with O => RFail | S j => max_try j s ep cs end
  | r => r
  end.

Definition max_expand (s p ep : Z) (cs : caps) : rres :=
  max_try (max_count (Z.to_nat (slen - s)) s p ep) s ep cs.

Fixpoint min_expand (n : nat) (s p ep : Z) (cs : caps) : rres :=
  match n with
  | O => RFuel
  | S k =>
      match rec s (ep + 1) cs with
      | RFail => if singlematch s p ep then min_expand k (s + 1) p ep cs else RFail
      | r => r
      end
  end.

Definition start_capture (s p what : Z) (cs : caps) : rres :=
  if len cs >=? MAXCAPTURES then RErr                         (* too many captures *)
  else rec s p (cs ++ [(s, what)]).

Definition end_capture (s p : Z) (cs : caps) : rres :=
  match last_unf cs 0 None with
  | None => RErr                                              (* invalid pattern capture *)
  | Some l =>
      match zth cs l with
      | Some (i, _) => rec s p (set_len cs l (s - i))
      | None => RErr
      end
  end.

(* match_capture: l = the digit character *)
Definition match_capture (s l : Z) (cs : caps) : res (option Z) :=
  let l := l - 49 in
  match (if (l <? 0) || (l >=? len cs) then None else zth cs l) with
  | None => Err
  | Some (i, n) =>
      if n =? CAP_UNF then Err                                (* invalid capture index *)
      else if (0 <=? n) && (slen - s >=? n) && beqb (slice src i (i + n)) (slice src s (s + n))
           then Ok (Some (s + n)) else Ok None                (* n = CAP_POSITION: (size_t)-2 is huge *)
  end.

Definition match_default (s p : Z) (cs : caps) : rres :=
  match classEnd p with
  | None => RErr
  | Some ep =>
      let m := singlematch s p ep in
      let e := Pa ep in
      if e =? 63 then                                          (* ? *)
        if m then match rec (s + 1) (ep + 1) cs with RFail => rec s (ep + 1) cs | r => r end
        else rec s (ep + 1) cs
      else if e =? 42 then max_expand s p ep cs                (* * *)
      else if e =? 43 then (if m then max_expand (s + 1) p ep cs else RFail)   (* + *)
      else if e =? 45 then min_expand (Z.to_nat (slen - s) + 1) s p ep cs      (* - *)
      else if m then rec (s + 1) ep cs else RFail
  end.

Definition match_body (s p : Z) (cs : caps) : rres :=
  let c := Pa p in
  if c =? 0 then RMatch s cs                                   (* end of pattern *)
  else if c =? 40 then                                         (* ( *)
    if Pa (p + 1) =? 41 then start_capture s (p + 2) CAP_POS cs
    else start_capture s (p + 1) CAP_UNF cs
  else if c =? 41 then end_capture s (p + 1) cs                (* ) *)
  else if c =? 37 then                                         (* % *)
    let d := Pa (p + 1) in
    if d =? 98 then                                            (* %b *)
      if (Pa (p + 2) =? 0) || (Pa (p + 3) =? 0) then RErr        (* unbalanced pattern *)
      else match matchbalance s (p + 2) with
           | Some s' => rec s' (p + 4) cs
           | None => RFail
           end
    else if d =? 102 then RUnsup                               (* %f: outside the 5.1 manual *)
    else if c_isdigit d then
      match match_capture s d cs with
      | Ok (Some s') => rec s' (p + 2) cs
      | Ok None => RFail
      | _ => RErr
      end
    else match_default s p cs
  else if (c =? 36) && (Pa (p + 1) =? 0) then                   (* $ at the end of the pattern *)
    if s =? slen then RMatch s cs else RFail
  else match_default s p cs.
End Body.

Fixpoint do_match (fuel : nat) (s p : Z) (cs : caps) : rres :=
  match fuel with
  | O => RFuel
  | S f => match_body (do_match f) s p cs
  end.

(* every recursive call moves p forward, so len pat + 2 levels suffice *)
Definition match_fuel : nat := Z.to_nat (len pat) + 2.
Definition ref_match (s p : Z) : rres := do_match match_fuel s p [].

(* get_onecapture / push_onecapture; s e = extent of the whole match *)
Definition onecapture (cs : caps) (i s e : Z) : res lval :=
  if i >=? len cs then
    if i =? 0 then Ok (VStr (slice src s e)) else Err           (* invalid capture index *)
  else match zth cs i with
       | Some (ci, l) =>
           if l =? CAP_UNF then Err                              (* unfinished capture *)
           else if l =? CAP_POS then Ok (VNum (ci + 1))
           else Ok (VStr (slice src ci (ci + l)))
       | None => Err
       end.

Fixpoint push_from (cs : caps) (n : nat) (i s e : Z) : res (list lval) :=
  match n with
  | O => Ok []
  | S k =>
      match onecapture cs i s e with
      | Ok v => match push_from cs k (i + 1) s e with Ok r => Ok (v :: r) | x => x end
      | Err => Err | Panic => Panic | Fuel => Fuel | Unsup => Unsup
      end
  end.

(* push_captures(ms, s, e); whole = (s != NULL) *)
Definition push_captures (cs : caps) (whole : bool) (s e : Z) : res (list lval) :=
  let n := if (len cs =? 0) && whole then 1%nat else length cs in
  push_from cs n 0 s e.
End Ref.

Definition lift_rres {A} (r : rres) (k : Z -> caps -> res A) (nomatch : res A) : res A :=
  match r with
  | RMatch e cs => k e cs
  | RFail => nomatch
  | RErr => Err
  | RUnsup => Unsup
  | RFuel => Fuel
  end.

(* posrelat *)
Definition posrelat (pos l : Z) : Z :=
  let pos := if pos <? 0 then pos + l + 1 else pos in
  if pos >=? 0 then pos else 0.

(* str_find_aux without the plain-search shortcut (for a pattern without specials the
   shortcut returns the same positions as the matcher) *)
Fixpoint find_scan (n : nat) (pat src : bytes) (isfind anchor : bool) (p0 s1 : Z) : res (list lval) :=
  match n with
  | O => Fuel
  | S k =>
      match ref_match pat src s1 p0 with
      | RMatch e cs =>
          if isfind then
            match push_captures src cs false 0 0 with
            | Ok l => Ok (VNum (s1 + 1) :: VNum e :: l)
            | x => x
            end
          else push_captures src cs true s1 e
      | RFail => if (s1 <? len src) && negb anchor then find_scan k pat src isfind anchor p0 (s1 + 1)
                 else Ok [VNil]
      | RErr => Err | RUnsup => Unsup | RFuel => Fuel
      end
  end.

Definition ref_find_aux (isfind : bool) (src pat : bytes) (init : Z) : res (list lval) :=
  let l1 := len src in
  let i := posrelat init l1 - 1 in
  let i := if i <? 0 then 0 else if i >? l1 then l1 else i in
  let anchor := pget pat 0 =? 94 in
  find_scan (Z.to_nat (l1 - i) + 2) pat src isfind anchor (if anchor then 1 else 0) i.

Definition ref_find := ref_find_aux true.
Definition ref_smatch := ref_find_aux false.

(* gmatch: the list of value tuples the iterator yields ('^' is NOT an anchor here) *)
Fixpoint gmatch_scan (n : nat) (pat src : bytes) (s : Z) : res (list (list lval)) :=
  match n with
  | O => Fuel
  | S k =>
      if s >? len src then Ok []
      else match ref_match pat src s 0 with
           | RMatch e cs =>
               match push_captures src cs true s e with
               | Ok vs =>
                   match gmatch_scan k pat src (if e =? s then e + 1 else e) with
                   | Ok r => Ok (vs :: r)
                   | x => x
                   end
               | Err => Err | Panic => Panic | Fuel => Fuel | Unsup => Unsup
               end
           | RFail => gmatch_scan k pat src (s + 1)
           | RErr => Err | RUnsup => Unsup | RFuel => Fuel
           end
  end.

Definition ref_gmatch (src pat : bytes) : res (list (list lval)) :=
  gmatch_scan (Z.to_nat (len src) + 2) pat src 0.

(* add_s: expand the replacement string for one match *)
Fixpoint add_s (n : nat) (src news : bytes) (cs : caps) (i s e : Z) : res bytes :=
  match n with
  | O => Fuel
  | S k =>
      if i >=? len news then Ok []
      else
        let c := pget news i in
        if negb (c =? 37) then
          match add_s k src news cs (i + 1) s e with Ok r => Ok (c :: r) | x => x end
        else
          let d := pget news (i + 1) in                      (* the NUL terminator when i+1 = l *)
          match (if negb (c_isdigit d) then Ok [d]
                 else if d =? 48 then Ok (slice src s e)
                 else match onecapture src cs (d - 49) s e with
                      | Ok v => Ok (lval_to_bytes v)
                      | Err => Err | Panic => Panic | Fuel => Fuel | Unsup => Unsup
                      end) with
          | Ok piece => match add_s k src news cs (i + 2) s e with Ok r => Ok (piece ++ r) | x => x end
          | x => x
          end
  end.

(* add_value: replacement text for one match and the call record; ncall = calls made so far *)
Definition add_value (src : bytes) (r : repl) (cs : caps) (s e : Z) (ncall : nat)
  : res (bytes * list (list lval)) :=
  match r with
  | RStr news =>
      match add_s (length news + 1) src news cs 0 s e with
      | Ok b => Ok (b, [])
      | Err => Err | Panic => Panic | Fuel => Fuel | Unsup => Unsup
      end
  | RTab t =>
      match onecapture src cs 0 s e with
      | Ok k => match tab_get t k with
                | RSome v => Ok (v, [])
                | RNone => Ok (slice src s e, [])
                | RBad => Err                                   (* invalid replacement value *)
                end
      | Err => Err | Panic => Panic | Fuel => Fuel | Unsup => Unsup
      end
  | RFn rets =>
      match push_captures src cs true s e with
      | Ok args => match nth ncall rets RNone with
                   | RSome v => Ok (v, [args])
                   | RNone => Ok (slice src s e, [args])
                   | RBad => Err
                   end
      | Err => Err | Panic => Panic | Fuel => Fuel | Unsup => Unsup
      end
  end.

Fixpoint gsub_scan (fuel : nat) (pat src : bytes) (r : repl) (anchor : bool) (p0 : Z)
         (s n max_s : Z) (ncall : nat) : res gsub_out :=
  match fuel with
  | O => Fuel
  | S k =>
      if n <? max_s then
        match ref_match pat src s p0 with
        | RMatch e cs =>
            match add_value src r cs s e ncall with
            | Ok (piece, calls) =>
                let ncall' := (ncall + length calls)%nat in
                let n' := n + 1 in
                (* if (e && e>src) src = e; else if (src<end) addchar(src[0]), src++; else break *)
                if e >? s then
                  if anchor then Ok (piece ++ slice src e (len src), n', calls)
                  else match gsub_scan k pat src r anchor p0 e n' max_s ncall' with
                       | Ok (b, cnt, cl) => Ok (piece ++ b, cnt, calls ++ cl)
                       | x => x
                       end
                else if s <? len src then
                  if anchor then Ok (piece ++ slice src s (len src), n', calls)
                  else match gsub_scan k pat src r anchor p0 (s + 1) n' max_s ncall' with
                       | Ok (b, cnt, cl) => Ok (piece ++ pget src s :: b, cnt, calls ++ cl)
                       | x => x
                       end
                else Ok (piece, n', calls)
            | Err => Err | Panic => Panic | Fuel => Fuel | Unsup => Unsup
            end
        | RFail =>
            if s <? len src then
              if anchor then Ok (slice src s (len src), n, [])
              else match gsub_scan k pat src r anchor p0 (s + 1) n max_s ncall with
                   | Ok (b, cnt, cl) => Ok (pget src s :: b, cnt, cl)
                   | x => x
                   end
            else Ok ([], n, [])
        | RErr => Err | RUnsup => Unsup | RFuel => Fuel
        end
      else Ok (slice src s (len src), n, [])
  end.

(* str_gsub; olimit = the optional 4th argument *)
Definition ref_gsub (src pat : bytes) (r : repl) (olimit : option Z) : res gsub_out :=
  let max_s := match olimit with Some m => m | None => len src + 1 end in
  let anchor := pget pat 0 =? 94 in
  gsub_scan (Z.to_nat (len src) + 2) pat src r anchor (if anchor then 1 else 0) 0 0 max_s 0.
