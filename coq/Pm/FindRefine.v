(* C14 — end to end for string.find: for a printable pattern that the parser maps back to its
   tree, the transcription of strFind returns exactly what lstrlib's str_find_aux returns. *)
From GL Require Import Common.Bytes Common.BytesFacts Pm.Class Pm.PmTypes Pm.RefMatch
     Pm.GoParse Pm.GoCompile Pm.GoVM Pm.Find Pm.Gsub Pm.Flat Pm.ClassFacts Pm.CompileFacts Pm.VMFacts
     Pm.RefFacts Pm.SetFacts Pm.PmRefine Pm.PrintFacts.
From Coq Require Import Lia ZifyBool.

(* ---- init normalisation: luaIndex2StringIndex + clip = posrelat - 1 + clip ---- *)
Lemma init_norm l i : 0 <= l ->
  (let x := luaIndex2StringIndexStart l i in if x >? l then l else x) =
  (let j := posrelat i l - 1 in if j <? 0 then 0 else if j >? l then l else j).
Proof.
  intros Hl. unfold luaIndex2StringIndexStart, posrelat. cbv zeta.
  destruct (i =? 0) eqn:E0; cbn [negb]; destruct (i <? 0) eqn:E1.
  all: repeat match goal with |- context [if ?c then _ else _] => destruct c eqn:? end.
  all: repeat match goal with H : context [if ?c then _ else _] |- _ => destruct c eqn:? end.
  all: lia.
Qed.

(* ---- the parser sets MustHead exactly when the text starts with '^' ---- *)
Lemma goParse_head pb p : goParse pb = ParseOk p -> must_head p = (pget pb 0 =? 94).
Proof.
  unfold goParse. destruct (sc_peek pb sc_init) as [ch s1] eqn:Ep.
  assert (Hch : (ch =? 94) = (pget pb 0 =? 94)).
  { unfold sc_peek, sc_next, sc_init, EOS in Ep. cbn [sc_pos sc_started negb] in Ep.
    destruct (len pb =? 0) eqn:El.
    - cbn in Ep. inversion Ep; subst. assert (pb = []) by (destruct pb; [reflexivity|rewrite len_cons in El; pose proof (len_nonneg pb); lia]).
      subst. reflexivity.
    - cbn [sc_pos] in Ep. change (0 =? -1) with false in Ep. cbv iota in Ep.
      assert (Hb : bget pb 0 = pget pb 0) by (symmetry; apply pget_bget_in; pose proof (len_nonneg pb); lia).
      change (0 - 1 <? 0) with true in Ep. cbv iota in Ep. inversion Ep; subst. rewrite Hb. reflexivity. }
  destruct (ch =? 94) eqn:Ec.
  - destruct (parse_loop pb (parse_fuel pb) (snd (sc_next pb s1)) true [] false 0) as [[[l t] n] s'| |]; try discriminate.
    intros H. inversion H; subst. cbn. congruence.
  - destruct (parse_loop pb (parse_fuel pb) s1 true [] false 0) as [[[l t] n] s'| |]; try discriminate.
    intros H. inversion H; subst. cbn. congruence.
Qed.

(* ---- captures: MatchData slots vs lstrlib's capture array ---- *)
Definition cap_val (src : bytes) (c : Z * Z) : lval :=
  let '(i, l) := c in if l =? CAP_POS then VNum (i + 1) else VStr (slice src i (i + l)).

Lemma half_2x1 x : (2 * x + 1) / 2 = x.
Proof. rewrite Z.add_comm, Z.mul_comm, Z.div_add by lia. reflexivity. Qed.

Lemma go_caps src sp0 m cs :
  agree sp0 m cs -> len m = 2 + 2 * len cs ->
  (forall j c, zth cs j = Some c -> snd c <> CAP_UNF) ->
  caps_list src m = map (cap_val src) cs.
Proof.
  intros (_ & _ & Hslots) Hlen Hcl. unfold caps_list.
  assert (Hgen : forall suf pre n, cs = pre ++ suf -> len suf <= Z.of_nat n ->
            caps_from n src m (2 * len pre + 2) = map (cap_val src) suf).
  { induction suf as [|c t IH]; intros pre n Hcs Hn.
    - rewrite app_nil_r in Hcs. subst pre. destruct n; cbn [caps_from map]; [reflexivity|].
      destruct (2 * len cs + 2 <? len m) eqn:E; [lia|reflexivity].
    - rewrite len_cons in Hn. pose proof (len_nonneg t). destruct n as [|k]; [lia|].
      assert (Hz : zth cs (len pre) = Some c) by (rewrite Hcs; rewrite zth_app2 by lia; rewrite Z.sub_diag; reflexivity).
      assert (Hl : len cs = len pre + 1 + len t) by (rewrite Hcs, len_app, len_cons; lia).
      pose proof (len_nonneg pre).
      cbn [caps_from map]. destruct (2 * len pre + 2 <? len m) eqn:E; [|lia].
      pose proof (Hslots _ _ Hz) as Hs. pose proof (Hcl _ _ Hz) as Hu. destruct c as [i l]. cbn [snd] in Hu.
      unfold slot_ok in Hs. unfold cap_val, isPosCapture, capture.
      replace (2 * len pre + 2 + 2) with (2 * len (pre ++ [(i, l)]) + 2) by (rewrite len_app; change (len [(i, l)]) with 1; lia).
      rewrite (IH (pre ++ [(i, l)]) k); [|rewrite <- app_assoc; exact Hcs|lia].
      destruct (l =? CAP_POS) eqn:Ep.
      + destruct Hs as (S2 & _ & _). rewrite S2, odd_2x1, half_2x1. reflexivity.
      + destruct (l =? CAP_UNF) eqn:Eu; [lia|]. destruct Hs as (S2 & S3 & _).
        replace (2 * len pre + 2 + 1) with (2 * len pre + 3) by lia.
        rewrite S2, S3, odd_2x, !half_2x. reflexivity. }
  apply (Hgen cs [] (length m) eq_refl). unfold len in *. lia.
Qed.

Lemma ref_caps src cs s e :
  (forall j c, zth cs j = Some c -> snd c <> CAP_UNF) ->
  push_from src cs (length cs) 0 s e = Ok (map (cap_val src) cs).
Proof.
  intros Hcl.
  assert (Hgen : forall suf pre, cs = pre ++ suf ->
            push_from src cs (length suf) (len pre) s e = Ok (map (cap_val src) suf)).
  { induction suf as [|c t IH]; intros pre Hcs; cbn [length push_from map]; [reflexivity|].
    pose proof (len_nonneg pre). pose proof (len_nonneg t).
    assert (Hz : zth cs (len pre) = Some c) by (rewrite Hcs; rewrite zth_app2 by lia; rewrite Z.sub_diag; reflexivity).
    assert (Hl : len cs = len pre + 1 + len t) by (rewrite Hcs, len_app, len_cons; lia).
    unfold onecapture. destruct (len pre >=? len cs) eqn:E; [lia|]. rewrite Hz.
    pose proof (Hcl _ _ Hz) as Hu. destruct c as [i l]. cbn [snd] in Hu.
    destruct (l =? CAP_UNF) eqn:Eu; [lia|].
    replace (len pre + 1) with (len (pre ++ [(i, l)])) by (rewrite len_app; reflexivity).
    rewrite (IH (pre ++ [(i, l)])) by (rewrite <- app_assoc; exact Hcs).
    unfold cap_val. destruct (l =? CAP_POS); reflexivity. }
  apply (Hgen cs []). reflexivity.
Qed.

Definition find_tail (s : bytes) (r : fres) : res (list lval) :=
  of_fres r (fun mds =>
    match mds with
    | [] => Ok [VNil]
    | md :: _ => Ok (VNum (capture md 0 + 1) :: VNum (capture md 1) :: caps_list s md)
    end).

Lemma scan_equiv (p : seqpat) (pb s : bytes) :
  seq_okb p = true -> print_seq p = Some pb -> goParse pb = ParseOk p ->
  is_bytes s = true -> 1 + Z.of_nat (vm_fuel s (goCompile p)) <= maxRecursionLevel ->
  forall n sp, 0 <= sp <= len s -> (Z.to_nat (len s - sp) + 2 <= n)%nat ->
    find_scan n pb s true (pget pb 0 =? 94) (if pget pb 0 =? 94 then 1 else 0) sp <> Err ->
    find_tail s (find_loop (fun sp => goVM s (goCompile p) (vm_fuel s (goCompile p)) 0 sp)
                           (len s) (must_head p) 1 n sp []) =
    find_scan n pb s true (pget pb 0 =? 94) (if pget pb 0 =? 94 then 1 else 0) sp.
Proof.
  intros Hok Hpr Hparse Hs Hrl.
  pose proof (goParse_head pb p Hparse) as Hhead.
  assert (Hp0 : (if pget pb 0 =? 94 then 1 else 0) = len (head_text (must_head p))).
  { rewrite Hhead. destruct (pget pb 0 =? 94); reflexivity. }
  rewrite Hhead.
  induction n as [|k IH]; intros sp Hsp Hn Hne; [lia|].
  cbn [find_scan find_loop] in *.
  destruct (sp <=? len s) eqn:Ele; [|lia].
  pose proof (vm_refines_ref_checked p pb s sp _ Hok Hpr Hs Hsp Hrl (goVM_terminates p s sp Hsp Hrl)) as Hrel.
  rewrite <- Hp0 in Hrel.
  destruct (ref_match pb s sp (if pget pb 0 =? 94 then 1 else 0)) as [|e cs| | |] eqn:Er; cbn [vm_ref_rel] in Hrel.
  - (* no match here *)
    destruct Hrel as (sp' & m' & Hv). rewrite Hv. change (len (@nil (list Z)) =? 1) with false. cbn [orb].
    destruct (pget pb 0 =? 94) eqn:Ea.
    + rewrite Bool.andb_false_r. reflexivity.
    + cbn [negb]. rewrite Bool.andb_true_r in *. destruct (sp <? len s) eqn:Elt.
      * apply IH; try lia. exact Hne.
      * destruct k as [|k']; [lia|]. cbn [find_loop]. destruct (sp + 1 <=? len s) eqn:E2; [lia|]. reflexivity.
  - (* a match *)
    destruct Hrel as (m' & Hv & Hag & H1 & Hlen & Hlc & Hcl & He). rewrite Hv.
    change (len ([] ++ [m']) =? 1) with true. cbn [orb find_tail of_fres app].
    unfold push_captures. rewrite Bool.andb_false_r.
    rewrite (ref_caps s cs 0 0 Hcl).
    rewrite (go_caps s sp m' cs Hag ltac:(lia) Hcl).
    destruct Hag as (A0 & _ & _). unfold capture. rewrite A0, H1, !half_2x. reflexivity.
  - congruence.
  - contradiction.
  - contradiction.
Qed.

(* string.find = str_find_aux, for printable patterns that parse back to their tree *)
Lemma find_refines_ref_lemma (p : seqpat) (pb s : bytes) (init : Z) :
  seq_okb p = true -> print_seq p = Some pb -> goParse pb = ParseOk p -> backrefs_ok p = true ->
  is_bytes s = true -> 1 + Z.of_nat (vm_fuel s (goCompile p)) <= maxRecursionLevel ->
  0 < len pb ->
  ref_find s pb init <> Err ->
  strFind s pb (Some init) = ref_find s pb init.
Proof.
  intros Hok Hpr Hparse Hbr Hs Hrl Hlp Hne.
  unfold strFind, ref_find, ref_find_aux in *. cbv zeta in *.
  pose proof (len_nonneg s) as Hl.
  pose proof (init_norm (len s) init Hl) as Hin. cbv zeta in Hin. rewrite Hin. clear Hin.
  set (i := if posrelat init (len s) - 1 <? 0 then 0
            else if posrelat init (len s) - 1 >? len s then len s else posrelat init (len s) - 1) in *.
  assert (Hi : 0 <= i <= len s).
  { unfold i. destruct (posrelat init (len s) - 1 <? 0) eqn:E1; [lia|].
    destruct (posrelat init (len s) - 1 >? len s) eqn:E2; lia. }
  destruct (len pb =? 0) eqn:E0; [lia|].
  unfold goFind. rewrite Hparse, Hbr. cbn [negb]. unfold find_fuel.
  apply (scan_equiv p pb s Hok Hpr Hparse Hs Hrl); [exact Hi|lia|exact Hne].
Qed.

(* ---------- the same for string.match ---------- *)
Definition match_tail (s : bytes) (r : fres) : res (list lval) :=
  of_fres r (fun mds =>
    match mds with
    | [] => Ok [VNil]
    | md :: _ => if len md / 2 =? 1 then Ok [VStr (slice s (capture md 0) (capture md 1))]
                 else Ok (caps_list s md)
    end).

Lemma scan_equiv_match (p : seqpat) (pb s : bytes) :
  seq_okb p = true -> print_seq p = Some pb -> goParse pb = ParseOk p ->
  is_bytes s = true -> 1 + Z.of_nat (vm_fuel s (goCompile p)) <= maxRecursionLevel ->
  forall n sp, 0 <= sp <= len s -> (Z.to_nat (len s - sp) + 2 <= n)%nat ->
    find_scan n pb s false (pget pb 0 =? 94) (if pget pb 0 =? 94 then 1 else 0) sp <> Err ->
    match_tail s (find_loop (fun sp => goVM s (goCompile p) (vm_fuel s (goCompile p)) 0 sp)
                            (len s) (must_head p) 1 n sp []) =
    find_scan n pb s false (pget pb 0 =? 94) (if pget pb 0 =? 94 then 1 else 0) sp.
Proof.
  intros Hok Hpr Hparse Hs Hrl.
  pose proof (goParse_head pb p Hparse) as Hhead.
  assert (Hp0 : (if pget pb 0 =? 94 then 1 else 0) = len (head_text (must_head p))).
  { rewrite Hhead. destruct (pget pb 0 =? 94); reflexivity. }
  rewrite Hhead.
  induction n as [|k IH]; intros sp Hsp Hn Hne; [lia|].
  cbn [find_scan find_loop] in *.
  destruct (sp <=? len s) eqn:Ele; [|lia].
  pose proof (vm_refines_ref_checked p pb s sp _ Hok Hpr Hs Hsp Hrl (goVM_terminates p s sp Hsp Hrl)) as Hrel.
  rewrite <- Hp0 in Hrel.
  destruct (ref_match pb s sp (if pget pb 0 =? 94 then 1 else 0)) as [|e cs| | |] eqn:Er; cbn [vm_ref_rel] in Hrel.
  - destruct Hrel as (sp' & m' & Hv). rewrite Hv. change (len (@nil (list Z)) =? 1) with false. cbn [orb].
    destruct (pget pb 0 =? 94) eqn:Ea.
    + rewrite Bool.andb_false_r. reflexivity.
    + cbn [negb]. rewrite Bool.andb_true_r in *. destruct (sp <? len s) eqn:Elt.
      * apply IH; try lia. exact Hne.
      * destruct k as [|k']; [lia|]. cbn [find_loop]. destruct (sp + 1 <=? len s) eqn:E2; [lia|]. reflexivity.
  - destruct Hrel as (m' & Hv & Hag & H1 & Hlen & Hlc & Hcl & He). rewrite Hv.
    change (len ([] ++ [m']) =? 1) with true. cbn [orb match_tail of_fres app].
    unfold push_captures. rewrite Bool.andb_true_r. rewrite Hlen.
    pose proof (len_nonneg cs) as Hcs.
    replace ((2 + 2 * ncaps_seq (patterns p)) / 2) with (1 + ncaps_seq (patterns p))
      by (replace (2 + 2 * ncaps_seq (patterns p)) with ((1 + ncaps_seq (patterns p)) * 2) by lia; rewrite Z.div_mul; lia).
    destruct (len cs =? 0) eqn:E0.
    + assert (cs = []) by (destruct cs; [reflexivity|rewrite len_cons in E0; pose proof (len_nonneg cs); lia]). subst cs.
      destruct (1 + ncaps_seq (patterns p) =? 1) eqn:E1; [|change (len (@nil (Z*Z))) with 0 in Hlc; lia].
      cbn [push_from]. unfold onecapture. change (0 >=? len (@nil (Z * Z))) with true. cbv iota. cbn [Z.eqb].
      destruct Hag as (A0 & _ & _). unfold capture. rewrite A0, H1, !half_2x. reflexivity.
    + destruct (1 + ncaps_seq (patterns p) =? 1) eqn:E1; [lia|].
      rewrite (ref_caps s cs sp e Hcl). rewrite (go_caps s sp m' cs Hag ltac:(lia) Hcl). reflexivity.
  - congruence.
  - contradiction.
  - contradiction.
Qed.

Lemma match_init_norm l i : 0 <= l ->
  (let o := if i <? 0 then l + i + 1 else i in
   let o := o - 1 in if o <? 0 then 0 else if o >? l then l else o) =
  (let j := posrelat i l - 1 in if j <? 0 then 0 else if j >? l then l else j).
Proof.
  intros Hl. unfold posrelat. cbv zeta. destruct (i <? 0) eqn:E1.
  all: repeat match goal with |- context [if ?c then _ else _] => destruct c eqn:? end.
  all: repeat match goal with H : context [if ?c then _ else _] |- _ => destruct c eqn:? end.
  all: lia.
Qed.

Lemma match_refines_ref_lemma (p : seqpat) (pb s : bytes) (init : Z) :
  seq_okb p = true -> print_seq p = Some pb -> goParse pb = ParseOk p -> backrefs_ok p = true ->
  is_bytes s = true -> 1 + Z.of_nat (vm_fuel s (goCompile p)) <= maxRecursionLevel ->
  ref_smatch s pb init <> Err ->
  strMatch s pb (Some init) = ref_smatch s pb init.
Proof.
  intros Hok Hpr Hparse Hbr Hs Hrl Hne.
  unfold strMatch, ref_smatch, ref_find_aux in *. cbv zeta in *.
  pose proof (len_nonneg s) as Hl.
  pose proof (match_init_norm (len s) init Hl) as Hin. cbv zeta in Hin. rewrite Hin. clear Hin.
  set (i := if posrelat init (len s) - 1 <? 0 then 0
            else if posrelat init (len s) - 1 >? len s then len s else posrelat init (len s) - 1) in *.
  assert (Hi : 0 <= i <= len s).
  { unfold i. destruct (posrelat init (len s) - 1 <? 0) eqn:E1; [lia|].
    destruct (posrelat init (len s) - 1 >? len s) eqn:E2; lia. }
  unfold goFind. rewrite Hparse, Hbr. cbn [negb]. unfold find_fuel.
  apply (scan_equiv_match p pb s Hok Hpr Hparse Hs Hrl); [exact Hi|lia|exact Hne].
Qed.
