(* C14 — character sets: the class tree pm.go builds for a [set] and lstrlib's
   matchbracketclass/classEnd on the text of the set agree (set_agree). *)
From GL Require Import Common.Bytes Common.BytesFacts Pm.Class Pm.PmTypes Pm.RefMatch
     Pm.GoParse Pm.GoCompile Pm.GoVM Pm.Flat Pm.ClassFacts Pm.VMFacts Pm.RefFacts.
From Coq Require Import Lia ZifyBool.

Inductive sitem := SChar (c : Z) | SRange (a b : Z) | SClass (x : Z).

Definition sitem_text (i : sitem) : bytes :=
  match i with SChar c => [c] | SRange a b => [a; 45; b] | SClass x => [37; x] end.
Definition sitem_cls (i : sitem) : cls :=
  match i with SChar c => CChar c | SRange a b => CRange (CChar a) (CChar b) | SClass x => CSingle x end.
Definition sitem_first (i : sitem) : Z :=
  match i with SChar c => c | SRange a _ => a | SClass _ => 37 end.

Fixpoint sitems_text (l : list sitem) : bytes :=
  match l with [] => [] | i :: r => sitem_text i ++ sitems_text r end.

Definition set_text (neg : bool) (l : list sitem) : bytes :=
  91 :: (if neg then [94] else []) ++ sitems_text l ++ [93].

Definition byte_ok (b : Z) : Prop := 0 < b < 256.

(* the stated hypothesis of set_agree *)
Definition sitem_ok (i : sitem) : Prop :=
  match i with
  | SChar c => byte_ok c /\ c <> 37 /\ c <> 93
  | SRange a b => byte_ok a /\ a <> 37 /\ a <> 93 /\ byte_ok b /\ b <> 93 /\ b <> 37
  | SClass x => byte_ok x
  end.

(* a plain character is not followed by an item that starts with '-' (it would read as a range) *)
Fixpoint no_dash_after_char (l : list sitem) : Prop :=
  match l with
  | SChar _ :: ((i :: _) as r) => sitem_first i <> 45 /\ no_dash_after_char r
  | _ :: r => no_dash_after_char r
  | [] => True
  end.

Definition set_ok (neg : bool) (l : list sitem) : Prop :=
  l <> [] /\ Forall sitem_ok l /\ no_dash_after_char l /\
  (neg = false -> match l with i :: _ => sitem_first i <> 94 | [] => True end).

Definition set_sem (neg : bool) (l : list sitem) (ch : Z) : bool :=
  if existsb (fun i => cls_matches (sitem_cls i) ch) l then negb neg else neg.

Lemma cset_sem neg l ch : cls_matches (CSet neg (map sitem_cls l)) ch = set_sem neg l ch.
Proof.
  unfold set_sem. cbn [cls_matches].
  induction l as [|i r IH]; cbn [map existsb]; [reflexivity|].
  destruct (cls_matches (sitem_cls i) ch); cbn [orb]; [reflexivity|exact IH].
Qed.

Lemma occurs_cons pat p x t : occurs pat p (x :: t) -> pget pat p = x /\ occurs pat (p + 1) t.
Proof.
  intros [Hp H]. pose proof (len_nonneg t). split.
  - specialize (H 0). rewrite len_cons in H. specialize (H ltac:(lia)). rewrite Z.add_0_r in H. exact H.
  - split; [lia|]. intros i Hi. replace (p + 1 + i) with (p + (i + 1)) by lia. rewrite H by (rewrite len_cons; lia).
    unfold pget. rewrite zth_cons by lia. replace (i + 1 - 1) with i by lia. reflexivity.
Qed.

Definition next_byte (r : list sitem) : Z := pget (sitems_text r ++ [93]) 0.

Lemma next_byte_nil : next_byte [] = 93.
Proof. reflexivity. Qed.
Lemma next_byte_cons i r : next_byte (i :: r) = sitem_first i.
Proof. destruct i; reflexivity. Qed.

Lemma first_not_close i : sitem_ok i -> sitem_first i <> 93 /\ sitem_first i <> 0.
Proof. destruct i; cbn; unfold byte_ok; intros; lia. Qed.

Lemma occurs_next pat p r : occurs pat p (sitems_text r ++ [93]) -> pget pat p = next_byte r.
Proof.
  intros [Hp H]. unfold next_byte. specialize (H 0). rewrite Z.add_0_r in H. apply H.
  rewrite len_app. change (len [93]) with 1. pose proof (len_nonneg (sitems_text r)). lia.
Qed.

Section SetRef.
Variable pat : bytes.

Lemma set_end_items : forall l p f,
  l <> [] -> Forall sitem_ok l -> occurs pat p (sitems_text l ++ [93]) ->
  len (sitems_text l) < Z.of_nat f ->
  set_end pat f p = Some (p + len (sitems_text l) + 1).
Proof.
  induction l as [|i r IH]; intros p f Hne Hok Hocc Hf; [congruence|].
  inversion Hok as [|? ? Hi Hr]; subst.
  assert (Hnext : forall q f', occurs pat q (sitems_text r ++ [93]) -> len (sitems_text r) < Z.of_nat f' ->
            (if pget pat q =? 93 then Some (q + 1) else set_end pat f' q) = Some (q + len (sitems_text r) + 1)).
  { intros q f' Hq Hlen. rewrite (occurs_next _ _ _ Hq). destruct r as [|i2 r2].
    - rewrite next_byte_nil. cbn. f_equal. lia.
    - rewrite next_byte_cons. inversion Hr; subst. destruct (first_not_close i2 H1) as [Hn93 _].
      destruct (sitem_first i2 =? 93) eqn:E; [lia|]. apply IH; [congruence|assumption|assumption|lia]. }
  cbn [sitems_text] in *. rewrite len_app in *. pose proof (len_nonneg (sitems_text r)) as Hlr.
  destruct i as [c|a b|x]; cbn [sitem_text app] in *; cbn [sitem_ok] in Hi; unfold byte_ok in Hi.
  - (* SChar *)
    apply occurs_cons in Hocc as [H0 Hocc]. change (len [c]) with 1 in *.
    destruct f as [|f]; [lia|]. cbn [set_end]. unfold Pa. rewrite H0.
    destruct (c =? 0) eqn:E0; [lia|]. destruct (c =? 37) eqn:E37; [lia|]. cbn [andb].
    rewrite (Hnext (p + 1) f Hocc) by lia. f_equal. lia.
  - (* SRange *)
    apply occurs_cons in Hocc as [H0 Hocc]. apply occurs_cons in Hocc as [H1 Hocc].
    apply occurs_cons in Hocc as [H2 Hocc]. change (len [a; 45; b]) with 3 in *.
    destruct f as [|f]; [lia|]. cbn [set_end]. unfold Pa. rewrite H0.
    destruct (a =? 0) eqn:E0; [lia|]. destruct (a =? 37) eqn:E37; [lia|]. cbn [andb].
    rewrite H1. cbn [Z.eqb Pos.eqb].
    destruct f as [|f]; [lia|]. cbn [set_end]. unfold Pa. rewrite H1. cbn [Z.eqb Pos.eqb andb].
    rewrite H2. destruct (b =? 93) eqn:Eb; [lia|].
    destruct f as [|f]; [lia|]. cbn [set_end]. unfold Pa. rewrite H2.
    destruct (b =? 0) eqn:Eb0; [lia|]. destruct (b =? 37) eqn:Eb37; [lia|]. cbn [andb].
    rewrite (Hnext (p + 1 + 1 + 1) f Hocc) by lia. f_equal. lia.
  - (* SClass *)
    apply occurs_cons in Hocc as [H0 Hocc]. apply occurs_cons in Hocc as [H1 Hocc].
    change (len [37; x]) with 2 in *.
    destruct f as [|f]; [lia|]. cbn [set_end]. unfold Pa. rewrite H0, H1. cbn [Z.eqb Pos.eqb].
    destruct (x =? 0) eqn:E0; [lia|]. cbn [andb negb].
    rewrite (Hnext (p + 1 + 1) f Hocc) by lia. f_equal. lia.
Qed.

Lemma mbc_items : forall l p f c sig ec,
  Forall sitem_ok l -> no_dash_after_char l ->
  occurs pat (p + 1) (sitems_text l ++ [93]) ->
  ec = p + 1 + len (sitems_text l) -> len (sitems_text l) < Z.of_nat f -> 0 <= c < 256 ->
  mbc_loop pat f c p ec sig = if existsb (fun i => cls_matches (sitem_cls i) c) l then sig else negb sig.
Proof.
  induction l as [|i r IH]; intros p f c sig ec Hok Hnd Hocc Hec Hf Hc.
  - destruct f as [|f]; [cbn in Hf; lia|]. cbn [mbc_loop existsb sitems_text] in *.
    change (len (@nil Z)) with 0 in Hec. destruct (p + 1 <? ec) eqn:E; [lia|reflexivity].
  - apply Forall_cons_iff in Hok as [Hi Hr].
    cbn [sitems_text existsb] in *. rewrite len_app in *. pose proof (len_nonneg (sitems_text r)) as Hlr.
    assert (Hnb : forall q, occurs pat q (sitems_text r ++ [93]) ->
               (match i with SChar _ => True | _ => False end) -> pget pat q <> 45).
    { intros q Hq Hch. rewrite (occurs_next _ _ _ Hq). destruct i; try contradiction.
      destruct r as [|i2 r2]; [rewrite next_byte_nil; lia|]. rewrite next_byte_cons. cbn in Hnd. tauto. }
    assert (Hnd' : no_dash_after_char r).
    { destruct i; cbn in Hnd; try exact Hnd. destruct r; [exact I|tauto]. }
    destruct i as [ch|a b|x]; cbn [sitem_text app sitem_cls cls_matches] in *; cbn [sitem_ok] in Hi; unfold byte_ok in Hi.
    + apply occurs_cons in Hocc as [H0 Hocc]. change (len [ch]) with 1 in *.
      destruct f as [|f]; [lia|]. cbn [mbc_loop]. destruct (p + 1 <? ec) eqn:E; [|lia].
      unfold Pa. rewrite H0. destruct (ch =? 37) eqn:E37; [lia|].
      specialize (Hnb (p + 1 + 1) Hocc I).
      destruct (pget pat (p + 1 + 1) =? 45) eqn:E45; [lia|]. cbn [andb].
      destruct (ch =? c) eqn:Ecc; cbn [orb]; [reflexivity|].
      apply IH; try assumption; lia.
    + apply occurs_cons in Hocc as [H0 Hocc]. apply occurs_cons in Hocc as [H1 Hocc].
      apply occurs_cons in Hocc as [H2 Hocc]. change (len [a; 45; b]) with 3 in *.
      destruct f as [|f]; [lia|]. cbn [mbc_loop]. destruct (p + 1 <? ec) eqn:E; [|lia].
      unfold Pa. rewrite H0. destruct (a =? 37) eqn:E37; [lia|].
      rewrite H1. cbn [Z.eqb Pos.eqb]. destruct (p + 1 + 2 <? ec) eqn:E2; [|lia]. cbn [andb].
      replace (p + 1 + 2 - 2) with (p + 1) by lia. replace (p + 1 + 2) with (p + 1 + 1 + 1) by lia.
      rewrite H0, H2.
      destruct ((a <=? c) && (c <=? b)) eqn:Er; cbn [orb]; [reflexivity|].
      apply IH; try assumption; lia.
    + apply occurs_cons in Hocc as [H0 Hocc]. apply occurs_cons in Hocc as [H1 Hocc].
      change (len [37; x]) with 2 in *.
      destruct f as [|f]; [lia|]. cbn [mbc_loop]. destruct (p + 1 <? ec) eqn:E; [|lia].
      unfold Pa. rewrite H0. cbn [Z.eqb Pos.eqb]. rewrite H1.
      rewrite <- (class_agree_lemma x c) by lia.
      destruct (go_single_matches x c) eqn:Eg; cbn [orb]; [reflexivity|].
      apply IH; try assumption; lia.
Qed.
End SetRef.

(* set_agree: the text of a set is read back by lstrlib as the class tree pm.go builds for it *)
Lemma set_class_repr neg l :
  set_ok neg l -> class_repr (CSet neg (map sitem_cls l)) (set_text neg l).
Proof.
  intros (Hne & Hok & Hnd & Hfirst).
  assert (Hbytes : Forall (fun b => 0 < b < 256) (sitems_text l)).
  { clear Hne Hnd Hfirst. induction Hok as [|i r Hi Hr IH]; cbn [sitems_text]; [constructor|].
    apply Forall_app. split; [|exact IH].
    destruct i; cbn [sitem_text sitem_ok] in *; unfold byte_ok in *; repeat constructor; lia. }
  pose proof (len_nonneg (sitems_text l)) as Hll.
  assert (Hlen : len (set_text neg l) = 1 + (if neg then 1 else 0) + len (sitems_text l) + 1).
  { unfold set_text. rewrite len_cons, !len_app. change (len [93]) with 1. destruct neg; [change (len [94]) with 1|change (len (@nil Z)) with 0]; lia. }
  split; [destruct neg; lia|]. split.
  { unfold set_text. constructor; [lia|]. apply Forall_app. split; [destruct neg; repeat constructor; lia|].
    apply Forall_app. split; [exact Hbytes|repeat constructor; lia]. }
  split.
  { unfold head_ok, set_text. cbn. repeat split; try lia. }
  intros pat p Hocc. pose proof Hocc as [Hp0 _]. unfold set_text in Hocc. apply occurs_cons in Hocc as [H0 Hocc].
  set (q := if neg then p + 1 else p).
  assert (Hoq : occurs pat (q + 1) (sitems_text l ++ [93])).
  { unfold q. destruct neg; cbn [app] in Hocc; [apply occurs_cons in Hocc as [H1 Hocc]|]; exact Hocc. }
  assert (Hsig : (if pget pat (p + 1) =? 94 then (false, p + 1) else (true, p)) = (negb neg, q)).
  { unfold q. destruct neg; cbn [app] in Hocc.
    - apply occurs_cons in Hocc as [H1 _]. rewrite H1. reflexivity.
    - rewrite (occurs_next _ _ _ Hocc).
      destruct l as [|i r]; [congruence|]. rewrite next_byte_cons. specialize (Hfirst eq_refl).
      destruct (sitem_first i =? 94) eqn:E; [lia|reflexivity]. }
  (* the pattern is long enough to hold the set: all bytes of the set are non-zero *)
  assert (Hpl : q + 1 + len (sitems_text l) < len pat).
  { destruct (Z_lt_le_dec (q + 1 + len (sitems_text l)) (len pat)); [assumption|].
    destruct Hoq as [_ Ho]. specialize (Ho (len (sitems_text l))).
    rewrite len_app in Ho. change (len [93]) with 1 in Ho. specialize (Ho ltac:(lia)).
    rewrite pget_beyond in Ho by lia. rewrite pget_app2 in Ho by lia. rewrite Z.sub_diag in Ho. cbn in Ho. lia. }
  assert (Hq0 : 0 <= q) by (unfold q; destruct neg; lia).
  split.
  - unfold classEnd, Pa. rewrite H0. cbn [Z.eqb Pos.eqb].
    replace (if pget pat (p + 1) =? 94 then p + 1 + 1 else p + 1) with (q + 1).
    2:{ destruct (pget pat (p + 1) =? 94); inversion Hsig; lia. }
    rewrite (set_end_items pat l (q + 1)); try assumption.
    + f_equal. rewrite Hlen. unfold q. destruct neg; lia.
    + unfold len in *. lia.
  - intros src s Hsrc Hs. unfold singlematch, cmatch.
    destruct (s <? len src) eqn:El; [|reflexivity]. cbn [andb].
    unfold Pa, Su. rewrite H0. cbn [Z.eqb Pos.eqb].
    unfold matchbracketclass, Pa. rewrite Hsig.
    rewrite cset_sem. unfold set_sem. rewrite (pget_bget_in src s) by lia.
    fold (set_text neg l). rewrite Hlen.
    replace (p + (1 + (if neg then 1 else 0) + len (sitems_text l) + 1) - 1) with (q + 1 + len (sitems_text l))
      by (unfold q; destruct neg; lia).
    rewrite (mbc_items pat l q _ (bget src s) (negb neg) (q + 1 + len (sitems_text l))); try assumption; try lia.
    + destruct neg; reflexivity.
    + apply is_bytes_get; [assumption|lia].
Qed.
