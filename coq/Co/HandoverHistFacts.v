(* Proofs for Co/HandoverHist.v. *)
From GL Require Import Stack.Registry Stack.RegSpec Stack.ArrayFacts Stack.RegistryFacts Stack.Handover Stack.HandoverFacts
  Co.HandoverHist.
From Coq Require Import Lia.

(* every step of a history keeps the representation relation, with the SAME limit *)
Lemma hist_step_Rr r r' l lim : Rr r l lim -> hist_step r r' -> exists l', Rr r' l' lim.
Proof.
  intros HR H. destruct H as [r msg r1 t r2 E1 Ht E2 | r v r' E | r t r' E].
  - destruct (raisePush_ok r l lim msg HR) as (r1' & E1' & R1). rewrite E1 in E1'. inversion E1'; subst r1'.
    pose proof HR as [Htop Hcap _ _ _ _].
    assert (Hl1 : len (l ++ [msg]) = len l + 1) by (rewrite len_app, len_cons, len_nil; lia).
    assert (Hlim1 : limit r1 = limit r).
    { unfold raisePush, pushRaw in E1. destruct (IsFull r); simpl in E1;
        match type of E1 with (if ?b then _ else _) = _ => destruct b; [discriminate|] end;
        inversion E1; reflexivity. }
    destruct (SetTop_down1 r1 (l ++ [msg]) lim t R1 ltac:(lia) ltac:(lia)) as (r2' & E2' & R2).
    rewrite E2 in E2'. inversion E2'; subst r2'. eauto.
  - destruct (Z_le_dec (len l + 1) lim) as [Hle|Hgt].
    + destruct (Push_ok r l lim v HR Hle) as (r1 & E1 & R1). rewrite E in E1. inversion E1; subst. eauto.
    + pose proof HR as [Htop _ _ _ _ _]. unfold Push in E.
      rewrite (checkSize_over r l lim (top r + 1) HR) in E by lia. discriminate.
  - unfold SetTop in E. destruct (t <? 0) eqn:E0; [discriminate|].
    destruct (Z_le_dec t lim) as [Hle|Hgt].
    + destruct (SetTop_ok r l lim t HR ltac:(lia)) as (r1 & E1 & R1). unfold SetTop in E1. rewrite E0 in E1.
      rewrite E in E1. inversion E1; subst. eauto.
    + rewrite (checkSize_over r l lim t HR) in E by lia. discriminate.
Qed.

Lemma history_Rr r r' : history r r' -> forall l lim, Rr r l lim -> exists l', Rr r' l' lim.
Proof.
  induction 1 as [r | r1 r2 r3 H12 IH H23]; intros l lim HR.
  - eauto.
  - destruct (IH l lim HR) as (l2 & R2). exact (hist_step_Rr r2 r3 l2 lim R2 H23).
Qed.

(* whatever the resumer's registry has been through since NewState, a hand-over is complete or
   refused as a whole: never torn *)
Lemma handover_after_history_lemma : forall init grow mx p c lc limc wrapped flag nargs,
  0 <= init -> 0 <= grow \/ mx <= init ->
  history (newRegistry init grow mx) p -> Rr c lc limc -> 0 <= nargs <= len lc ->
  let vs := handed wrapped flag (lastn nargs lc) in
  let lim := Z.max init mx in
  (top p + len vs <= lim /\
     exists p' c', handover p c wrapped flag nargs = HoDone p' c' /\ live p' = live p ++ vs /\ top p' = top p + len vs) \/
  (lim < top p + len vs /\
     exists c', handover p c wrapped flag nargs = HoRefused p c').
Proof.
  intros init grow mx p c lc limc wrapped flag nargs Hi Hg Hh HC Hn vs lim.
  destruct (history_Rr _ _ Hh [] lim (Rr_new init grow mx Hi Hg)) as (l & HP).
  pose proof HP as [Htp _ _ Hlive _ _].
  destruct (handover_all_or_nothing_lemma p c l lc lim limc wrapped flag nargs HP HC Hn) as [A B].
  fold vs in A, B. rewrite Htp.
  destruct (Z_le_dec (len l + len vs) lim) as [Hle|Hgt].
  - left. split; [exact Hle|]. destruct (A Hle) as (p' & c' & E & RP & _).
    exists p', c'. split; [exact E|]. pose proof RP as [Htp' _ _ Hlive' _ _].
    rewrite Hlive', Hlive, Htp', len_app. auto.
  - right. split; [lia|]. destruct (B ltac:(lia)) as (c' & E & _). eauto.
Qed.

(* the seeded variant: once the array is one cell longer than the limit (a caught error raised on a
   full registry) and growth is disabled or used up, the hand-over that needs exactly limit + 1 cells
   passes the room check and is torn *)
Lemma handover_len_torn_lemma : forall p c l lc lim limc wrapped flag nargs,
  Rr p l lim -> Rr c lc limc -> 0 <= nargs <= len lc ->
  cap p = lim + 1 ->
  len l + len (handed wrapped flag (lastn nargs lc)) = lim + 1 ->
  handover_len p c wrapped flag nargs = HoTorn.
Proof.
  intros p c l lc lim limc wrapped flag nargs HP HC Hn Hcap Hb.
  pose proof HP as [Htp _ _ _ _ _]. pose proof HC as [_ _ _ Hlive _ _].
  assert (Hvs : len (handed wrapped flag (lastn nargs lc)) = nargs + (if wrapped then 0 else 1)).
  { unfold handed. destruct wrapped; [|rewrite len_cons]; rewrite len_lastn by lia; lia. }
  unfold handover_len.
  replace (top p + nargs + (if wrapped then 0 else 1)) with (lim + 1) by lia.
  rewrite Hcap. replace (lim + 1 <=? lim + 1) with true by lia. cbn [orb].
  rewrite Hlive. fold (handed wrapped flag (lastn nargs lc)).
  rewrite (pushAll_over _ p l lim HP); [reflexivity|lia].
Qed.
