(* M-Co / HandoverHist: the hand-over of a coroutine's values to its resumer (Stack/Handover.v, the
   transcription of vm.go: switchToParentThread) seen AFTER A HISTORY of the resumer's registry, and
   the variant of the room check that reads the length of the array instead of the enforced limit
   (seeded change C06-10). Model only, no proofs.

   A thread's registry goes through pushes, SetTops and caught errors. A caught error is
     raiseError: ls.reg.pushAlways(LString(message))     -- raisePush: the array may get one cell longer
     ... the protected call that catches it cuts the registry back to its own frame: SetTop(t), t <= old top
   After the first error raised on an exactly full registry, len(array) = limit + 1 for good. *)
From GL Require Export Stack.Registry Stack.RegSpec Stack.Handover.

Inductive hist_step : registry -> registry -> Prop :=
| HsCaught r msg r1 t r2 : raisePush r msg = Ok r1 -> 0 <= t <= top r -> SetTop r1 t = Ok r2 -> hist_step r r2
| HsPush r v r' : Push r v = Ok r' -> hist_step r r'
| HsSetTop r t r' : SetTop r t = Ok r' -> hist_step r r'.

Inductive history : registry -> registry -> Prop :=
| HNil r : history r r
| HCons r1 r2 r3 : history r1 r2 -> hist_step r2 r3 -> history r1 r3.

(* the hand-over whose room check is
     func (rg *registry) hasRoom(n int) bool { need := rg.top + n; return need <= len(rg.array) || need <= rg.maxSize }
   everything else as in Handover.handover_gen *)
Definition handover_len (p c : registry) (wrapped : bool) (flag : cell) (nargs : Z) : ho_result :=
  let need := top p + nargs + (if wrapped then 0 else 1) in
  let fits := (need <=? cap p) || (need <=? maxSize p) in
  let vs := lastn nargs (live c) in
  if fits then
    match pushAll p (if wrapped then vs else flag :: vs) with
    | Ok p1 =>
        match SetTop c (top c - nargs) with
        | Ok c1 => HoDone p1 c1
        | _ => HoFault
        end
    | Overflow => HoTorn
    | Fault => HoFault
    end
  else
    match SetTop c (top c - nargs) with
    | Ok c1 => HoRefused p c1
    | _ => HoFault
    end.
