(* Case evaluator of C03: the program cases of VMX/VmCases.v (reference evaluator + VM model) and
   the environment scripts of Fenv/FenvModel.v (tables of globals of threads, environments of
   functions), whose observation is the list of values the real interpreter emitted.
   The model is the specification here (no listed deviation): check_impl = check_spec. *)
From Coq Require Import ZArith List Bool.
From GL Require Import VMX.VmCases Fenv.FenvModel.
Import ListNotations.
Open Scope Z_scope.

Inductive c3case :=
| C3V (c : vcase)
| C3Env (nt : nat) (main post : list op) (obs : list Z).

Coercion C3V : vcase >-> c3case.

Definition env_fuel : nat := Z.to_nat 6000.

Fixpoint zlist_eqb (a b : list Z) : bool :=
  match a, b with
  | [], [] => true
  | x :: a', y :: b' => Z.eqb x y && zlist_eqb a' b'
  | _, _ => false
  end.

Definition env_ok (nt : nat) (main post : list op) (obs : list Z) : bool :=
  match env_run env_fuel nt main post with Some o => zlist_eqb o obs | None => true end.

Definition check_skip (c : c3case) : bool :=
  match c with
  | C3V c => VmCases.check_skip c
  | C3Env nt m p _ => match env_run env_fuel nt m p with Some _ => false | None => true end
  end.

Definition check_spec (c : c3case) : bool :=
  match c with
  | C3V c => VmCases.check_spec c
  | C3Env nt m p obs => env_ok nt m p obs
  end.

Definition check_impl (c : c3case) : bool :=
  match c with
  | C3V c => VmCases.check_impl c
  | C3Env nt m p obs => env_ok nt m p obs
  end.
