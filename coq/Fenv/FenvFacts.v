(* Facts about the environment model (Fenv/FenvModel.v). *)
From Coq Require Import ZArith List Bool Arith Lia.
From GL Require Import Fenv.FenvModel.
Import ListNotations.

(* ---- list helpers ---- *)

Lemma upd_length : forall A (l : list A) i a, length (upd l i a) = length l.
Proof. induction l; destruct i; simpl; auto. Qed.

Lemma nth_upd_same : forall A (l : list A) i a d, (i < length l)%nat -> nth i (upd l i a) d = a.
Proof. induction l; intros i b d H; simpl in *; [lia|]. destruct i; simpl; auto. apply IHl. lia. Qed.

Lemma nth_upd_other : forall A (l : list A) i j a d, i <> j -> nth j (upd l i a) d = nth j l d.
Proof.
  induction l; intros i j b d H; simpl; auto.
  destruct i, j; simpl; auto; try congruence.
Qed.

Lemma nth_app_old : forall A (l : list A) x i d, (i < length l)%nat -> nth i (l ++ [x]) d = nth i l d.
Proof. intros. apply app_nth1. auto. Qed.

Lemma nth_app_new : forall A (l : list A) x d, nth (length l) (l ++ [x]) d = x.
Proof. intros. rewrite app_nth2 by lia. rewrite Nat.sub_diag. reflexivity. Qed.

Lemma aget_aset_same : forall A (l : list (nat * A)) k a, aget (aset l k a) k = Some a.
Proof. intros. unfold aset. simpl. rewrite Nat.eqb_refl. reflexivity. Qed.

Lemma aget_aset_other : forall A (l : list (nat * A)) k k' a, k <> k' -> aget (aset l k a) k' = aget l k'.
Proof. intros. unfold aset. simpl. destruct (Nat.eqb k k') eqn:E; auto. apply Nat.eqb_eq in E. congruence. Qed.

(* ---- a new thread gets the table of globals of its creator, at that moment ---- *)

(* coroutine.create / coroutine.wrap / NewThread: the new thread is a fresh id bound to the slot; its
   table of globals is the creating thread's CURRENT one, its body is the slot's function *)
Lemma cocreate_inherits_creator_env :
  forall cx s k j w f, aget (s_F s) j = Some f ->
    let s' := simple_step cx (OCoCreate k j w) s in
    let c := length (s_ths s) in
    aget (s_C s') k = Some c /\
    getth s' c = mkTh (t_env (getth s (c_th cx))) f false w /\
    (forall t, (t < length (s_ths s))%nat -> getth s' t = getth s t) /\
    s_fns s' = s_fns s /\ s_tabs s' = s_tabs s /\ s_out s' = s_out s.
Proof.
  intros cx s k j w f HF. simpl. rewrite HF. simpl. repeat split.
  - apply aget_aset_same.
  - unfold getth. simpl. apply nth_app_new.
  - intros t Ht. unfold getth. simpl. apply nth_app_old. exact Ht.
Qed.

(* setfenv(0, t) replaces the table of globals of the running thread only: every other thread
   (in particular one created earlier from this thread) keeps its own; no function is touched *)
Lemma setT_only_this_thread :
  forall cx s t, (c_th cx < length (s_ths s))%nat ->
    let s' := simple_step cx (OSetT t) s in
    t_env (getth s' (c_th cx)) = t /\
    (forall th, th <> c_th cx -> getth s' th = getth s th) /\
    s_fns s' = s_fns s /\ s_tabs s' = s_tabs s /\ s_out s' = s_out s.
Proof.
  intros cx s t H. simpl. unfold set_th_env, getth. simpl. repeat split.
  - rewrite nth_upd_same by exact H. reflexivity.
  - intros th Hne. apply nth_upd_other. congruence.
Qed.

(* debug.setfenv(co, t) likewise replaces the table of that thread only *)
Lemma setCo_only_that_thread :
  forall cx s k t c, aget (s_C s) k = Some c -> t_wrap (getth s c) = false -> (c < length (s_ths s))%nat ->
    let s' := simple_step cx (OSetCo k t) s in
    t_env (getth s' c) = t /\ (forall th, th <> c -> getth s' th = getth s th) /\ s_fns s' = s_fns s.
Proof.
  intros cx s k t c HC Hw Hlt. simpl. rewrite HC, Hw. unfold set_th_env, getth. simpl. repeat split.
  - rewrite nth_upd_same by exact Hlt. reflexivity.
  - intros th Hne. apply nth_upd_other. congruence.
Qed.

(* ---- functions ---- *)

(* a loaded chunk gets the table of globals of the thread that loads it *)
Lemma load_takes_thread_env :
  forall cx s k body,
    let s' := simple_step cx (OLoad k body) s in
    let f := length (s_fns s) in
    aget (s_F s') k = Some f /\ getfn s' f = mkFn (t_env (getth s (c_th cx))) body /\
    (forall g, (g < length (s_fns s))%nat -> getfn s' g = getfn s g) /\ s_ths s' = s_ths s.
Proof.
  intros. simpl. unfold new_fn, getfn. simpl. repeat split.
  - apply aget_aset_same.
  - apply nth_app_new.
  - intros g Hg. apply nth_app_old. exact Hg.
Qed.

(* a closure gets the environment of the function that creates it (not the thread's table) *)
Lemma closure_inherits_creator_env :
  forall th fcur d s k body,
    let cx := mkCtx th (Some fcur) d in
    let s' := simple_step cx (OClosure k body) s in
    let f := length (s_fns s) in
    aget (s_F s') k = Some f /\ getfn s' f = mkFn (f_env (getfn s fcur)) body /\
    (forall g, (g < length (s_fns s))%nat -> getfn s' g = getfn s g) /\ s_ths s' = s_ths s.
Proof.
  intros. simpl. unfold new_fn, getfn. simpl. repeat split.
  - apply aget_aset_same.
  - apply nth_app_new.
  - intros g Hg. apply nth_app_old. exact Hg.
Qed.

(* a free name is read in, and assigned in, the environment of the running function *)
Lemma free_name_through_function_env :
  forall th f d s x,
    let cx := mkCtx th (Some f) d in
    s_out (simple_step cx (ORead x) s) =
      (match aget (nth (f_env (getfn s f)) (s_tabs s) []) x with Some v => v | None => nilv end) :: s_out s.
Proof. reflexivity. Qed.

Lemma free_name_write_through_function_env :
  forall th f d s x v, (f_env (getfn s f) < length (s_tabs s))%nat ->
    let cx := mkCtx th (Some f) d in
    let s' := simple_step cx (OWrite x v) s in
    aget (nth (f_env (getfn s f)) (s_tabs s') []) x = Some v /\
    (forall e, e <> f_env (getfn s f) -> nth e (s_tabs s') [] = nth e (s_tabs s) []) /\
    s_fns s' = s_fns s /\ s_ths s' = s_ths s.
Proof.
  intros th f d s x v H. simpl. unfold cur_env. simpl. repeat split.
  - rewrite nth_upd_same by exact H. apply aget_aset_same.
  - intros e Hne. apply nth_upd_other. congruence.
Qed.

(* setfenv(f, t) changes the environment of that function only; bodies and threads are untouched *)
Lemma setF_only_that_function :
  forall cx s k t f, aget (s_F s) k = Some f -> (f < length (s_fns s))%nat ->
    let s' := simple_step cx (OSetF k t) s in
    getfn s' f = mkFn t (f_body (getfn s f)) /\
    (forall g, g <> f -> getfn s' g = getfn s g) /\ s_ths s' = s_ths s.
Proof.
  intros cx s k t f HF Hlt. simpl. rewrite HF. unfold set_fn_env, getfn. simpl. repeat split.
  - rewrite nth_upd_same by exact Hlt. reflexivity.
  - intros g Hne. apply nth_upd_other. congruence.
Qed.

Lemma setSelf_only_running_function :
  forall th f d s t, (f < length (s_fns s))%nat ->
    let s' := simple_step (mkCtx th (Some f) d) (OSetSelf t) s in
    getfn s' f = mkFn t (f_body (getfn s f)) /\
    (forall g, g <> f -> getfn s' g = getfn s g) /\ s_ths s' = s_ths s.
Proof.
  intros th f d s t Hlt. simpl. unfold set_fn_env, getfn. simpl. repeat split.
  - rewrite nth_upd_same by exact Hlt. reflexivity.
  - intros g Hne. apply nth_upd_other. congruence.
Qed.

(* ---- whole runs ---- *)

(* what no operation ever does: remove or renumber a function or a thread, change a function's body,
   change the body function or the creation mode of a thread *)
Definition extends (s s' : st) : Prop :=
  (length (s_fns s) <= length (s_fns s'))%nat /\
  (length (s_ths s) <= length (s_ths s'))%nat /\
  (forall f, (f < length (s_fns s))%nat -> f_body (getfn s' f) = f_body (getfn s f)) /\
  (forall t, (t < length (s_ths s))%nat -> t_fn (getth s' t) = t_fn (getth s t) /\ t_wrap (getth s' t) = t_wrap (getth s t)).

Lemma extends_refl : forall s, extends s s.
Proof. intros s. unfold extends. split; [auto|]. split; [auto|]. split; auto. Qed.

Lemma extends_same : forall s s', s_fns s' = s_fns s -> s_ths s' = s_ths s -> extends s s'.
Proof.
  intros s s' Hf Ht. unfold extends, getfn, getth. rewrite Hf, Ht.
  split; [auto|]. split; [auto|]. split; auto.
Qed.

Lemma extends_trans : forall a b c, extends a b -> extends b c -> extends a c.
Proof.
  intros a b c (A1 & A2 & A3 & A4) (B1 & B2 & B3 & B4). unfold extends.
  split; [lia|]. split; [lia|]. split.
  - intros f Hf. rewrite B3 by lia. apply A3. exact Hf.
  - intros t Ht. destruct (B4 t) as [E1 E2]; [lia|]. rewrite E1, E2. apply A4. exact Ht.
Qed.

Lemma getfn_upd_body : forall s f g e, f_body (nth g (upd (s_fns s) f (mkFn e (f_body (getfn s f)))) dflt_fn) = f_body (getfn s g).
Proof.
  intros s f g e. unfold getfn. destruct (Nat.eq_dec f g) as [->|Hne].
  - destruct (Nat.lt_ge_cases g (length (s_fns s))) as [Hlt|Hge].
    + rewrite nth_upd_same by exact Hlt. reflexivity.
    + rewrite !nth_overflow; auto. rewrite upd_length. exact Hge.
  - rewrite nth_upd_other by exact Hne. reflexivity.
Qed.

Lemma getth_upd_env : forall s th t e,
  let r := getth s th in
  let x := nth t (upd (s_ths s) th (mkTh e (t_fn r) (t_started r) (t_wrap r))) dflt_th in
  t_fn x = t_fn (getth s t) /\ t_wrap x = t_wrap (getth s t).
Proof.
  intros s th t e. simpl. unfold getth. destruct (Nat.eq_dec th t) as [->|Hne].
  - destruct (Nat.lt_ge_cases t (length (s_ths s))) as [Hlt|Hge].
    + rewrite nth_upd_same by exact Hlt. split; reflexivity.
    + rewrite !nth_overflow; auto. rewrite upd_length. exact Hge.
  - rewrite nth_upd_other by exact Hne. split; reflexivity.
Qed.

Lemma set_th_env_extends : forall s th e, extends s (set_th_env s th e).
Proof.
  intros s th e. unfold extends, set_th_env. simpl. rewrite upd_length.
  split; [auto|]. split; [auto|]. split; [auto|].
  intros t _. apply (getth_upd_env s th t e).
Qed.

Lemma set_fn_env_extends : forall s f e, extends s (set_fn_env s f e).
Proof.
  intros s f e. unfold extends, set_fn_env. simpl. rewrite upd_length.
  split; [auto|]. split; [auto|]. split; [|auto].
  intros g _. apply getfn_upd_body.
Qed.

Lemma set_started_extends : forall s c, extends s (set_started s c).
Proof.
  intros s c. unfold extends, set_started, getth. simpl. rewrite upd_length.
  split; [auto|]. split; [auto|]. split; [auto|].
  intros t Ht. destruct (Nat.eq_dec c t) as [->|Hne].
  - rewrite nth_upd_same by exact Ht. split; reflexivity.
  - rewrite nth_upd_other by exact Hne. split; reflexivity.
Qed.

Lemma new_fn_extends : forall s k e b, extends s (new_fn s k e b).
Proof.
  intros. unfold extends, new_fn, getfn. simpl. rewrite app_length. simpl.
  split; [lia|]. split; [auto|]. split; [|auto].
  intros f Hf. rewrite nth_app_old by exact Hf. reflexivity.
Qed.

Lemma simple_step_extends : forall cx o s, extends s (simple_step cx o s).
Proof.
  intros cx o s. destruct o; simpl;
    try (apply extends_same; reflexivity); try apply set_th_env_extends; try apply new_fn_extends.
  - destruct (c_fn cx); [apply set_fn_env_extends | apply extends_refl].
  - destruct (aget (s_F s) k); [apply set_fn_env_extends | apply extends_refl].
  - destruct (aget (s_C s) k) as [c|]; [|apply extends_refl]. destruct (t_wrap (getth s c)); [apply extends_refl | apply set_th_env_extends].
  - destruct (aget (s_F s) j); [|apply extends_refl].
    unfold extends, getth. simpl. rewrite app_length. simpl.
    split; [auto|]. split; [lia|]. split; [auto|].
    intros t Ht. rewrite nth_app_old by exact Ht. split; reflexivity.
Qed.

(* every run, whatever it nests (calls, coroutines, loaded chunks), only extends the state *)
Lemma exec_extends : forall n cx os s s', env_exec n cx os s = Some s' -> extends s s'.
Proof.
  induction n; intros cx os s s' H; simpl in H; [discriminate|].
  destruct os as [|o rest]; [inversion H; apply extends_refl|].
  match type of H with match ?r with _ => _ end = _ => destruct r as [s1|] eqn:Hr; [|discriminate] end.
  apply extends_trans with s1; [|eapply IHn; exact H].
  pose proof (simple_step_extends cx o s) as HS.
  destruct o as [t|t|k t|k t| | |k|k|x|x v|k body|k body|k|k j w|k]; try (inversion Hr; subst; exact HS); clear HS.
  - destruct (aget (s_F s) k); [|inversion Hr; apply extends_refl].
    destruct (Nat.ltb (c_depth cx) maxdepth); [eapply IHn; exact Hr | inversion Hr; apply extends_refl].
  - destruct (aget (s_C s) k) as [c|]; [|inversion Hr; apply extends_refl].
    destruct (negb (t_started (getth s c)) && Nat.ltb (c_depth cx) maxdepth); [|inversion Hr; apply extends_refl].
    apply extends_trans with (set_started s c); [apply set_started_extends | eapply IHn; exact Hr].
Qed.

(* the first resume of a coroutine runs its body in the coroutine's own thread: the table of globals
   seen there is the one fixed at creation (or by debug.setfenv on it), whatever the resumer's is now *)
Lemma resume_runs_in_own_thread :
  forall n cx k rest s c, aget (s_C s) k = Some c -> t_started (getth s c) = false -> (c_depth cx < maxdepth)%nat ->
    env_exec (S n) cx (OCoResume k :: rest) s =
      match env_exec n (mkCtx c (Some (t_fn (getth s c))) (S (c_depth cx))) (f_body (getfn s (t_fn (getth s c)))) (set_started s c) with
      | Some s' => env_exec n cx rest s'
      | None => None
      end.
Proof.
  intros n cx k rest s c HC Hs Hd. simpl. rewrite HC, Hs.
  apply Nat.ltb_lt in Hd. rewrite Hd. reflexivity.
Qed.

(* more fuel never changes a finished run *)
Lemma exec_fuel_mono : forall n cx os s s', env_exec n cx os s = Some s' -> forall m, (n <= m)%nat -> env_exec m cx os s = Some s'.
Proof.
  induction n; intros cx os s s' H m Hm; simpl in H; [discriminate|].
  destruct m as [|m]; [lia|]. assert (Hnm : (n <= m)%nat) by lia. simpl.
  destruct os as [|o rest]; [exact H|].
  match type of H with match ?r with _ => _ end = _ => destruct r as [s1|] eqn:Hr; [|discriminate] end.
  assert (Hr' : match o with
        | OCall k => match aget (s_F s) k with
            | Some f => if Nat.ltb (c_depth cx) maxdepth then env_exec m (mkCtx (c_th cx) (Some f) (S (c_depth cx))) (f_body (getfn s f)) s else Some s
            | None => Some s end
        | OCoResume k => match aget (s_C s) k with
            | Some c => if negb (t_started (getth s c)) && Nat.ltb (c_depth cx) maxdepth
                        then env_exec m (mkCtx c (Some (t_fn (getth s c))) (S (c_depth cx))) (f_body (getfn s (t_fn (getth s c)))) (set_started s c)
                        else Some s
            | None => Some s end
        | _ => Some (simple_step cx o s) end = Some s1).
  { destruct o as [t|t|k t|k t| | |k|k|x|x v|k body|k body|k|k j w|k]; try exact Hr.
    - destruct (aget (s_F s) k); [|exact Hr]. destruct (Nat.ltb (c_depth cx) maxdepth); [|exact Hr]. eapply IHn; eauto.
    - destruct (aget (s_C s) k) as [c|]; [|exact Hr]. destruct (negb (t_started (getth s c)) && Nat.ltb (c_depth cx) maxdepth); [|exact Hr]. eapply IHn; eauto. }
  rewrite Hr'. eapply IHn; eauto.
Qed.
