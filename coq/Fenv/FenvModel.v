(* Tables of globals of threads and environments of functions (Lua 5.1 manual 2.9, 5.1 getfenv /
   setfenv, lua_newthread, lua_load; gopher-lua: LState.Env, LFunction.Env, NewThread, LoadString,
   OP_CLOSURE, OP_GETGLOBAL / OP_SETGLOBAL, baseGetFEnv / baseSetFEnv, debug.getfenv / setfenv).

   A script is a tree of operations env_run by a context (current thread, running function):
     - every thread has a table of globals; a new thread gets the one of the thread that creates it
       AT THAT MOMENT; setfenv(0, t) / debug.setfenv(co, t) replace it for that thread only;
     - every function has an environment; a closure gets the environment of the function that
       creates it, a loaded chunk gets the table of globals of the thread that loads it;
       setfenv(f, t) / setfenv(1, t) replace it for that function only;
     - a free name is read and assigned in the environment of the function that mentions it.
   Function bodies are operation lists kept in the state (calls and resumes env_run them), so the
   evaluator recurses on fuel. Model only (no proofs here). *)
From Coq Require Import ZArith List Bool Arith.
Import ListNotations.
Open Scope Z_scope.

Inductive op :=
| OSetT (t : nat)                          (* setfenv(0, T[t])               *)
| OSetSelf (t : nat)                       (* setfenv(1, T[t])               *)
| OSetF (k t : nat)                        (* setfenv(F[k], T[t])            *)
| OSetCo (k t : nat)                       (* debug.setfenv(C[k], T[t])      *)
| OGetT                                    (* emit(getfenv(0))               *)
| OGetSelf                                 (* emit(getfenv(1))               *)
| OGetF (k : nat)                          (* emit(getfenv(F[k]))            *)
| OGetCo (k : nat)                         (* emit(debug.getfenv(C[k]))      *)
| ORead (x : nat)                          (* emit(gx)   : a free name       *)
| OWrite (x : nat) (v : Z)                 (* gx = v                         *)
| OClosure (k : nat) (body : list op)      (* F[k] = function() body end     *)
| OLoad (k : nat) (body : list op)         (* F[k] = loadstring(text body)   *)
| OCall (k : nat)                          (* F[k]()                         *)
| OCoCreate (k j : nat) (wrap : bool)      (* C[k] = coroutine.create/wrap(F[j]) *)
| OCoResume (k : nat).                     (* first resume of C[k]: runs its body to the end *)

Record fnrec := mkFn { f_env : nat; f_body : list op }.
Record threc := mkTh { t_env : nat; t_fn : nat; t_started : bool; t_wrap : bool }.
Record st := mkSt {
  s_tabs : list (list (nat * Z));   (* table id -> fields (free-name index -> value) *)
  s_fns : list fnrec;               (* function id -> environment, body *)
  s_ths : list threc;               (* thread id -> table of globals, body function, flags; 0 = main *)
  s_F : list (nat * nat);           (* function slots of the script *)
  s_C : list (nat * nat);           (* coroutine slots of the script *)
  s_out : list Z                    (* emitted values, newest first *)
}.
Record ctx := mkCtx { c_th : nat; c_fn : option nat; c_depth : nat }.

Definition dflt_fn := mkFn 0%nat [].
Definition dflt_th := mkTh 0%nat 0%nat true false.
Definition getfn (s : st) (f : nat) := nth f (s_fns s) dflt_fn.
Definition getth (s : st) (t : nat) := nth t (s_ths s) dflt_th.

Fixpoint aget {A} (l : list (nat * A)) (k : nat) : option A :=
  match l with [] => None | (k', a) :: r => if Nat.eqb k' k then Some a else aget r k end.
Definition aset {A} (l : list (nat * A)) (k : nat) (a : A) := (k, a) :: l.
Fixpoint upd {A} (l : list A) (i : nat) (a : A) : list A :=
  match l, i with
  | [], _ => []
  | _ :: r, O => a :: r
  | x :: r, S i' => x :: upd r i' a
  end.

Definition nilv : Z := -1.
Definition env_emit (s : st) (v : Z) := mkSt (s_tabs s) (s_fns s) (s_ths s) (s_F s) (s_C s) (v :: s_out s).
Definition set_fns (s : st) fns := mkSt (s_tabs s) fns (s_ths s) (s_F s) (s_C s) (s_out s).
Definition set_ths (s : st) ths := mkSt (s_tabs s) (s_fns s) ths (s_F s) (s_C s) (s_out s).
Definition set_tabs (s : st) tabs := mkSt tabs (s_fns s) (s_ths s) (s_F s) (s_C s) (s_out s).
Definition set_F (s : st) F := mkSt (s_tabs s) (s_fns s) (s_ths s) F (s_C s) (s_out s).
Definition set_C (s : st) C := mkSt (s_tabs s) (s_fns s) (s_ths s) (s_F s) C (s_out s).

Definition set_fn_env (s : st) (f t : nat) := set_fns s (upd (s_fns s) f (mkFn t (f_body (getfn s f)))).
Definition set_th_env (s : st) (th t : nat) :=
  let r := getth s th in set_ths s (upd (s_ths s) th (mkTh t (t_fn r) (t_started r) (t_wrap r))).
Definition set_started (s : st) (th : nat) :=
  let r := getth s th in set_ths s (upd (s_ths s) th (mkTh (t_env r) (t_fn r) true (t_wrap r))).

(* the thread's table of globals / the environment free names of the running code go through:
   without a running function (host code at the top level) it is the thread's table *)
Definition thread_env (cx : ctx) (s : st) : nat := t_env (getth s (c_th cx)).
Definition cur_env (cx : ctx) (s : st) : nat :=
  match c_fn cx with Some f => f_env (getfn s f) | None => thread_env cx s end.

Definition new_fn (s : st) (k env : nat) (body : list op) : st :=
  set_F (set_fns s (s_fns s ++ [mkFn env body])) (aset (s_F s) k (length (s_fns s))).

(* every operation except a call and a first resume *)
Definition simple_step (cx : ctx) (o : op) (s : st) : st :=
  match o with
  | OSetT t => set_th_env s (c_th cx) t
  | OSetSelf t => match c_fn cx with Some f => set_fn_env s f t | None => s end
  | OSetF k t => match aget (s_F s) k with Some f => set_fn_env s f t | None => s end
  | OSetCo k t => match aget (s_C s) k with
                  | Some c => if t_wrap (getth s c) then s else set_th_env s c t
                  | None => s end
  | OGetT => env_emit s (Z.of_nat (thread_env cx s))
  | OGetSelf => env_emit s (Z.of_nat (cur_env cx s))
  | OGetF k => env_emit s (match aget (s_F s) k with Some f => Z.of_nat (f_env (getfn s f)) | None => nilv end)
  | OGetCo k => env_emit s (match aget (s_C s) k with
                        | Some c => if t_wrap (getth s c) then nilv else Z.of_nat (t_env (getth s c))
                        | None => nilv end)
  | ORead x => env_emit s (match aget (nth (cur_env cx s) (s_tabs s) []) x with Some v => v | None => nilv end)
  | OWrite x v => let e := cur_env cx s in set_tabs s (upd (s_tabs s) e (aset (nth e (s_tabs s) []) x v))
  | OClosure k body => new_fn s k (cur_env cx s) body
  | OLoad k body => new_fn s k (thread_env cx s) body
  | OCoCreate k j w =>
      match aget (s_F s) j with
      | Some f => set_C (set_ths s (s_ths s ++ [mkTh (thread_env cx s) f false w])) (aset (s_C s) k (length (s_ths s)))
      | None => s
      end
  | OCall _ | OCoResume _ => s
  end.

(* calls and resumes nest at most this deep (the harness' helper functions count the same way) *)
Definition maxdepth : nat := 4.

Fixpoint env_exec (n : nat) (cx : ctx) (os : list op) (s : st) {struct n} : option st :=
  match n with
  | O => None
  | S n' =>
    match os with
    | [] => Some s
    | o :: rest =>
      let r :=
        match o with
        | OCall k =>
            match aget (s_F s) k with
            | Some f => if Nat.ltb (c_depth cx) maxdepth
                        then env_exec n' (mkCtx (c_th cx) (Some f) (S (c_depth cx))) (f_body (getfn s f)) s
                        else Some s
            | None => Some s
            end
        | OCoResume k =>
            match aget (s_C s) k with
            | Some c => if negb (t_started (getth s c)) && Nat.ltb (c_depth cx) maxdepth
                        then env_exec n' (mkCtx c (Some (t_fn (getth s c))) (S (c_depth cx)))
                                  (f_body (getfn s (t_fn (getth s c)))) (set_started s c)
                        else Some s
            | None => Some s
            end
        | _ => Some (simple_step cx o s)
        end in
      match r with Some s' => env_exec n' cx rest s' | None => None end
    end
  end.

(* the script is the main chunk: function 0, loaded by thread 0 whose table of globals is table 0
   (the state's global table); nt further tables T[1..nt] exist *)
Definition env_init (nt : nat) (main : list op) : st :=
  mkSt (repeat [] (S nt)) [mkFn 0%nat main] [mkTh 0%nat 0%nat true false] [] [] [].
Definition main_ctx := mkCtx 0 (Some 0%nat) 0.
Definition host_ctx := mkCtx 0 None 0.

(* the script, then operations performed by the host on the main thread with no function running *)
Definition env_run (fuel : nat) (nt : nat) (main post : list op) : option (list Z) :=
  match env_exec fuel main_ctx main (env_init nt main) with
  | Some s => match env_exec fuel host_ctx post s with Some s' => Some (rev (s_out s')) | None => None end
  | None => None
  end.
