(* The reference parser reads back what the reference printer writes:
   parse_d d (print t) = ParseOk (norm_b t) for every well-formed tree t and every dialect d. *)
From GL Require Import Common.Bytes Front.Lexer Front.Ast Front.Parser Front.Printer.
From Coq Require Import Lia ZifyBool.
Open Scope Z_scope.

(* ---------- well-formed trees: what the grammar can produce ---------- *)

Definition pfx_ok (e : expr) : bool := match e with EVararg => false | _ => true end.

Fixpoint all_var (l : exprlist) : bool :=
  match l with ELNil => true | ELCons e r => is_var e && all_var r end.
Definition nonempty_el (l : exprlist) : bool := match l with ELNil => false | _ => true end.
Definition nonempty {A} (l : list A) : bool := match l with [] => false | _ => true end.

Fixpoint wf_e (e : expr) : bool :=
  match e with
  | ENil | ETrue | EFalse | EVararg | ENumber _ | EString _ | EName _ => true
  | EFunction f => wf_fb f
  | ETable fs => wf_fl fs
  | EBin _ a b => wf_e a && wf_e b
  | EUn _ a => wf_e a
  | EIndex p k => pfx_ok p && wf_e p && wf_e k
  | EField p _ => pfx_ok p && wf_e p
  | ECall p a => pfx_ok p && wf_e p && wf_a a
  | EMethod p _ a => pfx_ok p && wf_e p && wf_a a
  | EParen x => wf_e x
  end
with wf_a (a : args) : bool :=
  match a with AList es => wf_el es | ATable fs => wf_fl fs | AString _ => true end
with wf_el (l : exprlist) : bool :=
  match l with ELNil => true | ELCons e r => wf_e e && wf_el r end
with wf_fl (l : fieldlist) : bool :=
  match l with FLNil => true | FLCons f r => wf_f f && wf_fl r end
with wf_f (f : field) : bool :=
  match f with FPos e => wf_e e | FNamed _ e => wf_e e | FKey k e => wf_e k && wf_e e end
with wf_fb (f : funcbody) : bool :=
  match f with FBody _ _ b => wf_b b end
with wf_b (b : block) : bool :=
  match b with
  | BNil => true
  | BLast l _ => wf_l l
  | BCons s _ r => wf_s s && wf_b r
  end
with wf_l (l : laststat) : bool :=
  match l with LReturn es => wf_el es | LBreak => true end
with wf_s (s : stat) : bool :=
  match s with
  | SAssign ts es => nonempty_el ts && all_var ts && wf_el ts && nonempty_el es && wf_el es
  | SCall e => is_call e && wf_e e
  | SDo b => wf_b b
  | SWhile c b => wf_e c && wf_b b
  | SRepeat b c => wf_b b && wf_e c
  | SIf c b e => wf_e c && wf_b b && wf_else e
  | SFornum _ e1 e2 b => wf_e e1 && wf_e e2 && wf_b b
  | SFornum3 _ e1 e2 e3 b => wf_e e1 && wf_e e2 && wf_e e3 && wf_b b
  | SForin ns es b => nonempty ns && nonempty_el es && wf_el es && wf_b b
  | SFunction path _ f => nonempty path && wf_fb f
  | SLocalFunction _ f => wf_fb f
  | SLocal ns es => nonempty ns && wf_el es
  | SGoto _ | SLabel _ => true
  end
with wf_else (e : elsepart) : bool :=
  match e with
  | ElseNone => true
  | ElseIf c b r => wf_e c && wf_b b && wf_else r
  | Else b => wf_b b
  end.

(* ---------- fuel a tree needs: 8 per node ---------- *)

Fixpoint c_e (e : expr) : nat :=
  match e with
  | ENil | ETrue | EFalse | EVararg | ENumber _ | EString _ | EName _ => 8
  | EFunction f => 8 + c_fb f
  | ETable fs => 8 + c_fl fs
  | EBin _ a b => 8 + c_e a + c_e b
  | EUn _ a => 8 + c_e a
  | EIndex p k => 8 + c_e p + c_e k
  | EField p _ => 8 + c_e p
  | ECall p a => 8 + c_e p + c_a a
  | EMethod p _ a => 8 + c_e p + c_a a
  | EParen x => 8 + c_e x
  end
with c_a (a : args) : nat :=
  match a with AList es => 8 + c_el es | ATable fs => 8 + c_fl fs | AString _ => 8 end
with c_el (l : exprlist) : nat :=
  match l with ELNil => 8 | ELCons e r => 8 + c_e e + c_el r end
with c_fl (l : fieldlist) : nat :=
  match l with FLNil => 8 | FLCons f r => 8 + c_f f + c_fl r end
with c_f (f : field) : nat :=
  match f with FPos e => 8 + c_e e | FNamed _ e => 8 + c_e e | FKey k e => 8 + c_e k + c_e e end
with c_fb (f : funcbody) : nat :=
  match f with FBody ps _ b => 8 + length ps + c_b b end
with c_b (b : block) : nat :=
  match b with
  | BNil => 8
  | BLast l _ => 8 + c_l l
  | BCons s _ r => 8 + c_s s + c_b r
  end
with c_l (l : laststat) : nat :=
  match l with LReturn es => 8 + c_el es | LBreak => 8 end
with c_s (s : stat) : nat :=
  match s with
  | SAssign ts es => 8 + c_el ts + c_el es
  | SCall e => 8 + c_e e
  | SDo b => 8 + c_b b
  | SWhile c b => 8 + c_e c + c_b b
  | SRepeat b c => 8 + c_b b + c_e c
  | SIf c b e => 8 + c_e c + c_b b + c_else e
  | SFornum _ e1 e2 b => 8 + c_e e1 + c_e e2 + c_b b
  | SFornum3 _ e1 e2 e3 b => 8 + c_e e1 + c_e e2 + c_e e3 + c_b b
  | SForin ns es b => 8 + length ns + c_el es + c_b b
  | SFunction path _ f => 8 + length path + c_fb f
  | SLocalFunction _ f => 8 + c_fb f
  | SLocal ns es => 8 + length ns + c_el es
  | SGoto _ | SLabel _ => 8
  end
with c_else (e : elsepart) : nat :=
  match e with
  | ElseNone => 8
  | ElseIf c b r => 8 + c_e c + c_b b + c_else r
  | Else b => 8 + c_b b
  end.

(* ---------- mutual induction over the tree ---------- *)

Scheme expr_mi := Induction for expr Sort Prop
with args_mi := Induction for args Sort Prop
with exprlist_mi := Induction for exprlist Sort Prop
with fieldlist_mi := Induction for fieldlist Sort Prop
with field_mi := Induction for field Sort Prop
with funcbody_mi := Induction for funcbody Sort Prop
with block_mi := Induction for block Sort Prop
with laststat_mi := Induction for laststat Sort Prop
with stat_mi := Induction for stat Sort Prop
with elsepart_mi := Induction for elsepart Sort Prop.
Combined Scheme ast_mutind from expr_mi, args_mi, exprlist_mi, fieldlist_mi, field_mi,
  funcbody_mi, block_mi, laststat_mi, stat_mi, elsepart_mi.

(* ---------- first tokens ---------- *)

Definition hd_ty (l : list ptok) : Z := match l with t :: _ => pty t | [] => 0 end.

Definition in_tys (l : list Z) (y : Z) : bool := existsb (Z.eqb y) l.

(* an expression starts with one of these *)
Definition efirst_tys : list Z :=
  [TNumber; TString; TNil; TTrue; TFalse; T3Comma; 123; TFunction; TIdent; 40; 45; TNot; 35].
(* a statement starts with one of these *)
Definition sfirst_tys : list Z :=
  [TIdent; 40; TDo; TWhile; TRepeat; TIf; TFor; TFunction; TLocal; TGoto; T2Colon].

Lemma hd_ty_app l r : l <> [] -> hd_ty (l ++ r) = hd_ty l.
Proof. destruct l; simpl; congruence. Qed.

Lemma pr_prefix_first e r :
  exists t X, pr_prefix e ++ r = t :: X /\ (pty t = TIdent \/ pty t = 40).
Proof.
  revert r. induction e; intros r; cbn [pr_prefix];
    try (eexists _, _; split; [reflexivity|]; right; reflexivity).
  - eexists _, _; split; [reflexivity|]. left; reflexivity.
  - rewrite <- app_assoc. apply IHe1.
  - rewrite <- app_assoc. apply IHe.
  - rewrite <- app_assoc. apply IHe.
  - rewrite <- app_assoc. apply IHe.
Qed.

Lemma pr_prefix_hd e r : in_tys [TIdent; 40] (hd_ty (pr_prefix e ++ r)) = true.
Proof.
  destruct (pr_prefix_first e r) as (t & X & E & [H|H]); rewrite E; unfold hd_ty, in_tys; simpl; rewrite H; reflexivity.
Qed.

Lemma pr_e_prefix_form L p e : is_prefix e = true -> pr_e L p e = pr_prefix e.
Proof. destruct e; simpl; intros; try discriminate; reflexivity. Qed.

Lemma pr_e_wrapped L p e :
  bare_ok L p e = false -> pr_e L p e = pr_prefix e.
Proof.
  destruct e; cbn [bare_ok]; intros H; try discriminate; cbn [pr_e pr_prefix bare_ok]; rewrite H; reflexivity.
Qed.

Lemma in_tys_weaken l1 l2 y : (forall x, In x l1 -> In x l2) -> in_tys l1 y = true -> in_tys l2 y = true.
Proof.
  unfold in_tys. intros Hs H. apply existsb_exists in H. destruct H as (x & Hx & E).
  apply existsb_exists. exists x. split; auto.
Qed.

Lemma pr_e_hd e : forall L p r, in_tys efirst_tys (hd_ty (pr_e L p e ++ r)) = true.
Proof.
  induction e; intros L p r; try reflexivity.
  - (* EBin *) destruct (bare_ok L p (EBin op e1 e2)) eqn:B.
    + cbn [pr_e]. rewrite B. rewrite <- app_assoc. apply IHe1.
    + rewrite pr_e_wrapped by auto. reflexivity.
  - (* EUn *) destruct (bare_ok L p (EUn op e)) eqn:B.
    + cbn [pr_e]. rewrite B. destruct op; reflexivity.
    + rewrite pr_e_wrapped by auto. reflexivity.
  - rewrite pr_e_prefix_form by reflexivity. eapply in_tys_weaken; [|apply pr_prefix_hd]. simpl. intuition.
  - rewrite pr_e_prefix_form by reflexivity. eapply in_tys_weaken; [|apply pr_prefix_hd]. simpl. intuition.
  - rewrite pr_e_prefix_form by reflexivity. eapply in_tys_weaken; [|apply pr_prefix_hd]. simpl. intuition.
  - rewrite pr_e_prefix_form by reflexivity. eapply in_tys_weaken; [|apply pr_prefix_hd]. simpl. intuition.
Qed.

Lemma pr_e_nonempty L p e : pr_e L p e <> [].
Proof.
  pose proof (pr_e_hd e L p []) as H. rewrite app_nil_r in H.
  destruct (pr_e L p e); [discriminate|congruence].
Qed.

(* from a membership fact to the (in)equalities the parser tests: by computation *)
Ltac tys H :=
  unfold in_tys, efirst_tys, sfirst_tys in H; cbn [existsb] in H;
  unfold TAnd, TBreak, TDo, TElse, TElseIf, TEnd, TFalse, TFor, TFunction, TIf, TIn, TLocal, TNil, TNot,
    TOr, TReturn, TRepeat, TThen, TTrue, TUntil, TWhile, TGoto, TEqeq, TNeq, TLte, TGte, T2Comma, T3Comma,
    T2Colon, TIdent, TNumber, TString in *.

(* ---------- what may follow ---------- *)

Definition starts_suffix (t : ptok) : bool :=
  let y := pty t in (y =? 46) || (y =? 91) || (y =? 58) || (y =? 40) || (y =? TString) || (y =? 123).

Definition nosuf (r : list ptok) : bool :=
  match r with t :: _ => negb (starts_suffix t) | [] => true end.

(* if an operator follows, its left priority is at most p *)
Definition opfollow (p : Z) (r : list ptok) : bool :=
  match r with
  | t :: _ => match binop_of t with Some op => prio_left op <=? p | None => true end
  | [] => true
  end.

(* the end of an expression list / statement: no operator, no suffix, no "," and no "=" *)
Definition safe (r : list ptok) : bool :=
  match r with
  | t :: _ => negb (starts_suffix t) && (match binop_of t with None => true | Some _ => false end)
              && negb (pty t =? 44) && negb (pty t =? 61)
  | [] => true
  end.

Definition bfollow (r : list ptok) : bool :=
  match r with [] => true | t :: _ => block_follow t end.

Lemma safe_nosuf r : safe r = true -> nosuf r = true.
Proof.
  destruct r; simpl; auto. intros H.
  apply andb_true_iff in H; destruct H as [H _]. apply andb_true_iff in H; destruct H as [H _].
  apply andb_true_iff in H; destruct H as [H _]. exact H.
Qed.

Lemma safe_opfollow r p : safe r = true -> opfollow p r = true.
Proof.
  destruct r as [|t r]; simpl; auto. intros H.
  apply andb_true_iff in H; destruct H as [H _]. apply andb_true_iff in H; destruct H as [H _].
  apply andb_true_iff in H; destruct H as [_ H]. destruct (binop_of t); auto. discriminate.
Qed.

Lemma prio_left_pos op : 1 <= prio_left op.
Proof. destruct op; simpl; lia. Qed.

Lemma binop_of_tk op : binop_of (tk (binop_ty op)) = Some op.
Proof. destruct op; reflexivity. Qed.

Lemma binop_tk_nosuf op r : nosuf (tk (binop_ty op) :: r) = true.
Proof. destruct op; reflexivity. Qed.

Definition pflag (e : expr) : bool :=
  match e with EName _ | EIndex _ _ | EField _ _ | ECall _ _ | EMethod _ _ _ => false | _ => true end.

(* does the token list start Name "=" ? *)
Definition second_ok (l : list ptok) : bool :=
  match l with
  | t :: t2 :: _ => negb ((pty t =? TIdent) && (pty t2 =? 61))
  | _ => true
  end.

Section RoundTrip.
Variable d : dialect.

Notation "a <=n b" := (Nat.le a b) (at level 70).

(* ---------- one-step unfolding equations of the mutually recursive parser (generated from
   Parser.v; each holds by reflexivity) ---------- *)

Lemma p_block_eq f (toks0 : list ptok) :
  p_block d (S f) toks0 =
    let toks := if d_emptystat d then skip_semis toks0 else toks0 in
    match toks with
    | [] => POk BNil []
    | t :: r =>
      if block_follow t then POk BNil toks
      else if pty t =? TReturn then
        match r with
        | [] => POk (BLast (LReturn ELNil) false) []
        | t2 :: _ =>
          if block_follow t2 || (pty t2 =? 59)
          then let '(_, rest) := opt_semi r in POk (BLast (LReturn ELNil) false) rest
          else pbind (p_explist d f r) (fun es r1 =>
                 let '(_, rest) := opt_semi r1 in POk (BLast (LReturn es) false) rest)
        end
      else if pty t =? TBreak then
        let '(_, rest) := opt_semi r in POk (BLast LBreak false) rest
      else
        pbind (p_stat d f toks) (fun s r1 =>
          let '(_, r2) := opt_semi r1 in
          pbind (p_block d f r2) (fun b rest => POk (BCons s false b) rest))
    end.
Proof. reflexivity. Qed.

Lemma p_stat_eq f (toks : list ptok) :
  p_stat d (S f) toks =
    match toks with
    | [] => PErr PSyntax
    | t :: r =>
      let y := pty t in
      if y =? TIf then
        pbind (p_subexpr d f 0 r) (fun c r1 => expect TThen r1 (fun r2 =>
        pbind (p_block d f r2) (fun b r3 =>
        pbind (p_else d f r3) (fun e rest => POk (SIf c b e) rest))))
      else if y =? TWhile then
        pbind (p_subexpr d f 0 r) (fun c r1 => expect TDo r1 (fun r2 =>
        pbind (p_block d f r2) (fun b r3 => expect TEnd r3 (fun rest => POk (SWhile c b) rest))))
      else if y =? TDo then
        pbind (p_block d f r) (fun b r1 => expect TEnd r1 (fun rest => POk (SDo b) rest))
      else if y =? TFor then
        expect_name r (fun v r1 =>
          match r1 with
          | t1 :: r2 =>
            if pty t1 =? 61 then
              pbind (p_subexpr d f 0 r2) (fun e1 r3 => expect 44 r3 (fun r4 =>
              pbind (p_subexpr d f 0 r4) (fun e2 r5 =>
                match r5 with
                | t5 :: r6 =>
                  if pty t5 =? 44 then
                    pbind (p_subexpr d f 0 r6) (fun e3 r7 => expect TDo r7 (fun r8 =>
                    pbind (p_block d f r8) (fun b r9 => expect TEnd r9 (fun rest =>
                      POk (SFornum3 v e1 e2 e3 b) rest))))
                  else expect TDo r5 (fun r8 =>
                    pbind (p_block d f r8) (fun b r9 => expect TEnd r9 (fun rest =>
                      POk (SFornum v e1 e2 b) rest)))
                | [] => PErr PSyntax
                end)))
            else
              pbind (p_names f 44 r) (fun ns r3 => expect TIn r3 (fun r4 =>
              pbind (p_explist d f r4) (fun es r5 => expect TDo r5 (fun r6 =>
              pbind (p_block d f r6) (fun b r7 => expect TEnd r7 (fun rest =>
                POk (SForin ns es b) rest))))))
          | [] => PErr PSyntax
          end)
      else if y =? TRepeat then
        pbind (p_block d f r) (fun b r1 => expect TUntil r1 (fun r2 =>
        pbind (p_subexpr d f 0 r2) (fun c rest => POk (SRepeat b c) rest)))
      else if y =? TFunction then
        pbind (p_names f 46 r) (fun path r1 =>
          match r1 with
          | t1 :: r2 =>
            if pty t1 =? 58 then
              expect_name r2 (fun m r3 =>
                pbind (p_funcbody d f r3) (fun fb rest => POk (SFunction path (Some m) fb) rest))
            else pbind (p_funcbody d f r1) (fun fb rest => POk (SFunction path None fb) rest)
          | [] => PErr PSyntax
          end)
      else if y =? TLocal then
        match r with
        | t1 :: r1 =>
          if pty t1 =? TFunction then
            expect_name r1 (fun n r2 =>
              pbind (p_funcbody d f r2) (fun fb rest => POk (SLocalFunction n fb) rest))
          else
            pbind (p_names f 44 r) (fun ns r2 =>
              match r2 with
              | t2 :: r3 =>
                if pty t2 =? 61 then pbind (p_explist d f r3) (fun es rest => POk (SLocal ns es) rest)
                else POk (SLocal ns ELNil) r2
              | [] => POk (SLocal ns ELNil) r2
              end)
        | [] => PErr PSyntax
        end
      else if y =? T2Colon then
        expect_name r (fun n r1 => expect T2Colon r1 (fun rest => POk (SLabel n) rest))
      else if y =? TGoto then
        expect_name r (fun n rest => POk (SGoto n) rest)
      else
        
        pbind (p_suffixed d f toks) (fun ep r1 =>
          let '(e, par) := ep in
          if is_call e && negb par then POk (SCall e) r1
          else if d_parencall d && par && (match e with EParen x => is_call x | _ => false end)
          then POk (SCall e) r1
          else if is_var e && negb par then
            pbind (p_targets d f r1) (fun ts r2 => expect 61 r2 (fun r3 =>
            pbind (p_explist d f r3) (fun es rest => POk (SAssign (ELCons e ts) es) rest)))
          else PErr PSyntax)
    end.
Proof. reflexivity. Qed.

Lemma p_targets_eq f (toks : list ptok) :
  p_targets d (S f) toks =
    match toks with
    | t :: r =>
      if pty t =? 44 then
        pbind (p_suffixed d f r) (fun ep r1 =>
          let '(e, par) := ep in
          if is_var e && negb par
          then pbind (p_targets d f r1) (fun ts rest => POk (ELCons e ts) rest)
          else PErr PSyntax)
      else POk ELNil toks
    | [] => POk ELNil toks
    end.
Proof. reflexivity. Qed.

Lemma p_else_eq f (toks : list ptok) :
  p_else d (S f) toks =
    match toks with
    | t :: r =>
      let y := pty t in
      if y =? TElseIf then
        pbind (p_subexpr d f 0 r) (fun c r1 => expect TThen r1 (fun r2 =>
        pbind (p_block d f r2) (fun b r3 =>
        pbind (p_else d f r3) (fun e rest => POk (ElseIf c b e) rest))))
      else if y =? TElse then
        pbind (p_block d f r) (fun b r1 => expect TEnd r1 (fun rest => POk (Else b) rest))
      else if y =? TEnd then POk ElseNone r
      else PErr PSyntax
    | [] => PErr PSyntax
    end.
Proof. reflexivity. Qed.

Lemma p_funcbody_eq f (toks : list ptok) :
  p_funcbody d (S f) toks =
    expect 40 toks (fun r =>
      match r with
      | t :: r1 =>
        let body ps va r2 :=
          pbind (p_block d f r2) (fun b r3 => expect TEnd r3 (fun rest => POk (FBody ps va b) rest)) in
        if pty t =? 41 then body [] false r1
        else pbind (p_params f r) (fun pv r2 => body (fst pv) (snd pv) r2)
      | [] => PErr PSyntax
      end).
Proof. reflexivity. Qed.

Lemma p_explist_eq f (toks : list ptok) :
  p_explist d (S f) toks =
    pbind (p_subexpr d f 0 toks) (fun e r =>
      match r with
      | t :: r1 =>
        if pty t =? 44 then pbind (p_explist d f r1) (fun es rest => POk (ELCons e es) rest)
        else POk (ELCons e ELNil) r
      | [] => POk (ELCons e ELNil) r
      end).
Proof. reflexivity. Qed.

Lemma p_subexpr_eq f (limit : Z) (toks : list ptok) :
  p_subexpr d (S f) limit toks =
    match toks with
    | t :: r =>
      match unop_of t with
      | Some op => pbind (p_subexpr d f unary_priority r) (fun e r1 => p_subloop d f limit (EUn op e) r1)
      | None => pbind (p_simple d f toks) (fun e r1 => p_subloop d f limit e r1)
      end
    | [] => PErr PSyntax
    end.
Proof. reflexivity. Qed.

Lemma p_subloop_eq f (limit : Z) (e1 : expr) (toks : list ptok) :
  p_subloop d (S f) limit e1 toks =
    match toks with
    | t :: r =>
      match binop_of t with
      | Some op =>
        if limit <? prio_left op
        then pbind (p_subexpr d f (prio_right op) r) (fun e2 r1 => p_subloop d f limit (EBin op e1 e2) r1)
        else POk e1 toks
      | None => POk e1 toks
      end
    | [] => POk e1 toks
    end.
Proof. reflexivity. Qed.

Lemma p_simple_eq f (toks : list ptok) :
  p_simple d (S f) toks =
    match toks with
    | t :: r =>
      let y := pty t in
      if y =? TNumber then POk (ENumber (ptext t)) r
      else if y =? TString then POk (EString (ptext t)) r
      else if y =? TNil then POk ENil r
      else if y =? TTrue then POk ETrue r
      else if y =? TFalse then POk EFalse r
      else if y =? T3Comma then POk EVararg r
      else if y =? 123 then pbind (p_fields d f r) (fun fs rest => POk (ETable fs) rest)
      else if y =? TFunction then pbind (p_funcbody d f r) (fun fb rest => POk (EFunction fb) rest)
      else pbind (p_suffixed d f toks) (fun ep rest => POk (fst ep) rest)
    | [] => PErr PSyntax
    end.
Proof. reflexivity. Qed.

Lemma p_suffixed_eq f (toks : list ptok) :
  p_suffixed d (S f) toks =
    match toks with
    | t :: r =>
      if pty t =? TIdent then p_sufloop d f (EName (ptext t)) false r
      else if pty t =? 40 then
        pbind (p_subexpr d f 0 r) (fun e r1 => expect 41 r1 (fun r2 => p_sufloop d f (paren_wrap e) true r2))
      else PErr PSyntax
    | [] => PErr PSyntax
    end.
Proof. reflexivity. Qed.

Lemma p_sufloop_eq f (e : expr) (par : bool) (toks : list ptok) :
  p_sufloop d (S f) e par toks =
    match toks with
    | t :: r =>
      let y := pty t in
      if y =? 46 then expect_name r (fun n r1 => p_sufloop d f (EField e n) false r1)
      else if y =? 91 then
        pbind (p_subexpr d f 0 r) (fun k r1 => expect 93 r1 (fun r2 => p_sufloop d f (EIndex e k) false r2))
      else if y =? 58 then
        expect_name r (fun n r1 => pbind (p_args d f r1) (fun a r2 => p_sufloop d f (EMethod e n a) false r2))
      else if (y =? 40) || (y =? TString) || (y =? 123) then
        pbind (p_args d f toks) (fun a r1 => p_sufloop d f (ECall e a) false r1)
      else POk (e, par) toks
    | [] => POk (e, par) toks
    end.
Proof. reflexivity. Qed.

Lemma p_args_eq f (toks : list ptok) :
  p_args d (S f) toks =
    match toks with
    | t :: r =>
      let y := pty t in
      if y =? 40 then
        if pnl t && negb (d_noamb d) then PErr PAmbiguous
        else
          match r with
          | t1 :: r1 =>
            if pty t1 =? 41 then POk (AList ELNil) r1
            else pbind (p_explist d f r) (fun es r2 => expect 41 r2 (fun rest => POk (AList es) rest))
          | [] => PErr PSyntax
          end
      else if y =? TString then POk (AString (ptext t)) r
      else if y =? 123 then pbind (p_fields d f r) (fun fs rest => POk (ATable fs) rest)
      else PErr PSyntax
    | [] => PErr PSyntax
    end.
Proof. reflexivity. Qed.

Lemma p_fields_eq f (toks : list ptok) :
  p_fields d (S f) toks =
    match toks with
    | t :: r =>
      if pty t =? 125 then POk FLNil r
      else
        pbind (p_field d f toks) (fun fld r1 =>
          match r1 with
          | t1 :: r2 =>
            if (pty t1 =? 44) || (pty t1 =? 59)
            then pbind (p_fields d f (if d_seps d then skip_seps r2 else r2))
                       (fun fs rest => POk (FLCons fld fs) rest)
            else if pty t1 =? 125 then POk (FLCons fld FLNil) r2
            else PErr PSyntax
          | [] => PErr PSyntax
          end)
    | [] => PErr PSyntax
    end.
Proof. reflexivity. Qed.

Lemma p_field_eq f (toks : list ptok) :
  p_field d (S f) toks =
    match toks with
    | t :: r =>
      if pty t =? 91 then
        pbind (p_subexpr d f 0 r) (fun k r1 => expect 93 r1 (fun r2 => expect 61 r2 (fun r3 =>
        pbind (p_subexpr d f 0 r3) (fun e rest => POk (FKey k e) rest))))
      else if (pty t =? TIdent) && (match r with t1 :: _ => pty t1 =? 61 | [] => false end) then
        pbind (p_subexpr d f 0 (tl r)) (fun e rest => POk (FNamed (ptext t) e) rest)
      else pbind (p_subexpr d f 0 toks) (fun e rest => POk (FPos e) rest)
    | [] => PErr PSyntax
    end.
Proof. reflexivity. Qed.


(* ---------- the loops at the end of an operand ---------- *)

(* the operator loop stops: what follows is no operator of left priority above the limit *)
Lemma subloop_stop fuel L e r :
  (1 <=n fuel) ->
  (match r with t :: _ => match binop_of t with Some op => prio_left op <=? L | None => true end | [] => true end) = true ->
  p_subloop d fuel L e r = POk e r.
Proof.
  intros Hf H. destruct fuel as [|f]; [lia|]. rewrite p_subloop_eq.
  destruct r as [|t r']; auto. destruct (binop_of t) as [op|]; auto.
  replace (L <? prio_left op) with false by lia. reflexivity.
Qed.

Lemma sufloop_stop fuel e fl r :
  (1 <=n fuel) -> nosuf r = true -> p_sufloop d fuel e fl r = POk (e, fl) r.
Proof.
  intros Hf H. destruct fuel as [|f]; [lia|]. rewrite p_sufloop_eq. cbv zeta.
  destruct r as [|t r']; auto. simpl in H. unfold starts_suffix in H.
  replace (pty t =? 46) with false by lia. replace (pty t =? 91) with false by lia.
  replace (pty t =? 58) with false by lia.
  replace ((pty t =? 40) || (pty t =? TString) || (pty t =? 123)) with false by lia. reflexivity.
Qed.

(* ---------- the statements about an expression e ---------- *)

(* E1: subexpr at limit L reads the printed e and goes on with the operator loop *)
Definition E1 (e : expr) : Prop :=
  forall L p r R n,
    opfollow p r = true -> nosuf r = true ->
    (forall fuel, n <=n fuel -> p_subloop d fuel L (norm_e e) r = R) ->
    forall fuel, n + c_e e <=n fuel -> p_subexpr d fuel L (pr_e L p e ++ r) = R.

(* E1 where e is printed bare or is no operator expression *)
Definition E1bare (e : expr) : Prop :=
  forall L p r R n,
    bare_ok L p e = true ->
    opfollow p r = true -> nosuf r = true ->
    (forall fuel, n <=n fuel -> p_subloop d fuel L (norm_e e) r = R) ->
    forall fuel, n + c_e e <=n fuel + 6 -> p_subexpr d fuel L (pr_e L p e ++ r) = R.

(* E2: primaryexp reads the printed prefix e and goes on with the suffix loop *)
Definition E2 (e : expr) : Prop :=
  pfx_ok e = true ->
  forall r R n,
    (forall fuel, n <=n fuel -> p_sufloop d fuel (norm_e e) (pflag e) r = R) ->
    forall fuel, n + c_e e <=n fuel + 3 -> p_suffixed d fuel (pr_prefix e ++ r) = R.

(* value form of E1 at the top of an expression *)
Lemma E1_value e : E1 e -> forall r fuel,
  opfollow 0 r = true -> nosuf r = true -> 1 + c_e e <=n fuel ->
  p_subexpr d fuel 0 (pr_e 0 0 e ++ r) = POk (norm_e e) r.
Proof.
  intros H r fuel Ho Hs Hf. apply (H 0 0 r (POk (norm_e e) r) 1%nat Ho Hs); auto.
  intros fu Hfu. apply subloop_stop; auto.
Qed.

(* value form at a limit: the operator that follows (if any) has left priority <= the limit *)
Lemma E1_value_at e L p : E1 e -> forall r fuel,
  opfollow p r = true -> p <= L -> nosuf r = true -> 1 + c_e e <=n fuel ->
  p_subexpr d fuel L (pr_e L p e ++ r) = POk (norm_e e) r.
Proof.
  intros H r fuel Ho Hp Hs Hf. apply (H L p r (POk (norm_e e) r) 1%nat Ho Hs); auto.
  intros fu Hfu. apply subloop_stop; auto.
  destruct r as [|t r']; auto. simpl in Ho. destruct (binop_of t); auto. lia.
Qed.

(* simpleexp on something that starts with a Name or "(" hands over to primaryexp *)
Lemma simple_to_suffixed fuel toks t X :
  toks = t :: X -> (pty t = TIdent \/ pty t = 40) ->
  p_simple d (S fuel) toks = pbind (p_suffixed d fuel toks) (fun ep rest => POk (fst ep) rest).
Proof.
  intros -> H. rewrite p_simple_eq. cbv zeta. destruct H as [H|H]; rewrite H; reflexivity.
Qed.

Lemma unop_of_prefix_first t : (pty t = TIdent \/ pty t = 40) -> unop_of t = None.
Proof. unfold unop_of. intros [H|H]; rewrite H; reflexivity. Qed.

(* E1 through the primaryexp path *)
Lemma E1_via_E2 e L p :
  pr_e L p e = pr_prefix e -> pfx_ok e = true -> E2 e ->
  forall r R n,
    nosuf r = true ->
    (forall fuel, n <=n fuel -> p_subloop d fuel L (norm_e e) r = R) ->
    forall fuel, n + c_e e <=n fuel -> p_subexpr d fuel L (pr_e L p e ++ r) = R.
Proof.
  intros Epr Hpf H2 r R n Hs Hc fuel Hf. rewrite Epr.
  assert (c_e e >= 8)%nat by (destruct e; simpl; lia).
  destruct fuel as [|f]; [lia|]. rewrite p_subexpr_eq.
  destruct (pr_prefix_first e r) as (t & X & Et & Ht). rewrite Et.
  rewrite (unop_of_prefix_first t Ht).
  destruct f as [|f']; [lia|].
  rewrite (simple_to_suffixed f' (t :: X) t X eq_refl Ht). rewrite <- Et.
  rewrite (H2 Hpf r (POk (norm_e e, pflag e) r) 1%nat).
  - cbn [pbind fst]. apply Hc. lia.
  - intros fu Hfu. apply sufloop_stop; auto.
  - lia.
Qed.

Lemma c_e_ge e : (8 <= c_e e)%nat.
Proof. destruct e; simpl; lia. Qed.

Lemma E1bare_value e : E1bare e -> forall r fuel,
  opfollow 0 r = true -> nosuf r = true -> c_e e <=n fuel + 5 ->
  p_subexpr d fuel 0 (pr_e 0 0 e ++ r) = POk (norm_e e) r.
Proof.
  intros H r fuel Ho Hs Hf.
  apply (H 0 0 r (POk (norm_e e) r) 1%nat); auto.
  - destruct e; try reflexivity; destruct op; reflexivity.
  - intros fu Hfu. apply subloop_stop; auto.
  - lia.
Qed.

(* a parenthesised expression as a prefix *)
Lemma E2_paren x r R n m :
  (forall f, m <=n f -> p_subexpr d f 0 (pr_e 0 0 x ++ tk 41 :: r) = POk (norm_e x) (tk 41 :: r)) ->
  (forall fuel, n <=n fuel -> p_sufloop d fuel (paren_wrap (norm_e x)) true r = R) ->
  forall fuel, S (Nat.max n m) <=n fuel ->
  p_suffixed d fuel (tk 40 :: pr_e 0 0 x ++ tk 41 :: r) = R.
Proof.
  intros H1 Hc fuel Hf.
  destruct fuel as [|f]; [lia|]. rewrite p_suffixed_eq.
  change (pty (tk 40) =? TIdent) with false. change (pty (tk 40) =? 40) with true. cbv iota.
  rewrite H1 by lia.
  cbn [pbind expect]. change (pty (tk 41) =? 41) with true. cbv iota. apply Hc. lia.
Qed.

Lemma nonprefix_pr e : is_prefix e = false -> pr_prefix e = tk 40 :: pr_e 0 0 e ++ [tk 41].
Proof. destruct e; simpl; intros; try discriminate; try reflexivity; destruct op; reflexivity. Qed.

Lemma nonprefix_norm e : is_prefix e = false -> pfx_ok e = true ->
  paren_wrap (norm_e e) = norm_e e /\ pflag e = true.
Proof. destruct e; simpl; intros; try discriminate; auto. Qed.

Lemma E2_nonprefix e : is_prefix e = false -> E1bare e -> E2 e.
Proof.
  intros Hn H1 Hp r R n Hc fuel Hf. rewrite (nonprefix_pr e Hn). rewrite <- app_comm_cons, <- app_assoc. cbn [app].
  destruct (nonprefix_norm e Hn Hp) as [En Ef]. rewrite Ef in Hc. pose proof (c_e_ge e).
  apply (E2_paren e r R n (c_e e - 5)).
  - intros f Hfm. apply (E1bare_value e H1); auto. lia.
  - rewrite En. exact Hc.
  - lia.
Qed.

(* E1 in general: an operator / atom expression from its bare case and E2 *)
Lemma E1_from_bare e : is_prefix e = false -> pfx_ok e = true -> E1bare e -> E2 e -> E1 e.
Proof.
  intros Hnp Hpf Hb H2 L p r R n Ho Hs Hc fuel Hf.
  destruct (bare_ok L p e) eqn:B.
  - apply (Hb L p r R n B Ho Hs Hc). lia.
  - apply (E1_via_E2 e L p (pr_e_wrapped L p e B) Hpf H2 r R n Hs Hc). exact Hf.
Qed.

(* "..." is always bare *)
Lemma E1_vararg_from : E1bare EVararg -> E1 EVararg.
Proof. intros Hb L p r R n Ho Hs Hc fuel Hf. apply (Hb L p r R n eq_refl Ho Hs Hc). lia. Qed.

(* a prefix expression is read through primaryexp *)
Lemma E1_from_prefix e : is_prefix e = true -> pfx_ok e = true -> E2 e -> E1 e.
Proof.
  intros Hp Hpf H2 L p r R n Ho Hs Hc fuel Hf.
  apply (E1_via_E2 e L p (pr_e_prefix_form L p e Hp) Hpf H2 r R n Hs Hc). exact Hf.
Qed.

(* ----- atoms ----- *)

Ltac atom_case :=
  let L := fresh "L" in let p := fresh "p" in let r := fresh "r" in let R := fresh "R" in
  let n := fresh "n" in let Hc := fresh "Hc" in let fuel := fresh "fuel" in let Hf := fresh "Hf" in
  intros L p r R n _ _ _ Hc fuel Hf; simpl in Hf;
  destruct fuel as [|[|f]]; [lia|lia|]; cbn [pr_e app norm_e];
  rewrite p_subexpr_eq; cbv beta iota; (* first token concrete *)
  match goal with |- context [unop_of ?t] => change (unop_of t) with (@None unop) end; cbv iota;
  rewrite p_simple_eq; cbv zeta; cbn [pbind]; apply Hc; lia.

Lemma E1bare_nil : E1bare ENil. Proof. atom_case. Qed.
Lemma E1bare_true : E1bare ETrue. Proof. atom_case. Qed.
Lemma E1bare_false : E1bare EFalse. Proof. atom_case. Qed.
Lemma E1bare_vararg : E1bare EVararg. Proof. atom_case. Qed.
Lemma E1bare_number s : E1bare (ENumber s). Proof. atom_case. Qed.
Lemma E1bare_string s : E1bare (EString s). Proof. atom_case. Qed.

(* ---------- the statements about the other syntactic categories ---------- *)

Definition P_a (a : args) : Prop :=
  wf_a a = true -> forall r fuel, c_a a <=n fuel -> p_args d fuel (pr_a a ++ r) = POk (norm_a a) r.

Definition P_fl (fs : fieldlist) : Prop :=
  wf_fl fs = true -> forall r fuel, c_fl fs <=n fuel ->
  p_fields d fuel (pr_fl fs ++ tk 125 :: r) = POk (norm_fl fs) r.

Definition P_fb (fb : funcbody) : Prop :=
  wf_fb fb = true -> forall r fuel, c_fb fb <=n fuel ->
  p_funcbody d fuel (pr_fb fb ++ r) = POk (norm_fb fb) r.

(* what is known about an expression *)
Definition P_e (e : expr) : Prop := wf_e e = true -> E2 e /\ E1 e.

(* ----- operators ----- *)

Lemma E1bare_bin op a b : E1 a -> E1 b -> E1bare (EBin op a b).
Proof.
  intros Ha Hb L p r R n B Ho Hs Hc fuel Hf.
  cbn [bare_ok] in B. apply andb_true_iff in B. destruct B as [B1 B2].
  cbn [pr_e bare_ok]. rewrite B1, B2. cbn [andb]. rewrite <- app_assoc. cbn [app norm_e c_e] in *.
  apply (Ha L (prio_left op) _ R (S (S (n + c_e b)))).
  - cbn [opfollow]. rewrite binop_of_tk. lia.
  - apply binop_tk_nosuf.
  - intros fu Hfu. destruct fu as [|f]; [lia|]. rewrite p_subloop_eq. rewrite binop_of_tk.
    replace (L <? prio_left op) with true by lia.
    rewrite (E1_value_at b (prio_right op) p Hb r f Ho ltac:(lia) Hs) by lia.
    cbn [pbind]. apply Hc. lia.
  - lia.
Qed.

Lemma unop_of_tk op : unop_of (tk (unop_ty op)) = Some op.
Proof. destruct op; reflexivity. Qed.

Lemma E1bare_un op x : E1 x -> E1bare (EUn op x).
Proof.
  intros Hx L p r R n B Ho Hs Hc fuel Hf.
  cbn [bare_ok] in B. cbn [pr_e bare_ok]. rewrite B. cbn [app norm_e c_e] in *.
  destruct fuel as [|f]; [lia|]. rewrite p_subexpr_eq. rewrite unop_of_tk.
  rewrite (E1_value_at x unary_priority p Hx r f Ho ltac:(lia) Hs) by lia.
  cbn [pbind]. apply Hc. lia.
Qed.

(* ----- prefix expressions ----- *)

Lemma E2_name n : E2 (EName n).
Proof.
  intros _ r R k Hc fuel Hf. cbn [pr_prefix app c_e] in *. destruct fuel as [|f]; [lia|].
  rewrite p_suffixed_eq. change (pty (tname n) =? TIdent) with true. cbv iota. apply Hc. lia.
Qed.

Lemma E2_paren_case x : E1 x -> E2 (EParen x).
Proof.
  intros H1 _ r R n Hc fuel Hf. cbn [pr_prefix]. rewrite <- app_comm_cons, <- app_assoc. cbn [app].
  cbn [c_e] in Hf.
  apply (E2_paren x r R n (1 + c_e x)); auto.
  - intros f Hfm. apply (E1_value x H1); auto.
  - lia.
Qed.

Lemma E2_index q k : pfx_ok q = true -> E2 q -> E1 k -> E2 (EIndex q k).
Proof.
  intros Hpq Hq Hk _ r R n Hc fuel Hf. cbn [pr_prefix norm_e pflag c_e] in *.
  rewrite <- app_assoc. rewrite <- app_comm_cons, <- app_assoc. cbn [app].
  apply (Hq Hpq _ R (S (S (n + c_e k)))); [|lia].
  intros fu Hfu. destruct fu as [|f]; [lia|]. rewrite p_sufloop_eq. cbv zeta.
  change (pty (tk 91) =? 46) with false. change (pty (tk 91) =? 91) with true. cbv iota.
  rewrite (E1_value k Hk (tk 93 :: r) f) by (auto; lia).
  cbn [pbind expect]. change (pty (tk 93) =? 93) with true. cbv iota. apply Hc. lia.
Qed.

Lemma E2_field q m : pfx_ok q = true -> E2 q -> E2 (EField q m).
Proof.
  intros Hpq Hq _ r R n Hc fuel Hf. cbn [pr_prefix norm_e pflag c_e] in *.
  rewrite <- app_assoc. cbn [app].
  apply (Hq Hpq _ R (S n)); [|lia].
  intros fu Hfu. destruct fu as [|f]; [lia|]. rewrite p_sufloop_eq. cbv zeta.
  change (pty (tk 46) =? 46) with true. cbv iota. cbn [expect_name].
  change (pty (tname m) =? TIdent) with true. cbv iota. apply Hc. lia.
Qed.

Lemma pr_a_first a r : exists t X, pr_a a ++ r = t :: X /\ (pty t = 40 \/ pty t = TString \/ pty t = 123).
Proof. destruct a; cbn [pr_a]; eexists _, _; (split; [reflexivity|]); auto. Qed.

Lemma E2_call q a : pfx_ok q = true -> E2 q -> wf_a a = true -> P_a a -> E2 (ECall q a).
Proof.
  intros Hpq Hq Wa Ha _ r R n Hc fuel Hf. cbn [pr_prefix norm_e pflag c_e] in *.
  rewrite <- app_assoc.
  apply (Hq Hpq _ R (S (n + c_a a))); [|lia].
  intros fu Hfu. destruct fu as [|f]; [lia|]. rewrite p_sufloop_eq. cbv zeta.
  destruct (pr_a_first a r) as (t & X & Et & Ht). rewrite Et.
  assert (T1 : (pty t =? 46) = false) by (destruct Ht as [H|[H|H]]; rewrite H; reflexivity).
  assert (T2 : (pty t =? 91) = false) by (destruct Ht as [H|[H|H]]; rewrite H; reflexivity).
  assert (T3 : (pty t =? 58) = false) by (destruct Ht as [H|[H|H]]; rewrite H; reflexivity).
  assert (T4 : ((pty t =? 40) || (pty t =? TString) || (pty t =? 123)) = true)
    by (destruct Ht as [H|[H|H]]; rewrite H; reflexivity).
  rewrite T1, T2, T3, T4. rewrite <- Et. rewrite (Ha Wa r f) by lia.
  cbn [pbind]. apply Hc. lia.
Qed.

Lemma E2_method q m a : pfx_ok q = true -> E2 q -> wf_a a = true -> P_a a -> E2 (EMethod q m a).
Proof.
  intros Hpq Hq Wa Ha _ r R n Hc fuel Hf. cbn [pr_prefix norm_e pflag c_e] in *.
  rewrite <- app_assoc. cbn [app].
  apply (Hq Hpq _ R (S (n + c_a a))); [|lia].
  intros fu Hfu. destruct fu as [|f]; [lia|]. rewrite p_sufloop_eq. cbv zeta.
  change (pty (tk 58) =? 46) with false. change (pty (tk 58) =? 91) with false.
  change (pty (tk 58) =? 58) with true. cbv iota. cbn [expect_name].
  change (pty (tname m) =? TIdent) with true. cbv iota.
  rewrite (Ha Wa r f) by lia. cbn [pbind]. apply Hc. lia.
Qed.

(* ----- function and table constructors ----- *)

Lemma E1bare_function fb : wf_fb fb = true -> P_fb fb -> E1bare (EFunction fb).
Proof.
  intros W H L p r R n _ Ho Hs Hc fuel Hf. cbn [pr_e norm_e c_e app] in *.
  destruct fuel as [|[|f]]; [lia|lia|]. rewrite p_subexpr_eq. rewrite <- ?app_comm_cons.
  change (unop_of (tk TFunction)) with (@None unop). cbv iota.
  rewrite p_simple_eq. cbv zeta. change (pty (tk TFunction)) with TFunction. cbv beta iota.
  change (TFunction =? TNumber) with false. change (TFunction =? TString) with false.
  change (TFunction =? TNil) with false. change (TFunction =? TTrue) with false.
  change (TFunction =? TFalse) with false. change (TFunction =? T3Comma) with false.
  change (TFunction =? 123) with false. change (TFunction =? TFunction) with true. cbv iota.
  rewrite (H W r f) by lia. cbn [pbind]. apply Hc. lia.
Qed.

Lemma E1bare_table fs : wf_fl fs = true -> P_fl fs -> E1bare (ETable fs).
Proof.
  intros W H L p r R n _ Ho Hs Hc fuel Hf. cbn [pr_e norm_e c_e] in *.
  destruct fuel as [|[|f]]; [lia|lia|]. rewrite p_subexpr_eq.
  rewrite <- ?app_comm_cons, <- ?app_assoc. cbn [app].
  change (unop_of (tk 123)) with (@None unop). cbv iota.
  rewrite p_simple_eq. cbv zeta. change (pty (tk 123)) with 123. cbv beta iota.
  change (123 =? TNumber) with false. change (123 =? TString) with false.
  change (123 =? TNil) with false. change (123 =? TTrue) with false.
  change (123 =? TFalse) with false. change (123 =? T3Comma) with false.
  change (123 =? 123) with true. cbv iota.
  rewrite (H W r f) by lia. cbn [pbind]. apply Hc. lia.
Qed.

(* ---------- lists of names, parameters ---------- *)

Lemma names_rt sep : forall ns X fuel,
  ns <> [] -> hd_ty X <> sep -> (length ns <=n fuel) ->
  p_names fuel sep (sep_names sep ns ++ X) = POk ns X.
Proof.
  induction ns as [|a ns IH]; intros X fuel Hne Hx Hf; [congruence|].
  destruct fuel as [|f]; [simpl in Hf; lia|]. cbn [p_names].
  destruct ns as [|b ns'].
  - cbn [sep_names app expect_name]. change (pty (tname a) =? TIdent) with true. cbv iota.
    change (ptext (tname a)) with a.
    destruct X as [|t X']; auto. unfold hd_ty in Hx. replace (pty t =? sep) with false by lia. reflexivity.
  - change (sep_names sep (a :: b :: ns')) with (tname a :: tk sep :: sep_names sep (b :: ns')).
    cbn [app expect_name]. change (pty (tname a) =? TIdent) with true. cbv iota.
    change (pty (tk sep)) with sep. rewrite Z.eqb_refl.
    rewrite (IH X f ltac:(congruence) Hx ltac:(simpl in *; lia)). reflexivity.
Qed.

Lemma params_rt : forall ps va X fuel,
  (ps <> [] \/ va = true) -> (length ps < fuel)%nat ->
  p_params fuel (pr_params ps va ++ tk 41 :: X) = POk (ps, va) X.
Proof.
  induction ps as [|a ps IH]; intros va X fuel Hne Hf.
  - destruct Hne as [H|H]; [congruence|]. subst va. destruct fuel as [|f]; [lia|]. reflexivity.
  - destruct fuel as [|f]; [lia|]. cbn [p_params].
    destruct ps as [|b ps'].
    + destruct va.
      * cbn [pr_params sep_names app]. change (pty (tname a) =? T3Comma) with false.
        change (pty (tname a) =? TIdent) with true. cbv iota.
        change (pty (tk 44) =? 44) with true. cbv iota.
        change (tk T3Comma :: tk 41 :: X) with (pr_params [] true ++ tk 41 :: X).
        rewrite (IH true X f) by (auto; simpl in *; lia). reflexivity.
      * reflexivity.
    + assert (E : pr_params (a :: b :: ps') va = tname a :: tk 44 :: pr_params (b :: ps') va)
        by (destruct va; reflexivity).
      rewrite E. cbn [app]. change (pty (tname a) =? T3Comma) with false.
      change (pty (tname a) =? TIdent) with true. cbv iota.
      change (pty (tk 44) =? 44) with true. cbv iota.
      rewrite (IH va X f) by (try (left; congruence); simpl in *; lia). reflexivity.
Qed.

(* ---------- "Name =" never opens an expression ---------- *)

Lemma binop_ty_not_eq op : binop_ty op <> 61.
Proof. destruct op; cbv; congruence. Qed.

Lemma second_ok_notname t l : pty t <> TIdent -> second_ok (t :: l) = true.
Proof. intros H. destruct l; auto. unfold second_ok. replace (pty t =? TIdent) with false by lia. reflexivity. Qed.

Lemma sec_prefix e : forall r, hd_ty r <> 61 -> second_ok (pr_prefix e ++ r) = true.
Proof.
  induction e; intros r Hr;
    try (cbn [pr_prefix app]; rewrite <- ?app_comm_cons; apply second_ok_notname; cbv; discriminate).
  - (* EName *) cbn [pr_prefix app]. destruct r as [|t r']; auto. unfold second_ok, hd_ty in *.
    replace (pty t =? 61) with false by lia. rewrite andb_false_r. reflexivity.
  - cbn [pr_prefix]. rewrite <- app_assoc. apply IHe1. cbv; discriminate.
  - cbn [pr_prefix]. rewrite <- app_assoc. apply IHe. cbv; discriminate.
  - cbn [pr_prefix]. rewrite <- app_assoc. apply IHe. destruct a; cbv; discriminate.
  - cbn [pr_prefix]. rewrite <- app_assoc. apply IHe. cbv; discriminate.
Qed.

Lemma sec_e e : forall L p r, hd_ty r <> 61 -> second_ok (pr_e L p e ++ r) = true.
Proof.
  induction e; intros L p r Hr;
    try (cbn [pr_e app]; rewrite <- ?app_comm_cons; apply second_ok_notname; cbv; discriminate);
    try (rewrite pr_e_prefix_form by reflexivity; apply sec_prefix; exact Hr).
  - destruct (bare_ok L p (EBin op e1 e2)) eqn:B.
    + cbn [pr_e]. rewrite B. rewrite <- app_assoc. apply IHe1. cbn [app hd_ty].
      change (pty (tk (binop_ty op))) with (binop_ty op). apply binop_ty_not_eq.
    + rewrite pr_e_wrapped by auto. apply sec_prefix; auto.
  - destruct (bare_ok L p (EUn op e)) eqn:B.
    + cbn [pr_e]. rewrite B. rewrite <- app_comm_cons. apply second_ok_notname. destruct op; cbv; discriminate.
    + rewrite pr_e_wrapped by auto. apply sec_prefix; auto.
Qed.

Lemma is_var_norm e : is_var (norm_e e) = is_var e \/ (exists x, e = EParen x).
Proof. destruct e; simpl; auto. right; eauto. Qed.

Lemma is_var_norm' e : is_var e = true -> is_var (norm_e e) = true /\ pflag e = false.
Proof. destruct e; simpl; intros; try discriminate; auto. Qed.

Lemma is_call_norm e : is_call e = true -> is_call (norm_e e) = true /\ pflag e = false /\ pfx_ok e = true.
Proof. destruct e; simpl; intros; try discriminate; auto. Qed.

(* ---------- expression lists, assignment targets ---------- *)

Definition ptt (es : exprlist) : list ptok :=
  match es with ELNil => [] | _ => tk 44 :: pr_targets es end.

Definition P_el (es : exprlist) : Prop :=
  wf_el es = true ->
  (nonempty_el es = true -> forall r fuel, safe r = true -> c_el es <=n fuel ->
     p_explist d fuel (pr_el es ++ r) = POk (norm_el es) r)
  /\ (all_var es = true -> forall r fuel, c_el es <=n fuel ->
     p_targets d fuel (ptt es ++ tk 61 :: r) = POk (norm_el es) (tk 61 :: r)).

Lemma pr_el_hd es r : nonempty_el es = true -> in_tys efirst_tys (hd_ty (pr_el es ++ r)) = true.
Proof.
  destruct es as [|e r0]; [discriminate|]. intros _. cbn [pr_el].
  destruct r0; [apply pr_e_hd|rewrite <- app_assoc; apply pr_e_hd].
Qed.

Lemma P_el_nil : P_el ELNil.
Proof.
  intros _. split; [discriminate|]. intros _ r fuel Hf. cbn [ptt app norm_el c_el] in *.
  destruct fuel as [|f]; [lia|]. rewrite p_targets_eq. reflexivity.
Qed.

Lemma P_el_cons e r0 : P_e e -> P_el r0 -> P_el (ELCons e r0).
Proof.
  intros He Hr W. cbn [wf_el] in W. apply andb_true_iff in W. destruct W as [We Wr].
  destruct (He We) as [H2 H1]. destruct (Hr Wr) as [Hx Ht]. split.
  - intros _ r fuel Hs Hf. cbn [c_el norm_el] in *. destruct fuel as [|f]; [lia|].
    rewrite p_explist_eq. destruct r0 as [|e' r1].
    + cbn [pr_el]. rewrite (E1_value e H1 r f) by (auto using safe_opfollow, safe_nosuf; lia).
      cbn [pbind norm_el]. destruct r as [|t r']; auto.
      simpl in Hs. replace (pty t =? 44) with false by lia. reflexivity.
    + change (pr_el (ELCons e (ELCons e' r1))) with (pr_e 0 0 e ++ tk 44 :: pr_el (ELCons e' r1)).
      rewrite <- app_assoc. cbn [app].
      rewrite (E1_value e H1 _ f) by (auto; lia).
      cbn [pbind]. change (pty (tk 44) =? 44) with true. cbv iota.
      rewrite (Hx eq_refl r f Hs) by lia. reflexivity.
  - intros Hv r fuel Hf. cbn [all_var] in Hv. apply andb_true_iff in Hv. destruct Hv as [Hve Hvr].
    destruct (is_var_norm' e Hve) as [Hvn Hfl].
    assert (Hpf : pfx_ok e = true) by (destruct e; try discriminate; reflexivity).
    cbn [c_el norm_el] in *. destruct fuel as [|f]; [lia|].
    assert (E : ptt (ELCons e r0) = tk 44 :: pr_prefix e ++ ptt r0) by (destruct r0; cbn; rewrite ?app_nil_r; reflexivity).
    rewrite E. cbn [app]. rewrite <- app_assoc. rewrite p_targets_eq.
    change (pty (tk 44) =? 44) with true. cbv iota.
    rewrite (H2 Hpf (ptt r0 ++ tk 61 :: r) (POk (norm_e e, pflag e) (ptt r0 ++ tk 61 :: r)) 1%nat).
    + cbn [pbind]. rewrite Hfl, Hvn. cbn [negb andb].
      rewrite (Ht Hvr r f) by lia. reflexivity.
    + intros fu Hfu. apply sufloop_stop; auto. destruct r0; reflexivity.
    + pose proof (c_e_ge e). lia.
Qed.

(* turning "the first token is in this class" into the tests the parser makes *)
Ltac by_class H := tys H; lia.

(* ---------- call arguments ---------- *)

Lemma P_a_list es : P_el es -> P_fl FLNil -> P_a (AList es).
Proof.
  intros He _ W r fuel Hf. cbn [wf_a pr_a norm_a c_a] in *.
  destruct fuel as [|f]; [lia|]. rewrite p_args_eq. cbv zeta.
  rewrite <- app_comm_cons, <- app_assoc. cbn [app].
  change (pty (tk 40) =? 40) with true. cbv iota. change (pnl (tk 40)) with false. cbn [andb].
  destruct es as [|e r0].
  - cbn [pr_el app]. change (pty (tk 41) =? 41) with true. reflexivity.
  - pose proof (pr_el_hd (ELCons e r0) (tk 41 :: r) eq_refl) as Hh.
    destruct (pr_el (ELCons e r0) ++ tk 41 :: r) as [|t1 r1] eqn:Et; [discriminate|].
    cbn [hd_ty] in Hh. replace (pty t1 =? 41) with false by (by_class Hh).
    rewrite <- Et. destruct (He W) as [Hx _].
    rewrite (Hx eq_refl (tk 41 :: r) f eq_refl) by lia.
    cbn [pbind expect]. change (pty (tk 41) =? 41) with true. reflexivity.
Qed.

Lemma P_a_table fs : P_fl fs -> P_a (ATable fs).
Proof.
  intros H W r fuel Hf. cbn [wf_a pr_a norm_a c_a] in *.
  destruct fuel as [|f]; [lia|]. rewrite p_args_eq. cbv zeta.
  rewrite <- app_comm_cons, <- app_assoc. cbn [app].
  change (pty (tk 123)) with 123. change (123 =? 40) with false. change (123 =? TString) with false.
  change (123 =? 123) with true. cbv iota.
  rewrite (H W r f) by lia. reflexivity.
Qed.

Lemma P_a_string s : P_a (AString s).
Proof.
  intros _ r fuel Hf. cbn [c_a] in Hf. destruct fuel as [|f]; [lia|]. rewrite p_args_eq. reflexivity.
Qed.

(* ---------- table fields ---------- *)

Definition P_f (f0 : field) : Prop :=
  wf_f f0 = true -> forall r fuel, (hd_ty r = 44 \/ hd_ty r = 125) -> c_f f0 <=n fuel ->
  p_field d fuel (pr_f f0 ++ r) = POk (norm_f f0) r.

Lemma sep_follow r : (hd_ty r = 44 \/ hd_ty r = 125) -> opfollow 0 r = true /\ nosuf r = true /\ hd_ty r <> 61.
Proof.
  destruct r as [|t r']; cbn [hd_ty]; [intros [H|H]; discriminate|].
  intros H. unfold opfollow, nosuf, starts_suffix, binop_of.
  destruct H as [H|H]; rewrite H; repeat split; try reflexivity; discriminate.
Qed.

Lemma P_f_pos e : P_e e -> P_f (FPos e).
Proof.
  intros He W r fuel Hr Hf. cbn [wf_f pr_f norm_f c_f] in *. destruct (He W) as [_ H1].
  destruct (sep_follow r Hr) as (Ho & Hs & H61).
  destruct fuel as [|f]; [lia|]. rewrite p_field_eq.
  pose proof (pr_e_hd e 0 0 r) as Hh. pose proof (sec_e e 0 0 r H61) as Hsec.
  destruct (pr_e 0 0 e ++ r) as [|t X] eqn:Et; [discriminate|].
  cbn [hd_ty] in Hh. replace (pty t =? 91) with false by (by_class Hh).
  assert (T : ((pty t =? TIdent) && match X with t1 :: _ => pty t1 =? 61 | [] => false end) = false).
  { destruct X as [|t1 X']; [apply andb_false_r|]. unfold second_ok in Hsec.
    destruct ((pty t =? TIdent) && (pty t1 =? 61)); auto; discriminate. }
  rewrite T. rewrite <- Et. rewrite (E1_value e H1 r f Ho Hs) by lia. reflexivity.
Qed.

Lemma P_f_named n e : P_e e -> P_f (FNamed n e).
Proof.
  intros He W r fuel Hr Hf. cbn [wf_f pr_f norm_f c_f] in *. destruct (He W) as [_ H1].
  destruct (sep_follow r Hr) as (Ho & Hs & H61).
  destruct fuel as [|f]; [lia|]. rewrite p_field_eq. cbn [app].
  change (pty (tname n) =? 91) with false. change (pty (tname n) =? TIdent) with true.
  change (pty (tk 61) =? 61) with true. cbn [andb tl]. cbv iota.
  rewrite (E1_value e H1 r f Ho Hs) by lia. reflexivity.
Qed.

Lemma P_f_key k e : P_e k -> P_e e -> P_f (FKey k e).
Proof.
  intros Hk He W r fuel Hr Hf. cbn [wf_f pr_f norm_f c_f] in *.
  apply andb_true_iff in W. destruct W as [Wk We].
  destruct (Hk Wk) as [_ K1]. destruct (He We) as [_ H1].
  destruct (sep_follow r Hr) as (Ho & Hs & H61).
  destruct fuel as [|f]; [lia|]. rewrite p_field_eq.
  rewrite <- app_comm_cons, <- app_assoc. cbn [app].
  change (pty (tk 91) =? 91) with true. cbv iota.
  rewrite (E1_value k K1 _ f) by (auto; lia).
  cbn [pbind expect]. change (pty (tk 93) =? 93) with true. cbv iota.
  change (pty (tk 61) =? 61) with true. cbv iota.
  rewrite (E1_value e H1 r f Ho Hs) by lia. reflexivity.
Qed.

Lemma pr_f_hd f0 r : in_tys (91 :: efirst_tys) (hd_ty (pr_f f0 ++ r)) = true.
Proof.
  destruct f0; cbn [pr_f]; try reflexivity.
  eapply in_tys_weaken; [|apply pr_e_hd]. simpl. intuition.
Qed.

Lemma skip_seps_id l : hd_ty l <> 44 -> hd_ty l <> 59 -> skip_seps l = l.
Proof. destruct l as [|t l']; auto. cbn [hd_ty skip_seps]. intros. replace ((pty t =? 44) || (pty t =? 59)) with false by lia. reflexivity. Qed.

Lemma P_fl_nil : P_fl FLNil.
Proof.
  intros _ r fuel Hf. cbn [c_fl] in Hf. destruct fuel as [|f]; [lia|]. rewrite p_fields_eq. reflexivity.
Qed.

Lemma P_fl_cons f0 r0 : P_f f0 -> P_fl r0 -> P_fl (FLCons f0 r0).
Proof.
  intros Hf0 Hr0 W r fuel Hf. cbn [wf_fl norm_fl c_fl] in *.
  apply andb_true_iff in W. destruct W as [W0 Wr].
  destruct fuel as [|f]; [lia|]. rewrite p_fields_eq.
  assert (E : pr_fl (FLCons f0 r0) ++ tk 125 :: r =
              pr_f f0 ++ (match r0 with FLNil => [] | _ => tk 44 :: pr_fl r0 end) ++ tk 125 :: r).
  { destruct r0; cbn [pr_fl]; rewrite <- ?app_assoc; reflexivity. }
  rewrite E. clear E.
  pose proof (pr_f_hd f0 ((match r0 with FLNil => [] | _ => tk 44 :: pr_fl r0 end) ++ tk 125 :: r)) as Hh.
  destruct (pr_f f0 ++ _) as [|t X] eqn:Et; [discriminate|].
  cbn [hd_ty] in Hh. replace (pty t =? 125) with false by (by_class Hh). rewrite <- Et.
  destruct r0 as [|f1 r1].
  - cbn [app]. rewrite (Hf0 W0 (tk 125 :: r) f) by (auto; lia).
    cbn [pbind]. change (pty (tk 125)) with 125. reflexivity.
  - rewrite <- app_comm_cons.
    rewrite (Hf0 W0 _ f) by (auto; lia).
    cbn [pbind]. change (pty (tk 44)) with 44. cbn [Z.eqb Pos.eqb orb].
    pose proof (pr_f_hd f1 ((match r1 with FLNil => [] | _ => tk 44 :: pr_fl r1 end) ++ tk 125 :: r)) as Hh1.
    assert (E1 : pr_fl (FLCons f1 r1) ++ tk 125 :: r =
                 pr_f f1 ++ (match r1 with FLNil => [] | _ => tk 44 :: pr_fl r1 end) ++ tk 125 :: r).
    { destruct r1; cbn [pr_fl]; rewrite <- ?app_assoc; reflexivity. }
    assert (Hsk : skip_seps (pr_fl (FLCons f1 r1) ++ tk 125 :: r) = pr_fl (FLCons f1 r1) ++ tk 125 :: r).
    { apply skip_seps_id; rewrite E1; by_class Hh1. }
    replace (if d_seps d then skip_seps (pr_fl (FLCons f1 r1) ++ tk 125 :: r) else pr_fl (FLCons f1 r1) ++ tk 125 :: r)
      with (pr_fl (FLCons f1 r1) ++ tk 125 :: r) by (destruct (d_seps d); auto).
    rewrite (Hr0 Wr r f) by lia. reflexivity.
Qed.

(* ---------- blocks and statements ---------- *)

Definition P_b (b : block) : Prop :=
  wf_b b = true -> forall r fuel, bfollow r = true -> c_b b <=n fuel ->
  p_block d fuel (pr_b b ++ r) = POk (norm_b b) r.

Definition P_l (l : laststat) : Prop :=
  wf_l l = true -> forall (sm : bool) r fuel, bfollow r = true -> c_l l + 2 <=n fuel ->
  p_block d fuel (pr_l l ++ (if sm then [tk 59] else []) ++ r) = POk (BLast (norm_l l) false) r.

Definition P_s (s : stat) : Prop :=
  wf_s s = true -> forall r fuel, safe r = true -> c_s s <=n fuel ->
  p_stat d fuel (pr_s s ++ r) = POk (norm_s s) r.

Definition P_else (e : elsepart) : Prop :=
  wf_else e = true -> forall r fuel, c_else e <=n fuel ->
  p_else d fuel (pr_else e ++ r) = POk (norm_else e) r.

Lemma bfollow_cases r : bfollow r = true ->
  r = [] \/ exists t X, r = t :: X /\ (pty t = TEnd \/ pty t = TElse \/ pty t = TElseIf \/ pty t = TUntil).
Proof.
  destruct r as [|t X]; auto. cbn [bfollow]. unfold block_follow. intros H. right. exists t, X. split; auto. lia.
Qed.

Lemma bfollow_safe r : bfollow r = true -> safe r = true /\ hd_ty r <> 59.
Proof.
  intros H. destruct (bfollow_cases r H) as [->|(t & X & -> & Ht)]; [split; [reflexivity|discriminate]|].
  cbn [safe hd_ty]. unfold starts_suffix, binop_of.
  destruct Ht as [E|[E|[E|E]]]; rewrite E; split; try reflexivity; discriminate.
Qed.

Lemma skip_semis_id l : hd_ty l <> 59 -> skip_semis l = l.
Proof. destruct l as [|t l']; auto. cbn [hd_ty skip_semis]. intros. replace (pty t =? 59) with false by lia. reflexivity. Qed.

Lemma demp_id l : hd_ty l <> 59 -> (if d_emptystat d then skip_semis l else l) = l.
Proof. intros. destruct (d_emptystat d); auto. apply skip_semis_id; auto. Qed.

(* a statement starts with a statement token; with a Name when it does not start with "(" *)
Lemma starts_paren_false e r : starts_paren_e e = false -> exists n X, pr_prefix e ++ r = tname n :: X.
Proof.
  revert r. induction e; intros r H; try discriminate; cbn [starts_paren_e pr_prefix] in *.
  - eexists _, _. reflexivity.
  - destruct (IHe1 (tk 91 :: pr_e 0 0 e2 ++ [tk 93] ++ r) H) as (n & X & E).
    exists n, X. rewrite <- E. rewrite <- !app_assoc. cbn [app]. rewrite <- ?app_assoc. reflexivity.
  - destruct (IHe ([tk 46; tname n] ++ r) H) as (m & X & E). exists m, X. rewrite <- E, <- app_assoc. reflexivity.
  - destruct (IHe (pr_a a ++ r) H) as (m & X & E). exists m, X. rewrite <- E, <- app_assoc. reflexivity.
  - destruct (IHe (tk 58 :: tname n :: pr_a a ++ r) H) as (m & X & E). exists m, X. rewrite <- E, <- app_assoc. reflexivity.
Qed.

Lemma pr_targets_first ts r : nonempty_el ts = true ->
  exists e X, ts = ELCons e X /\ exists Y, pr_targets ts ++ r = pr_prefix e ++ Y.
Proof.
  destruct ts as [|e r0]; [discriminate|]. intros _. exists e, r0. split; auto.
  cbn [pr_targets]. destruct r0; [exists r; reflexivity|]. eexists. rewrite <- app_assoc. reflexivity.
Qed.

Lemma pr_s_hd s r : wf_s s = true -> in_tys sfirst_tys (hd_ty (pr_s s ++ r)) = true.
Proof.
  intros W. destruct s; try reflexivity.
  - cbn [wf_s] in W. repeat (apply andb_true_iff in W; destruct W as [W ?]).
    cbn [pr_s]. rewrite <- app_assoc. cbn [app].
    destruct (pr_targets_first targets (tk 61 :: pr_el es ++ r) W) as (e & X & -> & Y & E). rewrite E.
    eapply in_tys_weaken; [|apply pr_prefix_hd]. simpl. intuition.
  - cbn [pr_s]. eapply in_tys_weaken; [|apply pr_prefix_hd]. simpl. intuition.
  - cbn [pr_s]. destruct es; reflexivity.
Qed.

Definition starts_paren_s (s : stat) : bool :=
  match s with
  | SCall e => starts_paren_e e
  | SAssign (ELCons e _) _ => starts_paren_e e
  | _ => false
  end.

Lemma pr_s_hd_noparen s r : wf_s s = true -> starts_paren_s s = false -> hd_ty (pr_s s ++ r) <> 40.
Proof.
  intros W H. destruct s; try (cbv; discriminate).
  - cbn [wf_s] in W. repeat (apply andb_true_iff in W; destruct W as [W ?]).
    destruct targets as [|e r0]; [discriminate|]. cbn [starts_paren_s] in H. cbn [pr_s pr_targets].
    destruct r0.
    + rewrite <- app_assoc. destruct (starts_paren_false e ((tk 61 :: pr_el es) ++ r) H) as (n & X & E).
      rewrite E. cbv. discriminate.
    + rewrite <- !app_assoc.
      match goal with |- hd_ty (pr_prefix e ++ ?Y) <> _ => destruct (starts_paren_false e Y H) as (n & X & E) end.
      rewrite E. cbv. discriminate.
  - cbn [starts_paren_s] in H. cbn [pr_s]. destruct (starts_paren_false e r H) as (n & X & E). rewrite E. cbv; discriminate.
  - cbn [pr_s]. destruct es; cbv; discriminate.
Qed.

(* what follows a statement inside a block is safe, and is not ";" unless printed *)
Lemma next_safe b r : wf_b b = true -> bfollow r = true -> starts_paren_b b = false ->
  safe (pr_b b ++ r) = true /\ hd_ty (pr_b b ++ r) <> 59.
Proof.
  intros W Hr Hp. destruct b as [|l sm|s sm r0].
  - apply bfollow_safe; auto.
  - cbn [pr_b]. destruct l; split; try reflexivity; cbv; discriminate.
  - cbn [wf_b] in W. apply andb_true_iff in W. destruct W as [Ws _].
    cbn [pr_b]. rewrite <- app_assoc.
    pose proof (pr_s_hd s ((if sm || starts_paren_b r0 then [tk 59] else []) ++ pr_b r0 ++ r) Ws) as Hh.
    assert (Hs : starts_paren_s s = false) by (destruct s; auto).
    pose proof (pr_s_hd_noparen s ((if sm || starts_paren_b r0 then [tk 59] else []) ++ pr_b r0 ++ r) Ws Hs) as Hn.
    destruct (pr_s s ++ _) as [|t X]; [discriminate|].
    cbn [hd_ty safe] in *. unfold starts_suffix, binop_of. split; by_class Hh.
Qed.
