(* The reference parser reads back what the reference printer writes:
   parse_d d (print t) = ParseOk (norm_b t) for every well-formed tree t and every dialect d. *)
From GL Require Import Common.Bytes Front.Lexer Front.Ast Front.Parser Front.Printer.
From Coq Require Import Lia ZifyBool.
Open Scope Z_scope.

(* ---------- well-formed trees: what the grammar can produce ---------- *)

Definition pfx_ok (e : expr) : bool := match e with EVararg => false | _ => true end.

Fixpoint all_var (l : exprlist) : bool :=
  match l with ELNil => true | ELCons e r => is_var e && all_var r end.
Definition nonempty_el (l : exprlist) : bool := match l with ELNil => false | _ => true end.
Definition nonempty {A} (l : list A) : bool := match l with [] => false | _ => true end.

Fixpoint wf_e (e : expr) : bool :=
  match e with
  | ENil | ETrue | EFalse | EVararg | ENumber _ | EString _ | EName _ => true
  | EFunction f => wf_fb f
  | ETable fs => wf_fl fs
  | EBin _ a b => wf_e a && wf_e b
  | EUn _ a => wf_e a
  | EIndex p k => pfx_ok p && wf_e p && wf_e k
  | EField p _ => pfx_ok p && wf_e p
  | ECall p a => pfx_ok p && wf_e p && wf_a a
  | EMethod p _ a => pfx_ok p && wf_e p && wf_a a
  | EParen x => wf_e x
  end
with wf_a (a : args) : bool :=
  match a with AList es => wf_el es | ATable fs => wf_fl fs | AString _ => true end
with wf_el (l : exprlist) : bool :=
  match l with ELNil => true | ELCons e r => wf_e e && wf_el r end
with wf_fl (l : fieldlist) : bool :=
  match l with FLNil => true | FLCons f r => wf_f f && wf_fl r end
with wf_f (f : field) : bool :=
  match f with FPos e => wf_e e | FNamed _ e => wf_e e | FKey k e => wf_e k && wf_e e end
with wf_fb (f : funcbody) : bool :=
  match f with FBody _ _ b => wf_b b end
with wf_b (b : block) : bool :=
  match b with
  | BNil => true
  | BLast l _ => wf_l l
  | BCons s _ r => wf_s s && wf_b r
  end
with wf_l (l : laststat) : bool :=
  match l with LReturn es => wf_el es | LBreak => true end
with wf_s (s : stat) : bool :=
  match s with
  | SAssign ts es => nonempty_el ts && all_var ts && wf_el ts && nonempty_el es && wf_el es
  | SCall e => is_call e && wf_e e
  | SDo b => wf_b b
  | SWhile c b => wf_e c && wf_b b
  | SRepeat b c => wf_b b && wf_e c
  | SIf c b e => wf_e c && wf_b b && wf_else e
  | SFornum _ e1 e2 b => wf_e e1 && wf_e e2 && wf_b b
  | SFornum3 _ e1 e2 e3 b => wf_e e1 && wf_e e2 && wf_e e3 && wf_b b
  | SForin ns es b => nonempty ns && nonempty_el es && wf_el es && wf_b b
  | SFunction path _ f => nonempty path && wf_fb f
  | SLocalFunction _ f => wf_fb f
  | SLocal ns es => nonempty ns && wf_el es
  | SGoto _ | SLabel _ => true
  end
with wf_else (e : elsepart) : bool :=
  match e with
  | ElseNone => true
  | ElseIf c b r => wf_e c && wf_b b && wf_else r
  | Else b => wf_b b
  end.

(* ---------- fuel a tree needs: 8 per node ---------- *)

Fixpoint c_e (e : expr) : nat :=
  match e with
  | ENil | ETrue | EFalse | EVararg | ENumber _ | EString _ | EName _ => 8
  | EFunction f => 8 + c_fb f
  | ETable fs => 8 + c_fl fs
  | EBin _ a b => 8 + c_e a + c_e b
  | EUn _ a => 8 + c_e a
  | EIndex p k => 8 + c_e p + c_e k
  | EField p _ => 8 + c_e p
  | ECall p a => 8 + c_e p + c_a a
  | EMethod p _ a => 8 + c_e p + c_a a
  | EParen x => 8 + c_e x
  end
with c_a (a : args) : nat :=
  match a with AList es => 8 + c_el es | ATable fs => 8 + c_fl fs | AString _ => 8 end
with c_el (l : exprlist) : nat :=
  match l with ELNil => 8 | ELCons e r => 8 + c_e e + c_el r end
with c_fl (l : fieldlist) : nat :=
  match l with FLNil => 8 | FLCons f r => 8 + c_f f + c_fl r end
with c_f (f : field) : nat :=
  match f with FPos e => 8 + c_e e | FNamed _ e => 8 + c_e e | FKey k e => 8 + c_e k + c_e e end
with c_fb (f : funcbody) : nat :=
  match f with FBody ps _ b => 8 + length ps + c_b b end
with c_b (b : block) : nat :=
  match b with
  | BNil => 8
  | BLast l _ => 8 + c_l l
  | BCons s _ r => 8 + c_s s + c_b r
  end
with c_l (l : laststat) : nat :=
  match l with LReturn es => 8 + c_el es | LBreak => 8 end
with c_s (s : stat) : nat :=
  match s with
  | SAssign ts es => 8 + c_el ts + c_el es
  | SCall e => 8 + c_e e
  | SDo b => 8 + c_b b
  | SWhile c b => 8 + c_e c + c_b b
  | SRepeat b c => 8 + c_b b + c_e c
  | SIf c b e => 8 + c_e c + c_b b + c_else e
  | SFornum _ e1 e2 b => 8 + c_e e1 + c_e e2 + c_b b
  | SFornum3 _ e1 e2 e3 b => 8 + c_e e1 + c_e e2 + c_e e3 + c_b b
  | SForin ns es b => 8 + length ns + c_el es + c_b b
  | SFunction path _ f => 8 + length path + c_fb f
  | SLocalFunction _ f => 8 + c_fb f
  | SLocal ns es => 8 + length ns + c_el es
  | SGoto _ | SLabel _ => 8
  end
with c_else (e : elsepart) : nat :=
  match e with
  | ElseNone => 8
  | ElseIf c b r => 8 + c_e c + c_b b + c_else r
  | Else b => 8 + c_b b
  end.

(* ---------- mutual induction over the tree ---------- *)

Scheme expr_mi := Induction for expr Sort Prop
with args_mi := Induction for args Sort Prop
with exprlist_mi := Induction for exprlist Sort Prop
with fieldlist_mi := Induction for fieldlist Sort Prop
with field_mi := Induction for field Sort Prop
with funcbody_mi := Induction for funcbody Sort Prop
with block_mi := Induction for block Sort Prop
with laststat_mi := Induction for laststat Sort Prop
with stat_mi := Induction for stat Sort Prop
with elsepart_mi := Induction for elsepart Sort Prop.
Combined Scheme ast_mutind from expr_mi, args_mi, exprlist_mi, fieldlist_mi, field_mi,
  funcbody_mi, block_mi, laststat_mi, stat_mi, elsepart_mi.

(* ---------- first tokens ---------- *)

Definition hd_ty (l : list ptok) : Z := match l with t :: _ => pty t | [] => 0 end.

Definition in_tys (l : list Z) (y : Z) : bool := existsb (Z.eqb y) l.

(* an expression starts with one of these *)
Definition efirst_tys : list Z :=
  [TNumber; TString; TNil; TTrue; TFalse; T3Comma; 123; TFunction; TIdent; 40; 45; TNot; 35].
(* a statement starts with one of these *)
Definition sfirst_tys : list Z :=
  [TIdent; 40; TDo; TWhile; TRepeat; TIf; TFor; TFunction; TLocal; TGoto; T2Colon].

Lemma hd_ty_app l r : l <> [] -> hd_ty (l ++ r) = hd_ty l.
Proof. destruct l; simpl; congruence. Qed.

Lemma pr_prefix_first e r :
  exists t X, pr_prefix e ++ r = t :: X /\ (pty t = TIdent \/ pty t = 40).
Proof.
  revert r. induction e; intros r; cbn [pr_prefix];
    try (eexists _, _; split; [reflexivity|]; right; reflexivity).
  - eexists _, _; split; [reflexivity|]. left; reflexivity.
  - rewrite <- app_assoc. apply IHe1.
  - rewrite <- app_assoc. apply IHe.
  - rewrite <- app_assoc. apply IHe.
  - rewrite <- app_assoc. apply IHe.
Qed.

Lemma pr_prefix_hd e r : in_tys [TIdent; 40] (hd_ty (pr_prefix e ++ r)) = true.
Proof.
  destruct (pr_prefix_first e r) as (t & X & E & [H|H]); rewrite E; unfold hd_ty, in_tys; simpl; rewrite H; reflexivity.
Qed.

Lemma pr_e_prefix_form L p e : is_prefix e = true -> pr_e L p e = pr_prefix e.
Proof. destruct e; simpl; intros; try discriminate; reflexivity. Qed.

Lemma pr_e_wrapped L p e :
  bare_ok L p e = false -> pr_e L p e = pr_prefix e.
Proof.
  destruct e; cbn [bare_ok]; intros H; try discriminate; cbn [pr_e pr_prefix bare_ok]; rewrite H; reflexivity.
Qed.

Lemma in_tys_weaken l1 l2 y : (forall x, In x l1 -> In x l2) -> in_tys l1 y = true -> in_tys l2 y = true.
Proof.
  unfold in_tys. intros Hs H. apply existsb_exists in H. destruct H as (x & Hx & E).
  apply existsb_exists. exists x. split; auto.
Qed.

Lemma pr_e_hd e : forall L p r, in_tys efirst_tys (hd_ty (pr_e L p e ++ r)) = true.
Proof.
  induction e; intros L p r; try reflexivity.
  - (* EBin *) destruct (bare_ok L p (EBin op e1 e2)) eqn:B.
    + cbn [pr_e]. rewrite B. rewrite <- app_assoc. apply IHe1.
    + rewrite pr_e_wrapped by auto. reflexivity.
  - (* EUn *) destruct (bare_ok L p (EUn op e)) eqn:B.
    + cbn [pr_e]. rewrite B. destruct op; reflexivity.
    + rewrite pr_e_wrapped by auto. reflexivity.
  - rewrite pr_e_prefix_form by reflexivity. eapply in_tys_weaken; [|apply pr_prefix_hd]. simpl. intuition.
  - rewrite pr_e_prefix_form by reflexivity. eapply in_tys_weaken; [|apply pr_prefix_hd]. simpl. intuition.
  - rewrite pr_e_prefix_form by reflexivity. eapply in_tys_weaken; [|apply pr_prefix_hd]. simpl. intuition.
  - rewrite pr_e_prefix_form by reflexivity. eapply in_tys_weaken; [|apply pr_prefix_hd]. simpl. intuition.
Qed.

Lemma pr_e_nonempty L p e : pr_e L p e <> [].
Proof.
  pose proof (pr_e_hd e L p []) as H. rewrite app_nil_r in H.
  destruct (pr_e L p e); [discriminate|congruence].
Qed.

(* from a membership fact to the (in)equalities the parser tests: by computation *)
Ltac tys H :=
  unfold in_tys, efirst_tys, sfirst_tys in H; cbn [existsb] in H;
  unfold TAnd, TBreak, TDo, TElse, TElseIf, TEnd, TFalse, TFor, TFunction, TIf, TIn, TLocal, TNil, TNot,
    TOr, TReturn, TRepeat, TThen, TTrue, TUntil, TWhile, TGoto, TEqeq, TNeq, TLte, TGte, T2Comma, T3Comma,
    T2Colon, TIdent, TNumber, TString in *.

(* ---------- what may follow ---------- *)

Definition starts_suffix (t : ptok) : bool :=
  let y := pty t in (y =? 46) || (y =? 91) || (y =? 58) || (y =? 40) || (y =? TString) || (y =? 123).

Definition nosuf (r : list ptok) : bool :=
  match r with t :: _ => negb (starts_suffix t) | [] => true end.

(* if an operator follows, its left priority is at most p *)
Definition opfollow (p : Z) (r : list ptok) : bool :=
  match r with
  | t :: _ => match binop_of t with Some op => prio_left op <=? p | None => true end
  | [] => true
  end.

(* the end of an expression list / statement: no operator, no suffix, no "," and no "=" *)
Definition safe (r : list ptok) : bool :=
  match r with
  | t :: _ => negb (starts_suffix t) && (match binop_of t with None => true | Some _ => false end)
              && negb (pty t =? 44) && negb (pty t =? 61)
  | [] => true
  end.

Definition bfollow (r : list ptok) : bool :=
  match r with [] => true | t :: _ => block_follow t end.

Lemma safe_nosuf r : safe r = true -> nosuf r = true.
Proof.
  destruct r; simpl; auto. intros H.
  apply andb_true_iff in H; destruct H as [H _]. apply andb_true_iff in H; destruct H as [H _].
  apply andb_true_iff in H; destruct H as [H _]. exact H.
Qed.

Lemma safe_opfollow r p : safe r = true -> opfollow p r = true.
Proof.
  destruct r as [|t r]; simpl; auto. intros H.
  apply andb_true_iff in H; destruct H as [H _]. apply andb_true_iff in H; destruct H as [H _].
  apply andb_true_iff in H; destruct H as [_ H]. destruct (binop_of t); auto. discriminate.
Qed.

Lemma prio_left_pos op : 1 <= prio_left op.
Proof. destruct op; simpl; lia. Qed.

Lemma binop_of_tk op : binop_of (tk (binop_ty op)) = Some op.
Proof. destruct op; reflexivity. Qed.

Lemma binop_tk_nosuf op r : nosuf (tk (binop_ty op) :: r) = true.
Proof. destruct op; reflexivity. Qed.

Definition pflag (e : expr) : bool :=
  match e with EName _ | EIndex _ _ | EField _ _ | ECall _ _ | EMethod _ _ _ => false | _ => true end.

(* does the token list start Name "=" ? *)
Definition second_ok (l : list ptok) : bool :=
  match l with
  | t :: t2 :: _ => negb ((pty t =? TIdent) && (pty t2 =? 61))
  | _ => true
  end.

Section RoundTrip.
Variable d : dialect.

Notation "a <=n b" := (Nat.le a b) (at level 70).

(* ---------- one-step unfolding equations of the mutually recursive parser (generated from
   Parser.v; each holds by reflexivity) ---------- *)

Lemma p_block_eq f (toks0 : list ptok) :
  p_block d (S f) toks0 =
    let toks := if d_emptystat d then skip_semis toks0 else toks0 in
    match toks with
    | [] => POk BNil []
    | t :: r =>
      if block_follow t then POk BNil toks
      else if pty t =? TReturn then
        match r with
        | [] => POk (BLast (LReturn ELNil) false) []
        | t2 :: _ =>
          if block_follow t2 || (pty t2 =? 59)
          then let '(_, rest) := opt_semi r in POk (BLast (LReturn ELNil) false) rest
          else pbind (p_explist d f r) (fun es r1 =>
                 let '(_, rest) := opt_semi r1 in POk (BLast (LReturn es) false) rest)
        end
      else if pty t =? TBreak then
        let '(_, rest) := opt_semi r in POk (BLast LBreak false) rest
      else
        pbind (p_stat d f toks) (fun s r1 =>
          let '(_, r2) := opt_semi r1 in
          pbind (p_block d f r2) (fun b rest => POk (BCons s false b) rest))
    end.
Proof. reflexivity. Qed.

Lemma p_stat_eq f (toks : list ptok) :
  p_stat d (S f) toks =
    match toks with
    | [] => PErr PSyntax
    | t :: r =>
      let y := pty t in
      if y =? TIf then
        pbind (p_subexpr d f 0 r) (fun c r1 => expect TThen r1 (fun r2 =>
        pbind (p_block d f r2) (fun b r3 =>
        pbind (p_else d f r3) (fun e rest => POk (SIf c b e) rest))))
      else if y =? TWhile then
        pbind (p_subexpr d f 0 r) (fun c r1 => expect TDo r1 (fun r2 =>
        pbind (p_block d f r2) (fun b r3 => expect TEnd r3 (fun rest => POk (SWhile c b) rest))))
      else if y =? TDo then
        pbind (p_block d f r) (fun b r1 => expect TEnd r1 (fun rest => POk (SDo b) rest))
      else if y =? TFor then
        expect_name r (fun v r1 =>
          match r1 with
          | t1 :: r2 =>
            if pty t1 =? 61 then
              pbind (p_subexpr d f 0 r2) (fun e1 r3 => expect 44 r3 (fun r4 =>
              pbind (p_subexpr d f 0 r4) (fun e2 r5 =>
                match r5 with
                | t5 :: r6 =>
                  if pty t5 =? 44 then
                    pbind (p_subexpr d f 0 r6) (fun e3 r7 => expect TDo r7 (fun r8 =>
                    pbind (p_block d f r8) (fun b r9 => expect TEnd r9 (fun rest =>
                      POk (SFornum3 v e1 e2 e3 b) rest))))
                  else expect TDo r5 (fun r8 =>
                    pbind (p_block d f r8) (fun b r9 => expect TEnd r9 (fun rest =>
                      POk (SFornum v e1 e2 b) rest)))
                | [] => PErr PSyntax
                end)))
            else
              pbind (p_names f 44 r) (fun ns r3 => expect TIn r3 (fun r4 =>
              pbind (p_explist d f r4) (fun es r5 => expect TDo r5 (fun r6 =>
              pbind (p_block d f r6) (fun b r7 => expect TEnd r7 (fun rest =>
                POk (SForin ns es b) rest))))))
          | [] => PErr PSyntax
          end)
      else if y =? TRepeat then
        pbind (p_block d f r) (fun b r1 => expect TUntil r1 (fun r2 =>
        pbind (p_subexpr d f 0 r2) (fun c rest => POk (SRepeat b c) rest)))
      else if y =? TFunction then
        pbind (p_names f 46 r) (fun path r1 =>
          match r1 with
          | t1 :: r2 =>
            if pty t1 =? 58 then
              expect_name r2 (fun m r3 =>
                pbind (p_funcbody d f r3) (fun fb rest => POk (SFunction path (Some m) fb) rest))
            else pbind (p_funcbody d f r1) (fun fb rest => POk (SFunction path None fb) rest)
          | [] => PErr PSyntax
          end)
      else if y =? TLocal then
        match r with
        | t1 :: r1 =>
          if pty t1 =? TFunction then
            expect_name r1 (fun n r2 =>
              pbind (p_funcbody d f r2) (fun fb rest => POk (SLocalFunction n fb) rest))
          else
            pbind (p_names f 44 r) (fun ns r2 =>
              match r2 with
              | t2 :: r3 =>
                if pty t2 =? 61 then pbind (p_explist d f r3) (fun es rest => POk (SLocal ns es) rest)
                else POk (SLocal ns ELNil) r2
              | [] => POk (SLocal ns ELNil) r2
              end)
        | [] => PErr PSyntax
        end
      else if y =? T2Colon then
        expect_name r (fun n r1 => expect T2Colon r1 (fun rest => POk (SLabel n) rest))
      else if y =? TGoto then
        expect_name r (fun n rest => POk (SGoto n) rest)
      else
        
        pbind (p_suffixed d f toks) (fun ep r1 =>
          let '(e, par) := ep in
          if is_call e && negb par then POk (SCall e) r1
          else if d_parencall d && par && (match e with EParen x => is_call x | _ => false end)
          then POk (SCall e) r1
          else if is_var e && negb par then
            pbind (p_targets d f r1) (fun ts r2 => expect 61 r2 (fun r3 =>
            pbind (p_explist d f r3) (fun es rest => POk (SAssign (ELCons e ts) es) rest)))
          else PErr PSyntax)
    end.
Proof. reflexivity. Qed.

Lemma p_targets_eq f (toks : list ptok) :
  p_targets d (S f) toks =
    match toks with
    | t :: r =>
      if pty t =? 44 then
        pbind (p_suffixed d f r) (fun ep r1 =>
          let '(e, par) := ep in
          if is_var e && negb par
          then pbind (p_targets d f r1) (fun ts rest => POk (ELCons e ts) rest)
          else PErr PSyntax)
      else POk ELNil toks
    | [] => POk ELNil toks
    end.
Proof. reflexivity. Qed.

Lemma p_else_eq f (toks : list ptok) :
  p_else d (S f) toks =
    match toks with
    | t :: r =>
      let y := pty t in
      if y =? TElseIf then
        pbind (p_subexpr d f 0 r) (fun c r1 => expect TThen r1 (fun r2 =>
        pbind (p_block d f r2) (fun b r3 =>
        pbind (p_else d f r3) (fun e rest => POk (ElseIf c b e) rest))))
      else if y =? TElse then
        pbind (p_block d f r) (fun b r1 => expect TEnd r1 (fun rest => POk (Else b) rest))
      else if y =? TEnd then POk ElseNone r
      else PErr PSyntax
    | [] => PErr PSyntax
    end.
Proof. reflexivity. Qed.

Lemma p_funcbody_eq f (toks : list ptok) :
  p_funcbody d (S f) toks =
    expect 40 toks (fun r =>
      match r with
      | t :: r1 =>
        let body ps va r2 :=
          pbind (p_block d f r2) (fun b r3 => expect TEnd r3 (fun rest => POk (FBody ps va b) rest)) in
        if pty t =? 41 then body [] false r1
        else pbind (p_params f r) (fun pv r2 => body (fst pv) (snd pv) r2)
      | [] => PErr PSyntax
      end).
Proof. reflexivity. Qed.

Lemma p_explist_eq f (toks : list ptok) :
  p_explist d (S f) toks =
    pbind (p_subexpr d f 0 toks) (fun e r =>
      match r with
      | t :: r1 =>
        if pty t =? 44 then pbind (p_explist d f r1) (fun es rest => POk (ELCons e es) rest)
        else POk (ELCons e ELNil) r
      | [] => POk (ELCons e ELNil) r
      end).
Proof. reflexivity. Qed.

Lemma p_subexpr_eq f (limit : Z) (toks : list ptok) :
  p_subexpr d (S f) limit toks =
    match toks with
    | t :: r =>
      match unop_of t with
      | Some op => pbind (p_subexpr d f unary_priority r) (fun e r1 => p_subloop d f limit (EUn op e) r1)
      | None => pbind (p_simple d f toks) (fun e r1 => p_subloop d f limit e r1)
      end
    | [] => PErr PSyntax
    end.
Proof. reflexivity. Qed.

Lemma p_subloop_eq f (limit : Z) (e1 : expr) (toks : list ptok) :
  p_subloop d (S f) limit e1 toks =
    match toks with
    | t :: r =>
      match binop_of t with
      | Some op =>
        if limit <? prio_left op
        then pbind (p_subexpr d f (prio_right op) r) (fun e2 r1 => p_subloop d f limit (EBin op e1 e2) r1)
        else POk e1 toks
      | None => POk e1 toks
      end
    | [] => POk e1 toks
    end.
Proof. reflexivity. Qed.

Lemma p_simple_eq f (toks : list ptok) :
  p_simple d (S f) toks =
    match toks with
    | t :: r =>
      let y := pty t in
      if y =? TNumber then POk (ENumber (ptext t)) r
      else if y =? TString then POk (EString (ptext t)) r
      else if y =? TNil then POk ENil r
      else if y =? TTrue then POk ETrue r
      else if y =? TFalse then POk EFalse r
      else if y =? T3Comma then POk EVararg r
      else if y =? 123 then pbind (p_fields d f r) (fun fs rest => POk (ETable fs) rest)
      else if y =? TFunction then pbind (p_funcbody d f r) (fun fb rest => POk (EFunction fb) rest)
      else pbind (p_suffixed d f toks) (fun ep rest => POk (fst ep) rest)
    | [] => PErr PSyntax
    end.
Proof. reflexivity. Qed.

Lemma p_suffixed_eq f (toks : list ptok) :
  p_suffixed d (S f) toks =
    match toks with
    | t :: r =>
      if pty t =? TIdent then p_sufloop d f (EName (ptext t)) false r
      else if pty t =? 40 then
        pbind (p_subexpr d f 0 r) (fun e r1 => expect 41 r1 (fun r2 => p_sufloop d f (paren_wrap e) true r2))
      else PErr PSyntax
    | [] => PErr PSyntax
    end.
Proof. reflexivity. Qed.

Lemma p_sufloop_eq f (e : expr) (par : bool) (toks : list ptok) :
  p_sufloop d (S f) e par toks =
    match toks with
    | t :: r =>
      let y := pty t in
      if y =? 46 then expect_name r (fun n r1 => p_sufloop d f (EField e n) false r1)
      else if y =? 91 then
        pbind (p_subexpr d f 0 r) (fun k r1 => expect 93 r1 (fun r2 => p_sufloop d f (EIndex e k) false r2))
      else if y =? 58 then
        expect_name r (fun n r1 => pbind (p_args d f r1) (fun a r2 => p_sufloop d f (EMethod e n a) false r2))
      else if (y =? 40) || (y =? TString) || (y =? 123) then
        pbind (p_args d f toks) (fun a r1 => p_sufloop d f (ECall e a) false r1)
      else POk (e, par) toks
    | [] => POk (e, par) toks
    end.
Proof. reflexivity. Qed.

Lemma p_args_eq f (toks : list ptok) :
  p_args d (S f) toks =
    match toks with
    | t :: r =>
      let y := pty t in
      if y =? 40 then
        if pnl t && negb (d_noamb d) then PErr PAmbiguous
        else
          match r with
          | t1 :: r1 =>
            if pty t1 =? 41 then POk (AList ELNil) r1
            else pbind (p_explist d f r) (fun es r2 => expect 41 r2 (fun rest => POk (AList es) rest))
          | [] => PErr PSyntax
          end
      else if y =? TString then POk (AString (ptext t)) r
      else if y =? 123 then pbind (p_fields d f r) (fun fs rest => POk (ATable fs) rest)
      else PErr PSyntax
    | [] => PErr PSyntax
    end.
Proof. reflexivity. Qed.

Lemma p_fields_eq f (toks : list ptok) :
  p_fields d (S f) toks =
    match toks with
    | t :: r =>
      if pty t =? 125 then POk FLNil r
      else
        pbind (p_field d f toks) (fun fld r1 =>
          match r1 with
          | t1 :: r2 =>
            if (pty t1 =? 44) || (pty t1 =? 59)
            then pbind (p_fields d f (if d_seps d then skip_seps r2 else r2))
                       (fun fs rest => POk (FLCons fld fs) rest)
            else if pty t1 =? 125 then POk (FLCons fld FLNil) r2
            else PErr PSyntax
          | [] => PErr PSyntax
          end)
    | [] => PErr PSyntax
    end.
Proof. reflexivity. Qed.

Lemma p_field_eq f (toks : list ptok) :
  p_field d (S f) toks =
    match toks with
    | t :: r =>
      if pty t =? 91 then
        pbind (p_subexpr d f 0 r) (fun k r1 => expect 93 r1 (fun r2 => expect 61 r2 (fun r3 =>
        pbind (p_subexpr d f 0 r3) (fun e rest => POk (FKey k e) rest))))
      else if (pty t =? TIdent) && (match r with t1 :: _ => pty t1 =? 61 | [] => false end) then
        pbind (p_subexpr d f 0 (tl r)) (fun e rest => POk (FNamed (ptext t) e) rest)
      else pbind (p_subexpr d f 0 toks) (fun e rest => POk (FPos e) rest)
    | [] => PErr PSyntax
    end.
Proof. reflexivity. Qed.


(* ---------- the loops at the end of an operand ---------- *)

(* the operator loop stops: what follows is no operator of left priority above the limit *)
Lemma subloop_stop fuel L e r :
  (1 <=n fuel) ->
  (match r with t :: _ => match binop_of t with Some op => prio_left op <=? L | None => true end | [] => true end) = true ->
  p_subloop d fuel L e r = POk e r.
Proof.
  intros Hf H. destruct fuel as [|f]; [lia|]. rewrite p_subloop_eq.
  destruct r as [|t r']; auto. destruct (binop_of t) as [op|]; auto.
  replace (L <? prio_left op) with false by lia. reflexivity.
Qed.

Lemma sufloop_stop fuel e fl r :
  (1 <=n fuel) -> nosuf r = true -> p_sufloop d fuel e fl r = POk (e, fl) r.
Proof.
  intros Hf H. destruct fuel as [|f]; [lia|]. rewrite p_sufloop_eq. cbv zeta.
  destruct r as [|t r']; auto. simpl in H. unfold starts_suffix in H.
  replace (pty t =? 46) with false by lia. replace (pty t =? 91) with false by lia.
  replace (pty t =? 58) with false by lia.
  replace ((pty t =? 40) || (pty t =? TString) || (pty t =? 123)) with false by lia. reflexivity.
Qed.

(* ---------- the statements about an expression e ---------- *)

(* E1: subexpr at limit L reads the printed e and goes on with the operator loop *)
Definition E1 (e : expr) : Prop :=
  forall L p r R n,
    opfollow p r = true -> nosuf r = true ->
    (forall fuel, n <=n fuel -> p_subloop d fuel L (norm_e e) r = R) ->
    forall fuel, n + c_e e <=n fuel -> p_subexpr d fuel L (pr_e L p e ++ r) = R.

(* E1 where e is printed bare or is no operator expression *)
Definition E1bare (e : expr) : Prop :=
  forall L p r R n,
    bare_ok L p e = true ->
    opfollow p r = true -> nosuf r = true ->
    (forall fuel, n <=n fuel -> p_subloop d fuel L (norm_e e) r = R) ->
    forall fuel, n + c_e e <=n fuel + 6 -> p_subexpr d fuel L (pr_e L p e ++ r) = R.

(* E2: primaryexp reads the printed prefix e and goes on with the suffix loop *)
Definition E2 (e : expr) : Prop :=
  pfx_ok e = true ->
  forall r R n,
    (forall fuel, n <=n fuel -> p_sufloop d fuel (norm_e e) (pflag e) r = R) ->
    forall fuel, n + c_e e <=n fuel + 3 -> p_suffixed d fuel (pr_prefix e ++ r) = R.

(* value form of E1 at the top of an expression *)
Lemma E1_value e : E1 e -> forall r fuel,
  opfollow 0 r = true -> nosuf r = true -> 1 + c_e e <=n fuel ->
  p_subexpr d fuel 0 (pr_e 0 0 e ++ r) = POk (norm_e e) r.
Proof.
  intros H r fuel Ho Hs Hf. apply (H 0 0 r (POk (norm_e e) r) 1%nat Ho Hs); auto.
  intros fu Hfu. apply subloop_stop; auto.
Qed.

(* value form at a limit: the operator that follows (if any) has left priority <= the limit *)
Lemma E1_value_at e L p : E1 e -> forall r fuel,
  opfollow p r = true -> p <= L -> nosuf r = true -> 1 + c_e e <=n fuel ->
  p_subexpr d fuel L (pr_e L p e ++ r) = POk (norm_e e) r.
Proof.
  intros H r fuel Ho Hp Hs Hf. apply (H L p r (POk (norm_e e) r) 1%nat Ho Hs); auto.
  intros fu Hfu. apply subloop_stop; auto.
  destruct r as [|t r']; auto. simpl in Ho. destruct (binop_of t); auto. lia.
Qed.

(* simpleexp on something that starts with a Name or "(" hands over to primaryexp *)
Lemma simple_to_suffixed fuel toks t X :
  toks = t :: X -> (pty t = TIdent \/ pty t = 40) ->
  p_simple d (S fuel) toks = pbind (p_suffixed d fuel toks) (fun ep rest => POk (fst ep) rest).
Proof.
  intros -> H. rewrite p_simple_eq. cbv zeta. destruct H as [H|H]; rewrite H; reflexivity.
Qed.

Lemma unop_of_prefix_first t : (pty t = TIdent \/ pty t = 40) -> unop_of t = None.
Proof. unfold unop_of. intros [H|H]; rewrite H; reflexivity. Qed.

(* E1 through the primaryexp path *)
Lemma E1_via_E2 e L p :
  pr_e L p e = pr_prefix e -> pfx_ok e = true -> E2 e ->
  forall r R n,
    nosuf r = true ->
    (forall fuel, n <=n fuel -> p_subloop d fuel L (norm_e e) r = R) ->
    forall fuel, n + c_e e <=n fuel -> p_subexpr d fuel L (pr_e L p e ++ r) = R.
Proof.
  intros Epr Hpf H2 r R n Hs Hc fuel Hf. rewrite Epr.
  assert (c_e e >= 8)%nat by (destruct e; simpl; lia).
  destruct fuel as [|f]; [lia|]. rewrite p_subexpr_eq.
  destruct (pr_prefix_first e r) as (t & X & Et & Ht). rewrite Et.
  rewrite (unop_of_prefix_first t Ht).
  destruct f as [|f']; [lia|].
  rewrite (simple_to_suffixed f' (t :: X) t X eq_refl Ht). rewrite <- Et.
  rewrite (H2 Hpf r (POk (norm_e e, pflag e) r) 1%nat).
  - cbn [pbind fst]. apply Hc. lia.
  - intros fu Hfu. apply sufloop_stop; auto.
  - lia.
Qed.

Lemma c_e_ge e : (8 <= c_e e)%nat.
Proof. destruct e; simpl; lia. Qed.

Lemma E1bare_value e : E1bare e -> forall r fuel,
  opfollow 0 r = true -> nosuf r = true -> c_e e <=n fuel + 5 ->
  p_subexpr d fuel 0 (pr_e 0 0 e ++ r) = POk (norm_e e) r.
Proof.
  intros H r fuel Ho Hs Hf.
  apply (H 0 0 r (POk (norm_e e) r) 1%nat); auto.
  - destruct e; try reflexivity; destruct op; reflexivity.
  - intros fu Hfu. apply subloop_stop; auto.
  - lia.
Qed.

(* a parenthesised expression as a prefix *)
Lemma E2_paren x r R n m :
  (forall f, m <=n f -> p_subexpr d f 0 (pr_e 0 0 x ++ tk 41 :: r) = POk (norm_e x) (tk 41 :: r)) ->
  (forall fuel, n <=n fuel -> p_sufloop d fuel (paren_wrap (norm_e x)) true r = R) ->
  forall fuel, S (Nat.max n m) <=n fuel ->
  p_suffixed d fuel (tk 40 :: pr_e 0 0 x ++ tk 41 :: r) = R.
Proof.
  intros H1 Hc fuel Hf.
  destruct fuel as [|f]; [lia|]. rewrite p_suffixed_eq.
  change (pty (tk 40) =? TIdent) with false. change (pty (tk 40) =? 40) with true. cbv iota.
  rewrite H1 by lia.
  cbn [pbind expect]. change (pty (tk 41) =? 41) with true. cbv iota. apply Hc. lia.
Qed.

Lemma nonprefix_pr e : is_prefix e = false -> pr_prefix e = tk 40 :: pr_e 0 0 e ++ [tk 41].
Proof. destruct e; simpl; intros; try discriminate; try reflexivity; destruct op; reflexivity. Qed.

Lemma nonprefix_norm e : is_prefix e = false -> pfx_ok e = true ->
  paren_wrap (norm_e e) = norm_e e /\ pflag e = true.
Proof. destruct e; simpl; intros; try discriminate; auto. Qed.

Lemma E2_nonprefix e : is_prefix e = false -> E1bare e -> E2 e.
Proof.
  intros Hn H1 Hp r R n Hc fuel Hf. rewrite (nonprefix_pr e Hn). rewrite <- app_comm_cons, <- app_assoc. cbn [app].
  destruct (nonprefix_norm e Hn Hp) as [En Ef]. rewrite Ef in Hc. pose proof (c_e_ge e).
  apply (E2_paren e r R n (c_e e - 5)).
  - intros f Hfm. apply (E1bare_value e H1); auto. lia.
  - rewrite En. exact Hc.
  - lia.
Qed.

(* E1 in general: an operator / atom expression from its bare case and E2 *)
Lemma E1_from_bare e : is_prefix e = false -> pfx_ok e = true -> E1bare e -> E2 e -> E1 e.
Proof.
  intros Hnp Hpf Hb H2 L p r R n Ho Hs Hc fuel Hf.
  destruct (bare_ok L p e) eqn:B.
  - apply (Hb L p r R n B Ho Hs Hc). lia.
  - apply (E1_via_E2 e L p (pr_e_wrapped L p e B) Hpf H2 r R n Hs Hc). exact Hf.
Qed.

(* "..." is always bare *)
Lemma E1_vararg_from : E1bare EVararg -> E1 EVararg.
Proof. intros Hb L p r R n Ho Hs Hc fuel Hf. apply (Hb L p r R n eq_refl Ho Hs Hc). lia. Qed.

(* a prefix expression is read through primaryexp *)
Lemma E1_from_prefix e : is_prefix e = true -> pfx_ok e = true -> E2 e -> E1 e.
Proof.
  intros Hp Hpf H2 L p r R n Ho Hs Hc fuel Hf.
  apply (E1_via_E2 e L p (pr_e_prefix_form L p e Hp) Hpf H2 r R n Hs Hc). exact Hf.
Qed.

(* ----- atoms ----- *)

Ltac atom_case :=
  let L := fresh "L" in let p := fresh "p" in let r := fresh "r" in let R := fresh "R" in
  let n := fresh "n" in let Hc := fresh "Hc" in let fuel := fresh "fuel" in let Hf := fresh "Hf" in
  intros L p r R n _ _ _ Hc fuel Hf; simpl in Hf;
  destruct fuel as [|[|f]]; [lia|lia|]; cbn [pr_e app norm_e];
  rewrite p_subexpr_eq; cbv beta iota; (* first token concrete *)
  match goal with |- context [unop_of ?t] => change (unop_of t) with (@None unop) end; cbv iota;
  rewrite p_simple_eq; cbv zeta; cbn [pbind]; apply Hc; lia.

Lemma E1bare_nil : E1bare ENil. Proof. atom_case. Qed.
Lemma E1bare_true : E1bare ETrue. Proof. atom_case. Qed.
Lemma E1bare_false : E1bare EFalse. Proof. atom_case. Qed.
Lemma E1bare_vararg : E1bare EVararg. Proof. atom_case. Qed.
Lemma E1bare_number s : E1bare (ENumber s). Proof. atom_case. Qed.
Lemma E1bare_string s : E1bare (EString s). Proof. atom_case. Qed.

(* ---------- the statements about the other syntactic categories ---------- *)

Definition P_a (a : args) : Prop :=
  wf_a a = true -> forall r fuel, c_a a <=n fuel -> p_args d fuel (pr_a a ++ r) = POk (norm_a a) r.

Definition P_fl (fs : fieldlist) : Prop :=
  wf_fl fs = true -> forall r fuel, c_fl fs <=n fuel ->
  p_fields d fuel (pr_fl fs ++ tk 125 :: r) = POk (norm_fl fs) r.

Definition P_fb (fb : funcbody) : Prop :=
  wf_fb fb = true -> forall r fuel, c_fb fb <=n fuel ->
  p_funcbody d fuel (pr_fb fb ++ r) = POk (norm_fb fb) r.

(* what is known about an expression *)
Definition P_e (e : expr) : Prop := wf_e e = true -> E2 e /\ E1 e.

(* ----- operators ----- *)

Lemma E1bare_bin op a b : E1 a -> E1 b -> E1bare (EBin op a b).
Proof.
  intros Ha Hb L p r R n B Ho Hs Hc fuel Hf.
  cbn [bare_ok] in B. apply andb_true_iff in B. destruct B as [B1 B2].
  cbn [pr_e bare_ok]. rewrite B1, B2. cbn [andb]. rewrite <- app_assoc. cbn [app norm_e c_e] in *.
  apply (Ha L (prio_left op) _ R (S (S (n + c_e b)))).
  - cbn [opfollow]. rewrite binop_of_tk. lia.
  - apply binop_tk_nosuf.
  - intros fu Hfu. destruct fu as [|f]; [lia|]. rewrite p_subloop_eq. rewrite binop_of_tk.
    replace (L <? prio_left op) with true by lia.
    rewrite (E1_value_at b (prio_right op) p Hb r f Ho ltac:(lia) Hs) by lia.
    cbn [pbind]. apply Hc. lia.
  - lia.
Qed.

Lemma unop_of_tk op : unop_of (tk (unop_ty op)) = Some op.
Proof. destruct op; reflexivity. Qed.

Lemma E1bare_un op x : E1 x -> E1bare (EUn op x).
Proof.
  intros Hx L p r R n B Ho Hs Hc fuel Hf.
  cbn [bare_ok] in B. cbn [pr_e bare_ok]. rewrite B. cbn [app norm_e c_e] in *.
  destruct fuel as [|f]; [lia|]. rewrite p_subexpr_eq. rewrite unop_of_tk.
  rewrite (E1_value_at x unary_priority p Hx r f Ho ltac:(lia) Hs) by lia.
  cbn [pbind]. apply Hc. lia.
Qed.

(* ----- prefix expressions ----- *)

Lemma E2_name n : E2 (EName n).
Proof.
  intros _ r R k Hc fuel Hf. cbn [pr_prefix app c_e] in *. destruct fuel as [|f]; [lia|].
  rewrite p_suffixed_eq. change (pty (tname n) =? TIdent) with true. cbv iota. apply Hc. lia.
Qed.

Lemma E2_paren_case x : E1 x -> E2 (EParen x).
Proof.
  intros H1 _ r R n Hc fuel Hf. cbn [pr_prefix]. rewrite <- app_comm_cons, <- app_assoc. cbn [app].
  cbn [c_e] in Hf.
  apply (E2_paren x r R n (1 + c_e x)); auto.
  - intros f Hfm. apply (E1_value x H1); auto.
  - lia.
Qed.

Lemma E2_index q k : pfx_ok q = true -> E2 q -> E1 k -> E2 (EIndex q k).
Proof.
  intros Hpq Hq Hk _ r R n Hc fuel Hf. cbn [pr_prefix norm_e pflag c_e] in *.
  rewrite <- app_assoc. rewrite <- app_comm_cons, <- app_assoc. cbn [app].
  apply (Hq Hpq _ R (S (S (n + c_e k)))); [|lia].
  intros fu Hfu. destruct fu as [|f]; [lia|]. rewrite p_sufloop_eq. cbv zeta.
  change (pty (tk 91) =? 46) with false. change (pty (tk 91) =? 91) with true. cbv iota.
  rewrite (E1_value k Hk (tk 93 :: r) f) by (auto; lia).
  cbn [pbind expect]. change (pty (tk 93) =? 93) with true. cbv iota. apply Hc. lia.
Qed.

Lemma E2_field q m : pfx_ok q = true -> E2 q -> E2 (EField q m).
Proof.
  intros Hpq Hq _ r R n Hc fuel Hf. cbn [pr_prefix norm_e pflag c_e] in *.
  rewrite <- app_assoc. cbn [app].
  apply (Hq Hpq _ R (S n)); [|lia].
  intros fu Hfu. destruct fu as [|f]; [lia|]. rewrite p_sufloop_eq. cbv zeta.
  change (pty (tk 46) =? 46) with true. cbv iota. cbn [expect_name].
  change (pty (tname m) =? TIdent) with true. cbv iota. apply Hc. lia.
Qed.

Lemma pr_a_first a r : exists t X, pr_a a ++ r = t :: X /\ (pty t = 40 \/ pty t = TString \/ pty t = 123).
Proof. destruct a; cbn [pr_a]; eexists _, _; (split; [reflexivity|]); auto. Qed.

Lemma E2_call q a : pfx_ok q = true -> E2 q -> wf_a a = true -> P_a a -> E2 (ECall q a).
Proof.
  intros Hpq Hq Wa Ha _ r R n Hc fuel Hf. cbn [pr_prefix norm_e pflag c_e] in *.
  rewrite <- app_assoc.
  apply (Hq Hpq _ R (S (n + c_a a))); [|lia].
  intros fu Hfu. destruct fu as [|f]; [lia|]. rewrite p_sufloop_eq. cbv zeta.
  destruct (pr_a_first a r) as (t & X & Et & Ht). rewrite Et.
  assert (T1 : (pty t =? 46) = false) by (destruct Ht as [H|[H|H]]; rewrite H; reflexivity).
  assert (T2 : (pty t =? 91) = false) by (destruct Ht as [H|[H|H]]; rewrite H; reflexivity).
  assert (T3 : (pty t =? 58) = false) by (destruct Ht as [H|[H|H]]; rewrite H; reflexivity).
  assert (T4 : ((pty t =? 40) || (pty t =? TString) || (pty t =? 123)) = true)
    by (destruct Ht as [H|[H|H]]; rewrite H; reflexivity).
  rewrite T1, T2, T3, T4. rewrite <- Et. rewrite (Ha Wa r f) by lia.
  cbn [pbind]. apply Hc. lia.
Qed.

Lemma E2_method q m a : pfx_ok q = true -> E2 q -> wf_a a = true -> P_a a -> E2 (EMethod q m a).
Proof.
  intros Hpq Hq Wa Ha _ r R n Hc fuel Hf. cbn [pr_prefix norm_e pflag c_e] in *.
  rewrite <- app_assoc. cbn [app].
  apply (Hq Hpq _ R (S (n + c_a a))); [|lia].
  intros fu Hfu. destruct fu as [|f]; [lia|]. rewrite p_sufloop_eq. cbv zeta.
  change (pty (tk 58) =? 46) with false. change (pty (tk 58) =? 91) with false.
  change (pty (tk 58) =? 58) with true. cbv iota. cbn [expect_name].
  change (pty (tname m) =? TIdent) with true. cbv iota.
  rewrite (Ha Wa r f) by lia. cbn [pbind]. apply Hc. lia.
Qed.

(* ----- function and table constructors ----- *)

Lemma E1bare_function fb : wf_fb fb = true -> P_fb fb -> E1bare (EFunction fb).
Proof.
  intros W H L p r R n _ Ho Hs Hc fuel Hf. cbn [pr_e norm_e c_e app] in *.
  destruct fuel as [|[|f]]; [lia|lia|]. rewrite p_subexpr_eq. rewrite <- ?app_comm_cons.
  change (unop_of (tk TFunction)) with (@None unop). cbv iota.
  rewrite p_simple_eq. cbv zeta. change (pty (tk TFunction)) with TFunction. cbv beta iota.
  change (TFunction =? TNumber) with false. change (TFunction =? TString) with false.
  change (TFunction =? TNil) with false. change (TFunction =? TTrue) with false.
  change (TFunction =? TFalse) with false. change (TFunction =? T3Comma) with false.
  change (TFunction =? 123) with false. change (TFunction =? TFunction) with true. cbv iota.
  rewrite (H W r f) by lia. cbn [pbind]. apply Hc. lia.
Qed.

Lemma E1bare_table fs : wf_fl fs = true -> P_fl fs -> E1bare (ETable fs).
Proof.
  intros W H L p r R n _ Ho Hs Hc fuel Hf. cbn [pr_e norm_e c_e] in *.
  destruct fuel as [|[|f]]; [lia|lia|]. rewrite p_subexpr_eq.
  rewrite <- ?app_comm_cons, <- ?app_assoc. cbn [app].
  change (unop_of (tk 123)) with (@None unop). cbv iota.
  rewrite p_simple_eq. cbv zeta. change (pty (tk 123)) with 123. cbv beta iota.
  change (123 =? TNumber) with false. change (123 =? TString) with false.
  change (123 =? TNil) with false. change (123 =? TTrue) with false.
  change (123 =? TFalse) with false. change (123 =? T3Comma) with false.
  change (123 =? 123) with true. cbv iota.
  rewrite (H W r f) by lia. cbn [pbind]. apply Hc. lia.
Qed.

(* ---------- lists of names, parameters ---------- *)

Lemma names_rt sep : forall ns X fuel,
  ns <> [] -> hd_ty X <> sep -> (length ns <=n fuel) ->
  p_names fuel sep (sep_names sep ns ++ X) = POk ns X.
Proof.
  induction ns as [|a ns IH]; intros X fuel Hne Hx Hf; [congruence|].
  destruct fuel as [|f]; [simpl in Hf; lia|]. cbn [p_names].
  destruct ns as [|b ns'].
  - cbn [sep_names app expect_name]. change (pty (tname a) =? TIdent) with true. cbv iota.
    change (ptext (tname a)) with a.
    destruct X as [|t X']; auto. unfold hd_ty in Hx. replace (pty t =? sep) with false by lia. reflexivity.
  - change (sep_names sep (a :: b :: ns')) with (tname a :: tk sep :: sep_names sep (b :: ns')).
    cbn [app expect_name]. change (pty (tname a) =? TIdent) with true. cbv iota.
    change (pty (tk sep)) with sep. rewrite Z.eqb_refl.
    rewrite (IH X f ltac:(congruence) Hx ltac:(simpl in *; lia)). reflexivity.
Qed.

Lemma params_rt : forall ps va X fuel,
  (ps <> [] \/ va = true) -> (length ps < fuel)%nat ->
  p_params fuel (pr_params ps va ++ tk 41 :: X) = POk (ps, va) X.
Proof.
  induction ps as [|a ps IH]; intros va X fuel Hne Hf.
  - destruct Hne as [H|H]; [congruence|]. subst va. destruct fuel as [|f]; [lia|]. reflexivity.
  - destruct fuel as [|f]; [lia|]. cbn [p_params].
    destruct ps as [|b ps'].
    + destruct va.
      * cbn [pr_params sep_names app]. change (pty (tname a) =? T3Comma) with false.
        change (pty (tname a) =? TIdent) with true. cbv iota.
        change (pty (tk 44) =? 44) with true. cbv iota.
        change (tk T3Comma :: tk 41 :: X) with (pr_params [] true ++ tk 41 :: X).
        rewrite (IH true X f) by (auto; simpl in *; lia). reflexivity.
      * reflexivity.
    + assert (E : pr_params (a :: b :: ps') va = tname a :: tk 44 :: pr_params (b :: ps') va)
        by (destruct va; reflexivity).
      rewrite E. cbn [app]. change (pty (tname a) =? T3Comma) with false.
      change (pty (tname a) =? TIdent) with true. cbv iota.
      change (pty (tk 44) =? 44) with true. cbv iota.
      rewrite (IH va X f) by (try (left; congruence); simpl in *; lia). reflexivity.
Qed.

(* ---------- "Name =" never opens an expression ---------- *)

Lemma binop_ty_not_eq op : binop_ty op <> 61.
Proof. destruct op; cbv; congruence. Qed.

Lemma second_ok_notname t l : pty t <> TIdent -> second_ok (t :: l) = true.
Proof. intros H. destruct l; auto. unfold second_ok. replace (pty t =? TIdent) with false by lia. reflexivity. Qed.

Lemma sec_prefix e : forall r, hd_ty r <> 61 -> second_ok (pr_prefix e ++ r) = true.
Proof.
  induction e; intros r Hr;
    try (cbn [pr_prefix app]; rewrite <- ?app_comm_cons; apply second_ok_notname; cbv; discriminate).
  - (* EName *) cbn [pr_prefix app]. destruct r as [|t r']; auto. unfold second_ok, hd_ty in *.
    replace (pty t =? 61) with false by lia. rewrite andb_false_r. reflexivity.
  - cbn [pr_prefix]. rewrite <- app_assoc. apply IHe1. cbv; discriminate.
  - cbn [pr_prefix]. rewrite <- app_assoc. apply IHe. cbv; discriminate.
  - cbn [pr_prefix]. rewrite <- app_assoc. apply IHe. destruct a; cbv; discriminate.
  - cbn [pr_prefix]. rewrite <- app_assoc. apply IHe. cbv; discriminate.
Qed.

Lemma sec_e e : forall L p r, hd_ty r <> 61 -> second_ok (pr_e L p e ++ r) = true.
Proof.
  induction e; intros L p r Hr;
    try (cbn [pr_e app]; rewrite <- ?app_comm_cons; apply second_ok_notname; cbv; discriminate);
    try (rewrite pr_e_prefix_form by reflexivity; apply sec_prefix; exact Hr).
  - destruct (bare_ok L p (EBin op e1 e2)) eqn:B.
    + cbn [pr_e]. rewrite B. rewrite <- app_assoc. apply IHe1. cbn [app hd_ty].
      change (pty (tk (binop_ty op))) with (binop_ty op). apply binop_ty_not_eq.
    + rewrite pr_e_wrapped by auto. apply sec_prefix; auto.
  - destruct (bare_ok L p (EUn op e)) eqn:B.
    + cbn [pr_e]. rewrite B. rewrite <- app_comm_cons. apply second_ok_notname. destruct op; cbv; discriminate.
    + rewrite pr_e_wrapped by auto. apply sec_prefix; auto.
Qed.

Lemma is_var_norm e : is_var (norm_e e) = is_var e \/ (exists x, e = EParen x).
Proof. destruct e; simpl; auto. right; eauto. Qed.

Lemma is_var_norm' e : is_var e = true -> is_var (norm_e e) = true /\ pflag e = false.
Proof. destruct e; simpl; intros; try discriminate; auto. Qed.

Lemma is_call_norm e : is_call e = true -> is_call (norm_e e) = true /\ pflag e = false /\ pfx_ok e = true.
Proof. destruct e; simpl; intros; try discriminate; auto. Qed.

(* ---------- expression lists, assignment targets ---------- *)

Definition ptt (es : exprlist) : list ptok :=
  match es with ELNil => [] | _ => tk 44 :: pr_targets es end.

(* the targets of an assignment as exprstat reads them: the first by primaryexp, the others by the loop *)
Definition tgt_clause (es : exprlist) : Prop :=
  match es with
  | ELNil => True
  | ELCons e r0 =>
    all_var es = true -> forall r fuel, c_el es <=n fuel ->
      p_suffixed d fuel (pr_prefix e ++ ptt r0 ++ tk 61 :: r) = POk (norm_e e, false) (ptt r0 ++ tk 61 :: r)
      /\ p_targets d fuel (ptt r0 ++ tk 61 :: r) = POk (norm_el r0) (tk 61 :: r)
  end.

Definition P_el (es : exprlist) : Prop :=
  wf_el es = true ->
  (nonempty_el es = true -> forall r fuel, safe r = true -> c_el es <=n fuel ->
     p_explist d fuel (pr_el es ++ r) = POk (norm_el es) r)
  /\ (all_var es = true -> forall r fuel, c_el es <=n fuel ->
     p_targets d fuel (ptt es ++ tk 61 :: r) = POk (norm_el es) (tk 61 :: r))
  /\ tgt_clause es.

Lemma pr_el_hd es r : nonempty_el es = true -> in_tys efirst_tys (hd_ty (pr_el es ++ r)) = true.
Proof.
  destruct es as [|e r0]; [discriminate|]. intros _. cbn [pr_el].
  destruct r0; [apply pr_e_hd|rewrite <- app_assoc; apply pr_e_hd].
Qed.

Lemma P_el_nil : P_el ELNil.
Proof.
  intros _. split; [discriminate|]. split; [|exact I]. intros _ r fuel Hf. cbn [ptt app norm_el c_el] in *.
  destruct fuel as [|f]; [lia|]. rewrite p_targets_eq. reflexivity.
Qed.

Lemma P_el_cons e r0 : P_e e -> P_el r0 -> P_el (ELCons e r0).
Proof.
  intros He Hr W. cbn [wf_el] in W. apply andb_true_iff in W. destruct W as [We Wr].
  destruct (He We) as [H2 H1]. destruct (Hr Wr) as (Hx & Ht & _). split; [|split].
  - intros _ r fuel Hs Hf. cbn [c_el norm_el] in *. destruct fuel as [|f]; [lia|].
    rewrite p_explist_eq. destruct r0 as [|e' r1].
    + cbn [pr_el]. rewrite (E1_value e H1 r f) by (auto using safe_opfollow, safe_nosuf; lia).
      cbn [pbind norm_el]. destruct r as [|t r']; auto.
      simpl in Hs. replace (pty t =? 44) with false by lia. reflexivity.
    + change (pr_el (ELCons e (ELCons e' r1))) with (pr_e 0 0 e ++ tk 44 :: pr_el (ELCons e' r1)).
      rewrite <- app_assoc. cbn [app].
      rewrite (E1_value e H1 _ f) by (auto; lia).
      cbn [pbind]. change (pty (tk 44) =? 44) with true. cbv iota.
      rewrite (Hx eq_refl r f Hs) by lia. reflexivity.
  - intros Hv r fuel Hf. cbn [all_var] in Hv. apply andb_true_iff in Hv. destruct Hv as [Hve Hvr].
    destruct (is_var_norm' e Hve) as [Hvn Hfl].
    assert (Hpf : pfx_ok e = true) by (destruct e; try discriminate; reflexivity).
    cbn [c_el norm_el] in *. destruct fuel as [|f]; [lia|].
    assert (E : ptt (ELCons e r0) = tk 44 :: pr_prefix e ++ ptt r0) by (destruct r0; cbn; rewrite ?app_nil_r; reflexivity).
    rewrite E. cbn [app]. rewrite <- app_assoc. rewrite p_targets_eq.
    change (pty (tk 44) =? 44) with true. cbv iota.
    rewrite (H2 Hpf (ptt r0 ++ tk 61 :: r) (POk (norm_e e, pflag e) (ptt r0 ++ tk 61 :: r)) 1%nat).
    + cbn [pbind]. rewrite Hfl, Hvn. cbn [negb andb].
      rewrite (Ht Hvr r f) by lia. reflexivity.
    + intros fu Hfu. apply sufloop_stop; auto. destruct r0; reflexivity.
    + pose proof (c_e_ge e). lia.
  - cbn [tgt_clause]. intros Hv r fuel Hf. cbn [all_var] in Hv. apply andb_true_iff in Hv. destruct Hv as [Hve Hvr].
    destruct (is_var_norm' e Hve) as [Hvn Hfl].
    assert (Hpf : pfx_ok e = true) by (destruct e; try discriminate; reflexivity).
    cbn [c_el] in Hf. pose proof (c_e_ge e). split.
    + rewrite <- Hfl. apply (H2 Hpf _ _ 1%nat); [|lia].
      intros fu Hfu. apply sufloop_stop; auto. destruct r0; reflexivity.
    + apply Ht; auto. lia.
Qed.

(* turning "the first token is in this class" into the tests the parser makes *)
Ltac by_class H := tys H; lia.
(* one goal per member of the class, with pty t rewritten to it *)
Ltac cases_class H :=
  unfold in_tys, sfirst_tys, efirst_tys in H; cbn [existsb] in H;
  repeat (apply orb_true_iff in H; destruct H as [H|H]); try discriminate H; apply Z.eqb_eq in H.

(* ---------- call arguments ---------- *)

Lemma P_a_list es : P_el es -> P_fl FLNil -> P_a (AList es).
Proof.
  intros He _ W r fuel Hf. cbn [wf_a pr_a norm_a c_a] in *.
  destruct fuel as [|f]; [lia|]. rewrite p_args_eq. cbv zeta.
  rewrite <- app_comm_cons, <- app_assoc. cbn [app].
  change (pty (tk 40) =? 40) with true. cbv iota. change (pnl (tk 40)) with false. cbn [andb].
  destruct es as [|e r0].
  - cbn [pr_el app]. change (pty (tk 41) =? 41) with true. reflexivity.
  - pose proof (pr_el_hd (ELCons e r0) (tk 41 :: r) eq_refl) as Hh.
    destruct (pr_el (ELCons e r0) ++ tk 41 :: r) as [|t1 r1] eqn:Et; [discriminate|].
    cbn [hd_ty] in Hh. replace (pty t1 =? 41) with false by (by_class Hh).
    rewrite <- Et. destruct (He W) as [Hx _].
    rewrite (Hx eq_refl (tk 41 :: r) f eq_refl) by lia.
    cbn [pbind expect]. change (pty (tk 41) =? 41) with true. reflexivity.
Qed.

Lemma P_a_table fs : P_fl fs -> P_a (ATable fs).
Proof.
  intros H W r fuel Hf. cbn [wf_a pr_a norm_a c_a] in *.
  destruct fuel as [|f]; [lia|]. rewrite p_args_eq. cbv zeta.
  rewrite <- app_comm_cons, <- app_assoc. cbn [app].
  change (pty (tk 123)) with 123. change (123 =? 40) with false. change (123 =? TString) with false.
  change (123 =? 123) with true. cbv iota.
  rewrite (H W r f) by lia. reflexivity.
Qed.

Lemma P_a_string s : P_a (AString s).
Proof.
  intros _ r fuel Hf. cbn [c_a] in Hf. destruct fuel as [|f]; [lia|]. rewrite p_args_eq. reflexivity.
Qed.

(* ---------- table fields ---------- *)

Definition P_f (f0 : field) : Prop :=
  wf_f f0 = true -> forall r fuel, (hd_ty r = 44 \/ hd_ty r = 125) -> c_f f0 <=n fuel ->
  p_field d fuel (pr_f f0 ++ r) = POk (norm_f f0) r.

Lemma sep_follow r : (hd_ty r = 44 \/ hd_ty r = 125) -> opfollow 0 r = true /\ nosuf r = true /\ hd_ty r <> 61.
Proof.
  destruct r as [|t r']; cbn [hd_ty]; [intros [H|H]; discriminate|].
  intros H. unfold opfollow, nosuf, starts_suffix, binop_of.
  destruct H as [H|H]; rewrite H; repeat split; try reflexivity; discriminate.
Qed.

Lemma P_f_pos e : P_e e -> P_f (FPos e).
Proof.
  intros He W r fuel Hr Hf. cbn [wf_f pr_f norm_f c_f] in *. destruct (He W) as [_ H1].
  destruct (sep_follow r Hr) as (Ho & Hs & H61).
  destruct fuel as [|f]; [lia|]. rewrite p_field_eq.
  pose proof (pr_e_hd e 0 0 r) as Hh. pose proof (sec_e e 0 0 r H61) as Hsec.
  destruct (pr_e 0 0 e ++ r) as [|t X] eqn:Et; [discriminate|].
  cbn [hd_ty] in Hh. replace (pty t =? 91) with false by (by_class Hh).
  assert (T : ((pty t =? TIdent) && match X with t1 :: _ => pty t1 =? 61 | [] => false end) = false).
  { destruct X as [|t1 X']; [apply andb_false_r|]. unfold second_ok in Hsec.
    destruct ((pty t =? TIdent) && (pty t1 =? 61)); auto; discriminate. }
  rewrite T. rewrite <- Et. rewrite (E1_value e H1 r f Ho Hs) by lia. reflexivity.
Qed.

Lemma P_f_named n e : P_e e -> P_f (FNamed n e).
Proof.
  intros He W r fuel Hr Hf. cbn [wf_f pr_f norm_f c_f] in *. destruct (He W) as [_ H1].
  destruct (sep_follow r Hr) as (Ho & Hs & H61).
  destruct fuel as [|f]; [lia|]. rewrite p_field_eq. cbn [app].
  change (pty (tname n) =? 91) with false. change (pty (tname n) =? TIdent) with true.
  change (pty (tk 61) =? 61) with true. cbn [andb tl]. cbv iota.
  rewrite (E1_value e H1 r f Ho Hs) by lia. reflexivity.
Qed.

Lemma P_f_key k e : P_e k -> P_e e -> P_f (FKey k e).
Proof.
  intros Hk He W r fuel Hr Hf. cbn [wf_f pr_f norm_f c_f] in *.
  apply andb_true_iff in W. destruct W as [Wk We].
  destruct (Hk Wk) as [_ K1]. destruct (He We) as [_ H1].
  destruct (sep_follow r Hr) as (Ho & Hs & H61).
  destruct fuel as [|f]; [lia|]. rewrite p_field_eq.
  rewrite <- app_comm_cons, <- app_assoc. cbn [app].
  change (pty (tk 91) =? 91) with true. cbv iota.
  rewrite (E1_value k K1 _ f) by (auto; lia).
  cbn [pbind expect]. change (pty (tk 93) =? 93) with true. cbv iota.
  change (pty (tk 61) =? 61) with true. cbv iota.
  rewrite (E1_value e H1 r f Ho Hs) by lia. reflexivity.
Qed.

Lemma pr_f_hd f0 r : in_tys (91 :: efirst_tys) (hd_ty (pr_f f0 ++ r)) = true.
Proof.
  destruct f0; cbn [pr_f]; try reflexivity.
  eapply in_tys_weaken; [|apply pr_e_hd]. simpl. intuition.
Qed.

Lemma skip_seps_id l : hd_ty l <> 44 -> hd_ty l <> 59 -> skip_seps l = l.
Proof. destruct l as [|t l']; auto. cbn [hd_ty skip_seps]. intros. replace ((pty t =? 44) || (pty t =? 59)) with false by lia. reflexivity. Qed.

Lemma P_fl_nil : P_fl FLNil.
Proof.
  intros _ r fuel Hf. cbn [c_fl] in Hf. destruct fuel as [|f]; [lia|]. rewrite p_fields_eq. reflexivity.
Qed.

Lemma P_fl_cons f0 r0 : P_f f0 -> P_fl r0 -> P_fl (FLCons f0 r0).
Proof.
  intros Hf0 Hr0 W r fuel Hf. cbn [wf_fl norm_fl c_fl] in *.
  apply andb_true_iff in W. destruct W as [W0 Wr].
  destruct fuel as [|f]; [lia|]. rewrite p_fields_eq.
  assert (E : pr_fl (FLCons f0 r0) ++ tk 125 :: r =
              pr_f f0 ++ (match r0 with FLNil => [] | _ => tk 44 :: pr_fl r0 end) ++ tk 125 :: r).
  { destruct r0; cbn [pr_fl]; rewrite <- ?app_assoc; reflexivity. }
  rewrite E. clear E.
  pose proof (pr_f_hd f0 ((match r0 with FLNil => [] | _ => tk 44 :: pr_fl r0 end) ++ tk 125 :: r)) as Hh.
  destruct (pr_f f0 ++ _) as [|t X] eqn:Et; [discriminate|].
  cbn [hd_ty] in Hh. replace (pty t =? 125) with false by (by_class Hh). rewrite <- Et.
  destruct r0 as [|f1 r1].
  - cbn [app]. rewrite (Hf0 W0 (tk 125 :: r) f) by (auto; lia).
    cbn [pbind]. change (pty (tk 125)) with 125. reflexivity.
  - rewrite <- app_comm_cons.
    rewrite (Hf0 W0 _ f) by (auto; lia).
    cbn [pbind]. change (pty (tk 44)) with 44. cbn [Z.eqb Pos.eqb orb].
    pose proof (pr_f_hd f1 ((match r1 with FLNil => [] | _ => tk 44 :: pr_fl r1 end) ++ tk 125 :: r)) as Hh1.
    assert (E1 : pr_fl (FLCons f1 r1) ++ tk 125 :: r =
                 pr_f f1 ++ (match r1 with FLNil => [] | _ => tk 44 :: pr_fl r1 end) ++ tk 125 :: r).
    { destruct r1; cbn [pr_fl]; rewrite <- ?app_assoc; reflexivity. }
    assert (Hsk : skip_seps (pr_fl (FLCons f1 r1) ++ tk 125 :: r) = pr_fl (FLCons f1 r1) ++ tk 125 :: r).
    { apply skip_seps_id; rewrite E1; by_class Hh1. }
    replace (if d_seps d then skip_seps (pr_fl (FLCons f1 r1) ++ tk 125 :: r) else pr_fl (FLCons f1 r1) ++ tk 125 :: r)
      with (pr_fl (FLCons f1 r1) ++ tk 125 :: r) by (destruct (d_seps d); auto).
    rewrite (Hr0 Wr r f) by lia. reflexivity.
Qed.

(* ---------- blocks and statements ---------- *)

Definition P_b (b : block) : Prop :=
  wf_b b = true -> forall r fuel, bfollow r = true -> c_b b <=n fuel ->
  p_block d fuel (pr_b b ++ r) = POk (norm_b b) r.

Definition P_l (l : laststat) : Prop :=
  wf_l l = true -> forall (sm : bool) r fuel, bfollow r = true -> c_l l + 2 <=n fuel ->
  p_block d fuel (pr_l l ++ (if sm then [tk 59] else []) ++ r) = POk (BLast (norm_l l) false) r.

Definition P_s (s : stat) : Prop :=
  wf_s s = true -> forall r fuel, safe r = true -> c_s s <=n fuel ->
  p_stat d fuel (pr_s s ++ r) = POk (norm_s s) r.

Definition P_else (e : elsepart) : Prop :=
  wf_else e = true -> forall r fuel, c_else e <=n fuel ->
  p_else d fuel (pr_else e ++ r) = POk (norm_else e) r.

Lemma bfollow_cases r : bfollow r = true ->
  r = [] \/ exists t X, r = t :: X /\ (pty t = TEnd \/ pty t = TElse \/ pty t = TElseIf \/ pty t = TUntil).
Proof.
  destruct r as [|t X]; auto. cbn [bfollow]. unfold block_follow. intros H. right. exists t, X. split; auto. lia.
Qed.

Lemma bfollow_safe r : bfollow r = true -> safe r = true /\ hd_ty r <> 59.
Proof.
  intros H. destruct (bfollow_cases r H) as [->|(t & X & -> & Ht)]; [split; [reflexivity|discriminate]|].
  cbn [safe hd_ty]. unfold starts_suffix, binop_of.
  destruct Ht as [E|[E|[E|E]]]; rewrite E; split; try reflexivity; discriminate.
Qed.

Lemma skip_semis_id l : hd_ty l <> 59 -> skip_semis l = l.
Proof. destruct l as [|t l']; auto. cbn [hd_ty skip_semis]. intros. replace (pty t =? 59) with false by lia. reflexivity. Qed.

Lemma demp_id l : hd_ty l <> 59 -> (if d_emptystat d then skip_semis l else l) = l.
Proof. intros. destruct (d_emptystat d); auto. apply skip_semis_id; auto. Qed.

(* a statement starts with a statement token; with a Name when it does not start with "(" *)
Lemma starts_paren_false e r : starts_paren_e e = false -> exists n X, pr_prefix e ++ r = tname n :: X.
Proof.
  revert r. induction e; intros r H; try discriminate; cbn [starts_paren_e pr_prefix] in *.
  - eexists _, _. reflexivity.
  - destruct (IHe1 (tk 91 :: pr_e 0 0 e2 ++ [tk 93] ++ r) H) as (n & X & E).
    exists n, X. rewrite <- E. rewrite <- !app_assoc. cbn [app]. rewrite <- ?app_assoc. reflexivity.
  - destruct (IHe ([tk 46; tname n] ++ r) H) as (m & X & E). exists m, X. rewrite <- E, <- app_assoc. reflexivity.
  - destruct (IHe (pr_a a ++ r) H) as (m & X & E). exists m, X. rewrite <- E, <- app_assoc. reflexivity.
  - destruct (IHe (tk 58 :: tname n :: pr_a a ++ r) H) as (m & X & E). exists m, X. rewrite <- E, <- app_assoc. reflexivity.
Qed.

Lemma pr_targets_first ts r : nonempty_el ts = true ->
  exists e X, ts = ELCons e X /\ exists Y, pr_targets ts ++ r = pr_prefix e ++ Y.
Proof.
  destruct ts as [|e r0]; [discriminate|]. intros _. exists e, r0. split; auto.
  cbn [pr_targets]. destruct r0; [exists r; reflexivity|]. eexists. rewrite <- app_assoc. reflexivity.
Qed.

Lemma pr_s_hd s r : wf_s s = true -> in_tys sfirst_tys (hd_ty (pr_s s ++ r)) = true.
Proof.
  intros W. destruct s; try reflexivity.
  - cbn [wf_s] in W. repeat (apply andb_true_iff in W; destruct W as [W ?]).
    cbn [pr_s]. rewrite <- app_assoc. cbn [app].
    destruct (pr_targets_first targets (tk 61 :: pr_el es ++ r) W) as (e & X & -> & Y & E). rewrite E.
    eapply in_tys_weaken; [|apply pr_prefix_hd]. simpl. intuition.
  - cbn [pr_s]. eapply in_tys_weaken; [|apply pr_prefix_hd]. simpl. intuition.
  - cbn [pr_s]. destruct es; reflexivity.
Qed.

Definition starts_paren_s (s : stat) : bool :=
  match s with
  | SCall e => starts_paren_e e
  | SAssign (ELCons e _) _ => starts_paren_e e
  | _ => false
  end.

Lemma pr_s_hd_noparen s r : wf_s s = true -> starts_paren_s s = false -> hd_ty (pr_s s ++ r) <> 40.
Proof.
  intros W H. destruct s; try (cbv; discriminate).
  - cbn [wf_s] in W. repeat (apply andb_true_iff in W; destruct W as [W ?]).
    destruct targets as [|e r0]; [discriminate|]. cbn [starts_paren_s] in H. cbn [pr_s pr_targets].
    destruct r0.
    + rewrite <- app_assoc. destruct (starts_paren_false e ((tk 61 :: pr_el es) ++ r) H) as (n & X & E).
      rewrite E. cbv. discriminate.
    + rewrite <- !app_assoc.
      match goal with |- hd_ty (pr_prefix e ++ ?Y) <> _ => destruct (starts_paren_false e Y H) as (n & X & E) end.
      rewrite E. cbv. discriminate.
  - cbn [starts_paren_s] in H. cbn [pr_s]. destruct (starts_paren_false e r H) as (n & X & E). rewrite E. cbv; discriminate.
  - cbn [pr_s]. destruct es; cbv; discriminate.
Qed.

(* what follows a statement inside a block is safe, and is not ";" unless printed *)
Lemma next_safe b r : wf_b b = true -> bfollow r = true -> starts_paren_b b = false ->
  safe (pr_b b ++ r) = true /\ hd_ty (pr_b b ++ r) <> 59.
Proof.
  intros W Hr Hp. destruct b as [|l sm|s sm r0].
  - apply bfollow_safe; auto.
  - cbn [pr_b]. destruct l; split; try reflexivity; cbv; discriminate.
  - cbn [wf_b] in W. apply andb_true_iff in W. destruct W as [Ws _].
    cbn [pr_b]. rewrite <- !app_assoc.
    pose proof (pr_s_hd s ((if sm || starts_paren_b r0 then [tk 59] else []) ++ pr_b r0 ++ r) Ws) as Hh.
    assert (Hs : starts_paren_s s = false) by (destruct s; auto).
    pose proof (pr_s_hd_noparen s ((if sm || starts_paren_b r0 then [tk 59] else []) ++ pr_b r0 ++ r) Ws Hs) as Hn.
    destruct (pr_s s ++ _) as [|t X]; [discriminate|].
    cbn [hd_ty safe] in *. unfold starts_suffix, binop_of.
    cases_class Hh; try congruence; rewrite Hh; split; try reflexivity; discriminate.
Qed.

(* ----- function bodies ----- *)

Ltac norm_app := repeat (rewrite <- app_assoc || rewrite <- app_comm_cons); cbn [app].

Lemma P_fb_body ps va b : P_b b -> P_fb (FBody ps va b).
Proof.
  intros Hb W r fuel Hf. cbn [wf_fb pr_fb norm_fb c_fb] in *.
  destruct fuel as [|f]; [lia|]. rewrite p_funcbody_eq. norm_app. cbn [expect].
  change (pty (tk 40) =? 40) with true. cbv iota.
  assert (BODY : p_block d f (pr_b b ++ tk TEnd :: r) = POk (norm_b b) (tk TEnd :: r))
    by (apply Hb; auto; lia).
  destruct ps as [|a ps'].
  - destruct va.
    + cbn [pr_params app]. change (pty (tk T3Comma) =? 41) with false. cbv iota.
      change (tk T3Comma :: tk 41 :: pr_b b ++ tk TEnd :: r)
        with (pr_params [] true ++ tk 41 :: pr_b b ++ tk TEnd :: r).
      rewrite params_rt by (auto; simpl; lia). cbn [pbind fst snd].
      rewrite BODY. cbn [pbind expect].
      change (pty (tk TEnd) =? TEnd) with true. reflexivity.
    + cbn [pr_params app]. change (pty (tk 41) =? 41) with true. cbv iota.
      rewrite BODY. cbn [pbind expect].
      change (pty (tk TEnd) =? TEnd) with true. reflexivity.
  - assert (E : exists X, pr_params (a :: ps') va = tname a :: X) by (destruct va, ps'; cbn; eauto).
    destruct E as (X & E). pose proof E as E'. rewrite E. cbn [app].
    change (pty (tname a) =? 41) with false. cbv iota.
    change (tname a :: X ++ tk 41 :: pr_b b ++ tk TEnd :: r) with ((tname a :: X) ++ tk 41 :: pr_b b ++ tk TEnd :: r).
    rewrite <- E'. rewrite params_rt by (try (left; congruence); simpl in *; lia). cbn [pbind fst snd].
    rewrite BODY. cbn [pbind expect].
    change (pty (tk TEnd) =? TEnd) with true. reflexivity.
Qed.

(* ----- blocks ----- *)

Lemma P_b_nil : P_b BNil.
Proof.
  intros _ r fuel Hr Hf. cbn [pr_b app norm_b c_b] in *. destruct fuel as [|f]; [lia|].
  rewrite p_block_eq. cbv zeta. destruct (bfollow_safe r Hr) as [_ H59]. rewrite (demp_id r H59).
  destruct r as [|t X]; auto. cbn [bfollow] in Hr. rewrite Hr. reflexivity.
Qed.

Lemma P_b_last l sm : P_l l -> P_b (BLast l sm).
Proof.
  intros Hl W r fuel Hr Hf. cbn [wf_b pr_b norm_b c_b] in *. rewrite <- app_assoc. apply Hl; auto. lia.
Qed.

Lemma opt_semi_cons X : opt_semi (tk 59 :: X) = (true, X).
Proof. reflexivity. Qed.

Lemma opt_semi_none l : hd_ty l <> 59 -> opt_semi l = (false, l).
Proof. destruct l as [|t X]; auto. cbn [hd_ty opt_semi]. intros. replace (pty t =? 59) with false by lia. reflexivity. Qed.

Lemma P_b_cons s sm r0 : P_s s -> P_b r0 -> P_b (BCons s sm r0).
Proof.
  intros Hs Hb W r fuel Hr Hf. cbn [wf_b pr_b norm_b c_b] in *.
  apply andb_true_iff in W. destruct W as [Ws Wb].
  rewrite <- !app_assoc. destruct fuel as [|f]; [lia|]. rewrite p_block_eq. cbv zeta.
  set (sepz := if sm || starts_paren_b r0 then [tk 59] else []).
  pose proof (pr_s_hd s (sepz ++ pr_b r0 ++ r) Ws) as Hh.
  assert (H59 : hd_ty (pr_s s ++ sepz ++ pr_b r0 ++ r) <> 59).
  { destruct (pr_s s ++ _) as [|t X]; [discriminate|]. cbn [hd_ty] in *. cases_class Hh; rewrite Hh; discriminate. }
  rewrite (demp_id _ H59).
  destruct (pr_s s ++ sepz ++ pr_b r0 ++ r) as [|t X] eqn:Et; [discriminate|].
  cbn [hd_ty] in Hh.
  assert (T1 : block_follow t = false) by (unfold block_follow; cases_class Hh; rewrite Hh; reflexivity).
  assert (T2 : (pty t =? TReturn) = false) by (cases_class Hh; rewrite Hh; reflexivity).
  assert (T3 : (pty t =? TBreak) = false) by (cases_class Hh; rewrite Hh; reflexivity).
  rewrite T1, T2, T3. rewrite <- Et.
  assert (Hsafe : safe (sepz ++ pr_b r0 ++ r) = true /\
                  opt_semi (sepz ++ pr_b r0 ++ r) = (negb (match sepz with [] => true | _ => false end), pr_b r0 ++ r)).
  { unfold sepz. destruct (sm || starts_paren_b r0) eqn:Esm.
    - split; reflexivity.
    - apply orb_false_iff in Esm. destruct Esm as [_ Esp].
      destruct (next_safe r0 r Wb Hr Esp) as [S1 S2]. split; [exact S1|]. apply opt_semi_none; auto. }
  destruct Hsafe as [S1 S2].
  rewrite (Hs Ws _ f S1) by lia. cbn [pbind]. rewrite S2.
  rewrite (Hb Wb r f Hr) by lia. reflexivity.
Qed.

(* ----- return / break ----- *)

Lemma P_l_break : P_l LBreak.
Proof.
  intros _ sm r fuel Hr Hf. cbn [pr_l norm_l c_l app] in *. destruct fuel as [|f]; [lia|].
  rewrite p_block_eq. cbv zeta. rewrite demp_id by (cbv; discriminate).
  change (block_follow (tk TBreak)) with false. change (pty (tk TBreak) =? TReturn) with false.
  change (pty (tk TBreak) =? TBreak) with true. cbv iota.
  destruct (bfollow_safe r Hr) as [_ H59].
  destruct sm; cbn [app]; [rewrite opt_semi_cons|rewrite (opt_semi_none _ H59)]; reflexivity.
Qed.

Lemma P_l_return es : P_el es -> P_l (LReturn es).
Proof.
  intros He W sm r fuel Hr Hf. cbn [wf_l pr_l norm_l c_l] in *. destruct fuel as [|f]; [lia|].
  rewrite p_block_eq. cbv zeta. rewrite <- app_comm_cons. rewrite demp_id by (cbv; discriminate).
  change (block_follow (tk TReturn)) with false. change (pty (tk TReturn) =? TReturn) with true. cbv iota.
  destruct (bfollow_safe r Hr) as [Sr H59].
  destruct es as [|e r0].
  - cbn [pr_el app norm_el].
    destruct sm.
    + cbn [app]. change (block_follow (tk 59) || (pty (tk 59) =? 59)) with true. cbv iota.
      rewrite opt_semi_cons. reflexivity.
    + cbn [app]. destruct (bfollow_cases r Hr) as [->|(t & X & -> & Ht)]; [reflexivity|].
      assert (Hb : block_follow t = true) by (cbn [bfollow] in Hr; exact Hr). rewrite Hb. cbn [orb].
      rewrite (opt_semi_none (t :: X)) by exact H59. reflexivity.
  - pose proof (pr_el_hd (ELCons e r0) ((if sm then [tk 59] else []) ++ r) eq_refl) as Hh.
    rewrite <- ?app_assoc.
    destruct (pr_el (ELCons e r0) ++ _) as [|t2 X2] eqn:Et; [discriminate|].
    cbn [hd_ty] in Hh.
    assert (T : (block_follow t2 || (pty t2 =? 59)) = false)
      by (unfold block_follow; cases_class Hh; rewrite Hh; reflexivity).
    rewrite T. rewrite <- Et. destruct (He W) as [Hx _].
    assert (Ss : safe ((if sm then [tk 59] else []) ++ r) = true) by (destruct sm; [reflexivity|exact Sr]).
    rewrite (Hx eq_refl _ f Ss) by lia. cbn [pbind].
    destruct sm; [cbn [app]; rewrite opt_semi_cons|cbn [app]; rewrite (opt_semi_none _ H59)]; reflexivity.
Qed.

(* ----- else parts ----- *)

Lemma P_else_none : P_else ElseNone.
Proof. intros _ r fuel Hf. cbn [c_else] in Hf. destruct fuel as [|f]; [lia|]. rewrite p_else_eq. reflexivity. Qed.

Lemma P_else_else b : P_b b -> P_else (Else b).
Proof.
  intros Hb W r fuel Hf. cbn [wf_else pr_else norm_else c_else] in *. destruct fuel as [|f]; [lia|].
  rewrite p_else_eq. cbv zeta. rewrite <- app_comm_cons, <- app_assoc. cbn [app].
  change (pty (tk TElse) =? TElseIf) with false. change (pty (tk TElse) =? TElse) with true. cbv iota.
  rewrite (Hb W (tk TEnd :: r) f eq_refl) by lia. cbn [pbind expect].
  change (pty (tk TEnd) =? TEnd) with true. reflexivity.
Qed.

Lemma then_follow X : opfollow 0 (tk TThen :: X) = true /\ nosuf (tk TThen :: X) = true.
Proof. split; reflexivity. Qed.

Lemma P_else_elseif c b e : P_e c -> P_b b -> P_else e -> P_else (ElseIf c b e).
Proof.
  intros Hc Hb He W r fuel Hf. cbn [wf_else pr_else norm_else c_else] in *.
  apply andb_true_iff in W. destruct W as [W We]. apply andb_true_iff in W. destruct W as [Wc Wb].
  destruct (Hc Wc) as [_ C1]. destruct fuel as [|f]; [lia|].
  rewrite p_else_eq. cbv zeta. rewrite <- app_comm_cons, <- app_assoc. cbn [app]. rewrite <- app_assoc.
  change (pty (tk TElseIf) =? TElseIf) with true. cbv iota.
  rewrite (E1_value c C1 _ f) by (try reflexivity; lia). cbn [pbind expect].
  change (pty (tk TThen) =? TThen) with true. cbv iota.
  assert (Bf : bfollow (pr_else e ++ r) = true) by (destruct e; reflexivity).
  rewrite (Hb Wb _ f Bf) by lia. cbn [pbind].
  rewrite (He We r f) by lia. reflexivity.
Qed.

(* ----- statements ----- *)

(* evaluate the comparisons between closed token types *)
Ltac eval_tests :=
  repeat match goal with
  | |- context [?a =? ?b] =>
    let v := eval vm_compute in (a =? b) in
    match v with
    | true => change (a =? b) with true
    | false => change (a =? b) with false
    end
  end; cbv iota; cbn [andb orb negb].

Ltac stat_start fuel Hf :=
  destruct fuel as [|fuel]; [lia|]; rewrite p_stat_eq; cbv zeta; norm_app;
  match goal with |- context [pty (tk ?k)] => change (pty (tk k)) with k end; eval_tests.

Lemma follow_tok k X : starts_suffix (tk k) = false -> binop_of (tk k) = None ->
  opfollow 0 (tk k :: X) = true /\ nosuf (tk k :: X) = true.
Proof. intros H1 H2. cbn [opfollow nosuf]. rewrite H1, H2. split; reflexivity. Qed.

Lemma P_s_do b : P_b b -> P_s (SDo b).
Proof.
  intros Hb W r fuel Hs Hf. cbn [wf_s pr_s norm_s c_s] in *. stat_start fuel Hf.
  rewrite (Hb W (tk TEnd :: r) fuel eq_refl) by lia. cbn [pbind expect]. eval_tests. reflexivity.
Qed.

Lemma P_s_while c b : P_e c -> P_b b -> P_s (SWhile c b).
Proof.
  intros Hc Hb W r fuel Hs Hf. cbn [wf_s pr_s norm_s c_s] in *.
  apply andb_true_iff in W. destruct W as [Wc Wb]. destruct (Hc Wc) as [_ C1]. stat_start fuel Hf.
  rewrite (E1_value c C1 _ fuel) by (try reflexivity; lia). cbn [pbind expect]. eval_tests.
  rewrite (Hb Wb (tk TEnd :: r) fuel eq_refl) by lia. cbn [pbind expect]. eval_tests. reflexivity.
Qed.

Lemma P_s_repeat b c : P_b b -> P_e c -> P_s (SRepeat b c).
Proof.
  intros Hb Hc W r fuel Hs Hf. cbn [wf_s pr_s norm_s c_s] in *.
  apply andb_true_iff in W. destruct W as [Wb Wc]. destruct (Hc Wc) as [_ C1]. stat_start fuel Hf.
  rewrite (Hb Wb (tk TUntil :: pr_e 0 0 c ++ r) fuel eq_refl) by lia. cbn [pbind expect]. eval_tests.
  rewrite (E1_value c C1 r fuel) by (auto using safe_opfollow, safe_nosuf; lia). reflexivity.
Qed.

Lemma P_s_if c b e : P_e c -> P_b b -> P_else e -> P_s (SIf c b e).
Proof.
  intros Hc Hb He W r fuel Hs Hf. cbn [wf_s pr_s norm_s c_s] in *.
  apply andb_true_iff in W. destruct W as [W We]. apply andb_true_iff in W. destruct W as [Wc Wb].
  destruct (Hc Wc) as [_ C1]. stat_start fuel Hf.
  rewrite (E1_value c C1 _ fuel) by (try reflexivity; lia). cbn [pbind expect]. eval_tests.
  assert (Bf : bfollow (pr_else e ++ r) = true) by (destruct e; reflexivity).
  rewrite (Hb Wb _ fuel Bf) by lia. cbn [pbind].
  rewrite (He We r fuel) by lia. reflexivity.
Qed.

Lemma P_s_fornum v e1 e2 b : P_e e1 -> P_e e2 -> P_b b -> P_s (SFornum v e1 e2 b).
Proof.
  intros H1 H2 Hb W r fuel Hs Hf. cbn [wf_s pr_s norm_s c_s] in *.
  apply andb_true_iff in W. destruct W as [W Wb]. apply andb_true_iff in W. destruct W as [W1 W2].
  destruct (H1 W1) as [_ A1]. destruct (H2 W2) as [_ A2]. stat_start fuel Hf.
  cbn [expect_name]. change (pty (tname v)) with TIdent. change (ptext (tname v)) with v. eval_tests.
  change (pty (tk 61)) with 61. eval_tests.
  rewrite (E1_value e1 A1 _ fuel) by (try reflexivity; lia). cbn [pbind expect]. eval_tests.
  change (pty (tk 44)) with 44. eval_tests.
  rewrite (E1_value e2 A2 _ fuel) by (try reflexivity; lia). cbn [pbind expect].
  change (pty (tk TDo)) with TDo. eval_tests.
  rewrite (Hb Wb (tk TEnd :: r) fuel eq_refl) by lia. cbn [pbind expect].
  change (pty (tk TEnd)) with TEnd. eval_tests. reflexivity.
Qed.

Lemma P_s_fornum3 v e1 e2 e3 b : P_e e1 -> P_e e2 -> P_e e3 -> P_b b -> P_s (SFornum3 v e1 e2 e3 b).
Proof.
  intros H1 H2 H3 Hb W r fuel Hs Hf. cbn [wf_s pr_s norm_s c_s] in *.
  apply andb_true_iff in W. destruct W as [W Wb]. apply andb_true_iff in W. destruct W as [W W3].
  apply andb_true_iff in W. destruct W as [W1 W2].
  destruct (H1 W1) as [_ A1]. destruct (H2 W2) as [_ A2]. destruct (H3 W3) as [_ A3]. stat_start fuel Hf.
  cbn [expect_name]. change (pty (tname v)) with TIdent. change (ptext (tname v)) with v. eval_tests.
  change (pty (tk 61)) with 61. eval_tests.
  rewrite (E1_value e1 A1 _ fuel) by (try reflexivity; lia). cbn [pbind expect].
  change (pty (tk 44)) with 44. eval_tests.
  rewrite (E1_value e2 A2 _ fuel) by (try reflexivity; lia). cbn [pbind expect].
  change (pty (tk 44)) with 44. eval_tests.
  rewrite (E1_value e3 A3 _ fuel) by (try reflexivity; lia). cbn [pbind expect].
  change (pty (tk TDo)) with TDo. eval_tests.
  rewrite (Hb Wb (tk TEnd :: r) fuel eq_refl) by lia. cbn [pbind expect].
  change (pty (tk TEnd)) with TEnd. eval_tests. reflexivity.
Qed.

Lemma sep_names_cons sep a ns X :
  sep_names sep (a :: ns) ++ X = tname a :: (match ns with [] => X | _ => tk sep :: sep_names sep ns ++ X end).
Proof. destruct ns; reflexivity. Qed.

Lemma P_s_forin ns es b : P_el es -> P_b b -> P_s (SForin ns es b).
Proof.
  intros He Hb W r fuel Hs Hf. cbn [wf_s pr_s norm_s c_s] in *.
  apply andb_true_iff in W. destruct W as [W Wb]. apply andb_true_iff in W. destruct W as [W We].
  apply andb_true_iff in W. destruct W as [Wn Wne].
  destruct (He We) as (Hx & _ & _). stat_start fuel Hf.
  destruct ns as [|a ns']; [discriminate|].
  pose proof (names_rt 44 (a :: ns') (tk TIn :: pr_el es ++ tk TDo :: pr_b b ++ tk TEnd :: r) fuel
                ltac:(congruence) ltac:(cbv; discriminate) ltac:(simpl in *; lia)) as NR.
  rewrite sep_names_cons in *. cbn [expect_name]. change (pty (tname a)) with TIdent. eval_tests.
  assert (T : match (match ns' with [] => tk TIn :: pr_el es ++ tk TDo :: pr_b b ++ tk TEnd :: r
                     | _ :: _ => tk 44 :: sep_names 44 ns' ++ tk TIn :: pr_el es ++ tk TDo :: pr_b b ++ tk TEnd :: r end)
              with t1 :: _ => pty t1 =? 61 | [] => true end = false) by (destruct ns'; reflexivity).
  destruct (match ns' with [] => _ | _ :: _ => _ end) as [|t1 r2] eqn:E1; [discriminate|].
  rewrite T. rewrite NR. cbn [pbind expect]. change (pty (tk TIn)) with TIn. eval_tests.
  rewrite (Hx Wne (tk TDo :: pr_b b ++ tk TEnd :: r) fuel eq_refl) by lia. cbn [pbind expect]. change (pty (tk TDo)) with TDo. eval_tests.
  rewrite (Hb Wb (tk TEnd :: r) fuel eq_refl) by lia. cbn [pbind expect].
  change (pty (tk TEnd)) with TEnd. eval_tests. reflexivity.
Qed.

Lemma P_s_function path m fb : P_fb fb -> P_s (SFunction path m fb).
Proof.
  intros Hfb W r fuel Hs Hf. cbn [wf_s pr_s norm_s c_s] in *.
  apply andb_true_iff in W. destruct W as [Wp Wf]. stat_start fuel Hf.
  destruct fb as [ps va b]. destruct path as [|a path']; [discriminate|].
  destruct m as [n|].
  - cbn [app].
    rewrite (names_rt 46 (a :: path') (tk 58 :: tname n :: pr_fb (FBody ps va b) ++ r) fuel)
      by (try congruence; try (cbv; discriminate); simpl in *; lia).
    cbn [pbind]. change (pty (tk 58)) with 58. eval_tests. cbn [expect_name].
    change (pty (tname n)) with TIdent. change (ptext (tname n)) with n. eval_tests.
    rewrite (Hfb Wf r fuel) by (simpl in *; lia). reflexivity.
  - cbn [app]. cbn [pr_fb]. norm_app.
    rewrite (names_rt 46 (a :: path') (tk 40 :: pr_params ps va ++ tk 41 :: pr_b b ++ tk TEnd :: r) fuel)
      by (try congruence; try (cbv; discriminate); simpl in *; lia).
    cbn [pbind]. change (pty (tk 40)) with 40. eval_tests.
    pose proof (Hfb Wf r fuel ltac:(simpl in *; lia)) as Hb. cbn [pr_fb] in Hb.
    revert Hb. norm_app. intros Hb. rewrite Hb. reflexivity.
Qed.

Lemma P_s_localfunction n fb : P_fb fb -> P_s (SLocalFunction n fb).
Proof.
  intros Hfb W r fuel Hs Hf. cbn [wf_s pr_s norm_s c_s] in *. stat_start fuel Hf.
  change (pty (tk TFunction)) with TFunction. eval_tests. cbn [expect_name].
  change (pty (tname n)) with TIdent. change (ptext (tname n)) with n. eval_tests.
  rewrite (Hfb W r fuel) by lia. reflexivity.
Qed.

Lemma P_s_local ns es : P_el es -> P_s (SLocal ns es).
Proof.
  intros He W r fuel Hs Hf. cbn [wf_s norm_s c_s] in *.
  apply andb_true_iff in W. destruct W as [Wn We]. destruct (He We) as (Hx & _ & _).
  destruct ns as [|a ns']; [discriminate|].
  assert (Hr44 : hd_ty r <> 44 /\ hd_ty r <> 61).
  { destruct r as [|t X]; [split; discriminate|]. cbn [safe hd_ty] in *. lia. }
  destruct es as [|e r0].
  - cbn [pr_s]. stat_start fuel Hf.
    rewrite sep_names_cons. change (pty (tname a)) with TIdent. eval_tests. rewrite <- sep_names_cons.
    rewrite (names_rt 44 (a :: ns') r fuel) by (try congruence; try tauto; simpl in *; lia).
    cbn [pbind norm_el]. destruct r as [|t2 X]; auto. cbn [hd_ty] in Hr44.
    replace (pty t2 =? 61) with false by lia. reflexivity.
  - cbn [pr_s]. stat_start fuel Hf.
    rewrite sep_names_cons. change (pty (tname a)) with TIdent. eval_tests. rewrite <- sep_names_cons.
    rewrite (names_rt 44 (a :: ns') (tk 61 :: pr_el (ELCons e r0) ++ r) fuel)
      by (try congruence; try (cbv; discriminate); simpl in *; lia).
    cbn [pbind]. change (pty (tk 61)) with 61. eval_tests.
    rewrite (Hx eq_refl r fuel Hs) by (simpl in *; lia). reflexivity.
Qed.

Lemma P_s_goto n : P_s (SGoto n).
Proof.
  intros _ r fuel Hs Hf. cbn [pr_s norm_s c_s] in *. stat_start fuel Hf. cbn [expect_name].
  change (pty (tname n)) with TIdent. eval_tests. reflexivity.
Qed.

Lemma P_s_label n : P_s (SLabel n).
Proof.
  intros _ r fuel Hs Hf. cbn [pr_s norm_s c_s] in *. stat_start fuel Hf. cbn [expect_name expect].
  change (pty (tname n)) with TIdent. eval_tests. change (pty (tk T2Colon)) with T2Colon. eval_tests. reflexivity.
Qed.

(* exprstat: the first token is a Name or "(": none of the statement keywords *)
Lemma stat_to_exprstat fuel t X :
  (pty t = TIdent \/ pty t = 40) ->
  p_stat d (S fuel) (t :: X) =
  pbind (p_suffixed d fuel (t :: X)) (fun ep r1 =>
    let '(e, par) := ep in
    if is_call e && negb par then POk (SCall e) r1
    else if d_parencall d && par && (match e with EParen x => is_call x | _ => false end)
    then POk (SCall e) r1
    else if is_var e && negb par then
      pbind (p_targets d fuel r1) (fun ts r2 => expect 61 r2 (fun r3 =>
      pbind (p_explist d fuel r3) (fun es rest => POk (SAssign (ELCons e ts) es) rest)))
    else PErr PSyntax).
Proof. intros H. rewrite p_stat_eq. cbv zeta. destruct H as [H|H]; rewrite H; reflexivity. Qed.

Lemma P_s_call e : P_e e -> P_s (SCall e).
Proof.
  intros He W r fuel Hs Hf. cbn [wf_s pr_s norm_s c_s] in *.
  apply andb_true_iff in W. destruct W as [Wc We]. destruct (He We) as [H2 _].
  destruct (is_call_norm e Wc) as (Cn & Fl & Pf).
  destruct fuel as [|f]; [lia|].
  destruct (pr_prefix_first e r) as (t & X & Et & Ht). rewrite Et.
  rewrite (stat_to_exprstat f t X Ht). rewrite <- Et.
  rewrite (H2 Pf r (POk (norm_e e, pflag e) r) 1%nat).
  - cbn [pbind]. rewrite Fl, Cn. reflexivity.
  - intros fu Hfu. apply sufloop_stop; auto using safe_nosuf.
  - pose proof (c_e_ge e). lia.
Qed.

Lemma is_call_var e : is_var e = true -> is_call e = false.
Proof. destruct e; simpl; intros; try discriminate; reflexivity. Qed.

Lemma P_s_assign ts es : P_el ts -> P_el es -> P_s (SAssign ts es).
Proof.
  intros Ht He W r fuel Hs Hf. cbn [wf_s pr_s norm_s c_s] in *.
  apply andb_true_iff in W. destruct W as [W Wes]. apply andb_true_iff in W. destruct W as [W Wne].
  apply andb_true_iff in W. destruct W as [W Wts]. apply andb_true_iff in W. destruct W as [Wnt Wv].
  destruct (Ht Wts) as (_ & _ & Hc). destruct (He Wes) as (Hx & _ & _).
  destruct ts as [|e r0]; [discriminate|]. cbn [tgt_clause] in Hc.
  destruct fuel as [|f]; [lia|].
  destruct (Hc Wv (pr_el es ++ r) f ltac:(lia)) as [A B].
  assert (E : (pr_targets (ELCons e r0) ++ tk 61 :: pr_el es) ++ r = pr_prefix e ++ ptt r0 ++ tk 61 :: pr_el es ++ r).
  { destruct r0; cbn [pr_targets ptt]; norm_app; reflexivity. }
  rewrite E. clear E.
  destruct (pr_prefix_first e (ptt r0 ++ tk 61 :: pr_el es ++ r)) as (t & X & Et & Htt). rewrite Et.
  rewrite (stat_to_exprstat f t X Htt). rewrite <- Et. rewrite A. cbn [pbind].
  cbn [all_var] in Wv. apply andb_true_iff in Wv. destruct Wv as [Wve _].
  destruct (is_var_norm' e Wve) as [Vn _]. rewrite (is_call_var _ Vn), Vn.
  cbn [andb negb]. rewrite andb_false_r. cbn [andb].
  rewrite B. cbn [pbind expect]. change (pty (tk 61) =? 61) with true. cbv iota.
  rewrite (Hx Wne r f Hs) by lia. reflexivity.
Qed.

(* ---------- assembling the mutual induction ---------- *)

Lemma nonprefix_P e : is_prefix e = false -> pfx_ok e = true -> E1bare e -> E2 e /\ E1 e.
Proof.
  intros Hn Hp Hb. pose proof (E2_nonprefix e Hn Hb) as H2. split; auto. apply E1_from_bare; auto.
Qed.

Lemma prefix_P e : is_prefix e = true -> pfx_ok e = true -> E2 e -> E2 e /\ E1 e.
Proof. intros Hp Hpf H2. split; auto. apply E1_from_prefix; auto. Qed.

Theorem roundtrip_all :
  (forall e, P_e e) /\ (forall a, P_a a) /\ (forall es, P_el es) /\ (forall fs, P_fl fs) /\
  (forall f0, P_f f0) /\ (forall fb, P_fb fb) /\ (forall b, P_b b) /\ (forall l, P_l l) /\
  (forall s, P_s s) /\ (forall e, P_else e).
Proof.
  apply ast_mutind.
  (* expr *)
  - intros _. apply nonprefix_P; auto. apply E1bare_nil.
  - intros _. apply nonprefix_P; auto. apply E1bare_true.
  - intros _. apply nonprefix_P; auto. apply E1bare_false.
  - intros _. split; [intros H; discriminate|]. apply E1_vararg_from, E1bare_vararg.
  - intros s _. apply nonprefix_P; auto. apply E1bare_number.
  - intros s _. apply nonprefix_P; auto. apply E1bare_string.
  - intros f Hf W. apply nonprefix_P; auto. apply E1bare_function; auto.
  - intros fs Hfs W. apply nonprefix_P; auto. apply E1bare_table; auto.
  - intros op a Ha b Hb W. cbn [wf_e] in W. apply andb_true_iff in W. destruct W as [Wa Wb].
    apply nonprefix_P; auto. apply E1bare_bin; [apply (Ha Wa)|apply (Hb Wb)].
  - intros op a Ha W. cbn [wf_e] in W. apply nonprefix_P; auto. apply E1bare_un. apply (Ha W).
  - intros n _. apply prefix_P; auto. apply E2_name.
  - intros p Hp k Hk W. cbn [wf_e] in W. apply andb_true_iff in W. destruct W as [W Wk].
    apply andb_true_iff in W. destruct W as [Wpf Wp].
    apply prefix_P; auto. apply E2_index; auto; [apply (Hp Wp)|apply (Hk Wk)].
  - intros p Hp n W. cbn [wf_e] in W. apply andb_true_iff in W. destruct W as [Wpf Wp].
    apply prefix_P; auto. apply E2_field; auto. apply (Hp Wp).
  - intros p Hp a Ha W. cbn [wf_e] in W. apply andb_true_iff in W. destruct W as [W Wa].
    apply andb_true_iff in W. destruct W as [Wpf Wp].
    apply prefix_P; auto. apply E2_call; auto. apply (Hp Wp).
  - intros p Hp n a Ha W. cbn [wf_e] in W. apply andb_true_iff in W. destruct W as [W Wa].
    apply andb_true_iff in W. destruct W as [Wpf Wp].
    apply prefix_P; auto. apply E2_method; auto. apply (Hp Wp).
  - intros x Hx W. cbn [wf_e] in W. apply prefix_P; auto. apply E2_paren_case. apply (Hx W).
  (* args *)
  - intros es He. apply P_a_list; auto. apply P_fl_nil.
  - intros fs Hfs. apply P_a_table; auto.
  - intros s. apply P_a_string.
  (* exprlist *)
  - apply P_el_nil.
  - intros e He r Hr. apply P_el_cons; auto.
  (* fieldlist *)
  - apply P_fl_nil.
  - intros f0 Hf0 r Hr. apply P_fl_cons; auto.
  (* field *)
  - intros e He. apply P_f_pos; auto.
  - intros n e He. apply P_f_named; auto.
  - intros k Hk e He. apply P_f_key; auto.
  (* funcbody *)
  - intros ps va b Hb. apply P_fb_body; auto.
  (* block *)
  - apply P_b_nil.
  - intros l Hl sm. apply P_b_last; auto.
  - intros s Hs sm r Hr. apply P_b_cons; auto.
  (* laststat *)
  - intros es He. apply P_l_return; auto.
  - apply P_l_break.
  (* stat *)
  - intros ts Ht es He. apply P_s_assign; auto.
  - intros e He. apply P_s_call; auto.
  - intros b Hb. apply P_s_do; auto.
  - intros c Hc b Hb. apply P_s_while; auto.
  - intros b Hb c Hc. apply P_s_repeat; auto.
  - intros c Hc b Hb e He. apply P_s_if; auto.
  - intros v e1 H1 e2 H2 b Hb. apply P_s_fornum; auto.
  - intros v e1 H1 e2 H2 e3 H3 b Hb. apply P_s_fornum3; auto.
  - intros ns es He b Hb. apply P_s_forin; auto.
  - intros path m f Hf. apply P_s_function; auto.
  - intros n f Hf. apply P_s_localfunction; auto.
  - intros ns es He. apply P_s_local; auto.
  - intros n. apply P_s_goto.
  - intros n. apply P_s_label.
  (* elsepart *)
  - apply P_else_none.
  - intros c Hc b Hb e He. apply P_else_elseif; auto.
  - intros b Hb. apply P_else_else; auto.
Qed.

(* the whole chunk, for any amount of fuel that covers the tree *)
Lemma roundtrip_fuel b fuel :
  wf_b b = true -> c_b b <=n fuel -> parse_fuel d fuel (print b) = ParseOk (norm_b b).
Proof.
  intros W Hf. unfold parse_fuel, print.
  destruct roundtrip_all as (_ & _ & _ & _ & _ & _ & Hb & _).
  pose proof (Hb b W [] fuel eq_refl Hf) as H. rewrite app_nil_r in H. rewrite H. reflexivity.
Qed.

End RoundTrip.

(* ---------- the fuel a tree needs is at most 32 per printed token + 8 ---------- *)

Notation tl_ x := (length x) (only parsing).

Definition B_e (e : expr) : Prop :=
  (forall L p, c_e e + 24 <= 32 * tl_ (pr_e L p e))%nat /\ (c_e e + 24 <= 32 * tl_ (pr_prefix e))%nat.
Definition B_a (a : args) : Prop := (c_a a + 8 <= 32 * tl_ (pr_a a))%nat.
Definition B_el (es : exprlist) : Prop :=
  (c_el es <= 32 * tl_ (pr_el es) + 16)%nat /\ (c_el es <= 32 * tl_ (pr_targets es) + 16)%nat /\
  (nonempty_el es = true -> (c_el es + 8 <= 32 * tl_ (pr_el es))%nat /\ (c_el es + 8 <= 32 * tl_ (pr_targets es))%nat).
Definition B_fl (fs : fieldlist) : Prop := (c_fl fs <= 32 * tl_ (pr_fl fs) + 24)%nat.
Definition B_f (f0 : field) : Prop := (c_f f0 <= 32 * tl_ (pr_f f0) + 8)%nat.
Definition B_fb (fb : funcbody) : Prop := (c_fb fb <= 32 * tl_ (pr_fb fb))%nat.
Definition B_b (b : block) : Prop := (c_b b <= 32 * tl_ (pr_b b) + 8)%nat.
Definition B_l (l : laststat) : Prop := (c_l l <= 32 * tl_ (pr_l l))%nat.
Definition B_s (s : stat) : Prop := (c_s s + 8 <= 32 * tl_ (pr_s s))%nat.
Definition B_else (e : elsepart) : Prop := (c_else e <= 32 * tl_ (pr_else e))%nat.

Lemma sep_names_len sep ns : (length ns <= length (sep_names sep ns))%nat.
Proof.
  induction ns as [|a ns IH]; simpl; auto. destruct ns; simpl in *; lia.
Qed.

Lemma pr_params_len ps va : (length ps <= length (pr_params ps va))%nat.
Proof.
  pose proof (sep_names_len 44 ps). destruct ps, va; simpl in *; try lia; rewrite ?app_length; simpl; lia.
Qed.

Ltac lens := repeat (rewrite app_length in * || cbn [length] in * ).

Theorem cost_bound_all :
  (forall e, B_e e) /\ (forall a, B_a a) /\ (forall es, B_el es) /\ (forall fs, B_fl fs) /\
  (forall f0, B_f f0) /\ (forall fb, B_fb fb) /\ (forall b, B_b b) /\ (forall l, B_l l) /\
  (forall s, B_s s) /\ (forall e, B_else e).
Proof.
  apply ast_mutind; unfold B_e, B_a, B_el, B_fl, B_f, B_fb, B_b, B_l, B_s, B_else.
  (* expr *)
  - split; [intros L p|]; simpl; lia.
  - split; [intros L p|]; simpl; lia.
  - split; [intros L p|]; simpl; lia.
  - split; [intros L p|]; simpl; lia.
  - intros s. split; [intros L p|]; simpl; lia.
  - intros s. split; [intros L p|]; simpl; lia.
  - intros f Hf. split; [intros L p|]; cbn [pr_e pr_prefix c_e]; lens; lia.
  - intros fs Hfs. split; [intros L p|]; cbn [pr_e pr_prefix c_e]; lens; lia.
  - intros op a [Ha _] b [Hb _]. split; [intros L p|]; cbn [pr_e pr_prefix c_e].
    + destruct (bare_ok L p (EBin op a b)); lens.
      * specialize (Ha L (prio_left op)). specialize (Hb (prio_right op) p). lia.
      * specialize (Ha 0 (prio_left op)). specialize (Hb (prio_right op) 0). lia.
    + lens. specialize (Ha 0 (prio_left op)). specialize (Hb (prio_right op) 0). lia.
  - intros op a [Ha _]. split; [intros L p|]; cbn [pr_e pr_prefix c_e].
    + destruct (bare_ok L p (EUn op a)); lens.
      * specialize (Ha unary_priority p). lia.
      * specialize (Ha unary_priority 0). lia.
    + lens. specialize (Ha unary_priority 0). lia.
  - intros n. split; [intros L p|]; simpl; lia.
  - intros p [_ Hp] k [Hk _]. specialize (Hk 0 0). split; [intros L q|]; cbn [pr_e pr_prefix c_e]; lens; lia.
  - intros p [_ Hp] n. split; [intros L q|]; cbn [pr_e pr_prefix c_e]; lens; lia.
  - intros p [_ Hp] a Ha. split; [intros L q|]; cbn [pr_e pr_prefix c_e]; lens; lia.
  - intros p [_ Hp] n a Ha. split; [intros L q|]; cbn [pr_e pr_prefix c_e]; lens; lia.
  - intros x [Hx _]. specialize (Hx 0 0). split; [intros L q|]; cbn [pr_e pr_prefix c_e]; lens; lia.
  (* args *)
  - intros es (He & _ & _). cbn [pr_a c_a]. lens. lia.
  - intros fs Hfs. cbn [pr_a c_a]. lens. lia.
  - intros s. simpl. lia.
  (* exprlist *)
  - simpl. repeat split; try lia; discriminate.
  - intros e [He Hp] r (Hr1 & Hr2 & Hr3). specialize (He 0 0).
    destruct r as [|e' r'].
    + cbn [pr_el pr_targets c_el]. repeat split; try lia; intros _; lia.
    + specialize (Hr3 eq_refl). destruct Hr3 as [Hr3 Hr4].
      change (pr_el (ELCons e (ELCons e' r'))) with (pr_e 0 0 e ++ tk 44 :: pr_el (ELCons e' r')).
      change (pr_targets (ELCons e (ELCons e' r'))) with (pr_prefix e ++ tk 44 :: pr_targets (ELCons e' r')).
      cbn [c_el] in *. lens. repeat split; try lia; intros _; lia.
  (* fieldlist *)
  - simpl. lia.
  - intros f0 Hf0 r Hr. destruct r as [|f1 r'].
    + cbn [pr_fl c_fl]. lia.
    + change (pr_fl (FLCons f0 (FLCons f1 r'))) with (pr_f f0 ++ tk 44 :: pr_fl (FLCons f1 r')).
      cbn [c_fl] in *. lens. lia.
  (* field *)
  - intros e [He _]. specialize (He 0 0). cbn [pr_f c_f]. lia.
  - intros n e [He _]. specialize (He 0 0). cbn [pr_f c_f]. lens. lia.
  - intros k [Hk _] e [He _]. specialize (Hk 0 0). specialize (He 0 0). cbn [pr_f c_f]. lens. lia.
  (* funcbody *)
  - intros ps va b Hb. cbn [pr_fb c_fb]. pose proof (pr_params_len ps va). lens. lia.
  (* block *)
  - simpl. lia.
  - intros l Hl sm. cbn [pr_b c_b]. lens. destruct sm; simpl; lia.
  - intros s Hs sm r Hr. cbn [pr_b c_b]. lens. lia.
  (* laststat *)
  - intros es (He & _ & _). cbn [pr_l c_l]. lens. lia.
  - simpl. lia.
  (* stat *)
  - intros ts (_ & _ & Ht) es (_ & _ & He). cbn [pr_s c_s]. lens.
    destruct ts as [|t0 ts'], es as [|e0 es']; cbn [c_el pr_targets pr_el length] in *; try lia;
      try (destruct (Ht eq_refl)); try (destruct (He eq_refl)); lia.
  - intros e [_ He]. cbn [pr_s c_s]. lia.
  - intros b Hb. cbn [pr_s c_s]. lens. lia.
  - intros c [Hc _] b Hb. specialize (Hc 0 0). cbn [pr_s c_s]. lens. lia.
  - intros b Hb c [Hc _]. specialize (Hc 0 0). cbn [pr_s c_s]. lens. lia.
  - intros c [Hc _] b Hb e He. specialize (Hc 0 0). cbn [pr_s c_s]. lens. lia.
  - intros v e1 [H1 _] e2 [H2 _] b Hb. specialize (H1 0 0). specialize (H2 0 0). cbn [pr_s c_s]. lens. lia.
  - intros v e1 [H1 _] e2 [H2 _] e3 [H3 _] b Hb. specialize (H1 0 0). specialize (H2 0 0). specialize (H3 0 0).
    cbn [pr_s c_s]. lens. lia.
  - intros ns es (He & _ & _) b Hb. cbn [pr_s c_s]. pose proof (sep_names_len 44 ns). lens. lia.
  - intros path m f Hf. cbn [pr_s c_s]. pose proof (sep_names_len 46 path). lens. destruct m; cbn [length]; lia.
  - intros n f Hf. cbn [pr_s c_s]. lens. lia.
  - intros ns es (He & _ & _). pose proof (sep_names_len 44 ns). destruct es; cbn [pr_s c_s c_el]; lens; try lia.
    cbn [c_el] in He. lia.
  - intros n. simpl. lia.
  - intros n. simpl. lia.
  (* elsepart *)
  - simpl. lia.
  - intros c [Hc _] b Hb e He. specialize (Hc 0 0). cbn [pr_else c_else]. lens. lia.
  - intros b Hb. cbn [pr_else c_else]. lens. lia.
Qed.

Lemma cost_bound b : (c_b b <= 32 * length (print b) + 32)%nat.
Proof. destruct cost_bound_all as (_ & _ & _ & _ & _ & _ & Hb & _). unfold print. specialize (Hb b). unfold B_b in Hb. lia. Qed.

(* ---------- headline ---------- *)

(* the reference parser reads back what the reference printer writes, in either dialect *)
Theorem parse_print_roundtrip_lemma d b :
  wf_b b = true -> parse_d d (print b) = ParseOk (norm_b b).
Proof. intros W. unfold parse_d. apply roundtrip_fuel; auto. apply cost_bound. Qed.

(* ---------- corollaries ---------- *)

(* a tree in normal form (no optional ";" flag set, parentheses only around calls and "...") *)
Definition normal (b : block) : Prop := norm_b b = b.

Theorem parse_print_normal d b : wf_b b = true -> normal b -> parse_d d (print b) = ParseOk b.
Proof. intros W N. rewrite parse_print_roundtrip_lemma by auto. rewrite N. reflexivity. Qed.

(* two trees that differ only in optional semicolons and meaningless parentheses parse alike *)
Theorem parse_ignores_layout_lemma d b1 b2 :
  wf_b b1 = true -> wf_b b2 = true -> norm_b b1 = norm_b b2 ->
  parse_d d (print b1) = parse_d d (print b2).
Proof. intros W1 W2 E. rewrite !parse_print_roundtrip_lemma by auto. rewrite E. reflexivity. Qed.

(* what "optional" and "meaningless" mean: the steps that norm_b does not see *)
Lemma norm_semi_irrelevant s sm sm' r : norm_b (BCons s sm r) = norm_b (BCons s sm' r).
Proof. reflexivity. Qed.

Lemma norm_semi_last_irrelevant l sm sm' : norm_b (BLast l sm) = norm_b (BLast l sm').
Proof. reflexivity. Qed.

Lemma norm_paren_irrelevant x : multi (norm_e x) = false -> norm_e (EParen x) = norm_e x.
Proof. intros H. cbn [norm_e]. unfold paren_wrap. rewrite H. reflexivity. Qed.

(* parentheses around a call or "..." are kept: they change the meaning *)
Lemma norm_paren_kept x : multi (norm_e x) = true -> norm_e (EParen x) = EParen (norm_e x).
Proof. intros H. cbn [norm_e]. unfold paren_wrap. rewrite H. reflexivity. Qed.
