(* Reference recursive-descent parser for Lua 5.1 (+ goto / labels, `goto` reserved), a port of
   the structure of lparser.c: chunk/block, statement, exprstat, primaryexp + suffixes, simpleexp,
   subexpr with the 5.1 left/right operator priorities, funcargs with the "ambiguous syntax
   (function call x new statement)" rule, `return`/`break` only as the last statement of a block.
   Pure syntax: scoping rules (break outside a loop, "..." outside a vararg function, goto/label
   visibility, limits) belong to the compiler and are not checked here.
   Input: the tokens of Front/Lexer.v reduced to (type, text, nl) where nl = "this token is on
   another line than the previous one".  Fuelled; POut is the distinguished out-of-fuel result.
   The tree delivered is in normal form (Ast.norm_b): the `semi` flags are false and parentheses
   survive only around calls and "...".
   This file is a specification (written from the manual §8 / lparser.c); no proofs here.

   `dialect`: four switches, all false for Lua 5.1 (`strict`).  `gopher` turns on the four places
   where gopher-lua's grammar (parse/parser.go.y) accepts more than 5.1; with them the parser is the
   model of what parse.Parse accepts (used by the correspondence check only). *)
From GL Require Import Common.Bytes Front.Lexer Front.Ast.
Open Scope Z_scope.

Record dialect := mkDialect {
  d_noamb : bool;       (* no "ambiguous syntax" error for "(" on a new line (the check is dead code) *)
  d_seps : bool;        (* any number of "," / ";" after a table field: {a,,b} *)
  d_emptystat : bool;   (* ";" as an empty statement, any number, also at the start of a block *)
  d_parencall : bool    (* a parenthesised call as a statement: (f()) *)
}.
Definition strict : dialect := mkDialect false false false false.
Definition gopher : dialect := mkDialect true true true true.

Definition ptok := (Z * bytes * bool)%type.
Definition pty (t : ptok) : Z := fst (fst t).
Definition ptext (t : ptok) : bytes := snd (fst t).
Definition pnl (t : ptok) : bool := snd t.

Inductive perr :=
| PSyntax          (* unexpected token *)
| PAmbiguous.      (* "(" of call arguments on a new line *)

Inductive pres (A : Type) :=
| POk (a : A) (rest : list ptok)
| PErr (e : perr)
| POut.
Arguments POk {A} a rest.
Arguments PErr {A} e.
Arguments POut {A}.

Definition pbind {A B} (r : pres A) (k : A -> list ptok -> pres B) : pres B :=
  match r with POk a rest => k a rest | PErr e => PErr e | POut => POut end.

(* expect a token of type ty *)
Definition expect {A} (ty : Z) (toks : list ptok) (k : list ptok -> pres A) : pres A :=
  match toks with
  | t :: r => if pty t =? ty then k r else PErr PSyntax
  | [] => PErr PSyntax
  end.

(* expect a Name *)
Definition expect_name {A} (toks : list ptok) (k : bytes -> list ptok -> pres A) : pres A :=
  match toks with
  | t :: r => if pty t =? TIdent then k (ptext t) r else PErr PSyntax
  | [] => PErr PSyntax
  end.

Definition binop_of (t : ptok) : option binop :=
  let y := pty t in
  if y =? TOr then Some OpOr else if y =? TAnd then Some OpAnd
  else if y =? 60 then Some OpLt else if y =? 62 then Some OpGt
  else if y =? TLte then Some OpLe else if y =? TGte then Some OpGe
  else if y =? TNeq then Some OpNe else if y =? TEqeq then Some OpEq
  else if y =? T2Comma then Some OpConcat
  else if y =? 43 then Some OpAdd else if y =? 45 then Some OpSub
  else if y =? 42 then Some OpMul else if y =? 47 then Some OpDiv else if y =? 37 then Some OpMod
  else if y =? 94 then Some OpPow else None.

Definition unop_of (t : ptok) : option unop :=
  let y := pty t in
  if y =? 45 then Some OpNeg else if y =? TNot then Some OpNot else if y =? 35 then Some OpLen else None.

(* tokens that end a block *)
Definition block_follow (t : ptok) : bool :=
  let y := pty t in (y =? TEnd) || (y =? TElse) || (y =? TElseIf) || (y =? TUntil).

Definition is_var (e : expr) : bool :=
  match e with EName _ | EIndex _ _ | EField _ _ => true | _ => false end.
Definition is_call (e : expr) : bool :=
  match e with ECall _ _ | EMethod _ _ _ => true | _ => false end.

(* optional ";" *)
Definition opt_semi (toks : list ptok) : bool * list ptok :=
  match toks with
  | t :: r => if pty t =? 59 then (true, r) else (false, toks)
  | [] => (false, toks)
  end.

(* Name { sep Name } *)
Fixpoint p_names (fuel : nat) (sep : Z) (toks : list ptok) : pres (list bytes) :=
  match fuel with
  | O => POut
  | S f =>
    expect_name toks (fun n r =>
      match r with
      | t :: r' => if pty t =? sep
                   then pbind (p_names f sep r') (fun ns rest => POk (n :: ns) rest)
                   else POk [n] r
      | [] => POk [n] r
      end)
  end.

(* parameter list after "(": [ Name {"," Name} ["," "..."] | "..." ] ")" *)
Fixpoint p_params (fuel : nat) (toks : list ptok) : pres (list bytes * bool) :=
  match fuel with
  | O => POut
  | S f =>
    match toks with
    | t :: r =>
      if pty t =? T3Comma then expect 41 r (fun rest => POk ([], true) rest)
      else if pty t =? TIdent then
        match r with
        | t2 :: r2 =>
          if pty t2 =? 44 then pbind (p_params f r2) (fun pv rest => POk (ptext t :: fst pv, snd pv) rest)
          else if pty t2 =? 41 then POk ([ptext t], false) r2
          else PErr PSyntax
        | [] => PErr PSyntax
        end
      else PErr PSyntax
    | [] => PErr PSyntax
    end
  end.

Fixpoint skip_seps (toks : list ptok) : list ptok :=
  match toks with
  | t :: r => if (pty t =? 44) || (pty t =? 59) then skip_seps r else toks
  | [] => []
  end.

Fixpoint skip_semis (toks : list ptok) : list ptok :=
  match toks with
  | t :: r => if pty t =? 59 then skip_semis r else toks
  | [] => []
  end.

Section WithDialect.
Variable d : dialect.

Fixpoint p_block (fuel : nat) (toks0 : list ptok) : pres block :=
  match fuel with
  | O => POut
  | S f =>
    let toks := if d_emptystat d then skip_semis toks0 else toks0 in
    match toks with
    | [] => POk BNil []
    | t :: r =>
      if block_follow t then POk BNil toks
      else if pty t =? TReturn then
        match r with
        | [] => POk (BLast (LReturn ELNil) false) []
        | t2 :: _ =>
          if block_follow t2 || (pty t2 =? 59)
          then let '(_, rest) := opt_semi r in POk (BLast (LReturn ELNil) false) rest
          else pbind (p_explist f r) (fun es r1 =>
                 let '(_, rest) := opt_semi r1 in POk (BLast (LReturn es) false) rest)
        end
      else if pty t =? TBreak then
        let '(_, rest) := opt_semi r in POk (BLast LBreak false) rest
      else
        pbind (p_stat f toks) (fun s r1 =>
          let '(_, r2) := opt_semi r1 in
          pbind (p_block f r2) (fun b rest => POk (BCons s false b) rest))
    end
  end

with p_stat (fuel : nat) (toks : list ptok) : pres stat :=
  match fuel with
  | O => POut
  | S f =>
    match toks with
    | [] => PErr PSyntax
    | t :: r =>
      let y := pty t in
      if y =? TIf then
        pbind (p_subexpr f 0 r) (fun c r1 => expect TThen r1 (fun r2 =>
        pbind (p_block f r2) (fun b r3 =>
        pbind (p_else f r3) (fun e rest => POk (SIf c b e) rest))))
      else if y =? TWhile then
        pbind (p_subexpr f 0 r) (fun c r1 => expect TDo r1 (fun r2 =>
        pbind (p_block f r2) (fun b r3 => expect TEnd r3 (fun rest => POk (SWhile c b) rest))))
      else if y =? TDo then
        pbind (p_block f r) (fun b r1 => expect TEnd r1 (fun rest => POk (SDo b) rest))
      else if y =? TFor then
        expect_name r (fun v r1 =>
          match r1 with
          | t1 :: r2 =>
            if pty t1 =? 61 then
              pbind (p_subexpr f 0 r2) (fun e1 r3 => expect 44 r3 (fun r4 =>
              pbind (p_subexpr f 0 r4) (fun e2 r5 =>
                match r5 with
                | t5 :: r6 =>
                  if pty t5 =? 44 then
                    pbind (p_subexpr f 0 r6) (fun e3 r7 => expect TDo r7 (fun r8 =>
                    pbind (p_block f r8) (fun b r9 => expect TEnd r9 (fun rest =>
                      POk (SFornum3 v e1 e2 e3 b) rest))))
                  else expect TDo r5 (fun r8 =>
                    pbind (p_block f r8) (fun b r9 => expect TEnd r9 (fun rest =>
                      POk (SFornum v e1 e2 b) rest)))
                | [] => PErr PSyntax
                end)))
            else
              pbind (p_names f 44 r) (fun ns r3 => expect TIn r3 (fun r4 =>
              pbind (p_explist f r4) (fun es r5 => expect TDo r5 (fun r6 =>
              pbind (p_block f r6) (fun b r7 => expect TEnd r7 (fun rest =>
                POk (SForin ns es b) rest))))))
          | [] => PErr PSyntax
          end)
      else if y =? TRepeat then
        pbind (p_block f r) (fun b r1 => expect TUntil r1 (fun r2 =>
        pbind (p_subexpr f 0 r2) (fun c rest => POk (SRepeat b c) rest)))
      else if y =? TFunction then
        pbind (p_names f 46 r) (fun path r1 =>
          match r1 with
          | t1 :: r2 =>
            if pty t1 =? 58 then
              expect_name r2 (fun m r3 =>
                pbind (p_funcbody f r3) (fun fb rest => POk (SFunction path (Some m) fb) rest))
            else pbind (p_funcbody f r1) (fun fb rest => POk (SFunction path None fb) rest)
          | [] => PErr PSyntax
          end)
      else if y =? TLocal then
        match r with
        | t1 :: r1 =>
          if pty t1 =? TFunction then
            expect_name r1 (fun n r2 =>
              pbind (p_funcbody f r2) (fun fb rest => POk (SLocalFunction n fb) rest))
          else
            pbind (p_names f 44 r) (fun ns r2 =>
              match r2 with
              | t2 :: r3 =>
                if pty t2 =? 61 then pbind (p_explist f r3) (fun es rest => POk (SLocal ns es) rest)
                else POk (SLocal ns ELNil) r2
              | [] => POk (SLocal ns ELNil) r2
              end)
        | [] => PErr PSyntax
        end
      else if y =? T2Colon then
        expect_name r (fun n r1 => expect T2Colon r1 (fun rest => POk (SLabel n) rest))
      else if y =? TGoto then
        expect_name r (fun n rest => POk (SGoto n) rest)
      else
        (* exprstat: a call, or the first target of an assignment *)
        pbind (p_suffixed f toks) (fun ep r1 =>
          let '(e, par) := ep in
          if is_call e && negb par then POk (SCall e) r1
          else if d_parencall d && par && (match e with EParen x => is_call x | _ => false end)
          then POk (SCall e) r1
          else if is_var e && negb par then
            pbind (p_targets f r1) (fun ts r2 => expect 61 r2 (fun r3 =>
            pbind (p_explist f r3) (fun es rest => POk (SAssign (ELCons e ts) es) rest)))
          else PErr PSyntax)
    end
  end

(* { "," suffixedexp } : the remaining targets of an assignment *)
with p_targets (fuel : nat) (toks : list ptok) : pres exprlist :=
  match fuel with
  | O => POut
  | S f =>
    match toks with
    | t :: r =>
      if pty t =? 44 then
        pbind (p_suffixed f r) (fun ep r1 =>
          let '(e, par) := ep in
          if is_var e && negb par
          then pbind (p_targets f r1) (fun ts rest => POk (ELCons e ts) rest)
          else PErr PSyntax)
      else POk ELNil toks
    | [] => POk ELNil toks
    end
  end

with p_else (fuel : nat) (toks : list ptok) : pres elsepart :=
  match fuel with
  | O => POut
  | S f =>
    match toks with
    | t :: r =>
      let y := pty t in
      if y =? TElseIf then
        pbind (p_subexpr f 0 r) (fun c r1 => expect TThen r1 (fun r2 =>
        pbind (p_block f r2) (fun b r3 =>
        pbind (p_else f r3) (fun e rest => POk (ElseIf c b e) rest))))
      else if y =? TElse then
        pbind (p_block f r) (fun b r1 => expect TEnd r1 (fun rest => POk (Else b) rest))
      else if y =? TEnd then POk ElseNone r
      else PErr PSyntax
    | [] => PErr PSyntax
    end
  end

(* funcbody: "(" parlist ")" block "end" *)
with p_funcbody (fuel : nat) (toks : list ptok) : pres funcbody :=
  match fuel with
  | O => POut
  | S f =>
    expect 40 toks (fun r =>
      match r with
      | t :: r1 =>
        let body ps va r2 :=
          pbind (p_block f r2) (fun b r3 => expect TEnd r3 (fun rest => POk (FBody ps va b) rest)) in
        if pty t =? 41 then body [] false r1
        else pbind (p_params f r) (fun pv r2 => body (fst pv) (snd pv) r2)
      | [] => PErr PSyntax
      end)
  end

(* explist1: expr { "," expr } *)
with p_explist (fuel : nat) (toks : list ptok) : pres exprlist :=
  match fuel with
  | O => POut
  | S f =>
    pbind (p_subexpr f 0 toks) (fun e r =>
      match r with
      | t :: r1 =>
        if pty t =? 44 then pbind (p_explist f r1) (fun es rest => POk (ELCons e es) rest)
        else POk (ELCons e ELNil) r
      | [] => POk (ELCons e ELNil) r
      end)
  end

(* subexpr: (simpleexp | unop subexpr) { binop subexpr }, operators with left priority > limit *)
with p_subexpr (fuel : nat) (limit : Z) (toks : list ptok) : pres expr :=
  match fuel with
  | O => POut
  | S f =>
    match toks with
    | t :: r =>
      match unop_of t with
      | Some op => pbind (p_subexpr f unary_priority r) (fun e r1 => p_subloop f limit (EUn op e) r1)
      | None => pbind (p_simple f toks) (fun e r1 => p_subloop f limit e r1)
      end
    | [] => PErr PSyntax
    end
  end

with p_subloop (fuel : nat) (limit : Z) (e1 : expr) (toks : list ptok) : pres expr :=
  match fuel with
  | O => POut
  | S f =>
    match toks with
    | t :: r =>
      match binop_of t with
      | Some op =>
        if limit <? prio_left op
        then pbind (p_subexpr f (prio_right op) r) (fun e2 r1 => p_subloop f limit (EBin op e1 e2) r1)
        else POk e1 toks
      | None => POk e1 toks
      end
    | [] => POk e1 toks
    end
  end

(* simpleexp *)
with p_simple (fuel : nat) (toks : list ptok) : pres expr :=
  match fuel with
  | O => POut
  | S f =>
    match toks with
    | t :: r =>
      let y := pty t in
      if y =? TNumber then POk (ENumber (ptext t)) r
      else if y =? TString then POk (EString (ptext t)) r
      else if y =? TNil then POk ENil r
      else if y =? TTrue then POk ETrue r
      else if y =? TFalse then POk EFalse r
      else if y =? T3Comma then POk EVararg r
      else if y =? 123 then pbind (p_fields f r) (fun fs rest => POk (ETable fs) rest)
      else if y =? TFunction then pbind (p_funcbody f r) (fun fb rest => POk (EFunction fb) rest)
      else pbind (p_suffixed f toks) (fun ep rest => POk (fst ep) rest)
    | [] => PErr PSyntax
    end
  end

(* primaryexp: (Name | "(" expr ")") { suffix }; the flag says: nothing but a parenthesised
   expression (not a variable, not a call statement) *)
with p_suffixed (fuel : nat) (toks : list ptok) : pres (expr * bool) :=
  match fuel with
  | O => POut
  | S f =>
    match toks with
    | t :: r =>
      if pty t =? TIdent then p_sufloop f (EName (ptext t)) false r
      else if pty t =? 40 then
        pbind (p_subexpr f 0 r) (fun e r1 => expect 41 r1 (fun r2 => p_sufloop f (paren_wrap e) true r2))
      else PErr PSyntax
    | [] => PErr PSyntax
    end
  end

with p_sufloop (fuel : nat) (e : expr) (par : bool) (toks : list ptok) : pres (expr * bool) :=
  match fuel with
  | O => POut
  | S f =>
    match toks with
    | t :: r =>
      let y := pty t in
      if y =? 46 then expect_name r (fun n r1 => p_sufloop f (EField e n) false r1)
      else if y =? 91 then
        pbind (p_subexpr f 0 r) (fun k r1 => expect 93 r1 (fun r2 => p_sufloop f (EIndex e k) false r2))
      else if y =? 58 then
        expect_name r (fun n r1 => pbind (p_args f r1) (fun a r2 => p_sufloop f (EMethod e n a) false r2))
      else if (y =? 40) || (y =? TString) || (y =? 123) then
        pbind (p_args f toks) (fun a r1 => p_sufloop f (ECall e a) false r1)
      else POk (e, par) toks
    | [] => POk (e, par) toks
    end
  end

(* funcargs *)
with p_args (fuel : nat) (toks : list ptok) : pres args :=
  match fuel with
  | O => POut
  | S f =>
    match toks with
    | t :: r =>
      let y := pty t in
      if y =? 40 then
        if pnl t && negb (d_noamb d) then PErr PAmbiguous
        else
          match r with
          | t1 :: r1 =>
            if pty t1 =? 41 then POk (AList ELNil) r1
            else pbind (p_explist f r) (fun es r2 => expect 41 r2 (fun rest => POk (AList es) rest))
          | [] => PErr PSyntax
          end
      else if y =? TString then POk (AString (ptext t)) r
      else if y =? 123 then pbind (p_fields f r) (fun fs rest => POk (ATable fs) rest)
      else PErr PSyntax
    | [] => PErr PSyntax
    end
  end

(* table constructor after "{": { field sep } [field] "}" with sep = "," | ";" *)
with p_fields (fuel : nat) (toks : list ptok) : pres fieldlist :=
  match fuel with
  | O => POut
  | S f =>
    match toks with
    | t :: r =>
      if pty t =? 125 then POk FLNil r
      else
        pbind (p_field f toks) (fun fld r1 =>
          match r1 with
          | t1 :: r2 =>
            if (pty t1 =? 44) || (pty t1 =? 59)
            then pbind (p_fields f (if d_seps d then skip_seps r2 else r2))
                       (fun fs rest => POk (FLCons fld fs) rest)
            else if pty t1 =? 125 then POk (FLCons fld FLNil) r2
            else PErr PSyntax
          | [] => PErr PSyntax
          end)
    | [] => PErr PSyntax
    end
  end

(* field: "[" expr "]" "=" expr | Name "=" expr | expr *)
with p_field (fuel : nat) (toks : list ptok) : pres field :=
  match fuel with
  | O => POut
  | S f =>
    match toks with
    | t :: r =>
      if pty t =? 91 then
        pbind (p_subexpr f 0 r) (fun k r1 => expect 93 r1 (fun r2 => expect 61 r2 (fun r3 =>
        pbind (p_subexpr f 0 r3) (fun e rest => POk (FKey k e) rest))))
      else if (pty t =? TIdent) && (match r with t1 :: _ => pty t1 =? 61 | [] => false end) then
        pbind (p_subexpr f 0 (tl r)) (fun e rest => POk (FNamed (ptext t) e) rest)
      else pbind (p_subexpr f 0 toks) (fun e rest => POk (FPos e) rest)
    | [] => PErr PSyntax
    end
  end.

End WithDialect.

(* ---------- the whole chunk ---------- *)

Inductive parse_result :=
| ParseOk (b : block)
| ParseErr (e : perr)
| ParseOutOfFuel.

Definition parse_fuel (d : dialect) (fuel : nat) (toks : list ptok) : parse_result :=
  match p_block d fuel toks with
  | POk b [] => ParseOk b
  | POk _ (_ :: _) => ParseErr PSyntax       (* a stray "end", "else", "until", ... *)
  | PErr e => ParseErr e
  | POut => ParseOutOfFuel
  end.

(* every function call spends one unit of fuel; 32 per token + 32 suffice for every printed tree
   (ParserFacts) *)
Definition parse_d (d : dialect) (toks : list ptok) : parse_result :=
  parse_fuel d (32 * length toks + 32) toks.

(* Lua 5.1 *)
Definition parse (toks : list ptok) : parse_result := parse_d strict toks.

(* from the lexer's tokens: nl = the line differs from the previous token's line *)
Fixpoint ptoks_from (prev : Z) (l : list token) : list ptok :=
  match l with
  | [] => []
  | t :: r => (tk_type t, tk_text t, negb (tk_line t =? prev)) :: ptoks_from (tk_line t) r
  end.

Definition ptoks_of (l : list token) : list ptok :=
  match l with [] => [] | t :: _ => ptoks_from (tk_line t) l end.
