(* Abstract syntax of Lua 5.1 (+ goto / labels) for the reference parser of C08.
   The tree keeps two pieces of concrete syntax that Lua ignores, so that "they are ignored" can be
   stated: optional ";" after a statement (the `semi` flags) and parentheses (EParen around any
   expression).  `norm` removes both where they carry no meaning; parentheses around a function
   call or "..." stay, because they truncate the value list to one value.
   Numbers, strings and names are the token texts, uninterpreted.  No proofs in this file. *)
From GL Require Import Common.Bytes.
Open Scope Z_scope.

Inductive binop :=
| OpOr | OpAnd | OpLt | OpGt | OpLe | OpGe | OpNe | OpEq | OpConcat
| OpAdd | OpSub | OpMul | OpDiv | OpMod | OpPow.
Inductive unop := OpNeg | OpNot | OpLen.

Inductive expr :=
| ENil | ETrue | EFalse | EVararg
| ENumber (s : bytes)
| EString (s : bytes)
| EFunction (f : funcbody)
| ETable (fs : fieldlist)
| EBin (op : binop) (a b : expr)
| EUn (op : unop) (a : expr)
| EName (n : bytes)
| EIndex (p k : expr)                     (* p[k] *)
| EField (p : expr) (n : bytes)           (* p.n *)
| ECall (p : expr) (a : args)             (* p args *)
| EMethod (p : expr) (n : bytes) (a : args)   (* p:n args *)
| EParen (e : expr)
with args :=
| AList (es : exprlist)                   (* ( explist ) *)
| ATable (fs : fieldlist)                 (* { fields } *)
| AString (s : bytes)                     (* "string" *)
with exprlist := ELNil | ELCons (e : expr) (r : exprlist)
with fieldlist := FLNil | FLCons (f : field) (r : fieldlist)
with field :=
| FPos (e : expr)                         (* e *)
| FNamed (n : bytes) (e : expr)           (* n = e *)
| FKey (k e : expr)                       (* [k] = e *)
with funcbody := FBody (params : list bytes) (va : bool) (b : block)
with block :=
| BNil
| BLast (l : laststat) (semi : bool)      (* return / break: last statement of its block *)
| BCons (s : stat) (semi : bool) (r : block)
with laststat := LReturn (es : exprlist) | LBreak
with stat :=
| SAssign (targets es : exprlist)
| SCall (e : expr)
| SDo (b : block)
| SWhile (c : expr) (b : block)
| SRepeat (b : block) (c : expr)
| SIf (c : expr) (b : block) (e : elsepart)
| SFornum (v : bytes) (e1 e2 : expr) (b : block)
| SFornum3 (v : bytes) (e1 e2 e3 : expr) (b : block)
| SForin (names : list bytes) (es : exprlist) (b : block)
| SFunction (path : list bytes) (meth : option bytes) (f : funcbody)   (* function a.b.c:m body *)
| SLocalFunction (n : bytes) (f : funcbody)
| SLocal (names : list bytes) (es : exprlist)     (* es = ELNil: no "=" *)
| SGoto (n : bytes)
| SLabel (n : bytes)
with elsepart :=
| ElseNone
| ElseIf (c : expr) (b : block) (r : elsepart)
| Else (b : block).

(* an expression that may yield several values: parentheses around it change the meaning *)
Definition multi (e : expr) : bool :=
  match e with ECall _ _ | EMethod _ _ _ | EVararg => true | _ => false end.

(* what "( e )" means *)
Definition paren_wrap (e : expr) : expr := if multi e then EParen e else e.

(* ---------- normal form: no optional semicolons, no meaningless parentheses ---------- *)

Fixpoint norm_e (e : expr) : expr :=
  match e with
  | ENil | ETrue | EFalse | EVararg | ENumber _ | EString _ | EName _ => e
  | EFunction f => EFunction (norm_fb f)
  | ETable fs => ETable (norm_fl fs)
  | EBin op a b => EBin op (norm_e a) (norm_e b)
  | EUn op a => EUn op (norm_e a)
  | EIndex p k => EIndex (norm_e p) (norm_e k)
  | EField p n => EField (norm_e p) n
  | ECall p a => ECall (norm_e p) (norm_a a)
  | EMethod p n a => EMethod (norm_e p) n (norm_a a)
  | EParen x => paren_wrap (norm_e x)
  end
with norm_a (a : args) : args :=
  match a with
  | AList es => AList (norm_el es)
  | ATable fs => ATable (norm_fl fs)
  | AString s => AString s
  end
with norm_el (l : exprlist) : exprlist :=
  match l with ELNil => ELNil | ELCons e r => ELCons (norm_e e) (norm_el r) end
with norm_fl (l : fieldlist) : fieldlist :=
  match l with FLNil => FLNil | FLCons f r => FLCons (norm_f f) (norm_fl r) end
with norm_f (f : field) : field :=
  match f with
  | FPos e => FPos (norm_e e)
  | FNamed n e => FNamed n (norm_e e)
  | FKey k e => FKey (norm_e k) (norm_e e)
  end
with norm_fb (f : funcbody) : funcbody :=
  match f with FBody ps va b => FBody ps va (norm_b b) end
with norm_b (b : block) : block :=
  match b with
  | BNil => BNil
  | BLast l _ => BLast (norm_l l) false
  | BCons s _ r => BCons (norm_s s) false (norm_b r)
  end
with norm_l (l : laststat) : laststat :=
  match l with LReturn es => LReturn (norm_el es) | LBreak => LBreak end
with norm_s (s : stat) : stat :=
  match s with
  | SAssign ts es => SAssign (norm_el ts) (norm_el es)
  | SCall e => SCall (norm_e e)
  | SDo b => SDo (norm_b b)
  | SWhile c b => SWhile (norm_e c) (norm_b b)
  | SRepeat b c => SRepeat (norm_b b) (norm_e c)
  | SIf c b e => SIf (norm_e c) (norm_b b) (norm_else e)
  | SFornum v e1 e2 b => SFornum v (norm_e e1) (norm_e e2) (norm_b b)
  | SFornum3 v e1 e2 e3 b => SFornum3 v (norm_e e1) (norm_e e2) (norm_e e3) (norm_b b)
  | SForin ns es b => SForin ns (norm_el es) (norm_b b)
  | SFunction p m f => SFunction p m (norm_fb f)
  | SLocalFunction n f => SLocalFunction n (norm_fb f)
  | SLocal ns es => SLocal ns (norm_el es)
  | SGoto n => SGoto n
  | SLabel n => SLabel n
  end
with norm_else (e : elsepart) : elsepart :=
  match e with
  | ElseNone => ElseNone
  | ElseIf c b r => ElseIf (norm_e c) (norm_b b) (norm_else r)
  | Else b => Else (norm_b b)
  end.

(* ---------- operator priorities (lparser.c, 5.1): left and right ---------- *)

Definition prio_left (op : binop) : Z :=
  match op with
  | OpOr => 1 | OpAnd => 2
  | OpLt | OpGt | OpLe | OpGe | OpNe | OpEq => 3
  | OpConcat => 5
  | OpAdd | OpSub => 6
  | OpMul | OpDiv | OpMod => 7
  | OpPow => 10
  end.

Definition prio_right (op : binop) : Z :=
  match op with
  | OpOr => 1 | OpAnd => 2
  | OpLt | OpGt | OpLe | OpGe | OpNe | OpEq => 3
  | OpConcat => 4
  | OpAdd | OpSub => 6
  | OpMul | OpDiv | OpMod => 7
  | OpPow => 9
  end.

Definition unary_priority : Z := 8.
