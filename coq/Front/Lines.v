(* Reference line counting (Lua 5.1 llex.c, inclinenumber): each of "\n", "\r", "\r\n", "\n\r"
   is ONE line end; pairing is greedy from the left ("\n\n" and "\r\r" are two line ends).
   This file is a specification: it does not look at the scanner.  No proofs here. *)
From GL Require Import Common.Bytes.
Open Scope Z_scope.

Definition is_nl (c : Z) : bool := (c =? 10) || (c =? 13).

(* Left-to-right counter.  State = (line ends seen so far, pending): pending = Some c when the
   last byte read was a newline character c that opened a new line end and may still be
   completed to a two-byte line end by the OTHER newline character. *)
Definition nl_state := (Z * option Z)%type.

Definition nl_step (s : nl_state) (b : Z) : nl_state :=
  let '(n, pend) := s in
  if is_nl b then
    match pend with
    | Some c => if b =? c then (n + 1, Some b) else (n, None)   (* completes the pair: same line end *)
    | None => (n + 1, Some b)
    end
  else (n, None).

Definition nl_scan (s : bytes) : nl_state := fold_left nl_step s (0, None).

(* number of line ends in s *)
Definition count_nl (s : bytes) : Z := fst (nl_scan s).

(* 1-based line of the byte at 0-based offset off of bs: 1 + line ends in bs[0, off) *)
Definition line_of_offset (bs : bytes) (off : Z) : Z :=
  1 + count_nl (firstn (Z.to_nat off) bs).
