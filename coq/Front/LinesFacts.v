(* The line a token is stamped with = the reference line (Lines.line_of_offset) of the offset
   of its first byte.  Invariant on scanner states + preservation by Next. *)
From GL Require Import Common.Bytes Common.BytesFacts Front.Lines Front.Lexer Front.LexerFacts.
From Coq Require Import Lia ZifyBool.
Open Scope Z_scope.

(* pending first half of a possible two-byte line end vs what comes next *)
Definition pend_ok (pend : option Z) (rs : bytes) : Prop :=
  match pend, rs with
  | Some c, d :: _ => (is_nl d && negb (d =? c)) = false
  | _, _ => True
  end.

(* p = the bytes consumed so far *)
Definition linv (bs : bytes) (st : state) : Prop :=
  exists p, bs = p ++ rest st /\ off st = len p /\
    ((line st = -1 /\ rest st = []) \/
     (line st = 1 + fst (nl_scan p) /\ pend_ok (snd (nl_scan p)) (rest st))).

Lemma nl_scan_app p q : nl_scan (p ++ q) = fold_left nl_step q (nl_scan p).
Proof. unfold nl_scan. apply fold_left_app. Qed.

Lemma linv_init bs : linv bs (init_state bs).
Proof.
  exists []. simpl. split; [reflexivity|]. split; [reflexivity|].
  right. split; [reflexivity|]. simpl. destruct bs; exact I.
Qed.

Lemma is_bytes_app a b : is_bytes (a ++ b) = true -> is_bytes b = true.
Proof. unfold is_bytes. rewrite forallb_app. intros H. apply andb_true_iff in H. tauto. Qed.

Lemma nl_step_plain n pend c : is_nl c = false -> nl_step (n, pend) c = (n, None).
Proof. unfold nl_step. intros ->. reflexivity. Qed.

Lemma nl_step_nl n pend c rs :
  is_nl c = true -> pend_ok pend (c :: rs) -> nl_step (n, pend) c = (n + 1, Some c).
Proof.
  unfold nl_step, pend_ok. intros ->. destruct pend as [c0|]; auto.
  intros H. destruct (c =? c0) eqn:E; auto. simpl in H. discriminate.
Qed.

Lemma nl_step_pair n c d : is_nl d = true -> d <> c -> nl_step (n, Some c) d = (n, None).
Proof. unfold nl_step. intros -> H. replace (d =? c) with false by lia. reflexivity. Qed.

Lemma len_snoc {A} (p : list A) x : len (p ++ [x]) = len p + 1.
Proof. rewrite len_app. unfold len at 2. simpl. lia. Qed.

Lemma linv_next bs st :
  is_bytes bs = true -> linv bs st -> linv bs (snd (next st)).
Proof.
  intros Hb (p & Hp & Ho & Hl).
  assert (Hbr : is_bytes (rest st) = true) by (rewrite Hp in Hb; eapply is_bytes_app; eauto).
  destruct (next_cases st) as [[H1 H2]|[(c&r&H1&Hn&Hc&H2)|[(c&d&r&H1&Hn1&Hn2&Hd&H2)|[(c&r&H1&Hn&Hr&H2)|(r&H1&H2)]]]];
    rewrite H2; cbn [snd].
  - (* EOF *) exists p. cbn [rest line off]. rewrite H1 in Hp. split; auto.
  - (* ordinary byte *)
    exists (p ++ [c]). cbn [rest line off]. rewrite H1 in Hp. split; [rewrite <- app_assoc; exact Hp|].
    split; [rewrite len_snoc; lia|].
    destruct Hl as [[Hl1 Hl2]|[Hl1 Hl2]]; [rewrite H1 in Hl2; discriminate|].
    right. rewrite nl_scan_app. cbn [fold_left]. destruct (nl_scan p) as [n pend].
    rewrite nl_step_plain by auto. cbn [fst snd] in *. split; auto; try exact I.
  - (* two-byte line end *)
    exists (p ++ [c; d]). cbn [rest line off]. rewrite H1 in Hp. split; [rewrite <- app_assoc; exact Hp|].
    split; [rewrite len_app; unfold len at 2; simpl length; lia|].
    destruct Hl as [[Hl1 Hl2]|[Hl1 Hl2]]; [rewrite H1 in Hl2; discriminate|].
    right. rewrite nl_scan_app. cbn [fold_left]. destruct (nl_scan p) as [n pend].
    rewrite H1 in Hl2. cbn [fst snd] in *.
    rewrite (nl_step_nl n pend c (d :: r)) by auto.
    rewrite nl_step_pair by auto. cbn [fst snd]. split; [lia|]; try exact I.
  - (* one-byte line end *)
    exists (p ++ [c]). cbn [rest line off]. rewrite H1 in Hp. split; [rewrite <- app_assoc; exact Hp|].
    split; [rewrite len_snoc; lia|].
    destruct Hl as [[Hl1 Hl2]|[Hl1 Hl2]]; [rewrite H1 in Hl2; discriminate|].
    right. rewrite nl_scan_app. cbn [fold_left]. destruct (nl_scan p) as [n pend].
    rewrite H1 in Hl2. cbn [fst snd] in *.
    rewrite (nl_step_nl n pend c r) by auto. cbn [fst snd]. split; [lia|].
    destruct r as [|d r']; [exact I|]. cbn [pend_ok].
    destruct (is_nl d && negb (d =? c)); auto; discriminate.
  - (* a -1 in the input: excluded by is_bytes *)
    rewrite H1 in Hbr. simpl in Hbr. discriminate.
Qed.

Lemma linv_steps bs a b : is_bytes bs = true -> steps a b -> linv bs a -> linv bs b.
Proof. intros Hb. induction 1; auto. intros. apply IHsteps. apply linv_next; auto. Qed.

Lemma line_of_offset_prefix p q : line_of_offset (p ++ q) (len p) = 1 + count_nl p.
Proof.
  unfold line_of_offset, len. rewrite Nat2Z.id.
  rewrite firstn_app, Nat.sub_diag, firstn_all. simpl. rewrite app_nil_r. reflexivity.
Qed.

(* the position stamped on a token *)
Lemma tokpos_line bs st t :
  is_bytes bs = true -> linv bs st -> tokpos st t ->
  tk_line t = line_of_offset bs (tk_off t) /\ 0 <= tk_off t < len bs.
Proof.
  intros Hb Hi (stX & st1 & ch & SX & NX & Hc1 & Hc10 & Hl & Ho).
  pose proof (linv_steps bs _ _ Hb SX Hi) as (p & Hp & Hoff & Hline).
  destruct (next_cases stX) as [[H1 H2]|[(c&r&H1&Hn&Hc&H2)|[(c&d&r&H1&Hn1&Hn2&Hd&H2)|[(c&r&H1&Hn&Hr&H2)|(r&H1&H2)]]]];
    rewrite H2 in NX; inversion NX; subst ch st1; try congruence.
  cbn [line off] in Hl, Ho.
  destruct Hline as [[_ He]|[Hline _]]; [congruence|].
  assert (Eo : tk_off t = len p) by lia. rewrite Hl, Eo.
  rewrite Hp, line_of_offset_prefix. split; [exact Hline|].
  rewrite len_app, H1. pose proof (len_nonneg p). pose proof (len_nonneg r).
  assert (len (c :: r) = 1 + len r) by (unfold len; simpl length; lia). lia.
Qed.

(* ---------- the whole token list ---------- *)

Lemma lex_fuel_lines bs fuel st :
  is_bytes bs = true -> linv bs st -> (rlen st < fuel)%nat ->
  forall toks, (lex_fuel fuel st = LexOk toks \/ exists e, lex_fuel fuel st = LexErr toks e) ->
  Forall (fun t => tk_line t = line_of_offset bs (tk_off t) /\ 0 <= tk_off t < len bs) toks.
Proof.
  intros Hb. revert st. induction fuel as [|f IH]; intros st Hi Hf toks Hr; [lia|].
  cbn [lex_fuel] in Hr. pose proof (scan_fine (S f) st Hf) as H.
  destruct (scan (S f) st) as [t st'|st'|e|]; simpl in H.
  - destruct H as (S & L & TP).
    assert (Hi' : linv bs st') by (eapply linv_steps; eauto).
    specialize (IH st' Hi' ltac:(lia)).
    destruct (lex_fuel f st') as [l|l e|]; simpl in Hr.
    + destruct Hr as [Hr|[e Hr]]; [|discriminate]. inversion Hr; subst.
      constructor; [exact (tokpos_line bs st t Hb Hi TP)|]. apply IH. left; reflexivity.
    + destruct Hr as [Hr|[e' Hr]]; [discriminate|]. inversion Hr; subst.
      constructor; [exact (tokpos_line bs st t Hb Hi TP)|]. apply IH. right; eauto.
    + destruct Hr as [Hr|[e' Hr]]; discriminate.
  - destruct Hr as [Hr|[e' Hr]]; [|discriminate]. inversion Hr. constructor.
  - destruct Hr as [Hr|[e' Hr]]; [discriminate|]. inversion Hr. constructor.
  - contradiction.
Qed.

(* headline *)
Lemma lexer_lines_correct_lemma bs toks :
  is_bytes bs = true ->
  (lex bs = LexOk toks \/ exists e, lex bs = LexErr toks e) ->
  Forall (fun t => tk_line t = line_of_offset bs (tk_off t) /\ 0 <= tk_off t < len bs) toks.
Proof.
  intros Hb Hr. apply (lex_fuel_lines bs (S (length bs)) (init_state bs) Hb (linv_init bs)); auto.
Qed.
