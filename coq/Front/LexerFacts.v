(* Proofs about the scanner transcription: every loop terminates within the fuel it is given,
   one Scan consumes at least one byte, the whole input is lexed within fuel length+1. *)
From GL Require Import Common.Bytes Front.Lines Front.Lexer.
From Coq Require Import Lia ZifyBool.
Open Scope Z_scope.

(* ---------- next ---------- *)

(* states reachable by repeated Next *)
Inductive steps : state -> state -> Prop :=
| steps_refl : forall st, steps st st
| steps_next : forall st st', steps (snd (next st)) st' -> steps st st'.

Lemma steps_trans a b c : steps a b -> steps b c -> steps a c.
Proof. induction 1; intros; auto. apply steps_next; auto. Qed.

Lemma steps_one st : steps st (snd (next st)).
Proof. apply steps_next, steps_refl. Qed.

Definition rlen (st : state) : nat := length (rest st).

Lemma next_cases st :
  (rest st = [] /\ next st = (-1, mkSt [] (-1) (off st)))
  \/ (exists c r, rest st = c :: r /\ is_nl c = false /\ c <> -1 /\
        next st = (c, mkSt r (line st) (off st + 1)))
  \/ (exists c d r, rest st = c :: d :: r /\ is_nl c = true /\ is_nl d = true /\ d <> c /\
        next st = (10, mkSt r (line st + 1) (off st + 2)))
  \/ (exists c r, rest st = c :: r /\ is_nl c = true /\
        (match r with d :: _ => negb (is_nl d && negb (d =? c)) | [] => true end) = true /\
        next st = (10, mkSt r (line st + 1) (off st + 1)))
  \/ (exists r, rest st = (-1) :: r /\ next st = (-1, mkSt r (-1) (off st + 1))).
Proof.
  unfold next, read_next, newline, peek, is_nl. destruct st as [rs ln o]; simpl.
  destruct rs as [|c r]; [left; auto|right].
  destruct ((c =? 10) || (c =? 13)) eqn:Hnl.
  - assert (Hc: (c <? 0) = false) by lia. rewrite Hc. simpl.
    destruct r as [|d r'].
    + right; right; left. exists c, []. simpl. repeat split; auto.
      destruct ((c =? 10) && false || (c =? 13) && false); reflexivity.
    + destruct ((c =? 10) && (d =? 13) || (c =? 13) && (d =? 10)) eqn:Hp.
      * right; left. exists c, d, r'. simpl. repeat split; auto; try lia.
        f_equal. f_equal. lia.
      * right; right; left. exists c, (d :: r'). repeat split; auto. lia.
  - destruct (c =? -1) eqn:He.
    + right; right; right. exists r. assert (c = -1) by lia. subst. auto.
    + left. exists c, r. repeat split; auto. lia.
Qed.

Lemma next_rlen_le st : (rlen (snd (next st)) <= rlen st)%nat.
Proof.
  unfold rlen.
  destruct (next_cases st) as [[H1 H2]|[(c&r&H1&_&_&H2)|[(c&d&r&H1&_&_&_&H2)|[(c&r&H1&_&_&H2)|(r&H1&H2)]]]];
    rewrite H2, H1; simpl; lia.
Qed.

Lemma next_rlen_lt st : rest st <> [] -> (rlen (snd (next st)) < rlen st)%nat.
Proof.
  unfold rlen.
  destruct (next_cases st) as [[H1 H2]|[(c&r&H1&_&_&H2)|[(c&d&r&H1&_&_&_&H2)|[(c&r&H1&_&_&H2)|(r&H1&H2)]]]];
    rewrite H2, H1; simpl; intros; try lia. congruence.
Qed.

Lemma next_empty st : rest st = [] -> fst (next st) = -1 /\ rest (snd (next st)) = [].
Proof.
  intros H. destruct (next_cases st) as [[H1 H2]|[(c&r&H1&_)|[(c&d&r&H1&_)|[(c&r&H1&_)|(r&H1&_)]]]];
    try congruence. rewrite H2. auto.
Qed.

Lemma steps_rlen a b : steps a b -> (rlen b <= rlen a)%nat.
Proof. induction 1; auto. pose proof (next_rlen_le st). lia. Qed.

Lemma peek_nonneg_nonempty st : peek st <> -1 -> rest st <> [].
Proof. unfold peek. destruct (rest st); congruence. Qed.

(* ---------- results ---------- *)

(* r is not OutOfFuel, and an Ok state is reachable from st *)
Definition fine {A} (st : state) (r : res A) : Prop :=
  match r with Ok _ st' => steps st st' | Err _ => True | OutOfFuel => False end.

Lemma fine_bind {A B} st (r : res A) (k : A -> state -> res B) :
  fine st r -> (forall a st', steps st st' -> fine st' (k a st')) -> fine st (bind r k).
Proof.
  destruct r as [a st'| |]; simpl; intros H Hk; auto.
  specialize (Hk a st' H). destruct (k a st'); simpl in *; auto.
  eapply steps_trans; eauto.
Qed.

Lemma fine_steps {A} st st' (r : res A) : steps st st' -> fine st' r -> fine st r.
Proof. destruct r; simpl; auto. intros; eapply steps_trans; eauto. Qed.

(* ---------- the loops ---------- *)

Lemma in_mask_neg mask ch : ch < 0 -> in_mask mask ch = false.
Proof. unfold in_mask. intros. replace (0 <=? ch) with false by lia. reflexivity. Qed.

Lemma skip_ws_fine fuel mask st :
  (rlen st < fuel)%nat ->
  match skip_ws fuel mask st with
  | Ok ch st' => exists stX, steps st stX /\ next stX = (ch, st') /\ in_mask mask ch = false
  | Err _ => True
  | OutOfFuel => False
  end.
Proof.
  revert st. induction fuel as [|f IH]; intros st Hf; [lia|].
  simpl. destruct (next st) as [ch st1] eqn:Hn.
  assert (Hs: st1 = snd (next st)) by (rewrite Hn; reflexivity).
  destruct (in_mask mask ch) eqn:Hm.
  - assert (Hne: rest st <> []).
    { intro He. destruct (next_empty st He) as [H1 _]. rewrite Hn in H1. simpl in H1. subst ch.
      rewrite in_mask_neg in Hm by lia. discriminate. }
    pose proof (next_rlen_lt st Hne) as Hlt. rewrite <- Hs in Hlt.
    specialize (IH st1 ltac:(lia)).
    destruct (skip_ws f mask st1) as [c s'| |]; auto.
    destruct IH as (stX & I1 & I2 & I3). exists stX. split; auto.
    apply steps_next. rewrite <- Hs. exact I1.
  - exists st. split; [apply steps_refl|]. auto.
Qed.

Lemma take_while_fine fuel p st :
  p (-1) = false -> (rlen st < fuel)%nat -> fine st (take_while fuel p st).
Proof.
  intros Hp. revert st. induction fuel as [|f IH]; intros st Hf; [lia|].
  simpl. destruct (p (peek st)) eqn:Hpk; [|simpl; apply steps_refl].
  assert (Hne: rest st <> []). { apply peek_nonneg_nonempty. intro E. rewrite E, Hp in Hpk. discriminate. }
  destruct (next st) as [ch st1] eqn:Hn.
  assert (Hs: st1 = snd (next st)) by (rewrite Hn; reflexivity).
  pose proof (next_rlen_lt st Hne) as Hlt. rewrite <- Hs in Hlt.
  eapply fine_steps; [apply steps_next; rewrite <- Hs; apply steps_refl|].
  apply fine_bind; [apply IH; lia|]. intros; simpl. apply steps_refl.
Qed.

Lemma is_ident_eof pos : is_ident (-1) pos = false.
Proof. reflexivity. Qed.

Lemma scan_ident_fine fuel ch st : (rlen st < fuel)%nat -> fine st (scan_ident fuel ch st).
Proof.
  intros. unfold scan_ident. apply fine_bind.
  - apply take_while_fine; auto.
  - intros; simpl; apply steps_refl.
Qed.

Lemma scan_number_fine fuel ch st : (rlen st < fuel)%nat -> fine st (scan_number fuel ch st).
Proof.
  intros Hf. unfold scan_number.
  apply fine_bind; [apply take_while_fine; auto|].
  intros b1 st1 H1.
  assert (Hl1 := steps_rlen _ _ H1).
  destruct ((peek st1 =? 101) || (peek st1 =? 69)).
  - destruct (next st1) as [e st2] eqn:Hn2.
    assert (Hs2: st2 = snd (next st1)) by (rewrite Hn2; reflexivity).
    pose proof (next_rlen_le st1) as Hl2. rewrite <- Hs2 in Hl2.
    destruct ((peek st2 =? 45) || (peek st2 =? 43)).
    + destruct (next st2) as [sg st3] eqn:Hn3.
      assert (Hs3: st3 = snd (next st2)) by (rewrite Hn3; reflexivity).
      pose proof (next_rlen_le st2) as Hl3. rewrite <- Hs3 in Hl3.
      eapply fine_steps with (st' := st3).
      { apply steps_next. rewrite <- Hs2. apply steps_next. rewrite <- Hs3. apply steps_refl. }
      apply fine_bind; [apply take_while_fine; auto; lia|].
      intros. destruct (is_numeral _); simpl; auto. apply steps_refl.
    + eapply fine_steps with (st' := st2).
      { apply steps_next. rewrite <- Hs2. apply steps_refl. }
      apply fine_bind; [apply take_while_fine; auto; lia|].
      intros. destruct (is_numeral _); simpl; auto. apply steps_refl.
  - apply fine_bind; [apply take_while_fine; auto; lia|].
    intros. destruct (is_numeral _); simpl; auto. apply steps_refl.
Qed.

(* measure of a loop that holds the current character: nothing left once EOF has been read *)
Definition work (ch : Z) (st : state) : nat := if ch <? 0 then O else S (rlen st).

Lemma next_work st ch st1 : next st = (ch, st1) -> (work ch st1 <= rlen st)%nat.
Proof.
  intros Hn. unfold work.
  destruct (ch <? 0) eqn:E; [lia|].
  assert (Hne: rest st <> []).
  { intro He. destruct (next_empty st He) as [H1 _]. rewrite Hn in H1. simpl in H1. lia. }
  pose proof (next_rlen_lt st Hne) as Hlt. rewrite Hn in Hlt. simpl in Hlt. lia.
Qed.

Lemma next_not_13 st : fst (next st) <> 13.
Proof.
  destruct (next_cases st) as [[H1 H2]|[(c&r&H1&Hn&_&H2)|[(c&d&r&H1&_&_&_&H2)|[(c&r&H1&_&_&H2)|(r&H1&H2)]]]];
    rewrite H2; simpl; try lia. unfold is_nl in Hn. lia.
Qed.

Lemma next_steps st ch st1 : next st = (ch, st1) -> steps st st1.
Proof. intros H. replace st1 with (snd (next st)) by (rewrite H; reflexivity). apply steps_one. Qed.

Lemma scan_escape_steps st : fine st (scan_escape st).
Proof.
  unfold scan_escape, esc_decimal. destruct (next st) as [ch s1] eqn:Hn.
  pose proof (next_steps _ _ _ Hn) as H1.
  pose proof (next_not_13 st) as H13. rewrite Hn in H13. simpl in H13.
  repeat match goal with
  | |- fine _ (if ?c then _ else _) => destruct c eqn:?
  end; simpl; auto; try lia.
  - destruct (next s1) as [c2 s2] eqn:Hn2. pose proof (next_steps _ _ _ Hn2) as H2.
    destruct (is_dec (peek s2)).
    + destruct (next s2) as [c3 s3] eqn:Hn3. pose proof (next_steps _ _ _ Hn3) as H3.
      destruct (255 <? _); simpl; auto. eapply steps_trans; eauto. eapply steps_trans; eauto.
    + destruct (255 <? _); simpl; auto. eapply steps_trans; eauto.
Qed.

Lemma work_lt_fuel ch st f : (ch <? 0) = false -> (work ch st < S f)%nat -> (rlen st < f)%nat.
Proof. unfold work. intros ->. lia. Qed.

Lemma scan_string_loop_fine fuel quote ch st acc :
  (work ch st < fuel)%nat -> fine st (scan_string_loop fuel quote ch st acc).
Proof.
  revert ch st acc. induction fuel as [|f IH]; intros ch st acc Hw; [lia|].
  simpl. destruct (ch =? quote); [simpl; apply steps_refl|].
  destruct ((ch =? 10) || (ch =? 13) || (ch <? 0)) eqn:Ht; [simpl; auto|].
  assert (Hge: (ch <? 0) = false) by lia.
  pose proof (work_lt_fuel _ _ _ Hge Hw) as Hr.
  destruct (ch =? 92).
  - pose proof (scan_escape_steps st) as H1.
    destruct (scan_escape st) as [b st1| |] eqn:He; simpl in H1; auto.
    destruct (next st1) as [ch1 st2] eqn:Hn.
    pose proof (next_steps _ _ _ Hn) as H2.
    pose proof (next_work _ _ _ Hn) as Hw2.
    pose proof (steps_rlen _ _ H1).
    eapply fine_steps; [eapply steps_trans; eauto|]. apply IH. lia.
  - destruct (next st) as [ch1 st1] eqn:Hn.
    pose proof (next_steps _ _ _ Hn) as H2.
    pose proof (next_work _ _ _ Hn) as Hw2.
    eapply fine_steps; [eauto|]. apply IH. lia.
Qed.

Lemma scan_string_fine fuel quote st : (S (rlen st) < fuel)%nat -> fine st (scan_string fuel quote st).
Proof.
  intros Hf. unfold scan_string. destruct (next st) as [ch st1] eqn:Hn.
  pose proof (next_work _ _ _ Hn). eapply fine_steps; [eapply next_steps; eauto|].
  apply scan_string_loop_fine. lia.
Qed.

Lemma count_sep_fine fuel ch st n :
  (work ch st < fuel)%nat ->
  match count_sep fuel ch st n with
  | Ok (_, ch') st' => steps st st' /\ (work ch' st' <= work ch st)%nat
  | _ => False
  end.
Proof.
  revert ch st n. induction fuel as [|f IH]; intros ch st n Hw; [lia|].
  simpl. destruct (ch =? 61) eqn:E; [|split; [apply steps_refl|lia]].
  assert (Hge: (ch <? 0) = false) by lia.
  pose proof (work_lt_fuel _ _ _ Hge Hw) as Hr.
  destruct (next st) as [c st1] eqn:Hn.
  pose proof (next_steps _ _ _ Hn) as H2.
  pose proof (next_work _ _ _ Hn) as Hw2.
  specialize (IH c st1 (S n) ltac:(lia)).
  destruct (count_sep f c st1 (S n)) as [[k ch'] st'| |]; auto.
  destruct IH as [I1 I2]. split; [eapply steps_trans; eauto|].
  unfold work at 2. rewrite Hge. lia.
Qed.

Lemma ml_loop_fine fuel count1 ch st acc :
  (work ch st < fuel)%nat -> fine st (ml_loop fuel count1 ch st acc).
Proof.
  revert ch st acc. induction fuel as [|f IH]; intros ch st acc Hw; [lia|].
  simpl. destruct (ch <? 0) eqn:Hge; [simpl; auto|].
  pose proof (work_lt_fuel _ _ _ Hge Hw) as Hr.
  destruct (ch =? 93).
  - destruct (next st) as [c0 st0] eqn:Hn.
    pose proof (next_steps _ _ _ Hn) as H2.
    pose proof (next_work _ _ _ Hn) as Hw2.
    pose proof (count_sep_fine f c0 st0 O ltac:(lia)) as Hc.
    destruct (count_sep f c0 st0 O) as [[count2 ch2] st2| |]; try contradiction.
    destruct Hc as [C1 C2].
    destruct (Nat.eqb count1 count2 && (ch2 =? 93)).
    + simpl. eapply steps_trans; eauto.
    + eapply fine_steps; [eapply steps_trans; eauto|]. apply IH. lia.
  - destruct (next st) as [ch1 st1] eqn:Hn.
    pose proof (next_steps _ _ _ Hn) as H2.
    pose proof (next_work _ _ _ Hn) as Hw2.
    eapply fine_steps; [eauto|]. apply IH. lia.
Qed.

Lemma scan_ml_body_fine fuel count1 st :
  (S (rlen st) < fuel)%nat -> fine st (scan_ml_body fuel count1 st).
Proof.
  intros Hf. unfold scan_ml_body.
  destruct (next st) as [ch st1] eqn:Hn.
  pose proof (next_steps _ _ _ Hn) as H1. pose proof (next_work _ _ _ Hn) as Hw1.
  destruct ((ch =? 10) || (ch =? 13)).
  - destruct (next st1) as [ch2 st2] eqn:Hn2.
    pose proof (next_steps _ _ _ Hn2) as H2. pose proof (next_work _ _ _ Hn2) as Hw2.
    pose proof (steps_rlen _ _ H1).
    eapply fine_steps; [eapply steps_trans; eauto|]. apply ml_loop_fine. lia.
  - eapply fine_steps; [eauto|]. apply ml_loop_fine. lia.
Qed.

Lemma scan_multiline_fine fuel ch st :
  (S (rlen st) < fuel)%nat -> fine st (scan_multiline fuel ch st).
Proof.
  intros Hf. unfold scan_multiline.
  assert (Hw: (work ch st < fuel)%nat) by (unfold work; destruct (ch <? 0); lia).
  pose proof (count_sep_fine fuel ch st O Hw) as Hc.
  destruct (count_sep fuel ch st O) as [[count1 ch1] st1| |]; try contradiction.
  destruct Hc as [C1 C2]. simpl.
  destruct (negb (ch1 =? 91)); [simpl; auto|].
  pose proof (steps_rlen _ _ C1).
  eapply fine_steps; [eauto|]. apply scan_ml_body_fine. lia.
Qed.

Lemma comment_line_loop_fine fuel ch st :
  (work ch st < fuel)%nat -> fine st (comment_line_loop fuel ch st).
Proof.
  revert ch st. induction fuel as [|f IH]; intros ch st Hw; [lia|].
  simpl. destruct ((ch =? 10) || (ch =? 13) || (ch <? 0)) eqn:Ht; [simpl; apply steps_refl|].
  assert (Hge: (ch <? 0) = false) by lia.
  pose proof (work_lt_fuel _ _ _ Hge Hw) as Hr.
  destruct (next st) as [c st1] eqn:Hn.
  pose proof (next_steps _ _ _ Hn) as H2.
  pose proof (next_work _ _ _ Hn) as Hw2.
  eapply fine_steps; [eauto|]. apply IH. lia.
Qed.

Lemma work_le ch st : (work ch st <= S (rlen st))%nat.
Proof. unfold work. destruct (ch <? 0); lia. Qed.

Lemma skip_comments_fine fuel ch st :
  (S (rlen st) < fuel)%nat -> fine st (skip_comments fuel ch st).
Proof.
  intros Hf. unfold skip_comments.
  destruct (peek st =? 91).
  - destruct (next st) as [ch1 st1] eqn:Hn.
    pose proof (next_steps _ _ _ Hn) as H1. pose proof (next_rlen_le st) as L1.
    rewrite Hn in L1; simpl in L1.
    destruct ((peek st1 =? 91) || (peek st1 =? 61)).
    + destruct (next st1) as [c0 st2] eqn:Hn2.
      pose proof (next_steps _ _ _ Hn2) as H2. pose proof (next_rlen_le st1) as L2.
      rewrite Hn2 in L2; simpl in L2.
      pose proof (work_le c0 st2).
      pose proof (count_sep_fine fuel c0 st2 O ltac:(lia)) as Hc.
      destruct (count_sep fuel c0 st2 O) as [[count ch2] st3| |]; try contradiction.
      destruct Hc as [C1 C2]. pose proof (steps_rlen _ _ C1).
      assert (S3: steps st st3) by (eapply steps_trans; [eauto|eapply steps_trans; eauto]).
      destruct (ch2 =? 91).
      * pose proof (scan_ml_body_fine fuel count st3 ltac:(lia)) as Hb.
        destruct (scan_ml_body fuel count st3); simpl in *; auto.
        eapply steps_trans; eauto.
      * eapply fine_steps; [eauto|]. apply comment_line_loop_fine. lia.
    + eapply fine_steps; [eauto|]. apply comment_line_loop_fine.
      pose proof (work_le ch1 st1). lia.
  - apply comment_line_loop_fine. pose proof (work_le ch st). lia.
Qed.

(* ---------- one Scan ---------- *)

(* where a token starts: it is stamped with the line/offset reached after reading its first
   character, which is neither EOF nor a line end *)
Definition tokpos (st : state) (t : token) : Prop :=
  exists stX st1 ch, steps st stX /\ next stX = (ch, st1) /\ ch <> -1 /\ ch <> 10 /\
                     tk_line t = line st1 /\ tk_off t = off st1 - 1.

Lemma tokpos_steps st st3 t : steps st st3 -> tokpos st3 t -> tokpos st t.
Proof.
  intros S (stX & st1 & ch & H1 & H2). exists stX, st1, ch. split; auto. eapply steps_trans; eauto.
Qed.

(* a delivered token has consumed at least one byte; OutOfFuel does not happen *)
Definition scan_post (st : state) (r : scanres) : Prop :=
  match r with
  | STok t st' => steps st st' /\ (rlen st' < rlen st)%nat /\ tokpos st t
  | SEof st' => steps st st'
  | SErr _ => True
  | SOutOfFuel => False
  end.

Lemma lift_tok_post {A} st0 st1 (r : res A) k :
  fine st1 r ->
  (forall a st', steps st1 st' -> scan_post st0 (k a st')) ->
  scan_post st0 (lift_tok r k).
Proof. destruct r; simpl; auto. Qed.

Lemma in_ws2_10 : in_mask whitespace2 10 = true.
Proof. reflexivity. Qed.

Lemma scan_body_post fuel redo st :
  (rlen st < fuel)%nat ->
  (forall st3, (S (rlen st3) < rlen st)%nat -> steps st st3 -> scan_post st3 (redo st3)) ->
  scan_post st (scan_body fuel redo st).
Proof.
  intros Hf Hredo. unfold scan_body, scan_tok.
  pose proof (skip_ws_fine fuel whitespace1 st Hf) as H0.
  destruct (skip_ws fuel whitespace1 st) as [ch0 st0| |]; cbn [lift_tok scan_post]; auto.
  destruct H0 as (sX0 & S0 & N0 & M0).
  pose proof (next_steps _ _ _ N0) as S0'.
  assert (S00 : steps st st0) by (eapply steps_trans; eauto).
  pose proof (steps_rlen _ _ S00) as L0.
  (* second whitespace pass *)
  assert (H1 : match (if (ch0 =? 10) || (ch0 =? 13) then skip_ws fuel whitespace2 st0 else Ok ch0 st0) with
               | Ok ch st1 => exists stX, steps st stX /\ next stX = (ch, st1) /\ ch <> 10
               | Err _ => True
               | OutOfFuel => False
               end).
  { destruct ((ch0 =? 10) || (ch0 =? 13)) eqn:Hnl.
    - pose proof (skip_ws_fine fuel whitespace2 st0 ltac:(lia)) as H1.
      destruct (skip_ws fuel whitespace2 st0) as [ch st1| |]; auto.
      destruct H1 as (sX1 & S1 & N1 & M1). exists sX1. split; [eapply steps_trans; eauto|].
      split; auto. intro; subst. rewrite in_ws2_10 in M1. discriminate.
    - exists sX0. split; auto. split; auto. lia. }
  destruct (if (ch0 =? 10) || (ch0 =? 13) then skip_ws fuel whitespace2 st0 else Ok ch0 st0) as [ch st1| |];
    cbn [lift_tok scan_post]; auto.
  destruct H1 as (stX & SX & NX & Hn10). cbv zeta.
  pose proof (next_steps _ _ _ NX) as SX1.
  assert (S1 : steps st st1) by (eapply steps_trans; eauto).
  pose proof (steps_rlen _ _ S1) as L1'. pose proof (steps_rlen _ _ SX) as LX.
  (* when a token is delivered ch <> -1, hence at least one byte was consumed *)
  assert (Hlt : ch <> -1 -> (rlen st1 < rlen st)%nat).
  { intros Hc. assert (Hne : rest stX <> []).
    { intro He. destruct (next_empty stX He) as [H1 _]. rewrite NX in H1. simpl in H1. auto. }
    pose proof (next_rlen_lt stX Hne) as Hl. rewrite NX in Hl. simpl in Hl. lia. }
  assert (TOK : forall ty text st', ch <> -1 -> steps st1 st' ->
                scan_post st (STok (mkTok ty text (line st1) (off st1 - 1)) st')).
  { intros ty text st' Hc S'. simpl. split; [eapply steps_trans; eauto|].
    pose proof (steps_rlen _ _ S'). specialize (Hlt Hc). split; [lia|].
    exists stX, st1, ch. repeat split; auto. }
  assert (NXT : forall ty text, ch <> -1 ->
                scan_post st (STok (mkTok ty text (line st1) (off st1 - 1)) (snd (next st1)))).
  { intros. apply TOK; auto. apply steps_one. }
  destruct (is_ident ch 0) eqn:Hid.
  { assert (ch <> -1) by (intro; subst; discriminate).
    eapply lift_tok_post; [apply scan_ident_fine; lia|].
    intros s st2 S2. destruct (lookup_word reserved_words s); apply TOK; auto. }
  destruct (is_dec ch) eqn:Hdec.
  { assert (ch <> -1) by (intro; subst; discriminate).
    eapply lift_tok_post; [apply scan_number_fine; lia|]. intros; apply TOK; auto. }
  destruct (ch =? -1) eqn:Heof; [simpl; exact S1|].
  assert (Hc : ch <> -1) by lia. specialize (Hlt Hc).
  destruct (ch =? 45).
  { destruct (peek st1 =? 45) eqn:Hp; [|apply TOK; auto; apply steps_refl].
    destruct (next st1) as [c st2] eqn:Hn.
    pose proof (next_steps _ _ _ Hn) as S2.
    assert (Hne : rest st1 <> []) by (apply peek_nonneg_nonempty; lia).
    pose proof (next_rlen_lt st1 Hne) as L2. rewrite Hn in L2; simpl in L2.
    eapply lift_tok_post; [apply skip_comments_fine; lia|].
    intros _ st3 S3. pose proof (steps_rlen _ _ S3).
    assert (S03 : steps st st3) by (eapply steps_trans; [exact S1|eapply steps_trans; eauto]).
    specialize (Hredo st3 ltac:(lia) S03).
    destruct (redo st3) as [t st'|st'| |]; simpl in *; auto.
    - destruct Hredo as (R1 & R2 & R3). split; [eapply steps_trans; eauto|]. split; [lia|].
      eapply tokpos_steps; eauto.
    - eapply steps_trans; eauto. }
  destruct ((ch =? 34) || (ch =? 39)).
  { eapply lift_tok_post; [apply scan_string_fine; lia|]. intros; apply TOK; auto. }
  destruct (ch =? 91).
  { destruct ((peek st1 =? 91) || (peek st1 =? 61)) eqn:Hp; [|apply TOK; auto; apply steps_refl].
    destruct (next st1) as [c st2] eqn:Hn.
    pose proof (next_steps _ _ _ Hn) as S2.
    assert (Hne : rest st1 <> []) by (apply peek_nonneg_nonempty; lia).
    pose proof (next_rlen_lt st1 Hne) as L2. rewrite Hn in L2; simpl in L2.
    eapply lift_tok_post; [apply scan_multiline_fine; lia|].
    intros s st3 S3. apply TOK; auto. eapply steps_trans; eauto. }
  destruct (ch =? 61). { destruct (peek st1 =? 61); [apply NXT|apply TOK]; auto; apply steps_refl. }
  destruct (ch =? 126). { destruct (peek st1 =? 61); [apply NXT; auto|simpl; auto]. }
  destruct (ch =? 60). { destruct (peek st1 =? 61); [apply NXT|apply TOK]; auto; apply steps_refl. }
  destruct (ch =? 62). { destruct (peek st1 =? 61); [apply NXT|apply TOK]; auto; apply steps_refl. }
  destruct (ch =? 46).
  { destruct (is_dec (peek st1)).
    { eapply lift_tok_post; [apply scan_number_fine; lia|]. intros; apply TOK; auto. }
    destruct (peek st1 =? 46); [|apply TOK; auto; apply steps_refl].
    destruct (next st1) as [c2 st2] eqn:Hn. pose proof (next_steps _ _ _ Hn) as S2.
    destruct (peek st2 =? 46); [|apply TOK; auto].
    destruct (next st2) as [c3 st3] eqn:Hn3. pose proof (next_steps _ _ _ Hn3) as S3.
    apply TOK; auto. eapply steps_trans; eauto. }
  destruct (ch =? 58). { destruct (peek st1 =? 58); [apply NXT|apply TOK]; auto; apply steps_refl. }
  destruct (is_single ch); [apply TOK; auto; apply steps_refl|simpl; auto].
Qed.

Lemma scan_fine fuel st : (rlen st < fuel)%nat -> scan_post st (scan fuel st).
Proof.
  revert st. induction fuel as [|f IH]; intros st Hf; [lia|].
  simpl. apply scan_body_post; auto.
  intros st3 Hl _. apply (IH st3). lia.
Qed.

(* ---------- headline: progress and termination ---------- *)

(* bytes consumed are accounted for by the ghost offset *)
Lemma next_off st : off (snd (next st)) + Z.of_nat (rlen (snd (next st))) = off st + Z.of_nat (rlen st).
Proof.
  unfold rlen.
  destruct (next_cases st) as [[H1 H2]|[(c&r&H1&_&_&H2)|[(c&d&r&H1&_&_&_&H2)|[(c&r&H1&_&_&H2)|(r&H1&H2)]]]];
    rewrite H2, H1; simpl length; simpl off; lia.
Qed.

Lemma steps_off a b : steps a b -> off b + Z.of_nat (rlen b) = off a + Z.of_nat (rlen a).
Proof. induction 1; auto. rewrite IHsteps. apply next_off. Qed.

(* every Scan step consumes at least one byte or returns EOF / an error; never OutOfFuel *)
Lemma lex_progress_lemma fuel st :
  (length (rest st) < fuel)%nat ->
  match scan fuel st with
  | STok _ st' => (length (rest st') < length (rest st))%nat /\ off st < off st'
  | SEof _ => True
  | SErr _ => True
  | SOutOfFuel => False
  end.
Proof.
  intros Hf. pose proof (scan_fine fuel st Hf) as H.
  destruct (scan fuel st) as [t st'|st'|e|]; simpl in H; auto.
  destruct H as (S & L & _). split; [exact L|].
  pose proof (steps_off _ _ S). unfold rlen in *. lia.
Qed.

Lemma lex_cons_fuel t r : lex_cons t r = LexOutOfFuel -> r = LexOutOfFuel.
Proof. destruct r; simpl; congruence. Qed.

Lemma lex_fuel_terminates fuel st :
  (length (rest st) < fuel)%nat -> lex_fuel fuel st <> LexOutOfFuel.
Proof.
  revert st. induction fuel as [|f IH]; intros st Hf; [lia|].
  cbn [lex_fuel]. pose proof (lex_progress_lemma (S f) st Hf) as H.
  destruct (scan (S f) st) as [t st'|st'|e|]; try congruence; try contradiction.
  destruct H as [L _]. intros E. apply lex_cons_fuel in E. revert E. apply IH. lia.
Qed.

(* the fuel bound: length bs + 1 (what `lex` uses) or anything larger *)
Lemma lex_terminates_within_lemma bs fuel :
  (length bs < fuel)%nat -> lex_fuel fuel (init_state bs) <> LexOutOfFuel.
Proof. intros. apply lex_fuel_terminates. simpl. auto. Qed.

Lemma lex_total_classified_lemma bs :
  (exists toks, lex bs = LexOk toks) \/ (exists toks e, lex bs = LexErr toks e).
Proof.
  pose proof (lex_terminates_within_lemma bs (S (length bs)) ltac:(lia)) as H.
  unfold lex. destruct (lex_fuel (S (length bs)) (init_state bs)); [left|right|]; eauto. congruence.
Qed.
