(* The reference parser terminates on EVERY token list, in either dialect: with fuel
   8 * (number of tokens) + 8 no function runs out of fuel, and what a function leaves unread is
   never longer than what it was given. *)
From GL Require Import Common.Bytes Front.Lexer Front.Ast Front.Parser Front.Printer Front.ParserFacts.
From Coq Require Import Lia.
Open Scope Z_scope.

(* a result that is not POut and leaves at most n - s tokens *)
Definition okr {A} (s n : nat) (r : pres A) : Prop :=
  match r with
  | POk _ rest => (length rest + s <= n)%nat
  | PErr _ => True
  | POut => False
  end.

Lemma okr_weaken {A} s s' m n (r : pres A) : okr s m r -> (m + s' <= n + s)%nat -> okr s' n r.
Proof. destruct r; simpl; auto. lia. Qed.

Lemma okr_bind {A B} s m s' n (r : pres A) (k : A -> list ptok -> pres B) :
  okr s m r -> (forall a rest, (length rest + s <= m)%nat -> okr s' n (k a rest)) -> okr s' n (pbind r k).
Proof. destruct r; simpl; auto. Qed.

Lemma skip_semis_len l : (length (skip_semis l) <= length l)%nat.
Proof. induction l as [|t l IH]; simpl; auto. destruct (pty t =? 59); simpl; lia. Qed.

Lemma skip_seps_len l : (length (skip_seps l) <= length l)%nat.
Proof. induction l as [|t l IH]; simpl; auto. destruct ((pty t =? 44) || (pty t =? 59)); simpl; lia. Qed.

Lemma opt_semi_len l : (length (snd (opt_semi l)) <= length l)%nat.
Proof. destruct l as [|t l]; simpl; auto. destruct (pty t =? 59); simpl; lia. Qed.

Lemma names_ok sep : forall fuel toks, (length toks + 1 <= fuel)%nat -> okr 1 (length toks) (p_names fuel sep toks).
Proof.
  induction fuel as [|f IH]; intros toks Hf; [lia|]. cbn [p_names]. unfold expect_name.
  destruct toks as [|t r]; [exact I|]. destruct (pty t =? TIdent); [|exact I].
  destruct r as [|t2 r']; [simpl; lia|]. destruct (pty t2 =? sep); [|simpl; lia].
  eapply okr_bind; [apply IH; simpl in *; lia|]. intros a rest Hr. simpl in *. lia.
Qed.

Lemma params_ok : forall fuel toks, (length toks + 1 <= fuel)%nat -> okr 1 (length toks) (p_params fuel toks).
Proof.
  induction fuel as [|f IH]; intros toks Hf; [lia|]. cbn [p_params].
  destruct toks as [|t r]; [exact I|]. destruct (pty t =? T3Comma).
  - unfold expect. destruct r as [|t2 r']; [exact I|]. destruct (pty t2 =? 41); [simpl; lia|exact I].
  - destruct (pty t =? TIdent); [|exact I]. destruct r as [|t2 r']; [exact I|].
    destruct (pty t2 =? 44).
    + eapply okr_bind; [apply IH; simpl in *; lia|]. intros a rest Hr. simpl in *. lia.
    + destruct (pty t2 =? 41); [simpl; lia|exact I].
Qed.

Section Progress.
Variable d : dialect.

(* fuel each function needs for a token list of length n: 8 * n + its rank *)
Definition need (rank : nat) (toks : list ptok) (fuel : nat) : Prop := (8 * length toks + rank <= fuel)%nat.

Record PROG (f : nat) : Prop := {
  g_block   : forall toks, need 3 toks f -> okr 0 (length toks) (p_block d f toks);
  g_stat    : forall toks, need 2 toks f -> okr 1 (length toks) (p_stat d f toks);
  g_targets : forall toks, need 1 toks f -> okr 0 (length toks) (p_targets d f toks);
  g_else    : forall toks, need 1 toks f -> okr 1 (length toks) (p_else d f toks);
  g_funcbody: forall toks, need 1 toks f -> okr 1 (length toks) (p_funcbody d f toks);
  g_explist : forall toks, need 4 toks f -> okr 1 (length toks) (p_explist d f toks);
  g_subexpr : forall L toks, need 3 toks f -> okr 1 (length toks) (p_subexpr d f L toks);
  g_subloop : forall L e toks, need 1 toks f -> okr 0 (length toks) (p_subloop d f L e toks);
  g_simple  : forall toks, need 2 toks f -> okr 1 (length toks) (p_simple d f toks);
  g_suffixed: forall toks, need 1 toks f -> okr 1 (length toks) (p_suffixed d f toks);
  g_sufloop : forall e fl toks, need 2 toks f -> okr 0 (length toks) (p_sufloop d f e fl toks);
  g_args    : forall toks, need 1 toks f -> okr 1 (length toks) (p_args d f toks);
  g_fields  : forall toks, need 5 toks f -> okr 1 (length toks) (p_fields d f toks);
  g_field   : forall toks, need 4 toks f -> okr 1 (length toks) (p_field d f toks)
}.

(* one step of the case analysis *)
Ltac lenlia := unfold need in *; cbn [length] in *; lia.

Ltac call IH :=
  eapply okr_weaken; [apply IH; lenlia|lenlia].
Ltac callb IH := apply IH; lenlia.

Ltac crunch P :=
  repeat first
    [ exact I
    | progress cbv zeta
    | match goal with
      | |- okr _ _ (POk _ _) => cbn [okr]; lenlia
      | |- okr _ _ (PErr _) => exact I
      | |- okr _ _ (expect _ ?l _) => unfold expect; destruct l as [|? ?]
      | |- okr _ _ (expect_name ?l _) => unfold expect_name; destruct l as [|? ?]
      | |- okr _ _ (if ?c then _ else _) => destruct c
      | |- okr _ _ (match ?l with [] => _ | _ :: _ => _ end) => destruct l as [|? ?]
      | |- okr _ _ (match ?o with Some _ => _ | None => _ end) => destruct o
      | |- okr _ _ (let '(_, _) := ?p in _) => destruct p eqn:?
      | |- okr _ _ (pbind (p_block d _ _) _) => eapply okr_bind; [callb (g_block _ P)|intros ? ? ?]
      | |- okr _ _ (pbind (p_stat d _ _) _) => eapply okr_bind; [callb (g_stat _ P)|intros ? ? ?]
      | |- okr _ _ (pbind (p_targets d _ _) _) => eapply okr_bind; [callb (g_targets _ P)|intros ? ? ?]
      | |- okr _ _ (pbind (p_else d _ _) _) => eapply okr_bind; [callb (g_else _ P)|intros ? ? ?]
      | |- okr _ _ (pbind (p_funcbody d _ _) _) => eapply okr_bind; [callb (g_funcbody _ P)|intros ? ? ?]
      | |- okr _ _ (pbind (p_explist d _ _) _) => eapply okr_bind; [callb (g_explist _ P)|intros ? ? ?]
      | |- okr _ _ (pbind (p_subexpr d _ _ _) _) => eapply okr_bind; [callb (g_subexpr _ P)|intros ? ? ?]
      | |- okr _ _ (pbind (p_simple d _ _) _) => eapply okr_bind; [callb (g_simple _ P)|intros ? ? ?]
      | |- okr _ _ (pbind (p_suffixed d _ _) _) => eapply okr_bind; [callb (g_suffixed _ P)|intros [? ?] ? ?]
      | |- okr _ _ (pbind (p_args d _ _) _) => eapply okr_bind; [callb (g_args _ P)|intros ? ? ?]
      | |- okr _ _ (pbind (p_fields d _ _) _) => eapply okr_bind; [callb (g_fields _ P)|intros ? ? ?]
      | |- okr _ _ (pbind (p_field d _ _) _) => eapply okr_bind; [callb (g_field _ P)|intros ? ? ?]
      | |- okr _ _ (pbind (p_names _ _ _) _) =>
        eapply okr_bind; [apply names_ok; lenlia|intros ? ? ?]
      | |- okr _ _ (pbind (p_params _ _) _) =>
        eapply okr_bind; [apply params_ok; lenlia|intros ? ? ?]
      | |- okr _ _ (p_block d _ _) => call (g_block _ P)
      | |- okr _ _ (p_subloop d _ _ _ _) => call (g_subloop _ P)
      | |- okr _ _ (p_sufloop d _ _ _ _) => call (g_sufloop _ P)
      | |- okr _ _ (p_funcbody d _ _) => call (g_funcbody _ P)
      end ].

Lemma prog_all : forall f, PROG f.
Proof.
  induction f as [|f P].
  - constructor; intros; unfold need in *; lia.
  - constructor.
    + (* block *)
      intros toks Hn. rewrite p_block_eq. cbv zeta.
      pose proof (skip_semis_len toks) as Hsk.
      assert (Hl : (length (if d_emptystat d then skip_semis toks else toks) <= length toks)%nat)
        by (destruct (d_emptystat d); auto).
      destruct (if d_emptystat d then skip_semis toks else toks) as [|t r] eqn:E; [simpl; lia|].
      destruct (block_follow t); [cbn [okr]; lenlia|].
      destruct (pty t =? TReturn).
      * destruct r as [|t2 r2]; [cbn [okr]; lenlia|].
        destruct (block_follow t2 || (pty t2 =? 59)).
        -- pose proof (opt_semi_len (t2 :: r2)). destruct (opt_semi (t2 :: r2)) as [sm rest]. cbn [okr]. simpl in *. lia.
        -- eapply okr_bind; [callb (g_explist _ P)|]. intros es r1 Hr1.
           pose proof (opt_semi_len r1). destruct (opt_semi r1) as [sm rest]. cbn [okr]. simpl in *. lia.
      * destruct (pty t =? TBreak).
        -- pose proof (opt_semi_len r). destruct (opt_semi r) as [sm rest]. cbn [okr]. simpl in *. lia.
        -- eapply okr_bind; [callb (g_stat _ P)|]. intros s r1 Hr1.
           pose proof (opt_semi_len r1). destruct (opt_semi r1) as [sm r2]. simpl in H.
           eapply okr_bind; [callb (g_block _ P)|]. intros b rest Hb. cbn [okr]. simpl in *. lia.
    + (* stat *) intros toks Hn. rewrite p_stat_eq. crunch P.
    + (* targets *) intros toks Hn. rewrite p_targets_eq. crunch P.
    + (* else *) intros toks Hn. rewrite p_else_eq. crunch P.
    + (* funcbody *) intros toks Hn. rewrite p_funcbody_eq. crunch P.
    + (* explist *) intros toks Hn. rewrite p_explist_eq. crunch P.
    + (* subexpr *) intros L toks Hn. rewrite p_subexpr_eq. crunch P.
    + (* subloop *) intros L e toks Hn. rewrite p_subloop_eq. crunch P.
    + (* simple *) intros toks Hn. rewrite p_simple_eq. crunch P.
    + (* suffixed *) intros toks Hn. rewrite p_suffixed_eq. crunch P.
    + (* sufloop *) intros e fl toks Hn. rewrite p_sufloop_eq. crunch P.
    + (* args *) intros toks Hn. rewrite p_args_eq. crunch P.
    + (* fields *)
      intros toks Hn. rewrite p_fields_eq.
      destruct toks as [|t r]; [exact I|]. destruct (pty t =? 125); [cbn [okr]; lenlia|].
      eapply okr_bind; [callb (g_field _ P)|]. intros fld r1 Hr1.
      destruct r1 as [|t1 r2]; [exact I|].
      destruct ((pty t1 =? 44) || (pty t1 =? 59)).
      * pose proof (skip_seps_len r2).
        assert (Hl : (length (if d_seps d then skip_seps r2 else r2) <= length r2)%nat) by (destruct (d_seps d); auto).
        eapply okr_bind; [callb (g_fields _ P)|]. intros fs rest Hfs. cbn [okr]. simpl in *. lia.
      * destruct (pty t1 =? 125); [cbn [okr]; simpl in *; lia|exact I].
    + (* field *) intros toks Hn. rewrite p_field_eq. crunch P.
      destruct toks as [|t2 r2]; cbn [tl]; crunch P.
Qed.

(* headline: with fuel 8 * tokens + 8 the reference parser always answers *)
Theorem parse_progress_lemma toks fuel :
  (8 * length toks + 8 <= fuel)%nat -> parse_fuel d fuel toks <> ParseOutOfFuel.
Proof.
  intros Hf. unfold parse_fuel.
  pose proof (g_block _ (prog_all fuel) toks ltac:(unfold need; lia)) as H.
  destruct (p_block d fuel toks) as [b [|t r]| |]; simpl in H; try discriminate. contradiction.
Qed.

End Progress.

Theorem parse_always_answers d toks : parse_d d toks <> ParseOutOfFuel.
Proof. unfold parse_d. apply parse_progress_lemma. lia. Qed.
