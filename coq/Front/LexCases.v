(* Case evaluator for the C08 correspondence shards. *)
From GL Require Import Common.Bytes Front.Lines Front.Lexer Front.Render Front.Ast Front.Parser Front.Printer.
Open Scope Z_scope.

(* what the harness saw when it drove parse.Scanner.Scan to EOF / first error: (type, text, line) *)
Definition otok := (Z * bytes * Z)%type.

Inductive lexobs :=
| ObsOk (toks : list otok)
| ObsErr (toks : list otok) (k : errkind) (ln : Z) (text : bytes).

(* result class of LState.LoadString *)
Definition LoadFunction := 0.   (* a function *)
Definition LoadSyntax := 1.     (* *ApiError with Type = ApiErrorSyntax *)

Inductive case :=
(* a generated valid program: lexemes + separators, length and checksum of the text the harness
   printed from them (the text itself is recomputed here by Render.render), the scanner's tokens, LoadString's class, "same bytecode as the first layout of this program" *)
| CValid (items : list (sep * lexeme)) (trailer : sep) (srclen srcsum : Z)
         (obs : lexobs) (load : Z) (same_code : bool)
(* arbitrary bytes *)
| CBytes (src : bytes) (obs : lexobs) (load : Z)
(* a check decided on the Go side only (adversarial sizes, crashes): ok = it passed *)
| CGoSide (ok : bool)
(* token-level mutation of a valid program: did gopher-lua's parse stage (parse.Parse) accept it? *)
| CParse (src : bytes) (gopher_accepts : bool)
(* one generated program: its canonical lexemes (A) and the variant with optional ";" and
   redundant parentheses (B), and "the reference AST printed back compiles to the same bytecode" *)
| CProg (a b : list lexeme) (printback_same : bool).

(* sum of (i+1) * byte_i modulo 65521: ties the harness's printer to Render.render cheaply *)
Fixpoint checksum (s : bytes) (i acc : Z) : Z :=
  match s with
  | [] => acc mod 65521
  | c :: r => checksum r (i + 1) ((acc + i * c) mod 65521)
  end.

Definition same_text (src : bytes) (srclen srcsum : Z) : bool :=
  (len src =? srclen) && (checksum src 1 0 =? srcsum).

Definition errkind_eqb (a b : errkind) : bool :=
  match a, b with
  | EUntermString, EUntermString | EUntermML, EUntermML | EInvalidML, EInvalidML
  | EInvalidMLComment, EInvalidMLComment | EMalformedNumber, EMalformedNumber
  | EInvalidTilde, EInvalidTilde | EInvalidToken, EInvalidToken | EEscapeTooLarge, EEscapeTooLarge => true
  | _, _ => false
  end.

Definition otok_of (t : token) : otok := (tk_type t, tk_text t, tk_line t).

Definition otok_eqb (a b : otok) : bool :=
  let '(ty1, tx1, l1) := a in let '(ty2, tx2, l2) := b in
  (ty1 =? ty2) && beqb tx1 tx2 && (l1 =? l2).

Definition obs_of (r : lexres) : option lexobs :=
  match r with
  | LexOk l => Some (ObsOk (map otok_of l))
  | LexErr l e => Some (ObsErr (map otok_of l) (e_kind e) (e_line e) (e_text e))
  | LexOutOfFuel => None
  end.

Definition lexobs_eqb (a b : lexobs) : bool :=
  match a, b with
  | ObsOk l1, ObsOk l2 => list_eqb otok_eqb l1 l2
  | ObsErr l1 k1 n1 t1, ObsErr l2 k2 n2 t2 =>
    list_eqb otok_eqb l1 l2 && errkind_eqb k1 k2 && (n1 =? n2) && beqb t1 t2
  | _, _ => false
  end.

Definition model_agrees (src : bytes) (obs : lexobs) : bool :=
  match obs_of (lex src) with Some o => lexobs_eqb o obs | None => false end.

Definition obs_is_err (o : lexobs) : bool := match o with ObsErr _ _ _ _ => true | _ => false end.
Definition obs_toks (o : lexobs) : list otok := match o with ObsOk l => l | ObsErr l _ _ _ => l end.

(* ---------- reference parser ---------- *)

Definition ref_accepts_toks_d (d : dialect) (t : list token) : bool :=
  match parse_d d (ptoks_of t) with ParseOk _ => true | _ => false end.

(* the reference parser must answer (accept or reject), never run out of fuel *)
Definition ref_answers (src : bytes) : bool :=
  match lex src with
  | LexOk t => match parse_d strict (ptoks_of t), parse_d gopher (ptoks_of t) with
               | ParseOutOfFuel, _ | _, ParseOutOfFuel => false
               | _, _ => true
               end
  | _ => true
  end.
Definition ref_accepts_toks := ref_accepts_toks_d strict.

(* a lexical error is a syntax error *)
Definition ref_accepts_d (d : dialect) (src : bytes) : bool :=
  match lex src with LexOk t => ref_accepts_toks_d d t | _ => false end.

Definition ptok_eqb (x y : ptok) : bool := (pty x =? pty y) && beqb (ptext x) (ptext y).

(* lexemes with their separators: a token is "on a new line" when the separator before it holds a
   line end (Lua 5.1 compares with the line where the previous token ENDS, so line ends inside a
   preceding string token do not count) *)
Definition ptoks_of_items (items : list (sep * lexeme)) : list ptok :=
  map (fun sl => (lexeme_type (snd sl), lexeme_text (snd sl), existsb is_nl (sep_bytes (fst sl)))) items.

Definition ref_accepts_items (items : list (sep * lexeme)) : bool :=
  match parse (ptoks_of_items items) with ParseOk _ => true | _ => false end.

(* lexemes on one line, as the parser sees them *)
Definition ptoks_of_lexemes (l : list lexeme) : list ptok :=
  map (fun x => (lexeme_type x, lexeme_text x, false)) l.

(* both streams parse, to trees that print alike, and printing + parsing again is the identity *)
Definition prog_ok (a b : list lexeme) : bool :=
  match parse (ptoks_of_lexemes a), parse (ptoks_of_lexemes b) with
  | ParseOk ta, ParseOk tb =>
    list_eqb ptok_eqb (print ta) (print tb)
    && match parse (print ta) with
       | ParseOk ta' => list_eqb ptok_eqb (print ta') (print ta)
       | _ => false
       end
    (* with every operator expression in parentheses it is still the same tree *)
    && match parse (print (pa_b ta)) with
       | ParseOk tp => list_eqb ptok_eqb (print tp) (print ta)
       | _ => false
       end
  | _, _ => false
  end.

(* the impl model's prediction: its token stream / error, and "the lexer rejects => syntax error" *)
Definition check_impl (c : case) : bool :=
  match c with
  | CValid items trailer srclen srcsum obs load _ =>
    let src := render items trailer in
    same_text src srclen srcsum && model_agrees src obs
  | CBytes src obs load =>
    model_agrees src obs
    && (match lex src with LexErr _ _ => load =? LoadSyntax | _ => true end)
  | CGoSide _ => true
  | CParse src g => ref_answers src && Bool.eqb (ref_accepts_d gopher src) g   (* the model of what parse.Parse accepts *)
  | CProg _ _ _ => true
  end.

(* observed lines against the reference rule, at the model's token offsets *)
Fixpoint lines_ok (src : bytes) (mt : list token) (ot : list otok) : bool :=
  match mt, ot with
  | t :: mt', (_, _, ln) :: ot' => (ln =? line_of_offset src (tk_off t)) && lines_ok src mt' ot'
  | _, _ => true
  end.

Definition model_toks (r : lexres) : list token :=
  match r with LexOk l => l | LexErr l _ => l | LexOutOfFuel => [] end.

(* the property on the observed behaviour *)
Definition check_spec (c : case) : bool :=
  match c with
  | CValid items trailer srclen srcsum obs load same_code =>
    good items trailer
    && same_text (render items trailer) srclen srcsum
    && lexobs_eqb (ObsOk (map otok_of (expected_tokens items trailer))) obs
    && (load =? LoadFunction)
    && same_code
    && ref_accepts_items items
  | CBytes src obs load =>
    ((load =? LoadFunction) || (load =? LoadSyntax))
    && (if obs_is_err obs then load =? LoadSyntax else true)
    && lines_ok src (model_toks (lex src)) (obs_toks obs)
  | CGoSide ok => ok
  | CParse src g => ref_answers src && Bool.eqb (ref_accepts_d strict src) g   (* Lua 5.1, both directions *)
  | CProg a b same => prog_ok a b && same
  end.
