(* Transcription of /repo/parse/lexer.go (Scanner) — impl model, no proofs in this file.
   State = remaining input + Pos.Line (+ a ghost count of consumed bytes); Pos.Column is not
   modelled (no property observes it).  Every Go loop is a recursion on explicit fuel; running
   out of fuel is the distinguished result OutOfFuel, excluded by LexerFacts.lex_terminates_within.
   `lexer.PNewLine` (set for '(' after ')' across a newline; consumed by the generated parser's
   "ambiguous syntax" check) is not modelled: it does not influence the token stream. *)
From GL Require Import Common.Bytes Front.Lines.
Open Scope Z_scope.

(* ---------- scanner state, Next / Newline / Peek ---------- *)

Record state := mkSt { rest : bytes; line : Z; off : Z }.

Definition init_state (bs : bytes) : state := mkSt bs 1 0.

(* readNext: one byte or EOF (-1) *)
Definition read_next (st : state) : Z * state :=
  match rest st with
  | [] => (-1, st)
  | c :: r => (c, mkSt r (line st) (off st + 1))
  end.

Definition peek (st : state) : Z :=
  match rest st with [] => -1 | c :: _ => c end.

(* Scanner.Newline(ch) *)
Definition newline (ch : Z) (st : state) : state :=
  if ch <? 0 then st
  else
    let st1 := mkSt (rest st) (line st + 1) (off st) in
    let nxt := peek st1 in
    if ((ch =? 10) && (nxt =? 13)) || ((ch =? 13) && (nxt =? 10))
    then snd (read_next st1) else st1.

(* Scanner.Next() *)
Definition next (st : state) : Z * state :=
  let '(ch, st1) := read_next st in
  if (ch =? 10) || (ch =? 13) then (10, newline ch st1)
  else if ch =? -1 then (-1, mkSt (rest st1) (-1) (off st1))
  else (ch, st1).

(* byte(ch) as done by writeChar *)
Definition wc (ch : Z) : Z := ch mod 256.

(* ---------- results ---------- *)

Inductive errkind :=
| EUntermString | EUntermML | EInvalidML | EInvalidMLComment | EMalformedNumber | EInvalidTilde | EInvalidToken
| EEscapeTooLarge.

(* sc.Error(tok, msg): message kind, sc.Pos.Line at that moment (-1 = "at EOF"), the `near` text *)
Record lexerror := mkErr { e_kind : errkind; e_line : Z; e_text : bytes }.

Inductive res (A : Type) :=
| Ok (a : A) (st : state)
| Err (e : lexerror)
| OutOfFuel.
Arguments Ok {A} a st.
Arguments Err {A} e.
Arguments OutOfFuel {A}.

Definition bind {A B} (r : res A) (k : A -> state -> res B) : res B :=
  match r with Ok a st => k a st | Err e => Err e | OutOfFuel => OutOfFuel end.

(* ---------- character classes ---------- *)

Definition is_dec (ch : Z) : bool := (48 <=? ch) && (ch <=? 57).
Definition is_ident (ch pos : Z) : bool :=
  (ch =? 95) || ((65 <=? ch) && (ch <=? 90)) || ((97 <=? ch) && (ch <=? 122)) || (is_dec ch && (0 <? pos)).
Definition is_hex (ch : Z) : bool :=
  is_dec ch || ((97 <=? ch) && (ch <=? 102)) || ((65 <=? ch) && (ch <=? 70)).

(* whitespace&(1<<uint(ch)) != 0 on int64: bits 0..63 only; EOF (-1) and bytes >= 64 give 0 *)
Definition whitespace1 : Z := 2^9 + 2^11 + 2^12 + 2^32.
Definition whitespace2 : Z := 2^9 + 2^10 + 2^11 + 2^12 + 2^13 + 2^32.
Definition in_mask (mask ch : Z) : bool := (0 <=? ch) && (ch <? 64) && Z.testbit mask ch.

(* ---------- loops ---------- *)

(* skipWhiteSpace: returns the first character outside the mask (already consumed) *)
Fixpoint skip_ws (fuel : nat) (mask : Z) (st : state) : res Z :=
  match fuel with
  | O => OutOfFuel
  | S f => let '(ch, st1) := next st in
           if in_mask mask ch then skip_ws f mask st1 else Ok ch st1
  end.

(* `for p(sc.Peek()) { writeChar(buf, sc.Next()) }` *)
Fixpoint take_while (fuel : nat) (p : Z -> bool) (st : state) : res bytes :=
  match fuel with
  | O => OutOfFuel
  | S f => if p (peek st)
           then let '(ch, st1) := next st in
                bind (take_while f p st1) (fun l st2 => Ok (wc ch :: l) st2)
           else Ok [] st
  end.

Definition scan_ident (fuel : nat) (ch : Z) (st : state) : res bytes :=
  bind (take_while fuel (fun c => is_ident c 1) st) (fun l st1 => Ok (wc ch :: l) st1).

(* isNumeral(s) *)
Fixpoint drop_dec (s : bytes) : nat * bytes :=
  match s with
  | c :: r => if is_dec c then let '(n, t) := drop_dec r in (S n, t) else (O, s)
  | [] => (O, [])
  end.

Definition is_numeral_dec (s : bytes) : bool :=
  let '(n1, s1) := drop_dec s in
  let '(n2, s2) := match s1 with
                   | 46 :: r => drop_dec r
                   | _ => (O, s1)
                   end in
  if Nat.eqb (n1 + n2) 0 then false
  else
    match s2 with
    | e :: r =>
      if (e =? 101) || (e =? 69) then
        let r1 := match r with
                  | sg :: r' => if (sg =? 43) || (sg =? 45) then r' else r
                  | [] => r
                  end in
        let '(n3, s3) := drop_dec r1 in
        if Nat.eqb n3 0 then false else match s3 with [] => true | _ => false end
      else false
    | [] => true
    end.

Definition is_numeral (s : bytes) : bool :=
  match s with
  | c0 :: x :: (_ :: _) as r =>
    if (c0 =? 48) && ((x =? 120) || (x =? 88)) then forallb is_hex r else is_numeral_dec s
  | _ => is_numeral_dec s
  end.

(* scanNumber: read_numeral of Lua 5.1, then the grammar check; returns the buffer *)
Definition scan_number (fuel : nat) (ch : Z) (st : state) : res bytes :=
  bind (take_while fuel (fun c => is_dec c || (c =? 46)) st) (fun b1 st1 =>
    let '(b2, st3) :=
      if (peek st1 =? 101) || (peek st1 =? 69) then
        let '(e, st2) := next st1 in
        if (peek st2 =? 45) || (peek st2 =? 43)
        then let '(sg, st3) := next st2 in ([wc e; wc sg], st3)
        else ([wc e], st2)
      else ([], st1) in
    bind (take_while fuel (fun c => is_ident c 1) st3) (fun b3 st4 =>
      let text := wc ch :: b1 ++ b2 ++ b3 in
      if is_numeral text then Ok text st4
      else Err (mkErr EMalformedNumber (line st4) text))).

(* a decimal escape: `digits` are the characters read, v their value; above 255 it is the error
   "escape sequence too large" with the text backslash + digits *)
Definition esc_decimal (digits : bytes) (v : Z) (st : state) : res bytes :=
  if 255 <? v then Err (mkErr EEscapeTooLarge (line st) (92 :: digits)) else Ok [wc v] st.

(* scanEscape: the bytes appended to the buffer *)
Definition scan_escape (st : state) : res bytes :=
  let '(ch, st1) := next st in
  if ch =? 97 then Ok [7] st1            (* a *)
  else if ch =? 98 then Ok [8] st1       (* b *)
  else if ch =? 102 then Ok [12] st1     (* f *)
  else if ch =? 110 then Ok [10] st1     (* n *)
  else if ch =? 114 then Ok [13] st1     (* r *)
  else if ch =? 116 then Ok [9] st1      (* t *)
  else if ch =? 118 then Ok [11] st1     (* v *)
  else if ch =? 92 then Ok [92] st1
  else if ch =? 34 then Ok [34] st1
  else if ch =? 39 then Ok [39] st1
  else if ch =? 10 then Ok [10] st1
  else if ch =? 13 then Ok [10] (newline 13 st1)   (* unreachable: Next never returns '\r' *)
  else if is_dec ch then
    if is_dec (peek st1) then
      let '(c2, st2) := next st1 in
      if is_dec (peek st2) then
        let '(c3, st3) := next st2 in
        esc_decimal [wc ch; wc c2; wc c3] (((ch - 48) * 10 + (c2 - 48)) * 10 + (c3 - 48)) st3
      else esc_decimal [wc ch; wc c2] ((ch - 48) * 10 + (c2 - 48)) st2
    else esc_decimal [wc ch] (ch - 48) st1
  else Ok [wc ch] st1.

(* scanString: loop with the current character in hand; acc = buffer so far *)
Fixpoint scan_string_loop (fuel : nat) (quote ch : Z) (st : state) (acc : bytes) : res bytes :=
  match fuel with
  | O => OutOfFuel
  | S f =>
    if ch =? quote then Ok acc st
    else if (ch =? 10) || (ch =? 13) || (ch <? 0) then Err (mkErr EUntermString (line st) acc)
    else if ch =? 92 then
      match scan_escape st with
      | Ok b st1 => let '(ch1, st2) := next st1 in scan_string_loop f quote ch1 st2 (acc ++ b)
      | Err e => Err e
      | OutOfFuel => OutOfFuel
      end
    else
      let '(ch1, st1) := next st in
      scan_string_loop f quote ch1 st1 (acc ++ [wc ch])
  end.

Definition scan_string (fuel : nat) (quote : Z) (st : state) : res bytes :=
  let '(ch, st1) := next st in scan_string_loop fuel quote ch st1 [].

(* countSep *)
Fixpoint count_sep (fuel : nat) (ch : Z) (st : state) (count : nat) : res (nat * Z) :=
  match fuel with
  | O => OutOfFuel
  | S f => if ch =? 61 then let '(c, st1) := next st in count_sep f c st1 (S count)
           else Ok (count, ch) st
  end.

(* string(rune(ch)) for ch in -1..255 *)
Definition rune_bytes (ch : Z) : bytes :=
  if ch <? 0 then [239; 191; 189]
  else if ch <? 128 then [ch]
  else [192 + ch / 64; 128 + ch mod 64].

(* the loop of scanMultilineStringBody, current character in hand *)
Fixpoint ml_loop (fuel : nat) (count1 : nat) (ch : Z) (st : state) (acc : bytes) : res bytes :=
  match fuel with
  | O => OutOfFuel
  | S f =>
    if ch <? 0 then Err (mkErr EUntermML (line st) acc)
    else if ch =? 93 then
      let '(c0, st0) := next st in
      match count_sep f c0 st0 O with
      | Ok (count2, ch2) st2 =>
        if Nat.eqb count1 count2 && (ch2 =? 93) then Ok acc st2
        else ml_loop f count1 ch2 st2 (acc ++ 93 :: repeat 61 count2)
      | Err e => Err e
      | OutOfFuel => OutOfFuel
      end
    else
      let '(ch1, st1) := next st in
      ml_loop f count1 ch1 st1 (acc ++ [wc ch])
  end.

Definition scan_ml_body (fuel : nat) (count1 : nat) (st : state) : res bytes :=
  let '(ch, st1) := next st in
  let '(ch2, st2) := if (ch =? 10) || (ch =? 13) then next st1 else (ch, st1) in
  ml_loop fuel count1 ch2 st2 [].

(* scanMultilineString(ch, buf): ch is the character after the first '[' *)
Definition scan_multiline (fuel : nat) (ch : Z) (st : state) : res bytes :=
  bind (count_sep fuel ch st O) (fun cc st1 =>
    let '(count1, ch1) := cc in
    if negb (ch1 =? 91) then Err (mkErr EInvalidML (line st1) (rune_bytes ch1))
    else scan_ml_body fuel count1 st1).

Fixpoint comment_line_loop (fuel : nat) (ch : Z) (st : state) : res unit :=
  match fuel with
  | O => OutOfFuel
  | S f => if (ch =? 10) || (ch =? 13) || (ch <? 0) then Ok tt st
           else let '(c, st1) := next st in comment_line_loop f c st1
  end.

(* skipComments(ch): ch is the second '-' *)
Definition skip_comments (fuel : nat) (ch : Z) (st : state) : res unit :=
  if peek st =? 91 then
    let '(ch1, st1) := next st in
    if (peek st1 =? 91) || (peek st1 =? 61) then
      let '(c0, st2) := next st1 in
      match count_sep fuel c0 st2 O with
      | Ok (count, ch2) st3 =>
        if ch2 =? 91 then
          match scan_ml_body fuel count st3 with
          | Ok _ st4 => Ok tt st4
          | Err e => Err (mkErr EInvalidMLComment (e_line e) (e_text e))
          | OutOfFuel => OutOfFuel
          end
        else comment_line_loop fuel ch2 st3
      | Err e => Err e
      | OutOfFuel => OutOfFuel
      end
    else comment_line_loop fuel ch1 st1
  else comment_line_loop fuel ch st.

(* ---------- tokens ---------- *)

(* Token types: single-character tokens carry the character code; the named ones get codes
   257.. in the order of parse/parser.go's constants (the harness maps parse.TAnd.. to these). *)
Definition TAnd := 257.     Definition TBreak := 258.   Definition TDo := 259.
Definition TElse := 260.    Definition TElseIf := 261.  Definition TEnd := 262.
Definition TFalse := 263.   Definition TFor := 264.     Definition TFunction := 265.
Definition TIf := 266.      Definition TIn := 267.      Definition TLocal := 268.
Definition TNil := 269.     Definition TNot := 270.     Definition TOr := 271.
Definition TReturn := 272.  Definition TRepeat := 273.  Definition TThen := 274.
Definition TTrue := 275.    Definition TUntil := 276.   Definition TWhile := 277.
Definition TGoto := 278.    Definition TEqeq := 279.    Definition TNeq := 280.
Definition TLte := 281.     Definition TGte := 282.     Definition T2Comma := 283.
Definition T3Comma := 284.  Definition T2Colon := 285.  Definition TIdent := 286.
Definition TNumber := 287.  Definition TString := 288.

Definition reserved_words : list (bytes * Z) :=
  [ ([97;110;100], TAnd); ([98;114;101;97;107], TBreak); ([100;111], TDo);
    ([101;108;115;101], TElse); ([101;108;115;101;105;102], TElseIf); ([101;110;100], TEnd);
    ([102;97;108;115;101], TFalse); ([102;111;114], TFor);
    ([102;117;110;99;116;105;111;110], TFunction); ([105;102], TIf); ([105;110], TIn);
    ([108;111;99;97;108], TLocal); ([110;105;108], TNil); ([110;111;116], TNot);
    ([111;114], TOr); ([114;101;116;117;114;110], TReturn); ([114;101;112;101;97;116], TRepeat);
    ([116;104;101;110], TThen); ([116;114;117;101], TTrue); ([117;110;116;105;108], TUntil);
    ([119;104;105;108;101], TWhile); ([103;111;116;111], TGoto) ].

Fixpoint lookup_word (l : list (bytes * Z)) (s : bytes) : option Z :=
  match l with
  | [] => None
  | (w, t) :: l' => if beqb w s then Some t else lookup_word l' s
  end.

(* tk_off (ghost): number of bytes consumed before the token's first byte *)
Record token := mkTok { tk_type : Z; tk_text : bytes; tk_line : Z; tk_off : Z }.

Inductive scanres :=
| STok (t : token) (st : state)
| SEof (st : state)
| SErr (e : lexerror)
| SOutOfFuel.

Definition lift_tok {A} (r : res A) (k : A -> state -> scanres) : scanres :=
  match r with Ok a st => k a st | Err e => SErr e | OutOfFuel => SOutOfFuel end.

(* the 13 single-character tokens of the last case *)
Definition is_single (ch : Z) : bool :=
  existsb (Z.eqb ch) [43; 42; 47; 37; 94; 35; 40; 41; 123; 125; 93; 59; 44].

(* The switch of Scanner.Scan after the blank space has been skipped: ch is the first character
   of the token (already consumed), st1 the state after it.  `redo` is the jump back to the start
   of Scan after a comment; `fuel` is handed unchanged to the inner loops. *)
Definition scan_tok (fuel : nat) (redo : state -> scanres) (ch : Z) (st1 : state) : scanres :=
  let ln := line st1 in
  let o := off st1 - 1 in
  let tok ty text st' := STok (mkTok ty text ln o) st' in
  if is_ident ch 0 then
    lift_tok (scan_ident fuel ch st1) (fun s st2 =>
      match lookup_word reserved_words s with
      | Some ty => tok ty s st2
      | None => tok TIdent s st2
      end)
  else if is_dec ch then
    lift_tok (scan_number fuel ch st1) (fun s st2 => tok TNumber s st2)
  else if ch =? -1 then SEof st1
  else if ch =? 45 then
    if peek st1 =? 45 then
      let '(c, st2) := next st1 in
      lift_tok (skip_comments fuel c st2) (fun _ st3 => redo st3)
    else tok ch [ch] st1
  else if (ch =? 34) || (ch =? 39) then
    lift_tok (scan_string fuel ch st1) (fun s st2 => tok TString s st2)
  else if ch =? 91 then
    if (peek st1 =? 91) || (peek st1 =? 61) then
      let '(c, st2) := next st1 in
      lift_tok (scan_multiline fuel c st2) (fun s st3 => tok TString s st3)
    else tok ch [ch] st1
  else if ch =? 61 then
    if peek st1 =? 61 then tok TEqeq [61; 61] (snd (next st1)) else tok ch [ch] st1
  else if ch =? 126 then
    if peek st1 =? 61 then tok TNeq [126; 61] (snd (next st1))
    else SErr (mkErr EInvalidTilde (line st1) [126])
  else if ch =? 60 then
    if peek st1 =? 61 then tok TLte [60; 61] (snd (next st1)) else tok ch [ch] st1
  else if ch =? 62 then
    if peek st1 =? 61 then tok TGte [62; 61] (snd (next st1)) else tok ch [ch] st1
  else if ch =? 46 then
    let ch2 := peek st1 in
    if is_dec ch2 then
      lift_tok (scan_number fuel ch st1) (fun s st2 => tok TNumber s st2)
    else if ch2 =? 46 then
      let '(c2, st2) := next st1 in
      if peek st2 =? 46 then
        let '(c3, st3) := next st2 in tok T3Comma [wc ch; wc c2; wc c3] st3
      else tok T2Comma [wc ch; wc c2] st2
    else tok 46 [] st1
  else if ch =? 58 then
    if peek st1 =? 58 then tok T2Colon [58; 58] (snd (next st1)) else tok ch [ch] st1
  else if is_single ch then tok ch [ch] st1
  else SErr (mkErr EInvalidToken (line st1) [wc ch]).

(* The body of Scanner.Scan: skip blank space (a second pass with the wider mask after the first
   line end), then the switch. *)
Definition scan_body (fuel : nat) (redo : state -> scanres) (st : state) : scanres :=
  lift_tok (skip_ws fuel whitespace1 st) (fun ch0 st0 =>
  lift_tok (if (ch0 =? 10) || (ch0 =? 13) then skip_ws fuel whitespace2 st0 else Ok ch0 st0)
    (fun ch st1 => scan_tok fuel redo ch st1)).

(* Scanner.Scan: the fuel bounds the redo loop *)
Fixpoint scan (fuel : nat) (st : state) : scanres :=
  match fuel with
  | O => SOutOfFuel
  | S f => scan_body fuel (scan f) st
  end.

(* ---------- the whole input: the loop of Lexer.Lex until EOF or the first error ---------- *)

Inductive lexres :=
| LexOk (toks : list token)
| LexErr (toks : list token) (e : lexerror)      (* tokens delivered before the error *)
| LexOutOfFuel.

Definition lex_cons (t : token) (r : lexres) : lexres :=
  match r with
  | LexOk l => LexOk (t :: l)
  | LexErr l e => LexErr (t :: l) e
  | LexOutOfFuel => LexOutOfFuel
  end.

Fixpoint lex_fuel (fuel : nat) (st : state) : lexres :=
  match fuel with
  | O => LexOutOfFuel
  | S f =>
    match scan fuel st with
    | STok t st1 => lex_cons t (lex_fuel f st1)
    | SEof _ => LexOk []
    | SErr e => LexErr [] e
    | SOutOfFuel => LexOutOfFuel
    end
  end.

Definition lex (bs : bytes) : lexres := lex_fuel (S (length bs)) (init_state bs).
