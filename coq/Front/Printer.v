(* AST -> tokens: the reference printer.  Parentheses are written where the tree has an EParen
   and, besides, only where the operator priorities (or the shape of a prefix expression) force
   them; ";" is written where the tree has the flag and, besides, only before a statement that
   starts with "(" (where it is needed to keep two statements apart).  Table fields are separated
   by ",".  All tokens are on one line (nl = false).  No proofs in this file. *)
From GL Require Import Common.Bytes Front.Lexer Front.Ast Front.Parser.
Open Scope Z_scope.

Definition tk (ty : Z) : ptok := (ty, [], false).
Definition tkt (ty : Z) (s : bytes) : ptok := (ty, s, false).
Definition tname (n : bytes) : ptok := tkt TIdent n.

Definition binop_ty (op : binop) : Z :=
  match op with
  | OpOr => TOr | OpAnd => TAnd | OpLt => 60 | OpGt => 62 | OpLe => TLte | OpGe => TGte
  | OpNe => TNeq | OpEq => TEqeq | OpConcat => T2Comma | OpAdd => 43 | OpSub => 45
  | OpMul => 42 | OpDiv => 47 | OpMod => 37 | OpPow => 94
  end.

Definition unop_ty (op : unop) : Z :=
  match op with OpNeg => 45 | OpNot => TNot | OpLen => 35 end.

(* may e stand bare where subexpr(limit) reads it and an operator of left priority p follows
   (p = 0: no operator follows)? *)
Definition bare_ok (limit p : Z) (e : expr) : bool :=
  match e with
  | EBin op _ _ => (limit <? prio_left op) && (p <=? prio_right op)
  | EUn _ _ => p <=? unary_priority
  | _ => true
  end.

(* may e stand bare as the prefix of ".n", "[k]", ":n args", args ? *)
Definition is_prefix (e : expr) : bool :=
  match e with
  | EName _ | EIndex _ _ | EField _ _ | ECall _ _ | EMethod _ _ _ | EParen _ => true
  | _ => false
  end.

Fixpoint sep_names (sep : Z) (ns : list bytes) : list ptok :=
  match ns with
  | [] => []
  | [n] => [tname n]
  | n :: r => tname n :: tk sep :: sep_names sep r
  end.

Definition pr_params (ps : list bytes) (va : bool) : list ptok :=
  match ps, va with
  | [], false => []
  | [], true => [tk T3Comma]
  | _, false => sep_names 44 ps
  | _, true => sep_names 44 ps ++ [tk 44; tk T3Comma]
  end.

(* does pr_prefix e start with "(" ? *)
Fixpoint starts_paren_e (e : expr) : bool :=
  match e with
  | EName _ => false
  | EIndex q _ | EField q _ | ECall q _ | EMethod q _ _ => starts_paren_e q
  | _ => true
  end.

(* does the first statement of b start with "(" ? *)
Definition starts_paren_b (b : block) : bool :=
  match b with
  | BCons (SCall e) _ _ => starts_paren_e e
  | BCons (SAssign (ELCons e _) _) _ _ => starts_paren_e e
  | _ => false
  end.

Definition wrap (bare : bool) (l : list ptok) : list ptok :=
  if bare then l else tk 40 :: l ++ [tk 41].

(* pr_e limit p e: e where subexpr(limit) reads it, followed by an operator of left priority p
   (0 = none).  Inside parentheses the context is (0, 0). *)
Fixpoint pr_e (limit p : Z) (e : expr) : list ptok :=
  match e with
  | ENil => [tk TNil] | ETrue => [tk TTrue] | EFalse => [tk TFalse] | EVararg => [tk T3Comma]
  | ENumber s => [tkt TNumber s]
  | EString s => [tkt TString s]
  | EFunction f => tk TFunction :: pr_fb f
  | ETable fs => tk 123 :: pr_fl fs ++ [tk 125]
  | EBin op a b =>
    if bare_ok limit p e
    then pr_e limit (prio_left op) a ++ tk (binop_ty op) :: pr_e (prio_right op) p b
    else tk 40 :: (pr_e 0 (prio_left op) a ++ tk (binop_ty op) :: pr_e (prio_right op) 0 b) ++ [tk 41]
  | EUn op a =>
    if bare_ok limit p e
    then tk (unop_ty op) :: pr_e unary_priority p a
    else tk 40 :: (tk (unop_ty op) :: pr_e unary_priority 0 a) ++ [tk 41]
  | EName n => [tname n]
  | EIndex q k => pr_prefix q ++ tk 91 :: pr_e 0 0 k ++ [tk 93]
  | EField q n => pr_prefix q ++ [tk 46; tname n]
  | ECall q a => pr_prefix q ++ pr_a a
  | EMethod q n a => pr_prefix q ++ tk 58 :: tname n :: pr_a a
  | EParen x => tk 40 :: pr_e 0 0 x ++ [tk 41]
  end
with pr_prefix (q : expr) : list ptok :=
  (* q as the prefix of a suffix: bare if it is a prefix expression, else in parentheses *)
  match q with
  | EName n => [tname n]
  | EIndex q' k => pr_prefix q' ++ tk 91 :: pr_e 0 0 k ++ [tk 93]
  | EField q' n => pr_prefix q' ++ [tk 46; tname n]
  | ECall q' a => pr_prefix q' ++ pr_a a
  | EMethod q' n a => pr_prefix q' ++ tk 58 :: tname n :: pr_a a
  | EParen x => tk 40 :: pr_e 0 0 x ++ [tk 41]
  | ENil => [tk 40; tk TNil; tk 41] | ETrue => [tk 40; tk TTrue; tk 41] | EFalse => [tk 40; tk TFalse; tk 41]
  | EVararg => [tk 40; tk T3Comma; tk 41]
  | ENumber s => [tk 40; tkt TNumber s; tk 41]
  | EString s => [tk 40; tkt TString s; tk 41]
  | EFunction f => tk 40 :: (tk TFunction :: pr_fb f) ++ [tk 41]
  | ETable fs => tk 40 :: (tk 123 :: pr_fl fs ++ [tk 125]) ++ [tk 41]
  | EBin op a b => tk 40 :: (pr_e 0 (prio_left op) a ++ tk (binop_ty op) :: pr_e (prio_right op) 0 b) ++ [tk 41]
  | EUn op a => tk 40 :: (tk (unop_ty op) :: pr_e unary_priority 0 a) ++ [tk 41]
  end
with pr_a (a : args) : list ptok :=
  match a with
  | AList es => tk 40 :: pr_el es ++ [tk 41]
  | ATable fs => tk 123 :: pr_fl fs ++ [tk 125]
  | AString s => [tkt TString s]
  end
with pr_el (l : exprlist) : list ptok :=
  match l with
  | ELNil => []
  | ELCons e ELNil => pr_e 0 0 e
  | ELCons e r => pr_e 0 0 e ++ tk 44 :: pr_el r
  end
with pr_fl (l : fieldlist) : list ptok :=
  match l with
  | FLNil => []
  | FLCons f FLNil => pr_f f
  | FLCons f r => pr_f f ++ tk 44 :: pr_fl r
  end
with pr_f (f : field) : list ptok :=
  match f with
  | FPos e => pr_e 0 0 e
  | FNamed n e => tname n :: tk 61 :: pr_e 0 0 e
  | FKey k e => tk 91 :: pr_e 0 0 k ++ tk 93 :: tk 61 :: pr_e 0 0 e
  end
with pr_fb (f : funcbody) : list ptok :=
  match f with
  | FBody ps va b => tk 40 :: pr_params ps va ++ tk 41 :: pr_b b ++ [tk TEnd]
  end
with pr_b (b : block) : list ptok :=
  match b with
  | BNil => []
  | BLast l sm => pr_l l ++ (if sm then [tk 59] else [])
  | BCons s sm r => pr_s s ++ (if sm || starts_paren_b r then [tk 59] else []) ++ pr_b r
  end
with pr_l (l : laststat) : list ptok :=
  match l with
  | LReturn es => tk TReturn :: pr_el es
  | LBreak => [tk TBreak]
  end
with pr_s (s : stat) : list ptok :=
  match s with
  | SAssign ts es => pr_targets ts ++ tk 61 :: pr_el es
  | SCall e => pr_prefix e
  | SDo b => tk TDo :: pr_b b ++ [tk TEnd]
  | SWhile c b => tk TWhile :: pr_e 0 0 c ++ tk TDo :: pr_b b ++ [tk TEnd]
  | SRepeat b c => tk TRepeat :: pr_b b ++ tk TUntil :: pr_e 0 0 c
  | SIf c b e => tk TIf :: pr_e 0 0 c ++ tk TThen :: pr_b b ++ pr_else e
  | SFornum v e1 e2 b =>
    tk TFor :: tname v :: tk 61 :: pr_e 0 0 e1 ++ tk 44 :: pr_e 0 0 e2 ++ tk TDo :: pr_b b ++ [tk TEnd]
  | SFornum3 v e1 e2 e3 b =>
    tk TFor :: tname v :: tk 61 :: pr_e 0 0 e1 ++ tk 44 :: pr_e 0 0 e2 ++ tk 44 :: pr_e 0 0 e3
      ++ tk TDo :: pr_b b ++ [tk TEnd]
  | SForin ns es b => tk TFor :: sep_names 44 ns ++ tk TIn :: pr_el es ++ tk TDo :: pr_b b ++ [tk TEnd]
  | SFunction path m f =>
    tk TFunction :: sep_names 46 path ++
      (match m with Some n => [tk 58; tname n] | None => [] end) ++ pr_fb f
  | SLocalFunction n f => tk TLocal :: tk TFunction :: tname n :: pr_fb f
  | SLocal ns ELNil => tk TLocal :: sep_names 44 ns
  | SLocal ns es => tk TLocal :: sep_names 44 ns ++ tk 61 :: pr_el es
  | SGoto n => [tk TGoto; tname n]
  | SLabel n => [tk T2Colon; tname n; tk T2Colon]
  end
with pr_targets (l : exprlist) : list ptok :=
  match l with
  | ELNil => []
  | ELCons e ELNil => pr_prefix e
  | ELCons e r => pr_prefix e ++ tk 44 :: pr_targets r
  end
with pr_else (e : elsepart) : list ptok :=
  match e with
  | ElseNone => [tk TEnd]
  | ElseIf c b r => tk TElseIf :: pr_e 0 0 c ++ tk TThen :: pr_b b ++ pr_else r
  | Else b => tk TElse :: pr_b b ++ [tk TEnd]
  end.

Definition print (b : block) : list ptok := pr_b b.

(* ---------- every operator expression in parentheses ---------- *)

(* pa_b t: the tree t with parentheses around every operand that is itself an operator expression.
   norm_b (pa_b t) = norm_b t (the added parentheses are around non-call, non-"..." expressions), so
   printing it gives a text whose grouping is explicit: the harness compiles it with gopher-lua and
   compares the bytecode with the original text's - any disagreement about priority or
   associativity between gopher-lua's grammar and the reference parser shows there. *)
Definition wrap_op (e : expr) : expr :=
  match e with EBin _ _ _ | EUn _ _ => EParen e | _ => e end.

Fixpoint pa_e (e : expr) : expr :=
  match e with
  | ENil | ETrue | EFalse | EVararg | ENumber _ | EString _ | EName _ => e
  | EFunction f => EFunction (pa_fb f)
  | ETable fs => ETable (pa_fl fs)
  | EBin op a b => EBin op (wrap_op (pa_e a)) (wrap_op (pa_e b))
  | EUn op a => EUn op (wrap_op (pa_e a))
  | EIndex p k => EIndex (pa_e p) (pa_e k)
  | EField p n => EField (pa_e p) n
  | ECall p a => ECall (pa_e p) (pa_a a)
  | EMethod p n a => EMethod (pa_e p) n (pa_a a)
  | EParen x => EParen (pa_e x)
  end
with pa_a (a : args) : args :=
  match a with AList es => AList (pa_el es) | ATable fs => ATable (pa_fl fs) | AString s => AString s end
with pa_el (l : exprlist) : exprlist :=
  match l with ELNil => ELNil | ELCons e r => ELCons (pa_e e) (pa_el r) end
with pa_fl (l : fieldlist) : fieldlist :=
  match l with FLNil => FLNil | FLCons f r => FLCons (pa_f f) (pa_fl r) end
with pa_f (f : field) : field :=
  match f with FPos e => FPos (pa_e e) | FNamed n e => FNamed n (pa_e e) | FKey k e => FKey (pa_e k) (pa_e e) end
with pa_fb (f : funcbody) : funcbody :=
  match f with FBody ps va b => FBody ps va (pa_b b) end
with pa_b (b : block) : block :=
  match b with
  | BNil => BNil
  | BLast l sm => BLast (pa_l l) sm
  | BCons s sm r => BCons (pa_s s) sm (pa_b r)
  end
with pa_l (l : laststat) : laststat :=
  match l with LReturn es => LReturn (pa_el es) | LBreak => LBreak end
with pa_s (s : stat) : stat :=
  match s with
  | SAssign ts es => SAssign (pa_el ts) (pa_el es)
  | SCall e => SCall (pa_e e)
  | SDo b => SDo (pa_b b)
  | SWhile c b => SWhile (pa_e c) (pa_b b)
  | SRepeat b c => SRepeat (pa_b b) (pa_e c)
  | SIf c b e => SIf (pa_e c) (pa_b b) (pa_else e)
  | SFornum v e1 e2 b => SFornum v (pa_e e1) (pa_e e2) (pa_b b)
  | SFornum3 v e1 e2 e3 b => SFornum3 v (pa_e e1) (pa_e e2) (pa_e e3) (pa_b b)
  | SForin ns es b => SForin ns (pa_el es) (pa_b b)
  | SFunction p m f => SFunction p m (pa_fb f)
  | SLocalFunction n f => SLocalFunction n (pa_fb f)
  | SLocal ns es => SLocal ns (pa_el es)
  | SGoto n => SGoto n
  | SLabel n => SLabel n
  end
with pa_else (e : elsepart) : elsepart :=
  match e with
  | ElseNone => ElseNone
  | ElseIf c b r => ElseIf (pa_e c) (pa_b b) (pa_else r)
  | Else b => Else (pa_b b)
  end.
