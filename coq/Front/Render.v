(* Specification side of layout independence: lexemes (what the programmer means), separators
   (what Lua 5.1 ignores between lexemes) and their rendering to bytes.  Written from the
   Lua 5.1 manual §2.1 / llex.c, not from the scanner.  No proofs in this file. *)
From GL Require Import Common.Bytes Front.Lines Front.Lexer.
Open Scope Z_scope.

(* ---------- line ends and separators ---------- *)

Inductive nlkind := NlLF | NlCR | NlCRLF | NlLFCR.

Definition nl_bytes (k : nlkind) : bytes :=
  match k with NlLF => [10] | NlCR => [13] | NlCRLF => [13; 10] | NlLFCR => [10; 13] end.

Inductive sepitem :=
| SpBlank (c : Z)                       (* space, tab, vertical tab, form feed *)
| SpNl (k : nlkind)
| SpLine (text : bytes) (k : nlkind)    (* "--" text line-end *)
| SpBlock (lvl : nat) (body : bytes).   (* "--[" "="^lvl "[" body "]" "="^lvl "]" *)

Definition sep := list sepitem.

Definition open_bracket (lvl : nat) : bytes := 91 :: repeat 61 lvl ++ [91].
Definition close_bracket (lvl : nat) : bytes := 93 :: repeat 61 lvl ++ [93].

Definition sepitem_bytes (i : sepitem) : bytes :=
  match i with
  | SpBlank c => [c]
  | SpNl k => nl_bytes k
  | SpLine text k => 45 :: 45 :: text ++ nl_bytes k
  | SpBlock lvl body => 45 :: 45 :: open_bracket lvl ++ body ++ close_bracket lvl
  end.

Definition sep_bytes (s : sep) : bytes := flat_map sepitem_bytes s.

Fixpoint prefixb (p s : bytes) : bool :=
  match p, s with
  | [], _ => true
  | x :: p', y :: s' => (x =? y) && prefixb p' s'
  | _ :: _, [] => false
  end.

(* does p occur in s starting at some index < n ? *)
Fixpoint occurs_before (p s : bytes) (n : nat) : bool :=
  match n with
  | O => false
  | S n' => prefixb p s || match s with [] => false | _ :: s' => occurs_before p s' n' end
  end.

(* body may be enclosed in level-lvl long brackets: the closing bracket first occurs at its end *)
Definition ml_body_ok (lvl : nat) (body : bytes) : bool :=
  negb (occurs_before (close_bracket lvl) (body ++ close_bracket lvl) (length body)).

(* s = "[" "="* "[" ... : the text of a line comment must not look like a long-bracket opening *)
Fixpoint skip_eqs (s : bytes) : bytes :=
  match s with 61 :: r => skip_eqs r | _ => s end.
Definition opens_long_bracket (s : bytes) : bool :=
  match s with
  | 91 :: r => match skip_eqs r with 91 :: _ => true | _ => false end
  | _ => false
  end.

Definition is_blank (c : Z) : bool := (c =? 32) || (c =? 9) || (c =? 11) || (c =? 12).

Definition sepitem_ok (i : sepitem) : bool :=
  match i with
  | SpBlank c => is_blank c
  | SpNl _ => true
  | SpLine text _ => is_bytes text && forallb (fun c => negb (is_nl c)) text && negb (opens_long_bracket text)
  | SpBlock lvl body => is_bytes body && ml_body_ok lvl body
  end.

(* ---------- lexemes ---------- *)

Inductive sitem :=
| SiChar (c : Z)              (* any byte except the delimiting quote, backslash, LF, CR *)
| SiEsc (c : Z)               (* backslash + one of a b f n r t v backslash dquote quote; c = that character *)
| SiEscNl (k : nlkind)        (* backslash followed by a line end: a newline in the string *)
| SiDec (d1 d2 d3 : Z).       (* \ddd, three decimal digits, value <= 255 *)

Inductive lexeme :=
| LxName (s : bytes)                      (* identifier or reserved word *)
| LxNumber (s : bytes)                    (* numeral, see number_ok *)
| LxString (q : Z) (items : list sitem)   (* q = 34 or 39 *)
| LxLong (lvl : nat) (body : bytes)       (* [=*[ body ]=*] *)
| LxSym (ty : Z).                         (* operator or punctuation, by token type *)

Definition esc_value (c : Z) : option Z :=
  if c =? 97 then Some 7 else if c =? 98 then Some 8 else if c =? 102 then Some 12
  else if c =? 110 then Some 10 else if c =? 114 then Some 13 else if c =? 116 then Some 9
  else if c =? 118 then Some 11 else if c =? 92 then Some 92 else if c =? 34 then Some 34
  else if c =? 39 then Some 39 else None.

Definition sitem_bytes (i : sitem) : bytes :=
  match i with
  | SiChar c => [c]
  | SiEsc c => [92; c]
  | SiEscNl k => 92 :: nl_bytes k
  | SiDec d1 d2 d3 => [92; 48 + d1; 48 + d2; 48 + d3]
  end.

Definition sitem_value (i : sitem) : Z :=
  match i with
  | SiChar c => c
  | SiEsc c => match esc_value c with Some v => v | None => c end
  | SiEscNl _ => 10
  | SiDec d1 d2 d3 => (d1 * 10 + d2) * 10 + d3
  end.

Definition is_digit_val (d : Z) : bool := (0 <=? d) && (d <=? 9).

Definition sitem_ok (q : Z) (i : sitem) : bool :=
  match i with
  | SiChar c => is_byte c && negb (c =? q) && negb (c =? 92) && negb (is_nl c)
  | SiEsc c => match esc_value c with Some _ => true | None => false end
  | SiEscNl _ => true
  | SiDec d1 d2 d3 => is_digit_val d1 && is_digit_val d2 && is_digit_val d3
                      && ((d1 * 10 + d2) * 10 + d3 <=? 255)
  end.

(* greedy line-end normalisation inside long strings: every line end becomes "\n" *)
Fixpoint nl_norm (s : bytes) : bytes :=
  match s with
  | [] => []
  | c :: r =>
    if is_nl c then
      10 :: match r with
            | d :: r' => if is_nl d && negb (d =? c) then nl_norm r' else nl_norm r
            | [] => []
            end
    else c :: nl_norm r
  end.

Definition drop_first_nl (s : bytes) : bytes :=
  match s with 10 :: r => r | _ => s end.

(* operators and punctuation: token type -> source text *)
Definition sym_table : list (Z * bytes) :=
  [ (43, [43]); (45, [45]); (42, [42]); (47, [47]); (37, [37]); (94, [94]); (35, [35]);
    (TEqeq, [61; 61]); (TNeq, [126; 61]); (TLte, [60; 61]); (TGte, [62; 61]);
    (60, [60]); (62, [62]); (61, [61]);
    (40, [40]); (41, [41]); (123, [123]); (125, [125]); (91, [91]); (93, [93]);
    (59, [59]); (58, [58]); (44, [44]); (46, [46]);
    (T2Comma, [46; 46]); (T3Comma, [46; 46; 46]); (T2Colon, [58; 58]) ].

Fixpoint lookup_sym (l : list (Z * bytes)) (ty : Z) : option bytes :=
  match l with
  | [] => None
  | (t, b) :: l' => if t =? ty then Some b else lookup_sym l' ty
  end.

Definition sym_bytes (ty : Z) : bytes :=
  match lookup_sym sym_table ty with Some b => b | None => [] end.

Definition lexeme_bytes (l : lexeme) : bytes :=
  match l with
  | LxName s => s
  | LxNumber s => s
  | LxString q items => q :: flat_map sitem_bytes items ++ [q]
  | LxLong lvl body => open_bracket lvl ++ body ++ close_bracket lvl
  | LxSym ty => sym_bytes ty
  end.

Definition lexeme_type (l : lexeme) : Z :=
  match l with
  | LxName s => match lookup_word reserved_words s with Some t => t | None => TIdent end
  | LxNumber _ => TNumber
  | LxString _ _ => TString
  | LxLong _ _ => TString
  | LxSym ty => ty
  end.

(* The token text the parser receives.  For "." gopher-lua delivers an empty text (the parser
   never reads it); every other text is what Lua 5.1 prescribes. *)
Definition lexeme_text (l : lexeme) : bytes :=
  match l with
  | LxName s => s
  | LxNumber s => s
  | LxString _ items => map sitem_value items
  | LxLong _ body => drop_first_nl (nl_norm body)
  | LxSym ty => if ty =? 46 then [] else sym_bytes ty
  end.

(* Numerals of Lua 5.1: digits* [ "." digits* ] with at least one digit, then an optional
   exponent e|E [+|-] digits+ ; or 0x|0X hexdigits+ . *)
Fixpoint span_dec (s : bytes) : bytes * bytes :=
  match s with
  | c :: r => if is_dec c then let '(a, b) := span_dec r in (c :: a, b) else ([], s)
  | [] => ([], [])
  end.

Definition exponent_ok (s : bytes) : bool :=
  match s with
  | [] => true
  | e :: r =>
    ((e =? 101) || (e =? 69)) &&
    let r1 := match r with sg :: r' => if (sg =? 45) || (sg =? 43) then r' else r | [] => r end in
    match span_dec r1 with
    | (_ :: _, []) => true
    | _ => false
    end
  end.

Definition hex_number_ok (s : bytes) : bool :=
  match s with
  | 48 :: x :: (_ :: _) as r => ((x =? 120) || (x =? 88)) && forallb is_hex r
  | _ => false
  end.

Definition dec_number_ok (s : bytes) : bool :=
  let '(d1, r) := span_dec s in
  let '(d2, r2) := match r with 46 :: r1 => span_dec r1 | _ => ([], r) end in
  negb (Nat.eqb (length d1 + length d2) 0) && exponent_ok r2.

Definition number_ok (s : bytes) : bool := hex_number_ok s || dec_number_ok s.

Definition name_ok (s : bytes) : bool :=
  match s with
  | c :: r => is_ident c 0 && forallb (fun c => is_ident c 1) r
  | [] => false
  end.

Definition lexeme_ok (l : lexeme) : bool :=
  match l with
  | LxName s => name_ok s
  | LxNumber s => number_ok s
  | LxString q items => ((q =? 34) || (q =? 39)) && forallb (sitem_ok q) items
  | LxLong lvl body => is_bytes body && ml_body_ok lvl body
  | LxSym ty => match lookup_sym sym_table ty with Some _ => true | None => false end
  end.

(* ---------- where two lexemes may touch ---------- *)

Definition is_alnum_ (c : Z) : bool := is_ident c 1.

(* a "." may follow a numeral directly when the numeral is hexadecimal or has an exponent: Lua 5.1's
   read_numeral takes dots only in its first phase (digits and dots), so 0x1..x and 1e2..x are
   numeral, "..", x; after a plain decimal numeral the dot would be taken into it (1..x is malformed) *)
Definition num_dot_ok (s : bytes) : bool :=
  hex_number_ok s || existsb (fun c => (c =? 101) || (c =? 69)) s.

(* c = the byte that follows the lexeme in the rendering (-1 at the end of input).
   false = the lexeme would be read differently (merge with what follows). *)
Definition no_merge (l : lexeme) (c : Z) : bool :=
  match l with
  | LxName _ => negb (is_alnum_ c)
  | LxNumber s => negb (is_alnum_ c) && (negb (c =? 46) || num_dot_ok s)
  | LxString _ _ => true
  | LxLong _ _ => true
  | LxSym ty =>
    if ty =? 45 then negb (c =? 45)
    else if ty =? 91 then negb (c =? 91) && negb (c =? 61)
    else if ty =? 46 then negb (c =? 46) && negb (is_dec c)
    else if ty =? T2Comma then negb (c =? 46)
    else if (ty =? 61) || (ty =? 60) || (ty =? 62) then negb (c =? 61)
    else if ty =? 58 then negb (c =? 58)
    else true
  end.

(* ---------- rendering ---------- *)

(* a program text = lexemes, each preceded by a separator, plus a trailing separator *)
Fixpoint render (items : list (sep * lexeme)) (trailer : sep) : bytes :=
  match items with
  | [] => sep_bytes trailer
  | (s, l) :: r => sep_bytes s ++ lexeme_bytes l ++ render r trailer
  end.

Definition head_or_eof (s : bytes) : Z := match s with [] => -1 | c :: _ => c end.

Fixpoint good (items : list (sep * lexeme)) (trailer : sep) : bool :=
  match items with
  | [] => forallb sepitem_ok trailer
  | (s, l) :: r =>
    forallb sepitem_ok s && lexeme_ok l && no_merge l (head_or_eof (render r trailer)) && good r trailer
  end.

(* the tokens a conforming lexer must deliver: type, text, offset; line by the reference rule *)
Fixpoint expected_from (bs : bytes) (items : list (sep * lexeme)) (pos : Z) : list token :=
  match items with
  | [] => []
  | (s, l) :: r =>
    let o := pos + len (sep_bytes s) in
    mkTok (lexeme_type l) (lexeme_text l) (line_of_offset bs o) o
      :: expected_from bs r (o + len (lexeme_bytes l))
  end.

Definition expected_tokens (items : list (sep * lexeme)) (trailer : sep) : list token :=
  expected_from (render items trailer) items 0.
