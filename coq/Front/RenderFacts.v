(* Layout independence: lexing the rendering of lexemes + separators gives back the lexemes. *)
From GL Require Import Common.Bytes Common.BytesFacts Front.Lines Front.Lexer Front.LexerFacts
  Front.LinesFacts Front.Render.
From Coq Require Import Lia ZifyBool.
Open Scope Z_scope.

(* ---------- states described by what is left and how much was consumed ---------- *)

Definition at_ (st : state) (q : bytes) (o : Z) : Prop := rest st = q /\ off st = o.

Definition byteb (c : Z) : bool := (0 <=? c) && (c <? 256).

Lemma wc_byte c : byteb c = true -> wc c = c.
Proof. unfold byteb, wc. intros. apply Z.mod_small. lia. Qed.

Lemma at_rlen st q o : at_ st q o -> rlen st = length q.
Proof. intros [H _]. unfold rlen. rewrite H. reflexivity. Qed.

Lemma peek_at st c q o : at_ st (c :: q) o -> peek st = c.
Proof. intros [H _]. unfold peek. rewrite H. reflexivity. Qed.

Lemma peek_at_nil st o : at_ st [] o -> peek st = -1.
Proof. intros [H _]. unfold peek. rewrite H. reflexivity. Qed.

Lemma peek_at_head st q o : at_ st q o -> peek st = head_or_eof q.
Proof. intros [H _]. unfold peek, head_or_eof. rewrite H. reflexivity. Qed.

(* Next on an ordinary byte *)
Lemma next_plain st c q o :
  at_ st (c :: q) o -> is_nl c = false -> byteb c = true ->
  exists st', next st = (c, st') /\ at_ st' q (o + 1) /\ line st' = line st.
Proof.
  intros [H1 H2] Hn Hb.
  destruct (next_cases st) as [[E _]|[(c'&r&E&_&_&N)|[(c'&d&r&E&Hn1&_&_&N)|[(c'&r&E&Hn1&_&N)|(r&E&N)]]]];
    rewrite E in H1; try discriminate; inversion H1; subst.
  - eexists; split; [exact N|]. repeat split; simpl; auto.
  - congruence.
  - congruence.
  - unfold byteb in Hb. lia.
Qed.

(* does a line end c followed by q form a two-byte line end? *)
Definition pairs_with (c : Z) (q : bytes) : bool :=
  match q with d :: _ => is_nl d && negb (d =? c) | [] => false end.

Lemma next_nl1 st c q o :
  at_ st (c :: q) o -> is_nl c = true -> pairs_with c q = false ->
  exists st', next st = (10, st') /\ at_ st' q (o + 1).
Proof.
  intros [H1 H2] Hn Hp.
  destruct (next_cases st) as [[E _]|[(c'&r&E&Hn1&_&N)|[(c'&d&r&E&Hn1&Hn2&Hd&N)|[(c'&r&E&Hn1&_&N)|(r&E&N)]]]];
    rewrite E in H1; try discriminate; inversion H1; subst.
  - congruence.
  - simpl in Hp. rewrite Hn2 in Hp. simpl in Hp. lia.
  - eexists; split; [exact N|]. split; simpl; auto.
  - discriminate.
Qed.

Lemma next_nl2 st c d q o :
  at_ st (c :: d :: q) o -> is_nl c = true -> is_nl d = true -> d <> c ->
  exists st', next st = (10, st') /\ at_ st' q (o + 2).
Proof.
  intros [H1 H2] Hn Hn' Hd.
  destruct (next_cases st) as [[E _]|[(c'&r&E&Hn1&_&N)|[(c'&d'&r&E&Hn1&Hn2&Hd'&N)|[(c'&r&E&Hn1&Hr&N)|(r&E&N)]]]];
    rewrite E in H1; try discriminate; inversion H1; subst.
  - congruence.
  - eexists; split; [exact N|]. split; simpl; auto.
  - rewrite Hn' in Hr. simpl in Hr. lia.
  - discriminate.
Qed.

Lemma next_eof st o :
  at_ st [] o -> exists st', next st = (-1, st') /\ at_ st' [] o.
Proof.
  intros [H1 H2].
  destruct (next_cases st) as [[E N]|[(c'&r&E&_)|[(c'&d&r&E&_)|[(c'&r&E&_)|(r&E&_)]]]];
    rewrite E in H1; try discriminate.
  eexists; split; [exact N|]. split; simpl; auto.
Qed.

(* ---------- finite checks on character classes ---------- *)

Definition blankb (c : Z) : bool := is_blank c || is_nl c.

Definition upto (n : nat) : list Z := map Z.of_nat (seq 0 n).

Lemma upto_in n c : 0 <= c < Z.of_nat n -> In c (upto n).
Proof.
  intros H. unfold upto. apply in_map_iff. exists (Z.to_nat c). split; [lia|].
  apply in_seq. lia.
Qed.

Lemma forall_bytes (P : Z -> bool) :
  forallb P (upto 256) = true -> forall c, byteb c = true -> P c = true.
Proof.
  intros H c Hc. rewrite forallb_forall in H. apply H. apply upto_in. unfold byteb in Hc. lia.
Qed.

Lemma mask2_blank c : byteb c = true -> in_mask whitespace2 c = blankb c.
Proof.
  intros Hc. apply Bool.eqb_prop.
  revert c Hc. apply (forall_bytes (fun c => Bool.eqb (in_mask whitespace2 c) (blankb c))).
  vm_compute. reflexivity.
Qed.

Lemma mask1_blank c : byteb c = true -> in_mask whitespace1 c = is_blank c.
Proof.
  intros Hc. apply Bool.eqb_prop.
  revert c Hc. apply (forall_bytes (fun c => Bool.eqb (in_mask whitespace1 c) (is_blank c))).
  vm_compute. reflexivity.
Qed.

Lemma is_bytes_forall s : is_bytes s = true <-> forallb byteb s = true.
Proof. unfold is_bytes, is_byte, byteb. reflexivity. Qed.

Lemma len_cons {A} (x : A) l : len (x :: l) = 1 + len l.
Proof. unfold len. simpl length. lia. Qed.

Lemma len_nil {A} : len (@nil A) = 0.
Proof. reflexivity. Qed.

(* ---------- blank runs ---------- *)

(* what may follow a blank run: the end of input, or a byte that is not blank space *)
Definition Xstart (X : bytes) : Prop :=
  match X with [] => True | c :: _ => blankb c = false /\ byteb c = true end.

Lemma blank_byte c : blankb c = true -> byteb c = true.
Proof. unfold blankb, is_blank, is_nl, byteb. lia. Qed.

Lemma blankb_nl c : is_nl c = true -> blankb c = true.
Proof. unfold blankb. intros ->. apply orb_true_r. Qed.

Lemma Xstart_nopair c X : Xstart X -> pairs_with c X = false.
Proof.
  destruct X as [|d X']; simpl; auto. intros [H _]. unfold blankb in H.
  apply orb_false_iff in H. destruct H as [_ H]. rewrite H. reflexivity.
Qed.

Lemma skip_ws2_run fuel : forall w st X o,
  forallb blankb w = true -> Xstart X -> at_ st (w ++ X) o -> (length (w ++ X) < fuel)%nat ->
  exists stX, at_ stX X (o + len w) /\
              skip_ws fuel whitespace2 st = (let '(ch, st1) := next stX in Ok ch st1).
Proof.
  induction fuel as [|f IH]; intros w st X o Hw HX Hat Hf; [lia|].
  destruct w as [|c w'].
  - simpl in Hat. exists st. rewrite len_nil, Z.add_0_r. split; auto.
    cbn [skip_ws]. destruct X as [|c X'].
    + destruct (next_eof _ _ Hat) as (st' & N & _). rewrite N.
      rewrite in_mask_neg by lia. reflexivity.
    + destruct HX as [Hb Hy]. assert (Hn : is_nl c = false).
      { unfold blankb in Hb. apply orb_false_iff in Hb. tauto. }
      destruct (next_plain _ _ _ _ Hat Hn Hy) as (st' & N & _). rewrite N.
      rewrite mask2_blank, Hb by auto. reflexivity.
  - simpl in Hw. apply andb_true_iff in Hw. destruct Hw as [Hc Hw'].
    pose proof (blank_byte _ Hc) as Hy.
    cbn [skip_ws]. rewrite <- app_comm_cons in Hat.
    destruct (is_nl c) eqn:Hn.
    + destruct (pairs_with c (w' ++ X)) eqn:Hp.
      * destruct w' as [|d w''].
        { simpl in Hp. rewrite (Xstart_nopair c X HX) in Hp. discriminate. }
        simpl in Hp. apply andb_true_iff in Hp. destruct Hp as [Hd1 Hd2].
        rewrite <- app_comm_cons in Hat.
        destruct (next_nl2 _ _ _ _ _ Hat Hn Hd1 ltac:(lia)) as (st' & N & Hat').
        rewrite N. cbn [in_mask]. rewrite in_ws2_10.
        simpl in Hw'. apply andb_true_iff in Hw'. destruct Hw' as [_ Hw''].
        destruct (IH w'' st' X (o + 2) Hw'' HX Hat') as (stX & A & E).
        { simpl in Hf. simpl. lia. }
        exists stX. split; [|exact E]. rewrite !len_cons. replace (o + (1 + (1 + len w''))) with (o + 2 + len w'') by lia. exact A.
      * destruct (next_nl1 _ _ _ _ Hat Hn Hp) as (st' & N & Hat').
        rewrite N. rewrite in_ws2_10.
        destruct (IH w' st' X (o + 1) Hw' HX Hat') as (stX & A & E).
        { simpl in Hf. lia. }
        exists stX. split; [|exact E]. rewrite len_cons. replace (o + (1 + len w')) with (o + 1 + len w') by lia. exact A.
    + destruct (next_plain _ _ _ _ Hat Hn Hy) as (st' & N & Hat' & _).
      rewrite N. rewrite mask2_blank, Hc by auto.
      destruct (IH w' st' X (o + 1) Hw' HX Hat') as (stX & A & E).
      { simpl in Hf. lia. }
      exists stX. split; [|exact E]. rewrite len_cons. replace (o + (1 + len w')) with (o + 1 + len w') by lia. exact A.
Qed.

(* the two passes of Scan together *)
Definition skip2 (fuel : nat) (st : state) : res Z :=
  match skip_ws fuel whitespace1 st with
  | Ok ch0 st0 => if (ch0 =? 10) || (ch0 =? 13) then skip_ws fuel whitespace2 st0 else Ok ch0 st0
  | Err e => Err e
  | OutOfFuel => OutOfFuel
  end.

Lemma scan_body_skip2 fuel redo st :
  scan_body fuel redo st = lift_tok (skip2 fuel st) (fun ch st1 => scan_tok fuel redo ch st1).
Proof.
  unfold scan_body, skip2. destruct (skip_ws fuel whitespace1 st); reflexivity.
Qed.

Lemma skip2_run fuel : forall w st X o,
  forallb blankb w = true -> Xstart X -> at_ st (w ++ X) o -> (length (w ++ X) < fuel)%nat ->
  exists stX, at_ stX X (o + len w) /\
              skip2 fuel st = (let '(ch, st1) := next stX in Ok ch st1).
Proof.
  unfold skip2.
  assert (G : forall n w st X o,
    (n <= fuel)%nat ->
    forallb blankb w = true -> Xstart X -> at_ st (w ++ X) o -> (length (w ++ X) < n)%nat ->
    exists stX, at_ stX X (o + len w) /\
      match skip_ws n whitespace1 st with
      | Ok ch0 st0 => if (ch0 =? 10) || (ch0 =? 13) then skip_ws fuel whitespace2 st0 else Ok ch0 st0
      | Err e => Err e
      | OutOfFuel => OutOfFuel
      end = (let '(ch, st1) := next stX in Ok ch st1)).
  { induction n as [|f IH]; intros w st X o Hle Hw HX Hat Hf; [lia|].
    destruct w as [|c w'].
    - simpl in Hat. exists st. rewrite len_nil, Z.add_0_r. split; auto.
      cbn [skip_ws]. destruct X as [|c X'].
      + destruct (next_eof _ _ Hat) as (st' & N & _). rewrite N.
        rewrite in_mask_neg by lia. reflexivity.
      + destruct HX as [Hb Hy]. assert (Hn : is_nl c = false).
        { unfold blankb in Hb. apply orb_false_iff in Hb. tauto. }
        destruct (next_plain _ _ _ _ Hat Hn Hy) as (st' & N & _). rewrite N.
        assert (Hib : is_blank c = false) by (unfold blankb in Hb; apply orb_false_iff in Hb; tauto).
        rewrite mask1_blank, Hib by auto.
        unfold is_nl in Hn. rewrite Hn. reflexivity.
    - simpl in Hw. apply andb_true_iff in Hw. destruct Hw as [Hc Hw'].
      pose proof (blank_byte _ Hc) as Hy.
      cbn [skip_ws]. rewrite <- app_comm_cons in Hat.
      destruct (is_nl c) eqn:Hn.
      + (* first line end: the second pass takes over *)
        assert (M1 : in_mask whitespace1 10 = false) by reflexivity.
        destruct (pairs_with c (w' ++ X)) eqn:Hp.
        * destruct w' as [|d w''].
          { simpl in Hp. rewrite (Xstart_nopair c X HX) in Hp. discriminate. }
          simpl in Hp. apply andb_true_iff in Hp. destruct Hp as [Hd1 Hd2].
          rewrite <- app_comm_cons in Hat.
          destruct (next_nl2 _ _ _ _ _ Hat Hn Hd1 ltac:(lia)) as (st' & N & Hat').
          rewrite N, M1. cbn [Z.eqb orb Pos.eqb].
          simpl in Hw'. apply andb_true_iff in Hw'. destruct Hw' as [_ Hw''].
          destruct (skip_ws2_run fuel w'' st' X (o + 2) Hw'' HX Hat') as (stX & A & E).
          { simpl in Hf. simpl. lia. }
          exists stX. split; [|exact E]. rewrite !len_cons. replace (o + (1 + (1 + len w''))) with (o + 2 + len w'') by lia. exact A.
        * destruct (next_nl1 _ _ _ _ Hat Hn Hp) as (st' & N & Hat').
          rewrite N, M1. cbn [Z.eqb orb Pos.eqb].
          destruct (skip_ws2_run fuel w' st' X (o + 1) Hw' HX Hat') as (stX & A & E).
          { simpl in Hf. lia. }
          exists stX. split; [|exact E]. rewrite len_cons. replace (o + (1 + len w')) with (o + 1 + len w') by lia. exact A.
      + destruct (next_plain _ _ _ _ Hat Hn Hy) as (st' & N & Hat' & _).
        rewrite N. assert (Hib : is_blank c = true).
        { unfold blankb in Hc. rewrite Hn in Hc. rewrite orb_false_r in Hc. exact Hc. }
        rewrite mask1_blank, Hib by auto.
        destruct (IH w' st' X (o + 1) ltac:(lia) Hw' HX Hat') as (stX & A & E).
        { simpl in Hf. lia. }
        exists stX. split; [|exact E]. rewrite len_cons. replace (o + (1 + len w')) with (o + 1 + len w') by lia. exact A. }
  intros. eapply G; eauto.
Qed.

(* ---------- runs of '=' (countSep) ---------- *)

Lemma next_fst_head st Y o c : at_ st Y o -> fst (next st) = c -> c <> 10 -> c <> -1 -> head_or_eof Y = c.
Proof.
  intros [H1 _] E H10 Hm.
  destruct (next_cases st) as [[E1 N]|[(c'&r&E1&_&_&N)|[(c'&d&r&E1&_&_&_&N)|[(c'&r&E1&_&_&N)|(r&E1&N)]]]];
    rewrite N in E; simpl in E; subst; try congruence.
  rewrite E1. reflexivity.
Qed.

Lemma count_sep_run fuel : forall k st Y o cnt c st1,
  at_ st (repeat 61 k ++ Y) o -> head_or_eof Y <> 61 ->
  (length (repeat 61%Z k ++ Y) < fuel)%nat ->
  next st = (c, st1) ->
  exists stZ ch2 st2, at_ stZ Y (o + Z.of_nat k) /\ next stZ = (ch2, st2) /\
                      count_sep fuel c st1 cnt = Ok ((cnt + k)%nat, ch2) st2.
Proof.
  induction fuel as [|f IH]; intros k st Y o cnt c st1 Hat HZ Hf N; [lia|].
  destruct k as [|k'].
  - simpl in Hat. exists st, c, st1. rewrite Z.add_0_r, Nat.add_0_r. split; auto. split; auto.
    cbn [count_sep]. destruct (c =? 61) eqn:E; auto.
    exfalso. apply HZ. eapply next_fst_head; eauto; [rewrite N; simpl|..]; lia.
  - simpl repeat in Hat. rewrite <- app_comm_cons in Hat.
    destruct (next_plain _ _ _ _ Hat ltac:(reflexivity) ltac:(reflexivity)) as (st' & N' & Hat' & _).
    rewrite N in N'. inversion N'; subst c st1.
    cbn [count_sep]. cbn [Z.eqb Pos.eqb].
    destruct (next st') as [c' st1'] eqn:N2.
    destruct (IH k' st' Y (o + 1) (S cnt) c' st1' Hat' HZ ltac:(simpl in Hf; lia) N2)
      as (stZ & ch2 & st2 & A & B & C).
    exists stZ, ch2, st2. split; [replace (o + Z.of_nat (S k')) with (o + 1 + Z.of_nat k') by lia; exact A|].
    split; auto. rewrite C. f_equal. f_equal. lia.
Qed.

(* ---------- long brackets ---------- *)

Definition noclose (n : nat) (B : bytes) : Prop :=
  occurs_before (close_bracket n) (B ++ close_bracket n) (length B) = false.

Lemma noclose_tail n c B : noclose n (c :: B) -> noclose n B.
Proof.
  unfold noclose. simpl length. cbn [occurs_before]. rewrite <- app_comm_cons.
  intros H. apply orb_false_iff in H. tauto.
Qed.

Lemma noclose_app n P B : noclose n (P ++ B) -> noclose n B.
Proof. induction P; simpl; auto. intros. apply IHP. eapply noclose_tail; eauto. Qed.

Lemma noclose_head n c B : noclose n (c :: B) -> prefixb (close_bracket n) (c :: B ++ close_bracket n) = false.
Proof.
  unfold noclose. simpl length. cbn [occurs_before]. rewrite <- app_comm_cons.
  intros H. apply orb_false_iff in H. tauto.
Qed.

Lemma nl_norm_plain c r : is_nl c = false -> nl_norm (c :: r) = c :: nl_norm r.
Proof. simpl. intros ->. reflexivity. Qed.

Lemma nl_norm_eqs k r : nl_norm (repeat 61 k ++ r) = repeat 61 k ++ nl_norm r.
Proof. induction k; simpl; auto. f_equal. exact IHk. Qed.

Lemma len_repeat {A} (x : A) k : len (repeat x k) = Z.of_nat k.
Proof. unfold len. rewrite repeat_length. reflexivity. Qed.

Lemma len_close n : len (close_bracket n) = Z.of_nat n + 2.
Proof. unfold close_bracket. rewrite len_cons, len_app, len_repeat, len_cons, len_nil. lia. Qed.

(* split off the maximal run of '=' *)
Lemma eq_run (B : bytes) : exists k B', B = repeat 61 k ++ B' /\ head_or_eof B' <> 61.
Proof.
  induction B as [|c B IH].
  - exists O, []. simpl. split; auto. lia.
  - destruct (Z.eq_dec c 61) as [->|Hc].
    + destruct IH as (k & B' & E & H). exists (S k), B'. simpl. rewrite E. auto.
    + exists O, (c :: B). simpl. auto.
Qed.

Lemma prefixb_app p s : prefixb p (p ++ s) = true.
Proof. induction p; simpl; auto. rewrite Z.eqb_refl. auto. Qed.

Lemma is_bytes_cons c B : is_bytes (c :: B) = true -> byteb c = true /\ is_bytes B = true.
Proof. unfold is_bytes, is_byte, byteb. simpl. intros H. apply andb_true_iff in H. exact H. Qed.

Lemma is_bytes_app_r a b : is_bytes (a ++ b) = true -> is_bytes b = true.
Proof. apply is_bytes_app. Qed.


Ltac lens := unfold close_bracket in *; repeat (rewrite app_length in * || rewrite repeat_length in * || simpl length in * ); lia.
Lemma ml_run fuel n tail : forall B st acc o ch st1,
  is_bytes B = true -> noclose n B ->
  at_ st (B ++ close_bracket n ++ tail) o ->
  (length (B ++ close_bracket n ++ tail) < fuel)%nat ->
  next st = (ch, st1) ->
  exists st', ml_loop fuel n ch st1 acc = Ok (acc ++ nl_norm B) st' /\
              at_ st' tail (o + len B + len (close_bracket n)).
Proof.
  induction fuel as [|f IH]; intros B st acc o ch st1 Hb Hnc Hat Hf N; [lia|].
  destruct B as [|c B'].
  - (* the closing bracket *)
    simpl in Hat. unfold close_bracket in Hat. simpl in Hat.
    destruct (next_plain _ _ _ _ Hat ltac:(reflexivity) ltac:(reflexivity)) as (s1 & N1 & Hat1 & _).
    rewrite N in N1. inversion N1; subst ch st1. clear N1.
    cbn [ml_loop]. cbn [Z.ltb Z.eqb Pos.eqb Z.compare].
    destruct (next s1) as [c0 st0] eqn:N0.
    rewrite <- app_assoc in Hat1. simpl in Hat1.
    destruct (count_sep_run f n s1 (93 :: tail) (o + 1) O c0 st0 Hat1 ltac:(simpl; lia)
                ltac:(lens) N0)
      as (stZ & ch2 & st2 & A & NZ & C).
    rewrite C.
    destruct (next_plain _ _ _ _ A ltac:(reflexivity) ltac:(reflexivity)) as (s2 & N2 & Hat2 & _).
    rewrite NZ in N2. inversion N2; subst ch2 st2.
    simpl Nat.add. rewrite Nat.eqb_refl. cbn [Z.eqb Pos.eqb andb].
    exists s2. rewrite app_nil_r. split; auto.
    rewrite len_nil, len_close. replace (o + 0 + (Z.of_nat n + 2)) with (o + 1 + Z.of_nat n + 1) by lia. exact Hat2.
  - destruct (is_bytes_cons _ _ Hb) as [Hc Hb'].
    rewrite <- app_comm_cons in Hat.
    destruct (Z.eq_dec c 93) as [->|Hc93].
    + (* a "]" inside the body: not the closing bracket *)
      destruct (next_plain _ _ _ _ Hat ltac:(reflexivity) ltac:(reflexivity)) as (s1 & N1 & Hat1 & _).
      rewrite N in N1. inversion N1; subst ch st1. clear N1.
      cbn [ml_loop]. cbn [Z.ltb Z.eqb Pos.eqb Z.compare].
      destruct (next s1) as [c0 st0] eqn:N0.
      destruct (eq_run B') as (k & B'' & EB & HB'').
      assert (HZ : head_or_eof (B'' ++ close_bracket n ++ tail) <> 61).
      { destruct B''; simpl in *; auto. lia. }
      rewrite EB, <- app_assoc in Hat1.
      destruct (count_sep_run f k s1 _ (o + 1) O c0 st0 Hat1 HZ
                  ltac:(rewrite EB in Hf; lens) N0)
        as (stZ & ch2 & st2 & A & NZ & C).
      rewrite C. simpl Nat.add.
      destruct (Nat.eqb n k && (ch2 =? 93)) eqn:Hcl.
      * (* would be a closing bracket inside the body *)
        exfalso. apply andb_true_iff in Hcl. destruct Hcl as [Hk Hch].
        apply Nat.eqb_eq in Hk. subst k. assert (ch2 = 93) by lia. subst ch2.
        assert (HH : head_or_eof (B'' ++ close_bracket n ++ tail) = 93).
        { eapply next_fst_head; eauto; [rewrite NZ; reflexivity|lia|lia]. }
        pose proof (noclose_head _ _ _ Hnc) as Hp. rewrite EB in Hp.
        assert (Hp' : prefixb (close_bracket n) (93 :: (repeat 61 n ++ B'') ++ close_bracket n) = true).
        { destruct B'' as [|b B3].
          - rewrite app_nil_r. unfold close_bracket.
            replace (93 :: repeat 61 n ++ 93 :: repeat 61 n ++ [93])
              with ((93 :: repeat 61 n ++ [93]) ++ repeat 61 n ++ [93])
              by (simpl; rewrite <- app_assoc; reflexivity).
            apply prefixb_app.
          - simpl in HH. subst b. unfold close_bracket at 1.
            replace (93 :: (repeat 61 n ++ 93 :: B3) ++ close_bracket n)
              with ((93 :: repeat 61 n ++ [93]) ++ B3 ++ close_bracket n).
            + apply prefixb_app.
            + simpl. rewrite <- !app_assoc. reflexivity. }
        rewrite Hp' in Hp. discriminate.
      * assert (Hb'' : is_bytes B'' = true) by (rewrite EB in Hb'; eapply is_bytes_app_r; eauto).
        assert (Hnc'' : noclose n B'').
        { apply (noclose_app n (93 :: repeat 61 k)). simpl. rewrite <- EB. exact Hnc. }
        destruct (IH B'' stZ (acc ++ 93 :: repeat 61 k) (o + 1 + Z.of_nat k) ch2 st2 Hb'' Hnc'' A
                    ltac:(rewrite EB in Hf; lens) NZ)
          as (st' & R & Hat').
        exists st'. rewrite R. split.
        -- f_equal. rewrite EB. rewrite nl_norm_plain by reflexivity. rewrite nl_norm_eqs.
           rewrite <- app_assoc. reflexivity.
        -- rewrite EB. rewrite len_cons, len_app, len_repeat.
           replace (o + (1 + (Z.of_nat k + len B'')) + len (close_bracket n))
             with (o + 1 + Z.of_nat k + len B'' + len (close_bracket n)) by lia. exact Hat'.
    + destruct (is_nl c) eqn:Hn.
      * (* a line end inside the body *)
        assert (Hch : forall s1, next st = (10, s1) ->
                 ml_loop (S f) n 10 s1 acc = (let '(c1, s2) := next s1 in ml_loop f n c1 s2 (acc ++ [10]))).
        { intros. cbn [ml_loop]. reflexivity. }
        destruct (pairs_with c (B' ++ close_bracket n ++ tail)) eqn:Hp.
        -- destruct B' as [|d B''].
           { simpl in Hp. unfold close_bracket in Hp. simpl in Hp. discriminate. }
           simpl in Hp. apply andb_true_iff in Hp. destruct Hp as [Hd1 Hd2].
           rewrite <- app_comm_cons in Hat.
           destruct (next_nl2 _ _ _ _ _ Hat Hn Hd1 ltac:(lia)) as (s1 & N1 & Hat1).
           rewrite N in N1. inversion N1; subst ch st1. clear N1.
           rewrite (Hch s1 N).
           destruct (next s1) as [c1 s2] eqn:N2.
           destruct (is_bytes_cons _ _ Hb') as [_ Hb''].
           destruct (IH B'' s1 (acc ++ [10]) (o + 2) c1 s2 Hb''
                       (noclose_tail _ _ _ (noclose_tail _ _ _ Hnc)) Hat1
                       ltac:(lens) N2) as (st' & R & Hat').
           exists st'. rewrite R. split.
           ++ f_equal. simpl. rewrite Hn, Hd1. replace (d =? c) with false by lia. simpl.
              rewrite <- app_assoc. reflexivity.
           ++ rewrite !len_cons. replace (o + (1 + (1 + len B'')) + len (close_bracket n))
                with (o + 2 + len B'' + len (close_bracket n)) by lia. exact Hat'.
        -- destruct (next_nl1 _ _ _ _ Hat Hn Hp) as (s1 & N1 & Hat1).
           rewrite N in N1. inversion N1; subst ch st1. clear N1.
           rewrite (Hch s1 N).
           destruct (next s1) as [c1 s2] eqn:N2.
           destruct (IH B' s1 (acc ++ [10]) (o + 1) c1 s2 Hb' (noclose_tail _ _ _ Hnc) Hat1
                       ltac:(lens) N2) as (st' & R & Hat').
           exists st'. rewrite R. split.
           ++ f_equal. simpl nl_norm. rewrite Hn.
              destruct B' as [|d B3].
              ** simpl. rewrite <- app_assoc. reflexivity.
              ** simpl in Hp. replace (is_nl d && negb (d =? c)) with false. rewrite <- app_assoc. reflexivity.
           ++ rewrite len_cons. replace (o + (1 + len B') + len (close_bracket n))
                with (o + 1 + len B' + len (close_bracket n)) by lia. exact Hat'.
      * (* an ordinary byte *)
        destruct (next_plain _ _ _ _ Hat Hn Hc) as (s1 & N1 & Hat1 & _).
        rewrite N in N1. inversion N1; subst ch st1. clear N1.
        cbn [ml_loop].
        replace (c <? 0) with false by (unfold byteb in Hc; lia).
        replace (c =? 93) with false by lia.
        destruct (next s1) as [c1 s2] eqn:N2.
        destruct (IH B' s1 (acc ++ [wc c]) (o + 1) c1 s2 Hb' (noclose_tail _ _ _ Hnc) Hat1
                    ltac:(lens) N2) as (st' & R & Hat').
        exists st'. rewrite R. split.
        -- f_equal. rewrite nl_norm_plain by auto. rewrite wc_byte by auto.
           rewrite <- app_assoc. reflexivity.
        -- rewrite len_cons. replace (o + (1 + len B') + len (close_bracket n))
             with (o + 1 + len B' + len (close_bracket n)) by lia. exact Hat'.
Qed.
