(* Layout independence: lexing the rendering of lexemes + separators gives back the lexemes. *)
From GL Require Import Common.Bytes Common.BytesFacts Front.Lines Front.Lexer Front.LexerFacts
  Front.LinesFacts Front.Render.
From Coq Require Import Lia ZifyBool.
Open Scope Z_scope.

(* ---------- states described by what is left and how much was consumed ---------- *)

Definition at_ (st : state) (q : bytes) (o : Z) : Prop := rest st = q /\ off st = o.

Definition byteb (c : Z) : bool := (0 <=? c) && (c <? 256).

Lemma wc_byte c : byteb c = true -> wc c = c.
Proof. unfold byteb, wc. intros. apply Z.mod_small. lia. Qed.

Lemma at_rlen st q o : at_ st q o -> rlen st = length q.
Proof. intros [H _]. unfold rlen. rewrite H. reflexivity. Qed.

Lemma peek_at st c q o : at_ st (c :: q) o -> peek st = c.
Proof. intros [H _]. unfold peek. rewrite H. reflexivity. Qed.

Lemma peek_at_nil st o : at_ st [] o -> peek st = -1.
Proof. intros [H _]. unfold peek. rewrite H. reflexivity. Qed.

Lemma peek_at_head st q o : at_ st q o -> peek st = head_or_eof q.
Proof. intros [H _]. unfold peek, head_or_eof. rewrite H. reflexivity. Qed.

(* Next on an ordinary byte *)
Lemma next_plain st c q o :
  at_ st (c :: q) o -> is_nl c = false -> byteb c = true ->
  exists st', next st = (c, st') /\ at_ st' q (o + 1) /\ line st' = line st.
Proof.
  intros [H1 H2] Hn Hb.
  destruct (next_cases st) as [[E _]|[(c'&r&E&_&_&N)|[(c'&d&r&E&Hn1&_&_&N)|[(c'&r&E&Hn1&_&N)|(r&E&N)]]]];
    rewrite E in H1; try discriminate; inversion H1; subst.
  - eexists; split; [exact N|]. repeat split; simpl; auto.
  - congruence.
  - congruence.
  - unfold byteb in Hb. lia.
Qed.

(* does a line end c followed by q form a two-byte line end? *)
Definition pairs_with (c : Z) (q : bytes) : bool :=
  match q with d :: _ => is_nl d && negb (d =? c) | [] => false end.

Lemma next_nl1 st c q o :
  at_ st (c :: q) o -> is_nl c = true -> pairs_with c q = false ->
  exists st', next st = (10, st') /\ at_ st' q (o + 1).
Proof.
  intros [H1 H2] Hn Hp.
  destruct (next_cases st) as [[E _]|[(c'&r&E&Hn1&_&N)|[(c'&d&r&E&Hn1&Hn2&Hd&N)|[(c'&r&E&Hn1&_&N)|(r&E&N)]]]];
    rewrite E in H1; try discriminate; inversion H1; subst.
  - congruence.
  - simpl in Hp. rewrite Hn2 in Hp. simpl in Hp. lia.
  - eexists; split; [exact N|]. split; simpl; auto.
  - discriminate.
Qed.

Lemma next_nl2 st c d q o :
  at_ st (c :: d :: q) o -> is_nl c = true -> is_nl d = true -> d <> c ->
  exists st', next st = (10, st') /\ at_ st' q (o + 2).
Proof.
  intros [H1 H2] Hn Hn' Hd.
  destruct (next_cases st) as [[E _]|[(c'&r&E&Hn1&_&N)|[(c'&d'&r&E&Hn1&Hn2&Hd'&N)|[(c'&r&E&Hn1&Hr&N)|(r&E&N)]]]];
    rewrite E in H1; try discriminate; inversion H1; subst.
  - congruence.
  - eexists; split; [exact N|]. split; simpl; auto.
  - rewrite Hn' in Hr. simpl in Hr. lia.
  - discriminate.
Qed.

Lemma next_eof st o :
  at_ st [] o -> exists st', next st = (-1, st') /\ at_ st' [] o.
Proof.
  intros [H1 H2].
  destruct (next_cases st) as [[E N]|[(c'&r&E&_)|[(c'&d&r&E&_)|[(c'&r&E&_)|(r&E&_)]]]];
    rewrite E in H1; try discriminate.
  eexists; split; [exact N|]. split; simpl; auto.
Qed.

(* ---------- finite checks on character classes ---------- *)

Definition blankb (c : Z) : bool := is_blank c || is_nl c.

Definition upto (n : nat) : list Z := map Z.of_nat (seq 0 n).

Lemma upto_in n c : 0 <= c < Z.of_nat n -> In c (upto n).
Proof.
  intros H. unfold upto. apply in_map_iff. exists (Z.to_nat c). split; [lia|].
  apply in_seq. lia.
Qed.

Lemma forall_bytes (P : Z -> bool) :
  forallb P (upto 256) = true -> forall c, byteb c = true -> P c = true.
Proof.
  intros H c Hc. rewrite forallb_forall in H. apply H. apply upto_in. unfold byteb in Hc. lia.
Qed.

Lemma mask2_blank c : byteb c = true -> in_mask whitespace2 c = blankb c.
Proof.
  intros Hc. apply Bool.eqb_prop.
  revert c Hc. apply (forall_bytes (fun c => Bool.eqb (in_mask whitespace2 c) (blankb c))).
  vm_compute. reflexivity.
Qed.

Lemma mask1_blank c : byteb c = true -> in_mask whitespace1 c = is_blank c.
Proof.
  intros Hc. apply Bool.eqb_prop.
  revert c Hc. apply (forall_bytes (fun c => Bool.eqb (in_mask whitespace1 c) (is_blank c))).
  vm_compute. reflexivity.
Qed.

Lemma is_bytes_forall s : is_bytes s = true <-> forallb byteb s = true.
Proof. unfold is_bytes, is_byte, byteb. reflexivity. Qed.

Lemma len_cons {A} (x : A) l : len (x :: l) = 1 + len l.
Proof. unfold len. simpl length. lia. Qed.

Lemma len_nil {A} : len (@nil A) = 0.
Proof. reflexivity. Qed.

(* ---------- blank runs ---------- *)

(* what may follow a blank run: the end of input, or a byte that is not blank space *)
Definition Xstart (X : bytes) : Prop :=
  match X with [] => True | c :: _ => blankb c = false /\ byteb c = true end.

Lemma blank_byte c : blankb c = true -> byteb c = true.
Proof. unfold blankb, is_blank, is_nl, byteb. lia. Qed.

Lemma blankb_nl c : is_nl c = true -> blankb c = true.
Proof. unfold blankb. intros ->. apply orb_true_r. Qed.

Lemma Xstart_nopair c X : Xstart X -> pairs_with c X = false.
Proof.
  destruct X as [|d X']; simpl; auto. intros [H _]. unfold blankb in H.
  apply orb_false_iff in H. destruct H as [_ H]. rewrite H. reflexivity.
Qed.

Lemma skip_ws2_run fuel : forall w st X o,
  forallb blankb w = true -> Xstart X -> at_ st (w ++ X) o -> (length (w ++ X) < fuel)%nat ->
  exists stX, at_ stX X (o + len w) /\
              skip_ws fuel whitespace2 st = (let '(ch, st1) := next stX in Ok ch st1).
Proof.
  induction fuel as [|f IH]; intros w st X o Hw HX Hat Hf; [lia|].
  destruct w as [|c w'].
  - simpl in Hat. exists st. rewrite len_nil, Z.add_0_r. split; auto.
    cbn [skip_ws]. destruct X as [|c X'].
    + destruct (next_eof _ _ Hat) as (st' & N & _). rewrite N.
      rewrite in_mask_neg by lia. reflexivity.
    + destruct HX as [Hb Hy]. assert (Hn : is_nl c = false).
      { unfold blankb in Hb. apply orb_false_iff in Hb. tauto. }
      destruct (next_plain _ _ _ _ Hat Hn Hy) as (st' & N & _). rewrite N.
      rewrite mask2_blank, Hb by auto. reflexivity.
  - simpl in Hw. apply andb_true_iff in Hw. destruct Hw as [Hc Hw'].
    pose proof (blank_byte _ Hc) as Hy.
    cbn [skip_ws]. rewrite <- app_comm_cons in Hat.
    destruct (is_nl c) eqn:Hn.
    + destruct (pairs_with c (w' ++ X)) eqn:Hp.
      * destruct w' as [|d w''].
        { simpl in Hp. rewrite (Xstart_nopair c X HX) in Hp. discriminate. }
        simpl in Hp. apply andb_true_iff in Hp. destruct Hp as [Hd1 Hd2].
        rewrite <- app_comm_cons in Hat.
        destruct (next_nl2 _ _ _ _ _ Hat Hn Hd1 ltac:(lia)) as (st' & N & Hat').
        rewrite N. cbn [in_mask]. rewrite in_ws2_10.
        simpl in Hw'. apply andb_true_iff in Hw'. destruct Hw' as [_ Hw''].
        destruct (IH w'' st' X (o + 2) Hw'' HX Hat') as (stX & A & E).
        { simpl in Hf. simpl. lia. }
        exists stX. split; [|exact E]. rewrite !len_cons. replace (o + (1 + (1 + len w''))) with (o + 2 + len w'') by lia. exact A.
      * destruct (next_nl1 _ _ _ _ Hat Hn Hp) as (st' & N & Hat').
        rewrite N. rewrite in_ws2_10.
        destruct (IH w' st' X (o + 1) Hw' HX Hat') as (stX & A & E).
        { simpl in Hf. lia. }
        exists stX. split; [|exact E]. rewrite len_cons. replace (o + (1 + len w')) with (o + 1 + len w') by lia. exact A.
    + destruct (next_plain _ _ _ _ Hat Hn Hy) as (st' & N & Hat' & _).
      rewrite N. rewrite mask2_blank, Hc by auto.
      destruct (IH w' st' X (o + 1) Hw' HX Hat') as (stX & A & E).
      { simpl in Hf. lia. }
      exists stX. split; [|exact E]. rewrite len_cons. replace (o + (1 + len w')) with (o + 1 + len w') by lia. exact A.
Qed.

(* the two passes of Scan together *)
Definition skip2 (fuel : nat) (st : state) : res Z :=
  match skip_ws fuel whitespace1 st with
  | Ok ch0 st0 => if (ch0 =? 10) || (ch0 =? 13) then skip_ws fuel whitespace2 st0 else Ok ch0 st0
  | Err e => Err e
  | OutOfFuel => OutOfFuel
  end.

Lemma scan_body_skip2 fuel redo st :
  scan_body fuel redo st = lift_tok (skip2 fuel st) (fun ch st1 => scan_tok fuel redo ch st1).
Proof.
  unfold scan_body, skip2. destruct (skip_ws fuel whitespace1 st); reflexivity.
Qed.

Lemma skip2_run fuel : forall w st X o,
  forallb blankb w = true -> Xstart X -> at_ st (w ++ X) o -> (length (w ++ X) < fuel)%nat ->
  exists stX, at_ stX X (o + len w) /\
              skip2 fuel st = (let '(ch, st1) := next stX in Ok ch st1).
Proof.
  unfold skip2.
  assert (G : forall n w st X o,
    (n <= fuel)%nat ->
    forallb blankb w = true -> Xstart X -> at_ st (w ++ X) o -> (length (w ++ X) < n)%nat ->
    exists stX, at_ stX X (o + len w) /\
      match skip_ws n whitespace1 st with
      | Ok ch0 st0 => if (ch0 =? 10) || (ch0 =? 13) then skip_ws fuel whitespace2 st0 else Ok ch0 st0
      | Err e => Err e
      | OutOfFuel => OutOfFuel
      end = (let '(ch, st1) := next stX in Ok ch st1)).
  { induction n as [|f IH]; intros w st X o Hle Hw HX Hat Hf; [lia|].
    destruct w as [|c w'].
    - simpl in Hat. exists st. rewrite len_nil, Z.add_0_r. split; auto.
      cbn [skip_ws]. destruct X as [|c X'].
      + destruct (next_eof _ _ Hat) as (st' & N & _). rewrite N.
        rewrite in_mask_neg by lia. reflexivity.
      + destruct HX as [Hb Hy]. assert (Hn : is_nl c = false).
        { unfold blankb in Hb. apply orb_false_iff in Hb. tauto. }
        destruct (next_plain _ _ _ _ Hat Hn Hy) as (st' & N & _). rewrite N.
        assert (Hib : is_blank c = false) by (unfold blankb in Hb; apply orb_false_iff in Hb; tauto).
        rewrite mask1_blank, Hib by auto.
        unfold is_nl in Hn. rewrite Hn. reflexivity.
    - simpl in Hw. apply andb_true_iff in Hw. destruct Hw as [Hc Hw'].
      pose proof (blank_byte _ Hc) as Hy.
      cbn [skip_ws]. rewrite <- app_comm_cons in Hat.
      destruct (is_nl c) eqn:Hn.
      + (* first line end: the second pass takes over *)
        assert (M1 : in_mask whitespace1 10 = false) by reflexivity.
        destruct (pairs_with c (w' ++ X)) eqn:Hp.
        * destruct w' as [|d w''].
          { simpl in Hp. rewrite (Xstart_nopair c X HX) in Hp. discriminate. }
          simpl in Hp. apply andb_true_iff in Hp. destruct Hp as [Hd1 Hd2].
          rewrite <- app_comm_cons in Hat.
          destruct (next_nl2 _ _ _ _ _ Hat Hn Hd1 ltac:(lia)) as (st' & N & Hat').
          rewrite N, M1. cbn [Z.eqb orb Pos.eqb].
          simpl in Hw'. apply andb_true_iff in Hw'. destruct Hw' as [_ Hw''].
          destruct (skip_ws2_run fuel w'' st' X (o + 2) Hw'' HX Hat') as (stX & A & E).
          { simpl in Hf. simpl. lia. }
          exists stX. split; [|exact E]. rewrite !len_cons. replace (o + (1 + (1 + len w''))) with (o + 2 + len w'') by lia. exact A.
        * destruct (next_nl1 _ _ _ _ Hat Hn Hp) as (st' & N & Hat').
          rewrite N, M1. cbn [Z.eqb orb Pos.eqb].
          destruct (skip_ws2_run fuel w' st' X (o + 1) Hw' HX Hat') as (stX & A & E).
          { simpl in Hf. lia. }
          exists stX. split; [|exact E]. rewrite len_cons. replace (o + (1 + len w')) with (o + 1 + len w') by lia. exact A.
      + destruct (next_plain _ _ _ _ Hat Hn Hy) as (st' & N & Hat' & _).
        rewrite N. assert (Hib : is_blank c = true).
        { unfold blankb in Hc. rewrite Hn in Hc. rewrite orb_false_r in Hc. exact Hc. }
        rewrite mask1_blank, Hib by auto.
        destruct (IH w' st' X (o + 1) ltac:(lia) Hw' HX Hat') as (stX & A & E).
        { simpl in Hf. lia. }
        exists stX. split; [|exact E]. rewrite len_cons. replace (o + (1 + len w')) with (o + 1 + len w') by lia. exact A. }
  intros. eapply G; eauto.
Qed.

(* ---------- runs of '=' (countSep) ---------- *)

Lemma next_fst_head st Y o c : at_ st Y o -> fst (next st) = c -> c <> 10 -> c <> -1 -> head_or_eof Y = c.
Proof.
  intros [H1 _] E H10 Hm.
  destruct (next_cases st) as [[E1 N]|[(c'&r&E1&_&_&N)|[(c'&d&r&E1&_&_&_&N)|[(c'&r&E1&_&_&N)|(r&E1&N)]]]];
    rewrite N in E; simpl in E; subst; try congruence.
  rewrite E1. reflexivity.
Qed.

Lemma count_sep_run fuel : forall k st Y o cnt c st1,
  at_ st (repeat 61 k ++ Y) o -> head_or_eof Y <> 61 ->
  (length (repeat 61%Z k ++ Y) < fuel)%nat ->
  next st = (c, st1) ->
  exists stZ ch2 st2, at_ stZ Y (o + Z.of_nat k) /\ next stZ = (ch2, st2) /\
                      count_sep fuel c st1 cnt = Ok ((cnt + k)%nat, ch2) st2.
Proof.
  induction fuel as [|f IH]; intros k st Y o cnt c st1 Hat HZ Hf N; [lia|].
  destruct k as [|k'].
  - simpl in Hat. exists st, c, st1. rewrite Z.add_0_r, Nat.add_0_r. split; auto. split; auto.
    cbn [count_sep]. destruct (c =? 61) eqn:E; auto.
    exfalso. apply HZ. eapply next_fst_head; eauto; [rewrite N; simpl|..]; lia.
  - simpl repeat in Hat. rewrite <- app_comm_cons in Hat.
    destruct (next_plain _ _ _ _ Hat ltac:(reflexivity) ltac:(reflexivity)) as (st' & N' & Hat' & _).
    rewrite N in N'. inversion N'; subst c st1.
    cbn [count_sep]. cbn [Z.eqb Pos.eqb].
    destruct (next st') as [c' st1'] eqn:N2.
    destruct (IH k' st' Y (o + 1) (S cnt) c' st1' Hat' HZ ltac:(simpl in Hf; lia) N2)
      as (stZ & ch2 & st2 & A & B & C).
    exists stZ, ch2, st2. split; [replace (o + Z.of_nat (S k')) with (o + 1 + Z.of_nat k') by lia; exact A|].
    split; auto. rewrite C. f_equal. f_equal. lia.
Qed.

(* ---------- long brackets ---------- *)

Definition noclose (n : nat) (B : bytes) : Prop :=
  occurs_before (close_bracket n) (B ++ close_bracket n) (length B) = false.

Lemma noclose_tail n c B : noclose n (c :: B) -> noclose n B.
Proof.
  unfold noclose. simpl length. cbn [occurs_before]. rewrite <- app_comm_cons.
  intros H. apply orb_false_iff in H. tauto.
Qed.

Lemma noclose_app n P B : noclose n (P ++ B) -> noclose n B.
Proof. induction P; simpl; auto. intros. apply IHP. eapply noclose_tail; eauto. Qed.

Lemma noclose_head n c B : noclose n (c :: B) -> prefixb (close_bracket n) (c :: B ++ close_bracket n) = false.
Proof.
  unfold noclose. simpl length. cbn [occurs_before]. rewrite <- app_comm_cons.
  intros H. apply orb_false_iff in H. tauto.
Qed.

Lemma nl_norm_plain c r : is_nl c = false -> nl_norm (c :: r) = c :: nl_norm r.
Proof. simpl. intros ->. reflexivity. Qed.

Lemma nl_norm_eqs k r : nl_norm (repeat 61 k ++ r) = repeat 61 k ++ nl_norm r.
Proof. induction k; simpl; auto. f_equal. exact IHk. Qed.

Lemma len_repeat {A} (x : A) k : len (repeat x k) = Z.of_nat k.
Proof. unfold len. rewrite repeat_length. reflexivity. Qed.

Lemma len_close n : len (close_bracket n) = Z.of_nat n + 2.
Proof. unfold close_bracket. rewrite len_cons, len_app, len_repeat, len_cons, len_nil. lia. Qed.

(* split off the maximal run of '=' *)
Lemma eq_run (B : bytes) : exists k B', B = repeat 61 k ++ B' /\ head_or_eof B' <> 61.
Proof.
  induction B as [|c B IH].
  - exists O, []. simpl. split; auto. lia.
  - destruct (Z.eq_dec c 61) as [->|Hc].
    + destruct IH as (k & B' & E & H). exists (S k), B'. simpl. rewrite E. auto.
    + exists O, (c :: B). simpl. auto.
Qed.

Lemma prefixb_app p s : prefixb p (p ++ s) = true.
Proof. induction p; simpl; auto. rewrite Z.eqb_refl. auto. Qed.

Lemma is_bytes_cons c B : is_bytes (c :: B) = true -> byteb c = true /\ is_bytes B = true.
Proof. unfold is_bytes, is_byte, byteb. simpl. intros H. apply andb_true_iff in H. exact H. Qed.

Lemma is_bytes_app_r a b : is_bytes (a ++ b) = true -> is_bytes b = true.
Proof. apply is_bytes_app. Qed.


Ltac lens := unfold close_bracket in *; repeat (rewrite app_length in * || rewrite repeat_length in * || simpl length in * ); lia.
Lemma ml_run fuel n tail : forall B st acc o ch st1,
  is_bytes B = true -> noclose n B ->
  at_ st (B ++ close_bracket n ++ tail) o ->
  (length (B ++ close_bracket n ++ tail) < fuel)%nat ->
  next st = (ch, st1) ->
  exists st', ml_loop fuel n ch st1 acc = Ok (acc ++ nl_norm B) st' /\
              at_ st' tail (o + len B + len (close_bracket n)).
Proof.
  induction fuel as [|f IH]; intros B st acc o ch st1 Hb Hnc Hat Hf N; [lia|].
  destruct B as [|c B'].
  - (* the closing bracket *)
    simpl in Hat. unfold close_bracket in Hat. simpl in Hat.
    destruct (next_plain _ _ _ _ Hat ltac:(reflexivity) ltac:(reflexivity)) as (s1 & N1 & Hat1 & _).
    rewrite N in N1. inversion N1; subst ch st1. clear N1.
    cbn [ml_loop]. cbn [Z.ltb Z.eqb Pos.eqb Z.compare].
    destruct (next s1) as [c0 st0] eqn:N0.
    rewrite <- app_assoc in Hat1. simpl in Hat1.
    destruct (count_sep_run f n s1 (93 :: tail) (o + 1) O c0 st0 Hat1 ltac:(simpl; lia)
                ltac:(lens) N0)
      as (stZ & ch2 & st2 & A & NZ & C).
    rewrite C.
    destruct (next_plain _ _ _ _ A ltac:(reflexivity) ltac:(reflexivity)) as (s2 & N2 & Hat2 & _).
    rewrite NZ in N2. inversion N2; subst ch2 st2.
    simpl Nat.add. rewrite Nat.eqb_refl. cbn [Z.eqb Pos.eqb andb].
    exists s2. rewrite app_nil_r. split; auto.
    rewrite len_nil, len_close. replace (o + 0 + (Z.of_nat n + 2)) with (o + 1 + Z.of_nat n + 1) by lia. exact Hat2.
  - destruct (is_bytes_cons _ _ Hb) as [Hc Hb'].
    rewrite <- app_comm_cons in Hat.
    destruct (Z.eq_dec c 93) as [->|Hc93].
    + (* a "]" inside the body: not the closing bracket *)
      destruct (next_plain _ _ _ _ Hat ltac:(reflexivity) ltac:(reflexivity)) as (s1 & N1 & Hat1 & _).
      rewrite N in N1. inversion N1; subst ch st1. clear N1.
      cbn [ml_loop]. cbn [Z.ltb Z.eqb Pos.eqb Z.compare].
      destruct (next s1) as [c0 st0] eqn:N0.
      destruct (eq_run B') as (k & B'' & EB & HB'').
      assert (HZ : head_or_eof (B'' ++ close_bracket n ++ tail) <> 61).
      { destruct B''; simpl in *; auto. lia. }
      rewrite EB, <- app_assoc in Hat1.
      destruct (count_sep_run f k s1 _ (o + 1) O c0 st0 Hat1 HZ
                  ltac:(rewrite EB in Hf; lens) N0)
        as (stZ & ch2 & st2 & A & NZ & C).
      rewrite C. simpl Nat.add.
      destruct (Nat.eqb n k && (ch2 =? 93)) eqn:Hcl.
      * (* would be a closing bracket inside the body *)
        exfalso. apply andb_true_iff in Hcl. destruct Hcl as [Hk Hch].
        apply Nat.eqb_eq in Hk. subst k. assert (ch2 = 93) by lia. subst ch2.
        assert (HH : head_or_eof (B'' ++ close_bracket n ++ tail) = 93).
        { eapply next_fst_head; eauto; [rewrite NZ; reflexivity|lia|lia]. }
        pose proof (noclose_head _ _ _ Hnc) as Hp. rewrite EB in Hp.
        assert (Hp' : prefixb (close_bracket n) (93 :: (repeat 61 n ++ B'') ++ close_bracket n) = true).
        { destruct B'' as [|b B3].
          - rewrite app_nil_r. unfold close_bracket.
            replace (93 :: repeat 61 n ++ 93 :: repeat 61 n ++ [93])
              with ((93 :: repeat 61 n ++ [93]) ++ repeat 61 n ++ [93])
              by (simpl; rewrite <- app_assoc; reflexivity).
            apply prefixb_app.
          - simpl in HH. subst b. unfold close_bracket at 1.
            replace (93 :: (repeat 61 n ++ 93 :: B3) ++ close_bracket n)
              with ((93 :: repeat 61 n ++ [93]) ++ B3 ++ close_bracket n).
            + apply prefixb_app.
            + simpl. rewrite <- !app_assoc. reflexivity. }
        rewrite Hp' in Hp. discriminate.
      * assert (Hb'' : is_bytes B'' = true) by (rewrite EB in Hb'; eapply is_bytes_app_r; eauto).
        assert (Hnc'' : noclose n B'').
        { apply (noclose_app n (93 :: repeat 61 k)). simpl. rewrite <- EB. exact Hnc. }
        destruct (IH B'' stZ (acc ++ 93 :: repeat 61 k) (o + 1 + Z.of_nat k) ch2 st2 Hb'' Hnc'' A
                    ltac:(rewrite EB in Hf; lens) NZ)
          as (st' & R & Hat').
        exists st'. rewrite R. split.
        -- f_equal. rewrite EB. rewrite nl_norm_plain by reflexivity. rewrite nl_norm_eqs.
           rewrite <- app_assoc. reflexivity.
        -- rewrite EB. rewrite len_cons, len_app, len_repeat.
           replace (o + (1 + (Z.of_nat k + len B'')) + len (close_bracket n))
             with (o + 1 + Z.of_nat k + len B'' + len (close_bracket n)) by lia. exact Hat'.
    + destruct (is_nl c) eqn:Hn.
      * (* a line end inside the body *)
        assert (Hch : forall s1, next st = (10, s1) ->
                 ml_loop (S f) n 10 s1 acc = (let '(c1, s2) := next s1 in ml_loop f n c1 s2 (acc ++ [10]))).
        { intros. cbn [ml_loop]. reflexivity. }
        destruct (pairs_with c (B' ++ close_bracket n ++ tail)) eqn:Hp.
        -- destruct B' as [|d B''].
           { simpl in Hp. unfold close_bracket in Hp. simpl in Hp. discriminate. }
           simpl in Hp. apply andb_true_iff in Hp. destruct Hp as [Hd1 Hd2].
           rewrite <- app_comm_cons in Hat.
           destruct (next_nl2 _ _ _ _ _ Hat Hn Hd1 ltac:(lia)) as (s1 & N1 & Hat1).
           rewrite N in N1. inversion N1; subst ch st1. clear N1.
           rewrite (Hch s1 N).
           destruct (next s1) as [c1 s2] eqn:N2.
           destruct (is_bytes_cons _ _ Hb') as [_ Hb''].
           destruct (IH B'' s1 (acc ++ [10]) (o + 2) c1 s2 Hb''
                       (noclose_tail _ _ _ (noclose_tail _ _ _ Hnc)) Hat1
                       ltac:(lens) N2) as (st' & R & Hat').
           exists st'. rewrite R. split.
           ++ f_equal. simpl. rewrite Hn, Hd1. replace (d =? c) with false by lia. simpl.
              rewrite <- app_assoc. reflexivity.
           ++ rewrite !len_cons. replace (o + (1 + (1 + len B'')) + len (close_bracket n))
                with (o + 2 + len B'' + len (close_bracket n)) by lia. exact Hat'.
        -- destruct (next_nl1 _ _ _ _ Hat Hn Hp) as (s1 & N1 & Hat1).
           rewrite N in N1. inversion N1; subst ch st1. clear N1.
           rewrite (Hch s1 N).
           destruct (next s1) as [c1 s2] eqn:N2.
           destruct (IH B' s1 (acc ++ [10]) (o + 1) c1 s2 Hb' (noclose_tail _ _ _ Hnc) Hat1
                       ltac:(lens) N2) as (st' & R & Hat').
           exists st'. rewrite R. split.
           ++ f_equal. simpl nl_norm. rewrite Hn.
              destruct B' as [|d B3].
              ** simpl. rewrite <- app_assoc. reflexivity.
              ** simpl in Hp. replace (is_nl d && negb (d =? c)) with false. rewrite <- app_assoc. reflexivity.
           ++ rewrite len_cons. replace (o + (1 + len B') + len (close_bracket n))
                with (o + 1 + len B' + len (close_bracket n)) by lia. exact Hat'.
      * (* an ordinary byte *)
        destruct (next_plain _ _ _ _ Hat Hn Hc) as (s1 & N1 & Hat1 & _).
        rewrite N in N1. inversion N1; subst ch st1. clear N1.
        cbn [ml_loop].
        replace (c <? 0) with false by (unfold byteb in Hc; lia).
        replace (c =? 93) with false by lia.
        destruct (next s1) as [c1 s2] eqn:N2.
        destruct (IH B' s1 (acc ++ [wc c]) (o + 1) c1 s2 Hb' (noclose_tail _ _ _ Hnc) Hat1
                    ltac:(lens) N2) as (st' & R & Hat').
        exists st'. rewrite R. split.
        -- f_equal. rewrite nl_norm_plain by auto. rewrite wc_byte by auto.
           rewrite <- app_assoc. reflexivity.
        -- rewrite len_cons. replace (o + (1 + len B') + len (close_bracket n))
             with (o + 1 + len B' + len (close_bracket n)) by lia. exact Hat'.
Qed.

Lemma is_nl_eq c : ((c =? 10) || (c =? 13)) = is_nl c.
Proof. reflexivity. Qed.

Lemma drop_first_nl_cons c l : c <> 10 -> drop_first_nl (c :: l) = c :: l.
Proof.
  intros H. unfold drop_first_nl. destruct c as [|p|p]; try reflexivity.
  repeat (destruct p as [p|p|]; try reflexivity). congruence.
Qed.

Lemma scan_ml_body_run fuel n tail B st o :
  is_bytes B = true -> noclose n B ->
  at_ st (B ++ close_bracket n ++ tail) o ->
  (length (B ++ close_bracket n ++ tail) < fuel)%nat ->
  exists st', scan_ml_body fuel n st = Ok (drop_first_nl (nl_norm B)) st' /\
              at_ st' tail (o + len B + len (close_bracket n)).
Proof.
  intros Hb Hnc Hat Hf. unfold scan_ml_body.
  destruct (next st) as [ch st1] eqn:N. rewrite is_nl_eq.
  destruct B as [|c B'].
  - pose proof Hat as Hat0. simpl in Hat0. unfold close_bracket in Hat0. simpl in Hat0.
    destruct (next_plain _ _ _ _ Hat0 ltac:(reflexivity) ltac:(reflexivity)) as (s1 & N1 & _).
    rewrite N in N1. inversion N1; subst ch st1. cbn [is_nl Z.eqb Pos.eqb orb].
    destruct (ml_run fuel n tail [] st [] o 93 s1 Hb Hnc Hat Hf N) as (st' & R & A).
    exists st'. split; auto.
  - destruct (is_bytes_cons _ _ Hb) as [Hc Hb'].
    destruct (is_nl c) eqn:Hn.
    + pose proof Hat as Hat0. rewrite <- app_comm_cons in Hat0.
      destruct (pairs_with c (B' ++ close_bracket n ++ tail)) eqn:Hp.
      * destruct B' as [|d B''].
        { simpl in Hp. unfold close_bracket in Hp. simpl in Hp. discriminate. }
        simpl in Hp. apply andb_true_iff in Hp. destruct Hp as [Hd1 Hd2].
        rewrite <- app_comm_cons in Hat0.
        destruct (next_nl2 _ _ _ _ _ Hat0 Hn Hd1 ltac:(lia)) as (s1 & N1 & Hat1).
        rewrite N in N1. inversion N1; subst ch st1. cbn [is_nl Z.eqb Pos.eqb orb].
        destruct (next s1) as [c2 s2] eqn:N2.
        destruct (is_bytes_cons _ _ Hb') as [_ Hb''].
        destruct (ml_run fuel n tail B'' s1 [] (o + 2) c2 s2 Hb''
                    (noclose_tail _ _ _ (noclose_tail _ _ _ Hnc)) Hat1 ltac:(lens) N2) as (st' & R & A).
        exists st'. rewrite R. split.
        -- f_equal. simpl. rewrite Hn, Hd1. replace (d =? c) with false by lia. reflexivity.
        -- rewrite !len_cons. replace (o + (1 + (1 + len B'')) + len (close_bracket n))
             with (o + 2 + len B'' + len (close_bracket n)) by lia. exact A.
      * destruct (next_nl1 _ _ _ _ Hat0 Hn Hp) as (s1 & N1 & Hat1).
        rewrite N in N1. inversion N1; subst ch st1. cbn [is_nl Z.eqb Pos.eqb orb].
        destruct (next s1) as [c2 s2] eqn:N2.
        destruct (ml_run fuel n tail B' s1 [] (o + 1) c2 s2 Hb' (noclose_tail _ _ _ Hnc) Hat1 ltac:(lens) N2)
          as (st' & R & A).
        exists st'. rewrite R. split.
        -- f_equal. simpl nl_norm. rewrite Hn. destruct B' as [|d B3]; [reflexivity|].
           simpl in Hp. rewrite Hp. reflexivity.
        -- rewrite len_cons. replace (o + (1 + len B') + len (close_bracket n))
             with (o + 1 + len B' + len (close_bracket n)) by lia. exact A.
    + pose proof Hat as Hat0. rewrite <- app_comm_cons in Hat0.
      destruct (next_plain _ _ _ _ Hat0 Hn Hc) as (s1 & N1 & _).
      rewrite N in N1. inversion N1; subst ch st1. rewrite Hn.
      destruct (ml_run fuel n tail (c :: B') st [] o c s1 Hb Hnc Hat Hf N) as (st' & R & A).
      exists st'. rewrite R. split; auto. f_equal. cbn [app].
      rewrite nl_norm_plain by auto. symmetry. apply drop_first_nl_cons. intro; subst; discriminate.
Qed.

Definition open_tail (n : nat) : bytes := repeat 61 n ++ [91].   (* open_bracket without its first "[" *)

Lemma len_open_tail n : len (open_tail n) = Z.of_nat n + 1.
Proof. unfold open_tail. rewrite len_app, len_repeat, len_cons, len_nil. lia. Qed.

(* from the state after the first "[" of a long bracket *)
Lemma long_open_run fuel n R st1 o c st2 :
  at_ st1 (open_tail n ++ R) o ->
  (length (open_tail n ++ R) < fuel)%nat ->
  next st1 = (c, st2) ->
  exists stB, at_ stB R (o + len (open_tail n)) /\ count_sep fuel c st2 O = Ok (n, 91) stB.
Proof.
  intros Hat Hf N. unfold open_tail in *. rewrite <- app_assoc in Hat. simpl in Hat.
  destruct (count_sep_run fuel n st1 (91 :: R) o O c st2 Hat ltac:(simpl; lia)
              ltac:(rewrite <- app_assoc in Hf; exact Hf) N) as (stZ & ch2 & stB & A & NZ & C).
  destruct (next_plain _ _ _ _ A ltac:(reflexivity) ltac:(reflexivity)) as (s & N1 & Hat1 & _).
  rewrite NZ in N1. inversion N1; subst ch2 stB.
  exists s. split; [|exact C].
  rewrite len_app, len_repeat, len_cons, len_nil.
  replace (o + (Z.of_nat n + (1 + 0))) with (o + Z.of_nat n + 1) by lia. exact Hat1.
Qed.

Lemma scan_multiline_run fuel n tail B st1 o c st2 :
  is_bytes B = true -> noclose n B ->
  at_ st1 (open_tail n ++ B ++ close_bracket n ++ tail) o ->
  (length (open_tail n ++ B ++ close_bracket n ++ tail) < fuel)%nat ->
  next st1 = (c, st2) ->
  exists st', scan_multiline fuel c st2 = Ok (drop_first_nl (nl_norm B)) st' /\
              at_ st' tail (o + len (open_tail n) + len B + len (close_bracket n)).
Proof.
  intros Hb Hnc Hat Hf N. unfold scan_multiline.
  destruct (long_open_run fuel n _ st1 o c st2 Hat Hf N) as (stB & A & C).
  rewrite C. cbn [bind]. cbn [Z.eqb Pos.eqb negb].
  apply scan_ml_body_run; auto. rewrite app_length in Hf. lia.
Qed.

(* ---------- comments ---------- *)

Definition no_nl (t : bytes) : bool := forallb (fun c => negb (is_nl c)) t.

(* where a line comment's text t, ended by the line-end byte c, leaves the scanner: just after c,
   or after c and its complementary second byte *)
Definition after_nl (st' : state) (c : Z) (R : bytes) (o : Z) : Prop :=
  (pairs_with c R = false /\ at_ st' R (o + 1)) \/
  (exists d R', R = d :: R' /\ is_nl d = true /\ d <> c /\ at_ st' R' (o + 2)).

Lemma next_after_nl st c R o :
  at_ st (c :: R) o -> is_nl c = true -> exists st', next st = (10, st') /\ after_nl st' c R o.
Proof.
  intros Hat Hn. destruct (pairs_with c R) eqn:Hp.
  - destruct R as [|d R']; [discriminate|]. simpl in Hp. apply andb_true_iff in Hp. destruct Hp as [H1 H2].
    destruct (next_nl2 _ _ _ _ _ Hat Hn H1 ltac:(lia)) as (st' & N & A).
    exists st'. split; auto. right. exists d, R'. split; [reflexivity|]. split; [exact H1|]. split; [lia|exact A].
  - destruct (next_nl1 _ _ _ _ Hat Hn Hp) as (st' & N & A).
    exists st'. split; auto. left. auto.
Qed.

Lemma comment_line_run fuel : forall t st c R o ch st1,
  no_nl t = true -> is_bytes t = true -> is_nl c = true ->
  at_ st (t ++ c :: R) o -> (length (t ++ c :: R) < fuel)%nat ->
  next st = (ch, st1) ->
  exists st', comment_line_loop fuel ch st1 = Ok tt st' /\ after_nl st' c R (o + len t).
Proof.
  induction fuel as [|f IH]; intros t st c R o ch st1 Ht Hb Hn Hat Hf N; [lia|].
  destruct t as [|x t'].
  - simpl in Hat. destruct (next_after_nl _ _ _ _ Hat Hn) as (st' & N' & A).
    rewrite N in N'. inversion N'; subst ch st1.
    exists st'. cbn [comment_line_loop]. cbn [Z.eqb Pos.eqb orb]. split; auto.
    rewrite len_nil, Z.add_0_r. exact A.
  - simpl in Ht. apply andb_true_iff in Ht. destruct Ht as [Hx Ht'].
    destruct (is_bytes_cons _ _ Hb) as [Hxb Hb'].
    rewrite <- app_comm_cons in Hat.
    destruct (next_plain _ _ _ _ Hat ltac:(destruct (is_nl x); auto; discriminate) Hxb) as (s1 & N1 & Hat1 & _).
    rewrite N in N1. inversion N1; subst ch st1.
    cbn [comment_line_loop]. rewrite is_nl_eq.
    replace (is_nl x) with false by (destruct (is_nl x); auto; discriminate).
    replace (x <? 0) with false by (unfold byteb in Hxb; lia). cbn [orb].
    destruct (next s1) as [c1 s2] eqn:N2.
    destruct (IH t' s1 c R (o + 1) c1 s2 Ht' Hb' Hn Hat1 ltac:(simpl in Hf; lia) N2) as (st' & E & A).
    exists st'. split; auto. rewrite len_cons. replace (o + (1 + len t')) with (o + 1 + len t') by lia. exact A.
Qed.

Lemma opens_eq_run k t2 : opens_long_bracket (91 :: repeat 61 k ++ t2) = opens_long_bracket (91 :: t2).
Proof. simpl. induction k; simpl; auto. Qed.

(* "--" text line-end: st is the state after "--" *)
Lemma line_comment_run fuel t st c R o ch :
  no_nl t = true -> is_bytes t = true -> opens_long_bracket t = false -> is_nl c = true ->
  at_ st (t ++ c :: R) o -> (S (length (t ++ c :: R)) < fuel)%nat ->
  (ch =? 10) || (ch =? 13) || (ch <? 0) = false ->
  exists st', skip_comments fuel ch st = Ok tt st' /\ after_nl st' c R (o + len t).
Proof.
  intros Ht Hb Ho Hn Hat Hf Hch. unfold skip_comments.
  assert (LINE : forall ch0, (ch0 =? 10) || (ch0 =? 13) || (ch0 <? 0) = false ->
            exists st', comment_line_loop fuel ch0 st = Ok tt st' /\ after_nl st' c R (o + len t)).
  { intros ch0 H0. destruct fuel as [|f]; [lia|]. cbn [comment_line_loop]. rewrite H0.
    destruct (next st) as [c1 s1] eqn:N.
    apply (comment_line_run f t st c R o c1 s1); auto. lia. }
  destruct (peek st =? 91) eqn:Hp; [|apply LINE; auto].
  destruct t as [|x t1]; [simpl in Hat; rewrite (peek_at _ _ _ _ Hat) in Hp; unfold is_nl in Hn; lia|].
  rewrite <- app_comm_cons in Hat. rewrite (peek_at _ _ _ _ Hat) in Hp. assert (x = 91) by lia. subst x.
  destruct (next st) as [ch1 st1] eqn:N.
  destruct (next_plain _ _ _ _ Hat ltac:(reflexivity) ltac:(reflexivity)) as (s1 & N1 & Hat1 & _).
  rewrite N in N1. inversion N1; subst ch1 st1. clear N1.
  simpl in Ht. destruct (is_bytes_cons _ _ Hb) as [_ Hb1].
  destruct ((peek s1 =? 91) || (peek s1 =? 61)) eqn:Hp1.
  - destruct (eq_run t1) as (k & t2 & E & Ht2).
    assert (HY : head_or_eof (t2 ++ c :: R) <> 61).
    { destruct t2; simpl in *; auto. unfold is_nl in Hn. lia. }
    destruct (next s1) as [c0 s2] eqn:N0.
    rewrite E, <- app_assoc in Hat1.
    destruct (count_sep_run fuel k s1 _ (o + 1) O c0 s2 Hat1 HY
                ltac:(rewrite E in Hf; simpl in Hf; rewrite <- app_assoc in Hf; lia) N0)
      as (stZ & ch2 & st3 & A & NZ & C).
    rewrite C.
    assert (Ht2n : no_nl t2 = true).
    { rewrite E in Ht. unfold no_nl in *. rewrite forallb_app in Ht. apply andb_true_iff in Ht. tauto. }
    assert (Hb2 : is_bytes t2 = true) by (rewrite E in Hb1; eapply is_bytes_app_r; eauto).
    destruct (ch2 =? 91) eqn:H91.
    + exfalso. assert (ch2 = 91) by lia. subst ch2.
      assert (HH : head_or_eof (t2 ++ c :: R) = 91).
      { eapply next_fst_head; eauto; [rewrite NZ; reflexivity|lia|lia]. }
      rewrite E, opens_eq_run in Ho. destruct t2 as [|y t3]; simpl in HH.
      * unfold is_nl in Hn. lia.
      * subst y. simpl in Ho. discriminate.
    + destruct (comment_line_run fuel t2 stZ c R (o + 1 + Z.of_nat k) ch2 st3 Ht2n Hb2 Hn A
                  ltac:(rewrite E in Hf; simpl in Hf; rewrite <- app_assoc, app_length, repeat_length in Hf; lia) NZ)
        as (st' & E' & A').
      exists st'. split; auto. rewrite E, len_cons, len_app, len_repeat.
      replace (o + (1 + (Z.of_nat k + len t2))) with (o + 1 + Z.of_nat k + len t2) by lia. exact A'.
  - assert (Ht' : no_nl (91 :: t1) = true) by (simpl; exact Ht).
    apply (comment_line_run fuel (91 :: t1) st c R o 91 s1 Ht' Hb Hn Hat ltac:(simpl; simpl in Hf; lia) N).
Qed.

(* "--" "[" "="* "[" body "]" "="* "]": st is the state after "--" *)
Lemma block_comment_run fuel n B W st o ch :
  is_bytes B = true -> noclose n B ->
  at_ st (open_bracket n ++ B ++ close_bracket n ++ W) o ->
  (S (length (open_bracket n ++ B ++ close_bracket n ++ W)) < fuel)%nat ->
  exists st', skip_comments fuel ch st = Ok tt st' /\
              at_ st' W (o + len (open_bracket n) + len B + len (close_bracket n)).
Proof.
  intros Hb Hnc Hat Hf. unfold skip_comments.
  assert (EO : open_bracket n = 91 :: open_tail n) by reflexivity.
  rewrite EO in Hat. rewrite <- app_comm_cons in Hat.
  rewrite (peek_at _ _ _ _ Hat). cbn [Z.eqb Pos.eqb].
  destruct (next st) as [ch1 st1] eqn:N.
  destruct (next_plain _ _ _ _ Hat ltac:(reflexivity) ltac:(reflexivity)) as (s1 & N1 & Hat1 & _).
  rewrite N in N1. inversion N1; subst ch1 st1. clear N1.
  assert (Hp1 : (peek s1 =? 91) || (peek s1 =? 61) = true).
  { rewrite (peek_at_head _ _ _ Hat1). unfold open_tail. destruct n; simpl; reflexivity. }
  rewrite Hp1.
  destruct (next s1) as [c0 s2] eqn:N0.
  destruct (long_open_run fuel n _ s1 (o + 1) c0 s2 Hat1 ltac:(rewrite EO in Hf; unfold open_tail in *; lens) N0)
    as (stB & A & C).
  rewrite C. cbn [Z.eqb Pos.eqb].
  destruct (scan_ml_body_run fuel n W B stB _ Hb Hnc A
              ltac:(rewrite EO in Hf; unfold open_tail in *; lens)) as (st' & E & A').
  rewrite E. exists st'. split; auto.
  rewrite EO, len_cons. replace (o + (1 + len (open_tail n)) + len B + len (close_bracket n))
    with (o + 1 + len (open_tail n) + len B + len (close_bracket n)) by lia. exact A'.
Qed.

Ltac at_exact H :=
  match goal with |- at_ _ _ ?a => match type of H with at_ _ _ ?b => replace a with b; [exact H|] end end.
Ltac lens2 := repeat (rewrite app_length in * || simpl length in * ); lia.
Ltac len_norm := repeat (rewrite len_app || rewrite len_cons || rewrite len_nil || rewrite len_repeat).

(* ---------- separators at byte level ---------- *)

Inductive sepb : bytes -> Prop :=
| sepb_nil : sepb []
| sepb_blank c w : blankb c = true -> sepb w -> sepb (c :: w)
| sepb_line t c w :
    no_nl t = true -> is_bytes t = true -> opens_long_bracket t = false -> is_nl c = true ->
    sepb w -> sepb (45 :: 45 :: t ++ c :: w)
| sepb_block n B w :
    is_bytes B = true -> noclose n B -> sepb w ->
    sepb (45 :: 45 :: open_bracket n ++ B ++ close_bracket n ++ w).

Lemma sepb_app a b : sepb a -> sepb b -> sepb (a ++ b).
Proof.
  induction 1; intros Hb; cbn [app]; auto.
  - apply sepb_blank; auto.
  - rewrite <- app_assoc. cbn [app]. apply sepb_line; auto.
  - rewrite <- !app_assoc. apply sepb_block; auto.
Qed.

Lemma sepb_split S : sepb S ->
  exists w S', S = w ++ S' /\ forallb blankb w = true /\ sepb S' /\
               (S' = [] \/ exists r, S' = 45 :: 45 :: r).
Proof.
  induction 1.
  - exists [], []. simpl. repeat split; auto. constructor.
  - destruct IHsepb as (w' & S' & E & Hw & HS & HH).
    exists (c :: w'), S'. cbn [app forallb]. rewrite E, H. repeat split; auto.
  - exists [], (45 :: 45 :: t ++ c :: w). cbn [app forallb]. repeat split; auto.
    + apply sepb_line; auto.
    + right. eauto.
  - exists [], (45 :: 45 :: open_bracket n ++ B ++ close_bracket n ++ w). cbn [app forallb]. repeat split; auto.
    + apply sepb_block; auto.
    + right. eauto.
Qed.

Lemma len_nl_bytes_blank k : forallb blankb (nl_bytes k) = true.
Proof. destruct k; reflexivity. Qed.

Lemma blank_run_sepb w : forallb blankb w = true -> sepb w.
Proof.
  induction w; simpl; intros H; [constructor|]. apply andb_true_iff in H. destruct H. apply sepb_blank; auto.
Qed.

Lemma sep_bytes_sepb s : forallb sepitem_ok s = true -> sepb (sep_bytes s).
Proof.
  induction s as [|i s IH]; simpl; intros H; [constructor|].
  apply andb_true_iff in H. destruct H as [Hi Hs]. specialize (IH Hs).
  destruct i as [c|k|text k|lvl body]; cbn [sepitem_bytes sepitem_ok app] in *.
  - apply sepb_blank; auto. unfold blankb. rewrite Hi. reflexivity.
  - apply sepb_app; auto. apply blank_run_sepb. apply len_nl_bytes_blank.
  - apply andb_true_iff in Hi. destruct Hi as [Hi Ho]. apply andb_true_iff in Hi. destruct Hi as [Hb Hn].
    rewrite <- app_assoc.
    assert (exists c r, nl_bytes k = c :: r /\ is_nl c = true /\ forallb blankb r = true)
      as (c & r & E & Hc & Hr) by (destruct k; simpl; eauto 6).
    rewrite E. cbn [app]. apply sepb_line; auto.
    + destruct (opens_long_bracket text); auto; discriminate.
    + apply sepb_app; auto. apply blank_run_sepb; auto.
  - apply andb_true_iff in Hi. destruct Hi as [Hb Hok].
    rewrite <- !app_assoc. apply sepb_block; auto.
    unfold noclose. unfold ml_body_ok in Hok. destruct (occurs_before _ _ _); auto; discriminate.
Qed.

Lemma sepb_comment_inv r : sepb (45 :: 45 :: r) ->
  (exists t c w2, r = t ++ c :: w2 /\ no_nl t = true /\ is_bytes t = true /\
                  opens_long_bracket t = false /\ is_nl c = true /\ sepb w2) \/
  (exists n B w2, r = open_bracket n ++ B ++ close_bracket n ++ w2 /\
                  is_bytes B = true /\ noclose n B /\ sepb w2).
Proof.
  intros H. inversion H as [|c0 w0 Hc0|t c w2 Ht Hb Ho Hn Hw2 Heq|n B w2 Hb Hnc Hw2 Heq]; subst.
  - discriminate.
  - left. exists t, c, w2. repeat split; auto.
  - right. exists n, B, w2. repeat split; auto.
Qed.

Lemma sepb_nl_inv d w : sepb (d :: w) -> is_nl d = true -> sepb w.
Proof. intros H Hd. inversion H; subst; auto; unfold is_nl in Hd; lia. Qed.

Lemma scan_tok_comment fuel redo st1 :
  peek st1 = 45 ->
  scan_tok fuel redo 45 st1 =
  (let '(c, st2) := next st1 in lift_tok (skip_comments fuel c st2) (fun _ st3 => redo st3)).
Proof. intros H. unfold scan_tok. cbv zeta. rewrite H. reflexivity. Qed.

Lemma Xstart_app_nonblank c r X : blankb c = false -> byteb c = true -> Xstart ((c :: r) ++ X).
Proof. simpl. auto. Qed.

Lemma after_nl_sepb st' c w X o :
  after_nl st' c (w ++ X) o -> sepb w -> Xstart X ->
  exists w', sepb w' /\ (length w' <= length w)%nat /\
             at_ st' (w' ++ X) (o + 1 + (len w - len w')).
Proof.
  intros [[Hp A]|(d & R' & E & Hd & Hdc & A)] Hw HX.
  - exists w. split; auto. split; auto. replace (o + 1 + (len w - len w)) with (o + 1) by lia. exact A.
  - destruct w as [|d' w'].
    + simpl in E. subst X. destruct HX as [Hb _]. unfold blankb in Hb. rewrite Hd in Hb.
      rewrite orb_true_r in Hb. discriminate.
    + simpl in E. inversion E; subst d' R'.
      assert (Hw' : sepb w') by (eapply sepb_nl_inv; eauto).
      exists w'. split; auto. split; [simpl; lia|].
      rewrite len_cons. replace (o + 1 + (1 + len w' - len w')) with (o + 2) by lia. exact A.
Qed.

(* Scan over a separator S followed by X: the switch is reached exactly at X *)
Lemma scan_sep (R : scanres -> Prop) X : Xstart X ->
  forall fuel Sp st o,
  sepb Sp -> at_ st (Sp ++ X) o -> (length (Sp ++ X) < fuel)%nat ->
  (forall fuel' redo stX, (length X < fuel')%nat -> at_ stX X (o + len Sp) ->
     R (let '(ch, st1) := next stX in scan_tok fuel' redo ch st1)) ->
  R (scan fuel st).
Proof.
  intros HX. induction fuel as [|f IH]; intros Sp st o HS Hat Hf HR; [lia|].
  cbn [scan]. rewrite scan_body_skip2.
  destruct (sepb_split Sp HS) as (w & S' & E & Hw & HS' & HH).
  rewrite E, <- app_assoc in Hat.
  destruct HH as [->|(r & ->)].
  - (* blank space only *)
    simpl in Hat. rewrite app_nil_r in E. subst w.
    destruct (skip2_run (S f) Sp st X o Hw HX Hat Hf) as (stX & A & Esk).
    rewrite Esk. specialize (HR (S f) (scan f) stX ltac:(rewrite app_length in Hf; lia) A).
    destruct (next stX) as [ch st1]. exact HR.
  - (* a comment *)
    assert (HY : Xstart ((45 :: 45 :: r) ++ X)) by (apply Xstart_app_nonblank; reflexivity).
    destruct (skip2_run (S f) w st _ o Hw HY Hat ltac:(rewrite E, <- app_assoc in Hf; exact Hf)) as (stY & A & Esk).
    rewrite Esk. simpl app in A.
    destruct (next_plain _ _ _ _ A ltac:(reflexivity) ltac:(reflexivity)) as (s1 & N1 & A1 & _).
    rewrite N1. cbn [lift_tok].
    rewrite scan_tok_comment by (eapply peek_at; eauto).
    destruct (next_plain _ _ _ _ A1 ltac:(reflexivity) ltac:(reflexivity)) as (s2 & N2 & A2 & _).
    rewrite N2.
    assert (Hlen : (S (S (length (r ++ X))) + length w < S f)%nat).
    { rewrite E in Hf. repeat (rewrite app_length in * || simpl length in * ). lia. }
    destruct (sepb_comment_inv _ HS') as [(t & c & w2 & -> & Ht & Hb & Ho & Hn & Hw2)|(n & B & w2 & -> & Hb & Hnc & Hw2)].
    + (* line comment *)
      rewrite <- app_assoc in A2. rewrite <- app_comm_cons in A2.
      destruct (line_comment_run (S f) t s2 c (w2 ++ X) _ 45 Ht Hb Ho Hn A2
                  ltac:(lens2) ltac:(reflexivity))
        as (st' & Esc & Aft).
      rewrite Esc. cbn [lift_tok].
      destruct (after_nl_sepb _ _ _ _ _ Aft Hw2 HX) as (w' & Hw' & Hlw & A').
      apply (IH w' st' _ Hw' A').
      * lens2.
      * intros fuel' redo stX Hf' AX. apply HR; auto.
        rewrite E. at_exact AX. len_norm. lia.
    + (* block comment *)
      rewrite <- !app_assoc in A2.
      destruct (block_comment_run (S f) n B (w2 ++ X) s2 _ 45 Hb Hnc A2
                  ltac:(lens2)) as (st' & Esc & A').
      rewrite Esc. cbn [lift_tok].
      apply (IH w2 st' _ Hw2 A').
      * lens2.
      * intros fuel' redo stX Hf' AX. apply HR; auto.
        rewrite E. at_exact AX. len_norm. lia.
Qed.

(* ---------- tokens ---------- *)

(* scanning lexeme l followed by `tail` from a state positioned at its first byte delivers its
   token and stops exactly before `tail` *)
Definition tok_ok (l : lexeme) (tail : bytes) : Prop :=
  forall fuel redo stX o,
    (length (lexeme_bytes l ++ tail) < fuel)%nat -> at_ stX (lexeme_bytes l ++ tail) o ->
    exists ch st1 st', next stX = (ch, st1) /\
      scan_tok fuel redo ch st1 = STok (mkTok (lexeme_type l) (lexeme_text l) (line st1) o) st' /\
      at_ st' tail (o + len (lexeme_bytes l)).

Lemma take_while_run fuel p : forall s st q o,
  (forall c, p c = true -> is_nl c = false /\ byteb c = true) ->
  forallb p s = true -> p (head_or_eof q) = false ->
  at_ st (s ++ q) o -> (length (s ++ q) < fuel)%nat ->
  exists st', take_while fuel p st = Ok s st' /\ at_ st' q (o + len s).
Proof.
  induction fuel as [|f IH]; intros s st q o Hp Hs Hq Hat Hf; [lia|].
  cbn [take_while]. destruct s as [|c s'].
  - simpl in Hat. rewrite (peek_at_head _ _ _ Hat), Hq. exists st. split; auto.
    rewrite len_nil, Z.add_0_r. exact Hat.
  - simpl in Hs. apply andb_true_iff in Hs. destruct Hs as [Hc Hs'].
    rewrite <- app_comm_cons in Hat. rewrite (peek_at _ _ _ _ Hat), Hc.
    destruct (Hp c Hc) as [Hn Hb].
    destruct (next_plain _ _ _ _ Hat Hn Hb) as (s1 & N & A & _). rewrite N.
    destruct (IH s' s1 q (o + 1) Hp Hs' Hq A ltac:(simpl in Hf; lia)) as (st' & E & A').
    rewrite E. cbn [bind]. exists st'. rewrite wc_byte by auto. split; auto.
    at_exact A'. len_norm. lia.
Qed.

Lemma ident_class c : is_ident c 1 = true -> is_nl c = false /\ byteb c = true.
Proof. unfold is_ident, is_dec, is_nl, byteb. lia. Qed.

Lemma ident0_class c : is_ident c 0 = true -> is_nl c = false /\ byteb c = true /\ is_ident c 1 = true.
Proof. unfold is_ident, is_dec, is_nl, byteb. lia. Qed.

Lemma name_tok_ok s tail :
  name_ok s = true -> is_alnum_ (head_or_eof tail) = false -> tok_ok (LxName s) tail.
Proof.
  intros Hn Hm fuel redo stX o Hf Hat. cbn [lexeme_bytes] in *.
  destruct s as [|c s']; [discriminate|]. simpl in Hn. apply andb_true_iff in Hn. destruct Hn as [Hc Hs].
  destruct (ident0_class c Hc) as (Hnl & Hb & _).
  rewrite <- app_comm_cons in Hat.
  destruct (next_plain _ _ _ _ Hat Hnl Hb) as (s1 & N & A & _).
  exists c, s1.
  destruct (take_while_run fuel (fun c => is_ident c 1) s' s1 tail (o + 1) ident_class Hs Hm A
              ltac:(simpl in Hf; lia)) as (st' & E & A').
  exists st'. split; auto. split.
  - unfold scan_tok. cbv zeta. rewrite Hc. unfold scan_ident. rewrite E. cbn [bind lift_tok].
    rewrite wc_byte by auto. cbn [lexeme_type lexeme_text].
    assert (Eo : off s1 - 1 = o) by (destruct A as [_ A2]; lia). rewrite Eo.
    destruct (lookup_word reserved_words (c :: s')); reflexivity.
  - at_exact A'. len_norm. lia.
Qed.

(* ---------- short strings ---------- *)

Lemma scan_escape_letter st1 c v st2 :
  esc_value c = Some v -> next st1 = (c, st2) -> scan_escape st1 = Ok [v] st2.
Proof.
  unfold scan_escape, esc_value. intros H N. rewrite N.
  repeat (match goal with
          | H : (if ?c =? ?k then _ else _) = Some _ |- _ =>
            destruct (c =? k) eqn:?; [inversion H; subst; reflexivity|]
          end).
  discriminate.
Qed.

Lemma esc_value_class c v : esc_value c = Some v -> is_nl c = false /\ byteb c = true.
Proof.
  unfold esc_value, is_nl, byteb.
  repeat (match goal with
          | |- (if ?c =? ?k then _ else _) = Some _ -> _ =>
            destruct (c =? k) eqn:?; [intros _; lia|]
          end).
  discriminate.
Qed.

Lemma next_nl_bytes st k R o :
  at_ st (nl_bytes k ++ R) o -> is_nl (head_or_eof R) = false ->
  exists st', next st = (10, st') /\ at_ st' R (o + len (nl_bytes k)).
Proof.
  intros Hat HR.
  assert (Hp : forall c, pairs_with c R = false).
  { intros c. destruct R; simpl in *; auto. rewrite HR. reflexivity. }
  destruct k; simpl in Hat.
  - destruct (next_nl1 _ _ _ _ Hat ltac:(reflexivity) (Hp _)) as (st' & N & A). exists st'. split; auto.
  - destruct (next_nl1 _ _ _ _ Hat ltac:(reflexivity) (Hp _)) as (st' & N & A). exists st'. split; auto.
  - destruct (next_nl2 _ _ _ _ _ Hat ltac:(reflexivity) ltac:(reflexivity) ltac:(lia)) as (st' & N & A).
    exists st'. split; auto.
  - destruct (next_nl2 _ _ _ _ _ Hat ltac:(reflexivity) ltac:(reflexivity) ltac:(lia)) as (st' & N & A).
    exists st'. split; auto.
Qed.

Lemma scan_escape_dec st1 d1 d2 d3 R o :
  is_digit_val d1 = true -> is_digit_val d2 = true -> is_digit_val d3 = true ->
  (d1 * 10 + d2) * 10 + d3 <= 255 ->
  at_ st1 (48 + d1 :: 48 + d2 :: 48 + d3 :: R) o ->
  exists st4, scan_escape st1 = Ok [(d1 * 10 + d2) * 10 + d3] st4 /\ at_ st4 R (o + 3).
Proof.
  unfold is_digit_val. intros H1 H2 H3 Hv Hat.
  destruct (next_plain _ _ _ _ Hat ltac:(unfold is_nl; lia) ltac:(unfold byteb; lia)) as (s2 & N1 & A2 & _).
  destruct (next_plain _ _ _ _ A2 ltac:(unfold is_nl; lia) ltac:(unfold byteb; lia)) as (s3 & N2 & A3 & _).
  destruct (next_plain _ _ _ _ A3 ltac:(unfold is_nl; lia) ltac:(unfold byteb; lia)) as (s4 & N3 & A4 & _).
  exists s4. split; [|at_exact A4; lia].
  unfold scan_escape. rewrite N1.
  repeat match goal with
         | |- context [48 + d1 =? ?k] => replace (48 + d1 =? k) with false by lia
         end.
  replace (is_dec (48 + d1)) with true by (unfold is_dec; lia).
  rewrite (peek_at _ _ _ _ A2). replace (is_dec (48 + d2)) with true by (unfold is_dec; lia).
  rewrite N2. rewrite (peek_at _ _ _ _ A3). replace (is_dec (48 + d3)) with true by (unfold is_dec; lia).
  rewrite N3. unfold esc_decimal.
  replace (((48 + d1 - 48) * 10 + (48 + d2 - 48)) * 10 + (48 + d3 - 48)) with ((d1 * 10 + d2) * 10 + d3) by lia.
  replace (255 <? (d1 * 10 + d2) * 10 + d3) with false by lia.
  f_equal. f_equal. unfold wc. apply Z.mod_small. lia.
Qed.

Lemma sitem_head_not_nl q i r : sitem_ok q i = true -> is_nl (head_or_eof (sitem_bytes i ++ r)) = false.
Proof.
  destruct i; simpl; auto. intros H. apply andb_true_iff in H. destruct H as [_ H].
  destruct (is_nl c); auto.
Qed.

Lemma items_head_not_nl q items tail :
  q = 34 \/ q = 39 -> forallb (sitem_ok q) items = true ->
  is_nl (head_or_eof (flat_map sitem_bytes items ++ q :: tail)) = false.
Proof.
  intros Hq H. destruct items as [|i r]; simpl in *.
  - destruct Hq; subst; reflexivity.
  - apply andb_true_iff in H. destruct H as [Hi _]. rewrite <- app_assoc.
    eapply sitem_head_not_nl; eauto.
Qed.

Lemma string_run fuel q tail : q = 34 \/ q = 39 -> forall items st acc o ch st1,
  forallb (sitem_ok q) items = true ->
  at_ st (flat_map sitem_bytes items ++ q :: tail) o ->
  (length (flat_map sitem_bytes items ++ q :: tail) < fuel)%nat ->
  next st = (ch, st1) ->
  exists st', scan_string_loop fuel q ch st1 acc = Ok (acc ++ map sitem_value items) st' /\
              at_ st' tail (o + len (flat_map sitem_bytes items) + 1).
Proof.
  intros Hq. induction fuel as [|f IH]; intros items st acc o ch st1 Hok Hat Hf N; [lia|].
  assert (Hqb : is_nl q = false /\ byteb q = true /\ (q =? 92) = false /\ (q <? 0) = false)
    by (destruct Hq; subst; repeat split; reflexivity).
  destruct Hqb as (Hqn & Hqb & Hq92 & Hq0).
  destruct items as [|i items'].
  - simpl in Hat. destruct (next_plain _ _ _ _ Hat Hqn Hqb) as (s1 & N1 & A1 & _).
    rewrite N in N1. inversion N1; subst ch st1.
    cbn [scan_string_loop]. rewrite Z.eqb_refl. exists s1. rewrite app_nil_r. split; auto.
    at_exact A1. simpl. len_norm. lia.
  - cbn [forallb] in Hok. apply andb_true_iff in Hok. destruct Hok as [Hi Hok'].
    cbn [flat_map] in Hat, Hf. rewrite <- app_assoc in Hat, Hf.
    pose proof (items_head_not_nl q items' tail Hq Hok') as Hhd.
    (* after the item: one more Next, then the induction hypothesis *)
    assert (CONT : forall s2 o2 acc2,
              at_ s2 (flat_map sitem_bytes items' ++ q :: tail) o2 ->
              (length (flat_map sitem_bytes items' ++ q :: tail) < f)%nat ->
              exists st', (let '(ch1, st2) := next s2 in scan_string_loop f q ch1 st2 acc2)
                          = Ok (acc2 ++ map sitem_value items') st' /\
                          at_ st' tail (o2 + len (flat_map sitem_bytes items') + 1)).
    { intros s2 o2 acc2 A2 Hf2. destruct (next s2) as [ch1 st2] eqn:N2.
      apply (IH items' s2 acc2 o2 ch1 st2 Hok' A2 Hf2 N2). }
    destruct i as [c|c|k|d1 d2 d3]; cbn [sitem_bytes sitem_ok sitem_value map] in *.
    + (* plain character *)
      apply andb_true_iff in Hi. destruct Hi as [Hi Hcn]. apply andb_true_iff in Hi. destruct Hi as [Hi Hc92].
      apply andb_true_iff in Hi. destruct Hi as [Hcb Hcq].
      assert (Hn : is_nl c = false) by (destruct (is_nl c); auto; discriminate).
      cbn [app] in Hat. destruct (next_plain _ _ _ _ Hat Hn Hcb) as (s1 & N1 & A1 & _).
      rewrite N in N1. inversion N1; subst ch st1.
      cbn [scan_string_loop].
      replace (c =? q) with false by lia. rewrite is_nl_eq, Hn.
      replace (c <? 0) with false by (unfold is_byte in Hcb; lia). cbn [orb].
      replace (c =? 92) with false by lia.
      destruct (CONT s1 (o + 1) (acc ++ [wc c]) A1 ltac:(simpl in Hf; lia)) as (st' & E & A').
      exists st'. rewrite E. split.
      * f_equal. rewrite wc_byte by exact Hcb. rewrite <- app_assoc. reflexivity.
      * cbn [flat_map sitem_bytes]. at_exact A'. len_norm. lia.
    + (* backslash + letter *)
      destruct (esc_value c) as [v|] eqn:Ev; [|discriminate].
      destruct (esc_value_class _ _ Ev) as [Hcn Hcb].
      cbn [app] in Hat.
      destruct (next_plain _ _ _ _ Hat ltac:(reflexivity) ltac:(reflexivity)) as (s1 & N1 & A1 & _).
      rewrite N in N1. inversion N1; subst ch st1.
      destruct (next_plain _ _ _ _ A1 Hcn Hcb) as (s2 & N2 & A2 & _).
      cbn [scan_string_loop].
      replace (92 =? q) with false by lia. cbn [Z.eqb Z.ltb Pos.eqb orb Z.compare].
      rewrite (scan_escape_letter s1 c v s2 Ev N2).
      destruct (CONT s2 (o + 1 + 1) (acc ++ [v]) A2 ltac:(simpl in Hf; lia)) as (st' & E & A').
      exists st'. rewrite E. split.
      * f_equal. rewrite <- app_assoc. reflexivity.
      * cbn [flat_map sitem_bytes]. at_exact A'. len_norm. lia.
    + (* backslash + line end *)
      cbn [app] in Hat.
      destruct (next_plain _ _ _ _ Hat ltac:(reflexivity) ltac:(reflexivity)) as (s1 & N1 & A1 & _).
      rewrite N in N1. inversion N1; subst ch st1.
      destruct (next_nl_bytes _ _ _ _ A1 Hhd) as (s2 & N2 & A2).
      cbn [scan_string_loop].
      replace (92 =? q) with false by lia. cbn [Z.eqb Z.ltb Pos.eqb orb Z.compare].
      assert (Ee : scan_escape s1 = Ok [10] s2) by (unfold scan_escape; rewrite N2; reflexivity).
      rewrite Ee.
      destruct (CONT s2 (o + 1 + len (nl_bytes k)) (acc ++ [10]) A2
                  ltac:(simpl in Hf; rewrite app_length in Hf; destruct k; simpl in Hf; lia)) as (st' & E & A').
      exists st'. rewrite E. split.
      * f_equal. rewrite <- app_assoc. reflexivity.
      * cbn [flat_map sitem_bytes]. at_exact A'. len_norm. lia.
    + (* decimal escape *)
      apply andb_true_iff in Hi. destruct Hi as [Hi Hv]. apply andb_true_iff in Hi. destruct Hi as [Hi H3].
      apply andb_true_iff in Hi. destruct Hi as [H1 H2].
      cbn [app] in Hat.
      destruct (next_plain _ _ _ _ Hat ltac:(reflexivity) ltac:(reflexivity)) as (s1 & N1 & A1 & _).
      rewrite N in N1. inversion N1; subst ch st1.
      destruct (scan_escape_dec s1 d1 d2 d3 _ _ H1 H2 H3 ltac:(lia) A1) as (s4 & Ee & A4).
      cbn [scan_string_loop].
      replace (92 =? q) with false by lia. cbn [Z.eqb Z.ltb Pos.eqb orb Z.compare].
      rewrite Ee.
      destruct (CONT s4 (o + 1 + 3) (acc ++ [(d1 * 10 + d2) * 10 + d3]) A4 ltac:(simpl in Hf; lia)) as (st' & E & A').
      exists st'. rewrite E. split.
      * f_equal. rewrite <- app_assoc. reflexivity.
      * cbn [flat_map sitem_bytes]. at_exact A'. len_norm. lia.
Qed.

Lemma string_tok_ok q items tail :
  ((q =? 34) || (q =? 39)) = true -> forallb (sitem_ok q) items = true -> tok_ok (LxString q items) tail.
Proof.
  intros Hq Hok fuel redo stX o Hf Hat. cbn [lexeme_bytes] in *.
  assert (Hq' : q = 34 \/ q = 39) by lia.
  rewrite <- app_comm_cons, <- app_assoc in Hat, Hf. cbn [app] in Hat, Hf.
  assert (Hqb : is_nl q = false /\ byteb q = true) by (destruct Hq'; subst; split; reflexivity).
  destruct (next_plain _ _ _ _ Hat (proj1 Hqb) (proj2 Hqb)) as (s1 & N & A & _).
  exists q, s1.
  destruct (next s1) as [ch st2] eqn:N2.
  destruct (string_run fuel q tail Hq' items s1 [] (o + 1) ch st2 Hok A ltac:(simpl in Hf; lia) N2)
    as (st' & E & A').
  exists st'. split; auto. split.
  - assert (Eo : off s1 - 1 = o) by (destruct A as [_ A2]; lia).
    unfold scan_tok. cbv zeta. unfold scan_string. rewrite N2, E, Eo.
    destruct Hq'; subst q; reflexivity.
  - at_exact A'. len_norm. lia.
Qed.

(* ---------- long strings ---------- *)

Lemma scan_tok_bracket fuel redo st1 :
  (peek st1 =? 91) || (peek st1 =? 61) = true ->
  scan_tok fuel redo 91 st1 =
  (let '(c, st2) := next st1 in
   lift_tok (scan_multiline fuel c st2) (fun s st3 => STok (mkTok TString s (line st1) (off st1 - 1)) st3)).
Proof. intros H. unfold scan_tok. cbv zeta. rewrite H. reflexivity. Qed.

Lemma long_tok_ok lvl body tail :
  is_bytes body = true -> ml_body_ok lvl body = true -> tok_ok (LxLong lvl body) tail.
Proof.
  intros Hb Hok fuel redo stX o Hf Hat. cbn [lexeme_bytes] in *.
  assert (Hnc : noclose lvl body).
  { unfold noclose. unfold ml_body_ok in Hok. destruct (occurs_before _ _ _); auto; discriminate. }
  assert (EO : open_bracket lvl = 91 :: open_tail lvl) by reflexivity.
  rewrite EO in Hat, Hf. rewrite <- !app_assoc in Hat, Hf. rewrite <- app_comm_cons in Hat, Hf.
  destruct (next_plain _ _ _ _ Hat ltac:(reflexivity) ltac:(reflexivity)) as (s1 & N & A & _).
  exists 91, s1.
  assert (Hp : (peek s1 =? 91) || (peek s1 =? 61) = true).
  { rewrite (peek_at_head _ _ _ A). unfold open_tail. destruct lvl; reflexivity. }
  destruct (next s1) as [c st2] eqn:N2.
  destruct (scan_multiline_run fuel lvl tail body s1 (o + 1) c st2 Hb Hnc A ltac:(unfold open_tail in *; lens) N2)
    as (st' & E & A').
  exists st'. split; auto. split.
  - rewrite scan_tok_bracket by exact Hp. rewrite N2, E. cbn [lift_tok lexeme_type lexeme_text].
    assert (Eo : off s1 - 1 = o) by (destruct A as [_ A2]; lia). rewrite Eo. reflexivity.
  - rewrite EO. at_exact A'. len_norm. lia.
Qed.

(* ---------- operators and punctuation ---------- *)

Lemma lookup_sym_in l ty b : lookup_sym l ty = Some b -> In (ty, b) l.
Proof.
  induction l as [|[t b'] l IH]; simpl; [discriminate|].
  destruct (t =? ty) eqn:E; intros H.
  - inversion H; subst. left. f_equal. lia.
  - right. auto.
Qed.

Ltac sym_one s1 N A Eo Hp tail :=
  eexists _, s1, s1; split; [exact N|]; split;
  [unfold scan_tok; cbv zeta; rewrite Eo, ?Hp;
   repeat match goal with
          | |- context [head_or_eof tail =? ?k] => replace (head_or_eof tail =? k) with false by lia
          end;
   try replace (is_dec (head_or_eof tail)) with false by lia;
   reflexivity
  |at_exact A; len_norm; lia].

Ltac sym_two s1 N A Eo Hp tail :=
  let s2 := fresh "s2" in let N2 := fresh "N2" in let A2 := fresh "A2" in let Hp2 := fresh "Hp2" in
  destruct (next_plain _ _ _ _ A ltac:(reflexivity) ltac:(reflexivity)) as (s2 & N2 & A2 & _);
  pose proof (peek_at_head _ _ _ A2) as Hp2;
  eexists _, s1, s2; split; [exact N|]; split;
  [unfold scan_tok; cbv zeta; rewrite Eo, Hp; cbn [head_or_eof Z.eqb Pos.eqb is_dec Z.leb Z.compare Pos.compare Pos.compare_cont andb];
   rewrite ?N2; cbn [snd]; rewrite ?Hp2;
   repeat match goal with
          | |- context [head_or_eof tail =? ?k] => replace (head_or_eof tail =? k) with false by lia
          end;
   reflexivity
  |at_exact A2; len_norm; lia].

Ltac sym_three s1 N A Eo Hp tail :=
  let s2 := fresh "s2" in let N2 := fresh "N2" in let A2 := fresh "A2" in let Hp2 := fresh "Hp2" in
  let s3 := fresh "s3" in let N3 := fresh "N3" in let A3 := fresh "A3" in
  destruct (next_plain _ _ _ _ A ltac:(reflexivity) ltac:(reflexivity)) as (s2 & N2 & A2 & _);
  pose proof (peek_at_head _ _ _ A2) as Hp2;
  destruct (next_plain _ _ _ _ A2 ltac:(reflexivity) ltac:(reflexivity)) as (s3 & N3 & A3 & _);
  eexists _, s1, s3; split; [exact N|]; split;
  [unfold scan_tok; cbv zeta; rewrite Eo, Hp; cbn [head_or_eof Z.eqb Pos.eqb is_dec Z.leb Z.compare Pos.compare Pos.compare_cont andb];
   rewrite N2, Hp2; cbn [head_or_eof Z.eqb Pos.eqb]; rewrite N3; reflexivity
  |at_exact A3; len_norm; lia].

Lemma sym_tok_ok ty tail :
  lexeme_ok (LxSym ty) = true -> no_merge (LxSym ty) (head_or_eof tail) = true -> tok_ok (LxSym ty) tail.
Proof.
  intros Hok Hm fuel redo stX o Hf Hat.
  cbn [lexeme_ok] in Hok. cbn [lexeme_bytes lexeme_type lexeme_text] in *. unfold sym_bytes in *.
  destruct (lookup_sym sym_table ty) as [b|] eqn:El; [|discriminate].
  apply lookup_sym_in in El. cbn [sym_table In] in El.
  (* every entry of the table *)
  repeat (destruct El as [El|El]; [inversion El; subst ty b; clear El|]); try contradiction;
    cbn [app] in Hat;
    destruct (next_plain _ _ _ _ Hat ltac:(reflexivity) ltac:(reflexivity)) as (s1 & N & A & _);
    pose proof (peek_at_head _ _ _ A) as Hp;
    assert (Eo : off s1 - 1 = o) by (destruct A as [_ A2]; lia);
    cbn [no_merge Z.eqb Pos.eqb orb] in Hm;
    unfold T2Comma, T3Comma, T2Colon, TEqeq, TNeq, TLte, TGte in *;
    cbn [Z.eqb Pos.eqb orb] in Hm;
    try solve [sym_one s1 N A Eo Hp tail]; try solve [sym_two s1 N A Eo Hp tail]; try solve [sym_three s1 N A Eo Hp tail].
Qed.

Ltac lens3 := repeat rewrite app_length in *; cbn [length] in *; lia.

(* ---------- numerals ---------- *)

Definition P1 (c : Z) : bool := is_dec c || (c =? 46).

Lemma span_dec_spec s :
  s = fst (span_dec s) ++ snd (span_dec s) /\ forallb is_dec (fst (span_dec s)) = true /\
  is_dec (head_or_eof (snd (span_dec s))) = false.
Proof.
  induction s as [|c r IH]; simpl; auto.
  destruct (is_dec c) eqn:E.
  - destruct (span_dec r) as [a b]. simpl in *. destruct IH as (I1 & I2 & I3).
    rewrite E. repeat split; auto. f_equal. exact I1.
  - simpl. auto.
Qed.

Lemma drop_dec_span s : drop_dec s = (length (fst (span_dec s)), snd (span_dec s)).
Proof.
  induction s as [|c r IH]; simpl; auto.
  destruct (is_dec c); auto. rewrite IH. destruct (span_dec r). reflexivity.
Qed.

Lemma match46 {A} (r : bytes) (f : bytes -> A) (g : A) :
  (match r with 46 :: r1 => f r1 | _ => g end)
  = match r with c :: r1 => if c =? 46 then f r1 else g | [] => g end.
Proof.
  destruct r as [|c r1]; auto. destruct (c =? 46) eqn:E.
  - assert (c = 46) by lia. subst. reflexivity.
  - destruct c as [|p|p]; auto. repeat (destruct p as [p|p|]; auto). discriminate.
Qed.

Lemma match46_ne {A} x (r : bytes) (f : bytes -> A) (g : A) :
  x <> 46 -> (match x :: r with 46 :: r1 => f r1 | _ => g end) = g.
Proof.
  intros H. destruct x as [|p|p]; auto. repeat (destruct p as [p|p|]; auto). congruence.
Qed.

Lemma is_numeral_dec_eq s : is_numeral_dec s = dec_number_ok s.
Proof.
  unfold is_numeral_dec, dec_number_ok.
  rewrite drop_dec_span. destruct (span_dec s) as [d1 r]. cbn [fst snd].
  assert (E2 : (match r with 46 :: r0 => drop_dec r0 | _ => (O, r) end)
               = (let '(d2, r2) := match r with 46 :: r1 => span_dec r1 | _ => ([], r) end in (length d2, r2))).
  { rewrite !match46. destruct r as [|c r']; auto. destruct (c =? 46); auto.
    rewrite drop_dec_span. destruct (span_dec r'); reflexivity. }
  rewrite E2. destruct (match r with 46 :: r1 => span_dec r1 | _ => ([], r) end) as [d2 r2].
  destruct (Nat.eqb (length d1 + length d2) 0); cbn [negb andb]; auto.
  unfold exponent_ok. destruct r2 as [|e r']; auto.
  destruct ((e =? 101) || (e =? 69)); cbn [andb]; auto.
  assert (E3 : (match r' with sg :: r'0 => if (sg =? 43) || (sg =? 45) then r'0 else r' | [] => r' end)
               = (match r' with sg :: r'0 => if (sg =? 45) || (sg =? 43) then r'0 else r' | [] => r' end)).
  { destruct r'; auto. rewrite orb_comm. reflexivity. }
  rewrite E3. rewrite drop_dec_span.
  destruct (span_dec _) as [d3 r3]. cbn [fst snd].
  destruct d3; cbn [length Nat.eqb]; auto; destruct r3; auto.
Qed.

Lemma dec_not_hex c0 x r :
  dec_number_ok (c0 :: x :: r) = true -> (c0 =? 48) && ((x =? 120) || (x =? 88)) = false.
Proof.
  intros H. destruct ((c0 =? 48) && ((x =? 120) || (x =? 88))) eqn:E; auto. exfalso.
  apply andb_true_iff in E. destruct E as [E0 Ex]. assert (c0 = 48) by lia. subst c0.
  assert (Hx : x = 120 \/ x = 88) by lia.
  destruct Hx; subst x; unfold dec_number_ok in H; cbn in H; discriminate.
Qed.

Lemma hex_number_ok_inv s : hex_number_ok s = true ->
  exists x y r, s = 48 :: x :: y :: r /\ ((x =? 120) || (x =? 88)) = true /\ forallb is_hex (y :: r) = true.
Proof.
  unfold hex_number_ok. destruct s as [|c0 [|x [|y r]]]; intros H.
  - discriminate.
  - destruct c0 as [|p|p]; try discriminate. repeat (destruct p as [p|p|]; try discriminate).
  - destruct c0 as [|p|p]; try discriminate. repeat (destruct p as [p|p|]; try discriminate).
  - destruct c0 as [|p|p]; try discriminate. repeat (destruct p as [p|p|]; try discriminate).
    apply andb_true_iff in H. destruct H. exists x, y, r. auto.
Qed.

Lemma is_numeral_ok s : number_ok s = true -> is_numeral s = true.
Proof.
  unfold number_ok. intros H. apply orb_true_iff in H. destruct H as [H|H].
  - destruct (hex_number_ok_inv s H) as (x & y & r & -> & Hx & Hr).
    unfold is_numeral. cbn [Z.eqb Pos.eqb andb]. rewrite Hx. exact Hr.
  - unfold is_numeral. destruct s as [|c0 [|x [|y r]]]; try (rewrite is_numeral_dec_eq; exact H).
    rewrite (dec_not_hex _ _ _ H). rewrite is_numeral_dec_eq. exact H.
Qed.

Definition expform (E G : bytes) : Prop :=
  (E = [] /\ G = []) \/
  (G <> [] /\ exists e, (e = 101 \/ e = 69) /\ (E = [e] \/ exists sg, (sg = 45 \/ sg = 43) /\ E = [e; sg])).

Lemma P1_dec l : forallb is_dec l = true -> forallb P1 l = true.
Proof. induction l; simpl; auto. intros H. apply andb_true_iff in H. destruct H as [H1 H2]. unfold P1 at 1. rewrite H1. simpl. auto. Qed.

Lemma exponent_decomp r2 : exponent_ok r2 = true -> is_dec (head_or_eof r2) = false ->
  exists E G, r2 = E ++ G /\ forallb is_dec G = true /\ expform E G.
Proof.
  unfold exponent_ok. destruct r2 as [|e r]; intros H Hd.
  - exists [], []. repeat split; auto. left; auto.
  - apply andb_true_iff in H. destruct H as [He H].
    assert (He' : e = 101 \/ e = 69) by lia.
    destruct r as [|sg r'].
    + simpl in H. discriminate.
    + destruct ((sg =? 45) || (sg =? 43)) eqn:Es.
      * pose proof (span_dec_spec r') as (S1 & S2 & S3).
        destruct (span_dec r') as [g rest]. cbn [fst snd] in *.
        destruct g as [|g0 g']; [discriminate|]. destruct rest; [|discriminate].
        exists [e; sg], (g0 :: g'). rewrite app_nil_r in S1. subst r'. repeat split; auto.
        right. split; [discriminate|]. exists e. split; auto. right. exists sg. split; auto. lia.
      * pose proof (span_dec_spec (sg :: r')) as (S1 & S2 & S3).
        destruct (span_dec (sg :: r')) as [g rest]. cbn [fst snd] in *.
        destruct g as [|g0 g']; [discriminate|]. destruct rest; [|discriminate].
        exists [e], (g0 :: g'). rewrite app_nil_r in S1. rewrite S1. repeat split; auto.
        right. split; [discriminate|]. exists e. split; auto.
Qed.

Lemma dec_number_decomp s : dec_number_ok s = true ->
  exists M E G, s = M ++ E ++ G /\ M <> [] /\ forallb P1 M = true /\ forallb is_dec G = true /\ expform E G.
Proof.
  unfold dec_number_ok. pose proof (span_dec_spec s) as (S1 & S2 & S3).
  destruct (span_dec s) as [d1 r]. cbn [fst snd] in *.
  rewrite match46. destruct r as [|c r1].
  - (* digits only *)
    intros H. apply andb_true_iff in H. destruct H as [Hn _].
    exists d1, [], []. rewrite !app_nil_r in *. repeat split; auto.
    + destruct d1; [discriminate|discriminate].
    + apply P1_dec; auto.
    + left; auto.
  - destruct (c =? 46) eqn:Ec.
    + assert (c = 46) by lia. subst c.
      pose proof (span_dec_spec r1) as (T1 & T2 & T3).
      destruct (span_dec r1) as [d2 r2]. cbn [fst snd] in *.
      intros H. apply andb_true_iff in H. destruct H as [Hn He].
      destruct (exponent_decomp r2 He T3) as (E & G & E1 & E2 & E3).
      exists (d1 ++ 46 :: d2), E, G. repeat split; auto.
      * rewrite S1, T1, E1. rewrite <- !app_assoc. reflexivity.
      * destruct d1; discriminate.
      * rewrite forallb_app. rewrite (P1_dec _ S2). cbn [forallb]. rewrite (P1_dec _ T2). reflexivity.
    + intros H. apply andb_true_iff in H. destruct H as [Hn He].
      destruct (exponent_decomp (c :: r1) He S3) as (E & G & E1 & E2 & E3).
      exists d1, E, G. repeat split; auto.
      * rewrite S1, E1. reflexivity.
      * destruct d1; [simpl in Hn; discriminate|discriminate].
      * apply P1_dec; auto.
Qed.

Lemma P1_class c : P1 c = true -> is_nl c = false /\ byteb c = true.
Proof. unfold P1, is_dec, is_nl, byteb. lia. Qed.

Lemma hex_ident l : forallb is_hex l = true -> forallb (fun c => is_ident c 1) l = true.
Proof.
  induction l; simpl; auto. intros H. apply andb_true_iff in H. destruct H as [H1 H2].
  rewrite IHl by auto. unfold is_hex, is_dec in H1. unfold is_ident, is_dec.
  replace ((a =? 95) || (65 <=? a) && (a <=? 90) || (97 <=? a) && (a <=? 122) || (48 <=? a) && (a <=? 57) && (0 <? 1)) with true by lia.
  reflexivity.
Qed.

Lemma dec_ident l : forallb is_dec l = true -> forallb (fun c => is_ident c 1) l = true.
Proof.
  induction l; simpl; auto. intros H. apply andb_true_iff in H. destruct H as [H1 H2].
  rewrite IHl by auto. unfold is_dec in H1. unfold is_ident, is_dec.
  replace ((a =? 95) || (65 <=? a) && (a <=? 90) || (97 <=? a) && (a <=? 122) || (48 <=? a) && (a <=? 57) && (0 <? 1)) with true by lia.
  reflexivity.
Qed.

Lemma P1_no_dot_ok s : forallb P1 s = true -> num_dot_ok s = false.
Proof.
  intros H. unfold num_dot_ok. apply orb_false_iff. split.
  - destruct (hex_number_ok s) eqn:Hh; auto. exfalso.
    destruct (hex_number_ok_inv s Hh) as (x & y & r & -> & Hx & _).
    cbn [forallb] in H. apply andb_true_iff in H. destruct H as [_ H]. apply andb_true_iff in H. destruct H as [H _].
    unfold P1, is_dec in H. lia.
  - induction s as [|c s IH]; auto. cbn [forallb existsb] in *. apply andb_true_iff in H. destruct H as [Hc Hs].
    rewrite (IH Hs). unfold P1, is_dec in Hc. lia.
Qed.

Lemma number_run fuel c0 s' tail st1 o :
  number_ok (c0 :: s') = true ->
  is_alnum_ (head_or_eof tail) = false -> (head_or_eof tail = 46 -> num_dot_ok (c0 :: s') = true) ->
  at_ st1 (s' ++ tail) o -> (length (s' ++ tail) < fuel)%nat ->
  exists st', scan_number fuel c0 st1 = Ok (c0 :: s') st' /\ at_ st' tail (o + len s').
Proof.
  intros Hok Hal H46 Hat Hf.
  pose proof (is_numeral_ok _ Hok) as Hnum.
  assert (HP1t : head_or_eof tail <> 46 -> P1 (head_or_eof tail) = false).
  { intros Hne. unfold P1. unfold is_alnum_, is_ident in Hal. unfold is_dec in *. lia. }
  assert (HeE : (head_or_eof tail =? 101) || (head_or_eof tail =? 69) = false).
  { unfold is_alnum_, is_ident in Hal. lia. }
  unfold number_ok in Hok. apply orb_true_iff in Hok. destruct Hok as [Hh|Hd].
  - (* hexadecimal *)
    destruct (hex_number_ok_inv _ Hh) as (x & y & r & E & Hx & Hr). inversion E; subst c0 s'. clear E.
    unfold scan_number. change (take_while fuel (fun c : Z => is_dec c || (c =? 46)) st1) with (take_while fuel P1 st1).
    destruct (take_while_run fuel P1 [] st1 ((x :: y :: r) ++ tail) o P1_class ltac:(reflexivity)
                ltac:(cbn [app head_or_eof]; unfold P1, is_dec; lia) Hat Hf) as (sa & Ea & Aa).
    rewrite Ea. cbn [bind]. rewrite (peek_at_head _ _ _ Aa). cbn [app head_or_eof].
    replace ((x =? 101) || (x =? 69)) with false by lia.
    assert (Hid : forallb (fun c => is_ident c 1) (x :: y :: r) = true).
    { pose proof (hex_ident _ Hr) as Hhx. cbn [forallb] in *. rewrite Hhx.
      assert (Hx' : x = 120 \/ x = 88) by lia. destruct Hx'; subst x; reflexivity. }
    destruct (take_while_run fuel (fun c => is_ident c 1) (x :: y :: r) sa tail _ ident_class Hid
                Hal Aa ltac:(clear - Hf; lens3)) as (sb & Eb & Ab).
    rewrite Eb. cbn [bind app]. replace (wc 48) with 48 by reflexivity. rewrite Hnum.
    exists sb. split; auto. at_exact Ab. len_norm. clear. lia.
  - (* decimal *)
    destruct (dec_number_decomp _ Hd) as (M & E & G & Es & HM & HMP & HG & HE).
    destruct M as [|m0 M']; [congruence|]. cbn [app] in Es. inversion Es; subst m0 s'. clear Es.
    cbn [forallb] in HMP. apply andb_true_iff in HMP. destruct HMP as [Hc0 HM'].
    rewrite <- !app_assoc in Hat, Hf.
    assert (Hq : P1 (head_or_eof (E ++ G ++ tail)) = false).
    { destruct HE as [[-> ->]|(HGne & e & He & HEe)].
      { apply HP1t. intros E46. specialize (H46 E46). rewrite !app_nil_r in H46.
        rewrite (P1_no_dot_ok (c0 :: M')) in H46; [discriminate|]. cbn [forallb]. rewrite Hc0, HM'. reflexivity. }
      destruct HEe as [->|(sg & _ & ->)]; cbn [app head_or_eof]; unfold P1, is_dec; lia. }
    unfold scan_number. change (take_while fuel (fun c : Z => is_dec c || (c =? 46)) st1) with (take_while fuel P1 st1).
    destruct (take_while_run fuel P1 M' st1 _ o P1_class HM' Hq Hat Hf) as (sa & Ea & Aa).
    rewrite Ea. cbn [bind].
    assert (Hc0b : wc c0 = c0) by (apply wc_byte; apply P1_class; auto).
    destruct HE as [[-> ->]|(HGne & e & He & HEe)].
    + (* no exponent *)
      cbn [app] in *. rewrite (peek_at_head _ _ _ Aa), HeE.
      destruct (take_while_run fuel (fun c => is_ident c 1) [] sa tail _ ident_class ltac:(reflexivity) Hal Aa
                  ltac:(clear - Hf; lens3)) as (sb & Eb & Ab).
      rewrite Eb. cbn [bind]. rewrite !app_nil_r in *. rewrite Hc0b, Hnum.
      exists sb. split; auto. at_exact Ab. len_norm. clear. lia.
    + destruct G as [|g0 G']; [congruence|].
      assert (Hg0 : is_dec g0 = true) by (cbn [forallb] in HG; apply andb_true_iff in HG; tauto).
      assert (Heb : is_nl e = false /\ byteb e = true) by (destruct He; subst; split; reflexivity).
      destruct HEe as [->|(sg & Hsg & ->)].
      * cbn [app] in Aa. rewrite (peek_at _ _ _ _ Aa).
        replace ((e =? 101) || (e =? 69)) with true by (clear - He; lia).
        destruct (next_plain _ _ _ _ Aa (proj1 Heb) (proj2 Heb)) as (s2 & N2 & A2 & _). rewrite N2.
        rewrite (peek_at _ _ _ _ A2).
        replace ((g0 =? 45) || (g0 =? 43)) with false by (clear - Hg0; unfold is_dec in Hg0; lia).
        destruct (take_while_run fuel (fun c => is_ident c 1) (g0 :: G') s2 tail _ ident_class (dec_ident _ HG) Hal A2
                    ltac:(clear - Hf; lens3)) as (sb & Eb & Ab).
        rewrite Eb. cbn [bind]. rewrite Hc0b, (wc_byte e) by tauto.
        cbn [app] in Hnum. cbn [app]. rewrite Hnum.
        exists sb. split; auto. at_exact Ab. len_norm. clear. lia.
      * cbn [app] in Aa. rewrite (peek_at _ _ _ _ Aa).
        replace ((e =? 101) || (e =? 69)) with true by (clear - He; lia).
        destruct (next_plain _ _ _ _ Aa (proj1 Heb) (proj2 Heb)) as (s2 & N2 & A2 & _). rewrite N2.
        rewrite (peek_at _ _ _ _ A2).
        replace ((sg =? 45) || (sg =? 43)) with true by (clear - Hsg; lia).
        assert (Hsb : is_nl sg = false /\ byteb sg = true) by (destruct Hsg; subst; split; reflexivity).
        destruct (next_plain _ _ _ _ A2 (proj1 Hsb) (proj2 Hsb)) as (s3 & N3 & A3 & _). rewrite N3.
        destruct (take_while_run fuel (fun c => is_ident c 1) (g0 :: G') s3 tail _ ident_class (dec_ident _ HG) Hal A3
                    ltac:(clear - Hf; lens3)) as (sb & Eb & Ab).
        rewrite Eb. cbn [bind]. rewrite Hc0b, (wc_byte e), (wc_byte sg) by tauto.
        cbn [app] in Hnum. cbn [app]. rewrite Hnum.
        exists sb. split; auto. at_exact Ab. len_norm. clear. lia.
Qed.

(* ---------- numerals as tokens ---------- *)

Lemma dot_number s' : dec_number_ok (46 :: s') = true -> is_dec (head_or_eof s') = true.
Proof.
  assert (E : dec_number_ok (46 :: s') =
              (let '(d2, r2) := span_dec s' in negb (Nat.eqb (length (@nil Z) + length d2) 0) && exponent_ok r2))
    by reflexivity.
  rewrite E. pose proof (span_dec_spec s') as (S1 & S2 & S3).
  destruct (span_dec s') as [d2 r2]. cbn [fst snd] in *.
  destruct d2 as [|g d2']; [cbn; discriminate|]. intros _.
  rewrite S1. cbn [app head_or_eof]. cbn [forallb] in S2. apply andb_true_iff in S2. tauto.
Qed.

Lemma number_first s : number_ok s = true ->
  exists c0 s', s = c0 :: s' /\ (is_dec c0 = true \/ (c0 = 46 /\ is_dec (head_or_eof s') = true)).
Proof.
  unfold number_ok. intros H. apply orb_true_iff in H. destruct H as [H|H].
  - destruct (hex_number_ok_inv s H) as (x & y & r & -> & _). exists 48, (x :: y :: r). split; auto.
  - destruct (dec_number_decomp s H) as (M & E & G & Es & HM & HMP & _).
    destruct M as [|c0 M']; [congruence|]. exists c0, (M' ++ E ++ G). split; [exact Es|].
    cbn [forallb] in HMP. apply andb_true_iff in HMP. destruct HMP as [Hc0 _].
    unfold P1 in Hc0. apply orb_true_iff in Hc0. destruct Hc0 as [Hc0|Hc0]; [left; auto|right].
    assert (c0 = 46) by lia. subst c0. split; auto.
    apply dot_number. rewrite Es in H. exact H.
Qed.

Lemma scan_tok_digit fuel redo c st1 :
  is_dec c = true ->
  scan_tok fuel redo c st1 =
  lift_tok (scan_number fuel c st1) (fun s st2 => STok (mkTok TNumber s (line st1) (off st1 - 1)) st2).
Proof.
  intros H. unfold scan_tok. cbv zeta.
  replace (is_ident c 0) with false by (unfold is_ident, is_dec in *; lia). rewrite H. reflexivity.
Qed.

Lemma scan_tok_dot fuel redo st1 :
  is_dec (peek st1) = true ->
  scan_tok fuel redo 46 st1 =
  lift_tok (scan_number fuel 46 st1) (fun s st2 => STok (mkTok TNumber s (line st1) (off st1 - 1)) st2).
Proof. intros H. unfold scan_tok. cbv zeta. rewrite H. reflexivity. Qed.

Lemma number_tok_ok s tail :
  number_ok s = true -> no_merge (LxNumber s) (head_or_eof tail) = true -> tok_ok (LxNumber s) tail.
Proof.
  intros Hok Hm fuel redo stX o Hf Hat. cbn [lexeme_bytes lexeme_type lexeme_text no_merge] in *.
  apply andb_true_iff in Hm. destruct Hm as [Hal H46].
  assert (H46'' : head_or_eof tail = 46 -> num_dot_ok s = true).
  { intros E. rewrite E in H46. cbn [Z.eqb Pos.eqb negb orb] in H46. exact H46. }
  assert (Hal' : is_alnum_ (head_or_eof tail) = false) by (destruct (is_alnum_ _); auto; discriminate).
  destruct (number_first s Hok) as (c0 & s' & -> & Hc0).
  rewrite <- app_comm_cons in Hat.
  assert (Hcb : is_nl c0 = false /\ byteb c0 = true).
  { destruct Hc0 as [Hc0|[-> _]]; [unfold is_dec in Hc0; unfold is_nl, byteb; lia|split; reflexivity]. }
  destruct (next_plain _ _ _ _ Hat (proj1 Hcb) (proj2 Hcb)) as (s1 & N & A & _).
  destruct (number_run fuel c0 s' tail s1 (o + 1) Hok Hal' H46'' A ltac:(clear - Hf; simpl in Hf; lia))
    as (st' & E & A').
  exists c0, s1, st'. split; auto.
  assert (Eo : off s1 - 1 = o) by (destruct A as [_ A2]; lia).
  split.
  - destruct Hc0 as [Hc0|[-> Hd]].
    + rewrite scan_tok_digit by auto. rewrite E. cbn [lift_tok]. rewrite Eo. reflexivity.
    + rewrite scan_tok_dot.
      * rewrite E. cbn [lift_tok]. rewrite Eo. reflexivity.
      * rewrite (peek_at_head _ _ _ A). destruct s' as [|g s'']; [discriminate|]. exact Hd.
  - at_exact A'. len_norm. clear. lia.
Qed.

(* ---------- every lexeme ---------- *)

Lemma lexeme_tok_ok l tail :
  lexeme_ok l = true -> no_merge l (head_or_eof tail) = true -> tok_ok l tail.
Proof.
  intros Hok Hm. destruct l as [s|s|q items|lvl body|ty].
  - apply name_tok_ok; auto. cbn in Hm. destruct (is_alnum_ _); auto; discriminate.
  - apply number_tok_ok; auto.
  - cbn in Hok. apply andb_true_iff in Hok. destruct Hok. apply string_tok_ok; auto.
  - cbn in Hok. apply andb_true_iff in Hok. destruct Hok. apply long_tok_ok; auto.
  - apply sym_tok_ok; auto.
Qed.

(* ---------- the rendering consists of bytes; a lexeme starts with a non-blank byte ---------- *)

Lemma is_bytes_app_iff a b : is_bytes (a ++ b) = is_bytes a && is_bytes b.
Proof. unfold is_bytes. apply forallb_app. Qed.

Lemma class_bytes (p : Z -> bool) l :
  (forall c, p c = true -> byteb c = true) -> forallb p l = true -> is_bytes l = true.
Proof.
  intros Hp. induction l; simpl; auto. intros H. apply andb_true_iff in H. destruct H as [H1 H2].
  unfold is_bytes in *. simpl. rewrite IHl by auto. specialize (Hp _ H1). unfold byteb, is_byte in *. rewrite Hp. reflexivity.
Qed.

Lemma repeat_bytes c n : byteb c = true -> is_bytes (repeat c n) = true.
Proof. intros H. induction n; simpl; auto. unfold is_bytes in *. simpl. rewrite IHn. unfold byteb, is_byte in *. rewrite H. reflexivity. Qed.

Lemma open_bytes n : is_bytes (open_bracket n) = true.
Proof. unfold open_bracket. change (91 :: repeat 61 n ++ [91]) with ([91] ++ repeat 61 n ++ [91]). rewrite !is_bytes_app_iff, repeat_bytes by reflexivity. reflexivity. Qed.

Lemma close_bytes n : is_bytes (close_bracket n) = true.
Proof. unfold close_bracket. change (93 :: repeat 61 n ++ [93]) with ([93] ++ repeat 61 n ++ [93]). rewrite !is_bytes_app_iff, repeat_bytes by reflexivity. reflexivity. Qed.

Lemma nl_bytes_bytes k : is_bytes (nl_bytes k) = true.
Proof. destruct k; reflexivity. Qed.

Lemma number_bytes s : number_ok s = true -> is_bytes s = true.
Proof.
  unfold number_ok. intros H. apply orb_true_iff in H. destruct H as [H|H].
  - destruct (hex_number_ok_inv s H) as (x & y & r & -> & Hx & Hr).
    change (48 :: x :: y :: r) with ([48] ++ [x] ++ (y :: r)). rewrite !is_bytes_app_iff.
    rewrite (class_bytes is_hex (y :: r)); auto.
    + assert (Hx' : x = 120 \/ x = 88) by lia. destruct Hx'; subst; reflexivity.
    + intros c Hc. unfold is_hex, is_dec, byteb in *. lia.
  - destruct (dec_number_decomp s H) as (M & E & G & -> & _ & HM & HG & HE).
    rewrite !is_bytes_app_iff. rewrite (class_bytes P1 M), (class_bytes is_dec G); auto.
    + destruct HE as [[-> _]|(_ & e & He & [->|(sg & Hsg & ->)])]; auto;
        destruct He; subst; auto; destruct Hsg; subst; reflexivity.
    + intros c Hc. unfold is_dec, byteb in *. lia.
    + intros c Hc. apply P1_class; auto.
Qed.

Lemma sitem_bytes_bytes q i : sitem_ok q i = true -> is_bytes (sitem_bytes i) = true.
Proof.
  destruct i as [c|c|k|d1 d2 d3]; cbn [sitem_ok sitem_bytes]; intros H.
  - apply andb_true_iff in H. destruct H as [H _]. apply andb_true_iff in H. destruct H as [H _].
    apply andb_true_iff in H. destruct H as [H _]. unfold is_bytes. simpl. rewrite H. reflexivity.
  - destruct (esc_value c) eqn:E; [|discriminate]. destruct (esc_value_class _ _ E) as [_ Hb].
    unfold is_bytes. simpl. unfold byteb, is_byte in *. rewrite Hb. reflexivity.
  - change (92 :: nl_bytes k) with ([92] ++ nl_bytes k). rewrite is_bytes_app_iff, nl_bytes_bytes. reflexivity.
  - unfold is_digit_val in H. unfold is_bytes, is_byte. cbn [forallb]. lia.
Qed.

Lemma lexeme_bytes_bytes l : lexeme_ok l = true -> is_bytes (lexeme_bytes l) = true.
Proof.
  destruct l as [s|s|q items|lvl body|ty]; cbn [lexeme_ok lexeme_bytes]; intros H.
  - destruct s as [|c s']; [discriminate|]. simpl in H. apply andb_true_iff in H. destruct H as [H1 H2].
    change (c :: s') with ([c] ++ s'). rewrite is_bytes_app_iff.
    rewrite (class_bytes (fun c => is_ident c 1) s'); auto.
    + destruct (ident0_class _ H1) as (_ & Hb & _). unfold is_bytes. simpl. unfold byteb, is_byte in *. rewrite Hb. reflexivity.
    + intros c' Hc'. apply ident_class; auto.
  - apply number_bytes; auto.
  - apply andb_true_iff in H. destruct H as [Hq Hi].
    change (q :: flat_map sitem_bytes items ++ [q]) with ([q] ++ flat_map sitem_bytes items ++ [q]).
    rewrite !is_bytes_app_iff.
    assert (Hqb : is_bytes [q] = true) by (assert (q = 34 \/ q = 39) as [->| ->] by lia; reflexivity).
    rewrite Hqb. cbn [andb]. rewrite andb_true_r.
    induction items as [|i r IH]; auto. cbn [flat_map forallb] in *. apply andb_true_iff in Hi. destruct Hi as [Hi1 Hi2].
    rewrite is_bytes_app_iff, (sitem_bytes_bytes q i), IH; auto.
  - apply andb_true_iff in H. destruct H as [Hb _].
    rewrite !is_bytes_app_iff, open_bytes, close_bytes, Hb. reflexivity.
  - unfold sym_bytes. destruct (lookup_sym sym_table ty) as [b|] eqn:El; [|discriminate].
    apply lookup_sym_in in El. cbn [sym_table In] in El.
    repeat (destruct El as [El|El]; [inversion El; reflexivity|]). contradiction.
Qed.

Lemma sepitem_bytes_bytes i : sepitem_ok i = true -> is_bytes (sepitem_bytes i) = true.
Proof.
  destruct i as [c|k|text k|lvl body]; cbn [sepitem_ok sepitem_bytes]; intros H.
  - unfold is_blank in H. unfold is_bytes, is_byte. simpl. lia.
  - apply nl_bytes_bytes.
  - apply andb_true_iff in H. destruct H as [H _]. apply andb_true_iff in H. destruct H as [H _].
    change (45 :: 45 :: text ++ nl_bytes k) with ([45; 45] ++ text ++ nl_bytes k).
    rewrite !is_bytes_app_iff, H, nl_bytes_bytes. reflexivity.
  - apply andb_true_iff in H. destruct H as [H _].
    change (45 :: 45 :: open_bracket lvl ++ body ++ close_bracket lvl)
      with ([45; 45] ++ open_bracket lvl ++ body ++ close_bracket lvl).
    rewrite !is_bytes_app_iff, H, open_bytes, close_bytes. reflexivity.
Qed.

Lemma sep_bytes_bytes s : forallb sepitem_ok s = true -> is_bytes (sep_bytes s) = true.
Proof.
  induction s as [|i r IH]; auto. cbn [forallb]. intros H.
  change (sep_bytes (i :: r)) with (sepitem_bytes i ++ sep_bytes r).
  apply andb_true_iff in H. destruct H. rewrite is_bytes_app_iff, sepitem_bytes_bytes, IH; auto.
Qed.

Lemma render_bytes items trailer : good items trailer = true -> is_bytes (render items trailer) = true.
Proof.
  induction items as [|[s l] r IH]; cbn [good render]; intros H.
  - apply sep_bytes_bytes; auto.
  - apply andb_true_iff in H. destruct H as [H Hg]. apply andb_true_iff in H. destruct H as [H _].
    apply andb_true_iff in H. destruct H as [Hs Hl].
    rewrite !is_bytes_app_iff, sep_bytes_bytes, lexeme_bytes_bytes, IH; auto.
Qed.

Lemma lexeme_head l : lexeme_ok l = true ->
  exists c r, lexeme_bytes l = c :: r /\ blankb c = false /\ byteb c = true.
Proof.
  destruct l as [s|s|q items|lvl body|ty]; cbn [lexeme_ok lexeme_bytes]; intros H.
  - destruct s as [|c s']; [discriminate|]. simpl in H. apply andb_true_iff in H. destruct H as [H1 _].
    exists c, s'. split; auto. unfold is_ident, is_dec in H1. unfold blankb, is_blank, is_nl, byteb. lia.
  - destruct (number_first s H) as (c0 & s' & -> & Hc). exists c0, s'. split; auto.
    destruct Hc as [Hc|[-> _]]; [unfold is_dec in Hc; unfold blankb, is_blank, is_nl, byteb; lia|split; reflexivity].
  - apply andb_true_iff in H. destruct H as [Hq _]. eexists q, _. split; [reflexivity|].
    assert (q = 34 \/ q = 39) as [->| ->] by lia; split; reflexivity.
  - exists 91, (open_tail lvl ++ body ++ close_bracket lvl). split; [|split; reflexivity].
    unfold open_bracket, open_tail. cbn [app]. rewrite <- app_assoc. reflexivity.
  - unfold sym_bytes. destruct (lookup_sym sym_table ty) as [b|] eqn:El; [|discriminate].
    apply lookup_sym_in in El. cbn [sym_table In] in El.
    repeat (destruct El as [El|El]; [inversion El; eexists _, _; split; [reflexivity|split; reflexivity]|]).
    contradiction.
Qed.

(* ---------- the whole token list ---------- *)

Definition same_shape (t e : token) : Prop :=
  tk_type t = tk_type e /\ tk_text t = tk_text e /\ tk_off t = tk_off e.

Lemma scan_tok_eof fuel redo st1 : scan_tok fuel redo (-1) st1 = SEof st1.
Proof. reflexivity. Qed.

Lemma lex_items bs : forall items trailer fuel st o,
  good items trailer = true ->
  at_ st (render items trailer) o -> (length (render items trailer) < fuel)%nat ->
  exists toks, lex_fuel fuel st = LexOk toks /\ Forall2 same_shape toks (expected_from bs items o).
Proof.
  induction items as [|[s l] r IH]; intros trailer fuel st o Hg Hat Hf; cbn [good render expected_from] in *.
  - (* only the trailing separator is left *)
    destruct fuel as [|f]; [lia|]. cbn [lex_fuel].
    assert (R : exists st', scan (S f) st = SEof st').
    { rewrite <- (app_nil_r (sep_bytes trailer)) in Hat, Hf.
      apply (scan_sep (fun r => exists st', r = SEof st') [] I (S f) (sep_bytes trailer) st o
               (sep_bytes_sepb _ Hg) Hat Hf).
      intros fuel' redo stX _ AX. destruct (next_eof _ _ AX) as (st' & N & _). rewrite N.
      rewrite scan_tok_eof. eauto. }
    destruct R as (st' & ->). exists []. split; auto.
  - apply andb_true_iff in Hg. destruct Hg as [Hg Hgr]. apply andb_true_iff in Hg. destruct Hg as [Hg Hm].
    apply andb_true_iff in Hg. destruct Hg as [Hs Hl].
    set (tail := render r trailer) in *.
    destruct fuel as [|f]; [lia|]. cbn [lex_fuel].
    destruct (lexeme_head l Hl) as (c & rest & Eh & Hcb & Hcy).
    assert (HX : Xstart (lexeme_bytes l ++ tail)) by (rewrite Eh; simpl; auto).
    assert (R : exists ln st', scan (S f) st =
                  STok (mkTok (lexeme_type l) (lexeme_text l) ln (o + len (sep_bytes s))) st' /\
                  at_ st' tail (o + len (sep_bytes s) + len (lexeme_bytes l))).
    { apply (scan_sep (fun r => exists ln st', r =
                  STok (mkTok (lexeme_type l) (lexeme_text l) ln (o + len (sep_bytes s))) st' /\
                  at_ st' tail (o + len (sep_bytes s) + len (lexeme_bytes l)))
               _ HX (S f) (sep_bytes s) st o (sep_bytes_sepb _ Hs) Hat Hf).
      intros fuel' redo stX Hf' AX.
      destruct (lexeme_tok_ok l tail Hl Hm fuel' redo stX _ Hf' AX) as (ch & st1 & st' & N & E & A').
      rewrite N, E. eauto. }
    destruct R as (ln & st' & E & A'). rewrite E.
    destruct (IH trailer f st' _ Hgr A') as (toks & Et & Fs).
    { subst tail. rewrite !app_length, Eh in Hf. cbn [length] in Hf. clear - Hf. lia. }
    rewrite Et. cbn [lex_cons]. eexists. split; [reflexivity|].
    constructor; [repeat split|exact Fs].
Qed.

Lemma expected_lines bs : forall items pos,
  Forall (fun e => tk_line e = line_of_offset bs (tk_off e)) (expected_from bs items pos).
Proof.
  induction items as [|[s l] r IH]; intros pos; cbn [expected_from]; constructor; auto.
Qed.

Lemma shape_lines_eq bs toks exp :
  Forall2 same_shape toks exp ->
  Forall (fun t => tk_line t = line_of_offset bs (tk_off t) /\ 0 <= tk_off t < len bs) toks ->
  Forall (fun e => tk_line e = line_of_offset bs (tk_off e)) exp ->
  toks = exp.
Proof.
  induction 1 as [|t e toks exp Hs HF IH]; intros Ht He; auto.
  inversion Ht as [|? ? [Hl _] Ht']; subst. inversion He as [|? ? Hle He']; subst.
  f_equal; [|apply IH; auto].
  destruct Hs as (H1 & H2 & H3). destruct t as [ty tx ln o], e as [ty' tx' ln' o']. simpl in *. subst.
  reflexivity.
Qed.

(* headline: layout independence of the token stream *)
Lemma lex_render_lemma items trailer :
  good items trailer = true -> lex (render items trailer) = LexOk (expected_tokens items trailer).
Proof.
  intros Hg. set (bs := render items trailer).
  destruct (lex_items bs items trailer (S (length bs)) (init_state bs) 0 Hg) as (toks & E & Fs).
  - split; reflexivity.
  - subst bs. lia.
  - unfold lex. fold bs. rewrite E. f_equal. unfold expected_tokens. fold bs.
    apply (shape_lines_eq bs); auto.
    + apply lexer_lines_correct_lemma; [apply render_bytes; auto|]. left. exact E.
    + apply expected_lines.
Qed.

(* corollary: two layouts of the same lexemes give the same (type, text) sequence *)
Definition tok_strip (t : token) : Z * bytes := (tk_type t, tk_text t).

Lemma expected_strip bs items pos :
  map tok_strip (expected_from bs items pos)
  = map (fun l => (lexeme_type l, lexeme_text l)) (map snd items).
Proof.
  revert pos. induction items as [|[s l] r IH]; intros pos; cbn [expected_from map snd]; auto.
  f_equal. apply IH.
Qed.

Lemma lex_layout_independent_lemma items1 tr1 items2 tr2 :
  good items1 tr1 = true -> good items2 tr2 = true -> map snd items1 = map snd items2 ->
  exists t1 t2, lex (render items1 tr1) = LexOk t1 /\ lex (render items2 tr2) = LexOk t2 /\
                map tok_strip t1 = map tok_strip t2.
Proof.
  intros G1 G2 E. exists (expected_tokens items1 tr1), (expected_tokens items2 tr2).
  split; [apply lex_render_lemma; auto|]. split; [apply lex_render_lemma; auto|].
  unfold expected_tokens. rewrite !expected_strip, E. reflexivity.
Qed.
