(* Proofs about the printf model of FormatModel.v. *)
From Coq Require Import Lia ZifyBool.
From GL Require Import Common.Bytes Str.FormatModel.
Ltac Zify.zify_post_hook ::= Z.div_mod_to_equations.

(* ---------- lengths ---------- *)
Lemma len_app {A} (a b : list A) : len (a ++ b) = len a + len b.
Proof. unfold len. rewrite app_length. lia. Qed.

Lemma len_nonneg {A} (a : list A) : 0 <= len a.
Proof. unfold len. lia. Qed.

Lemma len_repeat (c n : Z) : len (repeat c (Z.to_nat n)) = Z.max 0 n.
Proof. unfold len. rewrite repeat_length. lia. Qed.

Lemma len_spaces n : len (spaces n) = Z.max 0 n.
Proof. apply len_repeat. Qed.

Lemma len_zeros n : len (zeros n) = Z.max 0 n.
Proof. apply len_repeat. Qed.

Lemma spaces_nonpos n : n <= 0 -> spaces n = [].
Proof. intros H. unfold spaces. replace (Z.to_nat n) with O by lia. reflexivity. Qed.

Lemma zeros_nonpos n : n <= 0 -> zeros n = [].
Proof. intros H. unfold zeros. replace (Z.to_nat n) with O by lia. reflexivity. Qed.

Lemma len_pad m w b : len (pad m w b) = Z.max (owidth w) (len b).
Proof.
  unfold pad. pose proof (len_nonneg b).
  destruct m; rewrite len_app, len_spaces; lia.
Qed.

Lemma pad_none m b : pad m None b = b.
Proof.
  unfold pad. cbn [owidth]. pose proof (len_nonneg b).
  rewrite spaces_nonpos by lia. destruct m; [apply app_nil_r | reflexivity].
Qed.

Lemma pad_nil m w : pad m w [] = spaces (owidth w).
Proof.
  unfold pad. change (len (@nil Z)) with 0. rewrite Z.sub_0_r.
  destruct m; [reflexivity | apply app_nil_r].
Qed.

(* ---------- digits ---------- *)
Lemma digit_val_char upper d : 0 <= d < 16 -> digit_val (digit_char upper d) = d.
Proof.
  intros H. unfold digit_char, digit_val.
  destruct (d <? 10) eqn:E.
  - replace ((48 <=? 48 + d) && (48 + d <=? 57)) with true by lia. lia.
  - destruct upper.
    + replace ((48 <=? 55 + d) && (55 + d <=? 57)) with false by lia.
      replace ((97 <=? 55 + d) && (55 + d <=? 102)) with false by lia.
      replace ((65 <=? 55 + d) && (55 + d <=? 70)) with true by lia. lia.
    + replace ((48 <=? 87 + d) && (87 + d <=? 57)) with false by lia.
      replace ((97 <=? 87 + d) && (87 + d <=? 102)) with true by lia. lia.
Qed.

Lemma digit_char_ge48 upper d : 0 <= d -> 48 <= digit_char upper d.
Proof. intros H. unfold digit_char. destruct (d <? 10), upper; lia. Qed.

Lemma digits_fuel_acc k base upper : forall n acc,
  digits_fuel k base upper n acc = digits_fuel k base upper n [] ++ acc.
Proof.
  induction k as [|k IH]; intros n acc; cbn [digits_fuel]; [reflexivity|].
  destruct (n <? base); [reflexivity|].
  rewrite IH. rewrite (IH _ [_]). rewrite <- app_assoc. reflexivity.
Qed.

Lemma of_digits_snoc base l c : of_digits base (l ++ [c]) = of_digits base l * base + digit_val c.
Proof. unfold of_digits. rewrite fold_left_app. reflexivity. Qed.

Lemma of_digits_fuel base upper : 2 <= base <= 16 -> forall k n,
  0 <= n < 2 ^ Z.of_nat k -> of_digits base (digits_fuel k base upper n []) = n.
Proof.
  intros Hb. induction k as [|k IH]; intros n Hn; cbn [digits_fuel].
  - change (2 ^ Z.of_nat 0) with 1 in Hn. unfold of_digits. cbn. lia.
  - destruct (n <? base) eqn:E.
    + unfold of_digits. cbn [fold_left]. rewrite digit_val_char by lia. lia.
    + rewrite digits_fuel_acc, of_digits_snoc.
      rewrite digit_val_char by (pose proof (Z.mod_pos_bound n base); lia).
      assert (Hb0 : 0 < base) by lia.
      assert (E' : base <= n) by lia.
      rewrite IH.
      * rewrite Z.mul_comm. symmetry. apply Z.div_mod. lia.
      * rewrite Nat2Z.inj_succ, Z.pow_succ_r in Hn by lia.
        split; [apply Z.div_pos; lia|].
        apply Z.div_lt_upper_bound; [lia|].
        assert (2 * 2 ^ Z.of_nat k <= base * 2 ^ Z.of_nat k)
          by (apply Z.mul_le_mono_nonneg_r; [apply Z.pow_nonneg|]; lia).
        lia.
Qed.

Lemma fuel_enough n : 0 <= n -> n < 2 ^ Z.of_nat (S (Z.to_nat (Z.log2 n))).
Proof.
  intros H. rewrite Nat2Z.inj_succ, Z2Nat.id by apply Z.log2_nonneg.
  destruct (Z.eq_dec n 0) as [->|Hn]; [cbn; lia|].
  apply Z.log2_spec. lia.
Qed.

Lemma of_digits_digits base upper n : 2 <= base <= 16 -> 0 <= n ->
  of_digits base (digits base upper n) = n.
Proof.
  intros Hb Hn. unfold digits. apply of_digits_fuel; [exact Hb|].
  split; [exact Hn | apply fuel_enough; exact Hn].
Qed.

Lemma digits_fuel_ge48 k base upper : 0 < base -> forall n acc,
  0 <= n -> Forall (fun c => 48 <= c) acc ->
  Forall (fun c => 48 <= c) (digits_fuel k base upper n acc).
Proof.
  intros Hb. induction k as [|k IH]; intros n acc Hn Hacc; cbn [digits_fuel]; [exact Hacc|].
  destruct (n <? base).
  - constructor; [apply digit_char_ge48; exact Hn | exact Hacc].
  - apply IH; [apply Z.div_pos; lia|].
    constructor; [apply digit_char_ge48; apply Z.mod_pos_bound; lia | exact Hacc].
Qed.

Lemma digits_ge48 base upper n : 0 < base -> 0 <= n ->
  Forall (fun c => 48 <= c) (digits base upper n).
Proof. intros Hb Hn. unfold digits. apply digits_fuel_ge48; auto. Qed.

Lemma digits_nonempty base upper n : digits base upper n <> [].
Proof.
  unfold digits. cbn [digits_fuel]. destruct (n <? base); [discriminate|].
  rewrite digits_fuel_acc. intros H. apply app_eq_nil in H. destruct H as [_ H]. discriminate.
Qed.

Lemma parse_int_ge48 s : Forall (fun c => 48 <= c) s -> parse_int s = of_digits 10 s.
Proof.
  intros H. destruct s as [|c r]; [reflexivity|].
  inversion H as [|? ? Hc _]; subst. unfold parse_int.
  destruct c as [|p|p]; try reflexivity.
  repeat (destruct p as [p|p|]; try reflexivity; try lia).
Qed.

Lemma of_digits_zeros_app base k s : of_digits base (zeros k ++ s) = of_digits base s.
Proof.
  unfold zeros, of_digits. induction (Z.to_nat k) as [|j IH]; [reflexivity|].
  cbn [repeat app fold_left]. change (0 * base + digit_val 48) with (0 * base + 0).
  rewrite Z.mul_0_l. exact IH.
Qed.

(* ---------- %d round trip ---------- *)
Definition plain (v : Z) : dspec := mkD false false false false false None None v.
Definition zarg (z : Z) : farg := ANum (NFin (z <? 0) (Z.abs z) 0).

Lemma fmt_signed_plain go v z :
  fmt_signed go (plain v) z = (if z <? 0 then [45] else []) ++ digits 10 false (Z.abs z).
Proof.
  unfold fmt_signed, plain, pad_num, sign_of. cbn [d_prec f_zero f_minus f_plus f_space d_width andb negb].
  rewrite pad_none. reflexivity.
Qed.

Lemma parse_int_signed_digits z :
  parse_int ((if z <? 0 then [45] else []) ++ digits 10 false (Z.abs z)) = z.
Proof.
  destruct (z <? 0) eqn:E.
  - cbn [app parse_int]. rewrite of_digits_digits by lia. lia.
  - cbn [app]. rewrite parse_int_ge48 by (apply digits_ge48; lia).
    rewrite of_digits_digits by lia. lia.
Qed.

Lemma format_d_roundtrip_dir go z : parse_int (fmt_signed go (plain 100) z) = z.
Proof. rewrite fmt_signed_plain. apply parse_int_signed_digits. Qed.

Lemma to_int64_zarg z : in_int64 z = true -> to_int64 (NFin (z <? 0) (Z.abs z) 0) = z.
Proof.
  intros H. unfold to_int64, trunc_num.
  change (0 >=? 0) with true. cbv iota. change (2 ^ 0) with 1. rewrite Z.mul_1_r.
  replace (if z <? 0 then - Z.abs z else Z.abs z) with z
    by (destruct (z <? 0) eqn:E; lia).
  rewrite H. reflexivity.
Qed.

Lemma format_d_roundtrip_lemma go z : in_int64 z = true ->
  exists s, format go [37; 100] [zarg z] = FOk s /\ parse_int s = z.
Proof.
  intros H. exists (fmt_signed go (plain 100) z). split; [|apply format_d_roundtrip_dir].
  unfold format, zarg.
  change (parse_fmt (length [37; 100]) [37; 100]) with [IDir (plain 100)].
  change (ndirs [IDir (plain 100)] >? len [ANum (NFin (z <? 0) (Z.abs z) 0)]) with false.
  cbv iota. cbn [run_items resolve].
  unfold fmt_dir. change (d_verb (plain 100)) with 100. cbn [Z.eqb Pos.eqb orb].
  rewrite to_int64_zarg by exact H. rewrite app_nil_r. reflexivity.
Qed.

(* ---------- width: every directive fills its field ---------- *)
Lemma pad_width m w b : owidth w <= len (pad m w b).
Proof. rewrite len_pad. lia. Qed.

Lemma spaces_width n : n <= len (spaces n).
Proof. rewrite len_spaces. lia. Qed.

Lemma pad_num_width sp zok pre b : owidth (d_width sp) <= len (pad_num sp zok pre b).
Proof.
  unfold pad_num. destruct (f_zero sp && negb (f_minus sp) && zok).
  - rewrite !len_app, len_zeros. lia.
  - apply pad_width.
Qed.

Lemma pad_str_width go sp b : owidth (d_width sp) <= len (pad_str go sp b).
Proof.
  unfold pad_str. destruct (go && f_zero sp && negb (f_minus sp)).
  - rewrite len_app, len_zeros. lia.
  - apply pad_width.
Qed.

Lemma fmt_signed_width go sp z : owidth (d_width sp) <= len (fmt_signed go sp z).
Proof.
  unfold fmt_signed. destruct (d_prec sp) as [p|].
  - destruct ((p =? 0) && (Z.abs z =? 0)); apply pad_width.
  - apply pad_num_width.
Qed.

Lemma len_oct_ge (c : bool) (ds : bytes) : len ds <= len (oct_fix c ds).
Proof.
  unfold oct_fix. destruct c; [|lia].
  destruct ds as [|d r]; [unfold len; cbn; lia|].
  destruct (Z.eq_dec d 48) as [->|Hd]; [lia|].
  assert (len (d :: r) <= len (48 :: d :: r)) by (unfold len; cbn [length]; lia).
  destruct d as [|p|p]; try exact H.
  repeat (destruct p as [p|p|]; try exact H); congruence.
Qed.

Lemma fmt_unsigned_width go sp base upper u :
  owidth (d_width sp) <= len (fmt_unsigned go sp base upper u).
Proof.
  unfold fmt_unsigned. cbv zeta. destruct (d_prec sp) as [p|].
  - destruct ((p =? 0) && (u =? 0)); apply pad_width.
  - destruct (f_zero sp && negb (f_minus sp)); [|apply pad_width].
    set (hexpre := if (base =? 16) && f_sharp sp && negb (u =? 0) then _ else _).
    set (ds := digits base upper u).
    rewrite !len_app.
    pose proof (len_oct_ge ((base =? 8) && f_sharp sp) (zeros (owidth (d_width sp) - len hexpre - len ds) ++ ds)) as H.
    rewrite len_app, len_zeros in H. lia.
Qed.

Lemma fmt_float_width go sp is_e upper n : owidth (d_width sp) <= len (fmt_float go sp is_e upper n).
Proof.
  unfold fmt_float. destruct n as [neg m e|neg|].
  - apply pad_num_width.
  - apply pad_width.
  - apply pad_width.
Qed.

Lemma format_width_lemma go sp a out :
  fmt_dir go sp a = Some out -> owidth (d_width sp) <= len out.
Proof.
  unfold fmt_dir. destruct a as [n|s|s c].
  - repeat match goal with
           | |- (if ?c then _ else _) = Some _ -> _ => destruct c
           end; intros H; inversion H; subst;
      auto using fmt_signed_width, fmt_unsigned_width, fmt_float_width, pad_str_width.
  - destruct (d_verb sp =? 115); intros H; inversion H; subst. apply pad_str_width.
  - discriminate.
Qed.

(* ---------- left / right justification ---------- *)
Lemma nozero_of sp : f_minus sp = true \/ f_zero sp = false -> f_zero sp && negb (f_minus sp) = false.
Proof. intros [H|H]; rewrite H; [apply andb_false_r | reflexivity]. Qed.

Lemma pad_num_nozero sp zok pre b : f_zero sp && negb (f_minus sp) = false ->
  pad_num sp zok pre b = pad (f_minus sp) (d_width sp) (pre ++ b).
Proof. intros H. unfold pad_num. rewrite H. reflexivity. Qed.

Lemma pad_str_nozero go sp b : f_zero sp && negb (f_minus sp) = false ->
  pad_str go sp b = pad (f_minus sp) (d_width sp) b.
Proof.
  intros H. unfold pad_str. rewrite <- andb_assoc, H, andb_false_r. reflexivity.
Qed.

Lemma spaces_as_pad m w : spaces (owidth w) = pad m w [].
Proof. symmetry. apply pad_nil. Qed.

Lemma fmt_signed_pad go sp z : f_zero sp && negb (f_minus sp) = false ->
  fmt_signed go sp z = pad (f_minus sp) (d_width sp) (fmt_signed go (set_width sp None) z).
Proof.
  intros H. destruct sp as [mi pl spc sh ze w p v]. cbn [f_zero f_minus] in H.
  unfold fmt_signed, set_width, sign_of.
  cbn [d_prec d_width f_minus f_plus f_space f_sharp f_zero d_verb].
  destruct p as [p|].
  - destruct ((p =? 0) && (Z.abs z =? 0)); rewrite pad_none; reflexivity.
  - rewrite !pad_num_nozero by exact H. cbn [d_width f_minus]. rewrite pad_none. reflexivity.
Qed.

Lemma fmt_unsigned_pad go sp base upper u : f_zero sp && negb (f_minus sp) = false ->
  fmt_unsigned go sp base upper u =
  pad (f_minus sp) (d_width sp) (fmt_unsigned go (set_width sp None) base upper u).
Proof.
  intros H. destruct sp as [mi pl spc sh ze w p v]. cbn [f_zero f_minus] in H.
  unfold fmt_unsigned, set_width, sign_of. cbv zeta.
  cbn [d_prec d_width f_minus f_plus f_space f_sharp f_zero d_verb].
  destruct p as [p|].
  - destruct ((p =? 0) && (u =? 0)); rewrite pad_none; reflexivity.
  - rewrite H. rewrite pad_none. reflexivity.
Qed.

Lemma fmt_float_pad go sp is_e upper n : f_zero sp && negb (f_minus sp) = false ->
  fmt_float go sp is_e upper n =
  pad (f_minus sp) (d_width sp) (fmt_float go (set_width sp None) is_e upper n).
Proof.
  intros H. destruct sp as [mi pl spc sh ze w p v]. cbn [f_zero f_minus] in H.
  unfold fmt_float, set_width, sign_of.
  cbn [d_prec d_width f_minus f_plus f_space f_sharp f_zero d_verb].
  destruct n as [neg m e|neg|].
  - rewrite !pad_num_nozero by exact H. cbn [d_width f_minus]. rewrite pad_none. reflexivity.
  - rewrite pad_none; reflexivity.
  - rewrite pad_none; reflexivity.
Qed.

Lemma pad_str_pad go sp b : f_zero sp && negb (f_minus sp) = false ->
  pad_str go sp b = pad (f_minus sp) (d_width sp) (pad_str go (set_width sp None) b).
Proof.
  intros H. rewrite !pad_str_nozero by (destruct sp as [mi pl spc sh ze w p v]; exact H).
  destruct sp as [mi pl spc sh ze w p v]; cbn [set_width d_width f_minus]. rewrite pad_none. reflexivity.
Qed.

Lemma format_left_right_pad_lemma go sp a body :
  f_minus sp = true \/ f_zero sp = false ->
  fmt_dir go (set_width sp None) a = Some body ->
  fmt_dir go sp a = Some (pad (f_minus sp) (d_width sp) body).
Proof.
  intros Hf. apply nozero_of in Hf. unfold fmt_dir.
  replace (d_verb (set_width sp None)) with (d_verb sp) by (destruct sp as [mi pl spc sh ze w p v]; reflexivity).
  replace (d_prec (set_width sp None)) with (d_prec sp) by (destruct sp as [mi pl spc sh ze w p v]; reflexivity).
  destruct a as [n|s|s c].
  - repeat match goal with
           | |- (if ?c then _ else _) = Some _ -> _ => destruct c
           end; intros H; inversion H; subst; f_equal;
      auto using fmt_signed_pad, fmt_unsigned_pad, fmt_float_pad, pad_str_pad.
  - destruct (d_verb sp =? 115); intros H; inversion H; subst. f_equal. apply pad_str_pad. exact Hf.
  - discriminate.
Qed.

(* ---------- flag 0 and precision on %d ---------- *)
Lemma format_zero_pad_digits_lemma go sp z w :
  f_zero sp = true -> f_minus sp = false -> d_prec sp = None -> d_width sp = Some w ->
  let sign := sign_of sp (z <? 0) in
  let ds := digits 10 false (Z.abs z) in
  fmt_signed go sp z = sign ++ zeros (w - len sign - len ds) ++ ds /\
  len (fmt_signed go sp z) = Z.max w (len sign + len ds) /\
  of_digits 10 (zeros (w - len sign - len ds) ++ ds) = Z.abs z.
Proof.
  intros Hz Hm Hp Hw sign ds. unfold fmt_signed. rewrite Hp. unfold pad_num.
  rewrite Hz, Hm, Hw. cbn [andb negb owidth]. fold sign ds.
  split; [reflexivity|]. split.
  - rewrite !len_app, len_zeros. pose proof (len_nonneg sign). pose proof (len_nonneg ds). lia.
  - rewrite of_digits_zeros_app. apply of_digits_digits; lia.
Qed.

Lemma len_zext p ds : len (zext p ds) = Z.max p (len ds).
Proof. unfold zext. rewrite len_app, len_zeros. pose proof (len_nonneg ds). lia. Qed.

Lemma format_precision_digits_lemma go sp z p :
  d_prec sp = Some p -> (p <> 0 \/ z <> 0) ->
  let ds := digits 10 false (Z.abs z) in
  fmt_signed go sp z =
    pad (f_minus sp) (d_width sp) (sign_of sp (z <? 0) ++ zeros (p - len ds) ++ ds) /\
  len (zeros (p - len ds) ++ ds) = Z.max p (len ds) /\
  of_digits 10 (zeros (p - len ds) ++ ds) = Z.abs z.
Proof.
  intros Hp Hnz ds. unfold fmt_signed. rewrite Hp.
  replace ((p =? 0) && (Z.abs z =? 0)) with false by lia.
  split; [reflexivity|]. split.
  - apply len_zext.
  - rewrite of_digits_zeros_app. apply of_digits_digits; lia.
Qed.

(* ---------- %% ---------- *)
Lemma format_percent_lemma go args : format go [37; 37] args = FOk [37].
Proof.
  unfold format. change (parse_fmt (length [37; 37]) [37; 37]) with [ILit 37].
  change (ndirs [ILit 37]) with 0.
  replace (0 >? len args) with false by (pose proof (len_nonneg args); lia).
  reflexivity.
Qed.

(* ---------- %x %X %o ---------- *)
Lemma fmt_unsigned_plain go v base upper u :
  fmt_unsigned go (plain v) base upper u = digits base upper u.
Proof.
  unfold fmt_unsigned, plain, sign_of. cbv zeta.
  cbn [d_prec f_zero f_minus f_plus f_space f_sharp d_width andb negb].
  rewrite !andb_false_r. unfold oct_fix.
  destruct go; cbn [app]; rewrite pad_none; reflexivity.
Qed.

Lemma to_uint64_zarg z : in_int64 z = true -> to_uint64 (NFin (z <? 0) (Z.abs z) 0) = z mod two64.
Proof.
  intros H. unfold to_uint64. rewrite to_int64_zarg by exact H.
  unfold trunc_num. change (0 >=? 0) with true. cbv iota. change (2 ^ 0) with 1. rewrite Z.mul_1_r.
  replace (if z <? 0 then - Z.abs z else Z.abs z) with z by (destruct (z <? 0) eqn:E; lia).
  unfold in_int64 in H. replace ((two63 <=? z) && (z <? two64)) with false by lia. reflexivity.
Qed.

Lemma format_hex_roundtrip_lemma go z : in_int64 z = true ->
  fmt_dir go (plain 120) (zarg z) = Some (digits 16 false (z mod two64)) /\
  fmt_dir go (plain 88) (zarg z) = Some (digits 16 true (z mod two64)) /\
  fmt_dir go (plain 111) (zarg z) = Some (digits 8 false (z mod two64)) /\
  of_digits 16 (digits 16 false (z mod two64)) = z mod two64 /\
  of_digits 16 (digits 16 true (z mod two64)) = z mod two64 /\
  of_digits 8 (digits 8 false (z mod two64)) = z mod two64 /\
  (0 <= z -> z mod two64 = z) /\ (z < 0 -> z mod two64 = z + two64).
Proof.
  intros H. unfold fmt_dir, zarg.
  change (d_verb (plain 120)) with 120. change (d_verb (plain 88)) with 88.
  change (d_verb (plain 111)) with 111. cbn [Z.eqb Pos.eqb orb].
  rewrite to_uint64_zarg by exact H. rewrite !fmt_unsigned_plain.
  assert (Hm : 0 <= z mod two64) by (apply Z.mod_pos_bound; reflexivity).
  repeat split; try (apply of_digits_digits; lia).
  - intros Hz. apply Z.mod_small. unfold in_int64, two63 in H. unfold two64. lia.
  - intros Hz. unfold in_int64, two63 in H. unfold two64 in *.
    symmetry. apply Z.mod_unique with (q := -1); lia.
Qed.

(* ---------- arguments: one per directive, surplus ignored, missing = error ---------- *)
Lemma run_items_extra go its : forall args o extra,
  run_items go its args = FOk o -> run_items go its (args ++ extra) = FOk o.
Proof.
  induction its as [|it its IH]; intros args o extra H; cbn [run_items] in *; [exact H|].
  destruct it as [c|sp|].
  - destruct (run_items go its args) eqn:E; try discriminate.
    rewrite (IH _ _ extra E). exact H.
  - destruct args as [|a args']; [discriminate|]. cbn [app].
    destruct (negb (valid_verb (d_verb sp))); [discriminate|].
    destruct (resolve sp a) as [a'|]; [|discriminate].
    destruct (fmt_dir go sp a'); [|discriminate].
    destruct (run_items go its args') eqn:E; try discriminate.
    rewrite (IH _ _ extra E). exact H.
  - discriminate.
Qed.

Lemma run_items_ok_count go its : forall args o,
  run_items go its args = FOk o -> ndirs its <= len args.
Proof.
  induction its as [|it its IH]; intros args o H; cbn [run_items] in H.
  - pose proof (len_nonneg args). unfold ndirs. cbn. unfold len at 1. cbn. lia.
  - destruct it as [c|sp|].
    + destruct (run_items go its args) eqn:E; try discriminate.
      apply IH in E. unfold ndirs in *. cbn [filter]. exact E.
    + destruct args as [|a args']; [discriminate|].
      destruct (negb (valid_verb (d_verb sp))); [discriminate|].
      destruct (resolve sp a) as [a'|]; [|discriminate].
      destruct (fmt_dir go sp a'); [|discriminate].
      destruct (run_items go its args') eqn:E; try discriminate.
      apply IH in E. unfold ndirs, len in *. cbn [filter length]. lia.
    + discriminate.
Qed.

Lemma format_extra_args_ignored_lemma go f args extra o :
  format go f args = FOk o -> format go f (args ++ extra) = FOk o.
Proof.
  unfold format. intros H.
  destruct (ndirs (parse_fmt (length f) f) >? len args) eqn:E.
  - destruct (existsb _ _); discriminate.
  - rewrite len_app. pose proof (len_nonneg extra).
    replace (ndirs (parse_fmt (length f) f) >? len args + len extra) with false by lia.
    apply run_items_extra. exact H.
Qed.

Lemma format_missing_arg_lemma go f args o :
  format go f args = FOk o -> ndirs (parse_fmt (length f) f) <= len args.
Proof.
  unfold format. destruct (ndirs (parse_fmt (length f) f) >? len args) eqn:E; [|lia].
  destruct (existsb _ _); discriminate.
Qed.

Lemma format_missing_arg_errors_lemma go f args :
  ndirs (parse_fmt (length f) f) > len args ->
  format go f args = FErr \/ format go f args = FUnsupported.
Proof.
  intros H. unfold format.
  replace (ndirs (parse_fmt (length f) f) >? len args) with true by lia.
  destruct (existsb _ _); auto.
Qed.

(* ---------- the implementation model equals C's printf; only flag 0 on %s / %c differs ---------- *)
Lemma to_int64_range n : - two63 <= to_int64 n < two63.
Proof.
  unfold to_int64. destruct (trunc_num n) as [z|]; [|unfold two63; lia].
  destruct (in_int64 z) eqn:E; [unfold in_int64 in E; lia | unfold two63; lia].
Qed.

Lemma pad_str_eq sp b : f_zero sp && negb (f_minus sp) = false -> pad_str true sp b = pad_str false sp b.
Proof. intros H. unfold pad_str. cbn [andb]. rewrite H. reflexivity. Qed.

(* every conversion except zero-filled %s / %c is rendered identically by both dialects *)
Lemma format_impl_eq_spec_strong_lemma sp a :
  verb_in (d_verb sp) [99; 115] && (f_zero sp && negb (f_minus sp)) = false ->
  fmt_dir true sp a = fmt_dir false sp a.
Proof.
  intros H. unfold fmt_dir. destruct a as [n|s|s c]; [| |reflexivity].
  - destruct ((d_verb sp =? 100) || (d_verb sp =? 105)); [reflexivity|].
    destruct (d_verb sp =? 99) eqn:V99.
    { f_equal. apply pad_str_eq. unfold verb_in in H. cbn [existsb] in H. rewrite V99 in H. exact H. }
    destruct (d_verb sp =? 120); [reflexivity|]. destruct (d_verb sp =? 88); [reflexivity|].
    destruct (d_verb sp =? 111); [reflexivity|]. destruct (d_verb sp =? 117); [reflexivity|].
    destruct (d_verb sp =? 101); [reflexivity|].
    destruct (d_verb sp =? 69); [reflexivity|]. destruct (d_verb sp =? 102); [reflexivity|].
    destruct (d_verb sp =? 103); [reflexivity|]. destruct (d_verb sp =? 71); [reflexivity|].
    destruct (d_verb sp =? 115) eqn:V115; [|reflexivity].
    destruct (is_integral n && in_int64 (to_int64 n) && negb (to_int64 n =? - two63)); [|reflexivity].
    f_equal. apply pad_str_eq. unfold verb_in in H. cbn [existsb] in H. rewrite V99, V115 in H. exact H.
  - destruct (d_verb sp =? 115) eqn:V115; [|reflexivity].
    f_equal. apply pad_str_eq. unfold verb_in in H. cbn [existsb] in H. rewrite V115 in H.
    rewrite orb_true_r in H. exact H.
Qed.

Lemma format_impl_eq_spec_lemma sp a :
  c_defined sp a = true -> fmt_dir true sp a = fmt_dir false sp a.
Proof.
  intros Hd. apply format_impl_eq_spec_strong_lemma.
  unfold c_defined in Hd. apply andb_prop in Hd. destruct Hd as [_ Hd].
  unfold verb_in in *. cbn [existsb] in *.
  destruct (d_verb sp =? 99) eqn:V99.
  - apply Z.eqb_eq in V99. rewrite V99 in Hd. cbn in Hd.
    destruct (f_sharp sp), (f_zero sp); try discriminate; reflexivity.
  - destruct (d_verb sp =? 115) eqn:V115; [|reflexivity].
    apply Z.eqb_eq in V115. rewrite V115 in Hd. cbn in Hd.
    destruct (f_sharp sp), (f_zero sp); try discriminate; reflexivity.
Qed.

(* formerly open deviations (findings C15-8, C15-11, C15-12 and +/space on %x), now repaired in the
   code: both dialects give C's result *)
Definition sharp_x : dspec := mkD false false false true false None None 120.
Definition plus_prec0_d : dspec := mkD false true false false false None (Some 0) 100.
Definition plus_x : dspec := mkD false true false false false None None 120.

Lemma format_repaired_witnesses :
  fmt_dir true sharp_x (zarg 0) = Some [48] /\
  fmt_dir true (plain 102) (ANum (NInf false)) = Some [105; 110; 102] /\
  fmt_dir true plus_prec0_d (zarg 0) = Some [43] /\
  fmt_dir true plus_x (zarg 255) = Some [102; 102].
Proof. vm_compute. repeat split; reflexivity. Qed.

(* a numeric string given to a numeric conversion is converted; a non-numeric one raises *)
Lemma format_numeric_string_lemma go sp s n rest its :
  numeric_verb (d_verb sp) = true -> valid_verb (d_verb sp) = true ->
  run_items go (IDir sp :: its) (AConv s (Some n) :: rest) = run_items go (IDir sp :: its) (ANum n :: rest) /\
  run_items go (IDir sp :: its) (AConv s None :: rest) = FErr.
Proof. intros H Hv. cbn [run_items resolve]. rewrite H, Hv. split; reflexivity. Qed.

(* a conversion lstrlib does not define raises *)
Lemma format_invalid_option_lemma go sp a rest its :
  valid_verb (d_verb sp) = false -> run_items go (IDir sp :: its) (a :: rest) = FErr.
Proof. intros H. cbn [run_items]. rewrite H. reflexivity. Qed.
