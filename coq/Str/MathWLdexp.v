(* C15, math.ldexp: facts about the Z-level rounding [round64] / [ref_ldexp_z] of MathWModel.v
   (the function math.Ldexp is compared with on every run).  All in Z, no floats. *)
From Coq Require Import ZArith List Lia Bool.
From GL Require Import Common.Bytes Str.FormatModel Str.MathWModel.
Import ListNotations.
Local Open Scope Z_scope.

Lemma bitlen_bounds m : 0 < m -> 2 ^ (bitlen m - 1) <= m < 2 ^ bitlen m.
Proof.
  intros Hm. unfold bitlen. replace (m =? 0) with false by lia.
  replace (Z.log2 m + 1 - 1) with (Z.log2 m) by lia.
  pose proof (Z.log2_spec m Hm). replace (Z.log2 m + 1) with (Z.succ (Z.log2 m)) by lia. lia.
Qed.

Lemma bitlen_pos m : 0 < m -> 0 < bitlen m.
Proof.
  intros Hm. unfold bitlen. replace (m =? 0) with false by lia.
  pose proof (Z.log2_nonneg m). lia.
Qed.

Lemma bitlen_le m n : 0 < m -> 0 <= n -> m < 2 ^ n -> bitlen m <= n.
Proof.
  intros Hm Hn Hlt. destruct (bitlen_bounds m Hm) as [Hlo _].
  destruct (Z_le_gt_dec (bitlen m) n) as [|Hgt]; [assumption|exfalso].
  assert (2 ^ n <= 2 ^ (bitlen m - 1)) by (apply Z.pow_le_mono_r; lia). lia.
Qed.

(* ---- rounding to nearest, ties to even ---- *)
Lemma rne_shift_cases m d : 0 <= m -> 0 < d ->
  let q := m / 2 ^ d in let r := m mod 2 ^ d in let h := 2 ^ (d - 1) in
  m = q * 2 ^ d + r /\ 0 <= r < 2 ^ d /\ 2 ^ d = 2 * h /\ 0 <= q /\
  ((rne_shift m d = q /\ (r < h \/ (r = h /\ Z.odd q = false))) \/
   (rne_shift m d = q + 1 /\ (h < r \/ (r = h /\ Z.odd q = true)))).
Proof.
  intros Hm Hd q r h.
  assert (Hp : 0 < 2 ^ d) by (apply Z.pow_pos_nonneg; lia).
  assert (Hh : 2 ^ d = 2 * h).
  { subst h. replace d with (Z.succ (d - 1)) at 1 by lia. rewrite Z.pow_succ_r by lia. reflexivity. }
  pose proof (Z.div_mod m (2 ^ d)) as Hdm. pose proof (Z.mod_pos_bound m (2 ^ d) Hp) as Hr.
  assert (Hq : 0 <= q) by (subst q; apply Z.div_pos; lia).
  repeat split; try (subst q r; lia).
  unfold rne_shift. fold q r h.
  destruct (h <? r) eqn:E1; cbn [orb].
  - right. split; [reflexivity|left; lia].
  - destruct (r =? h) eqn:E2; cbn [andb].
    + destruct (Z.odd q) eqn:E3.
      * right. split; [reflexivity|right; split; [lia|reflexivity]].
      * left. split; [reflexivity|right; split; [lia|reflexivity]].
    + left. split; [reflexivity|left; lia].
Qed.

(* the rounded quotient is a nearest integer multiple: the error is at most half a unit of the last
   place, and on a tie the even neighbour is taken *)
Lemma rne_shift_nearest m d : 0 <= m -> 0 < d ->
  let m' := rne_shift m d in
  2 * Z.abs (m - m' * 2 ^ d) <= 2 ^ d /\
  (2 * Z.abs (m - m' * 2 ^ d) = 2 ^ d -> Z.even m' = true).
Proof.
  intros Hm Hd m'. subst m'.
  destruct (rne_shift_cases m d Hm Hd) as (Heq & Hr & Hh & Hq & Hc).
  set (q := m / 2 ^ d) in *. set (r := m mod 2 ^ d) in *. set (h := 2 ^ (d - 1)) in *.
  destruct Hc as [[-> Hc]|[-> Hc]].
  - replace (m - q * 2 ^ d) with r by lia. split; [lia|].
    intros Ht. destruct Hc as [Hc|[_ Hodd]]; [lia|]. rewrite <- Z.negb_odd, Hodd. reflexivity.
  - replace (m - (q + 1) * 2 ^ d) with (r - 2 ^ d) by lia. split; [lia|].
    intros Ht. destruct Hc as [Hc|[_ Hodd]]; [lia|].
    rewrite <- Z.negb_odd. replace (q + 1) with (Z.succ q) by lia. rewrite Z.odd_succ.
    rewrite <- Z.negb_odd, Hodd. reflexivity.
Qed.

Lemma rne_shift_small m d : 0 <= m -> 0 < d -> m < 2 ^ (d - 1) -> rne_shift m d = 0.
Proof.
  intros Hm Hd Hlt.
  destruct (rne_shift_cases m d Hm Hd) as (Heq & Hr & Hh & Hq & Hc).
  set (q := m / 2 ^ d) in *. set (r := m mod 2 ^ d) in *. set (h := 2 ^ (d - 1)) in *.
  assert (q = 0) by nia.
  destruct Hc as [[-> _]|[_ Hc]]; [assumption|exfalso].
  assert (r = m) by lia. destruct Hc as [Hc|[Hc _]]; lia.
Qed.

(* ---- round64 ---- *)

(* a value that binary64 holds is returned unchanged *)
Lemma round64_exact neg m E : 0 < m ->
  E + bitlen m - 53 <= E -> -1074 <= E -> bitlen m + E <= 1024 ->
  round64 neg m E = NFin neg m E.
Proof.
  intros Hm H53 Hlo Hhi. unfold round64.
  replace (m =? 0) with false by lia.
  replace (Z.max (E + bitlen m - 53) (-1074) <=? E) with true by lia.
  replace (m =? 0) with false by lia.
  replace (1024 <? bitlen m + E) with false by lia. reflexivity.
Qed.

(* far above the range: the infinity; far below: zero (with the sign) *)
Lemma round64_overflow neg m E : 0 < m -> m < 2 ^ 53 -> 1024 < bitlen m + E -> -1074 <= E ->
  round64 neg m E = NInf neg.
Proof.
  intros Hm H53 Hhi Hlo. unfold round64.
  assert (bitlen m <= 53) by (apply bitlen_le; lia).
  replace (m =? 0) with false by lia.
  replace (Z.max (E + bitlen m - 53) (-1074) <=? E) with true by lia.
  replace (m =? 0) with false by lia.
  replace (1024 <? bitlen m + E) with true by lia. reflexivity.
Qed.

Lemma round64_underflow neg m E : 0 <= m -> m < 2 ^ 53 -> E <= -1074 - 54 ->
  round64 neg m E = NFin neg 0 0.
Proof.
  intros Hm H53 Hlo. unfold round64.
  destruct (m =? 0) eqn:Em; [reflexivity|].
  assert (Hm' : 0 < m) by lia.
  assert (bitlen m <= 53) by (apply bitlen_le; lia).
  replace (Z.max (E + bitlen m - 53) (-1074)) with (-1074) by lia.
  replace (-1074 <=? E) with false by lia.
  rewrite rne_shift_small; [reflexivity|lia|lia|].
  assert (2 ^ 53 <= 2 ^ (-1074 - E - 1)) by (apply Z.pow_le_mono_r; lia). lia.
Qed.

(* the result is a binary64 number: at most 53 bits (2^53 itself after a carry), exponent at least
   -1074, magnitude below 2^1024 *)
Lemma round64_format neg m E s m' E' : 0 <= m ->
  round64 neg m E = NFin s m' E' ->
  s = neg /\ 0 <= m' <= 2 ^ 53 /\ (m' = 0 \/ (-1074 <= E' /\ bitlen m' + E' <= 1024)) .
Proof.
  intros Hm. unfold round64.
  destruct (m =? 0) eqn:Em.
  { intros H; injection H as Hs Hmm HEE; subst s m' E'. split; [reflexivity|]. split; [lia|left; reflexivity]. }
  assert (Hm' : 0 < m) by lia.
  pose proof (bitlen_bounds m Hm') as Hb. pose proof (bitlen_pos m Hm') as Hbp.
  set (q := Z.max (E + bitlen m - 53) (-1074)).
  destruct (q <=? E) eqn:Eq.
  - replace (m =? 0) with false by lia.
    destruct (1024 <? bitlen m + E) eqn:Eo; [discriminate|].
    intros H; injection H as Hs Hmm HEE; subst s m' E'. split; [reflexivity|].
    assert (bitlen m <= 53) by lia.
    assert (2 ^ bitlen m <= 2 ^ 53) by (apply Z.pow_le_mono_r; lia).
    split; [lia|right; lia].
  - assert (Hd : 0 < q - E) by lia.
    destruct (rne_shift_cases m (q - E) (Z.lt_le_incl _ _ Hm') Hd) as (Heq & Hr & Hh & Hq & Hc).
    set (r := rne_shift m (q - E)) in *.
    destruct (r =? 0) eqn:Er.
    { intros H; injection H as Hs Hmm HEE; subst s m' E'. split; [reflexivity|]. split; [lia|left; reflexivity]. }
    destruct (1024 <? bitlen r + q) eqn:Eo; [discriminate|].
    intros H; injection H as Hs Hmm HEE; subst s m' E'. split; [reflexivity|].
    (* m < 2^(bitlen m) and q - E >= bitlen m - 53, so m / 2^(q-E) < 2^53 *)
    assert (Hquo : m / 2 ^ (q - E) < 2 ^ 53).
    { apply Z.div_lt_upper_bound; [apply Z.pow_pos_nonneg; lia|].
      rewrite <- Z.pow_add_r by lia.
      assert (2 ^ bitlen m <= 2 ^ (q - E + 53)) by (apply Z.pow_le_mono_r; lia). lia. }
    split; [|right; lia].
    destruct Hc as [[Hc _]|[Hc _]]; lia.
Qed.

(* ---- ldexp ---- *)

(* the exponent clamp of mathLdexp never changes the result on a binary64 argument *)
Lemma ref_ldexp_clamp_lemma neg m e k : 0 <= m < 2 ^ 53 -> -1074 <= e <= 971 ->
  ref_ldexp_z (NFin neg m e) (clamp_exp k) = ref_ldexp_z (NFin neg m e) k.
Proof.
  intros Hm He. unfold ref_ldexp_z, clamp_exp.
  destruct (Z_le_gt_dec k 4096) as [Hhi|Hhi]; destruct (Z_le_gt_dec (-4096) k) as [Hlo|Hlo].
  - replace (Z.max (-4096) (Z.min 4096 k)) with k by lia. reflexivity.
  - replace (Z.max (-4096) (Z.min 4096 k)) with (-4096) by lia.
    rewrite !round64_underflow by lia. reflexivity.
  - replace (Z.max (-4096) (Z.min 4096 k)) with 4096 by lia.
    destruct (Z.eq_dec m 0) as [->|Hnz]; [reflexivity|].
    assert (0 < bitlen m) by (apply bitlen_pos; lia).
    rewrite !round64_overflow by lia. reflexivity.
  - lia.
Qed.

(* frexp's parts recompose through ldexp: for every binary64 x = (-1)^neg * m * 2^e *)
Lemma ref_ldexp_frexp_lemma neg m e : 0 < m < 2 ^ 53 -> -1074 <= e -> bitlen m + e <= 1024 ->
  ref_ldexp_z (fst (ref_frexp (NFin neg m e))) (snd (ref_frexp (NFin neg m e))) = NFin neg m e.
Proof.
  intros Hm He Hhi. unfold ref_frexp. replace (m =? 0) with false by lia.
  cbn [fst snd ref_ldexp_z].
  assert (bitlen m <= 53) by (apply bitlen_le; lia).
  replace (- bitlen m + (e + bitlen m)) with e by lia.
  apply round64_exact; lia.
Qed.

(* ldexp of a value and exponent whose product binary64 holds is that product, exactly *)
Lemma ref_ldexp_exact_lemma neg m e k : 0 < m < 2 ^ 53 -> -1074 <= e + k -> bitlen m + (e + k) <= 1024 ->
  ref_ldexp_z (NFin neg m e) k = NFin neg m (e + k).
Proof.
  intros Hm He Hhi. cbn [ref_ldexp_z].
  assert (bitlen m <= 53) by (apply bitlen_le; lia).
  apply round64_exact; lia.
Qed.

(* in general the result is a nearest binary64: when bits are shifted out, the kept mantissa m' at the
   exponent q of the last place differs from the exact value by at most half a unit, ties to even *)
Lemma ref_ldexp_rounds_lemma neg m e k : 0 < m ->
  let E := e + k in
  let q := Z.max (E + bitlen m - 53) (-1074) in
  E < q ->
  let m' := rne_shift m (q - E) in
  2 * Z.abs (m - m' * 2 ^ (q - E)) <= 2 ^ (q - E) /\
  (2 * Z.abs (m - m' * 2 ^ (q - E)) = 2 ^ (q - E) -> Z.even m' = true) /\
  ref_ldexp_z (NFin neg m e) k =
    (if m' =? 0 then NFin neg 0 0 else if 1024 <? bitlen m' + q then NInf neg else NFin neg m' q).
Proof.
  intros Hm E q Hq m'.
  destruct (rne_shift_nearest m (q - E)) as [H1 H2]; [lia|lia|].
  split; [exact H1|]. split; [exact H2|].
  cbn [ref_ldexp_z]. unfold round64. fold E. replace (m =? 0) with false by lia. fold q.
  replace (q <=? E) with false by lia. reflexivity.
Qed.
