(* C15, index/bytes part. Impl = transcription of stringlib.go (strSub, strByte, strFind plain
   branch, strRep, strReverse, strUpper, strLower, strChar, strLen, luaIndex2StringIndex).
   Spec = Lua 5.1 manual / lstrlib.c (posrelat and the documented clamping). No proofs here. *)
From GL Require Import Common.Bytes.

(* ---------- spec ---------- *)
Definition posrelat (pos l : Z) : Z :=
  let p := if pos <? 0 then pos + l + 1 else pos in
  if p >=? 0 then p else 0.

Definition sub_spec (s : bytes) (i j : Z) : bytes :=
  let l := len s in
  let st := Z.max 1 (posrelat i l) in
  let en := Z.min l (posrelat j l) in
  if st <=? en then slice s (st - 1) en else [].

(* string.byte(s [,i [,j]]) : default i = 1, default j = i *)
Definition byte_spec (s : bytes) (oi oj : option Z) : list Z :=
  let l := len s in
  let posi := posrelat (match oi with Some i => i | None => 1 end) l in
  let pose := posrelat (match oj with Some j => j | None => posi end) l in
  let posi' := if posi <=? 0 then 1 else posi in
  let pose' := if pose >? l then l else pose in
  if posi' >? pose' then [] else slice s (posi' - 1) pose'.

Fixpoint is_prefix (p s : bytes) : bool :=
  match p, s with
  | [], _ => true
  | x :: p', y :: s' => (x =? y) && is_prefix p' s'
  | _ :: _, [] => false
  end.

(* first k (0-based) with p a prefix of skipn k s; this is memfind / strings.Index *)
Fixpoint index_from (p s : bytes) (k : Z) : option Z :=
  if is_prefix p s then Some k else
  match s with
  | [] => None
  | _ :: s' => index_from p s' (k + 1)
  end.

(* string.find(s, p, init, true): Some (start, end) 1-based inclusive, or None *)
Definition find_plain_spec (s p : bytes) (oinit : option Z) : option (Z * Z) :=
  let l := len s in
  let i0 := posrelat (match oinit with Some i => i | None => 1 end) l - 1 in
  let init := if i0 <? 0 then 0 else if i0 >? l then l else i0 in
  match index_from p (skipn (Z.to_nat init) s) 0 with
  | Some k => Some (init + k + 1, init + k + len p)
  | None => None
  end.

Definition rep_spec (s : bytes) (n : Z) : bytes :=
  if n <=? 0 then [] else repeat_app s (Z.to_nat n).

Definition toupper_c (b : Z) : Z := if (97 <=? b) && (b <=? 122) then b - 32 else b.
Definition tolower_c (b : Z) : Z := if (65 <=? b) && (b <=? 90) then b + 32 else b.

(* ---------- impl (transcription) ---------- *)
(* idx = luaIndex2StringIndex.  Since /repo e961103 the Go code resolves a negative i before the
   start-1 step (so that -2^63 cannot overflow); over Z the two orders give the same function, the
   order below is the original one. *)
Definition idx (l i : Z) (start : bool) : Z :=
  let i1 := if start && negb (i =? 0) then i - 1 else i in
  let i2 := if i1 <? 0 then l + i1 + 1 else i1 in
  let i3 := Z.max 0 i2 in
  if negb start && (i3 >? l) then l else i3.

Definition strSub (s : bytes) (i j : Z) : bytes :=
  let l := len s in
  let st := idx l i true in
  let en := idx l j false in
  if (st >=? l) || (en <? st) then [] else slice s st en.

Definition strByte (s : bytes) (oi oj : option Z) : list Z :=
  let l := len s in
  let i := match oi with Some i => i | None => 1 end in
  let st := idx l i true in
  let en := idx l (match oj with Some j => j | None => i end) false in
  if (st >=? l) || (en <=? st) then [] else slice s st en.

Definition strFindPlain (s p : bytes) (oinit : option Z) : option (Z * Z) :=
  let l := len s in
  let init0 := idx l (match oinit with Some i => i | None => 1 end) true in
  let init := if init0 >? l then l else init0 in
  match p with
  | [] => Some (init + 1, init)
  | _ =>
    match index_from p (skipn (Z.to_nat init) s) 0 with
    | Some pos => Some (init + pos + 1, init + pos + len p)
    | None => None
    end
  end.

Definition strRep (s : bytes) (n : Z) : bytes :=
  if n <? 0 then [] else repeat_app s (Z.to_nat n).

(* string.rep refuses a result longer than maxStringRepLen = 2^31-1 bytes (an allocation failure
   cannot be caught in Go) *)
Definition rep_limit : Z := 2147483647.
Definition strRep_raises (s : bytes) (n : Z) : bool := (0 <? n) && (len s * n >? rep_limit).

Definition strReverse (s : bytes) : bytes := rev s.
Definition strUpper (s : bytes) : bytes := map toupper_c s.
Definition strLower (s : bytes) : bytes := map tolower_c s.
Definition strLen (s : bytes) : Z := len s.
(* string.char on arguments already in 0..255 (uint8 conversion is the identity there) *)
Definition strChar (l : list Z) : bytes := map (fun c => c mod 256) l.
