(* C15, string.format part. No proofs here.

   [fmt_dir go sp a] renders ONE directive.  [go = false] is the specification: C's printf
   (ISO C 7.19.6.1 as used by lstrlib.c str_format) for %d %i %c %x %X %o %e %E %f %s with the
   flags - + space # 0, width and precision.  [go = true] is the implementation model: what
   strFormat (stringlib.go) + LNumber.Format/LString.Format/formatBytes (value.go) +
   formatInteger (value.go) produce.  After the fix: commits of this property the integer
   conversions and inf/nan are rendered by gopher-lua's own code following C; %e %E %f of finite
   numbers and the padding of %s of a number still go through Go's fmt (an oracle, stdlib).  The
   two dialects now differ at ONE point, a branch on [go] in [pad_str] and nowhere else:
     G4  flag 0 pads %s and %c with zeros (undefined in C)
   (G1 %#x of 0 / prefix width, G2 precision 0 value 0, G3 +/space on %x %X %o, G5 +Inf/NaN were
   deviations of Go's fmt; they are repaired in the code and gone from the model.)
   [format go f args] is the whole call: literal bytes, %%, directives consuming one argument
   each, error when an argument is missing, surplus arguments ignored.
   Numbers arrive as exact dyadics: NFin neg m e = (-1)^neg * m * 2^e. *)
From GL Require Import Common.Bytes.

Inductive num :=
| NFin (neg : bool) (m e : Z)
| NInf (neg : bool)
| NNaN.

(* AConv s c: the string s given where it may have to be converted: c is what tonumber(s) yields on
   the real code (string -> number is property C16's model; here it is an oracle) *)
Inductive farg := ANum (n : num) | AStr (s : bytes) | AConv (s : bytes) (c : option num).

Record dspec := mkD {
  f_minus : bool; f_plus : bool; f_space : bool; f_sharp : bool; f_zero : bool;
  d_width : option Z; d_prec : option Z; d_verb : Z }.

Definition set_width (sp : dspec) (w : option Z) : dspec :=
  mkD (f_minus sp) (f_plus sp) (f_space sp) (f_sharp sp) (f_zero sp) w (d_prec sp) (d_verb sp).

(* ---------- digits ---------- *)
Definition digit_char (upper : bool) (d : Z) : Z :=
  if d <? 10 then 48 + d else (if upper then 55 else 87) + d.

Fixpoint digits_fuel (fuel : nat) (base : Z) (upper : bool) (n : Z) (acc : bytes) : bytes :=
  match fuel with
  | O => acc
  | S k => if n <? base then digit_char upper n :: acc
           else digits_fuel k base upper (n / base) (digit_char upper (n mod base) :: acc)
  end.

(* digits of n >= 0, most significant first; "0" for 0.  The fuel always suffices
   (FormatFacts.of_digits_digits). *)
Definition digits (base : Z) (upper : bool) (n : Z) : bytes :=
  digits_fuel (S (Z.to_nat (Z.log2 n))) base upper n [].

Definition digit_val (c : Z) : Z :=
  if (48 <=? c) && (c <=? 57) then c - 48
  else if (97 <=? c) && (c <=? 102) then c - 87
  else if (65 <=? c) && (c <=? 70) then c - 55
  else 0.

Definition of_digits (base : Z) (s : bytes) : Z :=
  fold_left (fun acc c => acc * base + digit_val c) s 0.

(* reading back what %d writes: optional sign, then decimal digits *)
Definition parse_int (s : bytes) : Z :=
  match s with
  | 45 :: r => - of_digits 10 r
  | 43 :: r => of_digits 10 r
  | _ => of_digits 10 s
  end.

Fixpoint drop_spaces (s : bytes) : bytes :=
  match s with
  | 32 :: r => drop_spaces r
  | _ => s
  end.

(* strip blanks on both sides (the padding of a directive) *)
Definition strip (s : bytes) : bytes := rev (drop_spaces (rev (drop_spaces s))).

(* ---------- padding ---------- *)
Definition spaces (n : Z) : bytes := repeat 32 (Z.to_nat n).
Definition zeros (n : Z) : bytes := repeat 48 (Z.to_nat n).
Definition owidth (w : option Z) : Z := match w with Some w => w | None => 0 end.

Definition pad (minus : bool) (w : option Z) (body : bytes) : bytes :=
  let n := owidth w - len body in
  if minus then body ++ spaces n else spaces n ++ body.

(* numeric conversions: with flag 0 (and no '-') the fill goes between prefix and digits *)
Definition pad_num (sp : dspec) (zero_ok : bool) (prefix body : bytes) : bytes :=
  if f_zero sp && negb (f_minus sp) && zero_ok
  then prefix ++ zeros (owidth (d_width sp) - len prefix - len body) ++ body
  else pad (f_minus sp) (d_width sp) (prefix ++ body).

(* %s / %c bodies *)
Definition pad_str (go : bool) (sp : dspec) (body : bytes) : bytes :=
  if go && f_zero sp && negb (f_minus sp)                                   (* G4 *)
  then zeros (owidth (d_width sp) - len body) ++ body
  else pad (f_minus sp) (d_width sp) body.

Definition zext (p : Z) (ds : bytes) : bytes := zeros (p - len ds) ++ ds.

(* ---------- integers ---------- *)
Definition sign_of (sp : dspec) (neg : bool) : bytes :=
  if neg then [45] else if f_plus sp then [43] else if f_space sp then [32] else [].

Definition fmt_signed (go : bool) (sp : dspec) (z : Z) : bytes :=
  let sign := sign_of sp (z <? 0) in
  let a := Z.abs z in
  match d_prec sp with
  | Some p =>
    if (p =? 0) && (a =? 0) then pad (f_minus sp) (d_width sp) sign
    else pad (f_minus sp) (d_width sp) (sign ++ zext p (digits 10 false a))
  | None => pad_num sp true sign (digits 10 false a)
  end.

Definition two64 : Z := 18446744073709551616.
Definition two63 : Z := 9223372036854775808.

(* %#o: a leading 0 unless the digits already start with one *)
Definition oct_fix (on : bool) (ds : bytes) : bytes :=
  if on then match ds with 48 :: _ => ds | _ => 48 :: ds end else ds.

(* u already reduced to [0, 2^64); + and space do not apply to unsigned conversions *)
Definition fmt_unsigned (go : bool) (sp : dspec) (base : Z) (upper : bool) (u : Z) : bytes :=
  let hexpre := if (base =? 16) && f_sharp sp && negb (u =? 0)
                then [48; if upper then 88 else 120] else [] in
  let oct := oct_fix ((base =? 8) && f_sharp sp) in
  match d_prec sp with
  | Some p =>
    if (p =? 0) && (u =? 0) then pad (f_minus sp) (d_width sp) (oct [])
    else pad (f_minus sp) (d_width sp) (hexpre ++ oct (zext p (digits base upper u)))
  | None =>
    if f_zero sp && negb (f_minus sp) then
      let ds := digits base upper u in
      hexpre ++ oct (zeros (owidth (d_width sp) - len hexpre - len ds) ++ ds)
    else pad (f_minus sp) (d_width sp) (hexpre ++ oct (digits base upper u))
  end.

(* ---------- floats: exact decimal expansion of m * 2^e, round half even ---------- *)
Definition rhe (a b : Z) : Z :=
  let q := a / b in
  let r := a mod b in
  if 2 * r <? b then q else if 2 * r >? b then q + 1 else if Z.even q then q else q + 1.

Definition ndig (n : Z) : Z := len (digits 10 false n).

(* floor (log10 (a / b)) for a, b > 0 *)
Definition floor_log10 (a b : Z) : Z :=
  if a >=? b then ndig (a / b) - 1
  else let q := (b + a - 1) / a in - ndig (q - 1).

Definition point (sharp : bool) (p : Z) : bytes := if (p >? 0) || sharp then [46] else [].

Definition f_digits (sharp : bool) (p m e : Z) : bytes :=
  let n := rhe (m * 2 ^ Z.max e 0 * 10 ^ p) (2 ^ Z.max (- e) 0) in
  let ds := zext (p + 1) (digits 10 false n) in
  let k := len ds - p in
  firstn (Z.to_nat k) ds ++ point sharp p ++ skipn (Z.to_nat k) ds.

Definition exp_part (upper : bool) (x : Z) : bytes :=
  (if upper then 69 else 101) :: (if x <? 0 then 45 else 43) :: zext 2 (digits 10 false (Z.abs x)).

(* mantissa text d.ddd (p fraction digits) and decimal exponent of m * 2^e rounded to p+1 digits *)
Definition e_parts (sharp : bool) (p m e : Z) : bytes * Z :=
  if m =? 0 then (48 :: point sharp p ++ zeros p, 0) else
  let a := m * 2 ^ Z.max e 0 in
  let b := 2 ^ Z.max (- e) 0 in
  let x := floor_log10 a b in
  let n := rhe (a * 10 ^ Z.max (p - x) 0) (b * 10 ^ Z.max (x - p) 0) in
  let '(n, x) := if n >=? 10 ^ (p + 1) then (n / 10, x + 1) else (n, x) in
  let ds := digits 10 false n in
  (firstn 1 ds ++ point sharp p ++ skipn 1 ds, x).

Definition e_digits (upper sharp : bool) (p m e : Z) : bytes :=
  let '(mant, x) := e_parts sharp p m e in mant ++ exp_part upper x.

(* %g: P significant digits (0 counts as 1); style e when the exponent X of the rounded value is
   < -4 or >= P, else style f with P-1-X fraction digits; without '#' trailing zeros of the fraction
   and a trailing point are removed *)
Fixpoint drop_zeros (s : bytes) : bytes :=
  match s with 48 :: r => drop_zeros r | _ => s end.

Definition strip_frac (s : bytes) : bytes :=
  if existsb (Z.eqb 46) s then
    rev (match drop_zeros (rev s) with 46 :: r => r | r => r end)
  else s.

Definition g_digits (upper sharp : bool) (p m e : Z) : bytes :=
  let P := if p =? 0 then 1 else p in
  let '(mant, x) := e_parts sharp (P - 1) m e in
  let fix_ (t : bytes) := if sharp then t else strip_frac t in
  if (x <? -4) || (x >=? P) then fix_ mant ++ exp_part upper x
  else fix_ (f_digits sharp (P - 1 - x) m e).

Inductive fstyle := SF | SE | SG.

Definition fmt_float (go : bool) (sp : dspec) (is_e : fstyle) (upper : bool) (n : num) : bytes :=
  let p := match d_prec sp with Some p => p | None => 6 end in
  match n with
  | NFin neg m e =>
    pad_num sp true (sign_of sp neg)
            (match is_e with
             | SE => e_digits upper (f_sharp sp) p m e
             | SF => f_digits (f_sharp sp) p m e
             | SG => g_digits upper (f_sharp sp) p m e
             end)
  | NInf neg =>
    pad (f_minus sp) (d_width sp) (sign_of sp neg ++ if upper then [73;78;70] else [105;110;102])
  | NNaN =>
    pad (f_minus sp) (d_width sp) (sign_of sp false ++ if upper then [78;65;78] else [110;97;110])
  end.

(* ---------- argument conversion ---------- *)
(* int64(float64) / C's (long) cast: truncation toward zero.  Outside [-2^63, 2^63) the C cast is
   undefined; amd64 Go yields -2^63, which is what the impl model records. *)
Definition trunc_num (n : num) : option Z :=
  match n with
  | NFin neg m e =>
    let a := if e >=? 0 then m * 2 ^ e else m / 2 ^ (- e) in
    Some (if neg then - a else a)
  | _ => None
  end.

Definition in_int64 (z : Z) : bool := (- two63 <=? z) && (z <? two63).

Definition to_int64 (n : num) : Z :=
  match trunc_num n with
  | Some z => if in_int64 z then z else - two63
  | None => - two63
  end.

(* C's (unsigned long) cast as lstrlib applies it for %o %u %x %X: [2^63, 2^64) directly, the rest
   through the signed conversion and two's complement *)
Definition to_uint64 (n : num) : Z :=
  match trunc_num n with
  | Some z => if (two63 <=? z) && (z <? two64) then z else to_int64 n mod two64
  | None => to_int64 n mod two64
  end.

Definition is_integral (n : num) : bool :=
  match n with
  | NFin _ m e => (e >=? 0) || (m mod 2 ^ (- e) =? 0)
  | _ => false
  end.

(* ---------- one directive ---------- *)
(* None: combination not modelled (argument of the wrong kind, %s of a non-integral number, an
   unknown verb); the harness never generates those. *)
Definition fmt_dir (go : bool) (sp : dspec) (a : farg) : option bytes :=
  let v := d_verb sp in
  match a with
  | ANum n =>
    if (v =? 100) || (v =? 105) then Some (fmt_signed go sp (to_int64 n))          (* d i *)
    else if v =? 99 then Some (pad_str go sp [to_int64 n mod 256])                 (* c *)
    else if v =? 120 then Some (fmt_unsigned go sp 16 false (to_uint64 n)) (* x *)
    else if v =? 88 then Some (fmt_unsigned go sp 16 true (to_uint64 n))   (* X *)
    else if v =? 111 then Some (fmt_unsigned go sp 8 false (to_uint64 n))  (* o *)
    else if v =? 117 then Some (fmt_unsigned go sp 10 false (to_uint64 n)) (* u *)
    else if v =? 101 then Some (fmt_float go sp SE false n)                       (* e *)
    else if v =? 69 then Some (fmt_float go sp SE true n)                         (* E *)
    else if v =? 102 then Some (fmt_float go sp SF false n)                         (* f *)
    else if v =? 103 then Some (fmt_float go sp SG false n)                         (* g *)
    else if v =? 71 then Some (fmt_float go sp SG true n)                           (* G *)
    else if v =? 115 then                                                           (* s *)
      (* LNumber.String(): decimal integer when the number is integral and fits int64 *)
      if is_integral n && in_int64 (to_int64 n) && negb (to_int64 n =? - two63) then
        let z := to_int64 n in
        let body := (if z <? 0 then [45] else []) ++ digits 10 false (Z.abs z) in
        Some (pad_str go sp (match d_prec sp with
                             | Some p => firstn (Z.to_nat p) body | None => body end))
      else None
    else None
  | AStr s =>
    if v =? 115 then
      Some (pad_str go sp (match d_prec sp with
                           | Some p => firstn (Z.to_nat p) s | None => s end))
    else None
  | AConv _ _ => None          (* resolved to ANum / AStr before (see [resolve]) *)
  end.

Definition verb_in (v : Z) (l : list Z) : bool := existsb (Z.eqb v) l.

(* strFormat: a numeric conversion takes L.CheckNumber of its argument (a number, or a string that
   converts to one; anything else raises); %s takes the string itself.  None = the call raises. *)
Definition numeric_verb (v : Z) : bool := verb_in v [100;105;99;120;88;111;117;101;69;102;103;71].

(* the conversions lstrlib defines: c d i o u x X e E f g G q s; any other raises 'invalid option' *)
Definition valid_verb (v : Z) : bool := verb_in v [99;100;105;111;117;120;88;101;69;102;103;71;113;115].

Definition resolve (sp : dspec) (a : farg) : option farg :=
  match a with
  | AConv s c => if numeric_verb (d_verb sp) then option_map ANum c else Some (AStr s)
  | _ => Some a
  end.

(* ---------- the format string ---------- *)
Inductive item := ILit (c : Z) | IDir (sp : dspec) | IBad.

Definition is_digit (c : Z) : bool := (48 <=? c) && (c <=? 57).

Fixpoint scan_flags (s : bytes) (sp : dspec) : dspec * bytes :=
  match s with
  | c :: r =>
    if c =? 45 then scan_flags r (mkD true (f_plus sp) (f_space sp) (f_sharp sp) (f_zero sp) None None 0)
    else if c =? 43 then scan_flags r (mkD (f_minus sp) true (f_space sp) (f_sharp sp) (f_zero sp) None None 0)
    else if c =? 32 then scan_flags r (mkD (f_minus sp) (f_plus sp) true (f_sharp sp) (f_zero sp) None None 0)
    else if c =? 35 then scan_flags r (mkD (f_minus sp) (f_plus sp) (f_space sp) true (f_zero sp) None None 0)
    else if c =? 48 then scan_flags r (mkD (f_minus sp) (f_plus sp) (f_space sp) (f_sharp sp) true None None 0)
    else (sp, s)
  | [] => (sp, s)
  end.

Fixpoint scan_num (s : bytes) (acc : option Z) : option Z * bytes :=
  match s with
  | c :: r =>
    if is_digit c then scan_num r (Some (match acc with Some a => a | None => 0 end * 10 + (c - 48)))
    else (acc, s)
  | [] => (acc, s)
  end.

Definition no_flags : dspec := mkD false false false false false None None 0.

(* after a '%' that is not followed by '%': flags, width, optional .precision, verb *)
Definition scan_dir (s : bytes) : option (dspec * bytes) :=
  let '(fl, s1) := scan_flags s no_flags in
  let '(w, s2) := scan_num s1 None in
  let '(p, s3) := match s2 with
                  | 46 :: r => let '(p, r') := scan_num r None in
                               (Some (match p with Some p => p | None => 0 end), r')
                  | _ => (None, s2)
                  end in
  match s3 with
  | v :: r => Some (mkD (f_minus fl) (f_plus fl) (f_space fl) (f_sharp fl) (f_zero fl) w p v, r)
  | [] => None
  end.

Fixpoint parse_fmt (fuel : nat) (s : bytes) : list item :=
  match fuel with
  | O => match s with [] => [] | _ => [IBad] end
  | S k =>
    match s with
    | [] => []
    | 37 :: 37 :: r => ILit 37 :: parse_fmt k r
    | 37 :: r =>
      match scan_dir r with
      | Some (sp, r') => IDir sp :: parse_fmt k r'
      | None => [IBad]
      end
    | c :: r => ILit c :: parse_fmt k r
    end
  end.

Inductive fres := FOk (out : bytes) | FErr | FUnsupported.

Fixpoint run_items (go : bool) (its : list item) (args : list farg) : fres :=
  match its with
  | [] => FOk []
  | ILit c :: r =>
    match run_items go r args with FOk o => FOk (c :: o) | x => x end
  | IBad :: _ => FUnsupported
  | IDir sp :: r =>
    match args with
    | [] => FErr                                    (* bad argument #n to 'format' (no value) *)
    | a :: args' =>
      if negb (valid_verb (d_verb sp)) then FErr else   (* invalid option '%?' to 'format' *)
      match resolve sp a with
      | None => FErr                                (* bad argument #n (number expected, got string) *)
      | Some a' =>
        match fmt_dir go sp a' with
        | None => FUnsupported
        | Some o1 =>
          match run_items go r args' with FOk o => FOk (o1 ++ o) | x => x end
        end
      end
    end
  end.

Definition ndirs (its : list item) : Z :=
  len (filter (fun i => match i with IDir _ => true | _ => false end) its).

(* strFormat: the number of format items is counted first and a missing argument is an error
   before anything is rendered; then fmt.Sprintf over exactly that many arguments *)
Definition format (go : bool) (f : bytes) (args : list farg) : fres :=
  let its := parse_fmt (length f) f in
  if ndirs its >? len args then
    (if existsb (fun i => match i with IBad => true | _ => false end) its then FUnsupported else FErr)
  else run_items go its args.

(* ---------- where C defines the directive ---------- *)
Definition arg_in_range (sp : dspec) (a : farg) : bool :=
  match a with
  | ANum n =>
    if verb_in (d_verb sp) [100;105;99]
    then match trunc_num n with Some z => in_int64 z | None => false end
    else if verb_in (d_verb sp) [120;88;111;117]
    then match trunc_num n with Some z => (- two63 <=? z) && (z <? two64) | None => false end
    else true
  | _ => true
  end.

(* ISO C: '#' undefined for d i c s; '0' undefined for c s; precision undefined for c; the (long)
   cast undefined outside its range.  '+' and ' ' are defined everywhere: they act on signed
   conversions only. *)
Definition c_defined (sp : dspec) (a : farg) : bool :=
  let v := d_verb sp in
  arg_in_range sp a &&
  (if verb_in v [100;105] then negb (f_sharp sp)
   else if verb_in v [120;88;111] then true
   else if v =? 117 then negb (f_sharp sp)
   else if v =? 99 then negb (f_sharp sp) && negb (f_zero sp)
                        && match d_prec sp with None => true | _ => false end
   else if v =? 115 then negb (f_sharp sp) && negb (f_zero sp)
   else verb_in v [101;69;102;103;71]).
