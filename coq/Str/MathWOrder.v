(* Go's < on the dyadic numbers the model runs on is a strict weak order on non-NaN values, so
   max_spec / min_spec hold of the executed model (run_math MMax / MMin) without hypotheses. *)
From Coq Require Import Lia ZifyBool.
From GL Require Import Common.Bytes Str.FormatModel Str.MathWModel Str.MathWFacts.

Inductive ext := NegInf | Fin (z : Z) | PosInf.

Definition ext_ltb (a b : ext) : bool :=
  match a, b with
  | NegInf, NegInf => false
  | NegInf, _ => true
  | _, NegInf => false
  | Fin x, Fin y => x <? y
  | Fin _, PosInf => true
  | PosInf, _ => false
  end.

Definition not_nan (x : num) : Prop := x <> NNaN.
Definition expo (x : num) : Z := match x with NFin _ _ e => e | _ => 0 end.

(* the value of x in units of 2^E *)
Definition key (E : Z) (x : num) : ext :=
  match x with
  | NFin s m e => Fin (sgn_m s m * 2 ^ (e - E))
  | NInf true => NegInf
  | _ => PosInf
  end.

Lemma scale_ltb v1 e1 v2 e2 E : E <= e1 -> E <= e2 ->
  (let '(a, b, _) := align v1 e1 v2 e2 in a <? b) = (v1 * 2 ^ (e1 - E) <? v2 * 2 ^ (e2 - E)).
Proof.
  intros H1 H2. unfold align. set (e0 := Z.min e1 e2).
  assert (Hc : 0 < 2 ^ (e0 - E)) by (apply Z.pow_pos_nonneg; lia).
  replace (e1 - E) with ((e1 - e0) + (e0 - E)) by lia.
  replace (e2 - E) with ((e2 - e0) + (e0 - E)) by lia.
  rewrite !Z.pow_add_r by lia. rewrite !Z.mul_assoc.
  set (a := v1 * 2 ^ (e1 - e0)). set (b := v2 * 2 ^ (e2 - e0)). set (c := 2 ^ (e0 - E)) in *.
  destruct (a <? b) eqn:E1; symmetry.
  - apply Z.ltb_lt. apply Z.mul_lt_mono_pos_r; [exact Hc | lia].
  - apply Z.ltb_ge. apply Z.mul_le_mono_nonneg_r; lia.
Qed.

Lemma num_ltb_key E x y : not_nan x -> not_nan y -> E <= expo x -> E <= expo y ->
  num_ltb x y = ext_ltb (key E x) (key E y).
Proof.
  intros Hx Hy Ex Ey.
  destruct x as [s1 m1 e1|[|]|]; destruct y as [s2 m2 e2|[|]|];
    try (exfalso; apply Hx; reflexivity); try (exfalso; apply Hy; reflexivity); try reflexivity.
  cbn [expo] in Ex, Ey. cbn [num_ltb key ext_ltb]. apply scale_ltb; assumption.
Qed.

Definition E3 (a b c : num) : Z := Z.min (expo a) (Z.min (expo b) (expo c)).

Lemma ext_total a b c :
  (ext_ltb a a = false) /\
  (ext_ltb a b = true -> ext_ltb b a = false) /\
  (ext_ltb b a = false -> ext_ltb b c = true -> ext_ltb a c = true) /\
  (ext_ltb a b = true -> ext_ltb c b = false -> ext_ltb a c = true).
Proof. destruct a, b, c; cbn [ext_ltb]; repeat split; intros; try congruence; lia. Qed.

Lemma num_ltb_irrefl a : not_nan a -> num_ltb a a = false.
Proof.
  intros H. rewrite (num_ltb_key (expo a)) by (auto; lia). apply (ext_total _ NegInf NegInf).
Qed.

Lemma num_ltb_asym a b : not_nan a -> not_nan b -> num_ltb a b = true -> num_ltb b a = false.
Proof.
  intros Ha Hb. rewrite !(num_ltb_key (E3 a b b)) by (auto; unfold E3; lia).
  apply (ext_total _ _ NegInf).
Qed.

Lemma num_le_lt_trans a b c : not_nan a -> not_nan b -> not_nan c ->
  le num num_ltb a b -> num_ltb b c = true -> num_ltb a c = true.
Proof.
  intros Ha Hb Hc. unfold le. rewrite !(num_ltb_key (E3 a b c)) by (auto; unfold E3; lia).
  apply ext_total.
Qed.

Lemma num_lt_le_trans a b c : not_nan a -> not_nan b -> not_nan c ->
  num_ltb a b = true -> le num num_ltb b c -> num_ltb a c = true.
Proof.
  intros Ha Hb Hc. unfold le. rewrite !(num_ltb_key (E3 a b c)) by (auto; unfold E3; lia).
  apply ext_total.
Qed.

(* max/min of the executed model: an argument that bounds all arguments, any arity >= 1 *)
Lemma max_spec_num_lemma : forall x r, Forall not_nan (x :: r) ->
  exists res, run_math MMax (x :: r) = MOk [res] /\ In res (x :: r) /\
              forall a, In a (x :: r) -> num_ltb res a = false.
Proof.
  intros x r H. apply (max_spec_lemma num num_ltb not_nan num_ltb_irrefl num_ltb_asym num_le_lt_trans x r H).
Qed.

Lemma min_spec_num_lemma : forall x r, Forall not_nan (x :: r) ->
  exists res, run_math MMin (x :: r) = MOk [res] /\ In res (x :: r) /\
              forall a, In a (x :: r) -> num_ltb a res = false.
Proof.
  intros x r H. apply (min_spec_lemma num num_ltb not_nan num_ltb_irrefl num_ltb_asym num_lt_le_trans x r H).
Qed.
