(* C15, math library part. No proofs here.

   1. [Section Wrappers]: the transcription of mathlib.go's wrappers over an abstract number type;
      Go's math.* / rand.Intn / float<->int conversions are Section variables (oracles).  What a
      wrapper adds is only: which arguments it reads, in which order, the int conversion of
      ldexp's exponent and random's bounds, the fold of max/min, and "missing argument = error".
   2. Exact reference functions on the dyadic view of float64 ([num] of FormatModel.v: NFin neg m e =
      (-1)^neg * m * 2^e): floor ceil abs fmod modf frexp and the order used by max/min, all in Z
      arithmetic.  They instantiate the oracles when the model is run on harness cases, so the
      correspondence compares Go's math.Floor etc. against them.  ldexp is a Z-level rounding
      ([round64]; PrimFloat's ldexp is evaluated next to it by [spec_math]); sqrt, deg, rad are run
      through Coq's primitive binary64 floats (PrimFloat), which round as IEEE 754 does. *)
From Coq Require Import Floats.
From GL Require Import Common.Bytes Str.FormatModel.

Inductive mres (num : Type) := MOk (l : list num) | MErr.
Arguments MOk {num} l.
Arguments MErr {num}.

(* mathLdexp keeps the exponent inside +-2^12 before calling math.Ldexp, which adds x's own exponent to
   it without an overflow check (ldexp(0.5, -2^63) was +Inf).  float64 exponents span less than 2^12:
   beyond that the result is 0 or an infinity already (MathWLdexp.ref_ldexp_clamp). *)
Definition clamp_exp (e : Z) : Z := Z.max (-4096)%Z (Z.min 4096%Z e).

Section Wrappers.
  Variable num : Type.
  Variable ltb : num -> num -> bool.                 (* Go's < on LNumber *)
  Variables Floor Ceil Abs Sqrt : num -> num.        (* math.Floor ... *)
  Variable Mod : num -> num -> num.                  (* math.Mod *)
  Variable Modf : num -> num * num.                  (* math.Modf *)
  Variable Frexp : num -> num * Z.                   (* math.Frexp *)
  Variable Ldexp : num -> Z -> num.                  (* math.Ldexp *)
  Variable toInt : num -> Z.                         (* int(LNumber), as L.CheckInt *)
  Variable ofInt : Z -> num.                         (* LNumber(int) *)
  Variables mul div : num -> num -> num.             (* float64 * and / *)
  Variable crpd : num.                               (* radiansPerDegree = math.Pi / 180 *)
  Variable is_inf : num -> bool.                     (* math.IsInf(x, 0) *)
  Variable zero_like : num -> num.                   (* math.Copysign(0, x) *)
  Variable draw : Z -> option Z.                     (* rand.Intn(k): None = panic *)

  Definition arg1 (f : num -> num) (args : list num) : mres num :=
    match args with x :: _ => MOk [f x] | [] => MErr end.

  Definition mathFloor := arg1 Floor.
  Definition mathCeil := arg1 Ceil.
  Definition mathAbs := arg1 Abs.
  Definition mathSqrt := arg1 Sqrt.
  Definition mathDeg := arg1 (fun x => div x crpd).
  Definition mathRad := arg1 (fun x => mul x crpd).

  Definition mathFmod (args : list num) : mres num :=
    match args with x :: y :: _ => MOk [Mod x y] | _ => MErr end.

  Definition mathModf (args : list num) : mres num :=
    match args with
    | x :: _ =>
      if is_inf x then MOk [x; zero_like x]
      else let '(i, f) := Modf x in MOk [i; f]
    | [] => MErr
    end.

  Definition mathFrexp (args : list num) : mres num :=
    match args with
    | x :: _ => let '(m, e) := Frexp x in MOk [m; ofInt e]
    | [] => MErr
    end.

  Definition mathLdexp (args : list num) : mres num :=
    match args with x :: e :: _ => MOk [Ldexp x (clamp_exp (toInt e))] | _ => MErr end.

  Definition max_step (m v : num) : num := if ltb m v then v else m.   (* if v > max { max = v } *)
  Definition min_step (m v : num) : num := if ltb v m then v else m.   (* if v < min { min = v } *)

  Definition mathMax (args : list num) : mres num :=
    match args with x :: r => MOk [fold_left max_step r x] | [] => MErr end.

  Definition mathMin (args : list num) : mres num :=
    match args with x :: r => MOk [fold_left min_step r x] | [] => MErr end.

  (* math.random(n) and math.random(m, n); the zero-argument form (a float in [0,1)) is not modelled *)
  Definition mathRandom (args : list num) : mres num :=
    match args with
    | [] => MErr
    | [n] => match draw (toInt n) with Some r => MOk [ofInt (r + 1)] | None => MErr end
    | m :: n :: _ =>
      let lo := toInt m in
      let hi := toInt n + 1 in
      match draw (hi - lo) with Some r => MOk [ofInt (r + lo)] | None => MErr end
    end.
End Wrappers.

(* ---------- exact reference functions on dyadics ---------- *)
Local Open Scope Z_scope.

Fixpoint ctz (p : positive) : Z * positive :=
  match p with
  | xO q => let '(k, r) := ctz q in (k + 1, r)
  | _ => (0, p)
  end.

(* canonical form: odd mantissa, or (0, 0) *)
Definition norm (x : num) : num :=
  match x with
  | NFin neg (Zpos p) e => let '(k, r) := ctz p in NFin neg (Zpos r) (e + k)
  | NFin neg _ _ => NFin neg 0 0
  | _ => x
  end.

Definition num_eqb (a b : num) : bool :=
  match norm a, norm b with
  | NFin s1 m1 e1, NFin s2 m2 e2 => Bool.eqb s1 s2 && (m1 =? m2) && (e1 =? e2)
  | NInf s1, NInf s2 => Bool.eqb s1 s2
  | NNaN, NNaN => true
  | _, _ => false
  end.

Definition sgn_m (neg : bool) (m : Z) : Z := if neg then - m else m.

(* both mantissas on the common exponent min e1 e2 *)
Definition align (m1 e1 m2 e2 : Z) : Z * Z * Z :=
  let e0 := Z.min e1 e2 in (m1 * 2 ^ (e1 - e0), m2 * 2 ^ (e2 - e0), e0).

(* Go's x < y on float64 *)
Definition num_ltb (x y : num) : bool :=
  match x, y with
  | NNaN, _ | _, NNaN => false
  | NInf s1, NInf s2 => s1 && negb s2
  | NInf s, NFin _ _ _ => s
  | NFin _ _ _, NInf s => negb s
  | NFin s1 m1 e1, NFin s2 m2 e2 =>
    let '(a, b, _) := align (sgn_m s1 m1) e1 (sgn_m s2 m2) e2 in a <? b
  end.

Definition num_leb (x y : num) : bool :=
  match x, y with
  | NNaN, _ | _, NNaN => false
  | _, _ => negb (num_ltb y x)
  end.

(* equal as real numbers (+0 = -0) *)
Definition num_veq (x y : num) : bool := num_leb x y && num_leb y x.

Definition of_Z (z : Z) : num := NFin (z <? 0) (Z.abs z) 0.

Definition ref_floor (x : num) : num :=
  match x with
  | NFin neg m e =>
    if (e >=? 0) || (m =? 0) then x
    else of_Z (sgn_m neg m / 2 ^ (- e))
  | _ => x
  end.

Definition ref_ceil (x : num) : num :=
  match x with
  | NFin neg m e =>
    if (e >=? 0) || (m =? 0) then x
    else let c := - ((- sgn_m neg m) / 2 ^ (- e)) in
         if c =? 0 then NFin neg 0 0 else of_Z c
  | _ => x
  end.

Definition ref_abs (x : num) : num :=
  match x with
  | NFin _ m e => NFin false m e
  | NInf _ => NInf false
  | NNaN => NNaN
  end.

(* math.Mod / C fmod: exact remainder with the sign of the dividend *)
Definition ref_fmod (x y : num) : num :=
  match x, y with
  | NNaN, _ | _, NNaN | NInf _, _ => NNaN
  | NFin _ _ _, NInf _ => x
  | NFin s1 m1 e1, NFin _ m2 e2 =>
    if m2 =? 0 then NNaN else
    let '(a, b, e0) := align m1 e1 m2 e2 in
    NFin s1 (a mod b) e0
  end.

(* math.Modf on finite values and NaN: both parts carry the sign of x.  The infinities are handled
   by the wrapper. *)
Definition ref_modf (x : num) : num * num :=
  match x with
  | NFin neg m e =>
    if e >=? 0 then (x, NFin neg 0 0)
    else (NFin neg (m / 2 ^ (- e)) 0, NFin neg (m mod 2 ^ (- e)) e)
  | NInf _ => (x, NNaN)
  | NNaN => (NNaN, NNaN)
  end.

Definition bitlen (m : Z) : Z := if m =? 0 then 0 else Z.log2 m + 1.

(* math.Frexp: x = frac * 2^exp with 1/2 <= |frac| < 1; zero, infinities and NaN give (x, 0) *)
Definition ref_frexp (x : num) : num * Z :=
  match x with
  | NFin neg m e => if m =? 0 then (x, 0) else (NFin neg m (- bitlen m), e + bitlen m)
  | _ => (x, 0)
  end.

(* math.Ldexp / C ldexp in Z: (-1)^neg * m * 2^E rounded to binary64 -- 53 significant bits, least
   exponent -1074 (subnormals), ties to even, overflow to the infinity. *)
Definition rne_shift (m d : Z) : Z :=          (* m / 2^d to the nearest integer, ties to even (d > 0) *)
  let q := m / 2 ^ d in
  let r := m mod 2 ^ d in
  let h := 2 ^ (d - 1) in
  if (h <? r) || ((r =? h) && Z.odd q) then q + 1 else q.

Definition round64 (neg : bool) (m E : Z) : num :=
  if m =? 0 then NFin neg 0 0 else
  let q := Z.max (E + bitlen m - 53) (-1074) in          (* exponent of the result's last place *)
  let '(m', E') := if q <=? E then (m, E) else (rne_shift m (q - E), q) in
  if m' =? 0 then NFin neg 0 0
  else if 1024 <? bitlen m' + E' then NInf neg
  else NFin neg m' E'.

Definition ref_ldexp_z (x : num) (k : Z) : num :=
  match x with NFin neg m e => round64 neg m (e + k) | _ => x end.

Definition is_inf_num (x : num) : bool := match x with NInf _ => true | _ => false end.
Definition zero_like_num (x : num) : num :=
  match x with NFin s _ _ | NInf s => NFin s 0 0 | NNaN => NFin false 0 0 end.

(* exact sum of two finite dyadics (used by the recomposition predicates) *)
Definition dy_add (x y : num) : option num :=
  match x, y with
  | NFin s1 m1 e1, NFin s2 m2 e2 =>
    let '(a, b, e0) := align (sgn_m s1 m1) e1 (sgn_m s2 m2) e2 in
    Some (NFin (a + b <? 0) (Z.abs (a + b)) e0)
  | _, _ => None
  end.

Definition is_int_num (x : num) : bool :=
  match x with NFin _ m e => (e >=? 0) || (m mod 2 ^ (- e) =? 0) | _ => false end.

(* ---------- PrimFloat bridge (sqrt, ldexp, deg, rad) ---------- *)
Definition to_float (x : num) : float :=
  match norm x with
  | NFin neg (Zpos p) e => SF2Prim (S754_finite neg p e)
  | NFin neg _ _ => SF2Prim (S754_zero neg)
  | NInf neg => SF2Prim (S754_infinity neg)
  | NNaN => nan
  end.

Definition of_float (f : float) : num :=
  match Prim2SF f with
  | S754_zero s => NFin s 0 0
  | S754_infinity s => NInf s
  | S754_nan => NNaN
  | S754_finite s m e => NFin s (Zpos m) e
  end.

Definition ref_sqrt (x : num) : num := of_float (PrimFloat.sqrt (to_float x)).
Definition ref_ldexp (x : num) (e : Z) : num := of_float (Z.ldexp (to_float x) e).
Definition ref_mul (x y : num) : num := of_float (PrimFloat.mul (to_float x) (to_float y)).
Definition ref_div (x y : num) : num := of_float (PrimFloat.div (to_float x) (to_float y)).
Definition num_rpd : num := NFin false 5030569068109113 (-58).   (* float64(pi/180) = lmathlib.c's RADIANS_PER_DEGREE *)

(* ---------- the wrappers instantiated for running ---------- *)
Inductive mop := MFloor | MCeil | MAbs | MSqrt | MDeg | MRad | MFmod | MModf | MFrexp | MLdexp | MMax | MMin.

Definition run_math (op : mop) (args : list num) : mres num :=
  match op with
  | MFloor => mathFloor num ref_floor args
  | MCeil => mathCeil num ref_ceil args
  | MAbs => mathAbs num ref_abs args
  | MSqrt => mathSqrt num ref_sqrt args
  | MDeg => mathDeg num ref_div num_rpd args
  | MRad => mathRad num ref_mul num_rpd args
  | MFmod => mathFmod num ref_fmod args
  | MModf => mathModf num ref_modf is_inf_num zero_like_num args
  | MFrexp => mathFrexp num ref_frexp of_Z args
  | MLdexp => mathLdexp num ref_ldexp_z to_int64 args
  | MMax => mathMax num num_ltb args
  | MMin => mathMin num num_ltb args
  end.

(* math.random: the generator's draw is not reproducible from outside, so the oracle is instantiated
   with the only draw that could have produced the observed result r, valid only if it lies in
   Intn's range [0, k); [None] observed = the call raised. *)
Definition run_random (args : list num) (obs : option Z) : mres num :=
  let base := match args with
              | [_] => 1
              | m :: _ :: _ => to_int64 m
              | [] => 0
              end in
  let draw (k : Z) : option Z :=
    match obs with
    | Some r => let d := r - base in if (0 <=? d) && (d <? k) then Some d else None
    | None => if k <=? 0 then None else Some 0
    end in
  mathRandom num to_int64 of_Z draw args.

(* ---------- the property evaluated on an observation ---------- *)
Definition all_finite (l : list num) : bool :=
  forallb (fun x => match x with NFin _ _ _ => true | _ => false end) l.
Definition no_nan (l : list num) : bool :=
  forallb (fun x => match x with NNaN => false | _ => true end) l.

Definition one_num : num := NFin false 1 0.

Definition spec_math (op : mop) (args : list num) (obs : mres num) : bool :=
  match op, args, obs with
  | MFloor, x :: _, MOk [r] =>
    if all_finite [x] then
      is_int_num r && num_leb r x &&
      match dy_add r one_num with Some r1 => num_ltb x r1 | None => false end
    else num_eqb r x
  | MCeil, x :: _, MOk [r] =>
    if all_finite [x] then
      is_int_num r && num_leb x r &&
      match dy_add r (NFin true 1 0) with Some r1 => num_ltb r1 x | None => false end
    else num_eqb r x
  | MMax, _ :: _, MOk [r] =>
    if no_nan args then existsb (num_eqb r) args && forallb (fun a => num_leb a r) args else true
  | MMin, _ :: _, MOk [r] =>
    if no_nan args then existsb (num_eqb r) args && forallb (fun a => num_leb r a) args else true
  | MFmod, x :: y :: _, MOk [r] =>
    (* finite x, finite non-zero y: sign of the dividend, |r| < |y|, x - r an integral multiple of y *)
    match x, y, r with
    | NFin sx mx ex, NFin _ my ey, NFin sr mr er =>
      if my =? 0 then false else
      Bool.eqb sr sx && num_ltb (NFin false mr er) (NFin false my ey) &&
      match dy_add x (NFin (negb sr) mr er) with
      | Some (NFin _ md ed) =>
        let '(a, b, _) := align md ed my ey in a mod b =? 0
      | _ => false
      end
    | _, _, _ => num_eqb r (ref_fmod x y)
    end
  | MModf, x :: _, MOk [i; f] =>
    match x with
    | NFin sx _ _ =>
      is_int_num i && num_ltb (ref_abs f) one_num &&
      match dy_add i f with Some s => num_veq s x | None => false end &&
      match i, f with NFin si _ _, NFin sf _ _ => Bool.eqb si sx && Bool.eqb sf sx | _, _ => false end
    | NInf s => num_eqb i x && num_eqb f (NFin s 0 0)          (* C: modf(+-inf) = (+-inf, +-0) *)
    | NNaN => num_eqb i NNaN && num_eqb f NNaN
    end
  | MFrexp, x :: _, MOk [m; e] =>
    match x, m, e with
    | NFin sx mx ex, NFin sm mm em, NFin _ _ _ =>
      if mx =? 0 then num_eqb m x && num_eqb e (NFin false 0 0) else
      is_int_num e &&
      num_leb (NFin false 1 (-1)) (NFin false mm em) && num_ltb (NFin false mm em) one_num &&
      num_eqb (NFin sm mm (em + to_int64 e)) x
    | _, _, _ => num_eqb m x && num_eqb e (NFin false 0 0)
    end
  | MLdexp, x :: e :: _, MOk [r] =>
    (* x * 2^e rounded once: the Z-level definition, and the hardware's ldexp (PrimFloat) as a second opinion *)
    num_eqb r (ref_ldexp_z x (clamp_exp (to_int64 e))) && num_eqb r (ref_ldexp x (clamp_exp (to_int64 e)))
  | _, _, _ =>
    (* abs sqrt deg rad, and every arity error: the IEEE reference itself *)
    match run_math op args, obs with
    | MOk a, MOk b => list_eqb num_eqb a b
    | MErr, MErr => true
    | _, _ => false
    end
  end.

Definition mres_eqb (a b : mres num) : bool :=
  match a, b with
  | MOk x, MOk y => list_eqb num_eqb x y
  | MErr, MErr => true
  | _, _ => false
  end.

(* math.random(m [,n]) on integer arguments: an integer in [1,m] / [m,n]; an empty interval raises *)
Definition spec_random (args : list num) (obs : option Z) : bool :=
  let '(lo, hi) := match args with
                   | [n] => (1, to_int64 n)
                   | m :: n :: _ => (to_int64 m, to_int64 n)
                   | [] => (1, 0)
                   end in
  match obs with
  | Some r => (lo <=? r) && (r <=? hi)
  | None => hi <? lo
  end.
