(* %d / %i under ANY flags, width and precision reads back to its argument once the blanks of the
   field are stripped. *)
From Coq Require Import Lia ZifyBool.
From GL Require Import Common.Bytes Str.FormatModel Str.FormatFacts.

Lemma drop_spaces_spaces n b : drop_spaces (spaces n ++ b) = drop_spaces b.
Proof. unfold spaces. induction (Z.to_nat n) as [|k IH]; [reflexivity | exact IH]. Qed.

Lemma rev_spaces n : rev (spaces n) = spaces n.
Proof.
  unfold spaces. induction (Z.to_nat n) as [|k IH]; [reflexivity|].
  cbn [repeat rev]. rewrite IH. clear IH. induction k as [|k IH]; [reflexivity|].
  cbn [repeat app]. rewrite IH. reflexivity.
Qed.

Lemma strip_spaces_l n b : strip (spaces n ++ b) = strip b.
Proof. unfold strip. rewrite drop_spaces_spaces. reflexivity. Qed.

Lemma drop_spaces_all n : drop_spaces (spaces n) = [].
Proof. rewrite <- (app_nil_r (spaces n)). apply drop_spaces_spaces. Qed.

Definition head_ok (s : bytes) : Prop := match s with [] => True | c :: _ => c <> 32 end.

Lemma drop_spaces_head_ok s : head_ok s -> drop_spaces s = s.
Proof.
  destruct s as [|c r]; [reflexivity|]. cbn [head_ok]. intros H. cbn [drop_spaces].
  destruct c as [|p|p]; try reflexivity.
  repeat (destruct p as [p|p|]; try reflexivity). congruence.
Qed.

Lemma strip_spaces_r n b : head_ok b -> strip (b ++ spaces n) = strip b.
Proof.
  intros H. unfold strip. destruct b as [|c r].
  - cbn [app]. rewrite drop_spaces_all. reflexivity.
  - rewrite (drop_spaces_head_ok ((c :: r) ++ spaces n)) by exact H.
    rewrite (drop_spaces_head_ok (c :: r)) by exact H.
    rewrite rev_app_distr, rev_spaces, drop_spaces_spaces. reflexivity.
Qed.

Lemma strip_clean s : head_ok s -> head_ok (rev s) -> strip s = s.
Proof.
  intros H1 H2. unfold strip. rewrite (drop_spaces_head_ok s H1), (drop_spaces_head_ok _ H2).
  apply rev_involutive.
Qed.

Lemma strip_pad m w b : head_ok b -> strip (pad m w b) = strip b.
Proof. intros H. unfold pad. destruct m; [apply strip_spaces_r; exact H | apply strip_spaces_l]. Qed.

Lemma strip_space_cons b : strip (32 :: b) = strip b.
Proof. reflexivity. Qed.

(* zero-extended digits: no blank at either end, and the value is unchanged *)
Lemma zd_ge48 k n : 0 <= n -> Forall (fun c => 48 <= c) (zeros k ++ digits 10 false n).
Proof.
  intros H. apply Forall_app. split; [|apply digits_ge48; lia].
  unfold zeros. induction (Z.to_nat k); constructor; [lia | assumption].
Qed.

Lemma ge48_head_ok s : Forall (fun c => 48 <= c) s -> head_ok s.
Proof. destruct s; [exact (fun _ => I)|]. intros H. inversion H; subst. cbn. lia. Qed.

Lemma ge48_rev s : Forall (fun c => 48 <= c) s -> Forall (fun c => 48 <= c) (rev s).
Proof. intros H. apply Forall_rev. exact H. Qed.

Lemma strip_ge48 s : Forall (fun c => 48 <= c) s -> strip s = s.
Proof. intros H. apply strip_clean; apply ge48_head_ok; [exact H | apply ge48_rev; exact H]. Qed.

Lemma strip_signed c s : c <> 32 -> s <> [] -> Forall (fun c => 48 <= c) s -> strip (c :: s) = c :: s.
Proof.
  intros Hc Hs H. apply strip_clean; [exact Hc|].
  cbn [rev]. assert (Hr : Forall (fun c => 48 <= c) (rev s)) by (apply ge48_rev; exact H).
  destruct (rev s) as [|d r] eqn:E.
  - exfalso. apply Hs. rewrite <- (rev_involutive s), E. reflexivity.
  - inversion Hr; subst. cbn. lia.
Qed.

Lemma zd_nonempty k n : zeros k ++ digits 10 false n <> [].
Proof. intros H. apply app_eq_nil in H. destruct H as [_ H]. exact (digits_nonempty _ _ _ H). Qed.

(* sign ++ (zeros ++ digits of |z|), blanks stripped, parses to z *)
Lemma parse_signed_body sp k z :
  parse_int (strip (sign_of sp (z <? 0) ++ zeros k ++ digits 10 false (Z.abs z))) = z.
Proof.
  pose proof (zd_ge48 k (Z.abs z) (Z.abs_nonneg z)) as Hg.
  assert (Hv : of_digits 10 (zeros k ++ digits 10 false (Z.abs z)) = Z.abs z)
    by (rewrite of_digits_zeros_app; apply of_digits_digits; lia).
  unfold sign_of. destruct (z <? 0) eqn:E.
  - cbn [app]. rewrite strip_signed; [| lia | apply zd_nonempty | exact Hg].
    cbn [parse_int]. rewrite Hv. lia.
  - destruct (f_plus sp).
    + cbn [app]. rewrite strip_signed; [| lia | apply zd_nonempty | exact Hg].
      cbn [parse_int]. rewrite Hv. lia.
    + destruct (f_space sp); cbn [app]; [rewrite strip_space_cons|];
        rewrite strip_ge48 by exact Hg; rewrite parse_int_ge48 by exact Hg; rewrite Hv; lia.
Qed.

Lemma sign_body_head_ok sp k z :
  head_ok (sign_of sp (z <? 0) ++ zeros k ++ digits 10 false (Z.abs z)) \/
  exists b, sign_of sp (z <? 0) ++ zeros k ++ digits 10 false (Z.abs z) = 32 :: b /\ head_ok b.
Proof.
  pose proof (zd_ge48 k (Z.abs z) (Z.abs_nonneg z)) as Hg.
  unfold sign_of. destruct (z <? 0); [left; cbn; lia|].
  destruct (f_plus sp); [left; cbn; lia|].
  destruct (f_space sp).
  - right. eexists. split; [reflexivity | apply ge48_head_ok; exact Hg].
  - left. apply ge48_head_ok. exact Hg.
Qed.

Lemma strip_pad_body m w sp k z :
  strip (pad m w (sign_of sp (z <? 0) ++ zeros k ++ digits 10 false (Z.abs z))) =
  strip (sign_of sp (z <? 0) ++ zeros k ++ digits 10 false (Z.abs z)).
Proof.
  destruct (sign_body_head_ok sp k z) as [H|(b & Hb & H)]; [apply strip_pad; exact H|].
  rewrite Hb. unfold pad. destruct m.
  - change ((32 :: b) ++ spaces (owidth w - len (32 :: b))) with (32 :: (b ++ spaces (owidth w - len (32 :: b)))).
    rewrite !strip_space_cons. apply strip_spaces_r. exact H.
  - rewrite strip_spaces_l. reflexivity.
Qed.

Lemma strip_sign_only m w sp : parse_int (strip (pad m w (sign_of sp false))) = 0.
Proof.
  unfold sign_of. destruct (f_plus sp); [|destruct (f_space sp)].
  - rewrite strip_pad by (cbn; lia). reflexivity.
  - unfold pad. destruct m.
    + change ([32] ++ spaces (owidth w - len [32])) with (32 :: ([] ++ spaces (owidth w - len [32]))).
      rewrite strip_space_cons, strip_spaces_r by exact I. reflexivity.
    + rewrite strip_spaces_l. reflexivity.
  - rewrite pad_nil. unfold strip. rewrite drop_spaces_all. reflexivity.
Qed.

Lemma format_d_roundtrip_all_lemma go sp z : parse_int (strip (fmt_signed go sp z)) = z.
Proof.
  unfold fmt_signed. destruct (d_prec sp) as [p|].
  - destruct ((p =? 0) && (Z.abs z =? 0)) eqn:E.
    + assert (z = 0) as -> by lia. change (0 <? 0) with false. apply strip_sign_only.
    + unfold zext. rewrite strip_pad_body. apply parse_signed_body.
  - unfold pad_num. destruct (f_zero sp && negb (f_minus sp) && true).
    + apply parse_signed_body.
    + rewrite <- (app_nil_l (digits 10 false (Z.abs z))).
      change (@nil Z) with (zeros 0). rewrite strip_pad_body. apply parse_signed_body.
Qed.
