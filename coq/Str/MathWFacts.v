(* Proofs for the math wrappers (MathWModel.v).
   Part 1: facts about the wrappers over an abstract number type, given hypotheses on Go's math.* /
           rand.Intn (the oracles): what the wrapper adds (argument order, arity, folds, int
           conversion) preserves them.
   Part 2: facts about the exact dyadic reference functions that stand in for the oracles when the
           model runs on harness cases, stated and proved in Z. *)
From Coq Require Import Lia ZifyBool.
From GL Require Import Common.Bytes Str.FormatModel Str.MathWModel.

Section WrapperFacts.
  Variable num : Type.
  Variable ltb : num -> num -> bool.
  Variable ok : num -> Prop.                       (* "is not NaN" *)
  Definition le (a b : num) : Prop := ltb b a = false.

  (* < on non-NaN float64 values is a strict weak order *)
  Hypothesis ltb_irrefl : forall a, ok a -> ltb a a = false.
  Hypothesis ltb_asym : forall a b, ok a -> ok b -> ltb a b = true -> ltb b a = false.
  Hypothesis le_lt_trans : forall a b c, ok a -> ok b -> ok c -> le a b -> ltb b c = true -> ltb a c = true.
  Hypothesis lt_le_trans : forall a b c, ok a -> ok b -> ok c -> ltb a b = true -> le b c -> ltb a c = true.

  Lemma fold_max_inv : forall r m seen,
    Forall ok r -> ok m -> In m seen -> (forall a, In a seen -> ok a /\ le a m) ->
    let res := fold_left (max_step num ltb) r m in
    In res (seen ++ r) /\ (forall a, In a (seen ++ r) -> le a res).
  Proof.
    induction r as [|v r IH]; intros m seen Hr Hm Hin Hb; cbn [fold_left].
    - rewrite app_nil_r. split; [exact Hin | intros a Ha; apply Hb; exact Ha].
    - inversion Hr as [|? ? Hv Hr']; subst.
      replace (seen ++ v :: r) with ((seen ++ [v]) ++ r) by (rewrite <- app_assoc; reflexivity).
      unfold max_step at 2 4. destruct (ltb m v) eqn:E.
      + apply IH; [exact Hr' | exact Hv | apply in_or_app; right; left; reflexivity|].
        intros a Ha. apply in_app_or in Ha. destruct Ha as [Ha|[<-|[]]].
        * destruct (Hb a Ha) as [Hoa Hla]. split; [exact Hoa|].
          unfold le. apply ltb_asym; [exact Hoa | exact Hv|].
          apply le_lt_trans with m; assumption.
        * split; [exact Hv | unfold le; apply ltb_irrefl; exact Hv].
      + apply IH; [exact Hr' | exact Hm | apply in_or_app; left; exact Hin|].
        intros a Ha. apply in_app_or in Ha. destruct Ha as [Ha|[<-|[]]].
        * apply Hb; exact Ha.
        * split; [exact Hv | exact E].
  Qed.

  Lemma max_spec_lemma : forall x r, Forall ok (x :: r) ->
    exists res, mathMax num ltb (x :: r) = MOk [res] /\ In res (x :: r) /\
                forall a, In a (x :: r) -> le a res.
  Proof.
    intros x r H. inversion H as [|? ? Hx Hr]; subst.
    exists (fold_left (max_step num ltb) r x). split; [reflexivity|].
    apply (fold_max_inv r x [x]); [exact Hr | exact Hx | left; reflexivity|].
    intros a [<-|[]]. split; [exact Hx | unfold le; apply ltb_irrefl; exact Hx].
  Qed.

  Lemma fold_min_inv : forall r m seen,
    Forall ok r -> ok m -> In m seen -> (forall a, In a seen -> ok a /\ le m a) ->
    let res := fold_left (min_step num ltb) r m in
    In res (seen ++ r) /\ (forall a, In a (seen ++ r) -> le res a).
  Proof.
    induction r as [|v r IH]; intros m seen Hr Hm Hin Hb; cbn [fold_left].
    - rewrite app_nil_r. split; [exact Hin | intros a Ha; apply Hb; exact Ha].
    - inversion Hr as [|? ? Hv Hr']; subst.
      replace (seen ++ v :: r) with ((seen ++ [v]) ++ r) by (rewrite <- app_assoc; reflexivity).
      unfold min_step at 2 4. destruct (ltb v m) eqn:E.
      + apply IH; [exact Hr' | exact Hv | apply in_or_app; right; left; reflexivity|].
        intros a Ha. apply in_app_or in Ha. destruct Ha as [Ha|[<-|[]]].
        * destruct (Hb a Ha) as [Hoa Hla]. split; [exact Hoa|].
          unfold le. apply ltb_asym; [exact Hv | exact Hoa|].
          apply lt_le_trans with m; assumption.
        * split; [exact Hv | unfold le; apply ltb_irrefl; exact Hv].
      + apply IH; [exact Hr' | exact Hm | apply in_or_app; left; exact Hin|].
        intros a Ha. apply in_app_or in Ha. destruct Ha as [Ha|[<-|[]]].
        * apply Hb; exact Ha.
        * split; [exact Hv | exact E].
  Qed.

  Lemma min_spec_lemma : forall x r, Forall ok (x :: r) ->
    exists res, mathMin num ltb (x :: r) = MOk [res] /\ In res (x :: r) /\
                forall a, In a (x :: r) -> le res a.
  Proof.
    intros x r H. inversion H as [|? ? Hx Hr]; subst.
    exists (fold_left (min_step num ltb) r x). split; [reflexivity|].
    apply (fold_min_inv r x [x]); [exact Hr | exact Hx | left; reflexivity|].
    intros a [<-|[]]. split; [exact Hx | unfold le; apply ltb_irrefl; exact Hx].
  Qed.

  Lemma max_min_no_args : mathMax num ltb [] = MErr /\ mathMin num ltb [] = MErr.
  Proof. split; reflexivity. Qed.

  (* ----- math.random ----- *)
  Variable toInt : num -> Z.
  Variable ofInt : Z -> num.
  Variable draw : Z -> option Z.
  (* rand.Intn(k): a value in [0,k) for k > 0, a panic otherwise *)
  Hypothesis draw_range : forall k r, draw k = Some r -> 0 <= r < k.
  Hypothesis draw_pos : forall k, 0 < k -> exists r, draw k = Some r.
  Hypothesis draw_nonpos : forall k, k <= 0 -> draw k = None.

  Lemma random_in_range_lemma : forall m n rest,
    toInt m <= toInt n ->
    exists r, mathRandom num toInt ofInt draw (m :: n :: rest) = MOk [ofInt r] /\
              toInt m <= r <= toInt n.
  Proof.
    intros m n rest H. unfold mathRandom.
    destruct (draw_pos (toInt n + 1 - toInt m)) as [r Hr]; [lia|].
    rewrite Hr. exists (r + toInt m). split; [reflexivity|].
    apply draw_range in Hr. lia.
  Qed.

  Lemma random_empty_interval_errors_lemma : forall m n rest,
    toInt n < toInt m -> mathRandom num toInt ofInt draw (m :: n :: rest) = MErr.
  Proof.
    intros m n rest H. unfold mathRandom. rewrite draw_nonpos by lia. reflexivity.
  Qed.

  Lemma random1_in_range_lemma : forall n,
    1 <= toInt n ->
    exists r, mathRandom num toInt ofInt draw [n] = MOk [ofInt r] /\ 1 <= r <= toInt n.
  Proof.
    intros n H. unfold mathRandom. destruct (draw_pos (toInt n)) as [r Hr]; [lia|].
    rewrite Hr. exists (r + 1). split; [reflexivity|]. apply draw_range in Hr. lia.
  Qed.

  Lemma random1_empty_errors_lemma : forall n,
    toInt n < 1 -> mathRandom num toInt ofInt draw [n] = MErr.
  Proof. intros n H. unfold mathRandom. rewrite draw_nonpos by lia. reflexivity. Qed.

  (* ----- thin wrappers: the oracle's specification carries over unchanged ----- *)
  Variables Floor Ceil : num -> num.
  Variable Mod : num -> num -> num.
  Variable Modf : num -> num * num.
  Variable Frexp : num -> num * Z.
  Variable Ldexp : num -> Z -> num.
  Variable is_inf : num -> bool.
  Variable zero_like : num -> num.
  Variable add : num -> num -> num.
  Variables one half : num.
  Variable absn : num -> num.
  Variable finite : num -> Prop.
  Variable integral : num -> Prop.
  Variable is_zero : num -> Prop.
  Variable same_sign : num -> num -> Prop.        (* equal sign bits *)

  Hypothesis Floor_spec : forall x, finite x ->
    integral (Floor x) /\ le (Floor x) x /\ ltb x (add (Floor x) one) = true.
  Hypothesis Ceil_spec : forall x, finite x ->
    integral (Ceil x) /\ le x (Ceil x) /\ ltb (Ceil x) (add x one) = true.
  Hypothesis Mod_spec : forall x y, finite x -> finite y -> ~ is_zero y ->
    same_sign (Mod x y) x /\ ltb (absn (Mod x y)) (absn y) = true.
  Hypothesis Modf_spec : forall x, finite x ->
    integral (fst (Modf x)) /\ add (fst (Modf x)) (snd (Modf x)) = x /\
    ltb (absn (snd (Modf x))) one = true /\ same_sign (fst (Modf x)) x /\ same_sign (snd (Modf x)) x.
  Hypothesis Frexp_spec : forall x, finite x -> ~ is_zero x ->
    Ldexp (fst (Frexp x)) (snd (Frexp x)) = x /\
    le half (absn (fst (Frexp x))) /\ ltb (absn (fst (Frexp x))) one = true.
  Hypothesis finite_not_inf : forall x, finite x -> is_inf x = false.

  Lemma floor_ceil_bracket_lemma : forall x rest, finite x ->
    (exists r, mathFloor num Floor (x :: rest) = MOk [r] /\
               integral r /\ le r x /\ ltb x (add r one) = true) /\
    (exists r, mathCeil num Ceil (x :: rest) = MOk [r] /\
               integral r /\ le x r /\ ltb r (add x one) = true).
  Proof.
    intros x rest H. split.
    - exists (Floor x). split; [reflexivity | apply Floor_spec; exact H].
    - exists (Ceil x). split; [reflexivity | apply Ceil_spec; exact H].
  Qed.

  Lemma fmod_sign_lemma : forall x y rest, finite x -> finite y -> ~ is_zero y ->
    exists r, mathFmod num Mod (x :: y :: rest) = MOk [r] /\
              same_sign r x /\ ltb (absn r) (absn y) = true.
  Proof.
    intros x y rest Hx Hy Hz. exists (Mod x y). split; [reflexivity | apply Mod_spec; assumption].
  Qed.

  Lemma modf_recompose_lemma : forall x rest, finite x ->
    exists i f, mathModf num Modf is_inf zero_like (x :: rest) = MOk [i; f] /\
                integral i /\ add i f = x /\ ltb (absn f) one = true /\ same_sign i x /\ same_sign f x.
  Proof.
    intros x rest H. exists (fst (Modf x)), (snd (Modf x)). split.
    - unfold mathModf. rewrite finite_not_inf by exact H. destruct (Modf x); reflexivity.
    - apply Modf_spec; exact H.
  Qed.

  Lemma modf_inf_lemma : forall x rest, is_inf x = true ->
    mathModf num Modf is_inf zero_like (x :: rest) = MOk [x; zero_like x].
  Proof. intros x rest H. unfold mathModf. rewrite H. reflexivity. Qed.

  Lemma frexp_recompose_lemma : forall x rest, finite x -> ~ is_zero x ->
    exists m e, mathFrexp num Frexp ofInt (x :: rest) = MOk [m; ofInt e] /\
                Ldexp m e = x /\ le half (absn m) /\ ltb (absn m) one = true.
  Proof.
    intros x rest H Hz. exists (fst (Frexp x)), (snd (Frexp x)). split.
    - unfold mathFrexp. destruct (Frexp x); reflexivity.
    - apply Frexp_spec; assumption.
  Qed.

  Lemma ldexp_spec_lemma : forall x e rest,
    mathLdexp num Ldexp toInt (x :: e :: rest) = MOk [Ldexp x (clamp_exp (toInt e))] /\
    mathLdexp num Ldexp toInt [x] = MErr /\ mathLdexp num Ldexp toInt [] = MErr.
  Proof. intros. repeat split; reflexivity. Qed.
End WrapperFacts.

(* ---------- Part 2: the dyadic reference functions, in Z ---------- *)

(* floor: for x = s * 2^e with e < 0 the result f is the integer with f <= x < f + 1 *)
Lemma ref_floor_exact neg m e : 0 < m -> e < 0 ->
  let s := sgn_m neg m in
  let f := s / 2 ^ (- e) in
  ref_floor (NFin neg m e) = of_Z f /\ f * 2 ^ (- e) <= s < (f + 1) * 2 ^ (- e).
Proof.
  intros Hm He s f. split.
  - unfold ref_floor. replace (e >=? 0) with false by lia. replace (m =? 0) with false by lia.
    reflexivity.
  - assert (0 < 2 ^ (- e)) by (apply Z.pow_pos_nonneg; lia).
    subst f. pose proof (Z.mul_div_le s (2 ^ (- e)) H).
    pose proof (Z.mul_succ_div_gt s (2 ^ (- e)) H). lia.
Qed.

Lemma ref_ceil_exact neg m e : 0 < m -> e < 0 ->
  let s := sgn_m neg m in
  let c := - ((- s) / 2 ^ (- e)) in
  (c - 1) * 2 ^ (- e) < s <= c * 2 ^ (- e) /\
  ref_ceil (NFin neg m e) = (if c =? 0 then NFin neg 0 0 else of_Z c).
Proof.
  intros Hm He s c. split.
  - assert (0 < 2 ^ (- e)) by (apply Z.pow_pos_nonneg; lia).
    subst c. pose proof (Z.mul_div_le (- s) (2 ^ (- e)) H).
    pose proof (Z.mul_succ_div_gt (- s) (2 ^ (- e)) H). lia.
  - unfold ref_ceil. replace (e >=? 0) with false by lia. replace (m =? 0) with false by lia.
    reflexivity.
Qed.

Lemma ref_floor_integral x : match x with NFin _ _ e => 0 <= e | _ => False end ->
  ref_floor x = x /\ ref_ceil x = x.
Proof.
  destruct x as [neg m e| |]; try contradiction. intros H.
  unfold ref_floor, ref_ceil. replace (e >=? 0) with true by lia. split; reflexivity.
Qed.

(* fmod: on the common exponent e0, |x| = a * 2^e0 and |y| = b * 2^e0; the result is (a mod b) * 2^e0
   with the sign of x: 0 <= a mod b < b and a - a mod b is a multiple of b *)
Lemma ref_fmod_exact s1 m1 e1 s2 m2 e2 : 0 <= m1 -> 0 < m2 ->
  let '(a, b, e0) := align m1 e1 m2 e2 in
  ref_fmod (NFin s1 m1 e1) (NFin s2 m2 e2) = NFin s1 (a mod b) e0 /\
  0 <= a mod b < b /\ (b | a - a mod b) /\
  a = m1 * 2 ^ (e1 - e0) /\ b = m2 * 2 ^ (e2 - e0) /\ e0 <= e1 /\ e0 <= e2.
Proof.
  intros H1 H2. unfold align. cbv zeta.
  set (e0 := Z.min e1 e2). set (a := m1 * 2 ^ (e1 - e0)). set (b := m2 * 2 ^ (e2 - e0)).
  assert (Hb : 0 < b).
  { subst b. apply Z.mul_pos_pos; [exact H2 | apply Z.pow_pos_nonneg; lia]. }
  split.
  - unfold ref_fmod. replace (m2 =? 0) with false by lia. unfold align. reflexivity.
  - split; [apply Z.mod_pos_bound; exact Hb|]. split.
    + exists (a / b). pose proof (Z.div_mod a b). lia.
    + repeat split; lia.
Qed.

(* modf: integral part q and fraction r * 2^e with m = q * 2^(-e) + r and 0 <= r < 2^(-e),
   both with the sign of x *)
Lemma ref_modf_exact neg m e : 0 <= m -> e < 0 ->
  let q := m / 2 ^ (- e) in
  let r := m mod 2 ^ (- e) in
  ref_modf (NFin neg m e) = (NFin neg q 0, NFin neg r e) /\
  m = q * 2 ^ (- e) + r /\ 0 <= r < 2 ^ (- e).
Proof.
  intros Hm He q r. split.
  - unfold ref_modf. replace (e >=? 0) with false by lia. reflexivity.
  - assert (0 < 2 ^ (- e)) by (apply Z.pow_pos_nonneg; lia).
    subst q r. pose proof (Z.div_mod m (2 ^ (- e))). pose proof (Z.mod_pos_bound m (2 ^ (- e)) H). lia.
Qed.

Lemma ref_modf_integral neg m e : 0 <= e ->
  ref_modf (NFin neg m e) = (NFin neg m e, NFin neg 0 0).
Proof. intros H. unfold ref_modf. replace (e >=? 0) with true by lia. reflexivity. Qed.

(* frexp: x = (m * 2^-k) * 2^(e+k) with k the bit length of m, so 1/2 <= m * 2^-k < 1 *)
Lemma ref_frexp_exact neg m e : 0 < m ->
  let k := bitlen m in
  ref_frexp (NFin neg m e) = (NFin neg m (- k), e + k) /\
  2 ^ (k - 1) <= m < 2 ^ k /\ (- k) + (e + k) = e.
Proof.
  intros Hm k. split; [|split; [|lia]].
  - unfold ref_frexp. replace (m =? 0) with false by lia. reflexivity.
  - subst k. unfold bitlen. replace (m =? 0) with false by lia.
    replace (Z.log2 m + 1 - 1) with (Z.log2 m) by lia.
    pose proof (Z.log2_spec m Hm). lia.
Qed.

Lemma ref_frexp_zero neg e : ref_frexp (NFin neg 0 e) = (NFin neg 0 e, 0).
Proof. reflexivity. Qed.
