(* Case evaluator for the C15 correspondence shards (index/bytes part). *)
From GL Require Import Common.Bytes Str.StrModel Str.FormatModel Str.MathWModel.

Inductive case :=
| CSub (s : bytes) (i j : Z) (obs : bytes)
| CSub2 (s : bytes) (i : Z) (obs : bytes)                     (* j omitted *)
| CByte (s : bytes) (oi oj : option Z) (obs : list Z)
| CFind (s p : bytes) (oinit : option Z) (obs : option (Z * Z))
| CRep (s : bytes) (n : Z) (obs : bytes)
| CReverse (s obs : bytes)
| CUpper (s obs : bytes)
| CLower (s obs : bytes)
| CLen (s : bytes) (obs : Z)
| CChar (l : list Z) (obs : bytes)
| CRepErr (s : bytes) (n : Z)          (* string.rep raised *)
| CCharErr (l : list Z)                (* string.char raised *)
| CFormat (f : bytes) (args : list farg) (obs : fres)
| CMath (op : mop) (args : list num) (obs : mres num)
| CRandom (args : list num) (obs : option Z)        (* None: the call raised *)
| CGoSide (agree : bool)
(* decided on the Go side where the implementation's yardstick (Go's math) and the definition part:
   impl = the wrapper returned what Go's math returns; spec = the definition's exact value *)
| CGoSide2 (impl_agrees spec_holds : bool).   (* a thin wrapper (pow exp log trig ...) compared with Go's math on the Go side *)

Definition pair_eqb (a b : Z * Z) := (fst a =? fst b) && (snd a =? snd b).

Definition fres_eqb (a b : fres) : bool :=
  match a, b with
  | FOk x, FOk y => beqb x y
  | FErr, FErr => true
  | _, _ => false
  end.

(* every directive of the call lies where ISO C defines printf's behaviour *)
Fixpoint items_defined (its : list item) (args : list farg) : bool :=
  match its with
  | [] => true
  | ILit _ :: r => items_defined r args
  | IBad :: _ => false
  | IDir sp :: r =>
    match args with
    | [] => true
    | a :: args' =>
      match resolve sp a with
      | Some a' => c_defined sp a' && items_defined r args'
      | None => true
      end
    end
  end.

Definition check_impl (c : case) : bool :=
  match c with
  | CSub s i j o => beqb (strSub s i j) o
  | CSub2 s i o => beqb (strSub s i (-1)) o
  | CByte s oi oj o => beqb (strByte s oi oj) o
  | CFind s p oi o => opt_eqb pair_eqb (strFindPlain s p oi) o
  (* branches, not &&: vm_compute is call by value and must not build a 2^40-fold repetition;
     the repetition of the empty string is empty (StrFacts.rep_nil) *)
  | CRep s n o =>
    if strRep_raises s n then false
    else if len s =? 0 then beqb [] o
    else beqb (strRep s n) o
  | CRepErr s n => strRep_raises s n
  | CCharErr l => negb (is_bytes l)
  | CReverse s o => beqb (strReverse s) o
  | CUpper s o => beqb (strUpper s) o
  | CLower s o => beqb (strLower s) o
  | CLen s o => strLen s =? o
  | CChar l o => is_bytes l && beqb (strChar l) o
  | CFormat f args o => fres_eqb (format true f args) o
  | CMath op args o => mres_eqb (run_math op args) o
  | CRandom args o =>
    match run_random args o, o with
    | MOk [r], Some z => num_eqb r (of_Z z)
    | MErr, None => true
    | _, _ => false
    end
  | CGoSide b => b
  | CGoSide2 i _ => i
  end.

Definition check_spec (c : case) : bool :=
  match c with
  | CSub s i j o => beqb (sub_spec s i j) o
  | CSub2 s i o => beqb (sub_spec s i (-1)) o
  | CByte s oi oj o => beqb (byte_spec s oi oj) o
  | CFind s p oi o => opt_eqb pair_eqb (find_plain_spec s p oi) o
  | CRep s n o =>
    if len s =? 0 then beqb [] o
    else if len s * n >? 67108864 then true      (* a result of that size is not carried over *)
    else beqb (rep_spec s n) o
  (* an error is acceptable only where the result could not reasonably be built (> 16 MB) *)
  | CRepErr s n => (0 <? n) && (len s * n >? 16777216)
  | CCharErr l => negb (is_bytes l)       (* bad argument (invalid value) *)
  | CReverse s o => beqb (rev s) o
  | CUpper s o => beqb (map toupper_c s) o
  | CLower s o => beqb (map tolower_c s) o
  | CLen s o => len s =? o
  | CChar l o => is_bytes l && beqb l o
  | CFormat f args o =>
    if items_defined (parse_fmt (length f) f) args then fres_eqb (format false f args) o else true
  | CMath op args o => spec_math op args o
  | CRandom args o => spec_random args o
  | CGoSide b => b
  | CGoSide2 _ sp => sp
  end.
