(* Case evaluator for the C15 correspondence shards (index/bytes part). *)
From GL Require Import Common.Bytes Str.StrModel.

Inductive case :=
| CSub (s : bytes) (i j : Z) (obs : bytes)
| CSub2 (s : bytes) (i : Z) (obs : bytes)                     (* j omitted *)
| CByte (s : bytes) (oi oj : option Z) (obs : list Z)
| CFind (s p : bytes) (oinit : option Z) (obs : option (Z * Z))
| CRep (s : bytes) (n : Z) (obs : bytes)
| CReverse (s obs : bytes)
| CUpper (s obs : bytes)
| CLower (s obs : bytes)
| CLen (s : bytes) (obs : Z)
| CChar (l : list Z) (obs : bytes).

Definition pair_eqb (a b : Z * Z) := (fst a =? fst b) && (snd a =? snd b).

Definition check_impl (c : case) : bool :=
  match c with
  | CSub s i j o => beqb (strSub s i j) o
  | CSub2 s i o => beqb (strSub s i (-1)) o
  | CByte s oi oj o => beqb (strByte s oi oj) o
  | CFind s p oi o => opt_eqb pair_eqb (strFindPlain s p oi) o
  | CRep s n o => beqb (strRep s n) o
  | CReverse s o => beqb (strReverse s) o
  | CUpper s o => beqb (strUpper s) o
  | CLower s o => beqb (strLower s) o
  | CLen s o => strLen s =? o
  | CChar l o => beqb (strChar l) o
  end.

Definition check_spec (c : case) : bool :=
  match c with
  | CSub s i j o => beqb (sub_spec s i j) o
  | CSub2 s i o => beqb (sub_spec s i (-1)) o
  | CByte s oi oj o => beqb (byte_spec s oi oj) o
  | CFind s p oi o => opt_eqb pair_eqb (find_plain_spec s p oi) o
  | CRep s n o => beqb (rep_spec s n) o
  | CReverse s o => beqb (rev s) o
  | CUpper s o => beqb (map toupper_c s) o
  | CLower s o => beqb (map tolower_c s) o
  | CLen s o => len s =? o
  | CChar l o => beqb l o
  end.
