From GL Require Import Common.Bytes Common.BytesFacts Str.StrModel.

Ltac zb := repeat match goal with
  | H : (_ <? _) = true |- _ => apply Z.ltb_lt in H
  | H : (_ <? _) = false |- _ => apply Z.ltb_ge in H
  | H : (_ <=? _) = true |- _ => apply Z.leb_le in H
  | H : (_ <=? _) = false |- _ => apply Z.leb_gt in H
  | H : (_ >? _) = true |- _ => rewrite Z.gtb_ltb in H
  | H : (_ >? _) = false |- _ => rewrite Z.gtb_ltb in H
  | H : (_ >=? _) = true |- _ => rewrite Z.geb_leb in H
  | H : (_ >=? _) = false |- _ => rewrite Z.geb_leb in H
  | H : (_ =? _) = true |- _ => apply Z.eqb_eq in H
  | H : (_ =? _) = false |- _ => apply Z.eqb_neq in H
  end.

(* characterisation of idx, hiding the definition *)
Lemma idx_start l i : 0 <= l ->
  idx l i true = Z.max 0 (if i =? 0 then 0 else if i <? 0 then l + i else i - 1).
Proof.
  intros Hl. unfold idx. cbn [andb negb].
  destruct (i =? 0) eqn:E0; zb; cbn [negb].
  - subst. cbn. lia.
  - destruct (i - 1 <? 0) eqn:E1, (i <? 0) eqn:E2; zb; lia.
Qed.

Lemma idx_end l i : 0 <= l ->
  idx l i false = Z.min l (posrelat i l).
Proof.
  intros Hl. unfold idx, posrelat. cbn [andb negb].
  destruct (i <? 0) eqn:E1; zb.
  - destruct (Z.max 0 (l + i + 1) >? l) eqn:E2, (i + l + 1 >=? 0) eqn:E3; zb; lia.
  - destruct (Z.max 0 i >? l) eqn:E2, (i >=? 0) eqn:E3; zb; lia.
Qed.

Lemma posrelat_nonneg p l : 0 <= posrelat p l.
Proof. unfold posrelat. destruct (p <? 0) eqn:E; zb.
  - destruct (p + l + 1 >=? 0) eqn:F; zb; lia.
  - destruct (p >=? 0) eqn:F; zb; lia. Qed.

Lemma posrelat_idem p l : 0 <= p -> posrelat p l = p.
Proof. intros H. unfold posrelat. destruct (p <? 0) eqn:E; zb; [lia|].
  destruct (p >=? 0) eqn:F; zb; [reflexivity|lia]. Qed.

Lemma idx_start_posrelat l i : 0 <= l ->
  idx l i true = Z.max 1 (posrelat i l) - 1.
Proof.
  intros Hl. rewrite idx_start by assumption. unfold posrelat.
  destruct (i =? 0) eqn:E0; zb.
  - subst. cbn. lia.
  - destruct (i <? 0) eqn:E1; zb.
    + destruct (i + l + 1 >=? 0) eqn:E2; zb; lia.
    + destruct (i >=? 0) eqn:E2; zb; lia.
Qed.

Theorem sub_correct_lemma : forall s i j, strSub s i j = sub_spec s i j.
Proof.
  intros s i j. unfold strSub, sub_spec.
  pose proof (len_nonneg s) as Hl.
  rewrite idx_start_posrelat, idx_end by assumption.
  set (st := Z.max 1 (posrelat i (len s))).
  set (en := Z.min (len s) (posrelat j (len s))).
  destruct (st <=? en) eqn:E; zb.
  - destruct ((st - 1 >=? len s) || (en <? st - 1)) eqn:F; [|reflexivity].
    apply orb_true_iff in F as [F|F]; zb; lia.
  - destruct ((st - 1 >=? len s) || (en <? st - 1)) eqn:F; [reflexivity|].
    apply orb_false_iff in F as [F1 F2]; zb.
    apply slice_empty. lia.
Qed.

Theorem byte_correct_lemma : forall s oi oj, strByte s oi oj = byte_spec s oi oj.
Proof.
  intros s oi oj. unfold strByte, byte_spec.
  pose proof (len_nonneg s) as Hl.
  set (i := match oi with Some i => i | None => 1 end).
  rewrite idx_start_posrelat, idx_end by assumption.
  pose proof (posrelat_nonneg i (len s)) as Hp.
  assert (Hj : posrelat (match oj with Some j => j | None => i end) (len s)
             = posrelat (match oj with Some j => j | None => posrelat i (len s) end) (len s)).
  { destruct oj as [j|]; [reflexivity|]. symmetry. apply posrelat_idem. exact Hp. }
  rewrite Hj.
  set (pe := posrelat (match oj with Some j => j | None => posrelat i (len s) end) (len s)).
  assert (Hpe : 0 <= pe) by apply posrelat_nonneg.
  set (pi := posrelat i (len s)) in *.
  replace (if pi <=? 0 then 1 else pi) with (Z.max 1 pi)
    by (destruct (pi <=? 0) eqn:E; zb; lia).
  replace (if pe >? len s then len s else pe) with (Z.min (len s) pe)
    by (destruct (pe >? len s) eqn:E; zb; lia).
  set (st := Z.max 1 pi). set (en := Z.min (len s) pe).
  destruct (st >? en) eqn:E; zb.
  - destruct ((st - 1 >=? len s) || (en <=? st - 1)) eqn:F; [reflexivity|].
    apply orb_false_iff in F as [F1 F2]; zb. lia.
  - destruct ((st - 1 >=? len s) || (en <=? st - 1)) eqn:F; [|reflexivity].
    apply orb_true_iff in F as [F|F]; zb; lia.
Qed.

Lemma index_from_nil_pat s k : index_from [] s k = Some k.
Proof. destruct s; reflexivity. Qed.

Theorem find_plain_correct_lemma : forall s p oi, strFindPlain s p oi = find_plain_spec s p oi.
Proof.
  intros s p oi. unfold strFindPlain, find_plain_spec.
  pose proof (len_nonneg s) as Hl.
  set (i := match oi with Some i => i | None => 1 end).
  rewrite idx_start_posrelat by assumption.
  pose proof (posrelat_nonneg i (len s)) as Hp.
  set (pi := posrelat i (len s)) in *.
  assert (Hinit : (if Z.max 1 pi - 1 >? len s then len s else Z.max 1 pi - 1)
                = (if pi - 1 <? 0 then 0 else if pi - 1 >? len s then len s else pi - 1)).
  { destruct (pi - 1 <? 0) eqn:E; zb.
    - destruct (Z.max 1 pi - 1 >? len s) eqn:F; zb; lia.
    - replace (Z.max 1 pi - 1) with (pi - 1) by lia. reflexivity. }
  rewrite Hinit.
  set (init := if pi - 1 <? 0 then 0 else if pi - 1 >? len s then len s else pi - 1).
  destruct p as [|c p]; [|reflexivity].
  rewrite index_from_nil_pat. change (len (@nil Z)) with 0. f_equal. f_equal; lia.
Qed.

Theorem rep_correct_lemma : forall s n, strRep s n = rep_spec s n.
Proof.
  intros s n. unfold strRep, rep_spec.
  destruct (n <? 0) eqn:E, (n <=? 0) eqn:F; zb; try reflexivity; try lia.
  replace n with 0 by lia. reflexivity.
Qed.

Lemma repeat_app_len {A} (s : list A) n : len (repeat_app s n) = Z.of_nat n * len s.
Proof. induction n as [|n IH]; [reflexivity|]. cbn [repeat_app]. rewrite len_app, IH. lia. Qed.

Theorem rep_len_lemma : forall s n, len (strRep s n) = Z.max 0 n * len s.
Proof.
  intros s n. unfold strRep. destruct (n <? 0) eqn:E; zb.
  - replace (Z.max 0 n) with 0 by lia. reflexivity.
  - rewrite repeat_app_len. lia.
Qed.

Theorem reverse_involutive_lemma : forall s, strReverse (strReverse s) = s.
Proof. intros; apply rev_involutive. Qed.

Theorem reverse_nth_lemma : forall s k, 0 <= k < len s ->
  zth (strReverse s) k = zth s (len s - 1 - k).
Proof.
  intros s k Hk. unfold zth, strReverse, len in *.
  destruct (k <? 0) eqn:E1; zb; [lia|].
  destruct (Z.of_nat (length s) - 1 - k <? 0) eqn:E2; zb; [lia|].
  rewrite !nth_error_nth' with (d := 0) by (try rewrite rev_length; lia).
  f_equal. rewrite rev_nth by lia. f_equal. lia.
Qed.

Theorem upper_lower_len_lemma : forall s, len (strUpper s) = len s /\ len (strLower s) = len s.
Proof. intros; unfold strUpper, strLower, len; rewrite !map_length; auto. Qed.

Theorem upper_high_bytes_lemma : forall b, 128 <= b -> toupper_c b = b /\ tolower_c b = b.
Proof.
  intros b Hb; unfold toupper_c, tolower_c.
  destruct ((97 <=? b) && (b <=? 122)) eqn:E; [apply andb_true_iff in E as [? ?]; zb; lia|].
  destruct ((65 <=? b) && (b <=? 90)) eqn:F; [apply andb_true_iff in F as [? ?]; zb; lia|].
  auto.
Qed.

Theorem upper_idempotent_lemma : forall s, strUpper (strUpper s) = strUpper s.
Proof.
  intros s; unfold strUpper; rewrite map_map; apply map_ext; intros b.
  unfold toupper_c.
  destruct ((97 <=? b) && (b <=? 122)) eqn:E; [|rewrite E; reflexivity].
  apply andb_true_iff in E as [? ?]; zb.
  destruct ((97 <=? b - 32) && (b - 32 <=? 122)) eqn:F; [|reflexivity].
  apply andb_true_iff in F as [? ?]; zb; lia.
Qed.

Theorem char_byte_roundtrip_lemma : forall l, is_bytes l = true ->
  strByte (strChar l) (Some 1) (Some (-1)) = l.
Proof.
  intros l Hl.
  assert (Hc : strChar l = l).
  { unfold strChar. induction l as [|c l IH]; [reflexivity|].
    simpl in Hl. apply andb_true_iff in Hl as [Hc Hl]. simpl. rewrite IH by assumption.
    unfold is_byte in Hc. apply andb_true_iff in Hc as [? ?]; zb.
    rewrite Z.mod_small by lia. reflexivity. }
  rewrite Hc, byte_correct_lemma. unfold byte_spec, posrelat.
  pose proof (len_nonneg l) as Hn. cbn [Z.ltb]. 
  destruct (1 <? 0) eqn:E1; zb; [lia|]. destruct (1 >=? 0) eqn:E2; zb; [|lia].
  destruct (-1 <? 0) eqn:E3; zb; [|lia].
  replace (-1 + len l + 1) with (len l) by lia.
  destruct (len l >=? 0) eqn:E4; zb; [|lia].
  destruct (1 <=? 0) eqn:E5; zb; [lia|].
  destruct (len l >? len l) eqn:E6; zb; [lia|].
  destruct (1 >? len l) eqn:E7; zb.
  - destruct l; [reflexivity|]. unfold len in *. simpl length in *. lia.
  - replace (1 - 1) with 0 by lia. apply slice_full.
Qed.

Lemma rep_nil n : strRep [] n = [] /\ rep_spec [] n = [].
Proof.
  unfold strRep, rep_spec. assert (H : forall k, repeat_app (@nil Z) k = []) by (induction k; auto).
  split; [destruct (n <? 0) | destruct (n <=? 0)]; auto.
Qed.
