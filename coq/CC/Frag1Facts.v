(* CC: front half of the compiler theorem on the fragment F1 (Frag1Sem.in_frag1): the code
   compileChunk emits for multi-target local declarations and multiple assignments to locals has
   the register-file semantics prun1. Built on the expression lemmas of CompFacts.v. *)
From Coq Require Import Floats Lia ZifyBool SpecFloat.
From GL Require Import Common.Bytes Lua.Syntax Lua.Num Lua.Values Lua.Names Lua.Eval.
From GL Require Import VMX.Machine CC.CompModel CC.FragSem CC.CompFactsVM CC.CompFacts CC.Frag1Sem.
From GL Require VM.OpcodeFacts.

(* name = bytes: make lia see one [len] *)
Ltac nlia := change name with bytes in *; lia.

(* ---------- compileExpr looks at its context only through savereg ---------- *)
Lemma compileExpr_ec : forall e ln reg ec ec', savereg ec reg = savereg ec' reg ->
  forall s, compileExpr ln reg e ec s = compileExpr ln reg e ec' s.
Proof.
  induction e; intros ln0 reg0 ec0 ec1 H0 st; cbn [compileExpr]; rewrite ?H0; try reflexivity.
  apply IHe; assumption.
Qed.

Lemma compileExpr_none : forall e ln reg v s,
  compileExpr ln reg e (mkEc EcNone reg v) s = compileExpr ln reg e (ecnone 0) s.
Proof. intros. apply compileExpr_ec. reflexivity. Qed.

Lemma compileExpr_ecnone : forall e ln reg v s,
  compileExpr ln reg e (ecnone v) s = compileExpr ln reg e (ecnone 0) s.
Proof. intros. apply compileExpr_ec. reflexivity. Qed.

Lemma cra_extra_crs : forall es ln reg s,
  cra_extra ln reg es s = match crs_exprs ln reg es s with Some (_, s') => Some (tt, s') | None => None end.
Proof.
  induction es as [|e r IH]; intros ln reg s; cbn [cra_extra crs_exprs]; [reflexivity|].
  unfold cbind. rewrite compileExpr_none.
  destruct (compileExpr ln reg e (ecnone 0) s) as [[inc s1]|]; [apply IH|reflexivity].
Qed.

Lemma car_extra_crs : forall es ln reg s,
  car_extra ln reg es s = match crs_exprs ln reg es s with Some (_, s') => Some (tt, s') | None => None end.
Proof.
  induction es as [|e r IH]; intros ln reg s; cbn [car_extra crs_exprs]; [reflexivity|].
  unfold cbind. rewrite compileExpr_ecnone.
  destruct (compileExpr ln reg e (ecnone 0) s) as [[inc s1]|]; [apply IH|reflexivity].
Qed.

(* ---------- LOADNIL over a range ---------- *)
Lemma isem_loadnil_range : forall K a b rf, 0 <= a < 256 -> 0 <= b < 512 ->
  isem_inst K (opCreateABC (op_code OP_LOADNIL) a b 0) rf = okres (setr_range rf a (Z.to_nat (b - a + 1))).
Proof.
  intros K a b rf Ha Hb. destruct (decodeABC OP_LOADNIL a b 0 Ha Hb ltac:(lia)) as [E0 [E1 [E2 E3]]].
  unfold isem_inst. rewrite E0, E1, E2. destruct (setr_range _ _ _); reflexivity.
Qed.

Lemma setr_range_post : forall n rf a, 0 <= a <= len rf -> rf_simple rf ->
  exists rf', setr_range rf a n = Some rf' /\
    (forall i, a <= i < a + Z.of_nat n -> zth rf' i = Some VNil) /\
    (forall i, 0 <= i < a -> zth rf' i = zth rf i) /\
    a + Z.of_nat n <= len rf' /\ rf_simple rf'.
Proof.
  induction n as [|k IH]; intros rf a Ha Hs; cbn [setr_range].
  - exists rf. split; [reflexivity|]. split; [intros i Hi; lia|]. split; [auto|]. split; [lia|assumption].
  - destruct (setr_post rf a VNil Ha) as [rf1 [E1 [E2 [E3 E4]]]]. rewrite E1.
    pose proof (zth_range _ _ _ _ E2) as Hr1.
    assert (Hs1 : rf_simple rf1) by (exact (setr_simple rf a VNil rf1 Hs eq_refl E1)).
    destruct (IH rf1 (a + 1) ltac:(lia) Hs1) as [rf' [F1 [F2 [F3 [F4 F5]]]]].
    exists rf'. split; [assumption|]. split.
    { intros i Hi. destruct (Z.eq_dec i a) as [->|Hne].
      - rewrite F3 by lia. assumption.
      - apply F2. lia. }
    split; [intros i Hi; rewrite F3 by lia; apply E4; lia|]. split; [lia|assumption].
Qed.

Lemma zth_cons_0 : forall A (x : A) l, zth (x :: l) 0 = Some x.
Proof. reflexivity. Qed.

Lemma zth_cons_pos : forall A (x : A) l i, 0 < i -> zth (x :: l) i = zth l (i - 1).
Proof.
  intros A x l i Hi. pose proof (zth_cons_succ A x l (i - 1) ltac:(lia)) as H.
  replace (1 + (i - 1)) with i in H by lia. exact H.
Qed.

Lemma adjust_nil_zth : forall n i, 0 <= i < Z.of_nat n -> zth (adjust n []) i = Some VNil.
Proof.
  induction n as [|k IH]; intros i Hi; [lia|]. cbn [adjust].
  destruct (Z.eq_dec i 0) as [->|Hne]; [reflexivity|].
  rewrite zth_cons_pos by lia. apply IH. lia.
Qed.

Lemma adjust_length : forall n vs, length (adjust n vs) = n.
Proof. induction n; intros vs; cbn [adjust]; [reflexivity|]. destruct vs; cbn [length]; rewrite IHn; reflexivity. Qed.

(* ---------- n registers filled from an expression list ---------- *)
(* the code leaves the first n values of the list (nil padded) in reg .. reg+n-1, evaluates every
   expression of the list in order, and keeps the registers below reg *)
Definition fill_concl (locals : list name) (ln reg : Z) (n : nat) (es : list expr) (s s' : cstate) : Prop :=
  cs_locals s' = locals /\ cs_regtop s' = len locals /\ len (cs_consts s') <= 262144 /\
  prefix_of (cs_consts s) (cs_consts s') /\
  exists seg, cs_code s' = seg ++ cs_code s /\ Forall u32 seg /\
    forall K, prefix_of (cs_consts s') K -> forall rf, reg <= len rf -> rf_simple rf ->
      match pevr_list (vlook locals rf) es with
      | inr vs => exists rf', isem_okseq K (rev seg) rf = Some rf' /\
                    (forall i, 0 <= i < Z.of_nat n -> zth rf' (reg + i) = zth (adjust n vs) i) /\
                    reg + Z.of_nat n <= len rf' /\
                    (forall i, 0 <= i < reg -> zth rf' i = zth rf i) /\ rf_simple rf'
      | inl r => forall rest, isem_code K (rev seg ++ rest) rf = stop_cres ln r
      end.

Lemma fill_step : forall s sA s' locals ln reg k e r,
  expr_ok s sA locals ln reg e -> fill_concl locals ln (reg + 1) k r sA s' ->
  0 <= reg -> len locals <= reg ->
  fill_concl locals ln reg (S k) (e :: r) s s'.
Proof.
  intros s sA s' locals ln reg k e r [A1 [A2 [A3 [A4 [segA [A5 [A6 [A7 A8]]]]]]]]
         [B1 [B2 [B3 [B4 [segB [B5 [B6 B7]]]]]]] Hr Hl.
  unfold fill_concl. split; [assumption|]. split; [assumption|]. split; [assumption|].
  split; [eapply prefix_trans; eassumption|].
  exists (segB ++ segA). split; [rewrite B5, A5, app_assoc; reflexivity|].
  split; [apply Forall_app; split; [assumption|eapply wl_u32; eassumption]|].
  intros K HK rf Hlen Hs. rewrite rev_app_distr.
  assert (HKA : prefix_of (cs_consts sA) K) by (eapply prefix_trans; eassumption).
  specialize (A8 K HKA rf Hlen Hs). cbn [pevr_list].
  destruct (pevr (vlook locals rf) e) as [v| |] eqn:Ee.
  2:{ intro rest. rewrite <- app_assoc. apply A8. }
  2:{ intro rest. rewrite <- app_assoc. apply A8. }
  destruct A8 as [rfA [E1 [E2 [E3 [E4 E5]]]]].
  assert (Hext : forall y, vlook locals rfA y = vlook locals rf y) by (apply vlook_ext with (reg := reg); assumption).
  pose proof (zth_range _ _ _ _ E2) as HrA.
  specialize (B7 K HK rfA ltac:(lia) E5). rewrite (pevr_list_ext _ _ r Hext) in B7.
  destruct (pevr_list (vlook locals rf) r) as [x|vs] eqn:Es.
  { intro rest. rewrite <- app_assoc. rewrite (isem_code_app _ _ _ _ _ E1). apply B7. }
  destruct B7 as [rfB [F1 [F2 [F3 [F5 F6]]]]].
  exists rfB. split; [rewrite isem_okseq_app, E1; assumption|].
  split.
  { intros i Hi. cbn [adjust]. destruct (Z.eq_dec i 0) as [->|Hne].
    - rewrite Z.add_0_r. rewrite F5 by lia. rewrite E2. reflexivity.
    - replace (reg + i) with (reg + 1 + (i - 1)) by lia. rewrite F2 by lia.
      rewrite zth_cons_pos by lia. reflexivity. }
  split; [lia|].
  split; [intros i Hi; rewrite F5 by lia; apply E4; assumption|assumption].
Qed.

Lemma fill_nil_pad : forall s s' locals ln reg k,
  fill_concl locals ln reg (S k) [ENil] s s' -> fill_concl locals ln reg (S k) [] s s'.
Proof.
  intros s s' locals ln reg k [B1 [B2 [B3 [B4 [seg [B5 [B6 B7]]]]]]].
  unfold fill_concl. repeat (split; [assumption|]). exists seg. split; [assumption|]. split; [assumption|].
  intros K HK rf Hlen Hs. specialize (B7 K HK rf Hlen Hs). cbn [pevr_list pevr] in B7 |- *.
  cbn [adjust] in B7 |- *. exact B7.
Qed.

(* the extra expressions: evaluated, nothing kept *)
Lemma extras_fill : forall es locals ln reg s reg' s',
  forallb (expr_frag locals) es = true ->
  (forall e, In e es -> reg + len es + edepth e <= 250) ->
  cs_locals s = locals -> cs_regtop s = len locals -> len locals <= reg -> len locals <= 200 ->
  len (cs_consts s) <= 262144 ->
  crs_exprs ln reg es s = Some (reg', s') ->
  fill_concl locals ln reg 0 es s s'.
Proof.
  intros es locals ln reg s reg' s' Hf Hd H1 H2 Hl Hloc Hk Cr.
  pose proof (len_nonneg _ locals) as Hnn. pose proof (len_nonneg _ es) as Hne.
  assert (Hd' : forall e, In e es -> reg + len es + edepth e < 256) by (intros e Hin; specialize (Hd e Hin); lia).
  destruct (crs_ok es locals ln reg s reg' s' Hf Hd' H1 H2 Hl ltac:(lia) ltac:(lia) Hk Cr)
    as [B0 [B1 [B2 [B3 [B4 [seg [B5 [B6 B7]]]]]]]].
  unfold fill_concl. repeat (split; [assumption|]). exists seg. split; [assumption|].
  split; [eapply wl_u32; eassumption|].
  intros K HK rf Hlen Hs. specialize (B7 K HK rf Hlen Hs).
  destruct (pevr_list (vlook locals rf) es) as [x|vs]; [exact B7|].
  destruct B7 as [rf' [F1 [F2 [F3 [F4 [F5 F6]]]]]].
  exists rf'. split; [assumption|]. split; [intros i Hi; lia|]. split; [lia|]. split; assumption.
Qed.

(* ---------- compileRegAssignment ---------- *)
Lemma cra_unfold_cons : forall ln reg k e r s,
  compileRegAssignment ln reg (S k) (e :: r) s =
  match compileExpr ln reg e (mkEc EcLocal reg 0) s with
  | Some (_, s1) => compileRegAssignment ln (reg + 1) k r s1
  | None => None
  end.
Proof.
  intros. unfold compileRegAssignment. cbn [cra_assigned]. unfold cbind.
  destruct (compileExpr ln reg e (mkEc EcLocal reg 0) s) as [[? ?]|]; reflexivity.
Qed.

Lemma cra_unfold_O : forall ln reg es s, compileRegAssignment ln reg 0 es s = cra_extra ln reg es s.
Proof. intros. unfold compileRegAssignment. cbn [cra_assigned]. unfold cbind, cret. reflexivity. Qed.

Lemma savereg_local : forall reg, savereg (mkEc EcLocal reg 0) reg = reg.
Proof. intro reg. unfold savereg. cbn [ec_reg ec_type]. destruct (reg =? regNotDefined); reflexivity. Qed.

Lemma cra_ok : forall n es locals ln reg s u s',
  forallb (expr_frag locals) es = true ->
  (forall e, In e es -> reg + len es + edepth e <= 250) ->
  reg + Z.of_nat n <= 250 ->
  cs_locals s = locals -> cs_regtop s = len locals -> len locals <= reg -> len locals <= 200 ->
  len (cs_consts s) <= 262144 ->
  compileRegAssignment ln reg n es s = Some (u, s') ->
  fill_concl locals ln reg n es s s'.
Proof.
  induction n as [|k IH]; intros es locals ln reg s u s' Hf Hd Hn H1 H2 Hl Hloc Hk Hc;
    pose proof (len_nonneg _ locals) as Hnn.
  - rewrite cra_unfold_O, cra_extra_crs in Hc.
    destruct (crs_exprs ln reg es s) as [[reg' s1]|] eqn:Cr; [|discriminate]. inversion Hc; subst s1.
    eapply extras_fill; eassumption.
  - destruct es as [|e r].
    + unfold compileRegAssignment in Hc. cbn [cra_assigned] in Hc. unfold cbind, cret, addABC, add in Hc.
      cbn [cra_extra] in Hc. unfold cret in Hc. inversion Hc; subst s'. clear Hc.
      set (w := opCreateABC (op_code OP_LOADNIL) reg (reg + Z.of_nat k) 0).
      unfold fill_concl. cbn [cs_locals cs_regtop cs_consts cs_code].
      split; [assumption|]. split; [assumption|]. split; [assumption|]. split; [apply prefix_refl|].
      exists [(w, ln)]. split; [reflexivity|].
      split; [constructor; [apply VM.OpcodeFacts.createABC_range|constructor]|].
      intros K HK rf Hlen Hs. cbn [pevr_list].
      destruct (setr_range_post (S k) rf reg ltac:(lia) Hs) as [rf' [E1 [E2 [E3 [E4 E5]]]]].
      exists rf'. split.
      { cbn [rev app isem_okseq]. unfold w. rewrite isem_loadnil_range by lia.
        replace (reg + Z.of_nat k - reg + 1) with (Z.of_nat (S k)) by lia. rewrite Nat2Z.id, E1. reflexivity. }
      split; [intros i Hi; rewrite E2 by lia; rewrite adjust_nil_zth by lia; reflexivity|].
      split; [assumption|]. split; assumption.
    + rewrite cra_unfold_cons in Hc.
      destruct (compileExpr ln reg e (mkEc EcLocal reg 0) s) as [[inc sA]|] eqn:Ce; [|discriminate].
      cbn [forallb] in Hf. apply andb_true_iff in Hf. destruct Hf as [Hfe Hfr].
      assert (Hle : len (e :: r) = 1 + len r) by (unfold len; cbn [length]; lia).
      pose proof (len_nonneg _ r) as Hnr.
      assert (Hde : reg + edepth e < 256) by (specialize (Hd e (or_introl eq_refl)); lia).
      destruct (compileExpr_ok e locals ln reg _ s inc sA Hfe H1 H2 Hl ltac:(lia) Hde ltac:(lia) (savereg_local reg) Hk Ce)
        as [Hi Hok].
      pose proof Hok as [A1 [A2 [A3 _]]].
      assert (Hd' : forall e0, In e0 r -> reg + 1 + len r + edepth e0 <= 250).
      { intros e0 Hin. specialize (Hd e0 (or_intror Hin)). lia. }
      pose proof (IH r locals ln (reg + 1) sA u s' Hfr Hd' ltac:(lia) A1 A2 ltac:(lia) Hloc A3 Hc) as HB.
      eapply fill_step; try eassumption; lia.
Qed.

(* ---------- compileAssignStmtRight ---------- *)
Definition car_all (ln reg : Z) (n : nat) (es : list expr) : CM Z :=
  cdo r <- car_names ln reg n es;
  let '(reg', rest) := r in
  cdo _ <- car_extra ln reg' rest; cret reg'.

Lemma car_unfold_O : forall ln reg es s,
  car_all ln reg 0 es s = match car_extra ln reg es s with Some (_, s') => Some (reg, s') | None => None end.
Proof. intros. unfold car_all. cbn [car_names]. unfold cbind, cret. destruct (car_extra ln reg es s) as [[? ?]|]; reflexivity. Qed.

Lemma car_unfold_S : forall ln reg k es s,
  car_all ln reg (S k) es s =
  match compileExpr ln reg (match es with e :: _ => e | [] => ENil end) (mkEc EcLocal regNotDefined 0) s with
  | Some (inc, s1) => car_all ln (reg + inc) k (tl es) s1
  | None => None
  end.
Proof.
  intros. unfold car_all. cbn [car_names]. unfold cbind.
  destruct (compileExpr ln reg (match es with e :: _ => e | [] => ENil end) (mkEc EcLocal regNotDefined 0) s) as [[? ?]|]; reflexivity.
Qed.

Lemma car_ok : forall n es locals ln reg s reg' s',
  forallb (expr_frag locals) es = true ->
  (forall e, In e es -> reg + len es + edepth e <= 250) ->
  reg + Z.of_nat n <= 250 ->
  cs_locals s = locals -> cs_regtop s = len locals -> len locals <= reg -> len locals <= 200 ->
  len (cs_consts s) <= 262144 ->
  car_all ln reg n es s = Some (reg', s') ->
  reg' = reg + Z.of_nat n /\ fill_concl locals ln reg n es s s'.
Proof.
  induction n as [|k IH]; intros es locals ln reg s reg' s' Hf Hd Hn H1 H2 Hl Hloc Hk Hc;
    pose proof (len_nonneg _ locals) as Hnn.
  - rewrite car_unfold_O, car_extra_crs in Hc.
    destruct (crs_exprs ln reg es s) as [[reg1 s1]|] eqn:Cr; [|discriminate]. inversion Hc; subst s1 reg'.
    split; [lia|]. eapply extras_fill; eassumption.
  - rewrite car_unfold_S in Hc.
    destruct es as [|e r].
    + destruct (compileExpr ln reg ENil (mkEc EcLocal regNotDefined 0) s) as [[inc sA]|] eqn:Ce; [|discriminate].
      destruct (compileExpr_ok ENil locals ln reg (mkEc EcLocal regNotDefined 0) s inc sA eq_refl H1 H2 Hl ltac:(lia) ltac:(cbn [edepth]; lia) ltac:(lia) eq_refl Hk Ce)
        as [Hi Hok]. subst inc.
      pose proof Hok as [A1 [A2 [A3 _]]]. cbn [tl] in Hc.
      destruct (IH [] locals ln (reg + 1) sA reg' s' eq_refl ltac:(intros e0 []) ltac:(lia) A1 A2 ltac:(lia) Hloc A3 Hc) as [Hr' HB].
      split; [lia|]. apply fill_nil_pad. eapply fill_step; try eassumption; lia.
    + destruct (compileExpr ln reg e (mkEc EcLocal regNotDefined 0) s) as [[inc sA]|] eqn:Ce; [|discriminate].
      cbn [forallb] in Hf. apply andb_true_iff in Hf. destruct Hf as [Hfe Hfr].
      assert (Hle : len (e :: r) = 1 + len r) by (unfold len; cbn [length]; lia).
      pose proof (len_nonneg _ r) as Hnr.
      assert (Hde : reg + edepth e < 256) by (specialize (Hd e (or_introl eq_refl)); lia).
      destruct (compileExpr_ok e locals ln reg (mkEc EcLocal regNotDefined 0) s inc sA Hfe H1 H2 Hl ltac:(lia) Hde ltac:(lia) eq_refl Hk Ce)
        as [Hi Hok]. subst inc.
      pose proof Hok as [A1 [A2 [A3 _]]]. cbn [tl] in Hc.
      assert (Hd' : forall e0, In e0 r -> reg + 1 + len r + edepth e0 <= 250).
      { intros e0 Hin. specialize (Hd e0 (or_intror Hin)). lia. }
      destruct (IH r locals ln (reg + 1) sA reg' s' Hfr Hd' ltac:(lia) A1 A2 ltac:(lia) Hloc A3 Hc) as [Hr' HB].
      split; [lia|]. eapply fill_step; try eassumption; lia.
Qed.

(* ---------- list facts ---------- *)
Lemma nth_error_rev : forall A (l : list A) j, (j < length l)%nat ->
  nth_error (rev l) j = nth_error l (length l - 1 - j).
Proof.
  induction l as [|a l IH]; intros j Hj; cbn [length] in Hj; [lia|]. cbn [rev length].
  destruct (Nat.eq_dec j (length l)) as [->|Hne].
  - rewrite nth_error_app2 by (rewrite rev_length; lia). rewrite rev_length.
    replace (length l - length l)%nat with 0%nat by lia.
    replace (S (length l) - 1 - length l)%nat with 0%nat by lia. reflexivity.
  - rewrite nth_error_app1 by (rewrite rev_length; lia). rewrite IH by lia.
    replace (S (length l) - 1 - j)%nat with (S (length l - 1 - j)) by lia. reflexivity.
Qed.

Lemma zth_rev : forall A (l : list A) j, 0 <= j < len l -> zth (rev l) j = zth l (len l - 1 - j).
Proof.
  intros A l j Hj. unfold zth, len in *.
  replace (j <? 0) with false by lia. replace (Z.of_nat (length l) - 1 - j <? 0) with false by lia.
  rewrite nth_error_rev by lia. f_equal. lia.
Qed.

Lemma combine_snoc : forall A B (a : list A) (b : list B) x y, length a = length b ->
  combine (a ++ [x]) (b ++ [y]) = combine a b ++ [(x, y)].
Proof.
  induction a as [|a0 a IH]; intros b x y H; destruct b as [|b0 b]; cbn [length] in H; try discriminate; [reflexivity|].
  cbn [app combine]. f_equal. apply IH. lia.
Qed.

Lemma rev_combine : forall A B (a : list A) (b : list B), length a = length b ->
  rev (combine a b) = combine (rev a) (rev b).
Proof.
  induction a as [|a0 a IH]; intros b H; destruct b as [|b0 b]; cbn [length] in H; try discriminate; [reflexivity|].
  cbn [combine rev]. rewrite IH by lia. rewrite combine_snoc by (rewrite !rev_length; lia). reflexivity.
Qed.

(* ---------- environments ---------- *)
Lemma env_rel_ext : forall rho locals rf rf',
  env_rel rho locals rf -> (forall i, 0 <= i < len locals -> zth rf' i = zth rf i) -> len locals <= len rf' ->
  env_rel rho locals rf'.
Proof.
  intros rho locals rf rf' [H Hl] Hz Hl'. split; [|assumption].
  intro x. rewrite H. symmetry. apply (vlook_ext locals rf rf' (len locals)); [lia|assumption].
Qed.

Lemma env_push_list : forall xs ws rho locals rf rf',
  length xs = length ws ->
  env_rel rho locals rf -> (forall i, 0 <= i < len locals -> zth rf' i = zth rf i) ->
  (forall i, 0 <= i < len ws -> zth rf' (len locals + i) = zth ws i) ->
  len locals + len ws <= len rf' ->
  env_rel (rev (combine xs ws) ++ rho) (locals ++ xs) rf'.
Proof.
  induction xs as [|x xs IH]; intros ws rho locals rf rf' Hlen Henv Hlow Hv Hb;
    destruct ws as [|w ws]; cbn [length] in Hlen; try discriminate.
  - cbn [combine rev app]. rewrite app_nil_r. eapply env_rel_ext; try eassumption.
    unfold len in Hb. cbn [length] in Hb. unfold len. lia.
  - assert (Hlw : len (w :: ws) = 1 + len ws) by (unfold len; cbn [length]; lia).
    pose proof (len_nonneg _ ws) as Hnw.
    cbn [combine rev]. rewrite <- app_assoc. cbn [app].
    replace (locals ++ x :: xs) with ((locals ++ [x]) ++ xs) by (rewrite <- app_assoc; reflexivity).
    assert (Hla : len (locals ++ [x]) = len locals + 1) by (rewrite len_app; unfold len; cbn [length]; lia).
    assert (Hw : zth rf' (len locals) = Some w).
    { specialize (Hv 0 ltac:(lia)). rewrite Z.add_0_r in Hv. rewrite Hv. reflexivity. }
    apply (IH ws ((x, w) :: rho) (locals ++ [x]) rf' rf'); try lia.
    + eapply env_cons; eassumption.
    + auto.
    + intros i Hi. rewrite Hla. replace (len locals + 1 + i) with (len locals + (1 + i)) by lia.
      rewrite Hv by lia. apply zth_cons_succ. lia.
Qed.

(* ---------- the store loop of compileAssignStmt ---------- *)
Lemma cas_moves_ok : forall ns ln top s u s' locals,
  cs_locals s = locals ->
  (forall x, In x ns -> existsb (beqb x) locals = true) ->
  len locals <= top - len ns + 1 -> top < 256 -> len locals <= 200 ->
  cas_moves ln top ns s = Some (u, s') ->
  cs_locals s' = locals /\ cs_regtop s' = cs_regtop s /\ cs_consts s' = cs_consts s /\
  exists seg, cs_code s' = seg ++ cs_code s /\ Forall u32 seg /\
    forall K rho rf tv, length ns = length tv -> env_rel rho locals rf -> rf_simple rf ->
      (forall j, 0 <= j < len tv -> zth rf (top - j) = zth tv j) ->
      exists rf', isem_okseq K (rev seg) rf = Some rf' /\ env_rel (pstore rho (combine ns tv)) locals rf' /\ rf_simple rf'.
Proof.
  induction ns as [|x ns IH]; intros ln top s u s' locals H1 Hin Htop H256 Hloc Hc.
  - cbn [cas_moves] in Hc. unfold cret in Hc. inversion Hc; subst s'.
    split; [assumption|]. split; [reflexivity|]. split; [reflexivity|].
    exists []. split; [reflexivity|]. split; [constructor|].
    intros K rho rf tv Hlen Henv Hs Htv. exists rf. cbn [rev isem_okseq combine]. unfold pstore. cbn [fold_left].
    split; [reflexivity|]. split; assumption.
  - cbn [cas_moves] in Hc. unfold cbind, addABC, add in Hc.
    assert (Hx : existsb (beqb x) locals = true) by (apply Hin; left; reflexivity).
    pose proof (existsb_find_last locals x Hx) as Hi0.
    pose proof (find_last_range locals x 0 (-1) ltac:(lia)) as Hi1.
    unfold FindLocalVar in Hc. rewrite H1 in Hc. set (idx := find_last locals x 0 (-1)) in *.
    assert (Hln : len (x :: ns) = 1 + len ns) by (unfold len; cbn [length]; lia).
    pose proof (len_nonneg _ ns) as Hnn. pose proof (len_nonneg _ locals) as Hnl.
    match type of Hc with cas_moves _ _ _ ?st = _ =>
      destruct (IH ln (top - 1) st u s' locals eq_refl (fun y Hy => Hin y (or_intror Hy)) ltac:(lia) ltac:(lia) Hloc Hc)
        as [C1 [C2 [C3 [seg [C4 [C5 C6]]]]]]
    end.
    cbn [cs_regtop cs_consts cs_code] in C2, C3, C4.
    split; [assumption|]. split; [assumption|]. split; [assumption|].
    exists (seg ++ [(opCreateABC (op_code OP_MOVE) idx top 0, ln)]).
    split; [rewrite C4, <- app_assoc; reflexivity|].
    split; [apply Forall_app; split; [assumption|constructor; [apply VM.OpcodeFacts.createABC_range|constructor]]|].
    intros K rho rf tv Hlen Henv Hs Htv. destruct tv as [|w tv]; [discriminate|].
    assert (Hlt : len (w :: tv) = 1 + len tv) by (unfold len; cbn [length]; lia).
    assert (Hlnt : len tv = len ns) by (unfold len; cbn [length] in Hlen; lia).
    rewrite rev_app_distr. cbn [rev app isem_okseq].
    assert (Hw : zth rf top = Some w).
    { specialize (Htv 0 ltac:(lia)). rewrite Z.sub_0_r in Htv. rewrite Htv. reflexivity. }
    pose proof Henv as [He Hle].
    destruct (setr_post rf idx w ltac:(lia)) as [rf1 [F1 [F2 [F3 F4]]]].
    rewrite (isem_move K idx top rf w ltac:(lia) ltac:(lia) Hw), F1. cbn [okres].
    assert (Sw : is_simple w = true).
    { unfold rf_simple in Hs. rewrite Forall_forall in Hs. apply Hs. eapply zth_In; eassumption. }
    assert (Hs1 : rf_simple rf1) by exact (setr_simple rf idx w rf1 Hs Sw F1).
    assert (Henv1 : env_rel (pupdate rho x w) locals rf1).
    { apply (env_update rho locals rf rf1 x w Henv); fold idx; try assumption; try lia.
      intros i Hi Hne. apply F4. assumption. }
    destruct (C6 K (pupdate rho x w) rf1 tv ltac:(cbn [length] in Hlen; lia) Henv1 Hs1) as [rf' [G1 [G2 G3]]].
    { intros j Hj. rewrite F4 by lia. replace (top - 1 - j) with (top - (1 + j)) by lia.
      rewrite Htv by lia. apply zth_cons_succ. lia. }
    exists rf'. split; [assumption|]. split; [|assumption].
    cbn [combine]. unfold pstore in *. cbn [fold_left fst snd]. exact G2.
Qed.

Lemma register_locals_ok : forall xs s u s', register_locals xs s = Some (u, s') ->
  cs_locals s' = cs_locals s ++ xs /\ cs_regtop s' = cs_regtop s + len xs /\
  (cs_regtop s <= 200 -> cs_regtop s' <= 200) /\ cs_code s' = cs_code s /\ cs_consts s' = cs_consts s.
Proof.
  induction xs as [|x xs IH]; intros s u s' H; cbn [register_locals] in H.
  - unfold cret in H. inversion H; subst. rewrite app_nil_r. unfold len. cbn [length].
    repeat split; try reflexivity; lia.
  - unfold cbind, RegisterLocalVar in H.
    destruct (cs_regtop s + 1 >? maxLocalVars) eqn:Et; [discriminate|].
    destruct (IH _ _ _ H) as [A1 [A2 [A3 [A4 A5]]]]. cbn [cs_locals cs_regtop cs_code cs_consts] in *.
    unfold maxLocalVars in Et.
    assert (Hl : len (x :: xs) = 1 + len xs) by (unfold len; cbn [length]; lia).
    split; [rewrite A1, <- app_assoc; reflexivity|]. split; [lia|]. split; [intro; apply A3; lia|]. split; assumption.
Qed.

(* ---------- statements ---------- *)
Definition stmt1_post (K : list value) (seg : list (Z * Z)) (ln : Z) (rf : rfile) (r : pres + list value)
  (next : list value -> rfile -> Prop) : Prop :=
  match r with
  | inr vs => exists rf', isem_okseq K (rev seg) rf = Some rf' /\ next vs rf' /\ rf_simple rf'
  | inl p => forall rest, isem_code K (rev seg ++ rest) rf = pcres ln p
  end.

Lemma budget_forall : forall locals es, budget locals es = true ->
  forall e, In e es -> len locals + len es + edepth e <= 250.
Proof.
  intros locals es H e Hin. unfold budget in H. rewrite forallb_forall in H. specialize (H e Hin).
  unfold maxRegisters in H. lia.
Qed.

Lemma local1_ok : forall ln xs es s s' locals u,
  forallb (expr_frag locals) es = true -> budget locals es = true -> len locals + len xs <= 250 ->
  cinv s locals -> compileStmt (SLocal ln xs es) s = Some (u, s') ->
  cinv s' (locals ++ xs) /\ prefix_of (cs_consts s) (cs_consts s') /\
  exists seg, cs_code s' = seg ++ cs_code s /\ Forall u32 seg /\
    forall K, prefix_of (cs_consts s') K -> forall rho rf, env_rel rho locals rf -> rf_simple rf ->
      stmt1_post K seg ln rf (pev_list rho es)
        (fun vs rf' => env_rel (rev (combine xs (adjust (length xs) vs)) ++ rho) (locals ++ xs) rf').
Proof.
  intros ln xs es s s' locals u Hf Hb Hx [H1 [H2 [H3 H4]]] Hc.
  pose proof (len_nonneg _ locals) as Hnn.
  cbn [compileStmt] in Hc. unfold compileLocalAssignStmt, cbind in Hc.
  destruct (compileRegAssignment ln (cs_regtop s) (length xs) es s) as [[u1 sA]|] eqn:Cr; [|discriminate].
  rewrite H2 in Cr.
  assert (Hnx : Z.of_nat (length xs) = len xs) by reflexivity.
  destruct (cra_ok (length xs) es locals ln (len locals) s u1 sA Hf (budget_forall _ _ Hb) ltac:(lia) H1 H2 (Z.le_refl _) H4 H3 Cr)
    as [B1 [B2 [B3 [B4 [seg [B5 [B6 B7]]]]]]].
  destruct (register_locals_ok xs sA u s' Hc) as [R1 [R2 [R3 [R4 R5]]]].
  assert (Hla : len (locals ++ xs) = len locals + len xs) by apply len_app.
  split.
  { unfold cinv. rewrite R1, R2, R5, B1, B2, Hla. repeat split; try reflexivity; try assumption.
    rewrite B2 in R2, R3. lia. }
  rewrite R5, R4. split; [assumption|]. exists seg. split; [assumption|]. split; [assumption|].
  intros K HK rho rf Henv Hs. rewrite pev_list_pevr. rewrite (pevr_list_ext _ _ es (proj1 Henv)).
  specialize (B7 K HK rf (proj2 Henv) Hs). unfold stmt1_post.
  destruct (pevr_list (vlook locals rf) es) as [p|vs]; [exact B7|].
  destruct B7 as [rf' [F1 [F2 [F3 [F4 F5]]]]].
  exists rf'. split; [assumption|]. split; [|assumption].
  assert (Hal : len (adjust (length xs) vs) = len xs) by (unfold len; rewrite adjust_length; reflexivity).
  apply (env_push_list xs (adjust (length xs) vs) rho locals rf rf'); try assumption.
  - rewrite adjust_length. reflexivity.
  - intros i Hi. apply F2. lia.
  - lia.
Qed.

Lemma compileAssignStmt_unfold : forall ln xs es s,
  compileAssignStmt ln xs es s =
  match car_all ln (cs_regtop s) (length xs) es s with
  | Some (reg, s1) => cas_moves ln (reg - 1) (rev xs) s1
  | None => None
  end.
Proof.
  intros. unfold compileAssignStmt, car_all, cbind, cret.
  destruct (car_names ln (cs_regtop s) (length xs) es s) as [[[reg rest] s1]|]; [|reflexivity].
  destruct (car_extra ln reg rest s1) as [[? ?]|]; reflexivity.
Qed.

Lemma forallb_In : forall A (f : A -> bool) l x, forallb f l = true -> In x l -> f x = true.
Proof. intros A f l x H Hin. rewrite forallb_forall in H. auto. Qed.

Lemma assign1_ok : forall ln lhs xs es s s' locals u,
  assign_targets lhs = Some xs ->
  forallb (fun x => existsb (beqb x) locals) xs = true -> 1 <= len xs ->
  forallb (expr_frag locals) es = true -> budget locals es = true -> len locals + len xs <= 250 ->
  cinv s locals -> compileStmt (SAssign ln lhs es) s = Some (u, s') ->
  cinv s' locals /\ prefix_of (cs_consts s) (cs_consts s') /\
  exists seg, cs_code s' = seg ++ cs_code s /\ Forall u32 seg /\
    forall K, prefix_of (cs_consts s') K -> forall rho rf, env_rel rho locals rf -> rf_simple rf ->
      stmt1_post K seg ln rf (pev_list rho es)
        (fun vs rf' => env_rel (pstore rho (rev (combine xs (adjust (length xs) vs)))) locals rf').
Proof.
  intros ln lhs xs es s s' locals u Hat Hxs Hx1 Hf Hb Hx [H1 [H2 [H3 H4]]] Hc.
  pose proof (len_nonneg _ locals) as Hnn.
  cbn [compileStmt] in Hc. rewrite Hat in Hc. rewrite compileAssignStmt_unfold in Hc. rewrite H2 in Hc.
  destruct (car_all _ _ _ _ _) as [[reg sA]|] eqn:Ca in Hc; [|discriminate].
  assert (Hnx : Z.of_nat (length xs) = len xs) by reflexivity.
  destruct (car_ok (length xs) es locals ln (len locals) s reg sA Hf (budget_forall _ _ Hb) ltac:(lia) H1 H2 (Z.le_refl _) H4 H3 Ca)
    as [Hreg [B1 [B2 [B3 [B4 [segF [B5 [B6 B7]]]]]]]].
  assert (Hlr : len (rev xs) = len xs) by (unfold len; rewrite rev_length; reflexivity).
  destruct (cas_moves_ok (rev xs) ln (reg - 1) sA u s' locals B1
              (fun x Hin => forallb_In _ _ xs x Hxs (proj2 (in_rev xs x) Hin)) ltac:(nlia) ltac:(nlia) H4 Hc)
    as [C1 [C2 [C3 [segM [C4 [C5 C6]]]]]].
  change name with bytes in *.
  split.
  { unfold cinv. rewrite C1, C2, C3, B2. repeat split; try reflexivity; assumption. }
  rewrite C3. split; [assumption|].
  exists (segM ++ segF). split; [rewrite C4, B5, app_assoc; reflexivity|].
  split; [apply Forall_app; split; assumption|].
  intros K HK rho rf Henv Hs. rewrite pev_list_pevr. rewrite (pevr_list_ext _ _ es (proj1 Henv)).
  specialize (B7 K HK rf (proj2 Henv) Hs). unfold stmt1_post. rewrite rev_app_distr.
  destruct (pevr_list (vlook locals rf) es) as [p|vs].
  { intro rest. rewrite <- app_assoc. apply B7. }
  destruct B7 as [rfA [F1 [F2 [F3 [F4 F5]]]]].
  set (ws := adjust (length xs) vs) in *.
  assert (Hal : len ws = len xs) by (unfold len, ws; rewrite adjust_length; reflexivity).
  assert (HenvA : env_rel rho locals rfA) by (eapply env_rel_ext; [exact Henv|exact F4|nlia]).
  destruct (C6 K rho rfA (rev ws) ltac:(rewrite !rev_length; unfold ws; rewrite adjust_length; reflexivity) HenvA F5)
    as [rf' [G1 [G2 G3]]].
  { intros j Hj. assert (Hlrw : len (rev ws) = len ws) by (unfold len; rewrite rev_length; reflexivity).
    rewrite zth_rev by nlia. rewrite <- F2 by nlia. f_equal. nlia. }
  exists rf'. split; [rewrite isem_okseq_app, F1; assumption|]. split; [|assumption].
  rewrite rev_combine by (unfold ws; rewrite adjust_length; reflexivity). exact G2.
Qed.

(* ---------- the chunk ---------- *)
Lemma chunk1_ok : forall b locals s u s',
  stmts_frag1 locals b = true -> cinv s locals -> compileChunk b s = Some (u, s') ->
  len (cs_consts s') <= 262144 /\ prefix_of (cs_consts s) (cs_consts s') /\
  exists seg, cs_code s' = seg ++ cs_code s /\ Forall u32 seg /\
    forall K, prefix_of (cs_consts s') K -> forall rho rf fin, env_rel rho locals rf -> rf_simple rf ->
      isem_code K (rev seg ++ [final_ret fin]) rf = prun1 rho b.
Proof.
  induction b as [|st b IH]; intros locals s u s' Hf Hinv Hc.
  - cbn [compileChunk] in Hc. unfold cret in Hc. inversion Hc; subst s'.
    destruct Hinv as [H1 [H2 [H3 H4]]]. split; [assumption|]. split; [apply prefix_refl|].
    exists []. split; [reflexivity|]. split; [constructor|].
    intros K HK rho rf fin Henv Hs. cbn [rev app isem_code prun1 final_ret].
    rewrite isem_return by (pose proof (len_nonneg _ rf); lia). reflexivity.
  - cbn [compileChunk] in Hc. unfold cbind at 1 in Hc.
    destruct (compileStmt st s) as [[u1 s1]|] eqn:Cs; [|discriminate].
    destruct st as [ln xs es|ln lhs es| | | | | | | | |ln es| | |]; cbn [stmts_frag1] in Hf; try discriminate.
    + (* local *)
      apply andb_true_iff in Hf. destruct Hf as [Hf Hr]. apply andb_true_iff in Hf. destruct Hf as [Hf Hx].
      apply andb_true_iff in Hf. destruct Hf as [Hf Hb]. apply andb_true_iff in Hf. destruct Hf as [_ Hf].
      unfold maxRegisters in Hx. change name with bytes in Hx.
      destruct (local1_ok ln xs es s s1 locals u1 Hf Hb ltac:(nlia) Hinv Cs) as [I1 [P1 [segA [C1 [U1 S1]]]]].
      destruct (IH (locals ++ xs) s1 u s' Hr I1 Hc) as [K2 [P2 [segB [C2 [U2 S2]]]]].
      split; [assumption|]. split; [eapply prefix_trans; eassumption|].
      exists (segB ++ segA). split; [rewrite C2, C1, app_assoc; reflexivity|].
      split; [apply Forall_app; split; assumption|].
      intros K HK rho rf fin Henv Hs. rewrite rev_app_distr, <- app_assoc. cbn [prun1].
      specialize (S1 K (prefix_trans _ _ _ P2 HK) rho rf Henv Hs). unfold stmt1_post in S1.
      destruct (pev_list rho es) as [p|vs]; [apply S1|].
      destruct S1 as [rf' [E1 [E2 E3]]]. rewrite (isem_code_app _ _ _ _ _ E1). apply S2; assumption.
    + (* assignment *)
      apply andb_true_iff in Hf. destruct Hf as [Hf Hr].
      destruct (assign_targets lhs) as [xs|] eqn:Hat; [|discriminate].
      apply andb_true_iff in Hf. destruct Hf as [Hf Hx]. apply andb_true_iff in Hf. destruct Hf as [Hf Hb].
      apply andb_true_iff in Hf. destruct Hf as [Hf Hfe]. apply andb_true_iff in Hf. destruct Hf as [Hf Hxs].
      apply andb_true_iff in Hf. destruct Hf as [Hx1 _].
      unfold maxRegisters in Hx. change name with bytes in Hx, Hx1.
      destruct (assign1_ok ln lhs xs es s s1 locals u1 Hat Hxs ltac:(nlia) Hfe Hb ltac:(nlia) Hinv Cs) as [I1 [P1 [segA [C1 [U1 S1]]]]].
      destruct (IH locals s1 u s' Hr I1 Hc) as [K2 [P2 [segB [C2 [U2 S2]]]]].
      split; [assumption|]. split; [eapply prefix_trans; eassumption|].
      exists (segB ++ segA). split; [rewrite C2, C1, app_assoc; reflexivity|].
      split; [apply Forall_app; split; assumption|].
      intros K HK rho rf fin Henv Hs. rewrite rev_app_distr, <- app_assoc. cbn [prun1]. rewrite Hat.
      specialize (S1 K (prefix_trans _ _ _ P2 HK) rho rf Henv Hs). unfold stmt1_post in S1.
      destruct (pev_list rho es) as [p|vs]; [apply S1|].
      destruct S1 as [rf' [E1 [E2 E3]]]. rewrite (isem_code_app _ _ _ _ _ E1). apply S2; assumption.
    + (* return *)
      apply andb_true_iff in Hf. destruct Hf as [Hf Hd]. apply andb_true_iff in Hf. destruct Hf as [Hb Hf].
      destruct b; [|discriminate]. cbn [compileChunk] in Hc. unfold cret in Hc. inversion Hc; subst s'.
      unfold maxRegisters in Hd.
      destruct (return_ok ln es s s1 locals u1 Hf Hd Hinv Cs) as [K1 [P1 [seg [C1 [U1 S1]]]]].
      split; [assumption|]. split; [assumption|].
      exists seg. split; [assumption|]. split; [assumption|].
      intros K HK rho rf fin Henv Hs. cbn [prun1]. rewrite (S1 K HK rho rf Henv Hs).
      destruct (pev_list rho es) as [[| |]|]; reflexivity.
Qed.

(* ---------- the front half on F1 ---------- *)
Theorem front_half1_lemma :
  forall b x s, in_frag1 b = true -> compileChunk b (mkCS [] [] [] 0) = Some (x, s) ->
    let full := rev ((opCreateABC (op_code OP_RETURN) 0 1 0, last_line b 0) :: cs_code s) in
    isem_code (cs_consts s) full [] = prun1 [] b /\ Forall (fun wl => 0 <= fst wl < 2 ^ 32) full.
Proof.
  intros b x s Hin Hc full. unfold in_frag1 in Hin.
  assert (Hinv : cinv (mkCS [] [] [] 0) []).
  { unfold cinv, len. cbn [cs_locals cs_regtop cs_consts length]. repeat split; lia. }
  destruct (chunk1_ok b [] (mkCS [] [] [] 0) x s Hin Hinv Hc) as [K1 [P1 [seg [C1 [U1 S1]]]]].
  cbn [cs_code] in C1. rewrite app_nil_r in C1.
  assert (Hfull : full = rev seg ++ [final_ret (last_line b 0)]).
  { unfold full. rewrite C1. reflexivity. }
  rewrite Hfull. split.
  - apply (S1 (cs_consts s) (prefix_refl _) [] [] (last_line b 0)); [|constructor].
    split; [|unfold len; cbn [length]; lia]. intro y. reflexivity.
  - apply Forall_app. split.
    + apply Forall_rev. exact U1.
    + constructor; [|constructor]. unfold final_ret. cbn [fst]. apply VM.OpcodeFacts.createABC_range.
Qed.

(* F0 is inside F1 *)
Lemma stmts_frag_frag1 : forall b locals, stmts_frag locals b = true -> stmts_frag1 locals b = true.
Proof.
  induction b as [|st b IH]; intros locals H; [reflexivity|].
  destruct st as [ln xs es|ln lhs es| | | | | | | | |ln es| | |]; cbn [stmts_frag] in H; try discriminate.
  - destruct xs as [|x [|x2 xs]]; try discriminate. destruct es as [|e [|e2 es]]; try discriminate.
    apply andb_true_iff in H. destruct H as [H Hr]. apply andb_true_iff in H. destruct H as [H Hd].
    apply andb_true_iff in H. destruct H as [_ Hf].
    cbn [stmts_frag1 forallb budget]. unfold budget. cbn [forallb]. rewrite Hf, (IH _ Hr).
    pose proof (edepth_nonneg e). unfold len in *. cbn [length] in *.
    repeat (apply andb_true_iff; split); try reflexivity; lia.
  - destruct lhs as [|l1 lhs]; try discriminate. destruct l1; try discriminate. destruct lhs; try discriminate.
    destruct es as [|e [|e2 es]]; try discriminate.
    apply andb_true_iff in H. destruct H as [H Hr]. apply andb_true_iff in H. destruct H as [H Hd].
    apply andb_true_iff in H. destruct H as [Hx Hf].
    cbn [stmts_frag1 assign_targets forallb]. unfold budget. cbn [forallb]. rewrite Hf, Hx, (IH _ Hr).
    pose proof (edepth_nonneg e). unfold len in *. cbn [length] in *.
    repeat (apply andb_true_iff; split); try reflexivity; lia.
  - cbn [stmts_frag1]. exact H.
Qed.

Theorem frag0_in_frag1 : forall b, in_frag b = true -> in_frag1 b = true.
Proof. intros b H. apply stmts_frag_frag1. exact H. Qed.
