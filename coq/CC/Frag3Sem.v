(* CC: the fragment F3 = F2 (Frag2Sem.in_frag2) + reads of undefined globals: a name that is not a
   local in scope and is not a key of the initial global table (Lua/Run.v g_globals, the same table
   in the VM model's initial state) reads as nil - GETGLOBAL in the compiled code, the gettable
   event on the function environment in the reference evaluator. Fragment programs never assign
   globals, so the global table stays the initial one. Definitions only.

   isem3: the straight-line bytecode semantics isem of FragSem.v extended with OP_GETGLOBAL of an
   undefined name. *)
From Coq Require Import Floats.
From GL Require Import Common.Bytes Lua.Syntax Lua.Num Lua.Values Lua.Eval Lua.Run.
From GL Require Import VMX.Machine CC.CompModel CC.FragSem CC.Frag1Sem CC.Frag2Sem.

Definition undefined_global (x : name) : bool := is_nil (kv_get (t_kv g_globals) (VStr x)).

(* ---------- straight-line bytecode with GETGLOBAL ---------- *)
Definition isem3_inst (consts : list value) (w : Z) (rf : rfile) : ires :=
  match op_of_code (opGetOpCode w) with
  | Some OP_GETGLOBAL =>
      match zth consts (opGetArgBx w) with
      | Some (VStr x) =>
          if undefined_global x
          then match setr rf (opGetArgA w) VNil with Some rf' => IOk rf' | None => IStuck end
          else IStuck
      | _ => IStuck
      end
  | _ => isem_inst consts w rf
  end.

Fixpoint isem3_code (consts : list value) (code : list (Z * Z)) (rf : rfile) : cres :=
  match code with
  | [] => CStuck
  | (w, ln) :: r =>
      match isem3_inst consts w rf with
      | IOk rf' => isem3_code consts r rf'
      | IRet vs => CRet vs
      | IFault => CFault ln
      | IUnsup => CUnsup
      | IStuck => CStuck
      end
  end.

(* ---------- direct semantics ---------- *)
Fixpoint pev3 (rho : penv) (e : expr) : pres :=
  match e with
  | ENil => PV VNil | ETrue => PV (VBool true) | EFalse => PV (VBool false)
  | ENum f => PV (VNum f)
  | EStr s => PV (VStr s)
  | EVar x => match plookup rho x with
              | Some v => PV v
              | None => if undefined_global x then PV VNil else PUnsup
              end
  | EParen a => pev3 rho a
  | EBin o a b =>
      match pev3 rho a with
      | PV x => match pev3 rho b with PV y => parith o x y | r => r end
      | r => r
      end
  | EUn ONeg a => match pev3 rho a with PV (VNum f) => PV (VNum (- f)%float) | PV _ => PFault | r => r end
  | EUn ONot a => match pev3 rho a with PV v => PV (VBool (negb (truthy v))) | r => r end
  | _ => PUnsup
  end.

Fixpoint pev3_list (rho : penv) (es : list expr) : pres + list value :=
  match es with
  | [] => inr []
  | e :: r => match pev3 rho e with
              | PV v => match pev3_list rho r with inr vs => inr (v :: vs) | inl x => inl x end
              | x => inl x
              end
  end.

Fixpoint prun3 (rho : penv) (b : list stmt) : cres :=
  match b with
  | [] => CRet []
  | SLocal ln xs es :: r =>
      match pev3_list rho es with
      | inr vs => prun3 (rev (combine xs (adjust (length xs) vs)) ++ rho) r
      | inl p => pcres ln p
      end
  | SAssign ln lhs es :: r =>
      match assign_targets lhs with
      | Some xs =>
          match pev3_list rho es with
          | inr vs => prun3 (pstore rho (rev (combine xs (adjust (length xs) vs)))) r
          | inl p => pcres ln p
          end
      | None => CStuck
      end
  | SReturn ln es :: _ =>
      match pev3_list rho es with inr vs => CRet vs | inl p => pcres ln p end
  | _ => CStuck
  end.

(* ---------- the static check ---------- *)
Fixpoint expr_frag3 (T : list name) (locals : list name) (e : expr) : bool :=
  match e with
  | ENil | ETrue | EFalse | ENum _ | EStr _ => true
  | EVar x => existsb (beqb x) locals || undefined_global x
  | EParen a => expr_frag3 T locals a
  | EBin o a b => is_arith_op o && expr_frag3 T locals a && expr_frag3 T locals b
                  && negb (estr T a) && negb (estr T b)
  | EUn ONeg a => expr_frag3 T locals a && negb (estr T a)
  | EUn ONot a => expr_frag3 T locals a
  | _ => false
  end.

Fixpoint stmts_frag3 (T : list name) (locals : list name) (b : list stmt) : bool :=
  match b with
  | [] => true
  | SLocal _ xs es :: r =>
      (1 <=? len xs) && forallb (expr_frag3 T locals) es && budget locals es
      && (len locals + len xs <=? maxRegisters) && targets_ok T xs es && stmts_frag3 T (locals ++ xs) r
  | SAssign _ lhs es :: r =>
      match assign_targets lhs with
      | Some xs =>
          (1 <=? len xs) && (1 <=? len es) && forallb (fun x => existsb (beqb x) locals) xs
          && forallb (expr_frag3 T locals) es && budget locals es
          && (len locals + len xs <=? maxRegisters) && targets_ok T xs es
      | None => false
      end && stmts_frag3 T locals r
  | SReturn _ es :: r =>
      match r with [] => true | _ => false end &&
      forallb (expr_frag3 T locals) es &&
      forallb (fun e => len locals + len es + 1 + edepth e <=? maxRegisters) es
  | _ => false
  end.

Definition in_frag3 (b : list stmt) : bool := stmts_frag3 (taint b) [] b.
