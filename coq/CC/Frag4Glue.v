(* CC: the end-to-end statement on the fragment F4 (Frag4Sem.in_frag4: multi-target local
   declarations / assignments to locals, string literals inside the exact fragment of the
   number coercion, reads of undefined globals, arithmetic and unary minus on any of these values
   with the coercion of numeric strings), glued from the back half for isem4
   (CompFactsVM4.vm_runs_isem_lemma), the front half (Frag4Facts.front_half4_lemma) and the reference
   half (Frag4Eval.frag4_run_lemma). *)
From Coq Require Import Floats Lia.
From GL Require Import Common.Bytes Lua.Syntax Lua.Num Lua.Values Lua.Eval Lua.Run Lua.LuaCases.
From GL Require Import VMX.Machine VMX.VRun CC.CompModel CC.FragSem CC.Frag1Sem CC.Frag2Sem CC.Frag3Sem CC.Frag4Sem.
From GL Require Import CC.FragEvalFacts CC.FragGlue.
From GL Require CC.CompFactsVM4 CC.Frag4Facts CC.Frag4Eval.

Definition front_half4 : Prop :=
  forall b x s, in_frag4 b = true -> compileChunk b (mkCS [] [] [] 0) = Some (x, s) ->
    let full := rev ((opCreateABC (op_code OP_RETURN) 0 1 0, last_line b 0) :: cs_code s) in
    isem4_code (cs_consts s) full [] = prun4 [] b /\ Forall (fun wl => 0 <= fst wl < 2 ^ 32) full.

Definition frag4_compile_correct_stmt : Prop :=
  forall b p, in_frag4 b = true -> compile_frag b = Some p ->
  exists n, forall fuel, (n <= fuel)%nat ->
    is_skip (outcome_of (Run.run_program fuel no_devs b)) = false ->
    outcome_of_vfin (run_proto fuel p) = outcome_of (Run.run_program fuel no_devs b).

Theorem frag4_glue : front_half4 -> frag4_compile_correct_stmt.
Proof.
  intros F b p Hin Hc. unfold compile_frag in Hc.
  destruct (compileChunk b (mkCS [] [] [] 0)) as [[x s]|] eqn:E; [|discriminate].
  cbv zeta in Hc. destruct (F b x s Hin E) as [Hsem Hw]. cbv zeta in Hsem, Hw.
  set (full := rev ((opCreateABC (op_code OP_RETURN) 0 1 0, last_line b 0) :: cs_code s)) in *.
  destruct (num_used_registers (map fst full) >? maxRegisters); [discriminate|].
  assert (Hp : p = CompFactsVM4.frag_proto full (cs_consts s) (num_used_registers (map fst full))).
  { inversion Hc. unfold CompFactsVM4.frag_proto. rewrite map_length. reflexivity. }
  exists (Nat.max (Frag4Eval.frag_fuel4 b) (length full + 2)). intros fuel Hfuel Hskip.
  pose proof (CompFactsVM4.vm_runs_isem_lemma full (cs_consts s) (num_used_registers (map fst full)) fuel
                (num_used_registers_pos _) Hw ltac:(lia)) as HV.
  pose proof (Frag4Eval.frag4_run_lemma b fuel no_devs Hin ltac:(lia)) as HR.
  rewrite Hsem in HV. rewrite <- Hp in HV.
  destruct (prun4 [] b) as [vs|ln| |].
  - destruct HV as [s1 [E1 T1]]. destruct HR as [s2 [E2 [T2 _]]]. rewrite E1, E2.
    cbn [outcome_of_vfin outcome_of]. rewrite T1, T2. reflexivity.
  - destruct HV as [s1 [E1 T1]]. destruct HR as [s2 [E2 T2]]. rewrite E1, E2.
    cbn [outcome_of_vfin outcome_of]. rewrite T1, T2. reflexivity.
  - rewrite HR in Hskip. discriminate.
  - contradiction.
Qed.

Theorem frag4_compile_correct_lemma : frag4_compile_correct_stmt.
Proof. exact (frag4_glue Frag4Facts.front_half4_lemma). Qed.


(* F4 contains the programs of F3 all of whose string literals are inside the exact fragment of the
   number coercion *)
Fixpoint strs_ok (e : expr) : bool :=
  match e with
  | EStr s => lit_ok s
  | EParen a => strs_ok a
  | EBin _ a b => strs_ok a && strs_ok b
  | EUn _ a => strs_ok a
  | _ => true
  end.

Definition stmt_strs_ok (st : stmt) : bool :=
  match st with
  | SLocal _ _ es | SAssign _ _ es | SReturn _ es => forallb strs_ok es
  | _ => true
  end.

Lemma expr_frag3_frag4 : forall T locals e, expr_frag3 T locals e = true -> strs_ok e = true -> expr_frag4 locals e = true.
Proof.
  intros T locals e. induction e; simpl; intros H S; try discriminate; try reflexivity; try assumption.
  - apply andb_prop in H. destruct H as [H _]. apply andb_prop in H. destruct H as [H _].
    apply andb_prop in H. destruct H as [H H2]. apply andb_prop in H. destruct H as [Ho H1].
    apply andb_prop in S. destruct S as [S1 S2].
    rewrite Ho, (IHe1 H1 S1), (IHe2 H2 S2). reflexivity.
  - destruct o; try discriminate.
    + apply andb_prop in H. destruct H as [H _]. apply IHe; assumption.
    + apply IHe; assumption.
  - apply IHe; assumption.
Qed.

Lemma forallb_frag3_frag4 : forall T locals es, forallb (expr_frag3 T locals) es = true -> forallb strs_ok es = true ->
  forallb (expr_frag4 locals) es = true.
Proof.
  intros T locals es. induction es as [|e r IH]; simpl; intros H S; [reflexivity|].
  apply andb_prop in H. destruct H as [H1 H2]. apply andb_prop in S. destruct S as [S1 S2].
  rewrite (expr_frag3_frag4 _ _ _ H1 S1), (IH H2 S2). reflexivity.
Qed.

Lemma stmts_frag3_frag4 : forall T b locals, stmts_frag3 T locals b = true -> forallb stmt_strs_ok b = true ->
  stmts_frag4 locals b = true.
Proof.
  intros T. induction b as [|st b IH]; intros locals H S; [reflexivity|].
  cbn [forallb] in S. apply andb_prop in S. destruct S as [S1 S2].
  destruct st as [ln xs es|ln lhs es| | | | | | | | |ln es| | |]; cbn [stmts_frag3] in H; try discriminate;
    cbn [stmts_frag4]; cbn [stmt_strs_ok] in S1.
  - apply andb_prop in H. destruct H as [H Hr]. apply andb_prop in H. destruct H as [H _].
    apply andb_prop in H. destruct H as [H Hx]. apply andb_prop in H. destruct H as [H Hb].
    apply andb_prop in H. destruct H as [H1 Hf].
    rewrite H1, (forallb_frag3_frag4 _ _ _ Hf S1), Hb, Hx, (IH _ Hr S2). reflexivity.
  - apply andb_prop in H. destruct H as [H Hr].
    destruct (assign_targets lhs) as [xs|]; [|discriminate].
    apply andb_prop in H. destruct H as [H _]. apply andb_prop in H. destruct H as [H Hx].
    apply andb_prop in H. destruct H as [H Hb]. apply andb_prop in H. destruct H as [H Hf].
    apply andb_prop in H. destruct H as [H Hxs]. apply andb_prop in H. destruct H as [H1 H2].
    rewrite H1, H2, Hxs, (forallb_frag3_frag4 _ _ _ Hf S1), Hb, Hx, (IH _ Hr S2). reflexivity.
  - apply andb_prop in H. destruct H as [H Hd]. apply andb_prop in H. destruct H as [Hb Hf].
    rewrite Hb, (forallb_frag3_frag4 _ _ _ Hf S1), Hd. reflexivity.
Qed.

Theorem frag3_in_frag4 : forall b, in_frag3 b = true -> forallb stmt_strs_ok b = true -> in_frag4 b = true.
Proof. intros b H S. exact (stmts_frag3_frag4 _ b [] H S). Qed.
